/-!
# M11: the dirty flag – direct section writes versus manager commits (C18)

Transcribes (pinned tree)
* `Retriever.set_data(value, affect_dirty)` and the `data` property/setter (`retriever.py`):
  `Cell.userSet` = the public setter (`section.field = v`, via `AoE2FileSection.__setattr__`),
  `Cell.internalSet allow` = `set_data(v, affect_dirty=False)` under `settings.ALLOW_DIRTY_RETRIEVER_OVERWRITE = allow`;
* `RetrieverObjectLink.push_to_link` (plain links and object-list links), `update_retriever_length`
  (`updateLength`: cut by an internal write; grow by `retriever.data += [defaults…]`, i.e. the list is extended in
  place **and then handed to the user setter** – DESIGN §10 defect F2; `Cfg.fixed = true` is the repaired variant
  that grows through `set_data(…, affect_dirty=False)`), `commit_object_list` (`commitObjs`: object `i` is written
  into record `i`; an object beyond the list is the Python `IndexError`);
* `dependency.handle_retriever_dependency` for the `on_commit: REFRESH` → `on_refresh: SET_VALUE` chains of the
  count fields (`refreshAll`: `len(list)` / `int(math.sqrt(len(list)))` written with `affect_dirty=False`);
* `AoE2Object.commit` / `AoE2Scenario.write_to_file`: `commit` runs the *commit program* (the pushes in the order
  the library performs them – managers in commit order, links reversed; the program is data read from the
  `_link_list`s by the harness) and the saved file is the content of the cells afterwards (`Retriever.get_data_as_bytes`
  serialises `data` as it is).

A scenario is a finite map from fields to cells (total functions into `Option`: an absent field is the Python
`KeyError`), the struct lists with their records, and what the managers hold. Nothing here is defaulted: every
Python operation that can raise on the modelled path is an `Except Err` step.
-/
namespace Aoe.Dirty

/-- values written into retrievers: integers (needed for the count fields) or an opaque canonical token -/
inductive Val
  | int (i : Int)
  | tok (s : String)
  deriving DecidableEq, Repr

/-- the Python exceptions on the modelled path -/
inductive Err
  | key      -- `retriever_map[name]` / `getattr(manager, name)` on a name that does not exist
  | index    -- `section.list[i]` with `i` beyond the list (an object without a record)
  | type     -- `len(None)`
  deriving DecidableEq, Repr

/-- a retriever: its data (`None` possible) and the user-edited marker `is_dirty` -/
structure Cell (α : Type) where
  data : Option α
  dirty : Bool
  deriving DecidableEq, Repr

namespace Cell
variable {α : Type}

/-- the public setter `retriever.data = v` (`set_data(v, affect_dirty=True)`): always assigns, and marks the
retriever dirty **iff its data was not `None` before** (`if affect_dirty and self._data is not None`) -/
def userSet (c : Cell α) (v : Option α) : Cell α :=
  { data := v, dirty := c.dirty || c.data.isSome }

/-- `set_data(v, affect_dirty=False)`: dropped when the retriever is dirty and `ALLOW_DIRTY_RETRIEVER_OVERWRITE`
is off; otherwise assigns and leaves the marker alone -/
def internalSet (allow : Bool) (c : Cell α) (v : α) : Cell α :=
  if c.dirty && !allow then c else { data := some v, dirty := c.dirty }

end Cell

abbrev Field := Nat

/-- a record (a top-level section flattened, or one struct instance): retriever name ↦ retriever -/
abbrev Rec := Field → Option (Cell Val)

def recSet (r : Rec) (f : Field) (c : Cell Val) : Rec := fun k => if k = f then some c else r k

/-- a manager-side object: the values of its plain links, in the order they are pushed -/
abbrev MObj := List (Field × Val)

/-- how a count field is recomputed from the length of its list (`on_refresh: SET_VALUE`) -/
inductive Deriv
  | len        -- `len(x)`
  | sqrtLen    -- `int(math.sqrt(len(x)))`
  deriving DecidableEq, Repr

def Deriv.eval : Deriv → Nat → Val
  | .len, n => .int n
  | .sqrtLen, n => .int (Nat.sqrt n)

/-- one `push_to_link` of the commit -/
inductive Push
  /-- plain link: `retriever.set_data(getattr(manager, name), affect_dirty=False)` -/
  | plain (slot : Nat) (f : Field)
  /-- object-list link: `update_retriever_length`, `commit_object_list`, then the `on_commit: REFRESH` targets -/
  | objs (l : Field) (refresh : List (Field × Deriv))
  deriving Repr

structure Cfg where
  allow : Bool            -- `settings.ALLOW_DIRTY_RETRIEVER_OVERWRITE`
  fixed : Bool            -- `false`: the pinned `update_retriever_length`; `true`: grow through an internal write
  prog  : List Push       -- the commit program
  dflt  : Field → Rec     -- `AoE2FileSection.from_model(model, set_defaults=True)` of each struct list

structure Scn where
  plain : Rec                                   -- the plain retrievers
  lists : Field → Option (Cell (List Rec))      -- the struct-list retrievers
  mgr   : Nat → Option Val                      -- what the managers hold for their plain links
  mobjs : Field → List MObj                     -- the managers' object lists

def listSet (m : Field → Option (Cell (List Rec))) (l : Field) (c : Cell (List Rec)) :
    Field → Option (Cell (List Rec)) := fun k => if k = l then some c else m k

/-! ### commit -/

/-- plain link -/
def pushPlain (allow : Bool) (s : Scn) (slot : Nat) (f : Field) : Except Err Scn :=
  match s.plain f with
  | none => .error .key
  | some c =>
    match s.mgr slot with
    | none => .error .key
    | some v => .ok { s with plain := recSet s.plain f (c.internalSet allow v) }

/-- `update_retriever_length(retriever, model, new_length)` -/
def updateLength (cfg : Cfg) (l : Field) (c : Cell (List Rec)) (n : Nat) : Except Err (Cell (List Rec)) :=
  match c.data with
  | none => .error .type
  | some recs =>
    if n = recs.length then .ok c
    else if n < recs.length then .ok (c.internalSet cfg.allow (recs.take n))
    else
      let grown := recs ++ List.replicate (n - recs.length) (cfg.dflt l)
      if cfg.fixed then .ok (c.internalSet cfg.allow grown)
      else .ok (c.userSet (some grown))    -- `retriever.data += […]`: in-place `list.__iadd__`, then the USER setter

/-- `obj.commit()` of one object into its record: every plain link is an internal write -/
def commitObj (allow : Bool) (r : Rec) : MObj → Except Err Rec
  | [] => .ok r
  | (f, v) :: rest =>
    match r f with
    | none => .error .key
    | some c => commitObj allow (recSet r f (c.internalSet allow v)) rest

/-- `commit_object_list`: object `i` goes to record `i`; records beyond the objects are left alone (that only
happens when a cut was dropped), an object beyond the records is an `IndexError` -/
def commitObjs (allow : Bool) : List Rec → List MObj → Except Err (List Rec)
  | recs, [] => .ok recs
  | [], _ :: _ => .error .index
  | r :: recs, o :: os =>
    match commitObj allow r o with
    | .error e => .error e
    | .ok r' =>
      match commitObjs allow recs os with
      | .error e => .error e
      | .ok rs => .ok (r' :: rs)

/-- the `REFRESH` targets of a list: `target.set_data(eval, affect_dirty=False)` -/
def refreshAll (allow : Bool) (p : Rec) (n : Nat) : List (Field × Deriv) → Except Err Rec
  | [] => .ok p
  | (t, d) :: rest =>
    match p t with
    | none => .error .key
    | some c => refreshAll allow (recSet p t (c.internalSet allow (d.eval n))) n rest

/-- object-list link -/
def pushObjs (cfg : Cfg) (s : Scn) (l : Field) (refresh : List (Field × Deriv)) : Except Err Scn :=
  match s.lists l with
  | none => .error .key
  | some c =>
    match updateLength cfg l c (s.mobjs l).length with
    | .error e => .error e
    | .ok c1 =>
      match c1.data with
      | none => .error .type
      | some recs =>
        match commitObjs cfg.allow recs (s.mobjs l) with
        | .error e => .error e
        | .ok recs' =>
          -- the records are mutated in place: the list retriever itself is not assigned again
          match refreshAll cfg.allow s.plain recs'.length refresh with
          | .error e => .error e
          | .ok p => .ok { s with lists := listSet s.lists l { c1 with data := some recs' }, plain := p }

def push (cfg : Cfg) (s : Scn) : Push → Except Err Scn
  | .plain slot f => pushPlain cfg.allow s slot f
  | .objs l refresh => pushObjs cfg s l refresh

/-- run a commit program -/
def commit (cfg : Cfg) : List Push → Scn → Except Err Scn
  | [], s => .ok s
  | p :: ps, s =>
    match push cfg s p with
    | .error e => .error e
    | .ok s' => commit cfg ps s'

/-- `write_to_file`: commit every manager, then the cells are serialised as they are -/
def save (cfg : Cfg) (s : Scn) : Except Err Scn := commit cfg cfg.prog s

/-! ### what a saved file contains -/

/-- value of a plain field in the file written from `s` -/
def savedPlain (s : Scn) (f : Field) : Option Val := (s.plain f).bind (·.data)

/-- the records of a struct list in the file written from `s` -/
def savedRecs (s : Scn) (l : Field) : Option (List Rec) := (s.lists l).bind (·.data)

/-- value of field `f` of record `i` of list `l` -/
def savedRec (s : Scn) (l : Field) (i : Nat) (f : Field) : Option Val :=
  ((savedRecs s l).bind (·[i]?)).bind (fun r => (r f).bind (·.data))

/-! ### histories -/

inductive Op
  /-- `scenario.sections[X].f = v` (an unknown name only creates a Python attribute: no retriever changes) -/
  | userSet (f : Field) (v : Option Val)
  /-- `scenario.sections[X].l[i].f = v` -/
  | userRec (l : Field) (i : Nat) (f : Field) (v : Option Val)
  /-- `scenario.sections[X].l = recs` (a struct list assigned directly) -/
  | userList (l : Field) (recs : Option (List Rec))
  /-- a manager attribute now holds `v` -/
  | mgrSet (slot : Nat) (v : Val)
  /-- a manager's object list now is `objs` (objects added, removed, edited) -/
  | mgrObjs (l : Field) (objs : List MObj)
  | save

def step (cfg : Cfg) (s : Scn) : Op → Except Err Scn
  | .userSet f v =>
    match s.plain f with
    | none => .ok s
    | some c => .ok { s with plain := recSet s.plain f (c.userSet v) }
  | .userRec l i f v =>
    match s.lists l with
    | none => .error .key
    | some c =>
      match c.data with
      | none => .error .type
      | some recs =>
        match recs[i]? with
        | none => .error .index
        | some r =>
          match r f with
          | none => .ok s
          | some x => .ok { s with lists := listSet s.lists l { c with data := some (recs.set i (recSet r f (x.userSet v))) } }
  | .userList l recs =>
    match s.lists l with
    | none => .ok s
    | some c => .ok { s with lists := listSet s.lists l (c.userSet recs) }
  | .mgrSet slot v => .ok { s with mgr := fun k => if k = slot then some v else s.mgr k }
  | .mgrObjs l objs => .ok { s with mobjs := fun k => if k = l then objs else s.mobjs k }
  | .save => save cfg s

def run (cfg : Cfg) : Scn → List Op → Except Err Scn
  | s, [] => .ok s
  | s, op :: ops =>
    match step cfg s op with
    | .error e => .error e
    | .ok s' => run cfg s' ops

end Aoe.Dirty
