/-!
# M8: the map manager (C11 map geometry, C20 elevation)

Transcribes, from the pinned checkout,

* `helper/helper.py`: `xy_to_i`, `i_to_xy`
* `helper/list_functions.py`: `list_chuncks` (`numChunks`, `chunk`)
* `helper/maffs.py`: `sign`
* `objects/data_objects/terrain_tile.py`: `TerrainTile.__init__` defaults (`Tile.fresh`), `i`, `xy`
  (`tileXY`), `_reset_terrain_index` (`resetIndices`)
* `objects/managers/map_manager.py`: `map_size` setter (`setSize`), `terrain` setter (`setTerrain`),
  `get_tile` (`getPos`/`getTile`), `get_tile_safe` (`getPosSafe`), `_get_square_rows`, `get_square_1d`,
  `get_square_2d` (`squareRows`, `square1d`, `squareRowsPos`), `set_elevation` (`setElevation`) and
  `_elevation_tile_recursion` (`elevRec`/`elevStep`, operational, with fuel), plus the closed form `pyramid`.
  `de/map_manager_de.py` adds nothing to these paths (it only forwards to `MapManager.__init__`).

Mutable Python objects become positions: a tile *object* held by the manager is identified with its position in
`Map.tiles`; "assigning `tile.elevation`" is `setElevAt` at that position. The `_index` field of a tile is kept as
data (it is what `tile.i` / `tile.xy` read) and is re-stamped by `resetIndices` exactly where the code does it.

The code is modelled **as it is**; two Booleans switch in the proposed repairs so that the theorems about the
repaired behaviour can be stated next to the counterexamples of the current one:
* `fixIdx = false`: `get_tile(i=…)` accepts `0 <= i < map_size` (defect F8); `true`: `0 <= i < map_size ** 2`.
* `fixSingle = false`: `set_elevation` on one tile never assigns the elevation (defect F12); `true`: it assigns.

Model boundary (validated by the correspondence run for every size explored):
* `i_to_xy` computes `int(i / map_size)` with **float** division; the model uses integer (floor) division. They
  agree whenever `size ≤ 2^20`: then `i < 2^40` and `size` convert to doubles exactly, the true quotient `q` is
  either an integer `k < 2^20` (then the correctly rounded result is `k`) or differs from every integer by at least
  `1/size ≥ 2^-20`, while doubles below `2^20` are spaced `≤ 2^-33` apart, so rounding cannot reach the next
  integer and `int()` truncates to `floor q`. The harness checks `int(i / s) == i // s` for all `i < s²` of every
  size `s` it explores.
* `terrain` setter: `math.sqrt(len) % 1 != 0` / `int(sqrt)` on floats; the model uses `Nat.sqrt` (exact integer
  square root). Equal for `len < 2^52` (`math.sqrt` is correctly rounded, so a perfect square gives its exact root
  and a non-square cannot give an integer).
* `map_size` setter: the new size is a natural number (a negative "size" is not a map size; the Python code slices
  rows with it and leaves the manager inconsistent). `list_chuncks` with chunk size 0 is never advanced on the
  modelled paths (shrinking needs `old > new ≥ 0`; growing only calls `next` for `index < old`).
* all coordinates / indices / elevations handed to the API are Python `int`s (`None` where the signature allows it).
* ghost: the `_xy` cache of a tile is not modelled (it is reset whenever `_index` is re-stamped).
-/
namespace Aoe.Map

/-- exception classes raised on the modelled paths (`fuel` is the model's own "recursion budget exhausted") -/
inductive Err | value | index | type | stopIteration | fuel
  deriving DecidableEq, Repr

deriving instance DecidableEq for Except

/-- `TerrainTile`: the three stored fields and `_index` -/
structure Tile where
  terrainId : Int
  elevation : Int
  layer : Int
  index : Int
  deriving DecidableEq, Repr

/-- `TerrainTile(uuid=…)`: `terrain_id = TerrainId.GRASS_1 (0)`, `elevation = 0`, `layer = -1`, `_index = -1` -/
def Tile.fresh : Tile := ⟨0, 0, -1, -1⟩

/-- the stored content of a tile (what a resize has to keep) -/
def Tile.content (t : Tile) : Int × Int × Int := (t.terrainId, t.elevation, t.layer)

/-- `MapManager`: `_map_width = _map_height = size`, `_terrain = tiles` -/
structure Map where
  size : Nat
  tiles : List Tile
  deriving DecidableEq, Repr

/-! ### helpers -/

/-- `xy_to_i(x, y, map_size)`; the guard makes the result non-negative, hence a `Nat` -/
def xyToI (x y : Int) (size : Nat) : Except Err Nat :=
  if max x y ≥ (size : Int) ∨ min x y < 0 then .error .value else .ok (x + y * (size : Int)).toNat

/-- `i_to_xy(i, map_size)` (integer division, see the header for the float boundary) -/
def iToXY (i : Int) (size : Nat) : Except Err (Int × Int) :=
  if i < 0 ∨ i ≥ (size : Int) * (size : Int) then .error .value else .ok (i % (size : Int), i / (size : Int))

/-- `lst[k]` for a non-negative `k` -/
def listGet {α : Type} (l : List α) (k : Nat) : Except Err α :=
  match l[k]? with
  | some a => .ok a
  | none => .error .index

/-- `len(range(0, len, n))` for `n > 0`: the number of chunks `list_chuncks(lst, n)` yields -/
def numChunks (n len : Nat) : Nat := (len + n - 1) / n

/-- the `k`-th chunk `lst[k*n : k*n + n]` -/
def chunk {α : Type} (n : Nat) (l : List α) (k : Nat) : List α := (l.drop (k * n)).take n

/-- `reset_indices`: `tile._reset_terrain_index(index)` for `index, tile in enumerate(lst)` -/
def resetIndices (l : List Tile) : List Tile := l.mapIdx (fun i t => { t with index := (i : Int) })

/-- `tile.xy` of a tile of this map: `i_to_xy(self._index, map_size)` -/
def tileXY (m : Map) (t : Tile) : Except Err (Int × Int) := iToXY t.index m.size

/-! ### the `terrain` and `map_size` setters -/

/-- `math.sqrt(len(value)) % 1 == 0` -/
def isSquare (n : Nat) : Bool := Nat.sqrt n * Nat.sqrt n == n

/-- `MapManager.terrain = value` -/
def setTerrain (_m : Map) (ts : List Tile) : Except Err Map :=
  if isSquare ts.length then .ok { size := Nat.sqrt ts.length, tiles := resetIndices ts }
  else .error .value

/-- the rows the `map_size` setter concatenates when shrinking:
`for index, chunk in enumerate(list_chuncks(terrain, old)): if index == new: break; extend(chunk[:new])` -/
def shrinkRows (old new : Nat) (ts : List Tile) : List (List Tile) :=
  (List.range (min new (numChunks old ts.length))).map (fun k => (chunk old ts k).take new)

/-- the rows when growing: `next(chunk_gen) + [fresh]*difference` for `index < old`, `[fresh]*new` afterwards.
`next` raises `StopIteration` iff fewer than `old` chunks exist (all `index < old` are visited since `new > old`). -/
def growRows (old new : Nat) (ts : List Tile) : Except Err (List (List Tile)) :=
  if numChunks old ts.length < old then .error .stopIteration
  else .ok ((List.range new).map (fun idx =>
    if idx < old then chunk old ts idx ++ List.replicate (new - old) Tile.fresh
    else List.replicate new Tile.fresh))

/-- `MapManager.map_size = new` -/
def setSize (m : Map) (new : Nat) : Except Err Map :=
  let old := m.size
  if new = old then .ok m
  else if new < old then setTerrain m (shrinkRows old new m.tiles).flatten
  else do
    let rows ← growRows old new m.tiles
    setTerrain m rows.flatten

/-! ### `get_tile` -/

/-- Python truthiness of an optional integer argument -/
def truthy : Option Int → Bool
  | some v => v != 0
  | none => false

/-- the position in `tiles` of the tile `get_tile(x, y, i)` returns -/
def getPos (fixIdx : Bool) (m : Map) (x y i : Option Int) : Except Err Nat :=
  if truthy i && (truthy x || truthy y) then .error .value
  else match i with
    | some i =>
        if 0 ≤ i ∧ i < (if fixIdx then (m.size : Int) * (m.size : Int) else (m.size : Int)) then
          (if i.toNat < m.tiles.length then .ok i.toNat else .error .index)
        else .error .value
    | none =>
        match x, y with
        | some x, some y => do
            let k ← xyToI x y m.size
            if k < m.tiles.length then .ok k else .error .index
        | _, _ => .error .type      -- `max(None, …)`

/-- `MapManager.get_tile(x, y, i)` -/
def getTile (fixIdx : Bool) (m : Map) (x y i : Option Int) : Except Err Tile := do
  let k ← getPos fixIdx m x y i
  listGet m.tiles k

/-- `get_tile_safe(x, y)` as used by the elevation code: `IndexError`/`ValueError` become `None` -/
def getPosSafe (m : Map) (x y : Int) : Except Err (Option Nat) :=
  match getPos false m (some x) (some y) none with
  | .ok k => .ok (some k)
  | .error .index => .ok none
  | .error .value => .ok none
  | .error e => .error e

/-! ### square selections -/

/-- `range(a, b)` -/
def intRange (a b : Int) : List Int := (List.range (b - a).toNat).map (fun (k : Nat) => a + (k : Int))

/-- `_get_square_rows`: per row `terrain[xy_to_i(x1,row) : xy_to_i(x2,row) + 1]` -/
def squareRows (m : Map) (x1 y1 x2 y2 : Int) : Except Err (List (List Tile)) :=
  (intRange y1 (y2 + 1)).mapM fun row => do
    let i1 ← xyToI x1 row m.size
    let i2 ← xyToI x2 row m.size
    pure ((m.tiles.take (i2 + 1)).drop i1)

/-- `get_square_2d` -/
def square2d := squareRows

/-- `get_square_1d` -/
def square1d (m : Map) (x1 y1 x2 y2 : Int) : Except Err (List Tile) :=
  (squareRows m x1 y1 x2 y2).map List.flatten

/-- positions of `lst[lo:hi]` in a list of length `len` -/
def slicePos (len lo hi : Nat) : List Nat := List.range' lo (min hi len - lo)

/-- `_get_square_rows` as positions (the tile objects `set_elevation` then mutates) -/
def squareRowsPos (m : Map) (x1 y1 x2 y2 : Int) : Except Err (List (List Nat)) :=
  (intRange y1 (y2 + 1)).mapM fun row => do
    let i1 ← xyToI x1 row m.size
    let i2 ← xyToI x2 row m.size
    pure (slicePos m.tiles.length i1 (i2 + 1))

/-! ### elevation -/

/-- `tile.elevation = e` for the tile at position `k` -/
def setElevAt (m : Map) (k : Nat) (e : Int) : Map :=
  { m with tiles := m.tiles.modify k (fun t => { t with elevation := e }) }

/-- `int(sign(a, b))` -/
def sign (a b : Int) : Int := if a = b then 0 else if a > b then 1 else -1

/-- `itertools.product(range(-1, 2), repeat=2)` -/
def offsets : List (Int × Int) := [(-1, -1), (-1, 0), (-1, 1), (0, -1), (0, 0), (0, 1), (1, -1), (1, 0), (1, 1)]

/-- one iteration of the neighbour loop of `_elevation_tile_recursion`; `recur` is the recursive call.
`src` is the position of `source_tile`, `(x, y)` its `xy`, `vis` already contains `(x, y)`. -/
def elevStep (recur : Map → Nat → Except Err Map) (src : Nat) (x y : Int) (xys vis : List (Int × Int))
    (m : Map) (o : Int × Int) : Except Err Map :=
  let nx := o.1
  let ny := o.2
  let newX := x + nx
  let newY := y + ny
  if (nx != 0 || ny != 0) && !xys.contains (newX, newY) && !vis.contains (newX, newY) then do
    match ← getPosSafe m newX newY with
    | none => pure m
    | some ko => do
        let behind ← getPosSafe m (x + nx * 2) (y + ny * 2)
        let s ← listGet m.tiles src
        let ot ← listGet m.tiles ko
        let fill ← (match behind with
          | none => pure false
          | some kb => do
              let bt ← listGet m.tiles kb
              pure (decide (ot.elevation < s.elevation) && decide (s.elevation = bt.elevation)) : Except Err Bool)
        if fill then pure (setElevAt m ko s.elevation)
        else if (ot.elevation - s.elevation).natAbs > 1 then
          recur (setElevAt m ko (s.elevation + sign ot.elevation s.elevation)) ko
        else pure m
  else pure m

/-- `_elevation_tile_recursion(source_tile, xys, visited)`; `fuel` bounds the recursion depth -/
def elevRec : Nat → Map → Nat → List (Int × Int) → List (Int × Int) → Except Err Map
  | 0, _, _, _, _ => .error .fuel
  | fuel + 1, m, src, xys, vis => do
      let st ← listGet m.tiles src
      let xy ← tileXY m st
      let vis' := xy :: vis
      offsets.foldlM (fun m o => elevStep (fun m' k => elevRec fuel m' k xys vis') src xy.1 xy.2 xys vis' m o) m

/-- `x[0]` / `x[-1]` of a Python list -/
def pyFirst {α : Type} (l : List α) : Except Err α :=
  match l.head? with | some a => .ok a | none => .error .index
def pyLast {α : Type} (l : List α) : Except Err α :=
  match l.getLast? with | some a => .ok a | none => .error .index

/-- `MapManager.set_elevation(elevation, x1, y1, x2, y2)` -/
def setElevation (fixSingle : Bool) (fuel : Nat) (m : Map) (e : Int) (x1 y1 : Int) (x2? y2? : Option Int) :
    Except Err Map := do
  let x2 := x2?.getD x1
  let y2 := y2?.getD y1
  if x1 = x2 ∧ y1 = y2 then
    let k ← getPos false m (some x1) (some y1) none
    let m1 := if fixSingle then setElevAt m k e else m
    let t ← listGet m1.tiles k
    let xy ← tileXY m1 t
    elevRec fuel m1 k [xy] []
  else
    let rows ← squareRowsPos m x1 y1 x2 y2
    let m1 := rows.flatten.foldl (fun m k => setElevAt m k e) m
    let xys ← rows.flatten.mapM (fun k => do let t ← listGet m1.tiles k; tileXY m1 t)
    let first ← pyFirst rows
    let last ← pyLast rows
    let mids ← ((rows.drop 1).dropLast).mapM (fun r => do
      let a ← pyFirst r
      let b ← pyLast r
      pure [a, b])
    (first ++ last ++ mids.flatten).foldlM (fun m k => elevRec fuel m k xys []) m1

/-- the recursion budget the driver uses (see `Aoe.Props.C20.fuel_suffices`) -/
def elevFuel (m : Map) : Nat := m.size * m.size + 1

/-! ### closed form -/

/-- Chebyshev distance of `(x, y)` to the rectangle -/
def cheb (x1 y1 x2 y2 x y : Int) : Int := max (max (x1 - x) (x - x2)) (max (max (y1 - y) (y - y2)) 0)

/-- elevation of `(x, y)` after raising (lowering) the rectangle to `e` on a flat map of elevation `b` -/
def pyramidAt (b e x1 y1 x2 y2 x y : Int) : Int :=
  if e ≥ b then max b (e - cheb x1 y1 x2 y2 x y) else min b (e + cheb x1 y1 x2 y2 x y)

/-- the whole map, row-major -/
def pyramid (size : Nat) (b e x1 y1 x2 y2 : Int) : List Int :=
  (List.range (size * size)).map (fun k => pyramidAt b e x1 y1 x2 y2 ((k % size : Nat) : Int) ((k / size : Nat) : Int))

/-- a flat map -/
def flat (size : Nat) (b : Int) : Map :=
  { size := size, tiles := resetIndices (List.replicate (size * size) { Tile.fresh with elevation := b }) }

/-! ### histories -/

/-- the mutating operations of the manager -/
inductive Op
  | setSize (n : Nat)
  | setTerrain (ts : List Tile)
  | setElevation (e x1 y1 : Int) (x2 y2 : Option Int)

/-- one step of a history. An operation that raises leaves the manager as it was: the `terrain` setter validates
before it assigns, `set_elevation` selects all its tiles (the only step that can raise on a consistent map) before
it assigns, and on a consistent map the `map_size` setter never raises (`Aoe.Props.C11.resize_succeeds`). -/
def applyOp (fixSingle : Bool) (m : Map) : Op → Map
  | .setSize n => match setSize m n with
      | .ok m' => m'
      | .error _ => m
  | .setTerrain ts => match setTerrain m ts with
      | .ok m' => m'
      | .error _ => m
  | .setElevation e x1 y1 x2 y2 => match setElevation fixSingle (elevFuel m) m e x1 y1 x2 y2 with
      | .ok m' => m'
      | .error _ => m

/-- a history of operations -/
def run (fixSingle : Bool) (m : Map) (ops : List Op) : Map := ops.foldl (applyOp fixSingle) m

end Aoe.Map
