/-!
# M9: `Area` – selection rectangle, patterns, chunking (C14)

Transcribes, from `AoE2ScenarioParser/objects/support/area.py` (pinned tree):
`Area._minmax_val` and the clamped `x1/y1/x2/y2` properties, `get_range_x/y`, `get_width/height`,
`_is_edge_tile`, `_is_a_corner_tile`, `_is_a_grid_tile`, `_is_a_line_tile`, `_invert_if_inverted`,
`is_within_selection`, `to_coords`, `_get_chunk_id`, `to_chunks`, `select` (with `_negative_coord`);
from `helper/helper.py`: `validate_coords` (with `value_is_valid`: `None` and `-1` are "not given").
`tile.py`: `Tile` is the `(x, y)` named tuple.

Python facts used as model boundary (validated by the correspondence):
* `a % b`, `a // b` on Python ints are the floor operations – `Int.fmod`, `Int.fdiv` (all signs);
  `b = 0` raises `ZeroDivisionError`.
* `math.ceil(a / b)` (true division, then ceiling) is `-((-a) // b)` for ints far below 2^53.
* `x and y` / `any((…))`: the grid and line predicates are short-circuited exactly as written (the second modulus
  is only evaluated when the first comparison holds); `any` over a tuple evaluates every member first.
* `OrderedSet(generator)` keeps first occurrences in order; the generator of `to_coords` never repeats a tile
  (`coords_sorted` in `Aoe.Lemmas.Area`), so the ordered set *is* the generated sequence.
* `dict.setdefault(k, []).append(t)` + iteration over `dict.items()` = insertion-ordered association list
  (`insertChunk`).

**Modelled as it is** (defect F10): `_get_chunk_id` computes the grid's tiles-per-row from `get_height()`.
`PerRow.height` is the pinned code, `PerRow.width` the proposed repair (`fixes/F10-grid-chunk-width.diff`);
`chunkId`/`toChunks` are the pinned instances.
-/
namespace Aoe.Area

inductive State | full | edge | grid | lines | corners
  deriving DecidableEq, Repr

/-- the `axis` string: `"x"`, `"y"`, anything else (the constructor default is `""`) -/
inductive Axis | x | y | other
  deriving DecidableEq, Repr

inductive Err | valueError | zeroDivision | typeError
  deriving DecidableEq, Repr

structure Tile where
  x : Int
  y : Int
  deriving DecidableEq, Repr

/-- the configuration of an `Area` object (`uuid` is `None`: explicit `map_size`) -/
structure Area where
  size : Int            -- `map_size`
  rx1 : Int             -- `_x1` (raw, may lie outside the map)
  ry1 : Int
  rx2 : Int
  ry2 : Int
  state : State
  inverted : Bool
  gapX : Int
  gapY : Int
  lineX : Int           -- `line_width_x`
  lineY : Int
  blockX : Int
  blockY : Int
  axis : Axis
  cornerX : Int
  cornerY : Int
  deriving DecidableEq, Repr

/-! ### Python integer operations -/

def pyMod (a b : Int) : Except Err Int := if b = 0 then .error .zeroDivision else .ok (Int.fmod a b)
def pyDiv (a b : Int) : Except Err Int := if b = 0 then .error .zeroDivision else .ok (Int.fdiv a b)
/-- `math.ceil(a / b)` -/
def pyCeilDiv (a b : Int) : Except Err Int := if b = 0 then .error .zeroDivision else .ok (-(Int.fdiv (-a) b))

/-! ### construction: `validate_coords`, `Area.select` -/

/-- `value_is_valid`: neither `None` nor `-1` -/
def valueIsValid : Option Int → Bool
  | none => false
  | some v => v != -1

/-- `validate_coords(x1, y1, x2, y2)` without corner tiles. `x1 > x2` with a `None` operand is a `TypeError`. -/
def validateCoords (x1 y1 x2 y2 : Option Int) : Except Err (Int × Int × Int × Int) :=
  let x2 := if valueIsValid x1 && !valueIsValid x2 then x1 else x2
  let y2 := if valueIsValid y1 && !valueIsValid y2 then y1 else y2
  match x1, y1, x2, y2 with
  | some x1, some y1, some x2, some y2 =>
      let (x1, x2) := if x1 > x2 then (x2, x1) else (x1, x2)
      let (y1, y2) := if y1 > y2 then (y2, y1) else (y1, y2)
      .ok (x1, y1, x2, y2)
  | _, _, _, _ => .error .typeError

/-- `_negative_coord`: `(map_size + c) if c and c < 0 else c` -/
def negativeCoord (size : Int) : Option Int → Option Int
  | some c => if c ≠ 0 ∧ c < 0 then some (size + c) else some c
  | none => none

/-- `Area.select(x1, y1, x2, y2)`: the raw corners it stores -/
def selectCoords (size : Int) (x1 y1 : Int) (x2 y2 : Option Int) : Except Err (Int × Int × Int × Int) :=
  validateCoords (some x1) (some y1) (negativeCoord size x2) (negativeCoord size y2)

/-- `Area(map_size, x1=…, y1=…, x2=…, y2=…)`: `validate_coords` when `values_are_valid(x1, y1)` (one of the two
is neither `None` nor `-1`), otherwise the centre tile `floor(map_size / 2)` -/
def ctorCoords (size : Int) (x1 y1 x2 y2 : Option Int) : Except Err (Int × Int × Int × Int) :=
  if valueIsValid x1 || valueIsValid y1 then validateCoords x1 y1 x2 y2
  else let c := Int.fdiv size 2; .ok (c, c, c, c)

/-- a fresh `Area(map_size)` with the given raw corners: state FULL, every size 1, axis `""` -/
def mk0 (size x1 y1 x2 y2 : Int) : Area :=
  { size := size, rx1 := x1, ry1 := y1, rx2 := x2, ry2 := y2, state := .full, inverted := false,
    gapX := 1, gapY := 1, lineX := 1, lineY := 1, blockX := 1, blockY := 1, axis := .other,
    cornerX := 1, cornerY := 1 }

/-! ### clamping -/

/-- `_minmax_val`: `max(0, min(val, map_size - 1))` -/
def clamp (a : Area) (v : Int) : Int := max 0 (min v (a.size - 1))

def Area.x1 (a : Area) : Int := clamp a a.rx1
def Area.y1 (a : Area) : Int := clamp a a.ry1
def Area.x2 (a : Area) : Int := clamp a a.rx2
def Area.y2 (a : Area) : Int := clamp a a.ry2

/-- `get_width`, `get_height` -/
def Area.width (a : Area) : Int := a.x2 + 1 - a.x1
def Area.height (a : Area) : Int := a.y2 + 1 - a.y1

/-- `range(lo, hi + 1)` -/
def rangeI (lo hi : Int) : List Int := (List.range (hi + 1 - lo).toNat).map (fun (i : Nat) => lo + (i : Int))

/-! ### pattern predicates (as written) -/

/-- `_is_edge_tile` -/
def isEdgeTile (a : Area) (x y : Int) : Bool :=
  (decide (0 ≤ x - a.x1) && decide (x - a.x1 < a.lineX)) ||
  (decide (0 ≤ y - a.y1) && decide (y - a.y1 < a.lineY)) ||
  (decide (0 ≤ a.x2 - x) && decide (a.x2 - x < a.lineX)) ||
  (decide (0 ≤ a.y2 - y) && decide (a.y2 - y < a.lineY))

/-- `_is_a_corner_tile` -/
def isCornerTile (a : Area) (x y : Int) : Bool :=
  ((decide (a.x1 ≤ x) && decide (x < a.x1 + a.cornerX)) || (decide (a.x2 - a.cornerX < x) && decide (x ≤ a.x2))) &&
  ((decide (a.y1 ≤ y) && decide (y < a.y1 + a.cornerY)) || (decide (a.y2 - a.cornerY < y) && decide (y ≤ a.y2)))

/-- `_is_a_grid_tile` (short-circuit `and`) -/
def isGridTile (a : Area) (x y : Int) : Except Err Bool := do
  let mx ← pyMod (x - a.x1) (a.blockX + a.gapX)
  if mx < a.blockX then
    let my ← pyMod (y - a.y1) (a.blockY + a.gapY)
    pure (decide (my < a.blockY))
  else pure false

/-- `_is_a_line_tile` -/
def isLineTile (a : Area) (x y : Int) : Except Err Bool :=
  match a.axis with
  | .x => do let m ← pyMod (y - a.y1) (a.gapY + a.lineY); pure (decide (m < a.lineY))
  | .y => do let m ← pyMod (x - a.x1) (a.gapX + a.lineX); pure (decide (m < a.lineX))
  | .other => .error .valueError

/-- the raw rectangle test of `is_within_selection` (`self._x1 <= x <= self._x2 and …`) -/
def inRawRect (a : Area) (x y : Int) : Bool :=
  decide (a.rx1 ≤ x) && decide (x ≤ a.rx2) && decide (a.ry1 ≤ y) && decide (y ≤ a.ry2)

/-- `is_within_selection(x, y)` -/
def isWithin (a : Area) (x y : Int) : Except Err Bool :=
  if !inRawRect a x y then pure false else do
    let w ← match a.state with
      | .edge => pure (isEdgeTile a x y)
      | .grid => isGridTile a x y
      | .lines => isLineTile a x y
      | .corners => pure (isCornerTile a x y)
      | .full => pure true
    pure (if a.inverted then !w else w)

/-! ### `to_coords` -/

/-- `Tile(x, y) for y in get_range_y() for x in get_range_x()` -/
def candidates (a : Area) : List Tile :=
  (rangeI a.y1 a.y2).flatMap fun y => (rangeI a.x1 a.x2).map fun x => ⟨x, y⟩

/-- a comprehension filter whose condition may raise -/
def filterE {α : Type} (p : α → Except Err Bool) : List α → Except Err (List α)
  | [] => pure []
  | t :: ts => do
      let b ← p t
      let r ← filterE p ts
      pure (if b then t :: r else r)

/-- `to_coords()` -/
def toCoords (a : Area) : Except Err (List Tile) := filterE (fun t => isWithin a t.x t.y) (candidates a)

/-! ### chunks -/

/-- which side length `_get_chunk_id` divides to get the grid's blocks per row -/
inductive PerRow | height | width
  deriving DecidableEq, Repr

def PerRow.dim (pr : PerRow) (a : Area) : Int :=
  match pr with
  | .height => a.height
  | .width => a.width

/-- the four tests of the CORNERS branch of `_get_chunk_id`, in order (0 left, 1 top, 2 right, 3 bottom) -/
def cornerId (a : Area) (t : Tile) : Except Err Int :=
  if a.x1 ≤ t.x ∧ t.x < a.x1 + a.cornerX ∧ a.y1 ≤ t.y ∧ t.y < a.y1 + a.cornerY then pure 0
  else if a.x2 - a.cornerX < t.x ∧ t.x ≤ a.x2 ∧ a.y1 ≤ t.y ∧ t.y < a.y1 + a.cornerY then pure 1
  else if a.x2 - a.cornerX < t.x ∧ t.x ≤ a.x2 ∧ a.y2 - a.cornerY < t.y ∧ t.y ≤ a.y2 then pure 2
  else if a.x1 ≤ t.x ∧ t.x < a.x1 + a.cornerX ∧ a.y2 - a.cornerY < t.y ∧ t.y ≤ a.y2 then pure 3
  else .error .valueError

/-- `_get_chunk_id(tile)` with the tiles-per-row source as a parameter -/
def chunkIdW (pr : PerRow) (a : Area) (t : Tile) : Except Err Int := do
  let w ← isWithin a t.x t.y
  if !w then pure (-1) else
  match a.state with
  | .full => pure 0
  | .edge => pure 0
  | .grid =>
      if a.inverted then pure 0 else do
        let perRow ← pyCeilDiv (pr.dim a) (a.blockX + a.gapX)
        let c ← pyDiv (t.x - a.x1) (a.blockX + a.gapX)
        let r ← pyDiv (t.y - a.y1) (a.blockY + a.gapY)
        pure (c + r * perRow)
  | .lines =>
      match a.axis with
      | .x => pyDiv (t.y - a.y1) (a.lineY + a.gapY)
      | .y => pyDiv (t.x - a.x1) (a.lineX + a.gapX)
      | .other => .error .valueError
  | .corners => cornerId a t

/-- `chunks.setdefault(k, []).append(t)` on an insertion-ordered dict -/
def insertChunk (k : Int) (t : Tile) : List (Int × List Tile) → List (Int × List Tile)
  | [] => [(k, [t])]
  | (k', ts) :: rest => if k' = k then (k', ts ++ [t]) :: rest else (k', ts) :: insertChunk k t rest

/-- the loop `for tile in tiles: chunks.setdefault(self._get_chunk_id(tile), []).append(tile)` -/
def groupE (f : Tile → Except Err Int) : List Tile → List (Int × List Tile) → Except Err (List (Int × List Tile))
  | [], acc => pure acc
  | t :: ts, acc => do
      let k ← f t
      groupE f ts (insertChunk k t acc)

/-- stable insertion sort = `sorted(tiles, key=…)` -/
def insertKey (key : Tile → Int) (t : Tile) : List Tile → List Tile
  | [] => [t]
  | u :: us => if key t ≤ key u then t :: u :: us else u :: insertKey key t us

def sortKey (key : Tile → Int) : List Tile → List Tile
  | [] => []
  | t :: ts => insertKey key t (sortKey key ts)

/-- the sort key of `to_chunks`: `t.y * map_size + t.x` -/
def tileKey (a : Area) (t : Tile) : Int := t.y * a.size + t.x

/-- `to_chunks()` -/
def toChunksW (pr : PerRow) (a : Area) : Except Err (List (List Tile)) := do
  let tiles ← toCoords a
  match a.state with
  | .full => pure [tiles]
  | .edge => pure [tiles]
  | _ => do
      let g ← groupE (chunkIdW pr a) tiles []
      pure (g.map fun kc => sortKey (tileKey a) kc.2)

/-- the pinned code -/
def chunkId (a : Area) (t : Tile) : Except Err Int := chunkIdW .height a t
def toChunks (a : Area) : Except Err (List (List Tile)) := toChunksW .height a

end Aoe.Area
