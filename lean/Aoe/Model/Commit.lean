import Aoe.Model.Lens
/-!
# M4 (part 2) – the commit / construct engine of the object layer

Transcribes `AoE2Object.commit` / `AoE2Object.construct`, `RetrieverObjectLink.{pull, pull_from_link, push_to_link,
process_object_list, commit_object_list, update_retriever_length}`, `RetrieverObjectLinkGroup.{pull, push}`,
`RetrieverObjectLinkParent.get_from_link`, `AoE2ObjectManager.{setup, reconstruct}` and the commit-time part of
`dependency.py` (`on_commit` → `REFRESH` targets → their `on_refresh SET_VALUE`) – DESIGN Appendix B.4, B.5.

The class tables (`ClassSpec`) are GENERATED per version from the `_link_list`s of the library's classes
(`tools/gen_mgr.py`): groups are flattened in declaration order, link paths are resolved to positions in the version's
structure, links the version does not support are `skip`.

What an object hands to `push` for a link is `getattr(obj, link.name)` (after the commit callback); the engine takes these
values as input (an object = the list of its pushed values in link order, object lists nested). The per-class
reconstruction properties that compute them (`Effect.quantity`, `PlayerManager._resources`, …) are separate models.
Retrievers are assumed not dirty (C18 covers the dirty flag).
-/
namespace Aoe.Commit
open Aoe Aoe.Codec Aoe.Lens

/-- a link path step: a retriever of the current record, or the element selected by the k-th index of the history -/
inductive PStep
  | fld (i : Nat)
  | hidx (k : Nat)
  deriving Repr, DecidableEq

/-- where a refreshed value is written: a retriever of the record that holds the pushed retriever, or of a section -/
inductive Dest
  | self (i : Nat)
  | sec (s i : Nat)
  deriving Repr

/-- one `on_refresh SET_VALUE` reached through `on_commit REFRESH` (or `on_commit SET_VALUE` on the retriever itself) -/
structure RefreshAct where
  dest : Dest
  expr : Expr

inductive LinkKind
  /-- plain value link: path to the retriever, its refresh actions, the names of the record that holds it -/
  | plain (path : List PStep) (acts : List RefreshAct) (recNames : List Nat)
  /-- `retrieve_history_number = k`: pulled from the index history, never pushed -/
  | hist (k : Nat)
  /-- `process_as_object`: list of structs ↔ list of objects of class `cls`; `defaults` / `guards` describe a freshly
  default-constructed struct (`from_model(set_defaults=True)` incl. the on_construct repeats of optional blocks) -/
  | objs (path : List PStep) (cls : Nat) (defaults : List Val) (childNames : List Nat) (guards : List (Nat × Expr))
         (acts : List RefreshAct) (recNames : List Nat)
  /-- not supported by this scenario version: pulled as `None`, never pushed -/
  | skip

structure ClassSpec where
  name : Nat
  links : List (Nat × LinkKind)

/-- the file tree as the engine sees it: all sections (header first) with their names and field names -/
structure Sections where
  names : List (Nat × List Nat)      -- (section name, field names) in file order
  recs : List Val                    -- `.strct fields` per section

def resolve (hist : List Nat) : List PStep → Option (List Step)
  | [] => some []
  | .fld i :: r => (resolve hist r).map (fun p => Step.fld i :: p)
  | .hidx k :: r => match hist[k]? with
    | some n => (resolve hist r).map (fun p => Step.idx n :: p)
    | none => none

def Sections.root (s : Sections) : Val := .strct s.recs

def Sections.withRoot (s : Sections) : Val → Option Sections
  | .strct rs => some { s with recs := rs }
  | _ => none

/-- environment for a commit-time `eval`: every section by name, `self` = the record that holds the pushed retriever -/
def Sections.env (s : Sections) (selfNames : List Nat) (selfRec : Val) : Env :=
  { secs := (s.names.zip s.recs).map (fun (p : (Nat × List Nat) × Val) =>
      (p.1.1, match p.2 with | .strct vs => p.1.2.zip vs | _ => [])),
    root := [],
    self := match selfRec with | .strct vs => selfNames.zip vs | _ => [] }

def dropLastStep (p : List Step) : List Step := p.dropLast

/-- the path of a refresh destination, given the path of the record that holds the pushed retriever -/
def Dest.path (recPath : List Step) : Dest → List Step
  | .self i => recPath ++ [Step.fld i]
  | .sec sc i => [Step.fld sc, Step.fld i]

/-- run the refresh actions of a retriever that was just pushed (`handle_retriever_dependency(retriever, "commit", …)`) -/
def applyActs (acts : List RefreshAct) (recPath : List Step) (recNames : List Nat) (s : Sections) : Except Err Sections :=
  acts.foldlM (fun (s : Sections) (a : RefreshAct) => do
    let selfRec ← match getAt recPath s.root with | some v => pure v | none => throw Err.attr
    let v ← a.expr.eval (s.env recNames selfRec)
    match (setAt (a.dest.path recPath) s.root v).bind s.withRoot with
    | some s' => pure s'
    | none => throw Err.attr) s

/-- `from_model(model, set_defaults=True)` followed by the evaluation of direct `on_construct SET_REPEAT` dependencies:
an optional block whose repeat evaluates to 0 holds `[]` -/
def defaultStruct (defaults : List Val) (names : List Nat) (guards : List (Nat × Expr)) (s : Sections) : Except Err Val := do
  let vs ← guards.foldlM (fun (vs : List Val) (g : Nat × Expr) => do
      let n ← g.2.eval (s.env names (.strct vs))
      match n with
      | .int 0 => pure (vs.set g.1 (.list []))
      | .int _ => pure vs
      | _ => throw Err.type) defaults
  pure (.strct vs)

/-- `update_retriever_length`: cut, or extend with default structs -/
def resizeList (old : List Val) (n : Nat) (dflt : Val) : List Val :=
  if n ≤ old.length then old.take n else old ++ List.replicate (n - old.length) dflt

/-- push of one link of an object (`recur` = commit of a child object) -/
def pushLink (recur : Nat → List Nat → Val → Sections → Except Err Sections) (hist : List Nat)
    (s : Sections) (lv : (Nat × LinkKind) × Val) : Except Err Sections :=
  match lv.1.2 with
  | .hist _ => pure s
  | .skip => pure s
  | .plain path acts recNames => do
    let p ← match resolve hist path with | some p => pure p | none => throw Err.value
    let s' ← match (setAt p s.root lv.2).bind s.withRoot with | some s' => pure s' | none => throw Err.attr
    applyActs acts (dropLastStep p) recNames s'
  | .objs path ccls defaults childNames guards acts recNames => do
    let p ← match resolve hist path with | some p => pure p | none => throw Err.value
    let objs ← match lv.2 with | .list os => pure os | _ => throw Err.type
    let old ← match getAt p s.root with | some (.list l) => pure l | _ => throw Err.attr
    let dflt ← if objs.length ≤ old.length then pure (Val.strct []) else defaultStruct defaults childNames guards s
    let s1 ← match (setAt p s.root (.list (resizeList old objs.length dflt))).bind s.withRoot with
      | some s' => pure s' | none => throw Err.attr
    let s2 ← (objs.zipIdx).foldlM (fun (s : Sections) (oi : Val × Nat) => recur ccls (hist ++ [oi.2]) oi.1 s) s1
    applyActs acts (dropLastStep p) recNames s2

/-- commit of one object (`fuel` bounds the class nesting, which is at most 3 in the library): the links in REVERSE
declaration order (group members reversed inside reversed groups = the reverse of the flattened list) -/
def commitObj (classes : List ClassSpec) : Nat → Nat → List Nat → Val → Sections → Except Err Sections
  | 0, _, _, _, _ => .error .shape
  | fuel + 1, cls, hist, obj, s =>
    match classes[cls]?, obj with
    | some c, .strct vals => ((c.links.zip vals).reverse).foldlM (pushLink (commitObj classes fuel) hist) s
    | _, _ => .error .shape

/-- `AoE2ObjectManager.reconstruct`: the managers in their fixed order -/
def commitAll (classes : List ClassSpec) (managers : List Nat) (objs : List Val) (s : Sections) : Except Err Sections :=
  (managers.zip objs).foldlM (fun (s : Sections) (mo : Nat × Val) => commitObj classes 4 mo.1 [] mo.2 s) s

/-- pull of one link (`recur` = construct of a child object) -/
def pullLink (recur : Nat → List Nat → Except Err Val) (hist : List Nat) (s : Sections) (l : Nat × LinkKind) :
    Except Err Val :=
  match l.2 with
  | .hist k => match hist[k]? with | some n => pure (Val.int n) | none => throw Err.value
  | .skip => pure Val.none
  | .plain path _ _ =>
    match (resolve hist path).bind (fun p => getAt p s.root) with | some v => pure v | none => throw Err.attr
  | .objs path ccls _ _ _ _ _ =>
    match (resolve hist path).bind (fun p => getAt p s.root) with
    | some (.list l) => do
      let os ← (List.range l.length).mapM (fun i => recur ccls (hist ++ [i]))
      pure (Val.list os)
    | _ => throw Err.attr

/-- construct (pull) of one object: the values a class's constructor receives, in link order -/
def constructObj (classes : List ClassSpec) : Nat → Nat → List Nat → Sections → Except Err Val
  | 0, _, _, _ => .error .shape
  | fuel + 1, cls, hist, s =>
    match classes[cls]? with
    | some c => do
      let vals ← c.links.mapM (pullLink (fun ccls h => constructObj classes fuel ccls h s) hist s)
      pure (.strct vals)
    | none => .error .shape

end Aoe.Commit
