/-!
# M13/M14 – version tables, link gating, effect/condition constructors (C15, C16)

Core Lean only. Hand-written, executable model of

* `Support.supports` (sections/retrievers/support.py) – versions and bounds in hundredths (`1.40 ↦ 140`);
  the translator checks for every bound × every version that the float comparison of the code agrees.
* the gating of a link by its `Support` in `RetrieverObjectLink.pull_from_link` / `push_to_link` /
  `overwrite_unsupported_properties` (`pullLink`, `pushLink`, `readAttr`, `writeAttr`), and which object classes
  are reached from the seven managers through supported `process_as_object` links (`reachable`).
* `Trigger._add_effect` / `_add_condition` (`addKw`): `{**defaults[0], **defaults[type]}`, a missing table entry
  → `UnsupportedAttributeError` (for an enum member; `EffectId(x)` raises `ValueError` otherwise), then for every key of
  the merged dict `locals()[key] if locals()[key] is not None else default`.
* `Effect.__init__` / `Condition.__init__` as far as they transform their arguments (`effectInit`, `condInit`):
  `raise_if_not_int_subclass`, `selected_object_ids` listify, the armour/attack source logic, `variable` fallback,
  `validate_coords`, `legacy_location_object_reference`; and which attributes are then publicly readable (`obs`).
* `self.effects.append(e)` followed by reading `effect_order` (`update_order_array`): `Trig.add`.
* the `new_effect.*` / `new_condition.*` helpers as data (`Helper`: parameters, forwarded constant, forwarded
  `(keyword, argument)` pairs, guards) interpreted by `runHelper`.

The tables themselves (`effects.json`, `conditions.json`, structure paths, `_link_list`s, helper ASTs, enums,
signatures) are *generated* from the repository on every run (`Aoe/Generated/*`); this file only fixes their types and
the decidable well-formedness predicates (`versionOK`, `helpersOK`) that the generated obligations close by
`decide +kernel`.

Names (attributes, sections, classes, helpers) are interned to `Nat` by the translator; strings never reach the kernel.
Domain restriction (documented, never exercised by the tables): `validate_coords` compares coordinates with `>`;
the model raises `typeError` unless both are ints (Python would also compare two lists or two strings).
-/
namespace Aoe.Versions

/-- Python values that occur as defaults / arguments of effects and conditions -/
inductive Val where
  | none
  | int (i : Int)
  | str (s : Nat)          -- interned string (`""` is in the name table; harness sentinels use ids ≥ 10^6)
  | list (l : List Int)
  deriving DecidableEq, Repr, Inhabited

inductive Err where
  | unsupported            -- UnsupportedAttributeError
  | valueError | typeError | keyError
  deriving DecidableEq, Repr, Inhabited


/-! ## Kernel-fast primitives
Equality tests go through `Nat.beq` / `Nat.ble` (evaluated by the kernel's GMP acceleration in one step) instead of
`DecidableEq` / `BEq` instances, so that `decide +kernel` on a whole version table takes seconds. -/

/-- membership in a list of naturals -/
def memN (x : Nat) : List Nat → Bool
  | [] => false
  | y :: r => Nat.beq y x || memN x r

/-- equality of integers by constructor -/
def ibeq : Int → Int → Bool
  | .ofNat a, .ofNat b => Nat.beq a b
  | .negSucc a, .negSucc b => Nat.beq a b
  | _, _ => false

def memI (x : Int) : List Int → Bool
  | [] => false
  | y :: r => ibeq y x || memI x r

/-- equality of name lists (paths) with early exit -/
def lbeq : List Nat → List Nat → Bool
  | [], [] => true
  | a :: as, b :: bs => Nat.beq a b && lbeq as bs
  | _, _ => false

def libeq : List Int → List Int → Bool
  | [], [] => true
  | a :: as, b :: bs => ibeq a b && libeq as bs
  | _, _ => false

def beqB : Bool → Bool → Bool
  | true, b => b
  | false, b => !b

def Val.isNone : Val → Bool
  | .none => true
  | _ => false

/-- insertion-ordered dict (keys distinct when well-formed) -/
abbrev Dict := List (Nat × Val)

def dget : Dict → Nat → Option Val
  | [], _ => none
  | (k', v) :: r, k => bif Nat.beq k' k then some v else dget r k

/-- `d[k] = v` : replace in place or append -/
def dset : Dict → Nat → Val → Dict
  | [], k, v => [(k, v)]
  | (k', v') :: r, k, v => bif Nat.beq k' k then (k, v) :: r else (k', v') :: dset r k v

/-- `{**a, **b}` -/
def dmerge (a : Dict) : Dict → Dict
  | [] => a
  | (k, v) :: r => dmerge (dset a k v) r

def dkeys (d : Dict) : List Nat := d.map (·.1)

/-! ## Support and links (C15) -/

structure Support where
  since : Nat
  until_ : Nat
  deriving DecidableEq, Repr

/-- `self.since <= float(v) <= self.until` in hundredths -/
def Support.supports (s : Support) (v : Nat) : Bool := Nat.ble s.since v && Nat.ble v s.until_

/-- `support is None` means supported everywhere -/
def supportsOpt : Option Support → Nat → Bool
  | none, _ => true
  | some s, v => s.supports v

inductive LinkKind where
  | history (n : Nat)       -- retrieve_history_number
  | plain
  | object (cls : Nat)      -- process_as_object
  deriving DecidableEq, Repr

structure Link where
  name : Nat
  path : List Nat           -- section :: group path ++ own path, `[__index__]` markers stripped
  indexed : List Bool       -- per item after the section: carried the `[__index__]` marker
  kind : LinkKind
  support : Option Support
  callback : Option Nat     -- commit_callback (function name)
  dest : Option Nat         -- destination_object (class whose property is replaced)
  deriving Repr

structure ClassLinks where
  cls : Nat
  links : List Link
  deriving Repr

/-- one step of the reachability closure: classes reached through supported object links of reached classes -/
def reachStep (classes : List ClassLinks) (v : Nat) (cur : List Nat) : List Nat :=
  classes.foldl (fun acc c =>
    if memN c.cls cur then
      c.links.foldl (fun acc l =>
        match l.kind with
        | .object k => if supportsOpt l.support v && !memN k acc then acc ++ [k] else acc
        | _ => acc) acc
    else acc) cur

/-- classes constructed / committed in version `v`, starting from the managers (`fuel` = number of classes suffices) -/
def reachable (classes : List ClassLinks) (roots : List Nat) (v : Nat) : Nat → List Nat
  | 0 => roots
  | n + 1 => reachStep classes v (reachable classes roots v n)

/-- structure.json: every container (a section, or the path of a struct retriever inside its section) with its
retrievers in file order (`true` = struct retriever). Grouping by container keeps the kernel evaluation of
"does this path exist" at a few dozen steps per link. -/
abbrev Paths := List (List Nat × List (Nat × Bool))

def findC : Paths → List Nat → Option (List (Nat × Bool))
  | [], _ => none
  | (c, rs) :: r, key => bif lbeq c key then some rs else findC r key

def leafKind : List (Nat × Bool) → Nat → Option Bool
  | [], _ => none
  | (n, b) :: r, x => bif Nat.beq n x then some b else leafKind r x

/-- `[s, a, b] ↦ ([s, a], b)` -/
def splitLast : List Nat → Option (List Nat × Nat)
  | [] => none
  | [x] => some ([], x)
  | x :: y :: r => match splitLast (y :: r) with
    | some (c, l) => some (x :: c, l)
    | none => none

/-- `none`: no such retriever; `some b`: it exists and `b` tells whether it is a struct list -/
def pathKind (ps : Paths) (p : List Nat) : Option Bool :=
  match splitLast p with
  | none => none
  | some (c, x) =>
    match findC ps c with
    | none => none
    | some rs => leafKind rs x

def hasPath (ps : Paths) (p : List Nat) : Bool :=
  match pathKind ps p with | some _ => true | none => false
def isStructPath (ps : Paths) (p : List Nat) : Bool :=
  match pathKind ps p with | some b => b | none => false

/-- prefixes `section :: items[0..i]` for the items that carry an index marker must be struct retrievers -/
def indexedPrefixesOK (ps : Paths) : List Nat → List Nat → List Bool → Bool
  | _, [], _ => true
  | _, _ :: _, [] => false
  | pre, x :: xs, b :: bs => (!b || isStructPath ps (pre ++ [x])) && indexedPrefixesOK ps (pre ++ [x]) xs bs

/-- **the C15 link obligation for one link in one version**: supported ↔ the field exists in that version's
structure (no leak, no failing save, nothing refused that exists); an existing path has the shape the link assumes -/
def linkOK (ps : Paths) (v : Nat) (l : Link) : Bool :=
  match l.kind with
  | .history _ => true
  | k =>
    (beqB (supportsOpt l.support v) (hasPath ps l.path)) &&
    (!hasPath ps l.path ||
      (match l.path with
       | [] => false
       | s :: items => Nat.beq items.length l.indexed.length && indexedPrefixesOK ps [s] items l.indexed) &&
      (match k with | .object _ => isStructPath ps l.path | _ => true))

def linksOK (classes : List ClassLinks) (roots : List Nat) (ps : Paths) (v : Nat) : Bool :=
  let r := reachable classes roots v classes.length
  classes.all (fun c => !memN c.cls r || c.links.all (linkOK ps v))

/-- the offending links (witness function paired with `linksOK`) -/
def linksBad (classes : List ClassLinks) (roots : List Nat) (ps : Paths) (v : Nat) : List (Nat × Nat) :=
  let r := reachable classes roots v classes.length
  classes.foldl (fun acc c => if memN c.cls r then
      acc ++ (c.links.filter (fun l => !linkOK ps v l)).map (fun l => (c.cls, l.name)) else acc) []

/-- state of a class attribute after `overwrite_unsupported_properties` -/
inductive AttrState where
  | available | disabled
  deriving DecidableEq, Repr

/-- a flat store of field values keyed by structure path (index histories abstracted away) -/
abbrev Store := List (List Nat × Val)

def sget : Store → List Nat → Option Val
  | [], _ => none
  | (p', v) :: r, p => if p' = p then some v else sget r p

def sset : Store → List Nat → Val → Store
  | [], p, v => [(p, v)]
  | (p', v') :: r, p, v => if p' = p then (p, v) :: r else (p', v') :: sset r p v

/-- `pull_from_link`: an unsupported link yields `None` and disables the attribute; a supported one reads the field
(and fails if the structure has no such field) -/
def pullLink (ps : Paths) (v : Nat) (l : Link) (st : Store) : Except Err (Option Val × AttrState) :=
  if !supportsOpt l.support v then .ok (none, .disabled)
  else if !hasPath ps l.path then .error .keyError
  else .ok (sget st l.path, .available)

/-- `push_to_link`: history links and unsupported links are skipped; otherwise the retriever must exist -/
def pushLink (ps : Paths) (v : Nat) (l : Link) (value : Val) (st : Store) : Except Err Store :=
  match l.kind with
  | .history _ => .ok st
  | _ =>
    if !supportsOpt l.support v then .ok st
    else if !hasPath ps l.path then .error .keyError
    else .ok (sset st l.path value)

/-- the replaced property: `_get` raises -/
def readAttr (s : AttrState) (cur : Val) : Except Err Val :=
  match s with
  | .available => .ok cur
  | .disabled => .error .unsupported

/-- the replaced property: `_set` raises unless the value is `None` (and then stores nothing) -/
def writeAttr (s : AttrState) (cur new : Val) : Except Err Val :=
  match s with
  | .available => .ok new
  | .disabled => if new = .none then .ok cur else .error .unsupported

/-! ## Type tables and `_add_effect` / `_add_condition` -/

structure TypeEntry where
  id : Int
  attrs : List Nat          -- `attributes`
  defaults : Dict           -- `default_attributes` in file order
  deriving Repr

abbrev Table := List TypeEntry

def Table.find? : Table → Int → Option TypeEntry
  | [], _ => none
  | e :: r, ty => bif ibeq e.id ty then some e else Table.find? r ty

def Table.ids (t : Table) : List Int := t.map (·.id)

/-- what the code knows about one component kind (effect / condition); generated from the ASTs -/
structure Sig where
  typeKey : Nat             -- "effect_type" / "condition_type"
  addParams : List Nat      -- parameters of `_add_effect` (incl. the type)
  initParams : List Nat     -- parameters of `Effect.__init__`
  initKwargs : Bool         -- `**kwargs` present: unknown keys are swallowed silently
  attrs : List Nat          -- names readable on an instance: assigned in `__init__` or a property
  intRequired : List Nat    -- raise_if_not_int_subclass([...])
  enumVals : List Int       -- EffectId / ConditionId values
  deriving Repr

/-- `{**default_attributes[0], **default_attributes[type]}`; `none` = KeyError -/
def defaultsFor (t : Table) (ty : Int) : Option Dict :=
  match t.find? 0, t.find? ty with
  | some d0, some d => some (dmerge d0.defaults d.defaults)
  | _, _ => none

/-- a keyword argument that was passed and is not `None` -/
def argOf (args : Dict) (k : Nat) : Option Val :=
  match dget args k with
  | some .none => none
  | r => r

/-- the loop `for key, value in defaults.items(): attr[key] = locals()[key] if … is not None else value` -/
def fillKw (sig : Sig) (ty : Int) (args : Dict) : Dict → Except Err Dict
  | [] => .ok []
  | (k, dv) :: r =>
    if !memN k sig.addParams then .error .keyError           -- `locals()[key]`
    else match fillKw sig ty args r with
      | .error e => .error e
      | .ok rest =>
        let v := bif Nat.beq k sig.typeKey then Val.int ty else (argOf args k).getD dv
        .ok ((k, v) :: rest)

/-- `Trigger._add_effect` up to the constructor call: the keyword dict handed to `Effect(**effect_attr)` -/
def addKw (sig : Sig) (t : Table) (ty : Int) (args : Dict) : Except Err Dict :=
  if args.any (fun kv => !memN kv.1 sig.addParams || Nat.beq kv.1 sig.typeKey) then .error .typeError
  else match defaultsFor t ty with
    | none => if memI ty sig.enumVals then .error .unsupported else .error .valueError
    | some d => fillKw sig ty args d

/-! ## `Effect.__init__` / `Condition.__init__` -/

/-- interned ids of the attribute names the constructors treat specially (generated) -/
structure AttrNames where
  itemId : Nat
  quantity : Nat
  aaQuantity : Nat
  aaClass : Nat
  varAttr : Nat
  variableRef : Nat
  objectAttributes : Nat
  selectedIds : Nat
  x1 : Nat
  y1 : Nat
  x2 : Nat
  y2 : Nat
  legacyLoc : Nat
  locRef : Nat
  deriving Repr

/-- armour/attack families (generated from effect.py) -/
structure AAFamily where
  aaEffects : List Int
  partialQ : List Int
  partialV : List Int
  aaAttrs : List Int
  deriving Repr

inductive Src where
  | quantity | variable | none
  deriving DecidableEq, Repr

def valIn (v : Val) (l : List Int) : Bool :=
  match v with
  | .int i => memI i l
  | _ => false

/-- `_get_armour_attack_source` -/
def source (f : AAFamily) (ty oa : Val) : Src :=
  if valIn ty f.aaEffects || (valIn ty f.partialQ && valIn oa f.aaAttrs) then .quantity
  else if valIn ty f.partialV && valIn oa f.aaAttrs then .variable
  else .none

/-- `value_is_valid` : neither `None` nor `-1` -/
def valid (v : Val) : Bool :=
  match v with
  | .none => false
  | .int i => !ibeq i (-1)
  | _ => true

/-- Python truthiness (`emptyStr` = interned id of `""`) -/
def truthyE (emptyStr : Nat) (v : Val) : Bool :=
  match v with
  | .none => false
  | .int i => !ibeq i 0
  | .str s => !Nat.beq s emptyStr
  | .list l => !l.isEmpty

/-- `_split_aa_value` (width `k` = 16 for trigger version ≥ 2.5, else 8); non-ints raise `TypeError` -/
def splitVal (k : Nat) (v : Val) : Except Err (Val × Val) :=
  match v with
  | .int q => .ok (.int (q >>> k), .int (q % (2 ^ k : Int)))
  | _ => .error .typeError

/-- one axis of `validate_coords` -/
def coordAxis (a b : Val) : Except Err (Val × Val) :=
  let b := if valid a && !valid b then a else b
  match a, b with
  | .int x, .int y => if x > y then .ok (.int y, .int x) else .ok (.int x, .int y)
  | _, _ => .error .typeError

def isInt (v : Val) : Bool := match v with | .int _ => true | _ => false

/-- drop keys that are not constructor parameters (swallowed by `**kwargs`) or fail (`TypeError: unexpected keyword`) -/
def bindKw (sig : Sig) : Dict → Except Err Dict
  | [] => .ok []
  | (k, v) :: r =>
    match bindKw sig r with
    | .error e => .error e
    | .ok rest =>
      if memN k sig.initParams then .ok ((k, v) :: rest)
      else if sig.initKwargs then .ok rest else .error .typeError

def par (kw : Dict) (k : Nat) : Val := (dget kw k).getD .none

/-- the armour/attack part of `Effect.__init__` (and of the `quantity` setter it ends with):
`(class, amount, quantity, variable)` after the source-specific handling -/
def aaStep (src : Src) (k emptyStr : Nat) (cls0 qty0 q0 var0 vref : Val) : Except Err (Val × Val × Val × Val) :=
  match src with
  | .variable =>
    if !vref.isNone && var0.isNone && cls0.isNone then
      match splitVal k vref with
      | .ok (c, v) => .ok (c, qty0, q0, v)
      | .error e => .error e
    else .ok (if truthyE emptyStr cls0 then cls0 else .int 0, qty0, q0, var0)
  | .quantity =>
    if !q0.isNone && cls0.isNone && qty0.isNone then
      match splitVal k q0 with
      | .ok (c, a) => .ok (c, a, .none, var0)
      | .error e => .error e
    else if valid cls0 || valid qty0 then .ok (cls0, qty0, .none, var0)
    else
      -- "handled by the quantity property": `self.quantity = quantity` runs last and, unless the value is
      -- `None` or `[]`, splits it into class and amount
      match q0 with
      | .none => .ok (cls0, qty0, q0, var0)
      | .list [] => .ok (cls0, qty0, q0, var0)
      | _ => match splitVal k q0 with
        | .ok (c, a) => .ok (c, a, q0, var0)
        | .error e => .error e
  | .none => .ok (.none, .none, q0, var0)

/-- both axes of `validate_coords` -/
def coords (kw : Dict) (N : AttrNames) : Except Err ((Val × Val) × (Val × Val)) :=
  match coordAxis (par kw N.x1) (par kw N.x2), coordAxis (par kw N.y1) (par kw N.y2) with
  | .ok a, .ok b => .ok (a, b)
  | .error e, _ => .error e
  | _, .error e => .error e

/-- `Effect.__init__` after keyword binding and the int check -/
def effectBody (sig : Sig) (N : AttrNames) (f : AAFamily) (k emptyStr : Nat) (kw : Dict) : Except Err (Src × Dict) :=
  let sel := match par kw N.selectedIds with | .none => Val.list [] | .int i => .list [i] | v => v
  let src := source f (par kw sig.typeKey) (par kw N.objectAttributes)
  let vref := par kw N.variableRef
  match aaStep src k emptyStr (par kw N.aaClass) (par kw N.aaQuantity) (par kw N.quantity) (par kw N.varAttr) vref with
  | .error e => .error e
  | .ok (cls, qty, q, var1) =>
  let var := if var1.isNone then (if !vref.isNone then vref else .int (-1)) else var1
  match coords kw N with
  | .error e => .error e
  | .ok ((x1, x2), (y1, y2)) =>
    let loc := if valid (par kw N.legacyLoc) then par kw N.legacyLoc else par kw N.locRef
    let final := fun (n : Nat) (v : Val) =>
      bif Nat.beq n N.selectedIds then sel else bif Nat.beq n N.aaClass then cls else bif Nat.beq n N.aaQuantity then qty
      else bif Nat.beq n N.quantity then q else bif Nat.beq n N.varAttr then var
      else bif Nat.beq n N.x1 then x1 else bif Nat.beq n N.x2 then x2 else bif Nat.beq n N.y1 then y1
      else bif Nat.beq n N.y2 then y2 else bif Nat.beq n N.locRef then loc else v
    .ok (src, kw.map (fun kv => (kv.1, final kv.1 kv.2)))

/-- `Effect.__init__`: returns the values of the instance attributes, keyed by parameter name
(`k` = armour/attack amount width, `emptyStr` = id of `""`) -/
def effectInit (sig : Sig) (N : AttrNames) (f : AAFamily) (k emptyStr : Nat) (kw0 : Dict) : Except Err (Src × Dict) :=
  match bindKw sig kw0 with
  | .error e => .error e
  | .ok kw =>
    if !(sig.intRequired.all (fun n => isInt (par kw n))) then .error .typeError
    else effectBody sig N f k emptyStr kw

/-- the publicly readable attribute map of a fresh effect, restricted to the keys it was built from:
`item_id` is a derived read-only property, `quantity` of a quantity-source armour/attack effect is the packed pair
(C17) – both are left out -/
def effectObs (N : AttrNames) (r : Src × Dict) : Dict :=
  r.2.filter (fun kv => !(Nat.beq kv.1 N.itemId || Nat.beq kv.1 N.legacyLoc || Nat.beq kv.1 N.variableRef ||
                          (Nat.beq kv.1 N.quantity && (match r.1 with | .quantity => true | _ => false))))

/-- `Condition.__init__` -/
def condInit (sig : Sig) (N : AttrNames) (kw0 : Dict) : Except Err Dict :=
  match bindKw sig kw0 with
  | .error e => .error e
  | .ok kw =>
    if !(sig.intRequired.all (fun n => isInt (par kw n))) then .error .typeError else
    match coords kw N with
    | .error e => .error e
    | .ok ((x1, x2), (y1, y2)) =>
      .ok (kw.map (fun kv => (kv.1,
        bif Nat.beq kv.1 N.x1 then x1 else bif Nat.beq kv.1 N.x2 then x2 else bif Nat.beq kv.1 N.y1 then y1
        else bif Nat.beq kv.1 N.y2 then y2 else kv.2)))

/-! ## The trigger: component list and display order -/

structure Trig where
  comps : List Dict
  order : List Nat
  deriving Repr

/-- `list.remove(i)` -/
def removeFirst : List Nat → Nat → Except Err (List Nat)
  | [], _ => .error .valueError
  | x :: r, i => bif Nat.beq x i then .ok r else
      match removeFirst r i with
      | .ok r' => .ok (x :: r')
      | .error e => .error e

def removeAll (order : List Nat) : List Nat → Except Err (List Nat)
  | [] => .ok order
  | i :: is =>
    match removeFirst order i with
    | .ok o => removeAll o is
    | .error e => .error e

def appendMissing (order : List Nat) : List Nat → List Nat
  | [] => order
  | i :: is => appendMissing (bif memN i order then order else order ++ [i]) is

/-- `update_order_array(order, n)` -/
def updateOrder (order : List Nat) (n : Nat) : Except Err (List Nat) :=
  if Nat.blt n order.length then removeAll order ((List.range order.length).drop n)
  else if Nat.blt order.length n then .ok (appendMissing order (List.range n))
  else .ok order

/-- `self.effects.append(e)` and the next read of `effect_order` -/
def Trig.add (t : Trig) (c : Dict) : Except Err Trig :=
  match updateOrder t.order (t.comps.length + 1) with
  | .ok o => .ok { comps := t.comps ++ [c], order := o }
  | .error e => .error e

/-- everything the model knows about one component kind in one run -/
structure Ctx where
  sig : Sig
  names : AttrNames
  fam : AAFamily
  width : Nat               -- 16 / 8
  emptyStr : Nat
  isEffect : Bool

/-- constructor + observation -/
def construct (c : Ctx) (kw : Dict) : Except Err Dict :=
  if c.isEffect then
    match effectInit c.sig c.names c.fam c.width c.emptyStr kw with
    | .ok r => .ok (effectObs c.names r)
    | .error e => .error e
  else condInit c.sig c.names kw

/-- `Trigger._add_effect` / `_add_condition` completely: returns the new component's observable attributes and the trigger -/
def addComp (c : Ctx) (t : Table) (ty : Int) (args : Dict) (tr : Trig) : Except Err (Dict × Trig) :=
  match addKw c.sig t ty args with
  | .error e => .error e
  | .ok kw =>
    match construct c kw with
    | .error e => .error e
    | .ok o =>
      match tr.add o with
      | .ok tr' => .ok (o, tr')
      | .error e => .error e

/-! ## Helpers (`new_effect.*`, `new_condition.*`) as data -/

inductive Guard where
  /-- `if (a₁ is not None or …) and q is not None: raise ValueError` -/
  | anyThenNot (anyOf : List Nat) (other : Nat)
  /-- `if c is not None and oa not in (v₁, …): raise ValueError` -/
  | needsIn (arg attr : Nat) (vals : List Int)
  deriving Repr

structure Helper where
  name : Nat
  nameChars : List Nat       -- character codes of the method name
  deprecated : Bool
  params : List Nat
  const : Nat                -- enum member name (interned)
  forwards : List (Nat × Nat)  -- (keyword, argument name)
  guards : List Guard
  deriving Repr

structure EnumMember where
  name : Nat
  nameChars : List Nat
  value : Int
  deriving Repr

def guardFires (args : Dict) : Guard → Bool
  | .anyThenNot as q => as.any (fun a => (argOf args a).isSome) && (argOf args q).isSome
  | .needsIn c oa vals => (argOf args c).isSome && !(valIn ((dget args oa).getD .none) vals)

def enumValue (ms : List EnumMember) (n : Nat) : Option Int :=
  match ms with
  | [] => none
  | m :: r => bif Nat.beq m.name n then some m.value else enumValue r n

/-- call a helper with keyword arguments `args` (keys must be parameters of the helper) -/
def runHelper (c : Ctx) (ms : List EnumMember) (t : Table) (h : Helper) (args : Dict) (tr : Trig) :
    Except Err (Dict × Trig) :=
  if args.any (fun kv => !memN kv.1 h.params) then .error .typeError
  else if h.guards.any (guardFires args) then .error .valueError
  else match enumValue ms h.const with
    | none => .error .keyError         -- AttributeError: no such enum member
    | some ty =>
      -- keyword `kw` receives the value of the helper's local `a` (a parameter, `None` if not passed)
      let fwd : Dict := h.forwards.map (fun p => (p.1, par args p.2))
      addComp c t ty fwd tr

/-! ## Decidable well-formedness of the generated tables -/

def nodupNat : List Nat → Bool
  | [] => true
  | x :: r => !memN x r && nodupNat r

def nodupInt : List Int → Bool
  | [] => true
  | x :: r => !memI x r && nodupInt r

def subset (a b : List Nat) : Bool := a.all (fun x => memN x b)

/-- the key list of a `default_attributes` dict against the signatures of the code -/
def keysOK (sig : Sig) (ks : List Nat) : Bool :=
  nodupNat ks &&
  subset ks sig.addParams &&          -- else `locals()[key]` raises KeyError
  subset ks sig.initParams            -- else swallowed by **kwargs: the default is silently lost

/-- value of key `k` in `{**d0, **d}` -/
def dflt (d0 d : Dict) (k : Nat) : Val :=
  match dget d k with
  | some v => v
  | none => (dget d0 k).getD .none

/-- the merged defaults of a type are acceptable to the constructor: the ids that must be ints are ints, the area is
made of ints, and (effects) the armour/attack class default is not `None` and the quantity default is an int, `None` or
`[]`, so that nothing non-numeric is split
(`creatable_sound`: then creating the type with no arguments succeeds) -/
def creatable (c : Ctx) (d0 d : Dict) : Bool :=
  c.sig.intRequired.all (fun n => isInt (dflt d0 d n)) &&
  isInt (dflt d0 d c.names.x1) && isInt (dflt d0 d c.names.x2) &&
  isInt (dflt d0 d c.names.y1) && isInt (dflt d0 d c.names.y2) &&
  (!c.isEffect || (!(dflt d0 d c.names.aaClass).isNone &&
    (match dflt d0 d c.names.quantity with | .int _ => true | .none => true | .list [] => true | _ => false)))

/-- one entry of effects.json / conditions.json (fast path: its key list is literally that of type 0) -/
def entryOK (c : Ctx) (keys0 : List Nat) (d0 : Dict) (e : TypeEntry) : Bool :=
  (lbeq (dkeys e.defaults) keys0 || keysOK c.sig (dkeys e.defaults)) &&
  subset e.attrs c.sig.attrs &&                       -- else `getattr(effect, attribute)` fails
  memI e.id c.sig.enumVals &&                         -- every type of the table has an enum member
  creatable c d0 e.defaults

/-- creating the type with no arguments succeeds (executable form; used by the driver, implied by `tableOK`) -/
def createsOK (c : Ctx) (t : Table) (e : TypeEntry) : Bool :=
  match addComp c t e.id [] { comps := [], order := [] } with
  | .ok _ => true
  | .error _ => false

def tableOK (c : Ctx) (t : Table) : Bool :=
  nodupInt t.ids &&
  !memN c.names.variableRef c.sig.addParams &&
  (match t.find? 0 with
   | some e0 =>
     keysOK c.sig (dkeys e0.defaults) && memN c.sig.typeKey (dkeys e0.defaults) &&
     t.all (entryOK c (dkeys e0.defaults) e0.defaults)
   | none => false)

def tableBad (c : Ctx) (t : Table) : List Int :=
  match t.find? 0 with
  | some e0 => (t.filter (fun e => !(entryOK c (dkeys e0.defaults) e0.defaults e))).map (·.id)
  | none => [0]

structure VersionTable where
  version : Nat
  effects : Table
  conditions : Table
  paths : Paths
  deriving Repr

/-- **the per-version obligation of C15/C16** -/
def versionOK (classes : List ClassLinks) (roots : List Nat) (ce cc : Ctx) (vt : VersionTable) : Bool :=
  linksOK classes roots vt.paths vt.version && tableOK ce vt.effects && tableOK cc vt.conditions

def upperCode (c : Nat) : Nat := bif Nat.ble 97 c && Nat.ble c 122 then c - 32 else c

/-- `or_` / `and_`: one trailing underscore (Python keyword clash) is not part of the name -/
def stripUnderscore : List Nat → List Nat
  | [] => []
  | [95] => []
  | x :: r => x :: stripUnderscore r

def memberNamed (ms : List EnumMember) (n : Nat) : Option EnumMember :=
  match ms with
  | [] => none
  | m :: r => bif Nat.beq m.name n then some m else memberNamed r n

/-- one helper: named after the member it forwards (or a `@deprecated` alias of a helper that is), forwards every
parameter under its own name exactly once, only keywords `_add_effect` accepts, guards speak about its parameters -/
def helperOK (sig : Sig) (ms : List EnumMember) (hs : List Helper) (h : Helper) : Bool :=
  (match memberNamed ms h.const with
   | none => false
   | some m =>
     if h.deprecated then
       hs.any (fun h' => !h'.deprecated && Nat.beq h'.const h.const && lbeq ((stripUnderscore h'.nameChars).map upperCode) m.nameChars)
         && lbeq h.params (match hs.find? (fun h' => !h'.deprecated && Nat.beq h'.const h.const) with
                         | some h' => h'.params | none => [])
     else lbeq ((stripUnderscore h.nameChars).map upperCode) m.nameChars) &&
  h.forwards.all (fun p => Nat.beq p.1 p.2) &&
  nodupNat (h.forwards.map (·.1)) &&
  Nat.beq h.forwards.length h.params.length &&
  subset h.params (h.forwards.map (·.2)) &&
  subset (h.forwards.map (·.2)) h.params &&           -- a forwarded name that is no parameter is a NameError
  nodupNat h.params &&
  subset (h.forwards.map (·.1)) sig.addParams &&
  !memN sig.typeKey (h.forwards.map (·.1)) &&
  h.guards.all (fun g => match g with
    | .anyThenNot as q => subset as h.params && memN q h.params
    | .needsIn c oa _ => memN c h.params && memN oa h.params)

/-- all helpers of one kind: each is fine, and every enum member has exactly one non-deprecated helper -/
def helpersOK (sig : Sig) (ms : List EnumMember) (hs : List Helper) : Bool :=
  hs.all (helperOK sig ms hs) &&
  nodupNat (hs.map (·.name)) &&
  nodupNat (ms.map (·.name)) &&
  ms.all (fun m => Nat.beq (hs.filter (fun h => !h.deprecated && Nat.beq h.const m.name)).length 1) &&
  libeq sig.enumVals (ms.map (·.value))

def helpersBad (sig : Sig) (ms : List EnumMember) (hs : List Helper) : List Nat :=
  (hs.filter (fun h => !helperOK sig ms hs h)).map (·.name)

end Aoe.Versions
