/-!
# M10: the save pipeline (C13)

Transcribes, from `AoE2ScenarioParser/scenarios/aoe2_scenario.py` and `scenarios/aoe2_de_scenario.py`:

* `AoE2Scenario.write_to_file(filename, skip_reconstruction, skip_validation)`
* `AoE2Scenario._validate_before_write` (source-path guard, then `_validate_scenario_variant`)
* `AoE2Scenario._prepare_writing` (registered `on_write` callbacks in registration order, then `_internal_on_write`)
* `AoE2Scenario._internal_on_write` (`DataHeader.filename := stem(filename)`) and `AoE2DEScenario._internal_on_write`
  (`super()` then `xs_manager.validate_scenario_xs()`)
* `AoE2Scenario._write_from_structure` (`commit()` unless `skip_reconstruction`; header bytes; the other sections'
  bytes in structure order; `_compress_bytes(b''.join(...))`; `with open(filename, 'wb') as f: f.write(binary + compressed)`)
* the reading of `settings.ALLOW_OVERWRITING_SOURCE`.

A save is an ordered list of **fallible steps**; the fault schedule names the step index that raises (a failing
callback, an unrepresentable value inside a retriever, a script-validation error, …).  A step that raises does so
*before* its own effect.  Every step acts on `St = (in-memory results, filesystem)`; only `openWrite` (and the two
halves `openTrunc` / `writeOpened`, which the transcribed pipeline does **not** use – they exist so that
alternative orderings can be written down and shown to break the theorems) touches the filesystem.

Model boundary (tied to the code by the event-trace correspondence and the fault enumeration of `harness/h_c13.py`):
* paths are identifiers; `source_location == filename` is Python string equality = identifier equality here
  (two different spellings of one file are two paths – the guard of the real code does not see through that either);
* the bytes a section serialises to are inputs (`header`, `sections`); the deflate function is an opaque parameter;
* a failure *inside* the final `f.write` (disk full) is operating-system behaviour outside the model.
-/
namespace Aoe.Save

abbrev Bytes := List UInt8
/-- a path string (identifier) -/
abbrev Path := Nat
/-- the filesystem: which paths hold which content -/
abbrev FS := Path → Option Bytes

/-- create or replace the file at `p` -/
def FS.put (fs : FS) (p : Path) (b : Bytes) : FS := fun q => if q = p then some b else fs q

/-- polarity of the test in `_validate_before_write`.  `asPinned` is the code as written on the pinned tree
(`if settings.ALLOW_OVERWRITING_SOURCE and self.source_location == filename: raise ValueError`), `fixed` is the
one-token repair (`if not settings.ALLOW_OVERWRITING_SOURCE and …`). -/
inductive Guard | asPinned | fixed
  deriving DecidableEq, Repr

/-- does the source-path guard raise?  `allow` = `settings.ALLOW_OVERWRITING_SOURCE`, `same` =
`self.source_location == filename` -/
def Guard.refuses : Guard → Bool → Bool → Bool
  | .asPinned, allow, same => allow && same
  | .fixed, allow, same => !allow && same

/-- everything one `write_to_file` call reads -/
structure Cfg where
  guard : Guard
  /-- `settings.ALLOW_OVERWRITING_SOURCE` -/
  allow : Bool
  /-- argument `skip_validation` -/
  skipValidation : Bool
  /-- argument `skip_reconstruction` -/
  skipReconstruction : Bool
  /-- `self.source_location` (`from_file` stores the path it was given) -/
  source : Option Path
  /-- argument `filename` -/
  dest : Path
  /-- `_validate_scenario_variant` does not raise -/
  variantOk : Bool
  /-- `len(self._on_write_funcs)` -/
  callbacks : Nat
  /-- number of `commit` events (7 managers and their nested objects) -/
  commits : Nat
  /-- bytes of the `FileHeader` section -/
  header : Bytes
  /-- bytes of the other sections, in structure order (any granularity: sections or single retrievers) -/
  sections : List Bytes
  /-- `_compress_bytes` -/
  deflate : Bytes → Bytes

def Cfg.same (c : Cfg) : Bool := c.source == some c.dest

inductive Err
  | overwriteSource          -- `ValueError("Overwriting the source scenario file is discouraged & disallowed.")`
  | variant                  -- `UnsupportedVersionError` / `ValueError` of `_validate_scenario_variant`
  | injected (k : Nat)       -- step `k` raised (fault schedule)
  | internal                 -- a name used before it is bound (cannot happen on `pipeline`, see `Props.C13.ok_iff`)
  deriving DecidableEq, Repr

inductive Step
  | validate                 -- `_validate_before_write`
  | callback (i : Nat)       -- `self._on_write_funcs[i](self)`
  | filename                 -- `AoE2Scenario._internal_on_write`
  | xsValidate               -- `xs_manager.validate_scenario_xs()`
  | commit (i : Nat)         -- i-th `AoE2Object.commit`
  | serialise (b : Bytes)    -- one `get_data_as_bytes` producing `b`
  | compress                 -- `_compress_bytes(b''.join(rest))`
  | openWrite                -- `with open(filename, 'wb') as f: f.write(binary + compressed)`
  | openTrunc                -- `open(filename, 'wb')` alone: creates / truncates   (alternative pipelines only)
  | writeOpened              -- `f.write(binary + compressed)` on the opened file   (alternative pipelines only)
  deriving DecidableEq, Repr

/-- can the step change the filesystem? -/
def Step.touchesFs : Step → Bool
  | .openWrite | .openTrunc | .writeOpened => true
  | _ => false

/-- results held in local variables of `_write_from_structure` -/
structure Mem where
  /-- serialised sections so far, **latest first** (the header is the last entry) -/
  parts : List Bytes
  /-- `compressed` -/
  compressed : Option Bytes

structure St where
  mem : Mem
  fs : FS

/-- `_validate_before_write` -/
def validate (c : Cfg) : Except Err Unit :=
  if c.guard.refuses c.allow c.same then .error .overwriteSource
  else if c.variantOk then .ok () else .error .variant

/-- what the file will hold: `binary + compressed` -/
def payload (h : Bytes) (z : Bytes) : Bytes := h ++ z

/-- one step that does not fail by itself -/
def stepSem (c : Cfg) : Step → St → Except Err St
  | .validate, st => (validate c).map fun _ => st
  | .callback _, st => .ok st
  | .filename, st => .ok st
  | .xsValidate, st => .ok st
  | .commit _, st => .ok st
  | .serialise b, st => .ok { st with mem := { st.mem with parts := b :: st.mem.parts } }
  | .compress, st =>
      match st.mem.parts.reverse with
      | [] => .error .internal
      | _ :: rest => .ok { st with mem := { st.mem with compressed := some (c.deflate rest.flatten) } }
  | .openWrite, st =>
      match st.mem.parts.reverse, st.mem.compressed with
      | h :: _, some z => .ok { st with fs := st.fs.put c.dest (payload h z) }
      | _, _ => .error .internal
  | .openTrunc, st => .ok { st with fs := st.fs.put c.dest [] }
  | .writeOpened, st =>
      match st.mem.parts.reverse, st.mem.compressed with
      | h :: _, some z => .ok { st with fs := st.fs.put c.dest (payload h z) }
      | _, _ => .error .internal

/-- run `steps` (numbered from `i`) with the fault schedule `fault`; a Python exception ends the run and leaves the
state as it is at that moment -/
def exec (c : Cfg) (fault : Option Nat) : Nat → List Step → St → Option Err × St
  | _, [], st => (none, st)
  | i, s :: rest, st =>
    if fault = some i then (some (.injected i), st)
    else match stepSem c s st with
      | .error e => (some e, st)
      | .ok st' => exec c fault (i + 1) rest st'

/-- the steps before the destination is touched, in the order `write_to_file` performs them -/
def prefixSteps (c : Cfg) : List Step :=
  (if c.skipValidation then [] else [.validate])
  ++ (List.range c.callbacks).map .callback
  ++ [.filename, .xsValidate]
  ++ (if c.skipReconstruction then [] else (List.range c.commits).map .commit)
  ++ (c.header :: c.sections).map .serialise
  ++ [.compress]

/-- `write_to_file` -/
def pipeline (c : Cfg) : List Step := prefixSteps c ++ [.openWrite]

def St.init (fs : FS) : St := { mem := { parts := [], compressed := none }, fs := fs }

structure Result where
  /-- `none` = returned normally -/
  err : Option Err
  fs : FS

/-- run an arbitrary step list as a save -/
def runSteps (c : Cfg) (steps : List Step) (fault : Option Nat) (fs : FS) : Result :=
  let r := exec c fault 0 steps (St.init fs)
  { err := r.1, fs := r.2.fs }

/-- one `scenario.write_to_file(dest, …)` call on filesystem `fs` -/
def save (c : Cfg) (fault : Option Nat) (fs : FS) : Result := runSteps c (pipeline c) fault fs

/-- order class of a step (what the event-trace correspondence compares) -/
inductive Kind | validate | callback | filename | xsValidate | commit | serialise | compress | openWrite | other
  deriving DecidableEq, Repr

def Step.kind : Step → Kind
  | .validate => .validate | .callback _ => .callback | .filename => .filename | .xsValidate => .xsValidate
  | .commit _ => .commit | .serialise _ => .serialise | .compress => .compress | .openWrite => .openWrite
  | _ => .other

/-- number of fallible steps that come after the first step that touches the filesystem -/
def fallibleAfterOpen : List Step → Nat
  | [] => 0
  | s :: rest => if s.touchesFs then rest.length else fallibleAfterOpen rest

/-- alternative ordering used only as a negative example: open the destination first, serialise afterwards -/
def earlyOpenPipeline (c : Cfg) : List Step :=
  (if c.skipValidation then [] else [.validate])
  ++ (List.range c.callbacks).map .callback
  ++ [.filename, .xsValidate]
  ++ (if c.skipReconstruction then [] else (List.range c.commits).map .commit)
  ++ [.openTrunc]
  ++ (c.header :: c.sections).map .serialise
  ++ [.compress, .writeOpened]

end Aoe.Save
