/-!
# M5: the trigger manager's structural operations (C06, C07)

Transcribes, from the pinned tree,
* `objects/managers/trigger_manager.py`: `TriggerManager.{triggers (setter), trigger_display_order (lazy getter /
  setter), add_trigger, copy_trigger, copy_trigger_tree, copy_trigger_per_player, copy_trigger_tree_per_player
  (structural part only: which triggers are created where, how activation effects are retargeted, group-by),
  import_triggers, move_triggers, reorder_triggers, remove_trigger(s), get_trigger,
  _validate_and_retrieve_trigger_info, _find_trigger_tree_nodes(_recursively), compute_updated_display_order}` and
  `get_activation_effects`;
* `helper/list_functions.py`: `update_order_array`, `list_changed`/`hash_list` (ideal hash: the ghost field `hashed`
  is the list of object identities at the last hashing);
* `objects/support/trigger_select.py` (the three ways of selecting a trigger);
* `objects/data_objects/trigger.py`: the lazily synchronised `condition_order` / `effect_order` arrays, `remove_effect`
  / `remove_condition` (section "order arrays of one component list" at the end).

Conventions
* A trigger is `{uid (ghost: object identity), tid (= trigger_id), effs}`; an effect is `{kind, target}` where `kind`
  says whether `get_activation_effects` selects it and `target : Option Nat` is `Effect.trigger_id` with `none = -1`
  (other negative values are not expressible; every code path treats them like `-1`: they are never a dict key and
  never pass `display_order.index`).
* Python exceptions are `Except Err`; a history ends at the first exception (partially mutated state after a raise is
  not modelled).
* Python `dict`s are association lists in insertion order, looked up last-write-wins (`lookupLast`).
* `fixed : Bool` parameters (bundled as `Fix` for `step`) select the repaired behaviour for the two recorded defects
  (F4: `remove_triggers` resets effects that pointed at a removed trigger to -1; F16: the tree search does not list a
  node twice). `false` is the pinned code.
* Arguments that make the real code alias one object twice in the trigger list (duplicate ids handed to
  `move_triggers` / `reorder_triggers`, duplicate selections in `remove_triggers`) are outside the model's domain
  (values cannot alias); the theorems carry `Nodup` hypotheses, the harness never sends them – except through defect F16,
  where the *code itself* builds such a list (witness `treepp_alias_counter` in `Props/C06`).
-/
namespace Aoe.Trig

inductive Err | index | value | key | attr | fuel
  deriving DecidableEq, Repr

inductive Kind | act | deact | other
  deriving DecidableEq, Repr

/-- an effect: `kind` (activate / deactivate / any other effect type) and its `trigger_id` (`none` = -1) -/
structure Eff where
  kind : Kind
  target : Option Nat
  deriving DecidableEq, Repr

/-- selected by `get_activation_effects` -/
def Eff.isAct (e : Eff) : Bool :=
  match e.kind with
  | .other => false
  | _ => true

structure Trig where
  uid : Nat            -- ghost: identity of the Python object
  tid : Nat            -- `trigger_id`
  effs : List Eff
  deriving DecidableEq, Repr

/-- trigger manager: `_triggers`, `_trigger_display_order`, ghost `hashed` (identities at the last `hash_list`),
ghost `next` (next fresh identity) -/
structure TM where
  trigs : List Trig
  order : List Nat
  hashed : List Nat
  next : Nat
  deriving DecidableEq, Repr

def TM.empty : TM := ⟨[], [], [], 0⟩

def uids (tm : TM) : List Nat := tm.trigs.map (·.uid)

/-! ## `update_order_array` and the lazy display order -/

/-- `for i in is: o.remove(i)` (`ValueError` when absent) -/
def removeAll : List Nat → List Nat → Except Err (List Nat)
  | o, [] => .ok o
  | o, i :: is => if i ∈ o then removeAll (o.erase i) is else .error .value

/-- `for i in is: if i not in o: o.append(i)` -/
def appendMissing : List Nat → List Nat → List Nat
  | o, [] => o
  | o, i :: is => appendMissing (if i ∈ o then o else o ++ [i]) is

/-- `update_order_array(order_array, supposed_length)` -/
def updateOrderArray (o : List Nat) (n : Nat) : Except Err (List Nat) :=
  if n < o.length then removeAll o (List.range' n (o.length - n))
  else if o.length < n then .ok (appendMissing o (List.range n))
  else .ok o

/-- the `trigger_display_order` getter: resynchronise iff the list changed since the last hashing -/
def readOrder (tm : TM) : Except Err TM :=
  if tm.hashed = uids tm then .ok tm
  else match updateOrderArray tm.order tm.trigs.length with
    | .ok o => .ok { tm with order := o, hashed := uids tm }
    | .error e => .error e

/-- `list.index(k)` -/
def indexOf (o : List Nat) (k : Nat) : Except Err Nat :=
  if k ∈ o then .ok (o.idxOf k) else .error .value

/-! ## trigger selection (`_validate_and_retrieve_trigger_info`) -/

/-- `int` / `TS.index(i)`, `TS.display(d)`, `TS.trigger(obj)` where `obj` is the object at list position `p` -/
inductive Sel
  | index (i : Int)
  | display (d : Nat)
  | obj (p : Nat)
  deriving DecidableEq, Repr

/-- `(trigger_index, display_index, trigger)` -/
structure Found where
  idx : Nat
  disp : Nat
  trig : Trig
  deriving DecidableEq, Repr

/-- selection by object: `trigger_index = trigger.trigger_id`, `display_index = order.index(trigger_index)` -/
def resolveObj (tm : TM) (t : Trig) : Except Err (TM × Found) :=
  match readOrder tm with
  | .error e => .error e
  | .ok tm =>
    match indexOf tm.order t.tid with
    | .error e => .error e
    | .ok d => .ok (tm, ⟨t.tid, d, t⟩)

/-- `none` in the result is the fall-through of the `except IndexError` block (index 0 / display index 0 on an
empty manager): the function returns a `None` trigger instead of raising. -/
def resolve (tm : TM) : Sel → Except Err (TM × Option Found)
  | .obj p =>
    match tm.trigs[p]? with
    | none => .error .attr
    | some t =>
      match resolveObj tm t with
      | .error e => .error e
      | .ok (tm, f) => .ok (tm, some f)
  | .index i =>
    if i < 0 then .error .value            -- `triggers[i]` may succeed, `order.index(i)` never does
    else match tm.trigs[i.toNat]? with
      | some t =>
        match readOrder tm with
        | .error e => .error e
        | .ok tm =>
          match indexOf tm.order i.toNat with
          | .error e => .error e
          | .ok d => .ok (tm, some ⟨i.toNat, d, t⟩)
      | none => if i = 0 then .ok (tm, none) else .error .value
  | .display d =>
    match readOrder tm with
    | .error e => .error e
    | .ok tm =>
      match tm.order[d]? with
      | some ti =>
        match tm.trigs[ti]? with
        | some t => .ok (tm, some ⟨ti, d, t⟩)
        | none => if ti ≠ 0 then .error .value else if d ≠ 0 then .error .value else .ok (tm, none)
      | none => if d ≠ 0 then .error .value else .ok (tm, none)

/-- callers other than `get_trigger` dereference the trigger: a `None` trigger raises there -/
def resolve! (tm : TM) (s : Sel) : Except Err (TM × Found) :=
  match resolve tm s with
  | .error e => .error e
  | .ok (_, none) => .error .attr
  | .ok (tm, some f) => .ok (tm, f)

/-! ## dictionaries -/

/-- Python `dict` lookup on an insertion-ordered association list (a later write to the same key wins) -/
def lookupLast : List (Nat × Nat) → Nat → Option Nat
  | [], _ => none
  | (a, b) :: r, k =>
    match lookupLast r k with
    | some v => some v
    | none => if a = k then some b else none

/-- `if effect.trigger_id in d: effect.trigger_id = d[effect.trigger_id]` on activation effects -/
def remapEff (d : List (Nat × Nat)) (e : Eff) : Eff :=
  if e.isAct then
    match e.target with
    | some k => match lookupLast d k with
      | some v => { e with target := some v }
      | none => e
    | none => e
  else e

def remapTrig (d : List (Nat × Nat)) (t : Trig) : Trig := { t with effs := t.effs.map (remapEff d) }

/-- `effect.trigger_id = d[effect.trigger_id]` on activation effects (`KeyError` when absent) -/
def remapEffStrict (d : List (Nat × Nat)) (e : Eff) : Except Err Eff :=
  if e.isAct then
    match e.target with
    | some k => match lookupLast d k with
      | some v => .ok { e with target := some v }
      | none => .error .key
    | none => .error .key
  else .ok e

def remapTrigStrict (d : List (Nat × Nat)) (t : Trig) : Except Err Trig :=
  match t.effs.mapM (remapEffStrict d) with
  | .ok es => .ok { t with effs := es }
  | .error e => .error e

/-- `try: effect.trigger_id = d[effect.trigger_id] except KeyError: effect.trigger_id = -1` (import) -/
def remapEffImport (d : List (Nat × Nat)) (e : Eff) : Eff :=
  if e.isAct then
    match e.target with
    | some k => { e with target := lookupLast d k }
    | none => e
  else e

/-! ## add / append a copy -/

/-- `add_trigger`: a new trigger with `trigger_id = len(triggers)` is appended (display order untouched until read) -/
def add (tm : TM) : TM :=
  { tm with trigs := tm.trigs ++ [⟨tm.next, tm.trigs.length, []⟩], next := tm.next + 1 }

/-- `deepcopy(trigger)`, `trigger_id = len(triggers)`, `triggers.append` -/
def appendCopy (tm : TM) (t : Trig) : TM × Trig :=
  let c : Trig := { t with uid := tm.next, tid := tm.trigs.length }
  ({ tm with trigs := tm.trigs ++ [c], next := tm.next + 1 }, c)

/-! ## reorder_triggers -/

/-- `[triggers[index] for index in order]` (`IndexError` → `ValueError`) -/
def pick (trigs : List Trig) : List Nat → Except Err (List Trig)
  | [] => .ok []
  | i :: is =>
    match trigs[i]? with
    | none => .error .value
    | some t =>
      match pick trigs is with
      | .error e => .error e
      | .ok r => .ok (t :: r)

/-- `index_changes[trigger.trigger_id] = new_index` for the enumerated list, starting at `j` -/
def changesFrom : Nat → List Trig → List (Nat × Nat)
  | _, [] => []
  | j, t :: ts => (t.tid, j) :: changesFrom (j + 1) ts

/-- `trigger.trigger_id = new_index` -/
def renumFrom : Nat → List Trig → List Trig
  | _, [] => []
  | j, t :: ts => { t with tid := j } :: renumFrom (j + 1) ts

/-- body of `reorder_triggers` after the optional assignment of `new_id_order` -/
def reorderCore (tm : TM) : Except Err TM :=
  match readOrder tm with
  | .error e => .error e
  | .ok tm =>
    match pick tm.trigs tm.order with
    | .error e => .error e
    | .ok picked =>
      let d := changesFrom 0 picked
      let ts := (renumFrom 0 picked).map (remapTrig d)
      -- `self.triggers = new_triggers_list`: the setter resets the display order and the hash
      .ok { tm with trigs := ts, order := List.range ts.length, hashed := ts.map (·.uid) }

/-- `reorder_triggers(new_id_order)`; `min([])` raises, negative ids are rejected by the caller of this function
(see `reorderI`) -/
def reorder (tm : TM) : Option (List Nat) → Except Err TM
  | none => reorderCore tm
  | some o => if o = [] then .error .value else reorderCore { tm with order := o }

/-! ## move_triggers -/

/-- the new id order computed by `move_triggers` from the current display order -/
def moveOrder (order ids : List Nat) (k : Nat) : List Nat :=
  match order[k]? with
  | none => order.filter (fun n => !ids.contains n) ++ ids
  | some ins =>
    let l := order.filter (fun n => !ids.contains n || n == ins)
    let split := l.idxOf ins
    let l' := if ids.contains ins then l.erase ins else l
    l'.take split ++ ids ++ l'.drop split

def move (tm : TM) (ids : List Nat) (k : Nat) : Except Err TM :=
  if ids = [] then .error .value           -- `min([])`
  else match readOrder tm with
    | .error e => .error e
    | .ok tm => reorder tm (some (moveOrder tm.order ids k))

/-! ## copy_trigger -/

/-- returns the new state and the copy as it was appended (`trigger_id = old length`) -/
def copy (tm : TM) (s : Sel) (after : Bool) : Except Err (TM × Trig) :=
  match resolve! tm s with
  | .error e => .error e
  | .ok (tm, f) =>
    let (tm, c) := appendCopy tm f.trig
    if after then
      -- `move_triggers([trigger_index, copy.trigger_id], trigger_index)`: the *trigger index* is used as display position
      match move tm [f.idx, c.tid] f.idx with
      | .error e => .error e
      | .ok tm => .ok (tm, c)
    else .ok (tm, c)

/-! ## trigger trees -/

/-- `_find_trigger_tree_nodes`: targets of the activation effects, in effect order (with repetitions) -/
def actTargets (t : Trig) : List (Option Nat) := (t.effs.filter Eff.isAct).map (·.target)

/-- targets as list indices; a `-1` target makes every caller raise later (`copy_trigger(-1)`), so it is an error here -/
def targetsNat : List (Option Nat) → Except Err (List Nat)
  | [] => .ok []
  | none :: _ => .error .value
  | some k :: r =>
    match targetsNat r with
    | .error e => .error e
    | .ok l => .ok (k :: l)

/-- first occurrences only (`dict.fromkeys`) -/
def dedup : List Nat → List Nat
  | [] => []
  | x :: xs => x :: (dedup xs).filter (fun y => y != x)

/-- `_find_trigger_tree_nodes_recursively(trigger, known)`; returns the extended `known` list. `fuel` bounds the
recursion depth (every level below the root visits a distinct valid index, so `length + 2` is enough). -/
def findRec (fixed : Bool) (trigs : List Trig) : Nat → Trig → List Nat → Except Err (List Nat)
  | 0, _, _ => .error .fuel
  | fuel + 1, t, known =>
    match targetsNat (actTargets t) with
    | .error e => .error e
    | .ok found =>
      let unknown := (if fixed then dedup found else found).filter (fun i => !known.contains i)
      if unknown = [] then .ok known
      else
        unknown.foldlM (fun kn index =>
          match trigs[index]? with
          | none => .error .index
          | some t' => findRec fixed trigs fuel t' kn) (known ++ unknown)

def treeNodes (fixed : Bool) (tm : TM) (f : Found) : Except Err (List Nat) :=
  findRec fixed tm.trigs (tm.trigs.length + 2) f.trig [f.idx]

/-- apply `g` to every trigger whose identity is in `us` -/
def mapUids (us : List Nat) (g : Trig → Except Err Trig) : List Trig → Except Err (List Trig)
  | [] => .ok []
  | t :: ts =>
    match (if us.contains t.uid then g t else .ok t) with
    | .error e => .error e
    | .ok t' =>
      match mapUids us g ts with
      | .error e => .error e
      | .ok r => .ok (t' :: r)

/-- the copy loop of `copy_trigger_tree`: returns state, identities of the copies, `id_swap` -/
def copyNodes (tm : TM) : List Nat → Except Err (TM × List Nat × List (Nat × Nat))
  | [] => .ok (tm, [], [])
  | index :: rest =>
    match copy tm (.index index) false with
    | .error e => .error e
    | .ok (tm, c) =>
      match copyNodes tm rest with
      | .error e => .error e
      | .ok (tm, news, swap) => .ok (tm, c.uid :: news, (index, c.tid) :: swap)

/-- `copy_trigger_tree`; returns the identities of the new triggers in creation order -/
def copyTree (fixed : Bool) (tm : TM) (s : Sel) : Except Err (TM × List Nat) :=
  match resolve! tm s with
  | .error e => .error e
  | .ok (tm, f) =>
    match treeNodes fixed tm f with
    | .error e => .error e
    | .ok known =>
      match copyNodes tm known with
      | .error e => .error e
      | .ok (tm, news, swap) =>
        match mapUids news (remapTrigStrict swap) tm.trigs with
        | .error e => .error e
        | .ok ts => .ok ({ tm with trigs := ts }, news)

/-! ## per-player copies (structure only) -/

/-- the players that get a copy: default ONE..EIGHT, GAIA appended on request, `from_player` skipped -/
def playersFor (players : Option (List Nat)) (fromP : Nat) (gaia : Bool) : List Nat :=
  let l := players.getD [1, 2, 3, 4, 5, 6, 7, 8]
  let l := if gaia && !l.contains 0 then l ++ [0] else l
  l.filter (fun p => p != fromP)

/-- `d[k] = v` on an insertion-ordered dict (keys are unique: an existing key keeps its place) -/
def dictSet {α : Type} : List (Nat × α) → Nat → α → List (Nat × α)
  | [], k, v => [(k, v)]
  | (a, b) :: d, k, v => if a = k then (k, v) :: d else (a, b) :: dictSet d k v

/-- `d.get(k)` -/
def dictGet {α : Type} : List (Nat × α) → Nat → Option α
  | [], _ => none
  | (a, b) :: d, k => if a = k then some b else dictGet d k

/-- the copy loop of `copy_trigger_per_player`; the result dict maps player ↦ copy (as appended) -/
def copyPlayers (tm : TM) (src : Trig) : List Nat → List (Nat × Trig) → Except Err (TM × List (Nat × Trig))
  | [], acc => .ok (tm, acc)
  | p :: ps, acc =>
    -- `copy_trigger(TriggerSelect.trigger(trigger), append_after_source=False)`
    match resolveObj tm src with
    | .error e => .error e
    | .ok (tm, f) =>
      let (tm, c) := appendCopy tm f.trig
      copyPlayers tm src ps (dictSet acc p c)

def copyPerPlayer (tm : TM) (s : Sel) (fromP : Nat) (players : Option (List Nat)) (gaia : Bool) :
    Except Err (TM × List (Nat × Trig)) :=
  match resolve! tm s with
  | .error e => .error e
  | .ok (tm, f) => copyPlayers tm f.trig (playersFor players fromP gaia) []

inductive Group | none | trigger | player
  deriving DecidableEq, Repr

/-- per player: the (identity, trigger_id) of that player's triggers in tree order -/
abbrev PlayerTrigs := List (Nat × List (Nat × Nat))

/-- the "copy for all other players" loop of `copy_trigger_tree_per_player` -/
def copyTreePlayers (tm : TM) (fromP : Nat) (players : Option (List Nat)) (gaia : Bool) :
    List Nat → PlayerTrigs → List (Nat × List (Nat × Nat)) → Except Err (TM × PlayerTrigs × List (Nat × List (Nat × Nat)))
  | [], nt, swap => .ok (tm, nt, swap)
  | index :: rest, nt, swap =>
    match copyPerPlayer tm (.index index) fromP players gaia with
    | .error e => .error e
    | .ok (tm, d) =>
      let (nt, swap) := d.foldl (fun (acc : PlayerTrigs × List (Nat × List (Nat × Nat))) pc =>
        let (nt, swap) := acc
        let sw := dictSet ((dictGet swap index).getD []) pc.1 pc.2.tid
        (dictSet nt pc.1 (((dictGet nt pc.1).getD []) ++ [(pc.2.uid, pc.2.tid)]), dictSet swap index sw)) (nt, swap)
      copyTreePlayers tm fromP players gaia rest nt swap

/-- `effect.trigger_id = trigger_index_swap[effect.trigger_id][player]` -/
def remapEffSwap (swap : List (Nat × List (Nat × Nat))) (player : Nat) (e : Eff) : Except Err Eff :=
  if e.isAct then
    match e.target with
    | none => .error .key
    | some k =>
      match dictGet swap k with
      | none => .error .key
      | some d => match dictGet d player with
        | none => .error .key
        | some v => .ok { e with target := some v }
  else .ok e

def remapTrigSwap (swap : List (Nat × List (Nat × Nat))) (player : Nat) (t : Trig) : Except Err Trig :=
  match t.effs.mapM (remapEffSwap swap player) with
  | .ok es => .ok { t with effs := es }
  | .error e => .error e

/-- the retargeting loop: for every player, for every trigger of that player (by identity, in order) -/
def remapPlayers (swap : List (Nat × List (Nat × Nat))) : PlayerTrigs → List Trig → Except Err (List Trig)
  | [], ts => .ok ts
  | (player, l) :: rest, ts =>
    match l.foldlM (fun ts ut => mapUids [ut.1] (remapTrigSwap swap player) ts) ts with
    | .error e => .error e
    | .ok ts => remapPlayers swap rest ts

/-- `new_trigger_ids` of the group-by logic (`PlayerId.all()` = 0..8) -/
def groupIds (g : Group) (fromP : Nat) (known : List Nat) (nt : PlayerTrigs) : Except Err (List Nat) :=
  let all := [0, 1, 2, 3, 4, 5, 6, 7, 8]
  match g with
  | .none => .ok []
  | .trigger =>
    (List.range known.length).foldlM (fun acc i =>
      all.foldlM (fun acc player =>
        if player = fromP then
          match known[i]? with
          | some k => .ok (acc ++ [k])
          | none => .error .index
        else match dictGet nt player with
          | none => .ok acc
          | some l => match l[i]? with
            | some ut => .ok (acc ++ [ut.2])
            | none => .error .index) acc) []
  | .player =>
    all.foldlM (fun acc player =>
      if player = fromP then .ok (acc ++ known)
      else match dictGet nt player with
        | none => .ok acc
        | some l => .ok (acc ++ l.map (·.2))) []

/-- `copy_trigger_tree_per_player` up to (excluding) the group-by step: the copies are made and retargeted. Returns
the state, the result dict (per player the identities of its triggers), the node list, the per-player triggers and the
display index of the selected trigger. -/
def copyTreePPCore (fixed : Bool) (tm : TM) (s : Sel) (fromP : Nat) (players : Option (List Nat)) (gaia : Bool) :
    Except Err (TM × List (Nat × List Nat) × List Nat × PlayerTrigs × Nat) :=
  match resolve! tm s with
  | .error e => .error e
  | .ok (tm, f) =>
    match treeNodes fixed tm f with
    | .error e => .error e
    | .ok known =>
      -- `new_triggers[from_player] = [self.triggers[i] for i in known]`, `swap[index][from_player] = trigger.trigger_id`
      match pick tm.trigs known with
      | .error _ => .error .index
      | .ok srcs =>
        let nt0 : PlayerTrigs := [(fromP, srcs.map (fun t => (t.uid, t.tid)))]
        let swap0 := (known.zip srcs).foldl (fun sw kt => dictSet sw kt.1 (dictSet ((dictGet sw kt.1).getD []) fromP kt.2.tid)) []
        match copyTreePlayers tm fromP players gaia known nt0 swap0 with
        | .error e => .error e
        | .ok (tm, nt, swap) =>
          match remapPlayers swap nt tm.trigs with
          | .error e => .error e
          | .ok ts => .ok ({ tm with trigs := ts }, nt.map (fun pl => (pl.1, pl.2.map (·.1))), known, nt, f.disp)

/-- `copy_trigger_tree_per_player` (structure); returns per player the identities of its triggers -/
def copyTreePerPlayer (fixed : Bool) (tm : TM) (s : Sel) (fromP : Nat) (players : Option (List Nat)) (gaia : Bool)
    (g : Group) : Except Err (TM × List (Nat × List Nat)) :=
  match copyTreePPCore fixed tm s fromP players gaia with
  | .error e => .error e
  | .ok (tm, ret, known, nt, disp) =>
    match g with
    | .none => .ok (tm, ret)
    | g =>
      -- `if group_triggers_by != GroupBy.NONE: self.move_triggers(new_trigger_ids, display_index)`
      match groupIds g fromP known nt with
      | .error e => .error e
      | .ok ids =>
        match move tm ids disp with
        | .error e => .error e
        | .ok tm => .ok (tm, ret)

/-! ## import_triggers -/

/-- deep copies with fresh identities and `trigger_id = n + offset` -/
def importRenum (uid0 n : Nat) : List Trig → List Trig
  | [] => []
  | t :: ts => { t with uid := uid0, tid := n } :: importRenum (uid0 + 1) (n + 1) ts

/-- `import_triggers(triggers, index)`, `index = none` is the default `-1`; returns the identities of the imported copies.
`ext = false`: the pinned `self.triggers += triggers` (goes through the `triggers` setter: display order reset to the
identity, hash refreshed); `ext = true`: the repaired `self.triggers.extend(triggers)` (defect F5 of C09: the list is
extended in place, the display order is left to the lazy getter). -/
def importTriggers (ext : Bool) (tm : TM) (ts : List Trig) (index : Option Nat) : Except Err (TM × List Nat) :=
  let n := tm.trigs.length
  let d := changesFrom n ts
  let ts' := (importRenum tm.next n ts).map (fun t => { t with effs := t.effs.map (remapEffImport d) })
  let all := tm.trigs ++ ts'
  let tm : TM :=
    if ext then { tm with trigs := all, next := tm.next + ts.length }
    else { trigs := all, order := List.range all.length, hashed := all.map (·.uid), next := tm.next + ts.length }
  let news := ts'.map (·.uid)
  match index with
  | none => .ok (tm, news)
  | some k =>
    match move tm (ts'.map (·.tid)) k with
    | .error e => .error e
    | .ok tm => .ok (tm, news)

/-! ## remove_triggers -/

def insertDesc (x : Nat) : List Nat → List Nat
  | [] => [x]
  | y :: ys => if y ≤ x then x :: y :: ys else y :: insertDesc x ys

/-- `ids.sort(reverse=True)` -/
def sortDesc : List Nat → List Nat
  | [] => []
  | x :: xs => insertDesc x (sortDesc xs)

/-- inner loop of `compute_updated_display_order` for one displayed id -/
def shiftId (index : Nat) : List Nat → Nat → Option Nat
  | [], sub => some (index - sub)
  | r :: rs, sub => if r = index then none else shiftId index rs (if r < index then sub + 1 else sub)

/-- `compute_updated_display_order(removing_trigger_ids)` on the given display order -/
def computeUpdated (order removing : List Nat) : List Nat :=
  order.filterMap (fun index => shiftId index removing 0)

/-- `for trigger_id in ids: del triggers[trigger_id]` -/
def delAll : List Trig → List Nat → Except Err (List Trig)
  | ts, [] => .ok ts
  | ts, i :: is => if i < ts.length then delAll (ts.eraseIdx i) is else .error .index

/-- `index_changes` of `remove_triggers`: only triggers whose position changed are entered -/
def changesMoved : Nat → List Trig → List (Nat × Nat)
  | _, [] => []
  | j, t :: ts => if j ≠ t.tid then (t.tid, j) :: changesMoved (j + 1) ts else changesMoved (j + 1) ts

/-- the proposed repair of F4: an activation effect that pointed at a removed trigger is reset to -1 -/
def clearRemoved (removed : List Nat) (e : Eff) : Eff :=
  if e.isAct then
    match e.target with
    | some k => if removed.contains k then { e with target := none } else e
    | none => e
  else e

/-- resolve all selections first (each one may resynchronise the display order) -/
def resolveAll (tm : TM) : List Sel → Except Err (TM × List Nat)
  | [] => .ok (tm, [])
  | s :: ss =>
    match resolve tm s with
    | .error e => .error e
    | .ok (_, none) => .error .index          -- `(0, None, None)`: `del triggers[0]` on the empty list raises
    | .ok (tm, some f) =>
      match resolveAll tm ss with
      | .error e => .error e
      | .ok (tm, l) => .ok (tm, f.idx :: l)

def remove (fixed : Bool) (tm : TM) (sels : List Sel) : Except Err TM :=
  match resolveAll tm sels with
  | .error e => .error e
  | .ok (tm, ids) =>
    let ids := sortDesc ids
    match readOrder tm with
    | .error e => .error e
    | .ok tm =>
      let newOrder := computeUpdated tm.order ids
      match delAll tm.trigs ids with
      | .error e => .error e
      | .ok rest =>
        let d := changesMoved 0 rest
        let ts := (renumFrom 0 rest).map (fun t =>
          if fixed then { t with effs := t.effs.map (fun e => remapEff d (clearRemoved ids e)) } else remapTrig d t)
        -- the list was mutated in place: the hash stays stale, the display order is assigned directly
        .ok { tm with trigs := ts, order := newOrder }

/-! ## the operation language (histories) -/

inductive Op
  | add
  | addEff (i : Nat) (e : Eff)                       -- `triggers[i].new_effect.…` (set-up of activation graphs)
  | setOrder (o : List Nat)                          -- `trigger_display_order = o` (set-up of display orders)
  | copy (s : Sel) (after : Bool)
  | copyTree (s : Sel)
  | copyPP (s : Sel) (fromP : Nat) (players : Option (List Nat)) (gaia : Bool)
  | copyTreePP (s : Sel) (fromP : Nat) (players : Option (List Nat)) (gaia : Bool) (g : Group)
  | importT (ts : List Trig) (index : Option Nat)
  | move (ids : List Nat) (k : Nat)
  | reorder (o : Option (List Nat))
  | remove (sels : List Sel)
  | get (s : Sel)
  deriving Repr

/-- what an operation returns: keyed lists of object identities -/
abbrev Ret := List (Nat × List Nat)

def addEff (tm : TM) (i : Nat) (e : Eff) : Except Err TM :=
  match tm.trigs[i]? with
  | none => .error .index
  | some t => .ok { tm with trigs := tm.trigs.set i { t with effs := t.effs ++ [e] } }

/-- which of the recorded defects are repaired in the modelled code (`Fix.asIs` = the pinned tree) -/
structure Fix where
  remove : Bool      -- F4: `remove_triggers` resets links to removed triggers
  tree : Bool        -- F16: the tree search lists every node once
  importExt : Bool   -- F5 (C09): `import_triggers` extends the list in place (display order not reset)
  deriving DecidableEq, Repr

def Fix.asIs : Fix := ⟨false, false, false⟩
def Fix.all : Fix := ⟨true, true, true⟩

def step (fx : Fix) (tm : TM) : Op → Except Err (TM × Ret)
  | .add => .ok (add tm, [(0, [tm.next])])
  | .addEff i e => (addEff tm i e).map (fun tm => (tm, []))
  | .setOrder o => .ok ({ tm with order := o }, [])
  | .copy s after => (copy tm s after).map (fun r => (r.1, [(0, [r.2.uid])]))
  | .copyTree s => (copyTree fx.tree tm s).map (fun r => (r.1, [(0, r.2)]))
  | .copyPP s fromP players gaia =>
    (copyPerPlayer tm s fromP players gaia).map (fun r => (r.1, r.2.map (fun pc => (pc.1, [pc.2.uid]))))
  | .copyTreePP s fromP players gaia g => copyTreePerPlayer fx.tree tm s fromP players gaia g
  | .importT ts index => (importTriggers fx.importExt tm ts index).map (fun r => (r.1, [(0, r.2)]))
  | .move ids k => (move tm ids k).map (fun tm => (tm, []))
  | .reorder o => (reorder tm o).map (fun tm => (tm, []))
  | .remove sels => (remove fx.remove tm sels).map (fun tm => (tm, []))
  | .get s =>
    match resolve tm s with
    | .error e => .error e
    | .ok (tm, none) => .ok (tm, [])
    | .ok (tm, some f) => .ok (tm, [(0, [f.trig.uid])])

/-- a history: stops at the first exception -/
def run (fx : Fix) : TM → List Op → Except Err TM
  | tm, [] => .ok tm
  | tm, op :: ops =>
    match step fx tm op with
    | .error e => .error e
    | .ok (tm, _) => run fx tm ops

/-- what the API shows of the display order (the getter) -/
def displayOrder (tm : TM) : Except Err (List Nat) := (readOrder tm).map (·.order)

/-! ## order arrays of one component list (`Trigger.effects`/`effect_order`, `conditions`/`condition_order`) -/

/-- `items`: identities of the components in list order; `order`: `_effect_order`; `hashed`: identities at the last hash -/
structure OA where
  items : List Nat
  order : List Nat
  hashed : List Nat
  next : Nat
  deriving DecidableEq, Repr

def OA.empty : OA := ⟨[], [], [], 0⟩

/-- the `effect_order` / `condition_order` getter -/
def OA.read (a : OA) : Except Err OA :=
  if a.hashed = a.items then .ok a
  else match updateOrderArray a.order a.items.length with
    | .ok o => .ok { a with order := o, hashed := a.items }
    | .error e => .error e

/-- `new_effect.…` / `new_condition.…`: append (the order array is not read) -/
def OA.append (a : OA) : OA := { a with items := a.items ++ [a.next], next := a.next + 1 }

/-- `remove_effect(effect_index=i)`: `del effects[i]` -/
def OA.removeAt (a : OA) (i : Nat) : Except Err OA :=
  if i < a.items.length then .ok { a with items := a.items.eraseIdx i } else .error .index

/-- `remove_effect(display_index=d)`: `effect_index = effect_order[d]` (getter), then `del` -/
def OA.removeDisplay (a : OA) (d : Nat) : Except Err OA :=
  match a.read with
  | .error e => .error e
  | .ok a =>
    match a.order[d]? with
    | none => .error .index
    | some i => a.removeAt i

/-- `remove_effect(effect=obj)` with the object at list position `p`: `effects.index(obj)`, then `del` -/
def OA.removeObj (a : OA) (p : Nat) : Except Err OA :=
  match a.items[p]? with
  | none => .error .value
  | some u => a.removeAt (a.items.idxOf u)

inductive OAOp
  | append
  | removeAt (i : Nat)
  | removeDisplay (d : Nat)
  | removeObj (p : Nat)
  | read
  | setOrder (o : List Nat)       -- `trigger.effect_order = o`
  deriving Repr

def OA.step (a : OA) : OAOp → Except Err OA
  | .append => .ok a.append
  | .removeAt i => a.removeAt i
  | .removeDisplay d => a.removeDisplay d
  | .removeObj p => a.removeObj p
  | .read => a.read
  | .setOrder o => .ok { a with order := o }

def OA.run : OA → List OAOp → Except Err OA
  | a, [] => .ok a
  | a, op :: ops =>
    match a.step op with
    | .error e => .error e
    | .ok a => OA.run a ops

end Aoe.Trig
