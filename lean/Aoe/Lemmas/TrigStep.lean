import Aoe.Lemmas.TrigTreePP
/-!
Helper lemmas for C06/C07, part 10: one step of a history (`step`) on an invariant state, histories.
-/
namespace Aoe.Trig
open List

theorem Except.map_ok {ε α β : Type} {x : Except ε α} {f : α → β} {y : β} (h : x.map f = .ok y) :
    ∃ a, x = .ok a ∧ f a = y := by
  cases x with
  | error e => simp [Except.map] at h
  | ok a => exact ⟨a, rfl, by simpa [Except.map] using h⟩

/-- `reorder_triggers()` without argument on any invariant state -/
theorem reorderCore_good {c : Bool} {tm tm' : TM} (hi : Inv tm) (h : reorderCore tm = .ok tm') :
    Good c tm tm' ∧ tm'.next = tm.next := by
  obtain ⟨tm1, h1, g1, ht1, hn1, hp1, _, _⟩ := readOrder_good (c := c) hi
  have hsame : reorderCore tm = reorderCore tm1 := by
    unfold reorderCore
    rw [h1, readOrder_idem hi h1]
  obtain ⟨tm2, h2, i2, s2, n2, _⟩ := reorderCore_spec (c := c) g1.inv (ht1 ▸ hp1)
  rw [hsame, h2] at h
  cases h
  exact ⟨g1.trans hi ⟨i2, s2⟩, n2.trans hn1⟩

/-- the structural operations with in-domain arguments (set-up operations `addEff` / `setOrder` are not structural;
ids handed to move / reorder / remove must not repeat; a reorder argument is a permutation of all ids) -/
def InDom (fx : Fix) (tm : TM) : Op → Prop
  | .add => True
  | .addEff _ _ => False
  | .setOrder _ => False
  | .copy _ _ => True
  | .copyTree _ => True
  | .copyPP _ _ _ _ => True
  | .copyTreePP s fromP players gaia g =>
    g = .none ∨ ∀ tm1 r known nt disp ids, copyTreePPCore fx.tree tm s fromP players gaia = .ok (tm1, r, known, nt, disp) →
      groupIds g fromP known nt = .ok ids → ids.Nodup
  | .importT _ _ => True
  | .move ids _ => ids.Nodup
  | .reorder none => True
  | .reorder (some o) => IsPerm o tm.trigs.length
  | .remove sels => ∀ tm1 ids, resolveAll tm sels = .ok (tm1, ids) → ids.Nodup
  | .get _ => True

/-- one operation on an invariant state: invariant again, links kept (`c = true`: links to removed triggers reset,
which needs the repaired `remove_triggers`) -/
theorem step_good {c : Bool} {fx : Fix} {tm tm' : TM} {op : Op} {r : Ret} (hi : Inv tm) (hd : InDom fx tm op)
    (hc : c = true → fx.remove = true) (h : step fx tm op = .ok (tm', r)) : Good c tm tm' := by
  cases op with
  | add =>
    simp only [step, Except.ok.injEq, Prod.mk.injEq] at h
    obtain ⟨rfl, _⟩ := h
    exact add_good hi
  | addEff i e => exact absurd hd (by simp [InDom])
  | setOrder o => exact absurd hd (by simp [InDom])
  | copy s after =>
    obtain ⟨a, ha, hf⟩ := Except.map_ok h
    obtain ⟨tm1, cp⟩ := a
    simp only [Prod.mk.injEq] at hf
    obtain ⟨rfl, _⟩ := hf
    exact (copy_good hi ha).1
  | copyTree s =>
    obtain ⟨a, ha, hf⟩ := Except.map_ok h
    obtain ⟨tm1, news⟩ := a
    simp only [Prod.mk.injEq] at hf
    obtain ⟨rfl, _⟩ := hf
    exact (copyTree_good hi ha).1
  | copyPP s fromP players gaia =>
    obtain ⟨a, ha, hf⟩ := Except.map_ok h
    obtain ⟨tm1, d⟩ := a
    simp only [Prod.mk.injEq] at hf
    obtain ⟨rfl, _⟩ := hf
    exact (copyPerPlayer_good hi ha).1
  | copyTreePP s fromP players gaia g =>
    simp only [step] at h
    exact (copyTreePerPlayer_good hi hd h).1
  | importT ts index =>
    obtain ⟨a, ha, hf⟩ := Except.map_ok h
    obtain ⟨tm1, news⟩ := a
    simp only [Prod.mk.injEq] at hf
    obtain ⟨rfl, _⟩ := hf
    exact (import_good hi ha).1
  | move ids k =>
    obtain ⟨a, ha, hf⟩ := Except.map_ok h
    simp only [Prod.mk.injEq] at hf
    obtain ⟨rfl, _⟩ := hf
    exact (move_sound hi hd ha).1
  | reorder o =>
    obtain ⟨a, ha, hf⟩ := Except.map_ok h
    simp only [Prod.mk.injEq] at hf
    obtain ⟨rfl, _⟩ := hf
    cases o with
    | none => exact (reorderCore_good hi ha).1
    | some o =>
      have hne : o ≠ [] := by
        intro e; subst e; simp [reorder] at ha
      obtain ⟨tm2, h2, i2, s2, _⟩ := reorder_some_spec (c := c) hi hd hne
      rw [h2] at ha; cases ha
      exact ⟨i2, s2⟩
  | remove sels =>
    obtain ⟨a, ha, hf⟩ := Except.map_ok h
    simp only [Prod.mk.injEq] at hf
    obtain ⟨rfl, _⟩ := hf
    obtain ⟨_, _, _, _, _, _, g, _⟩ := remove_spec (c := c) hi hc hd ha
    exact g
  | get s =>
    simp only [step] at h
    cases hr : resolve tm s with
    | error e => simp [hr] at h
    | ok v =>
      obtain ⟨tm1, f⟩ := v
      obtain ⟨g, _⟩ := resolve_sound (c := c) hi hr
      cases f with
      | none => simp [hr] at h; obtain ⟨rfl, _⟩ := h; exact g
      | some f => simp [hr] at h; obtain ⟨rfl, _⟩ := h; exact g

/-- a history of in-domain structural operations none of which raised -/
inductive Hist (fx : Fix) : TM → List Op → TM → Prop
  | nil (tm : TM) : Hist fx tm [] tm
  | cons {tm tm1 tm' : TM} {op : Op} {ops : List Op} {r : Ret} :
      InDom fx tm op → step fx tm op = .ok (tm1, r) → Hist fx tm1 ops tm' → Hist fx tm (op :: ops) tm'

theorem Hist.run_eq {fx : Fix} {tm tm' : TM} {ops : List Op} (h : Hist fx tm ops tm') : run fx tm ops = .ok tm' := by
  induction h with
  | nil tm => rfl
  | cons _ hs _ ih => simp [run, hs, ih]

theorem hist_good {c : Bool} {fx : Fix} (hc : c = true → fx.remove = true) {tm tm' : TM} {ops : List Op}
    (hi : Inv tm) (h : Hist fx tm ops tm') : Good c tm tm' := by
  induction h with
  | nil tm => exact Good.refl hi
  | cons hd hs _ ih =>
    have g1 := step_good (c := c) hi hd hc hs
    exact g1.trans hi (ih g1.inv)

end Aoe.Trig

namespace Aoe.Trig
open List

/-! ### an executable check of `InDom` / `Hist` (used for the non-vacuity examples) -/

def InDomB (fx : Fix) (tm : TM) : Op → Bool
  | .add => true
  | .addEff _ _ => false
  | .setOrder _ => false
  | .copy _ _ => true
  | .copyTree _ => true
  | .copyPP _ _ _ _ => true
  | .copyTreePP s fromP players gaia g =>
    g == .none ||
      match copyTreePPCore fx.tree tm s fromP players gaia with
      | .ok (_, _, known, nt, _) =>
        match groupIds g fromP known nt with
        | .ok ids => decide ids.Nodup
        | .error _ => true
      | .error _ => true
  | .importT _ _ => true
  | .move ids _ => decide ids.Nodup
  | .reorder none => true
  | .reorder (some o) => o.isPerm (range tm.trigs.length)
  | .remove sels =>
    match resolveAll tm sels with
    | .ok (_, ids) => decide ids.Nodup
    | .error _ => true
  | .get _ => true

theorem inDom_of_B {fx : Fix} {tm : TM} {op : Op} (h : InDomB fx tm op = true) : InDom fx tm op := by
  cases op with
  | add => trivial
  | addEff i e => simp [InDomB] at h
  | setOrder o => simp [InDomB] at h
  | copy s a => trivial
  | copyTree s => trivial
  | copyPP s f p g => trivial
  | copyTreePP s fromP players gaia g =>
    simp only [InDomB, Bool.or_eq_true, beq_iff_eq] at h
    rcases h with h | h
    · exact Or.inl h
    · refine Or.inr (fun tm1 r known nt disp ids hc hg => ?_)
      simp only [hc, hg, decide_eq_true_eq] at h
      exact h
  | importT ts i => trivial
  | move ids k => show ids.Nodup; simpa [InDomB] using h
  | reorder o =>
    cases o with
    | none => trivial
    | some o =>
      simp only [InDomB] at h
      exact isPerm_iff_perm.2 (List.isPerm_iff.1 h)
  | remove sels =>
    intro tm1 ids hr
    simp only [InDomB, hr, decide_eq_true_eq] at h
    exact h
  | get s => trivial

/-- run a history, checking the domain condition of every operation -/
def histB (fx : Fix) : TM → List Op → Option TM
  | tm, [] => some tm
  | tm, op :: ops =>
    if InDomB fx tm op then
      match step fx tm op with
      | .ok (tm1, _) => histB fx tm1 ops
      | .error _ => none
    else none

theorem hist_of_histB {fx : Fix} : ∀ {ops : List Op} {tm tm' : TM}, histB fx tm ops = some tm' → Hist fx tm ops tm'
  | [], tm, tm', h => by simp only [histB, Option.some.injEq] at h; subst h; exact .nil _
  | op :: ops, tm, tm', h => by
    simp only [histB] at h
    by_cases hd : InDomB fx tm op = true
    · simp only [hd, if_true] at h
      cases hs : step fx tm op with
      | error e => simp [hs] at h
      | ok v =>
        obtain ⟨tm1, r⟩ := v
        simp only [hs] at h
        exact .cons (inDom_of_B hd) hs (hist_of_histB h)
    · simp [hd] at h

end Aoe.Trig
