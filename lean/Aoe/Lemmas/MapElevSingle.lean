import Aoe.Lemmas.MapElevRaise
/-!
# Single-tile selections one level away from the map (repaired code, C20)
-/
namespace Aoe.Map

/-- lowering one tile by one level on a map within `[e, e + 1]` changes exactly that tile -/
theorem setElevation_single_lower_one (fuel : Nat) (m m' : Map) (e : Int) (x y : Nat) (x2? y2? : Option Int)
    (hwf : WF m) (hx : x < m.size) (hy : y < m.size)
    (hx2 : x2?.getD (x : Int) = (x : Int)) (hy2 : y2?.getD (y : Int) = (y : Int))
    (hb : Bnd e (e + 1) m)
    (h : setElevation true fuel m e x y x2? y2? = .ok m') : m' = setElevAt m (x + y * m.size) e := by
  unfold setElevation at h
  simp only [hx2, hy2, and_self, if_true, getPos_xy false m hwf x y hx hy] at h
  obtain ⟨k, hk, h⟩ := bind_ok _ _ _ h
  injection hk with hk
  subst hk
  have hlt : x + y * m.size < m.tiles.length := by rw [hwf.1]; exact pos_lt_sq x y m.size hx hy
  have b1 : Bnd e (e + 1) (setElevAt m (x + y * m.size) e) := hb.setElevAt _ e (by omega) (by omega)
  obtain ⟨t, ht, h⟩ := bind_ok _ _ _ h
  obtain ⟨xy, hxy, h⟩ := bind_ok _ _ _ h
  refine elevRec_noop e (e + 1) (by omega) [xy] fuel _ _ [] m' b1 ?_ h
  intro st hst
  rw [getElem?_setElevAt, if_pos rfl, List.getElem?_eq_getElem hlt] at hst
  simp at hst; subst hst; rfl

/-- raising one tile by one level on a map that is everywhere at `e - 1` changes exactly that tile -/
theorem setElevation_single_raise_one (fuel : Nat) (m m' : Map) (e : Int) (x y : Nat) (x2? y2? : Option Int)
    (hwf : WF m) (hx : x < m.size) (hy : y < m.size)
    (hx2 : x2?.getD (x : Int) = (x : Int)) (hy2 : y2?.getD (y : Int) = (y : Int))
    (hm : ∀ (k : Nat) (t : Tile), m.tiles[k]? = some t → t.elevation = e - 1)
    (h : setElevation true fuel m e x y x2? y2? = .ok m') : m' = setElevAt m (x + y * m.size) e := by
  have hb : Bnd (e - 1) e m := fun k t ht => by rw [hm k t ht]; omega
  unfold setElevation at h
  simp only [hx2, hy2, and_self, if_true, getPos_xy false m hwf x y hx hy] at h
  obtain ⟨k, hk, h⟩ := bind_ok _ _ _ h
  injection hk with hk
  subst hk
  have hlt : x + y * m.size < m.tiles.length := by rw [hwf.1]; exact pos_lt_sq x y m.size hx hy
  generalize hm1 : setElevAt m (x + y * m.size) e = m1 at h
  have ff : Frame (fun _ => False) m m1 := hm1 ▸ Frame.setElevAt _ m _ e (fun hf => hf)
  have hwf1 : WF m1 := ff.wf hwf
  have hsz : m1.size = m.size := ff.size
  have b1 : Bnd (e - 1) e m1 := hm1 ▸ hb.setElevAt _ e (by omega) (by omega)
  obtain ⟨t, ht, h⟩ := bind_ok _ _ _ h
  obtain ⟨xy, hxy, h⟩ := bind_ok _ _ _ h
  refine elevRec_noop_hi (e - 1) e (by omega) (fun k => k = x + y * m.size) [xy] fuel m1 _ [] m' b1 ?_ ?_ ?_ ?_ h
  · intro st hst
    rw [← hm1, getElem?_setElevAt, if_pos rfl, List.getElem?_eq_getElem hlt] at hst
    simp at hst; subst hst; rfl
  · refine protect_of_xys m1 hwf1 [xy] _ ?_
    intro k hk; subst hk
    exact ⟨t, listGet_ok _ _ _ ht, xy, by simp, hxy⟩
  · intro k t' ht' hte _
    by_cases hk : x + y * m.size = k
    · exact hk.symm
    · rw [← hm1, getElem?_setElevAt, if_neg hk] at ht'
      have := hm k t' ht'
      omega
  · intro st xy' hst' hxy' o ko kb hko hkb hPkb
    subst hPkb
    rw [tileXY_wf m1 hwf1 _ st hst'] at hxy'
    injection hxy' with hxy'
    have e1 := xy_of_xyToI _ _ _ _ hko
    have e2 := xy_of_xyToI _ _ _ _ hkb
    subst hxy'
    simp only [Prod.mk.injEq] at e1 e2
    have h1 : o.1 = 0 := by omega
    have h2 : o.2 = 0 := by omega
    rw [h1, h2] at hko
    simp only [Int.add_zero] at hko
    have e3 := xyToI_inv _ _ _ _ hko
    have e4 := xyToI_inv _ _ _ _ hkb
    rw [h1, h2] at hkb
    simp only [Int.zero_mul, Int.add_zero] at hkb
    rw [hko] at hkb
    injection hkb

end Aoe.Map
