import Aoe.Model.Area
/-!
# Specification vocabulary for C14 (what the theorems of `Aoe.Props.C14` are stated in)

Nothing here is executed by the driver. The pattern is defined **declaratively** – blocks, lines and corner
rectangles laid out from the first corner of the visible (clamped) selection – not by the modulus formulas of
the code; `Aoe.Lemmas.Area` proves the code's predicates equivalent to it.
-/
namespace Aoe.Area

/-- results of the model are comparable (for the `decide`d examples and witnesses) -/
instance {α : Type} [DecidableEq α] : DecidableEq (Except Err α) := fun a b =>
  match a, b with
  | .ok x, .ok y => if h : x = y then isTrue (by rw [h]) else isFalse (fun e => by cases e; exact h rfl)
  | .error x, .error y => if h : x = y then isTrue (by rw [h]) else isFalse (fun e => by cases e; exact h rfl)
  | .ok _, .error _ => isFalse (fun e => by cases e)
  | .error _, .ok _ => isFalse (fun e => by cases e)

/-- the tile lies in the selection rectangle as given (raw corners, possibly outside the map) -/
def InRect (a : Area) (t : Tile) : Prop := a.rx1 ≤ t.x ∧ t.x ≤ a.rx2 ∧ a.ry1 ≤ t.y ∧ t.y ≤ a.ry2

/-- the tile is a tile of the `size × size` map -/
def InMap (a : Area) (t : Tile) : Prop := 0 ≤ t.x ∧ t.x < a.size ∧ 0 ≤ t.y ∧ t.y < a.size

/-- horizontal / vertical period of the grid -/
def Area.px (a : Area) : Int := a.blockX + a.gapX
def Area.py (a : Area) : Int := a.blockY + a.gapY

/-- period of the lines pattern in its stacking direction (lines along `x` are stacked in `y` and use the `_y` sizes) -/
def Area.lp (a : Area) : Int :=
  match a.axis with
  | .x => a.lineY + a.gapY
  | .y => a.lineX + a.gapX
  | .other => 0

/-- configurations on which no modelled Python operation raises: positive periods, a real axis -/
def Valid (a : Area) : Prop :=
  match a.state with
  | .grid => 0 < a.px ∧ 0 < a.py
  | .lines => 0 < a.lp
  | _ => True

instance (a : Area) : Decidable (Valid a) := by
  unfold Valid; cases a.state <;> infer_instance

/-- block `(i, j)` of the grid: `blockX × blockY` tiles, its first tile `i` horizontal and `j` vertical periods
away from the first corner -/
def InBlock (a : Area) (i j : Nat) (t : Tile) : Prop :=
  a.x1 + i * a.px ≤ t.x ∧ t.x < a.x1 + i * a.px + a.blockX ∧
  a.y1 + j * a.py ≤ t.y ∧ t.y < a.y1 + j * a.py + a.blockY

/-- line `k` of the lines pattern -/
def InLine (a : Area) (k : Nat) (t : Tile) : Prop :=
  match a.axis with
  | .x => a.y1 + k * a.lp ≤ t.y ∧ t.y < a.y1 + k * a.lp + a.lineY
  | .y => a.x1 + k * a.lp ≤ t.x ∧ t.x < a.x1 + k * a.lp + a.lineX
  | .other => False

/-- the four corner rectangles, numbered as `_get_chunk_id` does: 0 at `(x1, y1)`, 1 at `(x2, y1)`, 2 at `(x2, y2)`,
3 at `(x1, y2)` -/
def InCorner (a : Area) (c : Int) (t : Tile) : Prop :=
  (c = 0 ∧ a.x1 ≤ t.x ∧ t.x < a.x1 + a.cornerX ∧ a.y1 ≤ t.y ∧ t.y < a.y1 + a.cornerY) ∨
  (c = 1 ∧ a.x2 - a.cornerX < t.x ∧ t.x ≤ a.x2 ∧ a.y1 ≤ t.y ∧ t.y < a.y1 + a.cornerY) ∨
  (c = 2 ∧ a.x2 - a.cornerX < t.x ∧ t.x ≤ a.x2 ∧ a.y2 - a.cornerY < t.y ∧ t.y ≤ a.y2) ∨
  (c = 3 ∧ a.x1 ≤ t.x ∧ t.x < a.x1 + a.cornerX ∧ a.y2 - a.cornerY < t.y ∧ t.y ≤ a.y2)

instance (a : Area) (t : Tile) : Decidable (InRect a t) := by unfold InRect; infer_instance
instance (a : Area) (t : Tile) : Decidable (InMap a t) := by unfold InMap; infer_instance
instance (a : Area) (i j : Nat) (t : Tile) : Decidable (InBlock a i j t) := by unfold InBlock; infer_instance
instance (a : Area) (k : Nat) (t : Tile) : Decidable (InLine a k t) := by
  unfold InLine; cases a.axis <;> infer_instance
instance (a : Area) (c : Int) (t : Tile) : Decidable (InCorner a c t) := by unfold InCorner; infer_instance

/-- the corner rectangles do not overlap: left/right ones are apart and upper/lower ones are apart -/
def CornersDisjoint (a : Area) : Prop := 2 * a.cornerX ≤ a.width ∧ 2 * a.cornerY ≤ a.height

instance (a : Area) : Decidable (CornersDisjoint a) := by
  unfold CornersDisjoint; infer_instance

/-- the pattern of the current state, before inversion, for a tile of the visible rectangle -/
def Pattern (a : Area) (t : Tile) : Prop :=
  match a.state with
  | .full => True
  | .edge => t.x - a.x1 < a.lineX ∨ a.x2 - t.x < a.lineX ∨ t.y - a.y1 < a.lineY ∨ a.y2 - t.y < a.lineY
  | .grid => ∃ i j : Nat, InBlock a i j t
  | .lines => ∃ k : Nat, InLine a k t
  | .corners => ∃ c : Int, InCorner a c t

/-- what `to_coords` has to return: in the rectangle, on the map, pattern (or its complement when inverted) -/
def Selected (a : Area) (t : Tile) : Prop :=
  InRect a t ∧ InMap a t ∧ (Pattern a t ↔ a.inverted = false)

/-- row-major order: `y` first, then `x` -/
def RowLt (t u : Tile) : Prop := t.y < u.y ∨ (t.y = u.y ∧ t.x < u.x)

/-- block column / row of a tile of the grid, line index of a tile of the lines pattern -/
def blockCol (a : Area) (t : Tile) : Int := (t.x - a.x1) / a.px
def blockRow (a : Area) (t : Tile) : Int := (t.y - a.y1) / a.py
def lineIdx (a : Area) (t : Tile) : Int :=
  match a.axis with
  | .x => (t.y - a.y1) / a.lp
  | .y => (t.x - a.x1) / a.lp
  | .other => 0

/-- number of block columns that fit the visible rectangle, `⌈width / px⌉` -/
def blockCols (a : Area) : Int := -((-a.width) / a.px)

/-- the tiles-per-row value `_get_chunk_id` uses (pinned: from the height; repaired: from the width) -/
def perRow (pr : PerRow) (a : Area) : Int := -((-(pr.dim a)) / a.px)

end Aoe.Area
