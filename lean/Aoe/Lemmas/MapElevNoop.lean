import Aoe.Lemmas.MapElevRange
/-!
# Lowering by one level changes exactly the requested area (C20)

When all elevations of the map lie in `[lo, lo + 1]` and the source tile is at `lo`, one round of
`_elevation_tile_recursion` changes nothing: no neighbour is lower than the source (no fill) and none differs by more
than one level (no recursion).
-/
namespace Aoe.Map

theorem elevStep_noop (lo hi : Int) (hle : hi ≤ lo + 1) (xys vis : List (Int × Int))
    (recur : Map → Nat → Except Err Map) (src : Nat) (x y : Int) (m : Map) (o : Int × Int) (m' : Map)
    (hb : Bnd lo hi m) (hsrc : ∀ st, m.tiles[src]? = some st → st.elevation = lo)
    (h : elevStep recur src x y xys vis m o = .ok m') : m' = m := by
  unfold elevStep at h
  simp only [] at h
  split at h
  · simp only [bind, Except.bind] at h
    cases hp : getPosSafe m (x + o.1) (y + o.2) with
    | error e => simp [hp] at h
    | ok r =>
      simp only [hp] at h
      cases r with
      | none => simp [pure, Except.pure] at h; exact h.symm
      | some ko =>
        simp only [] at h
        cases hbh : getPosSafe m (x + o.1 * 2) (y + o.2 * 2) with
        | error e => simp [hbh] at h
        | ok behind =>
          simp only [hbh] at h
          cases h1 : listGet m.tiles src with
          | error e => simp [h1] at h
          | ok st =>
            simp only [h1] at h
            cases h2 : listGet m.tiles ko with
            | error e => simp [h2] at h
            | ok ot =>
              simp only [h2] at h
              have hs := hsrc st (listGet_ok _ _ _ h1)
              have bo := hb ko ot (listGet_ok _ _ _ h2)
              split at h
              · cases h
              · next fill hfill =>
                have hff : fill = false := by
                  cases behind with
                  | none => simp [pure, Except.pure] at hfill; exact hfill
                  | some kb =>
                    simp only [] at hfill
                    cases h3 : listGet m.tiles kb with
                    | error e => simp [h3] at hfill
                    | ok bt =>
                      simp only [h3, pure, Except.pure] at hfill
                      injection hfill with hfill
                      rw [← hfill]
                      have : ¬ (ot.elevation < st.elevation) := by omega
                      simp [this]
                subst hff
                simp only [Bool.false_eq_true, if_false] at h
                split at h
                · exfalso; omega
                · simp only [pure, Except.pure] at h; injection h with h; exact h.symm
  · simp only [pure, Except.pure] at h; injection h with h; exact h.symm

theorem foldlM_noop {α : Type} (step : Map → α → Except Err Map) (m : Map) :
    ∀ (l : List α) (m' : Map), (∀ a ∈ l, ∀ m2, step m a = .ok m2 → m2 = m) → l.foldlM step m = .ok m' → m' = m
  | [], m', _, h => by simp only [List.foldlM_nil, pure, Except.pure] at h; injection h with h; exact h.symm
  | a :: l, m', hs, h => by
      simp only [List.foldlM_cons, bind, Except.bind] at h
      cases h1 : step m a with
      | error e => simp [h1] at h
      | ok m1 =>
        simp only [h1] at h
        have := hs a (by simp) m1 h1
        subst this
        exact foldlM_noop step _ l m' (fun b hb => hs b (by simp [hb])) h

theorem elevRec_noop (lo hi : Int) (hle : hi ≤ lo + 1) (xys : List (Int × Int)) (fuel : Nat) (m : Map) (src : Nat)
    (vis : List (Int × Int)) (m' : Map) (hb : Bnd lo hi m) (hsrc : ∀ st, m.tiles[src]? = some st → st.elevation = lo)
    (h : elevRec fuel m src xys vis = .ok m') : m' = m := by
  cases fuel with
  | zero => simp [elevRec] at h
  | succ fuel =>
    simp only [elevRec, bind, Except.bind] at h
    cases h1 : listGet m.tiles src with
    | error e => simp [h1] at h
    | ok st =>
      simp only [h1] at h
      cases h2 : tileXY m st with
      | error e => simp [h2] at h
      | ok xy =>
        simp only [h2] at h
        exact foldlM_noop _ m offsets m'
          (fun o _ m2 hst => elevStep_noop lo hi hle xys (xy :: vis) _ src xy.1 xy.2 m o m2 hb hsrc hst) h

/-- the recursion started from sources that are all at the lowest level of a map whose elevations span at most one
level changes nothing -/
theorem edge_fold_noop (lo hi : Int) (hle : hi ≤ lo + 1) (fuel : Nat) (xys : List (Int × Int)) (m1 m' : Map)
    (hb : Bnd lo hi m1) (edge : List Nat) (hsrc : ∀ k ∈ edge, ∀ st, m1.tiles[k]? = some st → st.elevation = lo)
    (h : edge.foldlM (fun m k => elevRec fuel m k xys []) m1 = .ok m') : m' = m1 :=
  foldlM_noop _ m1 edge m' (fun k hk m2 hst => elevRec_noop lo hi hle xys fuel m1 k [] m2 hb (hsrc k hk) hst) h

end Aoe.Map
