import Aoe.Lemmas.MapElevNoop
/-!
# `set_elevation` one level below a map that spans at most that level changes exactly the rectangle (C20)
-/
namespace Aoe.Map

theorem pyFirst_mem {α : Type} (l : List α) (a : α) (h : pyFirst l = .ok a) : a ∈ l := by
  unfold pyFirst at h
  split at h
  · next b hb => injection h with h; subst h; exact List.mem_of_head? hb
  · cases h

theorem pyLast_mem {α : Type} (l : List α) (a : α) (h : pyLast l = .ok a) : a ∈ l := by
  unfold pyLast at h
  split at h
  · next b hb => injection h with h; subst h; exact List.mem_of_getLast? hb
  · cases h

theorem mapM_ok_mem' {α β : Type} (f : α → Except Err β) :
    ∀ (l : List α) (bs : List β), l.mapM f = .ok bs → ∀ b ∈ bs, ∃ a ∈ l, f a = .ok b
  | [], bs, h, b, hb => by simp [pure, Except.pure] at h; subst h; simp at hb
  | a :: l, bs, h, b, hb => by
      simp only [List.mapM_cons, bind, Except.bind, pure, Except.pure] at h
      cases h1 : f a with
      | error e => simp [h1] at h
      | ok b1 =>
        simp only [h1] at h
        cases h2 : l.mapM f with
        | error e => simp [h2] at h
        | ok bs1 =>
          simp only [h2] at h
          injection h with h; subst h
          rcases List.mem_cons.mp hb with rfl | hb
          · exact ⟨a, by simp, h1⟩
          · obtain ⟨a', ha', hf⟩ := mapM_ok_mem' f l bs1 h2 b hb
            exact ⟨a', by simp [ha'], hf⟩

/-- **lowering by one level**: on a map whose elevations all lie in `[e, e + 1]`, `set_elevation(e, rectangle)`
(more than one tile) returns the map with exactly the rectangle's tiles set to `e` - nothing around it moves -/
theorem setElevation_lower_one (fs : Bool) (fuel : Nat) (m m' : Map) (e : Int) (x1 y1 x2 y2 : Nat) (hwf : WF m)
    (hx : x1 ≤ x2) (hx2 : x2 < m.size) (hy : y1 ≤ y2) (hy2 : y2 < m.size) (hns : ¬ (x1 = x2 ∧ y1 = y2))
    (hb : Bnd e (e + 1) m)
    (h : setElevation fs fuel m e x1 y1 (some (x2 : Int)) (some (y2 : Int)) = .ok m') :
    m' = (rectRows m.size x1 y1 x2 y2).flatten.foldl (fun m k => setElevAt m k e) m := by
  have hc : ¬ ((x1 : Int) = (x2 : Int) ∧ (y1 : Int) = (y2 : Int)) := by omega
  unfold setElevation at h
  simp only [Option.getD_some, if_neg hc, squareRowsPos_spec m hwf x1 y1 x2 y2 hx hx2 hy hy2] at h
  obtain ⟨rows, hrows, h⟩ := bind_ok _ _ _ h
  injection hrows with hps
  subst hps
  generalize hm1 : (rectRows m.size x1 y1 x2 y2).flatten.foldl (fun m k => setElevAt m k e) m = m1 at h
  have b1 : Bnd e (e + 1) m1 := hm1 ▸ fill_bnd e (by omega) (by omega) _ m hb
  obtain ⟨xys, _, h⟩ := bind_ok _ _ _ h
  obtain ⟨first, hfirst, h⟩ := bind_ok _ _ _ h
  obtain ⟨last, hlast, h⟩ := bind_ok _ _ _ h
  obtain ⟨mids, hmids, h⟩ := bind_ok _ _ _ h
  have hrect : ∀ k ∈ (rectRows m.size x1 y1 x2 y2).flatten, ∀ st, m1.tiles[k]? = some st → st.elevation = e := by
    intro k hk st hst
    rw [← hm1, fill_spec, if_pos hk] at hst
    cases hmk : m.tiles[k]? with
    | none => simp [hmk] at hst
    | some t0 => simp [hmk] at hst; subst hst; rfl
  refine edge_fold_noop e (e + 1) (by omega) fuel xys m1 m' b1 _ ?_ h
  intro k hk
  apply hrect k
  simp only [List.mem_append, List.mem_flatten] at hk ⊢
  rcases hk with (hk | hk) | ⟨pr, hpr, hk⟩
  · exact ⟨first, pyFirst_mem _ _ hfirst, hk⟩
  · exact ⟨last, pyLast_mem _ _ hlast, hk⟩
  · obtain ⟨r, hr, hf⟩ := mapM_ok_mem' _ _ _ hmids pr hpr
    have hr' : r ∈ rectRows m.size x1 y1 x2 y2 := List.mem_of_mem_drop (List.dropLast_subset _ hr)
    obtain ⟨a, ha, hf⟩ := bind_ok _ _ _ hf
    obtain ⟨b, hbb, hf⟩ := bind_ok _ _ _ hf
    simp only [pure, Except.pure] at hf
    injection hf with hf; subst hf
    simp only [List.mem_cons, List.mem_nil_iff, or_false] at hk
    rcases hk with rfl | rfl
    · exact ⟨r, hr', pyFirst_mem _ _ ha⟩
    · exact ⟨r, hr', pyLast_mem _ _ hbb⟩

/-- **lowering by one level**: on a map whose elevations outside the rectangle all lie in `[e, e + 1]` (inside: anything), `set_elevation(e, rectangle)`
(more than one tile) returns the map with exactly the rectangle's tiles set to `e` - nothing around it moves -/
theorem setElevation_lower_one_gen (fs : Bool) (fuel : Nat) (m m' : Map) (e : Int) (x1 y1 x2 y2 : Nat) (hwf : WF m)
    (hx : x1 ≤ x2) (hx2 : x2 < m.size) (hy : y1 ≤ y2) (hy2 : y2 < m.size) (hns : ¬ (x1 = x2 ∧ y1 = y2))
    (hm : ∀ (k : Nat) (t : Tile), m.tiles[k]? = some t → k ∉ (rectRows m.size x1 y1 x2 y2).flatten →
      e ≤ t.elevation ∧ t.elevation ≤ e + 1)
    (h : setElevation fs fuel m e x1 y1 (some (x2 : Int)) (some (y2 : Int)) = .ok m') :
    m' = (rectRows m.size x1 y1 x2 y2).flatten.foldl (fun m k => setElevAt m k e) m := by
  have hc : ¬ ((x1 : Int) = (x2 : Int) ∧ (y1 : Int) = (y2 : Int)) := by omega
  unfold setElevation at h
  simp only [Option.getD_some, if_neg hc, squareRowsPos_spec m hwf x1 y1 x2 y2 hx hx2 hy hy2] at h
  obtain ⟨rows, hrows, h⟩ := bind_ok _ _ _ h
  injection hrows with hps
  subst hps
  generalize hm1 : (rectRows m.size x1 y1 x2 y2).flatten.foldl (fun m k => setElevAt m k e) m = m1 at h
  have b1 : Bnd e (e + 1) m1 := by
    intro k t ht
    rw [← hm1, fill_spec] at ht
    split at ht
    · cases hmk : m.tiles[k]? with
      | none => simp [hmk] at ht
      | some t0 => simp [hmk] at ht; subst ht; simp [Tile.withElev]; omega
    · next hk => exact hm k t ht hk
  obtain ⟨xys, _, h⟩ := bind_ok _ _ _ h
  obtain ⟨first, hfirst, h⟩ := bind_ok _ _ _ h
  obtain ⟨last, hlast, h⟩ := bind_ok _ _ _ h
  obtain ⟨mids, hmids, h⟩ := bind_ok _ _ _ h
  have hrect : ∀ k ∈ (rectRows m.size x1 y1 x2 y2).flatten, ∀ st, m1.tiles[k]? = some st → st.elevation = e := by
    intro k hk st hst
    rw [← hm1, fill_spec, if_pos hk] at hst
    cases hmk : m.tiles[k]? with
    | none => simp [hmk] at hst
    | some t0 => simp [hmk] at hst; subst hst; rfl
  refine edge_fold_noop e (e + 1) (by omega) fuel xys m1 m' b1 _ ?_ h
  intro k hk
  apply hrect k
  simp only [List.mem_append, List.mem_flatten] at hk ⊢
  rcases hk with (hk | hk) | ⟨pr, hpr, hk⟩
  · exact ⟨first, pyFirst_mem _ _ hfirst, hk⟩
  · exact ⟨last, pyLast_mem _ _ hlast, hk⟩
  · obtain ⟨r, hr, hf⟩ := mapM_ok_mem' _ _ _ hmids pr hpr
    have hr' : r ∈ rectRows m.size x1 y1 x2 y2 := List.mem_of_mem_drop (List.dropLast_subset _ hr)
    obtain ⟨a, ha, hf⟩ := bind_ok _ _ _ hf
    obtain ⟨b, hbb, hf⟩ := bind_ok _ _ _ hf
    simp only [pure, Except.pure] at hf
    injection hf with hf; subst hf
    simp only [List.mem_cons, List.mem_nil_iff, or_false] at hk
    rcases hk with rfl | rfl
    · exact ⟨r, hr', pyFirst_mem _ _ ha⟩
    · exact ⟨r, hr', pyLast_mem _ _ hbb⟩

end Aoe.Map
