import Aoe.Lemmas.TrigRemove
/-!
Helper lemmas for C06/C07, part 7: the complete `remove_triggers` step and `import_triggers`.
-/
namespace Aoe.Trig
open List

theorem Retarget.weaken {n : Nat} {picked : List Trig} {g : Eff → Eff} (h : Retarget n picked g true) (c : Bool) :
    Retarget n picked g c :=
  { kind := h.kind, frame := h.frame, unset := h.unset, hit := h.hit, miss := fun _ => h.miss rfl }

theorem clearRemoved_kind (ids : List Nat) (e : Eff) : (clearRemoved ids e).kind = e.kind := by
  unfold clearRemoved
  split
  · split
    · split <;> rfl
    · rfl
  · rfl

/-- the repaired retargeting of `remove_triggers`: links to removed triggers are reset -/
theorem retarget_fixed {n : Nat} {picked : List Trig} {ids : List Nat} (hn : (picked.map (·.tid)).Nodup)
    (hkeep : ∀ k ∈ picked.map (·.tid), k ∉ ids) (hrem : ∀ k, k < n → k ∉ picked.map (·.tid) → k ∈ ids) :
    Retarget n picked (fun e => remapEff (changesMoved 0 picked) (clearRemoved ids e)) true where
  kind := fun e => by rw [remapEff_kind, clearRemoved_kind]
  frame := fun e h => by
    have : clearRemoved ids e = e := by simp [clearRemoved, h]
    simp only [this]; exact (retarget_changesMoved (n := n) hn).frame e h
  unset := fun e h => by
    have : clearRemoved ids e = e := by
      unfold clearRemoved; split
      · simp [h]
      · rfl
    simp only [this]; exact (retarget_changesMoved (n := n) hn).unset e h
  hit := fun e k ha ht hk => by
    have : clearRemoved ids e = e := by
      have := hkeep k hk
      simp [clearRemoved, ha, ht, this]
    simp only [this]; exact (retarget_changesMoved (n := n) hn).hit e k ha ht hk
  miss := fun _ e k ha ht hk hlt => by
    have hin := hrem k hlt hk
    have : clearRemoved ids e = { e with target := none } := by
      simp [clearRemoved, ha, ht, hin]
    simp only [this]
    exact (retarget_changesMoved (n := n) hn).unset _ rfl

theorem resolveAll_sound {c : Bool} : ∀ {sels : List Sel} {tm tm1 : TM} {ids : List Nat}, Inv tm →
    resolveAll tm sels = .ok (tm1, ids) →
    Good c tm tm1 ∧ Synced tm tm1 ∧ tm1.trigs = tm.trigs ∧ tm1.next = tm.next ∧ ∀ i ∈ ids, i < tm.trigs.length
  | [], tm, tm1, ids, hi, h => by
    simp only [resolveAll, Except.ok.injEq, Prod.mk.injEq] at h
    obtain ⟨rfl, rfl⟩ := h
    exact ⟨Good.refl hi, Or.inl rfl, rfl, rfl, by simp⟩
  | s :: ss, tm, tm1, ids, hi, h => by
    simp only [resolveAll] at h
    cases hr : resolve tm s with
    | error e => simp [hr] at h
    | ok v =>
      obtain ⟨tm2, r⟩ := v
      cases r with
      | none => simp [hr] at h
      | some f =>
        simp only [hr] at h
        obtain ⟨g1, hs1, ht1, hn1, hf⟩ := resolve_sound (c := c) hi hr
        obtain ⟨_, hfi, _⟩ := hf f rfl
        cases hr2 : resolveAll tm2 ss with
        | error e => simp [hr2] at h
        | ok v2 =>
          obtain ⟨tm3, l⟩ := v2
          simp only [hr2, Except.ok.injEq, Prod.mk.injEq] at h
          obtain ⟨rfl, rfl⟩ := h
          obtain ⟨g2, hs2, ht2, hn2, hl⟩ := resolveAll_sound (c := c) g1.inv hr2
          refine ⟨g1.trans hi g2, hs1.trans hi hs2, ht2.trans ht1, hn2.trans hn1, fun i hi' => ?_⟩
          rcases mem_cons.1 hi' with rfl | hi'
          · exact (List.getElem?_eq_some_iff.1 hfi).1
          · exact ht1 ▸ hl i hi'

theorem map_tid_eq_range {tm : TM} (hi : Inv tm) : tm.trigs.map (·.tid) = range tm.trigs.length := by
  have := take_map_tid hi.ids (Nat.le_refl tm.trigs.length)
  rwa [take_length] at this

/-- the survivors of a removal form a selection -/
theorem picked_filter {tm : TM} (hi : Inv tm) (ids : List Nat) :
    Picked tm (tm.trigs.filter (fun t => !ids.contains t.tid)) := by
  refine ⟨fun p hp => ?_, ?_⟩
  · obtain ⟨j, hj, rfl⟩ := getElem_of_mem (mem_filter.1 hp).1
    rw [hi.ids j _ (getElem?_eq_getElem hj)]; exact getElem?_eq_getElem hj
  · have : (tm.trigs.map (·.tid)).Nodup := by rw [map_tid_eq_range hi]; exact nodup_range
    exact this.sublist (filter_sublist.map _)

theorem filter_contains_congr {α : Type} {l l' : List Nat} (h : ∀ a, a ∈ l ↔ a ∈ l') (f : α → Nat) (xs : List α) :
    xs.filter (fun t => !l.contains (f t)) = xs.filter (fun t => !l'.contains (f t)) := by
  apply filter_congr; intro x _
  by_cases hx : f x ∈ l
  · simp [hx, (h _).1 hx]
  · have : f x ∉ l' := fun h' => hx ((h _).2 h')
    simp [hx, this]

/-- everything `remove_triggers` does, on an invariant state, for selections that designate distinct triggers.
`c = true` (links to removed triggers are reset) needs the repaired code. -/
theorem remove_spec {c : Bool} {fixed : Bool} {tm tm' : TM} {sels : List Sel} (hi : Inv tm)
    (hc : c = true → fixed = true)
    (hdom : ∀ tm1 ids, resolveAll tm sels = .ok (tm1, ids) → ids.Nodup)
    (h : remove fixed tm sels = .ok tm') :
    ∃ tm1 ids D, resolveAll tm sels = .ok (tm1, ids) ∧ displayOrder tm = .ok D ∧ IsPerm D tm.trigs.length ∧
      Good c tm tm' ∧ tm'.next = tm.next ∧
      uids tm' = (tm.trigs.filter (fun t => !ids.contains t.tid)).map (·.uid) ∧
      tm'.order.map (uidAt tm') = (D.filter (fun i => !ids.contains i)).map (uidAt tm) ∧
      IsPerm tm'.order tm'.trigs.length := by
  unfold remove at h
  cases hr : resolveAll tm sels with
  | error e => simp [hr] at h
  | ok v =>
    obtain ⟨tm1, ids0⟩ := v
    have hnd0 := hdom tm1 ids0 hr
    obtain ⟨g1, hs1, ht1, hn1, hlt0⟩ := resolveAll_sound (c := c) hi hr
    simp only [hr] at h
    cases hr2 : readOrder tm1 with
    | error e => simp [hr2] at h
    | ok tm2 =>
      obtain ⟨g2, ht2, hn2, hp2, hh2⟩ := readOrder_sound (c := c) g1.inv hr2
      simp only [hr2] at h
      have ht2' : tm2.trigs = tm.trigs := ht2.trans ht1
      have hn2' : tm2.next = tm.next := hn2.trans hn1
      have hi2 : Inv tm2 := g2.inv
      have hD : displayOrder tm = .ok tm2.order := by
        simp [displayOrder, hs1.read hi hr2, Except.map]
      have hp2' : IsPerm tm2.order tm.trigs.length := ht1 ▸ hp2
      -- the sequential deletes
      have hmem : ∀ a, a ∈ sortDesc ids0 ↔ a ∈ ids0 := fun a => mem_sortDesc
      have hnd : (sortDesc ids0).Nodup := (sortDesc_perm ids0).symm.nodup hnd0
      have hdel : delAll tm2.trigs (sortDesc ids0) = .ok (tm2.trigs.filter (fun t => !(sortDesc ids0).contains t.tid)) := by
        apply delAll_filter (sortDesc_strict hnd0)
        · rw [map_tid_eq_range hi2]; exact nodup_range
        · intro i hi'
          have hlt : i < tm2.trigs.length := by rw [ht2']; exact hlt0 i ((hmem i).1 hi')
          exact ⟨tm2.trigs[i], getElem?_eq_getElem hlt, hi2.ids i _ (getElem?_eq_getElem hlt)⟩
      simp only [hdel, Except.ok.injEq] at h
      -- name the pieces
      generalize hrest : tm2.trigs.filter (fun t => !(sortDesc ids0).contains t.tid) = rest at h
      have hP : Picked tm2 rest := hrest ▸ picked_filter hi2 _
      have hkeep : ∀ k ∈ rest.map (·.tid), k ∉ sortDesc ids0 := by
        intro k hk
        obtain ⟨p, hp, rfl⟩ := mem_map.1 hk
        rw [← hrest] at hp
        simpa using (mem_filter.1 hp).2
      have hrem : ∀ k, k < tm2.trigs.length → k ∉ rest.map (·.tid) → k ∈ sortDesc ids0 := by
        intro k hk hnk
        apply Classical.byContradiction
        intro hn
        apply hnk
        rw [← hrest]
        refine mem_map.2 ⟨tm2.trigs[k], mem_filter.2 ⟨getElem_mem hk, ?_⟩, hi2.ids k _ (getElem?_eq_getElem hk)⟩
        simp [hi2.ids k _ (getElem?_eq_getElem hk), hn]
      -- the new trigger list is a `rebuild`
      obtain ⟨g, hg, htr⟩ : ∃ g, Retarget tm2.trigs.length rest g c ∧ tm'.trigs = rebuild g rest := by
        cases fixed with
        | true =>
          refine ⟨_, (retarget_fixed hP.nodup hkeep hrem).weaken c, ?_⟩
          rw [← h]; rfl
        | false =>
          have hcf : c = false := by
            cases c with
            | false => rfl
            | true => exact absurd (hc rfl) (by simp)
          subst hcf
          refine ⟨_, retarget_changesMoved hP.nodup, ?_⟩
          rw [← h]; rfl
      have hnext : tm'.next = tm2.next := by rw [← h]
      have hord : tm'.order = computeUpdated tm2.order (sortDesc ids0) := by rw [← h]
      have hhash : tm'.hashed = tm2.hashed := by rw [← h]
      have hstep : Step c tm2 tm' := rebuild_step hi2 hP hg htr hnext
      have huids : uids tm' = rest.map (·.uid) := by simp [uids, htr, rebuild_uids]
      have hlen : tm'.trigs.length = rest.length := by rw [htr, rebuild_length]
      have hperm : IsPerm tm'.order tm'.trigs.length := by
        rw [hord, hlen, ← hrest]
        exact isPerm_computeUpdated hi2.ids (by rw [ht2]; exact hp2) hnd
      have hinv : Inv tm' :=
        { ids := fun i t ht => rebuild_ids g rest i t (htr ▸ ht)
          order := ⟨_, hperm, fun _ => rfl⟩
          uniq := by rw [huids]; exact hP.uids_nodup hi2.uniq
          fresh := fun u hu => by
            rw [huids] at hu
            obtain ⟨p, hp, rfl⟩ := mem_map.1 hu
            rw [hnext]
            exact hi2.fresh _ (by simp only [uids, mem_map]; exact ⟨p, hP.mem hp, rfl⟩)
          hfresh := fun u hu => by rw [hhash] at hu; rw [hnext]; exact hi2.hfresh u hu }
      refine ⟨tm1, ids0, tm2.order, rfl, hD, hp2', (g1.trans hi g2).trans hi ⟨hinv, hstep⟩, hnext.trans hn2', ?_, ?_, hperm⟩
      · rw [huids, ← hrest, ht2', filter_contains_congr hmem]
      · -- display sequence of the survivors
        rw [hord, computeUpdated_eq]
        have hf : filter (fun i => !ids0.contains i) tm2.order = filter (fun i => !(sortDesc ids0).contains i) tm2.order :=
          (filter_contains_congr (α := Nat) hmem id tm2.order).symm
        rw [hf]
        have hfm : ∀ D : List Nat, (∀ i ∈ D, i < tm2.trigs.length) →
            (D.filterMap (fun i => if i ∈ sortDesc ids0 then none else some (i - cnt (sortDesc ids0) i))).map (uidAt tm') =
            (D.filter (fun i => !(sortDesc ids0).contains i)).map (uidAt tm) := by
          intro D
          induction D with
          | nil => intro _; rfl
          | cons a D ih =>
            intro hlt
            have ih' := ih (fun i hi' => hlt i (by simp [hi']))
            by_cases ha : a ∈ sortDesc ids0
            · simp only [filterMap_cons, ha, if_true, filter_cons, contains_eq_mem, decide_true, Bool.not_true,
                Bool.false_eq_true, if_false]
              simpa [contains_eq_mem] using ih'
            · have hal : a < tm2.trigs.length := hlt a (by simp)
              have hpos := filter_pos hi2.ids hnd hal ha
              rw [hrest] at hpos
              have hu : uidAt tm' (a - cnt (sortDesc ids0) a) = uidAt tm a := by
                unfold uidAt
                rw [htr, rebuild_getElem?, hpos, ht2']
                simp [Option.map_map, Function.comp_def]
              simp only [filterMap_cons, ha, if_false, filter_cons, contains_eq_mem, decide_false, Bool.not_false, if_true,
                map_cons, hu]
              congr 1
              simpa [contains_eq_mem] using ih'
        exact hfm tm2.order (fun i hi' => by rw [ht2']; exact (hp2'.2 i).1 hi')

/-! ### import_triggers -/

theorem importRenum_uid : ∀ (ts : List Trig) (u n : Nat), (importRenum u n ts).map (·.uid) = range' u ts.length
  | [], _, _ => rfl
  | t :: ts, u, n => by simp [importRenum, importRenum_uid ts, range'_succ]

theorem importRenum_tid : ∀ (ts : List Trig) (u n : Nat), (importRenum u n ts).map (·.tid) = range' n ts.length
  | [], _, _ => rfl
  | t :: ts, u, n => by simp [importRenum, importRenum_tid ts, range'_succ]

/-- the state right after the imported copies were added (either variant) is a good successor -/
theorem import_append_good {c : Bool} {tm tmA : TM} {ts' : List Trig} {m : Nat} (hi : Inv tm)
    (huid : ts'.map (·.uid) = range' tm.next m) (htid : ts'.map (·.tid) = range' tm.trigs.length m)
    (htr : tmA.trigs = tm.trigs ++ ts') (hnx : tmA.next = tm.next + m)
    (hord : (tmA.order = range tmA.trigs.length ∧ tmA.hashed = uids tmA) ∨ (tmA.order = tm.order ∧ tmA.hashed = tm.hashed)) :
    Good c tm tmA := by
  have hlen : ts'.length = m := by
    have := congrArg List.length huid; simpa using this
  have huA : uids tmA = uids tm ++ range' tm.next m := by simp [uids, htr, huid]
  have hinvA : Inv tmA :=
    { ids := fun i t ht => by
        rw [htr] at ht
        by_cases hlt : i < tm.trigs.length
        · rw [getElem?_append_left hlt] at ht; exact hi.ids i t ht
        · rw [getElem?_append_right (by omega)] at ht
          have h1 := congrArg (fun l => l[i - tm.trigs.length]?) htid
          simp only [getElem?_map, ht, Option.map_some] at h1
          have hlt2 : i - tm.trigs.length < m := by
            have := (List.getElem?_eq_some_iff.1 ht).1; omega
          rw [getElem?_range' hlt2] at h1
          have := Option.some.inj h1
          omega
      order := by
        rcases hord with ⟨ho, _⟩ | ⟨ho, hh⟩
        · exact ⟨_, ho ▸ isPerm_range _, fun _ => rfl⟩
        · obtain ⟨k, hk, hkn⟩ := hi.order
          refine ⟨k, ho ▸ hk, fun he => ?_⟩
          rw [hh, huA] at he
          by_cases hm0 : m = 0
          · subst hm0
            simp only [range'_zero, append_nil] at he
            rw [htr, hkn he]; simp [← hlen]
          · exfalso
            have : tm.next ∈ tm.hashed := by rw [he]; simp; omega
            have := hi.hfresh _ this
            omega
      uniq := by
        rw [huA, nodup_append]
        refine ⟨hi.uniq, nodup_range', ?_⟩
        intro a ha b hb e; subst e
        have := hi.fresh a ha
        simp at hb; omega
      fresh := fun u hu => by
        rw [huA, mem_append] at hu
        rw [hnx]
        rcases hu with h' | h'
        · have := hi.fresh u h'; omega
        · simp at h'; omega
      hfresh := fun u hu => by
        rw [hnx]
        rcases hord with ⟨_, hh⟩ | ⟨_, hh⟩
        · rw [hh, huA, mem_append] at hu
          rcases hu with h' | h'
          · have := hi.fresh u h'; omega
          · simp at h'; omega
        · rw [hh] at hu
          have := hi.hfresh u hu; omega }
  exact ⟨hinvA, Step.of_append hi ts' htr (fun x hx => by
    have : x.uid ∈ ts'.map (·.uid) := mem_map.2 ⟨x, hx, rfl⟩
    rw [huid] at this; simp at this; omega) (by omega)⟩

theorem import_good {c : Bool} {ext : Bool} {tm tm' : TM} {ts : List Trig} {index : Option Nat} {news : List Nat} (hi : Inv tm)
    (h : importTriggers ext tm ts index = .ok (tm', news)) : Good c tm tm' ∧ tm.next ≤ tm'.next := by
  unfold importTriggers at h
  simp only at h
  generalize hts' : (importRenum tm.next tm.trigs.length ts).map
      (fun t => { t with effs := t.effs.map (remapEffImport (changesFrom tm.trigs.length ts)) }) = ts' at h
  have huid : ts'.map (·.uid) = range' tm.next ts.length := by
    rw [← hts', map_map]; exact importRenum_uid ts _ _
  have htid : ts'.map (·.tid) = range' tm.trigs.length ts.length := by
    rw [← hts', map_map]; exact importRenum_tid ts _ _
  have hlen : ts'.length = ts.length := by
    have := congrArg List.length huid; simpa using this
  generalize htmA : (if ext = true then ({ tm with trigs := tm.trigs ++ ts', next := tm.next + ts.length } : TM)
      else { trigs := tm.trigs ++ ts', order := range (tm.trigs ++ ts').length, hashed := (tm.trigs ++ ts').map (·.uid),
             next := tm.next + ts.length }) = tmA at h
  have htr : tmA.trigs = tm.trigs ++ ts' := by rw [← htmA]; cases ext <;> rfl
  have hnx : tmA.next = tm.next + ts.length := by rw [← htmA]; cases ext <;> rfl
  have gA : Good c tm tmA := by
    apply import_append_good hi huid htid htr hnx
    rw [← htmA]
    cases ext with
    | false => exact Or.inl ⟨rfl, rfl⟩
    | true => exact Or.inr ⟨rfl, rfl⟩
  cases index with
  | none =>
    simp only [Except.ok.injEq, Prod.mk.injEq] at h
    obtain ⟨rfl, _⟩ := h
    exact ⟨gA, by omega⟩
  | some k =>
    simp only at h
    cases hm : move tmA (ts'.map (·.tid)) k with
    | error e => rw [hm] at h; cases h
    | ok tm2 =>
      rw [hm] at h
      simp only [Except.ok.injEq, Prod.mk.injEq] at h
      obtain ⟨rfl, _⟩ := h
      obtain ⟨g3, hn3⟩ := move_sound (c := c) gA.inv (by rw [htid]; exact nodup_range') hm
      exact ⟨gA.trans hi g3, by omega⟩

end Aoe.Trig
