import Aoe.Model.Save
/-!
Helper lemmas about `Aoe.Save.exec` (core Lean only): a step that is not marked `touchesFs` really leaves the
filesystem alone, runs over concatenated step lists, fault hits, and the closed form of an unfaulted save.
-/
namespace Aoe.Save

/-- `touchesFs` is not just a label: an unmarked step that succeeds leaves the filesystem unchanged -/
theorem stepSem_fs {c : Cfg} {s : Step} {st st' : St} (hp : s.touchesFs = false)
    (h : stepSem c s st = .ok st') : st'.fs = st.fs := by
  cases s <;> simp [Step.touchesFs] at hp <;> simp only [stepSem] at h
  case validate =>
    cases hv : validate c <;> simp [hv, Except.map] at h
    rw [← h]
  case compress =>
    split at h
    · cases h
    · cases h; rfl
  all_goals (cases h; rfl)

/-- a run of steps none of which is marked `touchesFs` ends – normally or by an exception – on the initial
filesystem -/
theorem exec_fs_of_pure (c : Cfg) (fault : Option Nat) :
    ∀ (steps : List Step) (i : Nat) (st : St), (∀ s ∈ steps, s.touchesFs = false) →
      (exec c fault i steps st).2.fs = st.fs := by
  intro steps
  induction steps with
  | nil => intro i st _; rfl
  | cons s rest ih =>
    intro i st hp
    simp only [exec]
    split
    · rfl
    · split
      · rfl
      · next st' h =>
        rw [ih (i + 1) st' (fun s hs => hp s (List.mem_cons_of_mem _ hs))]
        exact stepSem_fs (hp s (List.mem_cons_self ..)) h

theorem exec_append (c : Cfg) (fault : Option Nat) :
    ∀ (a b : List Step) (i : Nat) (st : St),
      exec c fault i (a ++ b) st =
        match exec c fault i a st with
        | (some e, st') => (some e, st')
        | (none, st') => exec c fault (i + a.length) b st' := by
  intro a
  induction a with
  | nil => intro b i st; simp [exec]
  | cons s rest ih =>
    intro b i st
    simp only [List.cons_append, exec, List.length_cons]
    split
    · rfl
    · split
      · rfl
      · next st' _ =>
        rw [ih b (i + 1) st']
        have : i + 1 + rest.length = i + (rest.length + 1) := by omega
        rw [this]

/-- a scheduled fault inside the run makes the run fail -/
theorem exec_fault_hit (c : Cfg) (k : Nat) :
    ∀ (steps : List Step) (i : Nat) (st : St), i ≤ k → k < i + steps.length →
      (exec c (some k) i steps st).1.isSome = true := by
  intro steps
  induction steps with
  | nil => intro i st h1 h2; simp at h2; omega
  | cons s rest ih =>
    intro i st h1 h2
    simp only [exec]
    split
    · rfl
    · next hne =>
      split
      · rfl
      · next st' _ =>
        have : i ≠ k := fun h => hne (by rw [h])
        exact ih (i + 1) st' (by omega) (by simp only [List.length_cons] at h2; omega)

/-- without a fault schedule the numbering of the steps is irrelevant -/
theorem exec_none_idx (c : Cfg) :
    ∀ (steps : List Step) (i j : Nat) (st : St), exec c none i steps st = exec c none j steps st := by
  intro steps
  induction steps with
  | nil => intro i j st; rfl
  | cons s rest ih =>
    intro i j st
    have hn : ∀ n : Nat, (none : Option Nat) ≠ some n := by simp
    simp only [exec, hn, if_false]
    split
    · rfl
    · next st' _ => exact ih (i + 1) (j + 1) st'

/-- a fault scheduled outside the run is no fault -/
theorem exec_no_fault (c : Cfg) (fault : Option Nat) :
    ∀ (steps : List Step) (i : Nat) (st : St), (∀ j, i ≤ j → j < i + steps.length → fault ≠ some j) →
      exec c fault i steps st = exec c none 0 steps st := by
  intro steps
  induction steps with
  | nil => intro i st _; rfl
  | cons s rest ih =>
    intro i st h
    have hi : fault ≠ some i := h i (Nat.le_refl _) (by simp)
    simp only [exec, hi, if_false]
    have hn : (none : Option Nat) ≠ some 0 := by simp
    simp only [hn, if_false]
    split
    · rfl
    · next st' _ =>
      rw [ih (i + 1) st' (fun j h1 h2 => h j (by omega) (by simp only [List.length_cons]; omega))]
      exact exec_none_idx c rest 0 (0 + 1) st'

/-- steps whose only effect is on the scenario object (not on the results the write uses) -/
def Step.neutral : Step → Bool
  | .callback _ | .filename | .xsValidate | .commit _ => true
  | _ => false

theorem exec_neutral (c : Cfg) :
    ∀ (steps : List Step) (i : Nat) (st : St), (∀ s ∈ steps, s.neutral = true) →
      exec c none i steps st = (none, st) := by
  intro steps
  induction steps with
  | nil => intro i st _; rfl
  | cons s rest ih =>
    intro i st h
    have hs := h s (List.mem_cons_self ..)
    have hr := ih (i + 1) st (fun s hs => h s (List.mem_cons_of_mem _ hs))
    cases s <;> simp [Step.neutral] at hs <;> simp [exec, stepSem, hr]

theorem exec_serialise (c : Cfg) :
    ∀ (l : List Bytes) (i : Nat) (st : St),
      exec c none i (l.map .serialise) st =
        (none, { st with mem := { st.mem with parts := l.reverse ++ st.mem.parts } }) := by
  intro l
  induction l with
  | nil => intro i st; simp [exec]
  | cons b rest ih =>
    intro i st
    simp only [List.map_cons, exec, stepSem]
    simp [ih, List.append_assoc]

theorem exec_append_ok {c : Cfg} {fault : Option Nat} {a : List Step} {i : Nat} {st st' : St} (b : List Step)
    (h : exec c fault i a st = (none, st')) :
    exec c fault i (a ++ b) st = exec c fault (i + a.length) b st' := by
  rw [exec_append, h]

theorem exec_append_err {c : Cfg} {fault : Option Nat} {a : List Step} {i : Nat} {st st' : St} {e : Err}
    (b : List Step) (h : exec c fault i a st = (some e, st')) :
    exec c fault i (a ++ b) st = (some e, st') := by
  rw [exec_append, h]

theorem prefixSteps_pure (c : Cfg) : ∀ s ∈ prefixSteps c, s.touchesFs = false := by
  intro s hs
  simp only [prefixSteps, List.mem_append, List.mem_map, List.mem_cons] at hs
  rcases hs with ((((hs | hs) | hs) | hs) | hs) | hs
  · split at hs
    · simp at hs
    · simp at hs; subst hs; rfl
  · obtain ⟨_, _, rfl⟩ := hs; rfl
  · rcases hs with rfl | rfl | hs
    · rfl
    · rfl
    · simp at hs
  · split at hs
    · simp at hs
    · simp only [List.mem_map] at hs; obtain ⟨_, _, rfl⟩ := hs; rfl
  · rcases hs with ⟨_, _, rfl⟩; rfl
  · rcases hs with rfl | hs
    · rfl
    · simp at hs

/-- the final content of the destination -/
def Cfg.payload (c : Cfg) : Bytes := Aoe.Save.payload c.header (c.deflate c.sections.flatten)

/-- does validation let the save through? -/
def Cfg.passes (c : Cfg) : Bool := c.skipValidation || (!c.guard.refuses c.allow c.same && c.variantOk)

theorem validate_ok_iff (c : Cfg) : validate c = .ok () ↔ (c.guard.refuses c.allow c.same = false ∧ c.variantOk = true) := by
  unfold validate
  cases c.guard.refuses c.allow c.same <;> cases c.variantOk <;> simp

/-- closed form of the unfaulted run of the steps after validation -/
theorem exec_after_validate (c : Cfg) (i : Nat) (fs : FS) :
    exec c none i
      ((List.range c.callbacks).map .callback ++ [.filename, .xsValidate]
        ++ (if c.skipReconstruction then [] else (List.range c.commits).map .commit)
        ++ (c.header :: c.sections).map .serialise ++ [.compress] ++ [.openWrite]) (St.init fs)
      = (none, { mem := { parts := (c.header :: c.sections).reverse, compressed := some (c.deflate c.sections.flatten) },
                 fs := fs.put c.dest c.payload }) := by
  have hneu : ∀ s ∈ (List.range c.callbacks).map Step.callback ++ [Step.filename, Step.xsValidate]
        ++ (if c.skipReconstruction then [] else (List.range c.commits).map Step.commit), s.neutral = true := by
    intro s hs
    simp only [List.mem_append, List.mem_map, List.mem_cons] at hs
    rcases hs with (hs | hs) | hs
    · obtain ⟨_, _, rfl⟩ := hs; rfl
    · rcases hs with rfl | rfl | hs
      · rfl
      · rfl
      · simp at hs
    · split at hs
      · simp at hs
      · simp only [List.mem_map] at hs; obtain ⟨_, _, rfl⟩ := hs; rfl
  rw [List.append_assoc _ [Step.compress], List.append_assoc _ (List.map _ _)]
  rw [exec_append_ok _ (exec_neutral c _ i (St.init fs) hneu)]
  rw [exec_append_ok _ (exec_serialise c _ _ _)]
  simp [exec, stepSem, St.init, Cfg.payload]

theorem save_unfaulted (c : Cfg) (fs : FS) (hp : c.passes = true) :
    exec c none 0 (pipeline c) (St.init fs)
      = (none, { mem := { parts := (c.header :: c.sections).reverse, compressed := some (c.deflate c.sections.flatten) },
                 fs := fs.put c.dest c.payload }) := by
  unfold pipeline prefixSteps
  cases hsv : c.skipValidation
  · -- validation runs and passes
    have hv : validate c = .ok () := by
      rw [validate_ok_iff]
      simp [Cfg.passes, hsv] at hp
      exact hp
    simp only [Bool.false_eq_true, if_false, List.append_assoc, List.cons_append, List.nil_append, exec]
    have hn : (none : Option Nat) ≠ some 0 := by simp
    simp only [hn, if_false, stepSem, hv, Except.map]
    have := exec_after_validate c (0 + 1) fs
    simp only [List.append_assoc, List.cons_append, List.nil_append] at this
    exact this
  · simp only [if_true, List.nil_append]
    have := exec_after_validate c 0 fs
    exact this

theorem save_refused (c : Cfg) (fault : Option Nat) (fs : FS) (hsv : c.skipValidation = false) (e : Err)
    (hv : validate c = .error e) :
    ∃ e', exec c fault 0 (pipeline c) (St.init fs) = (some e', St.init fs) ∧ (fault ≠ some 0 → e' = e) := by
  unfold pipeline prefixSteps
  simp only [hsv, Bool.false_eq_true, if_false, List.append_assoc, List.cons_append, List.nil_append, exec]
  by_cases hf : fault = some 0
  · exact ⟨.injected 0, by simp [hf], fun h => absurd hf h⟩
  · exact ⟨e, by simp [hf, stepSem, hv, Except.map], fun _ => rfl⟩

end Aoe.Save
