import Aoe.Lemmas.MapElevLower
/-!
# Raising by one level changes exactly the requested area (C20)

Twin of `MapElevNoop`: the sources are at the *highest* level.  A neighbour one level lower would be filled only if
the tile behind it were at the source's level; all such tiles lie in the protected set, the neighbour does not, and the
protected set is convex along the step - so nothing is filled.
-/
namespace Aoe.Map

theorem elevStep_noop_hi (lo hi : Int) (hle : hi ≤ lo + 1) (P : Nat → Prop) (xys vis : List (Int × Int))
    (recur : Map → Nat → Except Err Map) (src : Nat) (x y : Int) (m : Map) (o : Int × Int) (m' : Map)
    (hb : Bnd lo hi m) (hsrc : ∀ st, m.tiles[src]? = some st → st.elevation = hi)
    (H : ∀ (x y : Int) (k : Nat), xyToI x y m.size = .ok k → (x, y) ∉ xys → ¬ P k)
    (hhi : ∀ k t, m.tiles[k]? = some t → t.elevation = hi → lo < hi → P k)
    (hconv : ∀ ko kb, xyToI (x + o.1) (y + o.2) m.size = .ok ko → xyToI (x + o.1 * 2) (y + o.2 * 2) m.size = .ok kb →
      P kb → P ko)
    (h : elevStep recur src x y xys vis m o = .ok m') : m' = m := by
  unfold elevStep at h
  simp only [] at h
  split at h
  · next hc =>
    simp only [Bool.and_eq_true, Bool.not_eq_true', List.contains_eq_mem, decide_eq_false_iff_not] at hc
    obtain ⟨⟨_, hxys⟩, _⟩ := hc
    simp only [bind, Except.bind] at h
    cases hp : getPosSafe m (x + o.1) (y + o.2) with
    | error e => simp [hp] at h
    | ok r =>
      simp only [hp] at h
      cases r with
      | none => simp [pure, Except.pure] at h; exact h.symm
      | some ko =>
        have hko := (getPosSafe_some m _ _ ko hp).1
        have hnp : ¬ P ko := H _ _ ko hko hxys
        simp only [] at h
        cases hbh : getPosSafe m (x + o.1 * 2) (y + o.2 * 2) with
        | error e => simp [hbh] at h
        | ok behind =>
          simp only [hbh] at h
          cases h1 : listGet m.tiles src with
          | error e => simp [h1] at h
          | ok st =>
            simp only [h1] at h
            cases h2 : listGet m.tiles ko with
            | error e => simp [h2] at h
            | ok ot =>
              simp only [h2] at h
              have hs := hsrc st (listGet_ok _ _ _ h1)
              have bo := hb ko ot (listGet_ok _ _ _ h2)
              split at h
              · cases h
              · next fill hfill =>
                have hff : fill = false := by
                  cases behind with
                  | none => simp [pure, Except.pure] at hfill; exact hfill
                  | some kb =>
                    simp only [] at hfill
                    cases h3 : listGet m.tiles kb with
                    | error e => simp [h3] at hfill
                    | ok bt =>
                      simp only [h3, pure, Except.pure] at hfill
                      injection hfill with hfill
                      rw [← hfill]
                      by_cases hlt : ot.elevation < st.elevation
                      · by_cases heq : st.elevation = bt.elevation
                        · exfalso
                          have hkb := (getPosSafe_some m _ _ kb hbh).1
                          exact hnp (hconv ko kb hko hkb
                            (hhi kb bt (listGet_ok _ _ _ h3) (by omega) (by omega)))
                        · simp [heq]
                      · simp [hlt]
                subst hff
                simp only [Bool.false_eq_true, if_false] at h
                split at h
                · exfalso; omega
                · simp only [pure, Except.pure] at h; injection h with h; exact h.symm
  · simp only [pure, Except.pure] at h; injection h with h; exact h.symm

theorem elevRec_noop_hi (lo hi : Int) (hle : hi ≤ lo + 1) (P : Nat → Prop) (xys : List (Int × Int)) (fuel : Nat)
    (m : Map) (src : Nat) (vis : List (Int × Int)) (m' : Map)
    (hb : Bnd lo hi m) (hsrc : ∀ st, m.tiles[src]? = some st → st.elevation = hi)
    (H : ∀ (x y : Int) (k : Nat), xyToI x y m.size = .ok k → (x, y) ∉ xys → ¬ P k)
    (hhi : ∀ k t, m.tiles[k]? = some t → t.elevation = hi → lo < hi → P k)
    (hconv : ∀ st xy, m.tiles[src]? = some st → tileXY m st = .ok xy → ∀ (o : Int × Int) ko kb,
      xyToI (xy.1 + o.1) (xy.2 + o.2) m.size = .ok ko → xyToI (xy.1 + o.1 * 2) (xy.2 + o.2 * 2) m.size = .ok kb →
      P kb → P ko)
    (h : elevRec fuel m src xys vis = .ok m') : m' = m := by
  cases fuel with
  | zero => simp [elevRec] at h
  | succ fuel =>
    simp only [elevRec, bind, Except.bind] at h
    cases h1 : listGet m.tiles src with
    | error e => simp [h1] at h
    | ok st =>
      simp only [h1] at h
      cases h2 : tileXY m st with
      | error e => simp [h2] at h
      | ok xy =>
        simp only [h2] at h
        exact foldlM_noop _ m offsets m'
          (fun o _ m2 hst => elevStep_noop_hi lo hi hle P xys (xy :: vis) _ src xy.1 xy.2 m o m2 hb hsrc H hhi
            (hconv st xy (listGet_ok _ _ _ h1) h2 o) hst) h


theorem mem_rect_iff (s x1 y1 x2 y2 k : Nat) (hx2 : x2 < s) :
    k ∈ (rectRows s x1 y1 x2 y2).flatten ↔ (x1 ≤ k % s ∧ k % s ≤ x2 ∧ y1 ≤ k / s ∧ k / s ≤ y2) := by
  have hs : 0 < s := by omega
  constructor
  · intro h
    obtain ⟨x, y, h1, h2, h3, h4, rfl⟩ := (mem_rectRows _ _ _ _ _ _).mp h
    have hxs : x < s := by omega
    rw [Nat.add_mul_mod_self_right, Nat.mod_eq_of_lt hxs, Nat.add_mul_div_right _ _ hs, Nat.div_eq_of_lt hxs,
      Nat.zero_add]
    exact ⟨h1, h2, h3, h4⟩
  · intro hh
    exact (mem_rectRows _ _ _ _ _ _).mpr ⟨k % s, k / s, hh.1, hh.2.1, hh.2.2.1, hh.2.2.2,
      by rw [Nat.mul_comm]; exact (Nat.mod_add_div k s).symm⟩

/-- **raising by one level**: on a map that is everywhere at `e - 1`, `set_elevation(e, rectangle)` (more than one
tile) returns the map with exactly the rectangle's tiles set to `e` -/
theorem setElevation_raise_one (fs : Bool) (fuel : Nat) (m m' : Map) (e : Int) (x1 y1 x2 y2 : Nat) (hwf : WF m)
    (hx : x1 ≤ x2) (hx2 : x2 < m.size) (hy : y1 ≤ y2) (hy2 : y2 < m.size) (hns : ¬ (x1 = x2 ∧ y1 = y2))
    (hm : ∀ (k : Nat) (t : Tile), m.tiles[k]? = some t → t.elevation = e - 1)
    (h : setElevation fs fuel m e x1 y1 (some (x2 : Int)) (some (y2 : Int)) = .ok m') :
    m' = (rectRows m.size x1 y1 x2 y2).flatten.foldl (fun m k => setElevAt m k e) m := by
  have hc : ¬ ((x1 : Int) = (x2 : Int) ∧ (y1 : Int) = (y2 : Int)) := by omega
  have hb : Bnd (e - 1) e m := fun k t ht => by rw [hm k t ht]; omega
  unfold setElevation at h
  simp only [Option.getD_some, if_neg hc, squareRowsPos_spec m hwf x1 y1 x2 y2 hx hx2 hy hy2] at h
  obtain ⟨rows, hrows, h⟩ := bind_ok _ _ _ h
  injection hrows with hps
  subst hps
  generalize hm1 : (rectRows m.size x1 y1 x2 y2).flatten.foldl (fun m k => setElevAt m k e) m = m1 at h
  have ff : Frame (fun k => k ∉ (rectRows m.size x1 y1 x2 y2).flatten) m m1 := hm1 ▸ fill_frame e _ m
  have hwf1 : WF m1 := ff.wf hwf
  have hsz : m1.size = m.size := ff.size
  have b1 : Bnd (e - 1) e m1 := hm1 ▸ fill_bnd e (by omega) (by omega) _ m hb
  obtain ⟨xys, hxys, h⟩ := bind_ok _ _ _ h
  obtain ⟨first, hfirst, h⟩ := bind_ok _ _ _ h
  obtain ⟨last, hlast, h⟩ := bind_ok _ _ _ h
  obtain ⟨mids, hmids, h⟩ := bind_ok _ _ _ h
  have hrect : ∀ k ∈ (rectRows m.size x1 y1 x2 y2).flatten, ∀ st, m1.tiles[k]? = some st → st.elevation = e := by
    intro k hk st hst
    rw [← hm1, fill_spec, if_pos hk] at hst
    cases hmk : m.tiles[k]? with
    | none => simp [hmk] at hst
    | some t0 => simp [hmk] at hst; subst hst; rfl
  have hhi : ∀ k t, m1.tiles[k]? = some t → t.elevation = e → e - 1 < e →
      k ∈ (rectRows m.size x1 y1 x2 y2).flatten := by
    intro k t ht hte _
    by_cases hk : k ∈ (rectRows m.size x1 y1 x2 y2).flatten
    · exact hk
    · rw [← hm1, fill_spec, if_neg hk] at ht
      have := hm k t ht
      omega
  have H := protect_of_xys m1 hwf1 xys (fun k => k ∈ (rectRows m.size x1 y1 x2 y2).flatten) (by
    intro k hk
    obtain ⟨c, hc, hkc⟩ := mapM_ok_mem _ _ _ hxys k hk
    obtain ⟨t, hg, hkc⟩ := bind_ok _ _ _ hkc
    exact ⟨t, listGet_ok _ _ _ hg, c, hc, hkc⟩)
  have hedge : ∀ k ∈ first ++ last ++ mids.flatten, k ∈ (rectRows m.size x1 y1 x2 y2).flatten := by
    intro k hk
    simp only [List.mem_append, List.mem_flatten] at hk ⊢
    rcases hk with (hk | hk) | ⟨pr, hpr, hk⟩
    · exact ⟨first, pyFirst_mem _ _ hfirst, hk⟩
    · exact ⟨last, pyLast_mem _ _ hlast, hk⟩
    · obtain ⟨r, hr, hf⟩ := mapM_ok_mem' _ _ _ hmids pr hpr
      have hr' : r ∈ rectRows m.size x1 y1 x2 y2 := List.mem_of_mem_drop (List.dropLast_subset _ hr)
      obtain ⟨a, ha, hf⟩ := bind_ok _ _ _ hf
      obtain ⟨b, hbb, hf⟩ := bind_ok _ _ _ hf
      simp only [pure, Except.pure] at hf
      injection hf with hf; subst hf
      simp only [List.mem_cons, List.mem_nil_iff, or_false] at hk
      rcases hk with rfl | rfl
      · exact ⟨r, hr', pyFirst_mem _ _ ha⟩
      · exact ⟨r, hr', pyLast_mem _ _ hbb⟩
  refine foldlM_noop _ m1 _ m' (fun k hk m2 hst => ?_) h
  have hkr := hedge k hk
  refine elevRec_noop_hi (e - 1) e (by omega) (fun k => k ∈ (rectRows m.size x1 y1 x2 y2).flatten) xys fuel m1 k [] m2
    b1 (hrect k hkr) H hhi ?_ hst
  intro st xy hst' hxy o ko kb hko hkb hPkb
  rw [tileXY_wf m1 hwf1 k st hst'] at hxy
  injection hxy with hxy
  have e1 := xy_of_xyToI _ _ _ _ hko
  have e2 := xy_of_xyToI _ _ _ _ hkb
  rw [hsz] at hxy e1 e2
  have pk := (mem_rect_iff m.size x1 y1 x2 y2 k hx2).mp hkr
  have pb := (mem_rect_iff m.size x1 y1 x2 y2 kb hx2).mp hPkb
  refine (mem_rect_iff m.size x1 y1 x2 y2 ko hx2).mpr ?_
  subst hxy
  simp only [Prod.mk.injEq] at e1 e2
  omega

/-- **raising by one level**: on a map that is at `e - 1` everywhere outside the rectangle (inside: anything), `set_elevation(e, rectangle)` (more than one
tile) returns the map with exactly the rectangle's tiles set to `e` -/
theorem setElevation_raise_one_gen (fs : Bool) (fuel : Nat) (m m' : Map) (e : Int) (x1 y1 x2 y2 : Nat) (hwf : WF m)
    (hx : x1 ≤ x2) (hx2 : x2 < m.size) (hy : y1 ≤ y2) (hy2 : y2 < m.size) (hns : ¬ (x1 = x2 ∧ y1 = y2))
    (hm : ∀ (k : Nat) (t : Tile), m.tiles[k]? = some t → k ∉ (rectRows m.size x1 y1 x2 y2).flatten → t.elevation = e - 1)
    (h : setElevation fs fuel m e x1 y1 (some (x2 : Int)) (some (y2 : Int)) = .ok m') :
    m' = (rectRows m.size x1 y1 x2 y2).flatten.foldl (fun m k => setElevAt m k e) m := by
  have hc : ¬ ((x1 : Int) = (x2 : Int) ∧ (y1 : Int) = (y2 : Int)) := by omega
  unfold setElevation at h
  simp only [Option.getD_some, if_neg hc, squareRowsPos_spec m hwf x1 y1 x2 y2 hx hx2 hy hy2] at h
  obtain ⟨rows, hrows, h⟩ := bind_ok _ _ _ h
  injection hrows with hps
  subst hps
  generalize hm1 : (rectRows m.size x1 y1 x2 y2).flatten.foldl (fun m k => setElevAt m k e) m = m1 at h
  have ff : Frame (fun k => k ∉ (rectRows m.size x1 y1 x2 y2).flatten) m m1 := hm1 ▸ fill_frame e _ m
  have hwf1 : WF m1 := ff.wf hwf
  have hsz : m1.size = m.size := ff.size
  have b1 : Bnd (e - 1) e m1 := by
    intro k t ht
    rw [← hm1, fill_spec] at ht
    split at ht
    · cases hmk : m.tiles[k]? with
      | none => simp [hmk] at ht
      | some t0 => simp [hmk] at ht; subst ht; simp [Tile.withElev]; omega
    · next hk => rw [hm k t ht hk]; omega
  obtain ⟨xys, hxys, h⟩ := bind_ok _ _ _ h
  obtain ⟨first, hfirst, h⟩ := bind_ok _ _ _ h
  obtain ⟨last, hlast, h⟩ := bind_ok _ _ _ h
  obtain ⟨mids, hmids, h⟩ := bind_ok _ _ _ h
  have hrect : ∀ k ∈ (rectRows m.size x1 y1 x2 y2).flatten, ∀ st, m1.tiles[k]? = some st → st.elevation = e := by
    intro k hk st hst
    rw [← hm1, fill_spec, if_pos hk] at hst
    cases hmk : m.tiles[k]? with
    | none => simp [hmk] at hst
    | some t0 => simp [hmk] at hst; subst hst; rfl
  have hhi : ∀ k t, m1.tiles[k]? = some t → t.elevation = e → e - 1 < e →
      k ∈ (rectRows m.size x1 y1 x2 y2).flatten := by
    intro k t ht hte _
    by_cases hk : k ∈ (rectRows m.size x1 y1 x2 y2).flatten
    · exact hk
    · rw [← hm1, fill_spec, if_neg hk] at ht
      have := hm k t ht hk
      omega
  have H := protect_of_xys m1 hwf1 xys (fun k => k ∈ (rectRows m.size x1 y1 x2 y2).flatten) (by
    intro k hk
    obtain ⟨c, hc, hkc⟩ := mapM_ok_mem _ _ _ hxys k hk
    obtain ⟨t, hg, hkc⟩ := bind_ok _ _ _ hkc
    exact ⟨t, listGet_ok _ _ _ hg, c, hc, hkc⟩)
  have hedge : ∀ k ∈ first ++ last ++ mids.flatten, k ∈ (rectRows m.size x1 y1 x2 y2).flatten := by
    intro k hk
    simp only [List.mem_append, List.mem_flatten] at hk ⊢
    rcases hk with (hk | hk) | ⟨pr, hpr, hk⟩
    · exact ⟨first, pyFirst_mem _ _ hfirst, hk⟩
    · exact ⟨last, pyLast_mem _ _ hlast, hk⟩
    · obtain ⟨r, hr, hf⟩ := mapM_ok_mem' _ _ _ hmids pr hpr
      have hr' : r ∈ rectRows m.size x1 y1 x2 y2 := List.mem_of_mem_drop (List.dropLast_subset _ hr)
      obtain ⟨a, ha, hf⟩ := bind_ok _ _ _ hf
      obtain ⟨b, hbb, hf⟩ := bind_ok _ _ _ hf
      simp only [pure, Except.pure] at hf
      injection hf with hf; subst hf
      simp only [List.mem_cons, List.mem_nil_iff, or_false] at hk
      rcases hk with rfl | rfl
      · exact ⟨r, hr', pyFirst_mem _ _ ha⟩
      · exact ⟨r, hr', pyLast_mem _ _ hbb⟩
  refine foldlM_noop _ m1 _ m' (fun k hk m2 hst => ?_) h
  have hkr := hedge k hk
  refine elevRec_noop_hi (e - 1) e (by omega) (fun k => k ∈ (rectRows m.size x1 y1 x2 y2).flatten) xys fuel m1 k [] m2
    b1 (hrect k hkr) H hhi ?_ hst
  intro st xy hst' hxy o ko kb hko hkb hPkb
  rw [tileXY_wf m1 hwf1 k st hst'] at hxy
  injection hxy with hxy
  have e1 := xy_of_xyToI _ _ _ _ hko
  have e2 := xy_of_xyToI _ _ _ _ hkb
  rw [hsz] at hxy e1 e2
  have pk := (mem_rect_iff m.size x1 y1 x2 y2 k hx2).mp hkr
  have pb := (mem_rect_iff m.size x1 y1 x2 y2 kb hx2).mp hPkb
  refine (mem_rect_iff m.size x1 y1 x2 y2 ko hx2).mpr ?_
  subst hxy
  simp only [Prod.mk.injEq] at e1 e2
  omega

end Aoe.Map
