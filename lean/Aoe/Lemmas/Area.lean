import Aoe.Lemmas.AreaSpec
/-!
# Lemmas for C14 (core Lean only)

1. the `Except`-valued transcription (`isWithin`, `toCoords`, `chunkIdW`, `toChunksW`) equals a pure function on
   `Valid` configurations (`within`, `coords`, `cid`, `chunks`);
2. the code's modulus predicates are equivalent to the declarative `Pattern`;
3. the candidate sequence is strictly row-major; grouping by chunk id is a partition into filters.
-/
namespace Aoe.Area

/-! ### pure versions -/

def gridB (a : Area) (x y : Int) : Bool :=
  decide ((x - a.x1) % a.px < a.blockX) && decide ((y - a.y1) % a.py < a.blockY)

def lineB (a : Area) (x y : Int) : Bool :=
  match a.axis with
  | .x => decide ((y - a.y1) % a.lp < a.lineY)
  | .y => decide ((x - a.x1) % a.lp < a.lineX)
  | .other => false

def patB (a : Area) (x y : Int) : Bool :=
  match a.state with
  | .full => true
  | .edge => isEdgeTile a x y
  | .grid => gridB a x y
  | .lines => lineB a x y
  | .corners => isCornerTile a x y

def within (a : Area) (x y : Int) : Bool := inRawRect a x y && (patB a x y != a.inverted)

theorem pyMod_pos {a b : Int} (h : 0 < b) : pyMod a b = .ok (a % b) := by
  have : b ≠ 0 := by omega
  simp [pyMod, this, Int.fmod_eq_emod_of_nonneg a (Int.le_of_lt h)]

theorem pyDiv_pos {a b : Int} (h : 0 < b) : pyDiv a b = .ok (a / b) := by
  have : b ≠ 0 := by omega
  simp [pyDiv, this, Int.fdiv_eq_ediv_of_nonneg a (Int.le_of_lt h)]

theorem pyCeilDiv_pos {a b : Int} (h : 0 < b) : pyCeilDiv a b = .ok (-((-a) / b)) := by
  have : b ≠ 0 := by omega
  simp [pyCeilDiv, this, Int.fdiv_eq_ediv_of_nonneg (-a) (Int.le_of_lt h)]

theorem isGridTile_ok (a : Area) (x y : Int) (hx : 0 < a.px) (hy : 0 < a.py) :
    isGridTile a x y = .ok (gridB a x y) := by
  unfold Area.px at hx; unfold Area.py at hy
  simp only [isGridTile, gridB, Area.px, Area.py, pyMod_pos hx, pyMod_pos hy, bind, Except.bind, pure, Except.pure]
  by_cases h : (x - a.x1) % (a.blockX + a.gapX) < a.blockX <;> simp [h] <;> rfl

theorem isLineTile_ok (a : Area) (x y : Int) (h : 0 < a.lp) : isLineTile a x y = .ok (lineB a x y) := by
  unfold Area.lp at h
  unfold isLineTile lineB Area.lp
  cases hax : a.axis <;> simp only [hax] at h ⊢
  · rw [Int.add_comm a.gapY a.lineY, pyMod_pos h]; rfl
  · rw [Int.add_comm a.gapX a.lineX, pyMod_pos h]; rfl
  · omega

theorem isWithin_ok (a : Area) (hv : Valid a) (x y : Int) : isWithin a x y = .ok (within a x y) := by
  unfold isWithin within patB
  unfold Valid at hv
  cases hr : inRawRect a x y
  · simp [pure, Except.pure]
  · cases hs : a.state <;> simp only [hs] at hv ⊢
    · simp [pure, Except.pure, bind, Except.bind]
    · simp [pure, Except.pure, bind, Except.bind]; cases a.inverted <;> cases isEdgeTile a x y <;> simp
    · simp [isGridTile_ok a x y hv.1 hv.2, pure, Except.pure, bind, Except.bind]
      cases a.inverted <;> cases gridB a x y <;> simp
    · simp [isLineTile_ok a x y hv, pure, Except.pure, bind, Except.bind]
      cases a.inverted <;> cases lineB a x y <;> simp
    · simp [pure, Except.pure, bind, Except.bind]; cases a.inverted <;> cases isCornerTile a x y <;> simp

/-! ### one-dimensional arithmetic: modulus test ⇔ "lies in some period's first `b` cells" -/

/-- `d % p < b` says: `d` lies in the first `b` cells of some period `i` -/
theorem mod_lt_iff_exists (d p b : Int) (hp : 0 < p) (hd : 0 ≤ d) :
    d % p < b ↔ ∃ i : Nat, (i : Int) * p ≤ d ∧ d < (i : Int) * p + b := by
  constructor
  · intro h
    have hq : 0 ≤ d / p := Int.ediv_nonneg hd (Int.le_of_lt hp)
    refine ⟨(d / p).toNat, ?_, ?_⟩
    · rw [Int.toNat_of_nonneg hq]; exact Int.ediv_mul_le d (by omega)
    · rw [Int.toNat_of_nonneg hq]
      have := Int.emod_add_ediv_mul d p
      omega
  · rintro ⟨i, h1, h2⟩
    have hr : d % p = (d - (i : Int) * p) % p := by
      have := Int.add_mul_emod_self_right (d - (i : Int) * p) (i : Int) p
      rw [← this]; congr 1; omega
    rw [hr]
    by_cases hlt : d - (i : Int) * p < p
    · rw [Int.emod_eq_of_lt (by omega) hlt]; omega
    · have := Int.emod_lt_of_pos (d - (i : Int) * p) hp
      omega

/-- with cells not wider than the period the index is the quotient -/
theorem div_eq_of_period (d p b : Int) (i : Nat) (hp : 0 < p) (hb : b ≤ p)
    (h1 : (i : Int) * p ≤ d) (h2 : d < (i : Int) * p + b) : d / p = (i : Int) := by
  have h : d = (d - (i : Int) * p) + (i : Int) * p := by omega
  rw [h, Int.add_mul_ediv_right _ _ (by omega : p ≠ 0), Int.ediv_eq_zero_of_lt (by omega) (by omega)]
  omega

/-- a quotient below the ceiling: `0 ≤ d < w → d / p < ⌈w / p⌉` -/
theorem div_lt_ceil (d w p : Int) (hp : 0 < p) (hw : d < w) : d / p < -((-w) / p) := by
  have h1 := Int.ediv_mul_le (-w) (by omega : p ≠ 0)
  apply Int.ediv_lt_of_lt_mul hp
  have : -(-w / p) * p = -((-w) / p * p) := Int.neg_mul _ _
  omega

/-- `c + r * n` determines `(c, r)` when `0 ≤ c < n` -/
theorem pair_injective (c r c' r' n : Int) (h0 : 0 ≤ c) (h1 : c < n) (h0' : 0 ≤ c') (h1' : c' < n)
    (h : c + r * n = c' + r' * n) : c = c' ∧ r = r' := by
  have hn : n ≠ 0 := by omega
  have e1 : (c + r * n) % n = c := by rw [Int.add_mul_emod_self_right, Int.emod_eq_of_lt h0 h1]
  have e2 : (c' + r' * n) % n = c' := by rw [Int.add_mul_emod_self_right, Int.emod_eq_of_lt h0' h1']
  have d1 : (c + r * n) / n = r := by rw [Int.add_mul_ediv_right _ _ hn, Int.ediv_eq_zero_of_lt h0 h1]; omega
  have d2 : (c' + r' * n) / n = r' := by rw [Int.add_mul_ediv_right _ _ hn, Int.ediv_eq_zero_of_lt h0' h1']; omega
  rw [h] at e1 d1
  exact ⟨by omega, by omega⟩

/-! ### the candidate sequence -/

theorem mem_rangeI (lo hi v : Int) : v ∈ rangeI lo hi ↔ lo ≤ v ∧ v ≤ hi := by
  simp only [rangeI, List.mem_map, List.mem_range]
  constructor
  · rintro ⟨i, hi', rfl⟩; omega
  · intro h; exact ⟨(v - lo).toNat, by omega, by omega⟩

theorem rangeI_sorted (lo hi : Int) : (rangeI lo hi).Pairwise (· < ·) := by
  unfold rangeI
  rw [List.pairwise_map]
  exact List.Pairwise.imp (fun h => by omega) List.pairwise_lt_range

theorem mem_candidates (a : Area) (t : Tile) :
    t ∈ candidates a ↔ a.x1 ≤ t.x ∧ t.x ≤ a.x2 ∧ a.y1 ≤ t.y ∧ t.y ≤ a.y2 := by
  simp only [candidates, List.mem_flatMap, List.mem_map, mem_rangeI]
  constructor
  · rintro ⟨y, hy, x, hx, rfl⟩; exact ⟨hx.1, hx.2, hy.1, hy.2⟩
  · intro h; exact ⟨t.y, ⟨h.2.2.1, h.2.2.2⟩, t.x, ⟨h.1, h.2.1⟩, rfl⟩

theorem candidates_sorted (a : Area) : (candidates a).Pairwise RowLt := by
  unfold candidates
  rw [List.pairwise_flatMap]
  constructor
  · intro y _
    rw [List.pairwise_map]
    exact List.Pairwise.imp (fun h => Or.inr ⟨rfl, h⟩) (rangeI_sorted _ _)
  · refine List.Pairwise.imp ?_ (rangeI_sorted _ _)
    intro y1 y2 h t ht u hu
    simp only [List.mem_map] at ht hu
    obtain ⟨_, _, rfl⟩ := ht
    obtain ⟨_, _, rfl⟩ := hu
    exact Or.inl h

theorem rowLt_irrefl (t : Tile) : ¬ RowLt t t := by
  unfold RowLt; omega

theorem rowLt_trans {t u v : Tile} (h1 : RowLt t u) (h2 : RowLt u v) : RowLt t v := by
  unfold RowLt at *; omega

theorem nodup_of_sorted {l : List Tile} (h : l.Pairwise RowLt) : l.Nodup := by
  rw [List.nodup_iff_pairwise_ne]
  exact List.Pairwise.imp (fun {t u} (hr : RowLt t u) (he : t = u) => by subst he; exact rowLt_irrefl t hr) h

/-! ### `to_coords` on valid configurations -/

theorem filterE_ok {α : Type} (p : α → Except Err Bool) (q : α → Bool) (l : List α)
    (h : ∀ x ∈ l, p x = .ok (q x)) : filterE p l = .ok (l.filter q) := by
  induction l with
  | nil => rfl
  | cons t ts ih =>
    have h1 := h t (List.mem_cons_self)
    have h2 := ih (fun x hx => h x (List.mem_cons_of_mem _ hx))
    simp only [filterE, h1, h2, bind, Except.bind, pure, Except.pure, List.filter_cons]

/-- the selection as a pure list -/
def coords (a : Area) : List Tile := (candidates a).filter fun t => within a t.x t.y

theorem toCoords_ok (a : Area) (hv : Valid a) : toCoords a = .ok (coords a) :=
  filterE_ok _ _ _ (fun t _ => isWithin_ok a hv t.x t.y)

theorem coords_sorted (a : Area) : (coords a).Pairwise RowLt :=
  List.Pairwise.filter _ (candidates_sorted a)

theorem mem_coords (a : Area) (t : Tile) :
    t ∈ coords a ↔ (a.x1 ≤ t.x ∧ t.x ≤ a.x2 ∧ a.y1 ≤ t.y ∧ t.y ≤ a.y2) ∧ within a t.x t.y = true := by
  simp only [coords, List.mem_filter, mem_candidates]

/-! ### the code's predicates are the declarative pattern -/

/-- the visible (clamped) rectangle -/
def InVis (a : Area) (t : Tile) : Prop := a.x1 ≤ t.x ∧ t.x ≤ a.x2 ∧ a.y1 ≤ t.y ∧ t.y ≤ a.y2

instance (a : Area) (t : Tile) : Decidable (InVis a t) := by unfold InVis; infer_instance

theorem gridB_iff (a : Area) (hx : 0 < a.px) (hy : 0 < a.py) (t : Tile) (h : InVis a t) :
    gridB a t.x t.y = true ↔ ∃ i j : Nat, InBlock a i j t := by
  unfold InVis at h
  simp only [gridB, Bool.and_eq_true, decide_eq_true_eq]
  rw [mod_lt_iff_exists _ _ _ hx (by omega), mod_lt_iff_exists _ _ _ hy (by omega)]
  unfold InBlock
  constructor
  · rintro ⟨⟨i, hi1, hi2⟩, ⟨j, hj1, hj2⟩⟩
    exact ⟨i, j, by omega, by omega, by omega, by omega⟩
  · rintro ⟨i, j, h1, h2, h3, h4⟩
    exact ⟨⟨i, by omega, by omega⟩, ⟨j, by omega, by omega⟩⟩

theorem lineB_iff (a : Area) (hp : 0 < a.lp) (t : Tile) (h : InVis a t) :
    lineB a t.x t.y = true ↔ ∃ k : Nat, InLine a k t := by
  unfold InVis at h
  unfold lineB InLine
  cases hax : a.axis
  · simp only [decide_eq_true_eq]
    rw [mod_lt_iff_exists _ _ _ hp (by omega)]
    constructor
    · rintro ⟨k, h1, h2⟩; exact ⟨k, by omega, by omega⟩
    · rintro ⟨k, h1, h2⟩; exact ⟨k, by omega, by omega⟩
  · simp only [decide_eq_true_eq]
    rw [mod_lt_iff_exists _ _ _ hp (by omega)]
    constructor
    · rintro ⟨k, h1, h2⟩; exact ⟨k, by omega, by omega⟩
    · rintro ⟨k, h1, h2⟩; exact ⟨k, by omega, by omega⟩
  · simp [Area.lp, hax] at hp

theorem isCornerTile_iff (a : Area) (t : Tile) : isCornerTile a t.x t.y = true ↔ ∃ c : Int, InCorner a c t := by
  simp only [isCornerTile, Bool.and_eq_true, Bool.or_eq_true, decide_eq_true_eq, InCorner]
  constructor
  · rintro ⟨hx | hx, hy | hy⟩
    · exact ⟨0, Or.inl ⟨rfl, hx.1, hx.2, hy.1, hy.2⟩⟩
    · exact ⟨3, Or.inr (Or.inr (Or.inr ⟨rfl, hx.1, hx.2, hy.1, hy.2⟩))⟩
    · exact ⟨1, Or.inr (Or.inl ⟨rfl, hx.1, hx.2, hy.1, hy.2⟩)⟩
    · exact ⟨2, Or.inr (Or.inr (Or.inl ⟨rfl, hx.1, hx.2, hy.1, hy.2⟩))⟩
  · rintro ⟨c, h | h | h | h⟩ <;> omega

theorem isEdgeTile_iff (a : Area) (t : Tile) (h : InVis a t) :
    isEdgeTile a t.x t.y = true ↔
      (t.x - a.x1 < a.lineX ∨ a.x2 - t.x < a.lineX ∨ t.y - a.y1 < a.lineY ∨ a.y2 - t.y < a.lineY) := by
  unfold InVis at h
  simp only [isEdgeTile, Bool.and_eq_true, Bool.or_eq_true, decide_eq_true_eq]
  omega

theorem patB_iff (a : Area) (hv : Valid a) (t : Tile) (h : InVis a t) : patB a t.x t.y = true ↔ Pattern a t := by
  unfold patB Pattern
  unfold Valid at hv
  cases hs : a.state <;> simp only [hs] at hv ⊢
  · exact isEdgeTile_iff a t h
  · exact gridB_iff a hv.1 hv.2 t h
  · exact lineB_iff a hv t h
  · exact isCornerTile_iff a t

/-- clamped range and raw rectangle together = raw rectangle on the map -/
theorem vis_raw_iff (a : Area) (hs : 0 < a.size) (t : Tile) :
    (InVis a t ∧ inRawRect a t.x t.y = true) ↔ (InRect a t ∧ InMap a t) := by
  simp only [InVis, inRawRect, InRect, InMap, Area.x1, Area.x2, Area.y1, Area.y2, clamp, Bool.and_eq_true,
    decide_eq_true_eq]
  omega

theorem mem_coords_iff (a : Area) (hv : Valid a) (hs : 0 < a.size) (t : Tile) : t ∈ coords a ↔ Selected a t := by
  rw [mem_coords]
  unfold Selected within
  rw [Bool.and_eq_true]
  constructor
  · rintro ⟨hvis, hraw, hp⟩
    have := (vis_raw_iff a hs t).1 ⟨hvis, hraw⟩
    refine ⟨this.1, this.2, ?_⟩
    rw [← patB_iff a hv t hvis]
    cases hb : patB a t.x t.y <;> cases hi : a.inverted <;> simp [hb, hi] at hp ⊢
  · rintro ⟨hr, hm, hp⟩
    have := (vis_raw_iff a hs t).2 ⟨hr, hm⟩
    refine ⟨this.1, this.2, ?_⟩
    rw [← patB_iff a hv t this.1] at hp
    cases hb : patB a t.x t.y <;> cases hi : a.inverted <;> simp [hb, hi] at hp ⊢

/-! ### grouping by chunk id: the insertion-ordered dict is "one filter per key, keys in first-occurrence order" -/

/-- the loop of `to_chunks` with a total chunk-id function -/
def groupP (f : Tile → Int) : List Tile → List (Int × List Tile) → List (Int × List Tile)
  | [], acc => acc
  | t :: ts, acc => groupP f ts (insertChunk (f t) t acc)

theorem groupE_ok (fe : Tile → Except Err Int) (f : Tile → Int) (l : List Tile) (acc : List (Int × List Tile))
    (h : ∀ t ∈ l, fe t = .ok (f t)) : groupE fe l acc = .ok (groupP f l acc) := by
  induction l generalizing acc with
  | nil => rfl
  | cons t ts ih =>
    have h1 := h t List.mem_cons_self
    simp only [groupE, groupP, h1, bind, Except.bind]
    exact ih _ (fun x hx => h x (List.mem_cons_of_mem _ hx))

/-- an error of the chunk id on any tile is an error of the loop -/
theorem groupE_error (fe : Tile → Except Err Int) (e : Err) (l : List Tile) (acc : List (Int × List Tile))
    (hne : l ≠ []) (h : ∀ t ∈ l, fe t = .error e) : groupE fe l acc = .error e := by
  cases l with
  | nil => exact absurd rfl hne
  | cons t ts =>
    have h1 := h t List.mem_cons_self
    simp only [groupE, h1, bind, Except.bind]

def addKey (k : Int) (ks : List Int) : List Int := if k ∈ ks then ks else ks ++ [k]

theorem mem_addKey (k k' : Int) (ks : List Int) : k' ∈ addKey k ks ↔ k' = k ∨ k' ∈ ks := by
  unfold addKey
  by_cases h : k ∈ ks
  · simp only [h, if_true]; constructor
    · exact Or.inr
    · rintro (rfl | h') <;> assumption
  · simp only [h, if_false, List.mem_append, List.mem_singleton]; constructor
    · rintro (h' | h'); exact Or.inr h'; exact Or.inl h'
    · rintro (h' | h'); exact Or.inr h'; exact Or.inl h'

theorem nodup_addKey (k : Int) (ks : List Int) (h : ks.Nodup) : (addKey k ks).Nodup := by
  unfold addKey
  by_cases hk : k ∈ ks
  · simp only [hk, if_true]; exact h
  · simp only [hk, if_false]
    rw [List.nodup_iff_pairwise_ne, List.pairwise_append]
    refine ⟨h, by simp, ?_⟩
    intro a ha b hb
    simp only [List.mem_singleton] at hb
    subst hb
    intro e; subst e; exact hk ha

theorem insertChunk_map (k : Int) (t : Tile) (F : Int → List Tile) (ks : List Int) (hnd : ks.Nodup)
    (hF : k ∉ ks → F k = []) :
    insertChunk k t (ks.map fun k' => (k', F k')) =
      (addKey k ks).map fun k' => (k', if k' = k then F k' ++ [t] else F k') := by
  induction ks with
  | nil => simp [insertChunk, addKey, hF]
  | cons k' rest ih =>
    have hnd' : rest.Nodup := (List.nodup_cons.1 hnd).2
    have hk' : k' ∉ rest := (List.nodup_cons.1 hnd).1
    by_cases hkk : k' = k
    · subst hkk
      have : addKey k' (k' :: rest) = k' :: rest := by simp [addKey]
      rw [this]
      simp only [List.map_cons, insertChunk, if_true]
      congr 1
      apply List.map_congr_left
      intro k'' hk''
      have : k'' ≠ k' := fun e => hk' (e ▸ hk'')
      simp [this]
    · have hF' : k ∉ rest → F k = [] := fun h => hF (by
        intro hm; rcases List.mem_cons.1 hm with e | e
        · exact hkk e.symm
        · exact h e)
      have hadd : addKey k (k' :: rest) = k' :: addKey k rest := by
        unfold addKey
        by_cases hm : k ∈ rest
        · have : k ∈ k' :: rest := List.mem_cons_of_mem _ hm
          simp [hm, this]
        · have : k ∉ k' :: rest := by
            intro h; rcases List.mem_cons.1 h with e | e
            · exact hkk e.symm
            · exact hm e
          simp [hm, this]
      rw [hadd]
      simp only [List.map_cons, insertChunk, hkk, if_false]
      rw [ih hnd' hF']

/-- closed form of the grouping loop started on a state that already is in closed form -/
theorem groupP_closed (f : Tile → Int) (l p : List Tile) (ks : List Int) (hnd : ks.Nodup)
    (hks : ∀ k, k ∈ ks ↔ ∃ u, u ∈ p ∧ f u = k) :
    ∃ ks' : List Int, ks'.Nodup ∧ (∀ k, k ∈ ks' ↔ ∃ u, u ∈ p ++ l ∧ f u = k) ∧
      groupP f l (ks.map fun k => (k, p.filter fun u => f u == k)) =
        ks'.map fun k => (k, (p ++ l).filter fun u => f u == k) := by
  induction l generalizing p ks with
  | nil => exact ⟨ks, hnd, by simpa using hks, by simp [groupP]⟩
  | cons t ts ih =>
    have hF : f t ∉ ks → (p.filter fun u => f u == f t) = [] := by
      intro h
      rw [List.filter_eq_nil_iff]
      intro u hu hfu
      exact h ((hks (f t)).2 ⟨u, hu, by simpa using hfu⟩)
    have step := insertChunk_map (f t) t (fun k => p.filter fun u => f u == k) ks hnd hF
    have hmap : ((addKey (f t) ks).map fun k' => (k', if k' = f t then (p.filter fun u => f u == k') ++ [t]
          else p.filter fun u => f u == k')) =
        (addKey (f t) ks).map fun k' => (k', (p ++ [t]).filter fun u => f u == k') := by
      apply List.map_congr_left
      intro k' _
      by_cases e : k' = f t
      · subst e; simp
      · have : (f t == k') = false := by simp; exact fun h => e h.symm
        simp [e, this]
    have hks' : ∀ k, k ∈ addKey (f t) ks ↔ ∃ u, u ∈ p ++ [t] ∧ f u = k := by
      intro k
      rw [mem_addKey, hks k]
      constructor
      · rintro (rfl | ⟨u, hu, rfl⟩)
        · exact ⟨t, by simp, rfl⟩
        · exact ⟨u, by simp [hu], rfl⟩
      · rintro ⟨u, hu, rfl⟩
        rcases List.mem_append.1 hu with h | h
        · exact Or.inr ⟨u, h, rfl⟩
        · simp at h; subst h; exact Or.inl rfl
    obtain ⟨ks', h1, h2, h3⟩ := ih (p ++ [t]) (addKey (f t) ks) (nodup_addKey _ _ hnd) hks'
    refine ⟨ks', h1, ?_, ?_⟩
    · simpa using h2
    · simp only [groupP]
      rw [step, hmap, h3]
      simp

/-- the grouping loop from the empty dict: one chunk per chunk id, each chunk the tiles with that id, in order -/
theorem groupP_spec (f : Tile → Int) (l : List Tile) :
    ∃ ks : List Int, ks.Nodup ∧ (∀ k, k ∈ ks ↔ ∃ u, u ∈ l ∧ f u = k) ∧
      groupP f l [] = ks.map fun k => (k, l.filter fun u => f u == k) := by
  have := groupP_closed f l [] [] (by simp) (by simp)
  simpa using this

/-! ### chunk ids on valid configurations -/

/-- total chunk id (`-2` where the code raises) -/
def cidOf (pr : PerRow) (a : Area) (t : Tile) : Int :=
  match chunkIdW pr a t with
  | .ok k => k
  | .error _ => -2

theorem cidOf_eq {pr : PerRow} {a : Area} {t : Tile} {k : Int} (h : chunkIdW pr a t = .ok k) : cidOf pr a t = k := by
  simp [cidOf, h]

theorem within_patB {a : Area} {t : Tile} (hw : within a t.x t.y = true) : patB a t.x t.y = !a.inverted := by
  unfold within at hw
  cases hp : patB a t.x t.y <;> cases hi : a.inverted <;> simp [hp, hi] at hw ⊢

theorem chunkIdW_full (pr : PerRow) (a : Area) (hv : Valid a) (t : Tile) (hs : a.state = .full)
    (hw : within a t.x t.y = true) : chunkIdW pr a t = .ok 0 := by
  simp [chunkIdW, isWithin_ok a hv, hw, hs, bind, Except.bind, pure, Except.pure]

theorem chunkIdW_edge (pr : PerRow) (a : Area) (hv : Valid a) (t : Tile) (hs : a.state = .edge)
    (hw : within a t.x t.y = true) : chunkIdW pr a t = .ok 0 := by
  simp [chunkIdW, isWithin_ok a hv, hw, hs, bind, Except.bind, pure, Except.pure]

theorem chunkIdW_grid_inv (pr : PerRow) (a : Area) (hv : Valid a) (t : Tile) (hs : a.state = .grid)
    (hi : a.inverted = true) (hw : within a t.x t.y = true) : chunkIdW pr a t = .ok 0 := by
  simp [chunkIdW, isWithin_ok a hv, hw, hs, hi, bind, Except.bind, pure, Except.pure]

theorem chunkIdW_grid (pr : PerRow) (a : Area) (hv : Valid a) (t : Tile) (hs : a.state = .grid)
    (hi : a.inverted = false) (hw : within a t.x t.y = true) :
    chunkIdW pr a t = .ok (blockCol a t + blockRow a t * perRow pr a) := by
  have hv' := hv
  unfold Valid at hv'
  simp only [hs] at hv'
  have hx : 0 < a.blockX + a.gapX := hv'.1
  have hy : 0 < a.blockY + a.gapY := hv'.2
  simp [chunkIdW, isWithin_ok a hv, hw, hs, hi, bind, Except.bind, pure, Except.pure, pyCeilDiv_pos hx,
    pyDiv_pos hx, pyDiv_pos hy, blockCol, blockRow, perRow, Area.px, Area.py]

theorem chunkIdW_lines (pr : PerRow) (a : Area) (hv : Valid a) (t : Tile) (hs : a.state = .lines)
    (hw : within a t.x t.y = true) : chunkIdW pr a t = .ok (lineIdx a t) := by
  have hv' := hv
  unfold Valid at hv'
  simp only [hs] at hv'
  unfold Area.lp at hv'
  cases hax : a.axis <;> simp only [hax] at hv'
  · simp [chunkIdW, isWithin_ok a hv, hw, hs, hax, bind, Except.bind, pyDiv_pos hv', lineIdx, Area.lp]
  · simp [chunkIdW, isWithin_ok a hv, hw, hs, hax, bind, Except.bind, pyDiv_pos hv', lineIdx, Area.lp]
  · omega

theorem cornerId_sound (a : Area) (t : Tile) (k : Int) (h : cornerId a t = .ok k) : InCorner a k t := by
  unfold cornerId at h
  unfold InCorner
  split at h
  · cases h; left; omega
  · split at h
    · cases h; right; left; omega
    · split at h
      · cases h; right; right; left; omega
      · split at h
        · cases h; right; right; right; omega
        · cases h

theorem cornerId_total (a : Area) (t : Tile) (h : isCornerTile a t.x t.y = true) : ∃ k, cornerId a t = .ok k := by
  simp only [isCornerTile, Bool.and_eq_true, Bool.or_eq_true, decide_eq_true_eq] at h
  unfold cornerId
  split
  · exact ⟨0, rfl⟩
  · split
    · exact ⟨1, rfl⟩
    · split
      · exact ⟨2, rfl⟩
      · split
        · exact ⟨3, rfl⟩
        · omega

theorem cornerId_none (a : Area) (t : Tile) (h : isCornerTile a t.x t.y = false) : cornerId a t = .error .valueError := by
  have h' : ¬ (isCornerTile a t.x t.y = true) := by simp [h]
  simp only [isCornerTile, Bool.and_eq_true, Bool.or_eq_true, decide_eq_true_eq] at h'
  unfold cornerId
  split
  · omega
  · split
    · omega
    · split
      · omega
      · split
        · omega
        · rfl

theorem chunkIdW_corners_eq (pr : PerRow) (a : Area) (hv : Valid a) (t : Tile) (hs : a.state = .corners)
    (hw : within a t.x t.y = true) : chunkIdW pr a t = cornerId a t := by
  simp [chunkIdW, isWithin_ok a hv, hw, hs, bind, Except.bind]

theorem chunkIdW_corners (pr : PerRow) (a : Area) (hv : Valid a) (t : Tile) (hs : a.state = .corners)
    (hi : a.inverted = false) (hw : within a t.x t.y = true) :
    ∃ k, chunkIdW pr a t = .ok k ∧ InCorner a k t := by
  rw [chunkIdW_corners_eq pr a hv t hs hw]
  have hp := within_patB hw
  simp only [patB, hs, hi] at hp
  obtain ⟨k, hk⟩ := cornerId_total a t (by simpa using hp)
  exact ⟨k, hk, cornerId_sound a t k hk⟩

theorem chunkIdW_corners_inv (pr : PerRow) (a : Area) (hv : Valid a) (t : Tile) (hs : a.state = .corners)
    (hi : a.inverted = true) (hw : within a t.x t.y = true) : chunkIdW pr a t = .error .valueError := by
  rw [chunkIdW_corners_eq pr a hv t hs hw]
  have hp := within_patB hw
  simp only [patB, hs, hi] at hp
  exact cornerId_none a t (by simpa using hp)

/-- every configuration but inverted corners gives every selected tile a chunk id -/
theorem chunkIdW_total (pr : PerRow) (a : Area) (hv : Valid a) (hc : ¬ (a.state = .corners ∧ a.inverted = true))
    (t : Tile) (hw : within a t.x t.y = true) : ∃ k, chunkIdW pr a t = .ok k := by
  cases hs : a.state
  · exact ⟨_, chunkIdW_full pr a hv t hs hw⟩
  · exact ⟨_, chunkIdW_edge pr a hv t hs hw⟩
  · cases hi : a.inverted
    · exact ⟨_, chunkIdW_grid pr a hv t hs hi hw⟩
    · exact ⟨_, chunkIdW_grid_inv pr a hv t hs hi hw⟩
  · exact ⟨_, chunkIdW_lines pr a hv t hs hw⟩
  · cases hi : a.inverted
    · obtain ⟨k, hk, _⟩ := chunkIdW_corners pr a hv t hs hi hw
      exact ⟨k, hk⟩
    · exact absurd ⟨hs, hi⟩ hc

/-! ### the final `sorted(...)` of every chunk is the identity -/

theorem sortKey_sorted (key : Tile → Int) (l : List Tile) (h : l.Pairwise fun t u => key t ≤ key u) :
    sortKey key l = l := by
  induction l with
  | nil => rfl
  | cons t ts ih =>
    rw [List.pairwise_cons] at h
    simp only [sortKey, ih h.2]
    cases ts with
    | nil => rfl
    | cons u us => simp [insertKey, h.1 u List.mem_cons_self]

theorem tileKey_mono (a : Area) (t u : Tile) (ht : 0 ≤ t.x ∧ t.x < a.size) (hu : 0 ≤ u.x ∧ u.x < a.size)
    (h : RowLt t u) : tileKey a t ≤ tileKey a u := by
  unfold tileKey
  rcases h with h | ⟨h1, h2⟩
  · have h1 : (t.y + 1) * a.size ≤ u.y * a.size := Int.mul_le_mul_of_nonneg_right (by omega) (by omega)
    rw [Int.add_mul] at h1
    omega
  · rw [h1]; omega

theorem coords_inMap (a : Area) (hs : 0 < a.size) (t : Tile) (h : t ∈ coords a) : 0 ≤ t.x ∧ t.x < a.size := by
  have := ((mem_coords a t).1 h).1
  simp only [Area.x1, Area.x2, clamp] at this
  omega

theorem sortKey_chunk (a : Area) (hs : 0 < a.size) (q : Tile → Bool) :
    sortKey (tileKey a) ((coords a).filter q) = (coords a).filter q := by
  apply sortKey_sorted
  have hsub : ((coords a).filter q).Pairwise RowLt := List.Pairwise.filter _ (coords_sorted a)
  have hmem : ∀ t ∈ (coords a).filter q, 0 ≤ t.x ∧ t.x < a.size :=
    fun t ht => coords_inMap a hs t (List.mem_filter.1 ht).1
  generalize (coords a).filter q = l at hsub hmem
  induction l with
  | nil => exact List.Pairwise.nil
  | cons t ts ih =>
    rw [List.pairwise_cons] at hsub ⊢
    refine ⟨fun u hu => ?_, ih hsub.2 (fun v hv => hmem v (List.mem_cons_of_mem _ hv))⟩
    exact tileKey_mono a t u (hmem t List.mem_cons_self) (hmem u (List.mem_cons_of_mem _ hu)) (hsub.1 u hu)

/-! ### `to_chunks` in closed form -/

theorem toChunksW_full (pr : PerRow) (a : Area) (hv : Valid a) (hs : a.state = .full ∨ a.state = .edge) :
    toChunksW pr a = .ok [coords a] := by
  rcases hs with hs | hs <;> simp [toChunksW, toCoords_ok a hv, hs, bind, Except.bind, pure, Except.pure]

/-- chunkable states: one chunk per occurring chunk id (in first-occurrence order), each chunk = the selected tiles
with that id, in `to_coords` order -/
theorem toChunksW_group (pr : PerRow) (a : Area) (hv : Valid a) (hsz : 0 < a.size)
    (hs : a.state ≠ .full ∧ a.state ≠ .edge) (hc : ¬ (a.state = .corners ∧ a.inverted = true)) :
    ∃ ks : List Int, ks.Nodup ∧ (∀ k, k ∈ ks ↔ ∃ u, u ∈ coords a ∧ chunkIdW pr a u = .ok k) ∧
      toChunksW pr a = .ok (ks.map fun k => (coords a).filter fun u => cidOf pr a u == k) := by
  have hok : ∀ t ∈ coords a, chunkIdW pr a t = .ok (cidOf pr a t) := by
    intro t ht
    obtain ⟨k, hk⟩ := chunkIdW_total pr a hv hc t ((mem_coords a t).1 ht).2
    rw [hk, cidOf_eq hk]
  obtain ⟨ks, h1, h2, h3⟩ := groupP_spec (cidOf pr a) (coords a)
  refine ⟨ks, h1, ?_, ?_⟩
  · intro k
    rw [h2 k]
    constructor
    · rintro ⟨u, hu, rfl⟩; exact ⟨u, hu, hok u hu⟩
    · rintro ⟨u, hu, hk⟩; exact ⟨u, hu, cidOf_eq hk⟩
  · have hg := groupE_ok (chunkIdW pr a) (cidOf pr a) (coords a) [] hok
    have hmap : (List.map (fun kc : Int × List Tile => sortKey (tileKey a) kc.2)
        (ks.map fun k => (k, (coords a).filter fun u => cidOf pr a u == k))) =
        ks.map fun k => (coords a).filter fun u => cidOf pr a u == k := by
      rw [List.map_map]
      apply List.map_congr_left
      intro k _
      exact sortKey_chunk a hsz _
    cases hst : a.state
    · exact absurd hst hs.1
    · exact absurd hst hs.2
    all_goals simp [toChunksW, toCoords_ok a hv, hst, hg, h3, hmap, bind, Except.bind, pure, Except.pure]

/-- inverted corners: the documented `ValueError`, unless there is nothing to chunk -/
theorem toChunksW_corners_inv (pr : PerRow) (a : Area) (hv : Valid a) (hs : a.state = .corners)
    (hi : a.inverted = true) :
    (coords a ≠ [] → toChunksW pr a = .error .valueError) ∧ (coords a = [] → toChunksW pr a = .ok []) := by
  constructor
  · intro hne
    have := groupE_error (chunkIdW pr a) .valueError (coords a) [] hne
      (fun t ht => chunkIdW_corners_inv pr a hv t hs hi ((mem_coords a t).1 ht).2)
    simp [toChunksW, toCoords_ok a hv, hs, this, bind, Except.bind]
  · intro he
    simp [toChunksW, toCoords_ok a hv, hs, he, groupE, bind, Except.bind, pure, Except.pure]

/-! ### consequences of the closed form: partition facts -/

theorem filters_flatten_perm (f : Tile → Int) (ks : List Int) (hnd : ks.Nodup) (l : List Tile)
    (hk : ∀ u, u ∈ l → f u ∈ ks) :
    (ks.map fun k => l.filter fun u => f u == k).flatten.Perm l := by
  induction ks generalizing l with
  | nil =>
    cases l with
    | nil => exact List.Perm.refl _
    | cons u us => exact absurd (hk u List.mem_cons_self) (by simp)
  | cons k ks ih =>
    have hnd' := (List.nodup_cons.1 hnd)
    simp only [List.map_cons, List.flatten_cons]
    have hrest : (ks.map fun k' => l.filter fun u => f u == k') =
        ks.map fun k' => (l.filter fun u => !(f u == k)).filter fun u => f u == k' := by
      apply List.map_congr_left
      intro k' hk'
      rw [List.filter_filter]
      apply List.filter_congr
      intro u _
      by_cases e : f u = k'
      · have : f u ≠ k := fun e' => hnd'.1 (e' ▸ e ▸ hk')
        simp [e]
        intro e2; exact this (e ▸ e2)
      · simp [e]
    rw [hrest]
    have ih' := ih hnd'.2 (l.filter fun u => !(f u == k)) (by
      intro u hu
      have hu' := List.mem_filter.1 hu
      have := hk u hu'.1
      rcases List.mem_cons.1 this with e | e
      · simp [e] at hu'
      · exact e)
    exact (List.Perm.append_left _ ih').trans (List.filter_append_perm _ l)

theorem filterE_sublist {α : Type} (p : α → Except Err Bool) (l r : List α) (h : filterE p l = .ok r) :
    r.Sublist l := by
  induction l generalizing r with
  | nil => simp [filterE, pure, Except.pure] at h; subst h; exact List.Sublist.refl _
  | cons t ts ih =>
    simp only [filterE, bind, Except.bind, pure, Except.pure] at h
    cases hb : p t with
    | error e => simp [hb] at h
    | ok b =>
      cases hr : filterE p ts with
      | error e => simp [hb, hr] at h
      | ok r' =>
        simp only [hb, hr, Except.ok.injEq] at h
        subst h
        have := ih r' hr
        cases b
        · exact List.Sublist.cons _ this
        · exact List.Sublist.cons_cons _ this

/-- a list of chunks whose concatenation is a permutation of a duplicate-free list is a partition of it -/
theorem partition_of_perm (cs : List (List Tile)) (l : List Tile) (hp : cs.flatten.Perm l) (hn : l.Nodup) :
    cs.Pairwise (fun c d => ∀ t, t ∈ c → t ∉ d) ∧
    ∀ t, t ∈ l → ∃ i, ∃ h : i < cs.length, t ∈ cs[i] ∧ ∀ j, ∀ hj : j < cs.length, t ∈ cs[j] → j = i := by
  have hnf : cs.flatten.Nodup := hp.nodup_iff.2 hn
  rw [List.nodup_iff_pairwise_ne, List.pairwise_flatten] at hnf
  have hdis : cs.Pairwise (fun c d => ∀ t, t ∈ c → t ∉ d) :=
    List.Pairwise.imp (fun {c d} h t ht hd => h t ht t hd rfl) hnf.2
  refine ⟨hdis, ?_⟩
  intro t ht
  have hm : t ∈ cs.flatten := hp.mem_iff.2 ht
  obtain ⟨c, hc, htc⟩ := List.mem_flatten.1 hm
  obtain ⟨i, hi, rfl⟩ := List.getElem_of_mem hc
  refine ⟨i, hi, htc, ?_⟩
  intro j hj htj
  rw [List.pairwise_iff_getElem] at hdis
  rcases Nat.lt_trichotomy j i with h | h | h
  · exact absurd htc (hdis j i hj hi h t htj)
  · exact h
  · exact absurd htj (hdis i j hi hj h t htc)

end Aoe.Area
