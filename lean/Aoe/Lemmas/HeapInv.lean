import Aoe.Lemmas.HeapBasic
/-!
World invariants of the heap model (C09) and their preservation by the primitive transformations
(extension by fresh cells, payload writes, stamping + adoption).
-/
namespace Aoe.Heap

/-- every trigger a scenario holds is allocated -/
def SWF (w : World) : Prop := ∀ (u : Uid), ∀ a ∈ w.trigsOf u, a < w.heap.trigs.length

/-- ownership: every trigger held by `u` and every component of it carries the stamp `u` -/
def Owned (w : World) : Prop :=
  ∀ (u : Uid), ∀ a ∈ w.trigsOf u, ∀ (t : Trig), w.heap.trigs[a]? = some t →
    t.uuid = u ∧ ∀ c ∈ t.comps, ∀ (co : Comp), w.heap.comps[c]? = some co → co.uuid = u

/-- the nested lists of the triggers held by `u` carry the stamp `u` -/
def ListsOwned (w : World) : Prop :=
  ∀ (u : Uid), ∀ a ∈ w.trigsOf u, ∀ (t : Trig), w.heap.trigs[a]? = some t → t.compsU = u

structure Inv0 (w : World) : Prop where
  hwf : HWF w.heap
  sep : Sep w.heap
  swf : SWF w
  owned : Owned w
  anon : w.trigsOf noUuid = []
  live0 : w.live noUuid = false

/-- the invariant of a configuration: `Inv0`, plus owned nested lists once the F17 repair is in -/
def Inv (cfg : Cfg) (w : World) : Prop := Inv0 w ∧ (cfg.fixNested = true → ListsOwned w)

/-- two scenarios never hold the same trigger object -/
theorem Inv0.trigs_disjoint {w : World} (i : Inv0 w) {u v : Uid} (ne : u ≠ v) {a : Addr}
    (hu : a ∈ w.trigsOf u) : a ∉ w.trigsOf v := by
  intro hv
  have ha := i.swf u a hu
  have h1 := (i.owned u a hu _ (List.getElem?_eq_getElem ha)).1
  have h2 := (i.owned v a hv _ (List.getElem?_eq_getElem ha)).1
  exact ne (h1.symm.trans h2)

/-- nor components: a component of a trigger of `u` is not a component of a trigger of `v` -/
theorem Inv0.comps_disjoint {w : World} (i : Inv0 w) {u v : Uid} (ne : u ≠ v) {a b : Addr}
    (hu : a ∈ w.trigsOf u) (hv : b ∈ w.trigsOf v) {c : Addr} (hc : c ∈ compsOf w.heap a) : c ∉ compsOf w.heap b := by
  have ha := i.swf u a hu
  have hb := i.swf v b hv
  have hab : a ≠ b := fun e => i.trigs_disjoint ne hu (e ▸ hv)
  unfold compsOf at hc ⊢
  rw [List.getElem?_eq_getElem ha] at hc
  rw [List.getElem?_eq_getElem hb]
  exact i.sep a b _ _ hab (List.getElem?_eq_getElem ha) (List.getElem?_eq_getElem hb) c hc

/-! ## extension by fresh cells (deep copies that nobody holds yet) -/

theorem Inv0.ext {w : World} (i : Inv0 w) {h' : Heap} (e : Ext w.heap h') (hw : HWF h') (hs : Sep h') :
    Inv0 { w with heap := h' } := by
  refine ⟨hw, hs, fun u a ha => Nat.lt_of_lt_of_le (i.swf u a ha) e.tlen, ?_, i.anon, i.live0⟩
  intro u a ha t ht
  have hlt := i.swf u a ha
  have ht0 : w.heap.trigs[a]? = some t := by rw [← e.trigs_lt hlt]; exact ht
  obtain ⟨h1, h2⟩ := i.owned u a ha t ht0
  refine ⟨h1, fun c hc co hco => ?_⟩
  have hclt := i.hwf a t ht0 c hc
  exact h2 c hc co (by rw [← e.comps_lt hclt]; exact hco)

theorem ListsOwned.ext {w : World} (i : Inv0 w) (l : ListsOwned w) {h' : Heap} (e : Ext w.heap h') :
    ListsOwned { w with heap := h' } := by
  intro u a ha t ht
  have hlt := i.swf u a ha
  exact l u a ha t (by rw [← e.trigs_lt hlt]; exact ht)

/-! ## payload writes and shrinking lists -/

theorem Inv0.skel {w : World} (i : Inv0 w) {h' : Heap} (s : Skel w.heap h') (u : Uid) (l' : List Addr)
    (sub : ∀ a ∈ l', a ∈ w.trigsOf u) : Inv0 { w with heap := h', trigsOf := setFn w.trigsOf u l' } := by
  have mem : ∀ v a, a ∈ setFn w.trigsOf u l' v → a ∈ w.trigsOf v := by
    intro v a ha
    by_cases hv : v = u
    · subst hv; rw [setFn_same] at ha; exact sub a ha
    · rw [setFn_other _ _ _ _ hv] at ha; exact ha
  refine ⟨s.shape.hwf i.hwf, s.shape.sep i.sep, ?_, ?_, ?_, i.live0⟩
  · intro v a ha
    show a < h'.trigs.length
    rw [s.shape.tlen]; exact i.swf v a (mem v a ha)
  · intro v a ha t' ht'
    obtain ⟨t, ht, e1, e2, _⟩ := s.trig_of ht'
    obtain ⟨h1, h2⟩ := i.owned v a (mem v a ha) t ht
    refine ⟨e2 ▸ h1, fun c hc co' hco' => ?_⟩
    obtain ⟨co, hco, e⟩ := s.comp_of hco'
    exact e ▸ h2 c (e1 ▸ hc) co hco
  · show setFn w.trigsOf u l' noUuid = []
    apply List.eq_nil_iff_forall_not_mem.mpr
    intro a ha
    have := mem noUuid a ha
    rw [i.anon] at this
    simp at this

theorem ListsOwned.skel {w : World} (l : ListsOwned w) {h' : Heap} (s : Skel w.heap h') (u : Uid) (l' : List Addr)
    (sub : ∀ a ∈ l', a ∈ w.trigsOf u) : ListsOwned { w with heap := h', trigsOf := setFn w.trigsOf u l' } := by
  intro v a ha t' ht'
  have hm : a ∈ w.trigsOf v := by
    by_cases hv : v = u
    · subst hv; simp only [setFn_same] at ha; exact sub a ha
    · simp only [setFn_other _ _ _ _ hv] at ha; exact ha
  obtain ⟨t, ht, _, _, e3⟩ := s.trig_of ht'
  exact e3 ▸ l v a hm t ht

/-! ## stamping -/

theorem stampTrigs_shape (cfg : Cfg) (u : Uid) (refs : List Addr) (h : Heap) : Shape h (stampTrigs cfg u refs h) := by
  refine ⟨by simp [stampTrigs, length_mapAt], by simp [stampTrigs, length_mapAt], fun a => ?_⟩
  simp only [stampTrigs, getElem?_mapAt]
  cases h.trigs[a]? with
  | none => rfl
  | some t => simp only [Option.map_some]; split <;> simp [stampT]

theorem stampTrigs_trig (cfg : Cfg) (u : Uid) (refs : List Addr) (h : Heap) (a : Addr) :
    (stampTrigs cfg u refs h).trigs[a]? = (h.trigs[a]?).map (fun t => if a ∈ refs then stampT cfg u t else t) := by
  simp only [stampTrigs, getElem?_mapAt, Nat.zero_add, List.contains_iff_mem]

theorem stampTrigs_comp (cfg : Cfg) (u : Uid) (refs : List Addr) (h : Heap) (c : Addr) :
    (stampTrigs cfg u refs h).comps[c]? =
      (h.comps[c]?).map (fun co => if c ∈ refs.flatMap (compsOf h) then stampC u co else co) := by
  simp only [stampTrigs, getElem?_mapAt, Nat.zero_add, List.contains_iff_mem]

theorem mem_compsOf {h : Heap} {a : Addr} {t : Trig} (ht : h.trigs[a]? = some t) {c : Addr} :
    c ∈ compsOf h a ↔ c ∈ t.comps := by
  simp [compsOf, ht]

/-- **stamp + adopt**: the triggers `S` (allocated, held by no other scenario) are stamped with `u`, and `u`'s list
becomes any list made of members of `S` and old members -/
theorem Inv0.stamp {w : World} (i : Inv0 w) (cfg : Cfg) (u : Uid) (hu : u ≠ noUuid) (S l' : List Addr)
    (valid : ∀ a ∈ S, a < w.heap.trigs.length)
    (free : ∀ a ∈ S, ∀ v, v ≠ u → a ∉ w.trigsOf v)
    (from_ : ∀ a ∈ l', a ∈ S ∨ a ∈ w.trigsOf u) :
    Inv0 { w with heap := stampTrigs cfg u S w.heap, trigsOf := setFn w.trigsOf u l' } := by
  have sh := stampTrigs_shape cfg u S w.heap
  refine ⟨sh.hwf i.hwf, sh.sep i.sep, ?_, ?_, ?_, i.live0⟩
  · intro v a ha
    show a < (stampTrigs cfg u S w.heap).trigs.length
    change a ∈ setFn w.trigsOf u l' v at ha
    rw [sh.tlen]
    by_cases hv : v = u
    · subst hv; rw [setFn_same] at ha
      rcases from_ a ha with h1 | h1
      · exact valid a h1
      · exact i.swf _ a h1
    · rw [setFn_other _ _ _ _ hv] at ha; exact i.swf v a ha
  · intro v a ha t' ht'
    change (stampTrigs cfg u S w.heap).trigs[a]? = some t' at ht'
    change a ∈ setFn w.trigsOf u l' v at ha
    rw [stampTrigs_trig] at ht'
    cases ht : w.heap.trigs[a]? with
    | none => simp [ht] at ht'
    | some t =>
      simp only [ht, Option.map_some, Option.some.injEq] at ht'
      by_cases hv : v = u
      · -- the receiver
        subst hv
        rw [setFn_same] at ha
        by_cases hS : a ∈ S
        · simp only [hS, if_true] at ht'
          subst ht'
          refine ⟨rfl, fun c hc co' hco' => ?_⟩
          change (stampTrigs cfg v S w.heap).comps[c]? = some co' at hco'
          rw [stampTrigs_comp] at hco'
          have hmem : c ∈ S.flatMap (compsOf w.heap) :=
            List.mem_flatMap.mpr ⟨a, hS, (mem_compsOf ht).mpr hc⟩
          cases hco : w.heap.comps[c]? with
          | none => simp [hco] at hco'
          | some co => simp [hco, hmem] at hco'; subst hco'; rfl
        · simp only [hS, if_false] at ht'
          subst ht'
          have hold : a ∈ w.trigsOf v := by
            rcases from_ a ha with h1 | h1
            · exact absurd h1 hS
            · exact h1
          obtain ⟨h1, h2⟩ := i.owned v a hold t ht
          refine ⟨h1, fun c hc co' hco' => ?_⟩
          change (stampTrigs cfg v S w.heap).comps[c]? = some co' at hco'
          rw [stampTrigs_comp] at hco'
          cases hco : w.heap.comps[c]? with
          | none => simp [hco] at hco'
          | some co =>
            simp only [hco, Option.map_some, Option.some.injEq] at hco'
            by_cases hm : c ∈ S.flatMap (compsOf w.heap)
            · simp [hm] at hco'; subst hco'; rfl
            · simp [hm] at hco'; subst hco'; exact h2 c hc co hco
      · -- another scenario: nothing of it is touched
        rw [setFn_other _ _ _ _ hv] at ha
        have hS : a ∉ S := fun hS => free a hS v hv ha
        simp only [hS, if_false] at ht'
        subst ht'
        obtain ⟨h1, h2⟩ := i.owned v a ha t ht
        refine ⟨h1, fun c hc co' hco' => ?_⟩
        change (stampTrigs cfg u S w.heap).comps[c]? = some co' at hco'
        rw [stampTrigs_comp] at hco'
        have hm : c ∉ S.flatMap (compsOf w.heap) := by
          intro hm
          obtain ⟨b, hb, hcb⟩ := List.mem_flatMap.mp hm
          have hbl := valid b hb
          have hne : a ≠ b := fun e => hS (e ▸ hb)
          have := i.sep a b t _ hne ht (List.getElem?_eq_getElem hbl) c hc
          exact this ((mem_compsOf (List.getElem?_eq_getElem hbl)).mp hcb)
        cases hco : w.heap.comps[c]? with
        | none => simp [hco] at hco'
        | some co => simp [hco, hm] at hco'; subst hco'; exact h2 c hc co hco
  · show setFn w.trigsOf u l' noUuid = []
    rw [setFn_other _ _ _ _ (Ne.symm hu)]; exact i.anon

theorem ListsOwned.stamp {w : World} (lo : ListsOwned w) (cfg : Cfg) (hn : cfg.fixNested = true) (u : Uid)
    (S l' : List Addr) (free : ∀ a ∈ S, ∀ v, v ≠ u → a ∉ w.trigsOf v)
    (from_ : ∀ a ∈ l', a ∈ S ∨ a ∈ w.trigsOf u) :
    ListsOwned { w with heap := stampTrigs cfg u S w.heap, trigsOf := setFn w.trigsOf u l' } := by
  intro v a ha t' ht'
  change (stampTrigs cfg u S w.heap).trigs[a]? = some t' at ht'
  change a ∈ setFn w.trigsOf u l' v at ha
  rw [stampTrigs_trig] at ht'
  cases ht : w.heap.trigs[a]? with
  | none => simp [ht] at ht'
  | some t =>
    simp only [ht, Option.map_some, Option.some.injEq] at ht'
    by_cases hS : a ∈ S
    · simp only [hS, if_true] at ht'
      subst ht'
      by_cases hv : v = u
      · subst hv; simp [stampT, hn]
      · rw [setFn_other _ _ _ _ hv] at ha
        exact absurd ha (free a hS v hv)
    · simp only [hS, if_false] at ht'
      subst ht'
      by_cases hv : v = u
      · subst hv
        rw [setFn_same] at ha
        rcases from_ a ha with h1 | h1
        · exact absurd h1 hS
        · exact lo v a h1 t ht
      · rw [setFn_other _ _ _ _ hv] at ha; exact lo v a ha t ht

end Aoe.Heap
