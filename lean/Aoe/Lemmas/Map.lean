import Aoe.Model.Map
/-!
Helper lemmas for the map model (C11): square roots, row-major indexing of concatenated rows, the rows built by
the `map_size` setter, well-formedness.
-/
namespace Aoe.Map

/-! ### integer square root -/

theorem sqrt_sq (n : Nat) : Nat.sqrt (n * n) = n := by
  have h1 := Nat.sqrt_le (n * n)
  have h2 := Nat.lt_succ_sqrt (n * n)
  have a : Nat.sqrt (n * n) ≤ n := Nat.mul_self_le_mul_self_iff.mp h1
  have b : n < Nat.succ (Nat.sqrt (n * n)) := Nat.mul_self_lt_mul_self_iff.mp h2
  omega

theorem isSquare_sq (n : Nat) : isSquare (n * n) = true := by
  simp [isSquare, sqrt_sq]

theorem isSquare_iff (n : Nat) : isSquare n = true ↔ Nat.sqrt n * Nat.sqrt n = n := by
  simp [isSquare]

/-! ### `resetIndices` -/

@[simp] theorem length_resetIndices (l : List Tile) : (resetIndices l).length = l.length := by
  simp [resetIndices]

theorem getElem?_resetIndices (l : List Tile) (k : Nat) :
    (resetIndices l)[k]? = (l[k]?).map (fun t => { t with index := (k : Int) }) := by
  simp [resetIndices]

/-! ### row-major indexing of a concatenation of equally long rows -/

theorem getElem?_flatten_uniform {α : Type} (w : Nat) :
    ∀ (rows : List (List α)), (∀ r ∈ rows, r.length = w) → ∀ (x y : Nat), x < w →
      rows.flatten[x + y * w]? = (rows[y]?).bind (fun r => r[x]?)
  | [], _, x, y, _ => by simp
  | r :: rs, h, x, 0, hx => by
      have hr : r.length = w := h r (by simp)
      simp [List.getElem?_append_left, hr, hx]
  | r :: rs, h, x, y + 1, hx => by
      have hr : r.length = w := h r (by simp)
      have ih := getElem?_flatten_uniform w rs (fun r' hr' => h r' (by simp [hr'])) x y hx
      have e : x + (y + 1) * w = r.length + (x + y * w) := by rw [hr, Nat.succ_mul]; omega
      simp only [List.flatten_cons, List.getElem?_cons_succ]
      rw [e, List.getElem?_append_right (by omega)]
      simpa using ih

theorem length_flatten_uniform {α : Type} (w : Nat) :
    ∀ (rows : List (List α)), (∀ r ∈ rows, r.length = w) → rows.flatten.length = rows.length * w
  | [], _ => by simp
  | r :: rs, h => by
      have hr : r.length = w := h r (by simp)
      have ih := length_flatten_uniform w rs (fun r' hr' => h r' (by simp [hr']))
      simp [ih, hr, Nat.succ_mul]; omega

/-! ### chunks and the rows of the `map_size` setter -/

theorem numChunks_sq (a : Nat) (ha : 0 < a) : numChunks a (a * a) = a := by
  unfold numChunks
  apply Nat.div_eq_of_lt_le
  · omega
  · rw [Nat.succ_mul]; omega

theorem getElem?_chunk {α : Type} (n : Nat) (l : List α) (k x : Nat) :
    (chunk n l k)[x]? = if x < n then l[k * n + x]? else none := by
  simp [chunk, List.getElem?_take, List.getElem?_drop]

theorem length_chunk {α : Type} (n : Nat) (l : List α) (k : Nat) (h : (k + 1) * n ≤ l.length) :
    (chunk n l k).length = n := by
  simp only [chunk, List.length_take, List.length_drop]
  rw [Nat.succ_mul] at h
  omega

theorem shrinkRows_spec (a b : Nat) (ts : List Tile) (hlen : ts.length = a * a) (hb : b < a) :
    (shrinkRows a b ts).length = b ∧ (∀ r ∈ shrinkRows a b ts, r.length = b) ∧
    ∀ x y, x < b → y < b → ((shrinkRows a b ts)[y]?).bind (fun r => r[x]?) = ts[x + y * a]? := by
  have ha : 0 < a := by omega
  have hn : min b (numChunks a ts.length) = b := by rw [hlen, numChunks_sq a ha]; omega
  refine ⟨by simp [shrinkRows, hn], ?_, ?_⟩
  · intro r hr
    simp only [shrinkRows, hn, List.mem_map, List.mem_range] at hr
    obtain ⟨k, hk, rfl⟩ := hr
    have : (k + 1) * a ≤ ts.length := by
      rw [hlen]; exact Nat.mul_le_mul_right a (by omega)
    rw [List.length_take, length_chunk a ts k this]; omega
  · intro x y hx hy
    have hxa : x < a := by omega
    simp [shrinkRows, hn, List.getElem?_range hy, hx, getElem?_chunk, hxa, Nat.add_comm]

theorem growRows_spec (a b : Nat) (ts : List Tile) (hlen : ts.length = a * a) (hb : a < b) :
    ∃ rows, growRows a b ts = .ok rows ∧ rows.length = b ∧ (∀ r ∈ rows, r.length = b) ∧
      ∀ x y, x < b → y < b →
        (rows[y]?).bind (fun r => r[x]?) = if x < a ∧ y < a then ts[x + y * a]? else some Tile.fresh := by
  have hnc : ¬ numChunks a ts.length < a := by
    rcases Nat.eq_zero_or_pos a with h | h
    · omega
    · rw [hlen, numChunks_sq a h]; omega
  refine ⟨(List.range b).map (fun idx =>
    if idx < a then chunk a ts idx ++ List.replicate (b - a) Tile.fresh
    else List.replicate b Tile.fresh), by simp only [growRows, if_neg hnc], by simp, ?_, ?_⟩
  · intro r hr
    simp only [List.mem_map, List.mem_range] at hr
    obtain ⟨k, hk, rfl⟩ := hr
    split
    · next hka =>
      have : (k + 1) * a ≤ ts.length := by rw [hlen]; exact Nat.mul_le_mul_right a (by omega)
      rw [List.length_append, length_chunk a ts k this, List.length_replicate]; omega
    · simp
  · intro x y hx hy
    simp only [List.getElem?_map, List.getElem?_range hy, Option.map_some, Option.bind_some]
    by_cases hya : y < a
    · have : (y + 1) * a ≤ ts.length := by rw [hlen]; exact Nat.mul_le_mul_right a (by omega)
      have hl := length_chunk a ts y this
      simp only [if_pos hya, List.getElem?_append, hl]
      by_cases hxa : x < a
      · simp [hxa, hya, getElem?_chunk, Nat.add_comm]
      · have : x - a < b - a := by omega
        simp [hxa, this]
    · simp [hya, hx]

/-! ### well-formedness and the two setters -/

/-- the geometric invariant of C11: `size²` tiles, each stamped with its own position -/
def WF (m : Map) : Prop :=
  m.tiles.length = m.size * m.size ∧ ∀ (k : Nat) (t : Tile), m.tiles[k]? = some t → t.index = (k : Int)

/-- re-stamp one tile -/
def Tile.withIndex (t : Tile) (k : Nat) : Tile := { t with index := (k : Int) }

theorem Tile.withIndex_self (t : Tile) (k : Nat) (h : t.index = (k : Int)) : t.withIndex k = t := by
  cases t; simp_all [Tile.withIndex]

theorem Tile.content_withIndex (t : Tile) (k : Nat) : (t.withIndex k).content = t.content := rfl

theorem setTerrain_sq (m : Map) (ts : List Tile) (n : Nat) (h : ts.length = n * n) :
    setTerrain m ts = .ok { size := n, tiles := resetIndices ts } := by
  simp [setTerrain, h, isSquare_sq, sqrt_sq]

theorem setTerrain_not_sq (m : Map) (ts : List Tile) (h : isSquare ts.length = false) :
    setTerrain m ts = .error .value := by
  simp [setTerrain, h]

theorem wf_resetIndices (n : Nat) (ts : List Tile) (h : ts.length = n * n) :
    WF { size := n, tiles := resetIndices ts } := by
  refine ⟨by simp [h], ?_⟩
  intro k t hk
  rw [getElem?_resetIndices] at hk
  cases h' : ts[k]? with
  | none => simp [h'] at hk
  | some u => simp [h'] at hk
              subst hk; rfl

theorem setTerrain_ok (m m' : Map) (ts : List Tile) (h : setTerrain m ts = .ok m') :
    WF m' ∧ m'.tiles = resetIndices ts ∧ m'.size * m'.size = ts.length := by
  unfold setTerrain at h
  split at h
  · next hs =>
    have e := (isSquare_iff _).mp hs
    injection h with h; subst h
    exact ⟨wf_resetIndices _ ts e.symm, rfl, e⟩
  · cases h

/-- what `map_size = b` does to a well-formed map of size `a`: it succeeds, the result is a well-formed map of size
`b`, and the tile at `(x, y)` is the old tile at `(x, y)` (re-stamped) when that exists, a fresh tile otherwise -/
theorem setSize_spec (m : Map) (b : Nat) (hwf : WF m) :
    ∃ m', setSize m b = .ok m' ∧ m'.size = b ∧ WF m' ∧
      ∀ x y, x < b → y < b →
        m'.tiles[x + y * b]? =
          if x < m.size ∧ y < m.size then (m.tiles[x + y * m.size]?).map (fun t => t.withIndex (x + y * b))
          else some (Tile.fresh.withIndex (x + y * b)) := by
  obtain ⟨hlen, hidx⟩ := hwf
  unfold setSize
  by_cases hab : b = m.size
  · subst hab
    refine ⟨m, by simp, rfl, ⟨hlen, hidx⟩, ?_⟩
    intro x y hx hy
    simp only [hx, hy, and_self, if_true]
    cases h : m.tiles[x + y * m.size]? with
    | none => rfl
    | some t => simp [Tile.withIndex_self t _ (hidx _ _ h)]
  · simp only [hab, if_false]
    by_cases hlt : b < m.size
    · simp only [hlt, if_true]
      obtain ⟨h1, h2, h3⟩ := shrinkRows_spec m.size b m.tiles hlen hlt
      have hl : (shrinkRows m.size b m.tiles).flatten.length = b * b := by
        rw [length_flatten_uniform b _ h2, h1]
      refine ⟨_, setTerrain_sq m _ b hl, rfl, wf_resetIndices b _ hl, ?_⟩
      intro x y hx hy
      have hxa : x < m.size := by omega
      have hya : y < m.size := by omega
      simp only [getElem?_resetIndices, getElem?_flatten_uniform b _ h2 x y hx, h3 x y hx hy, hxa, hya,
        and_self, if_true]
      rfl
    · simp only [hlt, if_false]
      have hgt : m.size < b := by omega
      obtain ⟨rows, h0, h1, h2, h3⟩ := growRows_spec m.size b m.tiles hlen hgt
      have hl : rows.flatten.length = b * b := by rw [length_flatten_uniform b _ h2, h1]
      refine ⟨{ size := b, tiles := resetIndices rows.flatten }, ?_, rfl, wf_resetIndices b _ hl, ?_⟩
      · rw [h0]; exact setTerrain_sq m _ b hl
      · intro x y hx hy
        simp only [getElem?_resetIndices, getElem?_flatten_uniform b _ h2 x y hx, h3 x y hx hy]
        split <;> rfl

/-! ### coordinates -/

theorem xyToI_nat (x y s : Nat) (hx : x < s) (hy : y < s) : xyToI (x : Int) (y : Int) s = .ok (x + y * s) := by
  unfold xyToI
  have h : ¬ (max (x : Int) (y : Int) ≥ (s : Int) ∨ min (x : Int) (y : Int) < 0) := by omega
  rw [if_neg h]
  congr 1

theorem xyToI_inv (x y : Int) (s k : Nat) (h : xyToI x y s = .ok k) :
    0 ≤ x ∧ x < s ∧ 0 ≤ y ∧ y < s ∧ (k : Int) = x + y * s := by
  unfold xyToI at h
  split at h
  · cases h
  · next hg =>
    injection h with h
    have hx : 0 ≤ x ∧ x < s ∧ 0 ≤ y ∧ y < s := by omega
    refine ⟨hx.1, hx.2.1, hx.2.2.1, hx.2.2.2, ?_⟩
    rw [← h, Int.toNat_of_nonneg]
    have := Int.mul_nonneg hx.2.2.1 (Int.natCast_nonneg s)
    omega

theorem xyToI_oob (x y : Int) (s : Nat) (h : x < 0 ∨ y < 0 ∨ x ≥ s ∨ y ≥ s) : xyToI x y s = .error .value := by
  unfold xyToI
  have : max x y ≥ (s : Int) ∨ min x y < 0 := by omega
  rw [if_pos this]

theorem xy_lt_of_lt_sq (i s : Nat) (h : i < s * s) : i % s < s ∧ i / s < s := by
  have hs : 0 < s := by
    rcases Nat.eq_zero_or_pos s with h0 | h0
    · subst h0; simp at h
    · exact h0
  exact ⟨Nat.mod_lt _ hs, Nat.div_lt_of_lt_mul h⟩

theorem pos_lt_sq (x y s : Nat) (hx : x < s) (hy : y < s) : x + y * s < s * s := by
  have : (y + 1) * s ≤ s * s := Nat.mul_le_mul_right s (by omega)
  rw [Nat.succ_mul] at this
  omega

theorem iToXY_nat (i s : Nat) (h : i < s * s) :
    iToXY (i : Int) s = .ok (((i % s : Nat) : Int), ((i / s : Nat) : Int)) := by
  unfold iToXY
  have h' : ¬ ((i : Int) < 0 ∨ (i : Int) ≥ (s : Int) * (s : Int)) := by
    rw [← Int.natCast_mul]; omega
  rw [if_neg h']
  simp

/-- `tile.xy` of the tile stored at position `i` of a well-formed map -/
theorem tileXY_wf (m : Map) (hwf : WF m) (i : Nat) (t : Tile) (h : m.tiles[i]? = some t) :
    tileXY m t = .ok (((i % m.size : Nat) : Int), ((i / m.size : Nat) : Int)) := by
  have hi : i < m.tiles.length := (List.getElem?_eq_some_iff.mp h).1
  rw [hwf.1] at hi
  rw [tileXY, hwf.2 i t h]
  exact iToXY_nat i m.size hi

/-! ### `Except` plumbing -/

theorem mapM_ok {α β : Type} (f : α → Except Err β) (g : α → β) :
    ∀ l : List α, (∀ a ∈ l, f a = .ok (g a)) → l.mapM f = .ok (l.map g)
  | [], _ => rfl
  | a :: l, h => by
      have h1 := h a (by simp)
      have h2 := mapM_ok f g l (fun b hb => h b (by simp [hb]))
      simp [List.mapM_cons, h1, h2, bind, Except.bind, pure, Except.pure]

theorem mapM_ok_mem {α β : Type} (f : α → Except Err β) :
    ∀ (l : List α) (bs : List β), l.mapM f = .ok bs → ∀ a ∈ l, ∃ b ∈ bs, f a = .ok b
  | [], _, _, a, ha => by simp at ha
  | a :: l, bs, h, a', ha' => by
      simp only [List.mapM_cons, bind, Except.bind, pure, Except.pure] at h
      cases h1 : f a with
      | error e => simp [h1] at h
      | ok b =>
        cases h2 : l.mapM f with
        | error e => simp [h1, h2] at h
        | ok bs' =>
          simp [h1, h2] at h
          subst h
          rcases List.mem_cons.mp ha' with rfl | hm
          · exact ⟨b, by simp, h1⟩
          · obtain ⟨b', hb', e⟩ := mapM_ok_mem f l bs' h2 a' hm
            exact ⟨b', by simp [hb'], e⟩

/-! ### `get_tile` -/

theorem getPos_xy (f : Bool) (m : Map) (hwf : WF m) (x y : Nat) (hx : x < m.size) (hy : y < m.size) :
    getPos f m (some (x : Int)) (some (y : Int)) none = .ok (x + y * m.size) := by
  have hl : x + y * m.size < m.tiles.length := by rw [hwf.1]; exact pos_lt_sq x y m.size hx hy
  simp [getPos, truthy, xyToI_nat x y m.size hx hy, bind, Except.bind, hl]

theorem getPos_xy_oob (f : Bool) (m : Map) (x y : Int) (h : x < 0 ∨ y < 0 ∨ x ≥ m.size ∨ y ≥ m.size) :
    getPos f m (some x) (some y) none = .error .value := by
  simp [getPos, truthy, xyToI_oob x y m.size h, bind, Except.bind]

theorem getPos_i (f : Bool) (m : Map) (hwf : WF m) (i : Nat)
    (hi : i < (if f then m.size * m.size else m.size)) (hi2 : i < m.size * m.size) :
    getPos f m none none (some (i : Int)) = .ok i := by
  have hl : i < m.tiles.length := by rw [hwf.1]; exact hi2
  have hg : (0 : Int) ≤ (i : Int) ∧ (i : Int) < (if f then (m.size : Int) * (m.size : Int) else (m.size : Int)) := by
    cases f
    · simp at hi ⊢; omega
    · simp at hi ⊢; rw [← Int.natCast_mul]; omega
  simp only [getPos, truthy, Bool.or_self, Bool.and_false, Bool.false_eq_true, if_false, hg, and_self, if_true,
    Int.toNat_natCast, hl]

theorem getPos_i_reject (f : Bool) (m : Map) (i : Int)
    (hi : i < 0 ∨ i ≥ (if f then (m.size : Int) * (m.size : Int) else (m.size : Int))) :
    getPos f m none none (some i) = .error .value := by
  have hg : ¬ ((0 : Int) ≤ i ∧ i < (if f then (m.size : Int) * (m.size : Int) else (m.size : Int))) := by omega
  simp only [getPos, truthy, Bool.or_self, Bool.and_false, Bool.false_eq_true, if_false, hg]

theorem getTile_of_pos (f : Bool) (m : Map) (x y i : Option Int) (k : Nat) (t : Tile)
    (hp : getPos f m x y i = .ok k) (ht : m.tiles[k]? = some t) : getTile f m x y i = .ok t := by
  simp [getTile, hp, bind, Except.bind, listGet, ht]

/-! ### square selections -/

/-- the row `terrain[xy_to_i(x1,y) : xy_to_i(x2,y)+1]` -/
theorem squareRow_get (m : Map) (x1 x2 y dx : Nat) (hdx : dx ≤ x2 - x1) (hx : x1 ≤ x2) :
    ((m.tiles.take (x2 + y * m.size + 1)).drop (x1 + y * m.size))[dx]? = m.tiles[(x1 + dx) + y * m.size]? := by
  rw [List.getElem?_drop, List.getElem?_take]
  have : x1 + y * m.size + dx < x2 + y * m.size + 1 := by omega
  rw [if_pos this]
  congr 1; omega

theorem squareRow_length (m : Map) (hwf : WF m) (x1 x2 y : Nat) (hx : x1 ≤ x2) (hx2 : x2 < m.size) (hy : y < m.size) :
    ((m.tiles.take (x2 + y * m.size + 1)).drop (x1 + y * m.size)).length = x2 + 1 - x1 := by
  have := pos_lt_sq x2 y m.size hx2 hy
  rw [List.length_drop, List.length_take, hwf.1]
  omega

theorem squareRows_spec (m : Map) (x1 y1 x2 y2 : Nat)
    (hx : x1 ≤ x2) (hx2 : x2 < m.size) (hy : y1 ≤ y2) (hy2 : y2 < m.size) :
    squareRows m x1 y1 x2 y2 = .ok ((List.range (y2 + 1 - y1)).map (fun dy =>
      (m.tiles.take (x2 + (y1 + dy) * m.size + 1)).drop (x1 + (y1 + dy) * m.size))) := by
  unfold squareRows intRange
  have hn : ((y2 : Int) + 1 - (y1 : Int)).toNat = y2 + 1 - y1 := by omega
  rw [hn]
  rw [mapM_ok _ (fun row : Int => (m.tiles.take (x2 + row.toNat * m.size + 1)).drop (x1 + row.toNat * m.size))]
  · simp [List.map_map, Function.comp_def]
    intro a ha
    have : ((y1 : Int) + (a : Int)).toNat = y1 + a := by omega
    rw [this]
  · intro a ha
    simp only [List.mem_map, List.mem_range] at ha
    obtain ⟨k, hk, rfl⟩ := ha
    have e : (y1 : Int) + (k : Int) = ((y1 + k : Nat) : Int) := by omega
    have hyk : y1 + k < m.size := by omega
    rw [e, xyToI_nat x1 (y1 + k) m.size (by omega) hyk, xyToI_nat x2 (y1 + k) m.size hx2 hyk]
    have e2 : ((y1 : Int) + (k : Int)).toNat = y1 + k := by omega
    simp [bind, Except.bind, pure, Except.pure, e2]

end Aoe.Map
