import Aoe.Lemmas.HeapSave
/-!
C09: one step keeps the invariant (`step_inv`) and leaves every scenario it does not touch exactly as it was
(`step_agree`): same list, same cells under that list.
-/
namespace Aoe.Heap

/-- the operation is activity *on* scenario `v` (it may change what `v` saves) -/
def Touches (w : World) (v : Uid) : Op → Prop
  | .editTrig a _ => a ∈ w.trigsOf v
  | .editComp c _ _ => ∃ a ∈ w.trigsOf v, c ∈ compsOf w.heap a
  | .addTrigger u _ => u = v
  | .addComp u _ _ _ _ => u = v
  | .importT u _ => u = v
  | .adopt u _ _ _ => u = v
  | .remove u _ => u = v
  | .save u => u = v

theorem live_ne {w : World} (i : Inv0 w) {u : Uid} (hl : w.live u = true) : u ≠ noUuid := by
  intro e; rw [e, i.live0] at hl; exact Bool.noConfusion hl

/-! ## frames of the remaining operations -/

theorem renumber_frame : ∀ (as : List Addr) (n : Nat) (h : Heap) (d : List (Int × Int)) (h' : Heap) (d' : List (Int × Int)),
    renumber n as h d = some (h', d') → h'.comps = h.comps ∧ ∀ (b : Addr), b ∉ as → h'.trigs[b]? = h.trigs[b]?
  | [], _, h, d, h', d', e => by
    simp only [renumber, Option.some.injEq, Prod.mk.injEq] at e
    rw [← e.1]; exact ⟨rfl, fun _ _ => rfl⟩
  | a :: as, n, h, d, h', d', e => by
    simp only [renumber] at e
    cases ht : h.trigs[a]? with
    | none => simp [ht] at e
    | some t =>
      simp only [ht] at e
      by_cases hn : ((n : Nat) : Int) ≠ t.tid
      · simp only [hn, ne_eq, not_false_eq_true, if_true] at e
        obtain ⟨r1, r2⟩ := renumber_frame as _ _ _ _ _ e
        refine ⟨r1, fun b hb => ?_⟩
        rw [r2 b (fun x => hb (by simp [x]))]
        have : a ≠ b := fun x => hb (by simp [x])
        simp [this]
      · simp only [hn, if_false] at e
        obtain ⟨r1, r2⟩ := renumber_frame as _ _ _ _ _ e
        exact ⟨r1, fun b hb => r2 b (fun x => hb (by simp [x]))⟩

theorem relinkComps_frame (d : List (Int × Int)) :
    ∀ (r : List Addr) (cs cs' : List Comp), relinkComps d r cs = some cs' → ∀ (c : Addr), c ∉ r → cs'[c]? = cs[c]?
  | [], cs, cs', e, _, _ => by simp only [relinkComps, Option.some.injEq] at e; rw [e]
  | c0 :: r, cs, cs', e, c, hc => by
    simp only [relinkComps] at e
    cases h0 : cs[c0]? with
    | none => simp [h0] at e
    | some co =>
      simp only [h0] at e
      rw [relinkComps_frame d r _ _ e c (fun x => hc (by simp [x]))]
      have : c0 ≠ c := fun x => hc (by simp [x])
      simp [this]

theorem relink_frame (d : List (Int × Int)) : ∀ (as : List Addr) (h h' : Heap), relink d as h = some h' →
    h'.trigs = h.trigs ∧ ∀ (c : Addr), (∀ a ∈ as, c ∉ compsOf h a) → h'.comps[c]? = h.comps[c]?
  | [], h, h', e => by simp only [relink, Option.some.injEq] at e; subst e; exact ⟨rfl, fun _ _ => rfl⟩
  | a :: as, h, h', e => by
    simp only [relink] at e
    cases ht : h.trigs[a]? with
    | none => simp [ht] at e
    | some t =>
      simp only [ht] at e
      cases hr : relinkComps d t.comps h.comps with
      | none => simp [hr] at e
      | some cs =>
        simp only [hr] at e
        obtain ⟨r1, r2⟩ := relink_frame d as _ _ e
        refine ⟨r1, fun c hc => ?_⟩
        have hca : c ∉ t.comps := fun x => hc a (by simp) ((mem_compsOf ht).mpr x)
        rw [r2 c (fun b hb => by
          have := hc b (by simp [hb])
          simpa [compsOf] using this)]
        exact relinkComps_frame d t.comps h.comps cs hr c hca

theorem removeTrigger_agree {w w' : World} (i : Inv0 w) {u v : Uid} (hv : v ≠ u) {k : Nat} {a : Addr}
    (e : removeTrigger w u k = .ok (w', a)) : Agree w w' v := by
  unfold removeTrigger at e
  cases hk : (w.trigsOf u)[k]? with
  | none => simp [hk] at e
  | some a0 =>
    simp only [hk] at e
    cases hr : renumber 0 ((w.trigsOf u).eraseIdx k) w.heap [] with
    | none => simp [hr] at e
    | some p =>
      obtain ⟨h1, d⟩ := p
      simp only [hr] at e
      cases hl : relink (d ++ [(((k : Nat) : Int), (-1 : Int))]) ((w.trigsOf u).eraseIdx k) h1 with
      | none => simp [hl] at e
      | some h2 =>
        simp only [hl, Except.ok.injEq, Prod.mk.injEq] at e
        obtain ⟨rfl, _⟩ := e
        have sub : ∀ b ∈ (w.trigsOf u).eraseIdx k, b ∈ w.trigsOf u := fun b hb => List.mem_of_mem_eraseIdx hb
        obtain ⟨f1, f2⟩ := renumber_frame _ _ _ _ _ _ hr
        obtain ⟨g1, g2⟩ := relink_frame _ _ _ _ hl
        have sk := renumber_skel _ _ _ _ _ _ hr
        refine ⟨setFn_other _ _ _ _ hv, ?_, ?_, rfl⟩
        · intro b hb
          show h2.trigs[b]? = _
          rw [g1]
          exact f2 b (fun x => i.trigs_disjoint hv hb (sub b x))
        · intro b hb c hc
          show h2.comps[c]? = _
          rw [g2 c (fun a1 ha1 => by
            rw [sk.shape.compsOf a1]
            exact fun x => i.comps_disjoint hv hb (sub a1 ha1) hc x), f1]

theorem addComp_agree {w w' : World} (i : Inv0 w) {u v : Uid} (hv : v ≠ u) {k : Nat} {kd : Kind} {tg x : Int}
    (e : addComp w u k kd tg x = .ok w') : Agree w w' v := by
  unfold addComp at e
  cases hk : (w.trigsOf u)[k]? with
  | none => simp [hk] at e
  | some a =>
    simp only [hk] at e
    cases ht : w.heap.trigs[a]? with
    | none => simp [ht] at e
    | some t =>
      simp only [ht, Except.ok.injEq] at e
      subst e
      have hau : a ∈ w.trigsOf u := List.mem_of_getElem? hk
      refine ⟨rfl, ?_, ?_, rfl⟩
      · intro b hb
        have : a ≠ b := fun x => i.trigs_disjoint hv hb (x ▸ hau)
        show (w.heap.trigs.set a _)[b]? = _
        simp [this]
      · intro b hb c hc
        have hlt := i.swf v b hb
        have hcl := i.hwf b _ (List.getElem?_eq_getElem hlt) c ((mem_compsOf (List.getElem?_eq_getElem hlt)).mp hc)
        show (w.heap.comps ++ [_])[c]? = _
        simp [List.getElem?_append_left hcl]

theorem addTrigger_agree {w : World} (i : Inv0 w) {u v : Uid} (hv : v ≠ u) (name : Int) :
    Agree w (addTrigger w u name).1 v := by
  refine ⟨setFn_other _ _ _ _ hv, ?_, fun _ _ _ _ => rfl, rfl⟩
  intro a ha
  have hlt := i.swf v a ha
  simp [addTrigger, List.getElem?_append_left hlt]

theorem edit_agree_trig {w : World} {h' : Heap} {a : Addr} {x : Int} {v : Uid} (e : editTrig w.heap a x = .ok h')
    (nt : a ∉ w.trigsOf v) : Agree w { w with heap := h' } v := by
  unfold editTrig at e
  cases ht : w.heap.trigs[a]? with
  | none => simp [ht] at e
  | some t =>
    simp only [ht, Except.ok.injEq] at e
    subst e
    refine ⟨rfl, fun b hb => ?_, fun _ _ _ _ => rfl, rfl⟩
    have : a ≠ b := fun q => nt (q ▸ hb)
    show (w.heap.trigs.set a _)[b]? = _
    simp [this]

theorem edit_agree_comp {w : World} {h' : Heap} {c : Addr} {f : CField} {x : Int} {v : Uid}
    (e : editComp w.heap c f x = .ok h') (nt : ¬ ∃ a ∈ w.trigsOf v, c ∈ compsOf w.heap a) :
    Agree w { w with heap := h' } v := by
  unfold editComp at e
  cases hc : w.heap.comps[c]? with
  | none => simp [hc] at e
  | some co =>
    simp only [hc, Except.ok.injEq] at e
    subst e
    refine ⟨rfl, fun _ _ => rfl, fun b hb c' hc' => ?_, rfl⟩
    have : c ≠ c' := fun q => nt ⟨b, hb, q ▸ hc'⟩
    show (w.heap.comps.set c _)[c']? = _
    simp [this]

/-! ## one step -/

/-- **every operation keeps the invariant** -/
theorem step_inv {cfg : Cfg} {w w' : World} {op : Op} {r : Ret} (i : Inv cfg w) (safe : Safe cfg w op)
    (e : step cfg w op = .ok (w', r)) : Inv cfg w' := by
  cases op with
  | editTrig a x =>
    simp only [step] at e
    split at e
    · simp at e
    · rename_i h' he
      simp only [Except.ok.injEq, Prod.mk.injEq] at e
      rw [← e.1]; exact i.skel_same (editTrig_skel he)
  | editComp c f x =>
    simp only [step] at e
    split at e
    · simp at e
    · rename_i h' he
      simp only [Except.ok.injEq, Prod.mk.injEq] at e
      rw [← e.1]; exact i.skel_same (editComp_skel he)
  | addTrigger u name =>
    simp only [step] at e
    by_cases hl : w.live u = true
    · simp only [hl, if_true, Except.ok.injEq, Prod.mk.injEq] at e
      rw [← e.1]; exact addTrigger_inv i u (live_ne i.1 hl) name
    · simp [hl] at e
  | addComp u k kd tg x =>
    simp only [step] at e
    by_cases hl : w.live u = true
    · simp only [hl, if_true] at e
      split at e
      · simp at e
      · rename_i w1 h1
        simp only [Except.ok.injEq, Prod.mk.injEq] at e
        rw [← e.1]; exact addComp_inv i safe h1
    · simp [hl] at e
  | importT u refs =>
    simp only [step] at e
    by_cases hl : w.live u = true
    · simp only [hl, if_true] at e
      split at e
      · simp at e
      · rename_i w1 r1 h1
        simp only [Except.ok.injEq, Prod.mk.injEq] at e
        rw [← e.1]; exact (importTriggers_nf i h1).inv i (live_ne i.1 hl)
    · simp [hl] at e
  | adopt u how refs cf =>
    simp only [step] at e
    by_cases hl : w.live u = true
    · simp only [hl, if_true] at e
      split at e
      · simp at e
      · rename_i w1 h1
        simp only [Except.ok.injEq, Prod.mk.injEq] at e
        rw [← e.1]; exact (adopt_nf i safe h1).inv i (live_ne i.1 hl)
    · simp [hl] at e
  | remove u k =>
    simp only [step] at e
    by_cases hl : w.live u = true
    · simp only [hl, if_true] at e
      split at e
      · simp at e
      · rename_i w1 a1 h1
        simp only [Except.ok.injEq, Prod.mk.injEq] at e
        rw [← e.1]; exact removeTrigger_inv i h1
    · simp [hl] at e
  | save u =>
    simp only [step] at e
    split at e
    · simp at e
    · rename_i w1 o h1
      simp only [Except.ok.injEq, Prod.mk.injEq] at e
      rw [← e.1]
      have s := save_same h1
      obtain ⟨⟨a1, a2, a3, a4, a5, a6⟩, b⟩ := i
      refine ⟨⟨s.heap ▸ a1, s.heap ▸ a2, ?_, ?_, s.trigsOf ▸ a5, s.live ▸ a6⟩, fun hn => ?_⟩
      · intro v a ha; rw [s.trigsOf] at ha; rw [s.heap]; exact a3 v a ha
      · intro v a ha t ht; rw [s.trigsOf] at ha; rw [s.heap] at ht ⊢; exact a4 v a ha t ht
      · intro v a ha t ht; rw [s.trigsOf] at ha; rw [s.heap] at ht; exact b hn v a ha t ht

/-- **frame**: an operation that is not activity on `v` leaves `v`'s list and every cell under it unchanged -/
theorem step_agree {cfg : Cfg} {w w' : World} {op : Op} {r : Ret} (i : Inv cfg w) (safe : Safe cfg w op) {v : Uid}
    (nt : ¬ Touches w v op) (e : step cfg w op = .ok (w', r)) : Agree w w' v := by
  cases op with
  | editTrig a x =>
    simp only [step] at e
    split at e
    · simp at e
    · rename_i h' he
      simp only [Except.ok.injEq, Prod.mk.injEq] at e
      rw [← e.1]; exact edit_agree_trig he nt
  | editComp c f x =>
    simp only [step] at e
    split at e
    · simp at e
    · rename_i h' he
      simp only [Except.ok.injEq, Prod.mk.injEq] at e
      rw [← e.1]; exact edit_agree_comp he nt
  | addTrigger u name =>
    simp only [step] at e
    by_cases hl : w.live u = true
    · simp only [hl, if_true, Except.ok.injEq, Prod.mk.injEq] at e
      rw [← e.1]; exact addTrigger_agree i.1 (fun q => nt q.symm) name
    · simp [hl] at e
  | addComp u k kd tg x =>
    simp only [step] at e
    by_cases hl : w.live u = true
    · simp only [hl, if_true] at e
      split at e
      · simp at e
      · rename_i w1 h1
        simp only [Except.ok.injEq, Prod.mk.injEq] at e
        rw [← e.1]; exact addComp_agree i.1 (fun q => nt q.symm) h1
    · simp [hl] at e
  | importT u refs =>
    simp only [step] at e
    by_cases hl : w.live u = true
    · simp only [hl, if_true] at e
      split at e
      · simp at e
      · rename_i w1 r1 h1
        simp only [Except.ok.injEq, Prod.mk.injEq] at e
        rw [← e.1]; exact (importTriggers_nf i h1).agree i.1 (fun q => nt q.symm)
    · simp [hl] at e
  | adopt u how refs cf =>
    simp only [step] at e
    by_cases hl : w.live u = true
    · simp only [hl, if_true] at e
      split at e
      · simp at e
      · rename_i w1 h1
        simp only [Except.ok.injEq, Prod.mk.injEq] at e
        rw [← e.1]; exact (adopt_nf i safe h1).agree i.1 (fun q => nt q.symm)
    · simp [hl] at e
  | remove u k =>
    simp only [step] at e
    by_cases hl : w.live u = true
    · simp only [hl, if_true] at e
      split at e
      · simp at e
      · rename_i w1 a1 h1
        simp only [Except.ok.injEq, Prod.mk.injEq] at e
        rw [← e.1]; exact removeTrigger_agree i.1 (fun q => nt q.symm) h1
    · simp [hl] at e
  | save u =>
    simp only [step] at e
    split at e
    · simp at e
    · rename_i w1 o h1
      simp only [Except.ok.injEq, Prod.mk.injEq] at e
      rw [← e.1]
      have s := save_same h1
      exact ⟨by rw [s.trigsOf], fun _ _ => by rw [s.heap], fun _ _ _ _ => by rw [s.heap], s.live⟩

end Aoe.Heap
