import Aoe.Lemmas.TrigLinks
/-!
Helper lemmas for C06/C07, part 4: `reorder_triggers` and `move_triggers`.
-/
namespace Aoe.Trig
open List

/-! ### the list computed by `move_triggers` -/

/-- the documented result of `move_triggers`: what was displayed before position `k` (minus the moved ids), the moved
ids in the order given, what was displayed from position `k` on (minus the moved ids) -/
def moveSpec (order ids : List Nat) (k : Nat) : List Nat :=
  (order.take k).filter (fun n => !ids.contains n) ++ ids ++ (order.drop k).filter (fun n => !ids.contains n)

theorem moveOrder_eq_spec {order ids : List Nat} (k : Nat) (hn : order.Nodup) :
    moveOrder order ids k = moveSpec order ids k := by
  unfold moveOrder moveSpec
  simp only [contains_eq_mem]
  cases hk : order[k]? with
  | none =>
    have hle : order.length ≤ k := by
      rcases Nat.lt_or_ge k order.length with h | h
      · simp [getElem?_eq_getElem h] at hk
      · exact h
    simp [take_of_length_le hle, drop_of_length_le hle]
  | some ins =>
    obtain ⟨hlt, hget⟩ := List.getElem?_eq_some_iff.1 hk
    have hsplit : order = order.take k ++ ins :: order.drop (k + 1) := by
      conv => lhs; rw [← take_append_drop k order]
      rw [drop_eq_getElem_cons hlt, hget]
    have hd : order.drop k = ins :: order.drop (k + 1) := by rw [drop_eq_getElem_cons hlt, hget]
    generalize hA : order.take k = A at *
    generalize hB : order.drop (k + 1) = B at *
    rw [hsplit] at hn
    have hnA : ins ∉ A := fun h => by
      have := (nodup_append.1 hn).2.2 ins h ins (by simp); exact this rfl
    have hnB : ins ∉ B := by
      have := (nodup_append.1 hn).2.1
      rw [nodup_cons] at this; exact this.1
    have fA : A.filter (fun n => !decide (n ∈ ids) || n == ins) = A.filter (fun n => !decide (n ∈ ids)) := by
      apply filter_congr; intro x hx
      have : x ≠ ins := fun e => hnA (e ▸ hx)
      simp [this]
    have fB : B.filter (fun n => !decide (n ∈ ids) || n == ins) = B.filter (fun n => !decide (n ∈ ids)) := by
      apply filter_congr; intro x hx
      have : x ≠ ins := fun e => hnB (e ▸ hx)
      simp [this]
    have hl : order.filter (fun n => !decide (n ∈ ids) || n == ins) =
        A.filter (fun n => !decide (n ∈ ids)) ++ ins :: B.filter (fun n => !decide (n ∈ ids)) := by
      rw [hsplit, filter_append, filter_cons, fA, fB]; simp
    generalize hA' : A.filter (fun n => !decide (n ∈ ids)) = A' at *
    generalize hB' : B.filter (fun n => !decide (n ∈ ids)) = B' at *
    have hnA' : ins ∉ A' := fun h => hnA (by rw [← hA'] at h; exact (mem_filter.1 h).1)
    have hidx : (A' ++ ins :: B').idxOf ins = A'.length := by
      rw [idxOf_append]; simp [hnA']
    simp only [hl, hidx, hd, filter_cons]
    by_cases hin : ins ∈ ids
    · have her : (A' ++ ins :: B').erase ins = A' ++ B' := by
        rw [erase_append_right _ hnA']; simp
      simp [hin, her, hB']
    · simp [hin, hB']

theorem isPerm_moveSpec {order ids : List Nat} {n : Nat} (k : Nat) (ho : IsPerm order n) (hn : ids.Nodup)
    (hlt : ∀ i ∈ ids, i < n) : IsPerm (moveSpec order ids k) n := by
  have hnd := ho.1
  rw [← take_append_drop k order] at hnd
  obtain ⟨n1, n2, n3⟩ := nodup_append.1 hnd
  refine ⟨?_, fun i => ?_⟩
  · unfold moveSpec
    rw [nodup_append]
    refine ⟨?_, n2.sublist filter_sublist, ?_⟩
    · rw [nodup_append]
      refine ⟨n1.sublist filter_sublist, hn, ?_⟩
      intro a ha b hb e; subst e
      simp only [mem_filter, Bool.not_eq_true', contains_eq_mem, decide_eq_false_iff_not] at ha
      exact ha.2 hb
    · intro a ha b hb e; subst e
      simp only [mem_filter, Bool.not_eq_true', contains_eq_mem, decide_eq_false_iff_not] at hb
      rcases mem_append.1 ha with ha | ha
      · simp only [mem_filter] at ha
        exact n3 a ha.1 a hb.1 rfl
      · exact hb.2 ha
  · have hm := ho.2 i
    rw [← take_append_drop k order, mem_append] at hm
    unfold moveSpec
    simp only [mem_append, mem_filter, Bool.not_eq_true', contains_eq_mem, decide_eq_false_iff_not]
    constructor
    · rintro ((⟨h, _⟩ | h) | ⟨h, _⟩)
      · exact hm.1 (Or.inl h)
      · exact hlt i h
      · exact hm.1 (Or.inr h)
    · intro h
      by_cases hi : i ∈ ids
      · exact Or.inl (Or.inr hi)
      · rcases hm.2 h with h' | h'
        · exact Or.inl (Or.inl ⟨h', hi⟩)
        · exact Or.inr ⟨h', hi⟩

/-! ### `reorder_triggers` -/

theorem Inv.withOrder {tm : TM} (h : Inv tm) {o : List Nat} (ho : IsPerm o tm.trigs.length) :
    Inv { tm with order := o } :=
  { ids := h.ids, order := ⟨_, ho, fun _ => rfl⟩, uniq := h.uniq, fresh := h.fresh, hfresh := h.hfresh }

theorem picked_of_order {tm : TM} (hi : Inv tm) {o : List Nat} (ho : IsPerm o tm.trigs.length)
    {picked : List Trig} (hpk : pick tm.trigs o = .ok picked) :
    Picked tm picked ∧ picked.map (·.tid) = o := by
  have hmap : picked.map (·.tid) = o := by
    apply ext_getElem?
    intro j
    rw [getElem?_map, pick_getElem? hpk]
    cases hj : o[j]? with
    | none => rfl
    | some i =>
      have hi' : i < tm.trigs.length := (ho.2 i).1 (mem_of_getElem? hj)
      simp [getElem?_eq_getElem hi', hi.ids i _ (getElem?_eq_getElem hi')]
  refine ⟨⟨fun p hp => ?_, hmap ▸ ho.1⟩, hmap⟩
  obtain ⟨j, hj, rfl⟩ := getElem_of_mem hp
  have h1 := pick_getElem? hpk j
  rw [getElem?_eq_getElem hj] at h1
  have hj' : j < o.length := by rw [← pick_length hpk]; exact hj
  rw [getElem?_eq_getElem hj', Option.bind_some] at h1
  have hlt : o[j] < tm.trigs.length := (ho.2 _).1 (getElem_mem hj')
  rw [getElem?_eq_getElem hlt] at h1
  have := hi.ids _ _ (getElem?_eq_getElem hlt)
  have h2 : picked[j] = tm.trigs[o[j]] := Option.some.inj h1
  rw [h2, this]; exact getElem?_eq_getElem hlt

/-- a full permutation leaves no link without a new position: the dict of `reorder_triggers` is a retargeting
whatever the `clear` flag -/
theorem retarget_full {n : Nat} {picked : List Trig} {c : Bool} (hn : (picked.map (·.tid)).Nodup)
    (hfull : ∀ k, k < n → k ∈ picked.map (·.tid)) : Retarget n picked (remapEff (changesFrom 0 picked)) c :=
  { kind := (retarget_changesFrom (n := n) hn).kind
    frame := (retarget_changesFrom (n := n) hn).frame
    unset := (retarget_changesFrom (n := n) hn).unset
    hit := (retarget_changesFrom (n := n) hn).hit
    miss := fun _ _ k _ _ hk hlt => absurd (hfull k hlt) hk }

/-- the whole effect of `reorder_triggers` on a state whose stored display order `o` is a permutation -/
theorem reorderCore_spec {c : Bool} {tm : TM} (hi : Inv tm) (ho : IsPerm tm.order tm.trigs.length) :
    ∃ tm', reorderCore tm = .ok tm' ∧ Inv tm' ∧ Step c tm tm' ∧ tm'.next = tm.next ∧
      tm'.order = range tm.trigs.length ∧ tm'.trigs.length = tm.trigs.length ∧
      (uids tm').map some = tm.order.map (uidAt tm) := by
  obtain ⟨picked, hpk⟩ := pick_ok (trigs := tm.trigs) (o := tm.order) (fun i hi' => (ho.2 i).1 hi')
  obtain ⟨hP, hmap⟩ := picked_of_order hi ho hpk
  have hlen : picked.length = tm.trigs.length := by rw [pick_length hpk, ho.length]
  let tm' : TM := { trigs := rebuild (remapEff (changesFrom 0 picked)) picked, order := range picked.length,
                     hashed := picked.map (·.uid), next := tm.next }
  have hre : reorderCore tm = .ok tm' := by
    unfold reorderCore
    rw [readOrder_perm ho]
    simp only [hpk, remapTrig_map, rebuild_length, rebuild_uids]
    rfl
  have hfull : ∀ k, k < tm.trigs.length → k ∈ picked.map (·.tid) := fun k hk => hmap ▸ (ho.2 k).2 hk
  have hstep : Step c tm tm' := rebuild_step hi hP (retarget_full hP.nodup hfull) rfl rfl
  have huids : uids tm' = picked.map (·.uid) := by simp [uids, tm', rebuild_uids]
  have hinv : Inv tm' :=
    { ids := rebuild_ids _ _
      order := ⟨picked.length, isPerm_range _, fun _ => by simp [tm', rebuild_length]⟩
      uniq := by rw [huids]; exact hP.uids_nodup hi.uniq
      fresh := fun u hu => by
        rw [huids] at hu
        obtain ⟨p, hp, rfl⟩ := mem_map.1 hu
        exact hi.fresh _ (by simp only [uids, mem_map]; exact ⟨p, hP.mem hp, rfl⟩)
      hfresh := fun u hu => by
        obtain ⟨p, hp, rfl⟩ := mem_map.1 hu
        exact hi.fresh _ (by simp only [uids, mem_map]; exact ⟨p, hP.mem hp, rfl⟩) }
  refine ⟨tm', hre, hinv, hstep, rfl, by simp [tm', hlen], by simp [tm', rebuild_length, hlen], ?_⟩
  rw [huids]
  have := pick_map_some hpk
  apply ext_getElem?
  intro j
  have h1 := congrArg (fun l => (l[j]?).map (Option.map Trig.uid)) this
  have hu : uidAt tm = fun x => Option.map Trig.uid tm.trigs[x]? := rfl
  simp only [getElem?_map, Option.map_map] at h1 ⊢
  rw [hu]
  simpa [Function.comp_def] using h1

theorem reorder_some_spec {c : Bool} {tm : TM} (hi : Inv tm) {o : List Nat} (ho : IsPerm o tm.trigs.length) (hne : o ≠ []) :
    ∃ tm', reorder tm (some o) = .ok tm' ∧ Inv tm' ∧ Step c tm tm' ∧ tm'.next = tm.next ∧
      tm'.order = range tm.trigs.length ∧ tm'.trigs.length = tm.trigs.length ∧
      (uids tm').map some = o.map (uidAt tm) := by
  obtain ⟨tm', h1, h2, h3, h4, h5, h6, h7⟩ := reorderCore_spec (c := c) (hi.withOrder ho) ho
  refine ⟨tm', by simp [reorder, hne, h1], h2, ?_, h4, h5, h6, h7⟩
  exact ⟨h3.link, h3.mono, h3.old⟩

end Aoe.Trig
