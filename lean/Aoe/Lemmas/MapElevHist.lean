import Aoe.Lemmas.MapElevRange
/-!
# Range invariant over histories of map operations (C11 / C20)

Over any history of `map_size` assignments, `terrain` assignments and `set_elevation` calls, every elevation on the map
lies in any interval that contains the start elevations, 0 (the elevation of a fresh tile), every elevation handed to
the `terrain` setter and every requested elevation.
-/
namespace Aoe.Map

def BndL (lo hi : Int) (l : List Tile) : Prop := ∀ t ∈ l, lo ≤ t.elevation ∧ t.elevation ≤ hi

theorem bnd_of_bndL {lo hi : Int} {m : Map} (h : BndL lo hi m.tiles) : Bnd lo hi m :=
  fun _ t ht => h t (List.mem_of_getElem? ht)

theorem bndL_of_bnd {lo hi : Int} {m : Map} (h : Bnd lo hi m) : BndL lo hi m.tiles := by
  intro t ht
  obtain ⟨k, hk, rfl⟩ := List.getElem_of_mem ht
  exact h k _ (List.getElem?_eq_getElem hk)

theorem bndL_resetIndices {lo hi : Int} {l : List Tile} (h : BndL lo hi l) : BndL lo hi (resetIndices l) := by
  intro t ht
  simp only [resetIndices, List.mem_mapIdx] at ht
  obtain ⟨i, hi', rfl⟩ := ht
  exact h l[i] (List.getElem_mem hi')

theorem bndL_chunk {lo hi : Int} {l : List Tile} (h : BndL lo hi l) (n k : Nat) : BndL lo hi (chunk n l k) :=
  fun t ht => h t (List.mem_of_mem_drop (List.mem_of_mem_take ht))

theorem bndL_fresh {lo hi : Int} (h0 : lo ≤ 0 ∧ 0 ≤ hi) (n : Nat) : BndL lo hi (List.replicate n Tile.fresh) := by
  intro t ht
  rw [List.eq_of_mem_replicate ht]
  exact h0

theorem setTerrain_bnd {lo hi : Int} (m m' : Map) (ts : List Tile) (h : BndL lo hi ts)
    (hs : setTerrain m ts = .ok m') : Bnd lo hi m' := by
  unfold setTerrain at hs
  split at hs
  · injection hs with hs; subst hs; exact bnd_of_bndL (bndL_resetIndices h)
  · cases hs

theorem setSize_bnd {lo hi : Int} (h0 : lo ≤ 0 ∧ 0 ≤ hi) (m m' : Map) (n : Nat) (hb : Bnd lo hi m)
    (hs : setSize m n = .ok m') : Bnd lo hi m' := by
  have hl := bndL_of_bnd hb
  unfold setSize at hs
  simp only [] at hs
  split at hs
  · injection hs with hs; subst hs; exact hb
  · split at hs
    · refine setTerrain_bnd m m' _ ?_ hs
      intro t ht
      simp only [shrinkRows, List.mem_flatten, List.mem_map] at ht
      obtain ⟨r, ⟨k, _, rfl⟩, htr⟩ := ht
      exact bndL_chunk hl _ _ t (List.mem_of_mem_take htr)
    · obtain ⟨rows, hr, hs⟩ := bind_ok _ _ _ hs
      refine setTerrain_bnd m m' _ ?_ hs
      unfold growRows at hr
      split at hr
      · cases hr
      · injection hr with hr; subst hr
        intro t ht
        simp only [List.mem_flatten, List.mem_map] at ht
        obtain ⟨r, ⟨k, _, rfl⟩, htr⟩ := ht
        split at htr
        · rcases List.mem_append.mp htr with h1 | h1
          · exact bndL_chunk hl _ _ t h1
          · exact bndL_fresh h0 _ t h1
        · exact bndL_fresh h0 _ t htr

/-- what a history hands to the manager lies in `[lo, hi]` -/
def Op.InRange (lo hi : Int) : Op → Prop
  | .setSize _ => True
  | .setTerrain ts => BndL lo hi ts
  | .setElevation e _ _ _ _ => lo ≤ e ∧ e ≤ hi

theorem applyOp_bnd {lo hi : Int} (h0 : lo ≤ 0 ∧ 0 ≤ hi) (fs : Bool) (m : Map) (op : Op) (hb : Bnd lo hi m)
    (ho : op.InRange lo hi) : Bnd lo hi (applyOp fs m op) := by
  cases op with
  | setSize n =>
    simp only [applyOp]
    cases h : setSize m n with
    | ok m' => exact setSize_bnd h0 m m' n hb h
    | error _ => exact hb
  | setTerrain ts =>
    simp only [applyOp]
    cases h : setTerrain m ts with
    | ok m' => exact setTerrain_bnd m m' ts ho h
    | error _ => exact hb
  | setElevation e x1 y1 x2 y2 =>
    simp only [applyOp]
    cases h : setElevation fs (elevFuel m) m e x1 y1 x2 y2 with
    | ok m' => exact setElevation_bnd fs _ m m' e x1 y1 x2 y2 lo hi hb ho.1 ho.2 h
    | error _ => exact hb

/-- **range invariant over histories** -/
theorem run_bnd {lo hi : Int} (h0 : lo ≤ 0 ∧ 0 ≤ hi) (fs : Bool) (ops : List Op) (m : Map) (hb : Bnd lo hi m)
    (ho : ∀ op ∈ ops, op.InRange lo hi) : Bnd lo hi (run fs m ops) := by
  induction ops generalizing m with
  | nil => exact hb
  | cons op ops ih =>
    simp only [run, List.foldl_cons]
    exact ih _ (applyOp_bnd h0 fs m op hb (ho op (by simp))) (fun o h => ho o (by simp [h]))

end Aoe.Map
