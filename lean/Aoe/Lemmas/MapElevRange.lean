import Aoe.Lemmas.MapElev
/-!
# Range invariant of `set_elevation` (C20)

`_elevation_tile_recursion` only ever assigns the source tile's elevation or a value one step from it towards the
neighbour's: every elevation it writes lies between two elevations that are already on the map.  So an interval
`[lo, hi]` that contains every elevation of the map and the requested elevation contains every elevation after
`set_elevation` - for every start map, every argument list and every fuel (`setElevation_range`).
-/
namespace Aoe.Map

/-- every elevation on the map lies in `[lo, hi]` -/
def Bnd (lo hi : Int) (m : Map) : Prop := ∀ (k : Nat) (t : Tile), m.tiles[k]? = some t → lo ≤ t.elevation ∧ t.elevation ≤ hi

theorem Bnd.setElevAt {lo hi : Int} {m : Map} (h : Bnd lo hi m) (k : Nat) (e : Int) (h1 : lo ≤ e) (h2 : e ≤ hi) :
    Bnd lo hi (setElevAt m k e) := by
  intro j t ht
  rw [getElem?_setElevAt] at ht
  split at ht
  · cases hj : m.tiles[j]? with
    | none => simp [hj] at ht
    | some t0 => simp [hj] at ht; subst ht; exact ⟨h1, h2⟩
  · exact h j t ht

/-- one step from `s` towards `o` stays between them -/
theorem sign_between (lo hi s o : Int) (hs : lo ≤ s ∧ s ≤ hi) (ho : lo ≤ o ∧ o ≤ hi) :
    lo ≤ s + sign o s ∧ s + sign o s ≤ hi := by
  unfold sign
  split
  · omega
  · split <;> omega

theorem fill_bnd {lo hi : Int} (e : Int) (h1 : lo ≤ e) (h2 : e ≤ hi) (ps : List Nat) (m : Map) (h : Bnd lo hi m) :
    Bnd lo hi (ps.foldl (fun m k => setElevAt m k e) m) := by
  induction ps generalizing m with
  | nil => exact h
  | cons p ps ih => exact ih _ (h.setElevAt p e h1 h2)

theorem elevStep_bnd (lo hi : Int) (xys vis : List (Int × Int)) (recur : Map → Nat → Except Err Map)
    (src : Nat) (x y : Int)
    (hrec : ∀ m1 k m2, Bnd lo hi m1 → recur m1 k = .ok m2 → Bnd lo hi m2)
    (m : Map) (o : Int × Int) (m' : Map) (hb : Bnd lo hi m)
    (h : elevStep recur src x y xys vis m o = .ok m') : Bnd lo hi m' := by
  unfold elevStep at h
  simp only [] at h
  split at h
  · simp only [bind, Except.bind] at h
    cases hp : getPosSafe m (x + o.1) (y + o.2) with
    | error e => simp [hp] at h
    | ok r =>
      simp only [hp] at h
      cases r with
      | none => simp [pure, Except.pure] at h; subst h; exact hb
      | some ko =>
        simp only [] at h
        cases hbh : getPosSafe m (x + o.1 * 2) (y + o.2 * 2) with
        | error e => simp [hbh] at h
        | ok behind =>
          simp only [hbh] at h
          cases h1 : listGet m.tiles src with
          | error e => simp [h1] at h
          | ok st =>
            simp only [h1] at h
            cases h2 : listGet m.tiles ko with
            | error e => simp [h2] at h
            | ok ot =>
              simp only [h2] at h
              have bs := hb src st (listGet_ok _ _ _ h1)
              have bo := hb ko ot (listGet_ok _ _ _ h2)
              split at h
              · cases h
              · split at h
                · simp only [pure, Except.pure] at h; injection h with h; subst h
                  exact hb.setElevAt ko _ bs.1 bs.2
                · split at h
                  · have sb := sign_between lo hi st.elevation ot.elevation bs bo
                    exact hrec _ _ _ (hb.setElevAt ko _ sb.1 sb.2) h
                  · simp only [pure, Except.pure] at h; injection h with h; subst h
                    exact hb
  · simp only [pure, Except.pure] at h; injection h with h; subst h
    exact hb

/-- `_elevation_tile_recursion` keeps every elevation inside an interval that held all of them before -/
theorem elevRec_bnd (lo hi : Int) (xys : List (Int × Int)) :
    ∀ (fuel : Nat) (m : Map) (src : Nat) (vis : List (Int × Int)) (m' : Map), Bnd lo hi m →
      elevRec fuel m src xys vis = .ok m' → Bnd lo hi m'
  | 0, _, _, _, _, _, h => by simp [elevRec] at h
  | fuel + 1, m, src, vis, m', hb, h => by
      simp only [elevRec, bind, Except.bind] at h
      cases h1 : listGet m.tiles src with
      | error e => simp [h1] at h
      | ok st =>
        simp only [h1] at h
        cases h2 : tileXY m st with
        | error e => simp [h2] at h
        | ok xy =>
          simp only [h2] at h
          refine foldlM_frame (Bnd lo hi) (fun a b => Bnd lo hi a → Bnd lo hi b) _ (fun _ h => h)
            (fun _ _ _ f g h => g (f h)) (fun _ _ hi r => r hi) offsets m m' ?_ hb h hb
          intro ma o mb _ _ hstep hba
          exact elevStep_bnd lo hi xys (xy :: vis) _ src xy.1 xy.2
            (fun m1 k m2 b1 hr => elevRec_bnd lo hi xys fuel m1 k (xy :: vis) m2 b1 hr) ma o mb hba hstep

theorem edge_fold_bnd (lo hi : Int) (fuel : Nat) (xys : List (Int × Int)) (m1 m' : Map) (hb : Bnd lo hi m1)
    (edge : List Nat) (h : edge.foldlM (fun m k => elevRec fuel m k xys []) m1 = .ok m') : Bnd lo hi m' := by
  refine foldlM_frame (Bnd lo hi) (fun a b => Bnd lo hi a → Bnd lo hi b) _ (fun _ h => h)
    (fun _ _ _ f g h => g (f h)) (fun _ _ hi r => r hi) edge m1 m' ?_ hb h hb
  intro ma k mb _ _ hstep hba
  exact elevRec_bnd lo hi xys fuel ma k [] mb hba hstep

/-- **range invariant of `set_elevation`**: an interval that contains every elevation of the map and the requested
elevation contains every elevation afterwards - any map, any arguments (valid or not), any fuel, pinned and
repaired code -/
theorem setElevation_bnd (fs : Bool) (fuel : Nat) (m m' : Map) (e x1 y1 : Int) (x2? y2? : Option Int) (lo hi : Int)
    (hb : Bnd lo hi m) (h1 : lo ≤ e) (h2 : e ≤ hi)
    (h : setElevation fs fuel m e x1 y1 x2? y2? = .ok m') : Bnd lo hi m' := by
  unfold setElevation at h
  simp only [] at h
  split at h
  · obtain ⟨k, _, h⟩ := bind_ok _ _ _ h
    generalize hm1 : (if fs = true then setElevAt m k e else m) = m1 at h
    have b1 : Bnd lo hi m1 := by
      subst hm1; cases fs
      · exact hb
      · exact hb.setElevAt _ e h1 h2
    obtain ⟨t, _, h⟩ := bind_ok _ _ _ h
    obtain ⟨xy, _, h⟩ := bind_ok _ _ _ h
    exact elevRec_bnd lo hi [xy] fuel m1 k [] m' b1 h
  · obtain ⟨rows, _, h⟩ := bind_ok _ _ _ h
    generalize hm1 : rows.flatten.foldl (fun m k => setElevAt m k e) m = m1 at h
    have b1 : Bnd lo hi m1 := hm1 ▸ fill_bnd e h1 h2 rows.flatten m hb
    obtain ⟨xys, _, h⟩ := bind_ok _ _ _ h
    obtain ⟨first, _, h⟩ := bind_ok _ _ _ h
    obtain ⟨last, _, h⟩ := bind_ok _ _ _ h
    obtain ⟨mids, _, h⟩ := bind_ok _ _ _ h
    exact edge_fold_bnd lo hi fuel xys m1 m' b1 _ h

end Aoe.Map
