import Aoe.Lemmas.TrigRemove2
/-!
Helper lemmas for C06/C07, part 8: tree copies (`copy_trigger_tree`, `copy_trigger_tree_per_player`): invariant and
link step. The retargeting loops only touch triggers created by the operation itself (and, for the source player,
rewrite every link to the id the target already has).
-/
namespace Aoe.Trig
open List

/-! ### generic: `mapM` in `Except`, `mapUids` -/

theorem mapM_ok_spec {α β ε : Type} {f : α → Except ε β} : ∀ {l : List α} {l' : List β}, l.mapM f = .ok l' →
    l'.length = l.length ∧ ∀ (j : Nat) (x : α) (x' : β), l[j]? = some x → l'[j]? = some x' → f x = .ok x'
  | [], l', h => by
    simp only [mapM_nil, pure, Except.pure, Except.ok.injEq] at h
    subst h; simp
  | a :: l, l', h => by
    rw [mapM_cons] at h
    cases ha : f a with
    | error e => simp [ha, bind, Except.bind] at h
    | ok b =>
      cases hl : l.mapM f with
      | error e => simp [ha, hl, bind, Except.bind] at h
      | ok r =>
        simp only [ha, hl, bind, Except.bind, pure, Except.pure, Except.ok.injEq] at h
        subst h
        obtain ⟨h1, h2⟩ := mapM_ok_spec hl
        refine ⟨by simp [h1], fun j x x' hx hx' => ?_⟩
        cases j with
        | zero => simp at hx hx'; subst hx; subst hx'; exact ha
        | succ j => simp at hx hx'; exact h2 j x x' hx hx'

theorem mapUids_spec {us : List Nat} {g : Trig → Except Err Trig} : ∀ {ts ts' : List Trig}, mapUids us g ts = .ok ts' →
    ts'.length = ts.length ∧ ∀ (j : Nat) (t t' : Trig), ts[j]? = some t → ts'[j]? = some t' →
      (t.uid ∈ us → g t = .ok t') ∧ (t.uid ∉ us → t' = t)
  | [], ts', h => by
    simp only [mapUids, Except.ok.injEq] at h
    subst h; simp
  | a :: ts, ts', h => by
    simp only [mapUids] at h
    cases ha : (if us.contains a.uid then g a else .ok a) with
    | error e => rw [ha] at h; simp at h
    | ok b =>
      simp only [ha] at h
      cases hl : mapUids us g ts with
      | error e => simp [hl] at h
      | ok r =>
        simp only [hl, Except.ok.injEq] at h
        subst h
        obtain ⟨h1, h2⟩ := mapUids_spec hl
        refine ⟨by simp [h1], fun j t t' ht ht' => ?_⟩
        cases j with
        | zero =>
          simp at ht ht'; subst ht; subst ht'
          by_cases hm : a.uid ∈ us
          · simp [hm] at ha; exact ⟨fun _ => ha, fun hn => absurd hm hn⟩
          · simp [hm] at ha; exact ⟨fun h' => absurd h' hm, fun _ => ha.symm⟩
        | succ j => simp at ht ht'; exact h2 j t t' ht ht'

/-! ### modifying only triggers that the operation itself created -/

theorem EffRel.congr_right {c : Bool} {tm tm2 tm3 : TM} (h1 : uids tm3 = uids tm2) {e e' : Eff}
    (h : EffRel c tm tm2 e e') : EffRel c tm tm3 e e' := by
  have hu : ∀ i, uidAt tm3 i = uidAt tm2 i := fun i => by rw [uidAt_eq_getElem?, uidAt_eq_getElem?, h1]
  have hr : ∀ x : Eff, ref tm3 x = ref tm2 x := fun x => by
    unfold ref; cases x.target <;> simp [hu]
  obtain ⟨a, b, d⟩ := h
  refine ⟨a, b, fun ha => ⟨(d ha).1, fun u hu' => ?_⟩⟩
  obtain ⟨p, q⟩ := (d ha).2 u hu'
  rw [h1, hr]; exact ⟨p, q⟩

/-- a state that differs from a good successor only in triggers that did not exist before is a good successor -/
theorem modify_good {c : Bool} {tm tm2 tm3 : TM} (hi : Inv tm) (g : Good c tm tm2)
    (hlen : tm3.trigs.length = tm2.trigs.length)
    (hsame : ∀ (j : Nat) (t t' : Trig), tm2.trigs[j]? = some t → tm3.trigs[j]? = some t' →
      t'.uid = t.uid ∧ t'.tid = t.tid ∧ (t.uid < tm.next → t' = t))
    (ho : tm3.order = tm2.order) (hh : tm3.hashed = tm2.hashed) (hn : tm3.next = tm2.next) : Good c tm tm3 := by
  have huids : uids tm3 = uids tm2 := by
    apply ext_getElem?
    intro j
    simp only [uids, getElem?_map]
    cases h2 : tm2.trigs[j]? with
    | none =>
      have : tm3.trigs[j]? = none := by
        rw [getElem?_eq_none_iff] at h2 ⊢; omega
      simp [this]
    | some t =>
      have hj : j < tm3.trigs.length := by rw [hlen]; exact (List.getElem?_eq_some_iff.1 h2).1
      simp [getElem?_eq_getElem hj, (hsame j t _ h2 (getElem?_eq_getElem hj)).1]
  refine ⟨⟨?_, ?_, huids ▸ g.inv.uniq, ?_, ?_⟩, ⟨?_, hn ▸ g.step.mono, ?_⟩⟩
  · intro i t' ht'
    have hj : i < tm2.trigs.length := by rw [← hlen]; exact (List.getElem?_eq_some_iff.1 ht').1
    rw [(hsame i _ t' (getElem?_eq_getElem hj) ht').2.1]
    exact g.inv.ids i _ (getElem?_eq_getElem hj)
  · obtain ⟨m, hm, hmn⟩ := g.inv.order
    exact ⟨m, ho ▸ hm, fun he => by rw [hlen]; exact hmn (by rw [← hh, he, huids])⟩
  · intro u hu; rw [huids] at hu; rw [hn]; exact g.inv.fresh u hu
  · intro u hu; rw [hh] at hu; rw [hn]; exact g.inv.hfresh u hu
  · intro t ht t' ht' hu
    obtain ⟨j, hj, rfl⟩ := getElem_of_mem ht'
    have hj2 : j < tm2.trigs.length := by omega
    obtain ⟨h1, _, h3⟩ := hsame j _ _ (getElem?_eq_getElem hj2) (getElem?_eq_getElem hj)
    have hlt : tm2.trigs[j].uid < tm.next := by
      rw [← h1, hu]; exact hi.fresh _ (by simp only [uids, mem_map]; exact ⟨t, ht, rfl⟩)
    rw [h3 hlt] at hu ⊢
    obtain ⟨l, r⟩ := g.step.link t ht _ (getElem_mem hj2) hu
    exact ⟨l, fun i e e' he he' => (r i e e' he he').congr_right huids⟩
  · intro u hu; rw [huids] at hu; exact g.step.old u hu

/-! ### copy_trigger_tree -/

theorem copyNodes_good {c : Bool} : ∀ {known : List Nat} {tm tm2 : TM} {news : List Nat} {swap : List (Nat × Nat)},
    Inv tm → copyNodes tm known = .ok (tm2, news, swap) →
    Good c tm tm2 ∧ tm.next ≤ tm2.next ∧ ∀ u ∈ news, tm.next ≤ u
  | [], tm, tm2, news, swap, hi, h => by
    simp only [copyNodes, Except.ok.injEq, Prod.mk.injEq] at h
    obtain ⟨rfl, rfl, _⟩ := h
    exact ⟨Good.refl hi, Nat.le_refl _, by simp⟩
  | k :: known, tm, tm2, news, swap, hi, h => by
    simp only [copyNodes] at h
    cases hc : copy tm (.index k) false with
    | error e => simp [hc] at h
    | ok v =>
      obtain ⟨tm1, cp⟩ := v
      simp only [hc] at h
      obtain ⟨g1, hu1, hn1⟩ := copy_good (c := c) hi hc
      cases hr : copyNodes tm1 known with
      | error e => simp [hr] at h
      | ok v2 =>
        obtain ⟨tm3, news', swap'⟩ := v2
        simp only [hr, Except.ok.injEq, Prod.mk.injEq] at h
        obtain ⟨rfl, rfl, _⟩ := h
        obtain ⟨g2, hn2, hnews⟩ := copyNodes_good (c := c) g1.inv hr
        refine ⟨g1.trans hi g2, by omega, fun u hu => ?_⟩
        rcases mem_cons.1 hu with rfl | hu
        · omega
        · have := hnews u hu; omega

theorem remapTrigStrict_shape {d : List (Nat × Nat)} {t t' : Trig} (h : remapTrigStrict d t = .ok t') :
    t'.uid = t.uid ∧ t'.tid = t.tid := by
  unfold remapTrigStrict at h
  cases hm : t.effs.mapM (remapEffStrict d) with
  | error e => simp [hm] at h
  | ok es => simp [hm] at h; subst h; exact ⟨rfl, rfl⟩

theorem copyTree_good {c : Bool} {fixed : Bool} {tm tm' : TM} {s : Sel} {news : List Nat} (hi : Inv tm)
    (h : copyTree fixed tm s = .ok (tm', news)) : Good c tm tm' ∧ tm.next ≤ tm'.next := by
  unfold copyTree at h
  cases hr : resolve! tm s with
  | error e => simp [hr] at h
  | ok v =>
    obtain ⟨tm1, f⟩ := v
    obtain ⟨g1, _, _, hn1, _⟩ := resolve!_sound (c := c) hi hr
    simp only [hr] at h
    cases hk : treeNodes fixed tm1 f with
    | error e => simp [hk] at h
    | ok known =>
      simp only [hk] at h
      cases hcn : copyNodes tm1 known with
      | error e => simp [hcn] at h
      | ok v2 =>
        obtain ⟨tm2, news2, swap⟩ := v2
        simp only [hcn] at h
        obtain ⟨g2, hn2, hnews⟩ := copyNodes_good (c := c) g1.inv hcn
        cases hm : mapUids news2 (remapTrigStrict swap) tm2.trigs with
        | error e => simp [hm] at h
        | ok ts =>
          simp only [hm, Except.ok.injEq, Prod.mk.injEq] at h
          obtain ⟨rfl, rfl⟩ := h
          obtain ⟨hlen, hsp⟩ := mapUids_spec hm
          refine ⟨modify_good hi (g1.trans hi g2) hlen (fun j t t' ht ht' => ?_) rfl rfl rfl, by simp only; omega⟩
          obtain ⟨ha, hb⟩ := hsp j t t' ht ht'
          by_cases hmem : t.uid ∈ news2
          · obtain ⟨x, y⟩ := remapTrigStrict_shape (ha hmem)
            refine ⟨x, y, fun hlt => ?_⟩
            have := hnews _ hmem; omega
          · have := hb hmem; subst this; exact ⟨rfl, rfl, fun _ => rfl⟩

end Aoe.Trig
