import Aoe.Lemmas.TrigOps
/-!
Helper lemmas for C06/C07, part 6: `import_triggers` and `remove_triggers` (descending sort, sequential `del`,
`compute_updated_display_order`).
-/
namespace Aoe.Trig
open List

/-! ### `ids.sort(reverse=True)` -/

theorem insertDesc_perm (x : Nat) : ∀ l : List Nat, (insertDesc x l).Perm (x :: l)
  | [] => by simp [insertDesc]
  | y :: ys => by
    unfold insertDesc
    split
    · exact Perm.refl _
    · exact ((insertDesc_perm x ys).cons y).trans (Perm.swap x y ys)

theorem sortDesc_perm : ∀ l : List Nat, (sortDesc l).Perm l
  | [] => Perm.refl _
  | x :: xs => (insertDesc_perm x (sortDesc xs)).trans ((sortDesc_perm xs).cons x)

theorem insertDesc_sorted (x : Nat) : ∀ l : List Nat, l.Pairwise (· ≥ ·) → (insertDesc x l).Pairwise (· ≥ ·)
  | [], _ => by simp [insertDesc]
  | y :: ys, h => by
    rw [pairwise_cons] at h
    unfold insertDesc
    split
    · rename_i hyx
      rw [pairwise_cons]
      refine ⟨fun a ha => ?_, pairwise_cons.2 h⟩
      rcases mem_cons.1 ha with rfl | ha
      · exact hyx
      · exact Nat.le_trans (h.1 a ha) hyx
    · rename_i hyx
      rw [pairwise_cons]
      refine ⟨fun a ha => ?_, insertDesc_sorted x ys h.2⟩
      rcases mem_cons.1 ((insertDesc_perm x ys).subset ha) with rfl | ha
      · omega
      · exact h.1 a ha

theorem sortDesc_sorted : ∀ l : List Nat, (sortDesc l).Pairwise (· ≥ ·)
  | [] => Pairwise.nil
  | x :: xs => insertDesc_sorted x _ (sortDesc_sorted xs)

theorem sortDesc_strict {l : List Nat} (h : l.Nodup) : (sortDesc l).Pairwise (· > ·) := by
  have h1 := sortDesc_sorted l
  have h2 : (sortDesc l).Nodup := (sortDesc_perm l).symm.nodup h
  rw [nodup_iff_pairwise_ne] at h2
  exact (h1.and h2).imp (fun ⟨a, b⟩ => by omega)

theorem mem_sortDesc {l : List Nat} {a : Nat} : a ∈ sortDesc l ↔ a ∈ l := (sortDesc_perm l).mem_iff

/-! ### `for trigger_id in ids: del triggers[trigger_id]` -/

theorem eraseIdx_eq_filter_tid : ∀ {l : List Trig} {i : Nat} {x : Trig}, (l.map (·.tid)).Nodup → l[i]? = some x →
    l.eraseIdx i = l.filter (fun t => t.tid != x.tid)
  | [], _, _, _, h => by simp at h
  | a :: l, 0, x, hn, h => by
    simp only [getElem?_cons_zero, Option.some.injEq] at h
    subst h
    rw [map_cons, nodup_cons] at hn
    simp only [eraseIdx_cons_zero, filter_cons, bne_self_eq_false, Bool.false_eq_true, if_false]
    symm
    rw [filter_eq_self]
    intro b hb
    have : b.tid ≠ a.tid := fun e => hn.1 (e ▸ mem_map.2 ⟨b, hb, rfl⟩)
    simpa using this
  | a :: l, i + 1, x, hn, h => by
    simp only [getElem?_cons_succ] at h
    rw [map_cons, nodup_cons] at hn
    have hx : x ∈ l := mem_of_getElem? h
    have hne : a.tid ≠ x.tid := fun e => hn.1 (e ▸ mem_map.2 ⟨x, hx, rfl⟩)
    have : (a.tid != x.tid) = true := by simpa using hne
    simp only [eraseIdx_cons_succ, filter_cons, this, if_true, eraseIdx_eq_filter_tid hn.2 h]

theorem delAll_filter : ∀ {ids : List Nat} {cur : List Trig}, ids.Pairwise (· > ·) → (cur.map (·.tid)).Nodup →
    (∀ i ∈ ids, ∃ t, cur[i]? = some t ∧ t.tid = i) →
    delAll cur ids = .ok (cur.filter (fun t => !ids.contains t.tid))
  | [], cur, _, _, _ => by
    simp only [delAll]; congr 1; symm; rw [filter_eq_self]; intros; simp
  | i :: rest, cur, hs, hn, hv => by
    rw [pairwise_cons] at hs
    obtain ⟨t, ht, hti⟩ := hv i (by simp)
    have hlt : i < cur.length := (List.getElem?_eq_some_iff.1 ht).1
    have her := eraseIdx_eq_filter_tid hn ht
    have hn' : ((cur.eraseIdx i).map (·.tid)).Nodup := hn.sublist ((eraseIdx_sublist cur i).map _)
    have hv' : ∀ r ∈ rest, ∃ t, (cur.eraseIdx i)[r]? = some t ∧ t.tid = r := by
      intro r hr
      obtain ⟨t', ht', htr⟩ := hv r (by simp [hr])
      have hri : r < i := hs.1 r hr
      refine ⟨t', ?_, htr⟩
      rw [getElem?_eraseIdx]; simp [hri, ht']
    rw [delAll, if_pos hlt, delAll_filter hs.2 hn' hv', her, filter_filter, hti]
    congr 1
    apply filter_congr
    intro b _
    by_cases e : b.tid = i <;> by_cases e2 : b.tid ∈ rest <;> simp [e, e2]

/-! ### `compute_updated_display_order` -/

/-- number of removed ids below `i` -/
def cnt (ids : List Nat) (i : Nat) : Nat := (ids.filter (fun r => decide (r < i))).length

theorem shiftId_eq : ∀ (rs : List Nat) (index sub : Nat),
    shiftId index rs sub = if index ∈ rs then none else some (index - (sub + cnt rs index))
  | [], index, sub => by simp [shiftId, cnt]
  | r :: rs, index, sub => by
    unfold shiftId
    by_cases e : r = index
    · simp [e]
    · have e' : index ≠ r := fun x => e x.symm
      simp only [e, if_false, shiftId_eq rs, mem_cons, e', false_or]
      by_cases hm : index ∈ rs
      · simp [hm]
      · simp only [hm, if_false, cnt, filter_cons]
        by_cases hlt : r < index
        · simp [hlt]; omega
        · simp [hlt]

theorem computeUpdated_eq (order ids : List Nat) :
    computeUpdated order ids = order.filterMap (fun i => if i ∈ ids then none else some (i - cnt ids i)) := by
  unfold computeUpdated
  congr; funext i
  simp [shiftId_eq]

theorem cnt_perm {l l' : List Nat} (h : l.Perm l') (i : Nat) : cnt l i = cnt l' i :=
  (h.filter _).length_eq

theorem length_range_filter_mem {ids : List Nat} (hnd : ids.Nodup) (i : Nat) :
    ((range i).filter (fun x => decide (x ∈ ids))).length = cnt ids i := by
  unfold cnt
  apply Perm.length_eq
  rw [perm_ext_iff_of_nodup (nodup_range.sublist filter_sublist) (hnd.sublist filter_sublist)]
  intro a
  simp only [mem_filter, mem_range, decide_eq_true_eq]
  exact ⟨fun ⟨a, b⟩ => ⟨b, a⟩, fun ⟨a, b⟩ => ⟨b, a⟩⟩

theorem take_map_tid {trigs : List Trig} (hids : ∀ (i : Nat) (t : Trig), trigs[i]? = some t → t.tid = i) {i : Nat}
    (hi : i ≤ trigs.length) : (trigs.take i).map (·.tid) = range i := by
  apply ext_getElem?
  intro j
  by_cases hj : j < i
  · have hj' : j < trigs.length := by omega
    simp [getElem?_take, hj, getElem?_eq_getElem hj', getElem?_range hj, hids j _ (getElem?_eq_getElem hj')]
  · have : (range i)[j]? = none := by simp; omega
    simp [getElem?_take, hj, this]

/-- position of a surviving trigger in the list after the removal -/
theorem filter_pos {trigs : List Trig} (hids : ∀ (i : Nat) (t : Trig), trigs[i]? = some t → t.tid = i)
    {ids : List Nat} (hnd : ids.Nodup) {i : Nat} (hi : i < trigs.length) (hni : i ∉ ids) :
    (trigs.filter (fun t => !ids.contains t.tid))[i - cnt ids i]? = trigs[i]? := by
  have htid : trigs[i].tid = i := hids i _ (getElem?_eq_getElem hi)
  have hsplit : trigs = trigs.take i ++ trigs[i] :: trigs.drop (i + 1) := by
    conv => lhs; rw [← take_append_drop i trigs]
    rw [drop_eq_getElem_cons hi]
  have hlen : ((trigs.take i).filter (fun t => !ids.contains t.tid)).length = i - cnt ids i := by
    have h1 : ((trigs.take i).filter (fun t => !ids.contains t.tid)).length =
        ((range i).filter (fun x => !ids.contains x)).length := by
      rw [← take_map_tid hids (Nat.le_of_lt hi), filter_map, length_map]
      rfl
    have h2 := length_eq_countP_add_countP (fun x => decide (x ∈ ids)) (l := range i)
    simp only [countP_eq_length_filter, length_range, length_range_filter_mem hnd] at h2
    rw [h1]
    have h3 : ((range i).filter (fun x => !ids.contains x)).length =
        ((range i).filter (fun a => decide ¬(decide (a ∈ ids)) = true)).length := by
      congr 1; apply filter_congr; intro x _; simp
    rw [h3]; omega
  have hkeep : (fun t : Trig => !ids.contains t.tid) trigs[i] = true := by simp [htid, hni]
  conv => lhs; rw [hsplit, filter_append, filter_cons, if_pos hkeep]
  rw [getElem?_append_right (by omega), hlen]
  simp [getElem?_eq_getElem hi]

theorem isPerm_computeUpdated {trigs : List Trig} (hids : ∀ (i : Nat) (t : Trig), trigs[i]? = some t → t.tid = i)
    {D ids : List Nat} (hD : IsPerm D trigs.length) (hnd : ids.Nodup) :
    IsPerm (computeUpdated D ids) (trigs.filter (fun t => !ids.contains t.tid)).length := by
  rw [computeUpdated_eq]
  apply isPerm_of_nodup_lt
  · -- injective on the survivors
    rw [nodup_iff_pairwise_ne, pairwise_filterMap]
    have := hD.1
    rw [nodup_iff_pairwise_ne] at this
    refine this.imp_of_mem ?_
    intro a b ha hb hne x hx y hy e
    subst e
    by_cases ha' : a ∈ ids
    · simp [ha'] at hx
    by_cases hb' : b ∈ ids
    · simp [hb'] at hy
    simp only [ha', hb', if_false, Option.some.injEq] at hx hy
    have hal : a < trigs.length := (hD.2 a).1 ha
    have hbl : b < trigs.length := (hD.2 b).1 hb
    have h1 := filter_pos hids hnd hal ha'
    have h2 := filter_pos hids hnd hbl hb'
    rw [hx] at h1; rw [hy] at h2
    have h3 := h1.symm.trans h2
    rw [getElem?_eq_getElem hal, getElem?_eq_getElem hbl] at h3
    have h4 := congrArg Trig.tid (Option.some.inj h3)
    rw [hids a _ (getElem?_eq_getElem hal), hids b _ (getElem?_eq_getElem hbl)] at h4
    exact hne h4
  · intro x hx
    simp only [mem_filterMap] at hx
    obtain ⟨a, ha, hax⟩ := hx
    by_cases ha' : a ∈ ids
    · simp [ha'] at hax
    simp only [ha', if_false, Option.some.injEq] at hax
    have hal : a < trigs.length := (hD.2 a).1 ha
    have h1 := filter_pos hids hnd hal ha'
    rw [hax, getElem?_eq_getElem hal] at h1
    exact (List.getElem?_eq_some_iff.1 h1).1
  · -- as many displayed survivors as surviving triggers
    have h1 : (D.filterMap (fun i => if i ∈ ids then none else some (i - cnt ids i))).length =
        (D.filter (fun i => !ids.contains i)).length := by
      rw [length_filterMap_eq_countP, countP_eq_length_filter]
      congr 1; apply filter_congr; intro x _
      by_cases hx : x ∈ ids <;> simp [hx]
    rw [h1]
    have h2 : (trigs.filter (fun t => !ids.contains t.tid)).length =
        ((trigs.map (·.tid)).filter (fun i => !ids.contains i)).length := by
      rw [filter_map, length_map]; rfl
    rw [h2]
    apply Perm.length_eq
    apply Perm.filter
    have h3 : trigs.map (·.tid) = range trigs.length := by
      have := take_map_tid hids (Nat.le_refl trigs.length)
      rwa [take_length] at this
    rw [h3]
    exact isPerm_iff_perm.1 hD

end Aoe.Trig
