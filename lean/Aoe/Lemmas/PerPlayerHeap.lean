import Aoe.Lemmas.PerPlayerComp
/-!
Heap-level lemmas: what `copyOne`, `copyLoop`, `copyPerPlayer`, `replacePlayer` do to the state
(helpers of `Aoe.Props.C08`).
-/
namespace Aoe.PerPlayer

theorem heapGet_ok {h : List Trig} {a : Nat} {t : Trig} : heapGet h a = .ok t ↔ h[a]? = some t := by
  unfold heapGet
  cases h[a]? <;> simp

/-- key list of a dict after `d[k] = …` -/
def addKey (ks : List Int) (p : Int) : List Int := if ks.contains p then ks else ks ++ [p]

theorem keys_dictSet {β : Type} (d : List (Int × β)) (k : Int) (v : β) :
    (dictSet d k v).map (·.1) = addKey (d.map (·.1)) k := by
  induction d with
  | nil => simp [dictSet, addKey]
  | cons kv r ih =>
    obtain ⟨k', v'⟩ := kv
    unfold dictSet
    by_cases hk : k' = k
    · subst hk; simp [addKey]
    · have hk' : (k' == k) = false := by simpa using hk
      simp only [hk', Bool.false_eq_true, if_false, List.map_cons, ih]
      unfold addKey
      have : ¬ k = k' := fun e => hk e.symm
      by_cases hm : k ∈ r.map (·.1)
      · simp [hm]
      · simp [hm, this]

theorem mem_dictSet {β : Type} {d : List (Int × β)} {k : Int} {v : β} {p : Int} {x : β}
    (h : (p, x) ∈ dictSet d k v) : (p, x) ∈ d ∨ (p = k ∧ x = v) := by
  induction d with
  | nil => simp [dictSet] at h; exact Or.inr h
  | cons kv r ih =>
    obtain ⟨k', v'⟩ := kv
    unfold dictSet at h
    split at h
    · rename_i hk
      have hk : k' = k := by simpa using hk
      rcases List.mem_cons.mp h with h | h
      · injection h with h1 h2; exact Or.inr ⟨h1.trans hk, h2⟩
      · exact Or.inl (List.mem_cons_of_mem _ h)
    · rcases List.mem_cons.mp h with h | h
      · exact Or.inl (h ▸ List.mem_cons_self)
      · rcases ih h with h | h
        · exact Or.inl (List.mem_cons_of_mem _ h)
        · exact Or.inr h

theorem mem_foldl_addKey (l ks : List Int) (p : Int) : p ∈ l.foldl addKey ks ↔ p ∈ ks ∨ p ∈ l := by
  induction l generalizing ks with
  | nil => simp
  | cons q r ih =>
    simp only [List.foldl_cons, ih, List.mem_cons]
    unfold addKey
    by_cases hq : q ∈ ks
    · simp only [List.contains_eq_mem, hq, decide_true, if_true]
      constructor
      · rintro (h | h); exact Or.inl h; exact Or.inr (Or.inr h)
      · rintro (h | h | h); exact Or.inl h; exact Or.inl (h ▸ hq); exact Or.inr h
    · simp only [List.contains_eq_mem, hq, decide_false, Bool.false_eq_true, if_false, List.mem_append,
        List.mem_singleton]
      constructor
      · rintro ((h | h) | h); exact Or.inl h; exact Or.inr (Or.inl h); exact Or.inr (Or.inr h)
      · rintro (h | h | h); exact Or.inl (Or.inl h); exact Or.inl (Or.inr h); exact Or.inr h

theorem nodup_foldl_addKey (l ks : List Int) (h : ks.Nodup) : (l.foldl addKey ks).Nodup := by
  induction l generalizing ks with
  | nil => exact h
  | cons q r ih =>
    simp only [List.foldl_cons]
    apply ih
    unfold addKey
    by_cases hq : q ∈ ks
    · simpa [hq] using h
    · simp only [List.contains_eq_mem, hq, decide_false, Bool.false_eq_true, if_false]
      rw [List.nodup_append]
      refine ⟨h, by simp, ?_⟩
      intro a ha b hb
      rw [List.mem_singleton] at hb
      subst hb
      intro e; subst e; exact hq ha

theorem foldl_addKey_of_nodup (l ks : List Int) (h : (ks ++ l).Nodup) : l.foldl addKey ks = ks ++ l := by
  induction l generalizing ks with
  | nil => simp
  | cons q r ih =>
    simp only [List.foldl_cons]
    have hq : q ∉ ks := by
      intro hq
      rw [List.nodup_append] at h
      exact h.2.2 q hq q List.mem_cons_self rfl
    have : addKey ks q = ks ++ [q] := by simp [addKey, hq]
    rw [this, ih]
    · simp
    · simpa using h

theorem modify_append_length {α : Type} (h : List α) (t : α) (g : α → α) :
    (h ++ [t]).modify h.length g = h ++ [g t] := by
  induction h with
  | nil => rfl
  | cons x r ih => simp [List.modify_succ_cons, ih]

theorem copyOne_ok {a : Args} {src : Nat} {ac ae : List Nat} {p : Int} {s s' : State} {na : Nat}
    (h : copyOne a src ac ae p s = .ok (s', na)) :
    ∃ t0, s.heap[src]? = some t0 ∧ na = s.heap.length ∧
      s'.heap = s.heap ++ [rewriteTrig (rwCopy a.flags a.frm p) ac ae
        { t0 with tid := (s.list.length : Int), name := t0.name ++ suffix p }] ∧
      s'.list = s.list ++ [s.heap.length] ∧ s'.order = s.order ++ [(s.list.length : Int)] := by
  unfold copyOne copyTrigger at h
  split at h
  · cases h
  · rename_i s1 na1 h1
    split at h1
    · cases h1
    · split at h1
      · cases h1
      · rename_i t ht
        rw [heapGet_ok] at ht
        injection h1 with h1
        injection h1 with hs1 hna
        injection h with h
        injection h with hs' hna'
        subst hs1 hna hna' hs'
        refine ⟨t, ht, rfl, ?_, rfl, rfl⟩
        simp [heapModify, modify_append_length]

/-- the object the loop allocates for player `p` (trigger id `k`) from the source `t0` -/
def mkCopy (a : Args) (ac ae : List Nat) (t0 : Trig) (p : Int) (k : Int) : Trig :=
  rewriteTrig (rwCopy a.flags a.frm p) ac ae { t0 with tid := k, name := t0.name ++ suffix p }

theorem filter_ne_cons_eq (frm : Int) (r : List Int) :
    (frm :: r).filter (· != frm) = r.filter (· != frm) := by simp

theorem filter_ne_cons_ne {q frm : Int} (h : q ≠ frm) (r : List Int) :
    (q :: r).filter (· != frm) = q :: r.filter (· != frm) := by simp [h]

theorem copyLoop_ok {a : Args} {src : Nat} {ac ae : List Nat} {t0 : Trig} :
    ∀ {ps : List Int} {s : State} {d : List (Int × Nat)} {s' : State} {d' : List (Int × Nat)},
    copyLoop a src ac ae ps s d = .ok (s', d') → s.heap[src]? = some t0 →
    ∃ news : List Trig, s'.heap = s.heap ++ news ∧ news.length = (ps.filter (· != a.frm)).length ∧
      s'.list = s.list ++ List.range' s.heap.length news.length ∧
      s'.order = s.order ++ (List.range' s.list.length news.length).map (fun (i : Nat) => (i : Int)) ∧
      d'.map (·.1) = (ps.filter (· != a.frm)).foldl addKey (d.map (·.1)) ∧
      (∀ p x, (p, x) ∈ d' → (p, x) ∈ d ∨ (p ∈ ps ∧ p ≠ a.frm ∧ s.heap.length ≤ x ∧
          ∃ k, s'.heap[x]? = some (mkCopy a ac ae t0 p k))) := by
  intro ps
  induction ps with
  | nil =>
    intro s d s' d' h _
    simp only [copyLoop] at h
    injection h with h; injection h with h1 h2
    subst h1 h2
    exact ⟨[], by simp, rfl, by simp, by simp, by simp, fun p x hx => Or.inl hx⟩
  | cons q r ih =>
    intro s d s' d' h hs
    unfold copyLoop at h
    by_cases hq : (q == a.frm) = true
    · simp only [hq, if_true] at h
      obtain ⟨news, h1, h2, h3, ho, h4, h5⟩ := ih h hs
      have hqe : q = a.frm := by simpa using hq
      subst hqe
      refine ⟨news, h1, ?_, h3, ho, ?_, ?_⟩
      · rw [filter_ne_cons_eq]; exact h2
      · rw [filter_ne_cons_eq]; exact h4
      · intro p x hx
        rcases h5 p x hx with h | ⟨ha, hb, hc⟩
        · exact Or.inl h
        · exact Or.inr ⟨List.mem_cons_of_mem _ ha, hb, hc⟩
    · simp only [hq, Bool.false_eq_true, if_false] at h
      split at h
      · cases h
      · rename_i s1 na h1
        obtain ⟨t0', ht0, hna, hh, hl, hord⟩ := copyOne_ok h1
        rw [hs] at ht0; injection ht0 with ht0; subst ht0
        have hsrc : src < s.heap.length := by
          rcases Nat.lt_or_ge src s.heap.length with h | h
          · exact h
          · rw [List.getElem?_eq_none h] at hs; cases hs
        have hs1 : s1.heap[src]? = some t0 := by
          rw [hh, List.getElem?_append_left hsrc]; exact hs
        obtain ⟨news, g1, g2, g3, go, g4, g5⟩ := ih h hs1
        have hqne : q ≠ a.frm := by simpa using hq
        refine ⟨mkCopy a ac ae t0 q (s.list.length : Int) :: news, ?_, ?_, ?_, ?_, ?_, ?_⟩
        · rw [g1, hh]; simp [mkCopy]
        · rw [filter_ne_cons_ne hqne]; simp [g2]
        · rw [g3, hl, hh]; simp [List.range'_succ]
        · rw [go, hord, hl]; simp [List.range'_succ]
        · rw [g4, keys_dictSet, filter_ne_cons_ne hqne]; rfl
        · intro p x hx
          rcases g5 p x hx with h | ⟨ha, hb, hc, k, hk⟩
          · rcases mem_dictSet h with h | ⟨hp, hx'⟩
            · exact Or.inl h
            · subst hp hx'
              refine Or.inr ⟨List.mem_cons_self, hqne, by rw [hna]; exact Nat.le_refl _, (s.list.length : Int), ?_⟩
              rw [g1, hh, hna]
              simp [mkCopy]
          · refine Or.inr ⟨List.mem_cons_of_mem _ ha, hb, ?_, k, hk⟩
            rw [hh] at hc; simp at hc; omega

theorem vals_dictSet_nodup {d : List (Int × Nat)} {k : Int} {v : Nat} (hn : (d.map (·.2)).Nodup)
    (hv : v ∉ d.map (·.2)) : ((dictSet d k v).map (·.2)).Nodup := by
  induction d with
  | nil => simp [dictSet]
  | cons kv r ih =>
    obtain ⟨k', v'⟩ := kv
    simp only [List.map_cons, List.nodup_cons, List.mem_cons, not_or] at hn hv
    unfold dictSet
    split
    · simp only [List.map_cons, List.nodup_cons]
      exact ⟨hv.2, hn.2⟩
    · simp only [List.map_cons, List.nodup_cons]
      refine ⟨?_, ih hn.2 hv.2⟩
      intro hm
      rcases List.mem_map.mp hm with ⟨⟨p, x⟩, hpx, hx⟩
      simp only at hx; subst hx
      rcases mem_dictSet hpx with h | ⟨_, h⟩
      · exact hn.1 (List.mem_map.mpr ⟨(p, x), h, rfl⟩)
      · exact hv.1 h.symm

theorem vals_dictSet_lt {d : List (Int × Nat)} {k : Int} {v n : Nat} (hd : ∀ x ∈ d.map (·.2), x < n) (hv : v < n) :
    ∀ x ∈ (dictSet d k v).map (·.2), x < n := by
  intro x hx
  rcases List.mem_map.mp hx with ⟨⟨p, y⟩, hpy, hy⟩
  simp only at hy; subst hy
  rcases mem_dictSet hpy with h | ⟨_, h⟩
  · exact hd _ (List.mem_map.mpr ⟨(p, y), h, rfl⟩)
  · rw [h]; exact hv

theorem copyLoop_vals {a : Args} {src : Nat} {ac ae : List Nat} :
    ∀ {ps : List Int} {s : State} {d : List (Int × Nat)} {s' : State} {d' : List (Int × Nat)},
    copyLoop a src ac ae ps s d = .ok (s', d') → (d.map (·.2)).Nodup → (∀ x ∈ d.map (·.2), x < s.heap.length) →
    (d'.map (·.2)).Nodup ∧ (∀ x ∈ d'.map (·.2), x < s'.heap.length) := by
  intro ps
  induction ps with
  | nil =>
    intro s d s' d' h hn hl
    simp only [copyLoop] at h
    injection h with h; injection h with h1 h2
    subst h1 h2
    exact ⟨hn, hl⟩
  | cons q r ih =>
    intro s d s' d' h hn hl
    unfold copyLoop at h
    split at h
    · exact ih h hn hl
    · split at h
      · cases h
      · rename_i s1 na h1
        obtain ⟨t0', ht0, hna, hh, hl', _⟩ := copyOne_ok h1
        have hlen : s1.heap.length = s.heap.length + 1 := by rw [hh]; simp
        apply ih h
        · apply vals_dictSet_nodup hn
          intro hm
          have := hl _ hm
          omega
        · apply vals_dictSet_lt
          · intro x hx; have := hl x hx; omega
          · omega

/-- `sel` resolves in `s` to the trigger object at address `src`, whose current value is `t0` -/
def Selects (s : State) (sel : Sel) (src : Nat) (t0 : Trig) : Prop :=
  ∃ ti di, resolve s sel = .ok (ti, di, src) ∧ s.heap[src]? = some t0

/-- the players a call asks copies for: `create_copy_for_players`, by default players 1..8 -/
def requested (a : Args) : List Int :=
  match a.players with
  | some l => l
  | none => [1, 2, 3, 4, 5, 6, 7, 8]

theorem effPlayers_eq (a : Args) :
    effPlayers a = if a.gaia && !(requested a).contains 0 then requested a ++ [0] else requested a := rfl

/-- the players that get a copy, in the order of the returned dict -/
def owners (a : Args) : List Int := ((effPlayers a).filter (· != a.frm)).foldl addKey []

/-- the only change `copy_trigger_per_player` makes to its source object -/
def renameSrc (frm : Int) (t : Trig) : Trig := { t with name := t.name ++ s!" (p{frm})" }

theorem copyPerPlayer_ok {s s' : State} {a : Args} {sel : Sel} {d : List (Int × Nat)}
    (h : copyPerPlayer s a sel = .ok (s', d)) :
    ∃ ti di src t0 news,
      resolve s sel = .ok (ti, di, src) ∧ s.heap[src]? = some t0 ∧
      s'.heap = s.heap.modify src (renameSrc a.frm) ++ news ∧
      news.length = ((effPlayers a).filter (· != a.frm)).length ∧
      s'.list = s.list ++ List.range' s.heap.length news.length ∧
      s'.order = s.order ++ (List.range' s.list.length news.length).map (fun (i : Nat) => (i : Int)) ∧
      d.map (·.1) = owners a ∧
      ∀ p x, (p, x) ∈ d → p ∈ effPlayers a ∧ p ≠ a.frm ∧ s.heap.length ≤ x ∧
        ∃ k, s'.heap[x]? = some (mkCopy a (alterOf a.lock t0).1 (alterOf a.lock t0).2 t0 p k) := by
  unfold copyPerPlayer at h
  split at h
  · cases h
  · rename_i ti di src hres
    split at h
    · cases h
    · rename_i t0 ht0
      rw [heapGet_ok] at ht0
      split at h
      · cases h
      · split at h
        · cases h
        · rename_i s1 d1 hloop
          injection h with h; injection h with hs' hd
          subst hd
          obtain ⟨news, g1, g2, g3, go, g4, g5⟩ := copyLoop_ok hloop ht0
          have hsrc : src < s.heap.length := by
            rcases Nat.lt_or_ge src s.heap.length with h | h
            · exact h
            · rw [List.getElem?_eq_none h] at ht0; cases ht0
          have hheap : s'.heap = s.heap.modify src (renameSrc a.frm) ++ news := by
            rw [← hs']; simp only [heapModify]; rw [g1]
            apply List.ext_getElem?
            intro j
            rw [List.getElem?_modify]
            rcases Nat.lt_or_ge j s.heap.length with hj | hj
            · rw [List.getElem?_append_left hj, List.getElem?_append_left (by simpa using hj),
                List.getElem?_modify]; rfl
            · have hne : src ≠ j := by omega
              rw [List.getElem?_append_right hj, List.getElem?_append_right (by simpa using hj)]
              simp [hne]
          refine ⟨ti, di, src, t0, news, hres, ht0, hheap, g2, ?_, ?_, ?_, ?_⟩
          · rw [← hs']; exact g3
          · rw [← hs']; exact go
          · rw [g4]; rfl
          · intro p x hx
            rcases g5 p x hx with h | ⟨ha, hb, hc, k, hk⟩
            · cases h
            · refine ⟨ha, hb, hc, k, ?_⟩
              rw [hheap, List.getElem?_append_right (by simpa using hc)]
              rw [g1, List.getElem?_append_right hc] at hk
              simpa using hk

theorem copyPerPlayer_vals_nodup {s s' : State} {a : Args} {sel : Sel} {d : List (Int × Nat)}
    (h : copyPerPlayer s a sel = .ok (s', d)) : (d.map (·.2)).Nodup := by
  unfold copyPerPlayer at h
  split at h
  · cases h
  · split at h
    · cases h
    · split at h
      · cases h
      · split at h
        · cases h
        · rename_i s1 d1 hloop
          injection h with h; injection h with _ hd
          subst hd
          exact (copyLoop_vals hloop (by simp) (by simp)).1

/-- lock predicate of a condition -/
def lockedC (lk : Lock) (j : Nat) (c : Comp) : Bool := lockedBy lk.lockConds lk.condIds lk.condTypes j c
/-- lock predicate of an effect -/
def lockedE (lk : Lock) (j : Nat) (c : Comp) : Bool := lockedBy lk.lockEffs lk.effIds lk.effTypes j c

/-- componentwise description of the rewriting loops: every component that is not locked gets `g` -/
def rewriteSpec (g : Comp → Comp) (lk : Lock) (t : Trig) : Trig :=
  { t with conds := t.conds.mapIdx (fun j c => if lockedC lk j c then c else g c),
           effs := t.effs.mapIdx (fun j c => if lockedE lk j c then c else g c) }

theorem rewriteTrig_alterOf (g : Comp → Comp) (lk : Lock) (t0 t : Trig) (hc : t.conds = t0.conds)
    (he : t.effs = t0.effs) :
    rewriteTrig g (alterOf lk t0).1 (alterOf lk t0).2 t = rewriteSpec g lk t := by
  unfold rewriteTrig rewriteSpec alterOf lockedC lockedE
  simp only [hc, he, applyAt_alterIdx]

theorem mkCopy_eq (a : Args) (t0 : Trig) (p k : Int) :
    mkCopy a (alterOf a.lock t0).1 (alterOf a.lock t0).2 t0 p k =
      rewriteSpec (rwCopy a.flags a.frm p) a.lock { t0 with tid := k, name := t0.name ++ suffix p } := by
  unfold mkCopy
  exact rewriteTrig_alterOf _ _ _ _ rfl rfl

theorem replacePlayer_ok {s s' : State} {sel : Sel} {to : Int} {only : Option Int} {is_ it : Bool} {lk : Lock}
    {x : Nat} (h : replacePlayer s sel to only is_ it lk = .ok (s', x)) :
    ∃ ti di t0, resolve s sel = .ok (ti, di, x) ∧ s.heap[x]? = some t0 ∧
      s'.heap = s.heap.modify x (fun _ => rewriteSpec (rwReplace is_ it to only) lk t0) ∧
      s'.list = s.list ∧ s'.order = s.order := by
  unfold replacePlayer at h
  split at h
  · cases h
  · rename_i ti di src hres
    split at h
    · cases h
    · rename_i t0 ht0
      rw [heapGet_ok] at ht0
      split at h
      · cases h
      · injection h with h; injection h with hs' hx
        subst hx hs'
        refine ⟨ti, di, t0, hres, ht0, ?_, rfl, rfl⟩
        simp only [heapModify]
        apply List.ext_getElem?
        intro j
        simp only [List.getElem?_modify]
        by_cases hj : src = j
        · subst hj; simp [ht0, rewriteTrig_alterOf]
        · simp [hj]

/-! ### relating components of a source trigger and of a result trigger -/

/-- `c` is component `j` of `t0` and `c'` is component `j` of `t'` (`isEff`: effects, otherwise conditions) -/
def Corr (t0 t' : Trig) (isEff : Bool) (j : Nat) (c c' : Comp) : Prop :=
  if isEff then t0.effs[j]? = some c ∧ t'.effs[j]? = some c' else t0.conds[j]? = some c ∧ t'.conds[j]? = some c'

/-- is the component `c` at index `j` locked by the `TriggerCELock`? -/
def lockedAt (lk : Lock) (isEff : Bool) (j : Nat) (c : Comp) : Bool :=
  if isEff then lockedE lk j c else lockedC lk j c

theorem corr_rewriteSpec {g : Comp → Comp} {lk : Lock} {t0 t1 : Trig} (hc : t1.conds = t0.conds)
    (he : t1.effs = t0.effs) {isEff : Bool} {j : Nat} {c c' : Comp}
    (h : Corr t0 (rewriteSpec g lk t1) isEff j c c') : c' = if lockedAt lk isEff j c then c else g c := by
  unfold Corr rewriteSpec at h
  unfold lockedAt
  cases isEff
  · simp only [Bool.false_eq_true, if_false, hc, List.getElem?_mapIdx] at h ⊢
    obtain ⟨h1, h2⟩ := h
    rw [h1] at h2
    simpa using h2.symm
  · simp only [if_true, he, List.getElem?_mapIdx] at h ⊢
    obtain ⟨h1, h2⟩ := h
    rw [h1] at h2
    simpa using h2.symm

theorem length_rewriteSpec (g : Comp → Comp) (lk : Lock) (t : Trig) :
    (rewriteSpec g lk t).conds.length = t.conds.length ∧ (rewriteSpec g lk t).effs.length = t.effs.length := by
  simp [rewriteSpec]

end Aoe.PerPlayer
