import Aoe.Model.PerPlayer
/-!
Component- and list-level lemmas about the rewriting loops of `Aoe.PerPlayer` (helpers of `Aoe.Props.C08`).
-/
namespace Aoe.PerPlayer

/-! ### one component -/

theorem rwCopy_frame (f : Flags) (frm p : Int) (c : Comp) :
    (rwCopy f frm p c).kind = c.kind ∧ (rwCopy f frm p c).link = c.link ∧ (rwCopy f frm p c).rest = c.rest := by
  unfold rwCopy
  grind

theorem rwCopy_src (f : Flags) (frm p : Int) (c : Comp) (h : (rwCopy f frm p c).src ≠ c.src) :
    f.incSrc = true ∧ (rwCopy f frm p c).src = some p ∧ (f.fromOnly = true → c.src = some frm) ∧
      c.src ≠ some (-1) := by
  unfold rwCopy at h ⊢
  grind

theorem rwCopy_tgt (f : Flags) (frm p : Int) (c : Comp) (h : (rwCopy f frm p c).tgt ≠ c.tgt) :
    f.incTgt = true ∧ (rwCopy f frm p c).tgt = some p ∧ (f.fromOnly = true → c.tgt = some frm) ∧
      c.src ≠ some (-1) := by
  unfold rwCopy at h ⊢
  grind
theorem rwReplace_frame (is_ it : Bool) (to : Int) (only : Option Int) (c : Comp) :
    (rwReplace is_ it to only c).kind = c.kind ∧ (rwReplace is_ it to only c).link = c.link ∧
      (rwReplace is_ it to only c).rest = c.rest := by
  unfold rwReplace rwReplaceTgt
  grind

theorem rwReplace_src (is_ it : Bool) (to : Int) (only : Option Int) (c : Comp)
    (h : (rwReplace is_ it to only c).src ≠ c.src) :
    is_ = true ∧ (rwReplace is_ it to only c).src = some to ∧ (∀ o, only = some o → c.src = some o) ∧
      c.src ≠ none ∧ c.src ≠ some (-1) := by
  unfold rwReplace rwReplaceTgt valid at h ⊢
  grind

theorem rwReplace_tgt (is_ it : Bool) (to : Int) (only : Option Int) (c : Comp)
    (h : (rwReplace is_ it to only c).tgt ≠ c.tgt) :
    it = true ∧ (rwReplace is_ it to only c).tgt = some to ∧ (∀ o, only = some o → c.tgt = some o) ∧
      c.tgt ≠ none ∧ c.tgt ≠ some (-1) := by
  unfold rwReplace rwReplaceTgt valid at h ⊢
  grind

/-! ### `applyAt` -/

theorem length_applyAt (g : Comp → Comp) (idxs : List Nat) (cs : List Comp) :
    (applyAt g idxs cs).length = cs.length := by
  unfold applyAt
  induction idxs generalizing cs with
  | nil => rfl
  | cons i r ih => simp [List.foldl_cons, ih]

theorem getElem?_applyAt (g : Comp → Comp) (idxs : List Nat) (hn : idxs.Nodup) (cs : List Comp) (j : Nat) :
    (applyAt g idxs cs)[j]? = if j ∈ idxs then cs[j]?.map g else cs[j]? := by
  unfold applyAt
  induction idxs generalizing cs with
  | nil => simp
  | cons i r ih =>
    have hn' := (List.nodup_cons.mp hn)
    simp only [List.foldl_cons]
    rw [ih hn'.2]
    by_cases hj : j = i
    · subst hj
      simp [hn'.1]
    · have : ¬ i = j := fun e => hj e.symm
      simp [hj, this]

/-! ### `_find_alterable_ce` -/

/-- the lock predicate `_find_alterable_ce` evaluates for the component `c` at index `j` -/
def lockedBy (lockAll : Bool) (ids types : List Int) (j : Nat) (c : Comp) : Bool :=
  lockAll || ids.contains (j : Int) || types.contains c.kind

theorem nodup_alterIdx (la : Bool) (ids types : List Int) (cs : List Comp) : (alterIdx la ids types cs).Nodup := by
  unfold alterIdx
  split
  · exact List.nodup_nil
  · have h1 : ((cs.zipIdx.filter (fun ci => !ids.contains (ci.2 : Int) && !types.contains ci.1.kind)).map (·.2)).Sublist
        (cs.zipIdx.map (·.2)) := List.Sublist.map _ List.filter_sublist
    rw [List.zipIdx_map_snd] at h1
    exact h1.nodup List.nodup_range'

theorem mem_alterIdx (la : Bool) (ids types : List Int) (cs : List Comp) (j : Nat) :
    j ∈ alterIdx la ids types cs ↔ ∃ c, cs[j]? = some c ∧ lockedBy la ids types j c = false := by
  unfold alterIdx lockedBy
  cases la
  · simp only [Bool.false_eq_true, if_false, List.mem_map, List.mem_filter, List.mem_zipIdx_iff_getElem?]
    constructor
    · rintro ⟨⟨c, i⟩, ⟨h1, h2⟩, rfl⟩
      exact ⟨c, h1, by simpa using h2⟩
    · rintro ⟨c, h1, h2⟩
      exact ⟨(c, j), ⟨h1, by simpa using h2⟩, rfl⟩
  · simp

/-- the two loops computed in one pass: every component that is not locked is rewritten -/
theorem applyAt_alterIdx (g : Comp → Comp) (la : Bool) (ids types : List Int) (cs : List Comp) :
    applyAt g (alterIdx la ids types cs) cs =
      cs.mapIdx (fun j c => if lockedBy la ids types j c then c else g c) := by
  apply List.ext_getElem?
  intro j
  rw [getElem?_applyAt g _ (nodup_alterIdx la ids types cs)]
  rw [List.getElem?_mapIdx]
  cases hc : cs[j]? with
  | none =>
    have : j ∉ alterIdx la ids types cs := by
      rw [mem_alterIdx]; rintro ⟨c, h1, _⟩; rw [hc] at h1; cases h1
    simp [this]
  | some c =>
    by_cases hl : lockedBy la ids types j c = true
    · have : j ∉ alterIdx la ids types cs := by
        rw [mem_alterIdx]; rintro ⟨c', h1, h2⟩; rw [hc] at h1; cases h1; rw [hl] at h2; cases h2
      simp [this, hl]
    · have : j ∈ alterIdx la ids types cs := by
        rw [mem_alterIdx]; exact ⟨c, hc, by simpa using hl⟩
      simp [this, hl]

end Aoe.PerPlayer
