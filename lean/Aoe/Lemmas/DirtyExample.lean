import Aoe.Lemmas.DirtyRun
/-!
A small concrete scenario for the non-vacuity examples and the `_counter` witnesses of C18:
plain field `0` (think `Map.collide_and_correct`, manager slot `0`), count field `1` (`number_of_triggers`), struct list
`10` (`trigger_data`) whose records have the field `20` (`trigger_name`).
-/
namespace Aoe.Dirty.Example

def dfltRec : Rec := fun f => if f = 20 then some { data := some (.tok "new"), dirty := false } else none

def cfg (allow fixed : Bool) : Cfg :=
  { allow := allow, fixed := fixed,
    prog := [.objs 10 [(1, .len)], .plain 0 0],
    dflt := fun _ => dfltRec }

def scn : Scn :=
  { plain := fun f =>
      if f = 0 then some { data := some (.tok "file"), dirty := false }
      else if f = 1 then some { data := some (.int 0), dirty := false } else none,
    lists := fun l => if l = 10 then some { data := some [], dirty := false } else none,
    mgr := fun k => if k = 0 then some (.tok "file") else none,
    mobjs := fun _ => [] }

def trig (name : String) : MObj := [(20, .tok name)]

/-- add three triggers, save, remove two, save – no direct section edit at all -/
def growShrink : List Op :=
  [.mgrObjs 10 [trig "a", trig "b", trig "c"], .save, .mgrObjs 10 [trig "a"], .save]

/-- the user writes the field directly, the manager holds something else, two saves -/
def userVsManager : List Op :=
  [.mgrSet 0 (.tok "manager"), .userSet 0 (some (.tok "user")), .save, .mgrSet 0 (.tok "manager2"), .save]

/-! observations on the outcome of a history (decidable, for `decide`) -/

def listDirty (r : Except Err Scn) (l : Field) : Option Bool :=
  match r with | .ok s => (s.lists l).map (·.dirty) | .error _ => none

def plainDirty (r : Except Err Scn) (f : Field) : Option Bool :=
  match r with | .ok s => (s.plain f).map (·.dirty) | .error _ => none

def listLen (r : Except Err Scn) (l : Field) : Option Nat :=
  match r with | .ok s => (savedRecs s l).map (·.length) | .error _ => none

def mgrLen (r : Except Err Scn) (l : Field) : Option Nat :=
  match r with | .ok s => some (s.mobjs l).length | .error _ => none

def plainVal (r : Except Err Scn) (f : Field) : Option (Option Val) :=
  match r with | .ok s => (s.plain f).map (·.data) | .error _ => none

def recVal (r : Except Err Scn) (l : Field) (i : Nat) (f : Field) : Option (Option Val) :=
  match r with | .ok s => some (savedRec s l i f) | .error _ => none

def isOk (r : Except Err Scn) : Bool := match r with | .ok _ => true | .error _ => false

theorem dfltRec_loaded : RecLoaded dfltRec := by
  intro f c h
  unfold dfltRec at h
  split at h
  · cases h; exact ⟨rfl, rfl⟩
  · cases h

theorem cfg_dflt (allow fixed : Bool) : DfltLoaded (cfg allow fixed) := fun _ => dfltRec_loaded

theorem scn_loaded : Loaded scn where
  plain := by
    intro f c h
    unfold scn at h
    simp only at h
    split at h
    · cases h; exact ⟨rfl, rfl⟩
    · split at h
      · cases h; exact ⟨rfl, rfl⟩
      · cases h
  lists := by
    intro l c h
    unfold scn at h
    simp only at h
    split at h
    · cases h
      refine ⟨⟨rfl, rfl⟩, ?_⟩
      intro recs hr r hm
      cases hr
      cases hm
    · cases h

end Aoe.Dirty.Example
