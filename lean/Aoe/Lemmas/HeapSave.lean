import Aoe.Lemmas.HeapStep2
/-!
C09: `save`.  (1) it never touches the heap or any manager list; (2) when every object the scenario holds is its
own, the commit rewrites the scenario's section completely: the output is `render heap list` – a function of the
reachable part of the heap only – and no other scenario's section is written.
-/
namespace Aoe.Heap

theorem length_resize {α : Type} (d : α) (n : Nat) (l : List α) : (resize d n l).length = n := by
  simp [resize, List.length_take]; omega

theorem lookupAll_forall {α : Type} (P : α → Prop) (cs : List α) :
    ∀ (as : List Addr) (r : List α), lookupAll cs as = some r → (∀ a ∈ as, ∀ (x : α), cs[a]? = some x → P x) → ∀ x ∈ r, P x
  | [], r, h, _, x, hx => by simp [lookupAll] at h; subst h; simp at hx
  | a :: as, r, h, hp, x, hx => by
    simp only [lookupAll] at h
    cases h1 : cs[a]? <;> cases h2 : lookupAll cs as <;> simp [h1, h2] at h
    subst h
    rcases List.mem_cons.mp hx with rfl | hx'
    · exact hp a (by simp) _ h1
    · exact lookupAll_forall P cs as _ h2 (fun b hb => hp b (by simp [hb])) x hx'

/-- what stays the same when only sections are written -/
structure SameObjs (w w' : World) : Prop where
  heap : w'.heap = w.heap
  trigsOf : w'.trigsOf = w.trigsOf
  live : w'.live = w.live

theorem SameObjs.refl (w : World) : SameObjs w w := ⟨rfl, rfl, rfl⟩
theorem SameObjs.trans {a b c : World} (x : SameObjs a b) (y : SameObjs b c) : SameObjs a c :=
  ⟨y.heap.trans x.heap, y.trigsOf.trans x.trigsOf, y.live.trans x.live⟩

theorem updSect_same {w w' : World} {v : Uid} {f : List STrig → Except Err (List STrig)} (e : updSect w v f = .ok w') :
    SameObjs w w' := by
  unfold updSect at e
  by_cases hl : w.live v = true
  · simp only [hl, if_true] at e
    cases hf : f (w.sectOf v) with
    | error x => simp [hf] at e
    | ok s => simp only [hf, Except.ok.injEq] at e; subst e; exact ⟨rfl, rfl, rfl⟩
  · simp [hl] at e

theorem commitComps_same (isC : Bool) (i : Nat) : ∀ (cs : List Comp) (j : Nat) (w w' : World),
    commitComps isC i j cs w = .ok w' → SameObjs w w'
  | [], _, w, w', e => by simp only [commitComps, Except.ok.injEq] at e; subst e; exact SameObjs.refl _
  | c :: cs, j, w, w', e => by
    simp only [commitComps] at e
    split at e
    · simp at e
    · rename_i w1 h1
      exact (updSect_same h1).trans (commitComps_same isC i cs (j + 1) w1 w' e)

theorem commitTrig_same {h : Heap} {i : Nat} {a : Addr} {w w' : World} (e : commitTrig h i a w = .ok w') : SameObjs w w' := by
  unfold commitTrig at e
  split at e
  · simp at e
  · split at e
    · simp at e
    · split at e
      · simp at e
      · rename_i w1 h1
        split at e
        · simp at e
        · rename_i w2 h2
          exact ((updSect_same h1).trans (commitComps_same _ _ _ _ _ _ h2)).trans (commitComps_same _ _ _ _ _ _ e)

theorem commitTrigs_same (h : Heap) : ∀ (as : List Addr) (i : Nat) (w w' : World),
    commitTrigs h i as w = .ok w' → SameObjs w w'
  | [], _, w, w', e => by simp only [commitTrigs, Except.ok.injEq] at e; subst e; exact SameObjs.refl _
  | a :: as, i, w, w', e => by
    simp only [commitTrigs] at e
    split at e
    · simp at e
    · rename_i w1 h1
      exact (commitTrig_same h1).trans (commitTrigs_same h as (i + 1) w1 w' e)

/-- **save never touches objects**: heap, manager lists and the store are the same afterwards -/
theorem save_same {w w' : World} {u : Uid} {o : List STrig} (e : save w u = .ok (w', o)) : SameObjs w w' := by
  unfold save at e
  by_cases hl : w.live u = true
  · simp only [hl, if_true] at e
    split at e
    · simp at e
    · rename_i w1 h1
      simp only [Except.ok.injEq, Prod.mk.injEq] at e
      obtain ⟨rfl, _⟩ := e
      have := commitTrigs_same _ _ _ _ _ h1
      exact ⟨this.heap, this.trigsOf, this.live⟩
  · simp [hl] at e

/-! ## the owned case: closed form -/

def fld (isC : Bool) (tr : STrig) : List SComp := if isC then tr.conds else tr.effs
def setFld (isC : Bool) (tr : STrig) (l : List SComp) : STrig := if isC then { tr with conds := l } else { tr with effs := l }

theorem setFld_setFld (isC : Bool) (tr : STrig) (l l' : List SComp) : setFld isC (setFld isC tr l) l' = setFld isC tr l' := by
  cases isC <;> simp [setFld]

theorem fld_setFld (isC : Bool) (tr : STrig) (l : List SComp) : fld isC (setFld isC tr l) = l := by
  cases isC <;> simp [fld, setFld]

/-- a state in which only the section of `u` differs, by the given list -/
structure SectIs (w w' : World) (u : Uid) (s : List STrig) : Prop where
  same : SameObjs w w'
  others : ∀ x, x ≠ u → w'.sectOf x = w.sectOf x
  mine : w'.sectOf u = s

theorem putComp_ok (isC : Bool) (j : Nat) (r : SComp) (tr : STrig) (pre post : List SComp) (x : SComp)
    (hf : fld isC tr = pre ++ x :: post) (hj : pre.length = j) :
    putComp isC j r tr = .ok (setFld isC tr (pre ++ r :: post)) := by
  have hget : (pre ++ x :: post)[j]? = some x := by
    rw [List.getElem?_append_right (by omega)]; simp [hj]
  have hset : (pre ++ x :: post).set j r = pre ++ r :: post := by
    rw [← hj]; simp
  cases isC
  · simp only [fld, Bool.false_eq_true, if_false] at hf
    simp [putComp, updAt, hf, hget, hset, setFld]
  · simp only [fld, if_true] at hf
    simp [putComp, updAt, hf, hget, hset, setFld]

theorem commitComps_owned (isC : Bool) (i : Nat) (u : Uid) :
    ∀ (cs : List Comp) (j : Nat) (w : World) (tr : STrig) (pre post : List SComp),
      (∀ c ∈ cs, c.uuid = u) → w.live u = true → (w.sectOf u)[i]? = some tr →
      fld isC tr = pre ++ post → pre.length = j → post.length = cs.length →
      ∃ w', commitComps isC i j cs w = .ok w' ∧
        SectIs w w' u ((w.sectOf u).set i (setFld isC tr (pre ++ cs.map renderComp)))
  | [], j, w, tr, pre, post, _, _, hi, hf, _, hp => by
    have : post = [] := List.eq_nil_of_length_eq_zero (by simpa using hp)
    subst this
    refine ⟨w, rfl, SameObjs.refl _, fun _ _ => rfl, ?_⟩
    simp only [List.map_nil]
    rw [← hf]
    have : setFld isC tr (fld isC tr) = tr := by cases isC <;> simp [setFld, fld]
    rw [this]
    obtain ⟨hlt, hget⟩ := List.getElem?_eq_some_iff.mp hi
    rw [← hget, List.set_getElem_self]
  | c :: cs, j, w, tr, pre, post, hu, hl, hi, hf, hj, hp => by
    cases post with
    | nil => simp at hp
    | cons x post =>
      have hcu : c.uuid = u := hu c (by simp)
      have hput := putComp_ok isC j (renderComp c) tr pre post x hf hj
      have hi' : i < (w.sectOf u).length := (List.getElem?_eq_some_iff.mp hi).1
      -- the first write
      let tr1 := setFld isC tr (pre ++ renderComp c :: post)
      let w1 : World := { w with sectOf := setFn w.sectOf u ((w.sectOf u).set i tr1) }
      have e1 : updSect w c.uuid (fun ts => updAt ts i (putComp isC j (renderComp c))) = .ok w1 := by
        simp [updSect, hcu, hl, updAt, hi, hput, w1, tr1]
      have hs1 : w1.sectOf u = (w.sectOf u).set i tr1 := setFn_same _ _ _
      have hi1 : (w1.sectOf u)[i]? = some tr1 := by rw [hs1]; simp [hi']
      have hf1 : fld isC tr1 = (pre ++ [renderComp c]) ++ post := by simp [tr1, fld_setFld]
      obtain ⟨w', e2, s2⟩ := commitComps_owned isC i u cs (j + 1) w1 tr1 (pre ++ [renderComp c]) post
        (fun d hd => hu d (by simp [hd])) hl hi1 hf1 (by simp [hj]) (by simpa using hp)
      refine ⟨w', by simp [commitComps, e1, e2], ⟨⟨s2.same.heap, s2.same.trigsOf, s2.same.live⟩, ?_, ?_⟩⟩
      · intro y hy
        rw [s2.others y hy]
        exact setFn_other _ _ _ _ hy
      · rw [s2.mine, hs1]
        simp [tr1, setFld_setFld]

/-- `Trigger.commit` of an owned trigger: record `i` of the own section becomes its rendering -/
theorem commitTrig_owned {h : Heap} {i : Nat} {a : Addr} {w : World} {u : Uid} {t : Trig} {cs : List Comp} {tr0 : STrig}
    (ht : h.trigs[a]? = some t) (hcs : lookupAll h.comps t.comps = some cs) (htu : t.uuid = u)
    (hcu : ∀ c ∈ cs, c.uuid = u) (hl : w.live u = true) (hi : (w.sectOf u)[i]? = some tr0) :
    ∃ w', commitTrig h i a w = .ok w' ∧
      SectIs w w' u ((w.sectOf u).set i { name := t.name, effs := (effsOf cs).map renderComp, conds := (condsOf cs).map renderComp }) := by
  have hi' : i < (w.sectOf u).length := (List.getElem?_eq_some_iff.mp hi).1
  let trA : STrig := { name := t.name, effs := resize dfltComp (effsOf cs).length tr0.effs,
                       conds := resize dfltComp (condsOf cs).length tr0.conds }
  let w1 : World := { w with sectOf := setFn w.sectOf u ((w.sectOf u).set i trA) }
  have e1 : updSect w t.uuid (fun ts => updAt ts i (fun tr =>
              .ok { name := t.name, effs := resize dfltComp (effsOf cs).length tr.effs,
                    conds := resize dfltComp (condsOf cs).length tr.conds })) = .ok w1 := by
    simp [updSect, htu, hl, updAt, hi, w1, trA]
  have hs1 : w1.sectOf u = (w.sectOf u).set i trA := setFn_same _ _ _
  have hi1 : (w1.sectOf u)[i]? = some trA := by rw [hs1]; simp [hi']
  obtain ⟨w2, e2, s2⟩ := commitComps_owned false i u (effsOf cs) 0 w1 trA [] trA.effs
    (fun c hc => hcu c (List.mem_filter.mp hc).1) hl hi1 (by simp [fld]) rfl (by simp [trA, length_resize])
  have hi2 : (w2.sectOf u)[i]? = some (setFld false trA ((effsOf cs).map renderComp)) := by
    rw [s2.mine, hs1]; simp [hi']
  have hl2 : w2.live u = true := by rw [s2.same.live]; exact hl
  obtain ⟨w3, e3, s3⟩ := commitComps_owned true i u (condsOf cs) 0 w2 _ [] trA.conds
    (fun c hc => hcu c (List.mem_filter.mp hc).1) hl2 hi2 (by simp [fld, setFld, trA]) rfl (by simp [trA, length_resize])
  refine ⟨w3, by simp [commitTrig, ht, hcs, e1, e2, e3], ⟨⟨?_, ?_, ?_⟩, ?_, ?_⟩⟩
  · rw [s3.same.heap, s2.same.heap]
  · rw [s3.same.trigsOf, s2.same.trigsOf]
  · rw [s3.same.live, s2.same.live]
  · intro y hy
    rw [s3.others y hy, s2.others y hy]
    exact setFn_other _ _ _ _ hy
  · rw [s3.mine, s2.mine, hs1]
    simp [setFld, trA]

/-- all triggers of an owned list: the section becomes `pre ++ renderings` -/
theorem commitTrigs_owned {h : Heap} {u : Uid}
    (hwf : HWF h) :
    ∀ (as : List Addr) (i : Nat) (w : World) (pre post : List STrig),
      (∀ a ∈ as, a < h.trigs.length) →
      (∀ a ∈ as, ∀ (t : Trig), h.trigs[a]? = some t → t.uuid = u ∧ ∀ c ∈ t.comps, ∀ (co : Comp), h.comps[c]? = some co → co.uuid = u) →
      w.live u = true → w.sectOf u = pre ++ post → pre.length = i → post.length = as.length →
      ∃ w' rs, commitTrigs h i as w = .ok w' ∧ render h as = some rs ∧ SectIs w w' u (pre ++ rs)
  | [], i, w, pre, post, _, _, _, hs, _, hp => by
    have : post = [] := List.eq_nil_of_length_eq_zero (by simpa using hp)
    subst this
    exact ⟨w, [], rfl, rfl, SameObjs.refl _, fun _ _ => rfl, by simpa using hs⟩
  | a :: as, i, w, pre, post, hv, ho, hl, hs, hi, hp => by
    cases post with
    | nil => simp at hp
    | cons tr0 post =>
      have ha := hv a (by simp)
      have ht := List.getElem?_eq_getElem ha
      obtain ⟨cs, hcs⟩ := lookupAll_isSome h.comps (h.trigs[a]).comps (hwf a _ ht)
      obtain ⟨o1, o2⟩ := ho a (by simp) _ ht
      have hcu : ∀ c ∈ cs, c.uuid = u := lookupAll_forall (fun c => c.uuid = u) h.comps _ _ hcs o2
      have hget : (w.sectOf u)[i]? = some tr0 := by
        rw [hs, List.getElem?_append_right (by omega)]; simp [hi]
      obtain ⟨w1, e1, s1⟩ := commitTrig_owned ht hcs o1 hcu hl hget
      let r : STrig := { name := (h.trigs[a]).name, effs := (effsOf cs).map renderComp, conds := (condsOf cs).map renderComp }
      have hs1 : w1.sectOf u = (pre ++ [r]) ++ post := by
        rw [s1.mine, hs, ← hi]; simp [r]
      have hl1 : w1.live u = true := by rw [s1.same.live]; exact hl
      obtain ⟨w2, rs, e2, hr, s2⟩ := commitTrigs_owned hwf as (i + 1) w1 (pre ++ [r]) post
        (fun b hb => hv b (by simp [hb])) (fun b hb => ho b (by simp [hb])) hl1 hs1 (by simp [hi]) (by simpa using hp)
      refine ⟨w2, r :: rs, by simp [commitTrigs, e1, e2], ?_, ⟨s1.same.trans s2.same, ?_, ?_⟩⟩
      · simp [render, renderTrig, ht, hcs, hr, r]
      · intro y hy; rw [s2.others y hy, s1.others y hy]
      · rw [s2.mine]; simp

/-- **save of a scenario that owns what it holds**: succeeds, writes `render heap list`, writes no other section -/
theorem save_owned {w : World} (i : Inv0 w) {u : Uid} (hl : w.live u = true) :
    ∃ w' rs, save w u = .ok (w', rs) ∧ render w.heap (w.trigsOf u) = some rs ∧ SectIs w w' u rs := by
  let w0 : World := { w with sectOf := setFn w.sectOf u (resize dfltTrig (w.trigsOf u).length (w.sectOf u)) }
  have hs0 : w0.sectOf u = [] ++ resize dfltTrig (w.trigsOf u).length (w.sectOf u) := by simp [w0, setFn_same]
  obtain ⟨w1, rs, e1, hr, s1⟩ := commitTrigs_owned (u := u) i.hwf (w.trigsOf u) 0 w0 [] _
    (fun a ha => i.swf u a ha) (fun a ha t ht => i.owned u a ha t ht) hl hs0 rfl (length_resize _ _ _)
  refine ⟨w1, rs, ?_, hr, ⟨⟨s1.same.heap, s1.same.trigsOf, s1.same.live⟩, ?_, ?_⟩⟩
  · have : w1.sectOf u = rs := by simpa using s1.mine
    simp only [save, hl, if_true]
    change (match commitTrigs w.heap 0 (w.trigsOf u) w0 with
            | .error e => Except.error e
            | .ok w1 => Except.ok (w1, w1.sectOf u)) = _
    rw [e1]
    simp only [this]
  · intro y hy
    rw [s1.others y hy]
    exact setFn_other _ _ _ _ hy
  · simpa using s1.mine

/-! ## the rendering only reads the reachable cells -/

theorem renderTrig_congr {h h' : Heap} {a : Addr} (ht : h'.trigs[a]? = h.trigs[a]?)
    (hc : ∀ c ∈ compsOf h a, h'.comps[c]? = h.comps[c]?) : renderTrig h' a = renderTrig h a := by
  unfold renderTrig
  rw [ht]
  cases h0 : h.trigs[a]? with
  | none => rfl
  | some t =>
    simp only
    rw [lookupAll_congr h.comps h'.comps t.comps (fun c hcm => hc c ((mem_compsOf h0).mpr hcm))]

theorem render_congr {h h' : Heap} : ∀ (l : List Addr),
    (∀ a ∈ l, h'.trigs[a]? = h.trigs[a]? ∧ ∀ c ∈ compsOf h a, h'.comps[c]? = h.comps[c]?) → render h' l = render h l
  | [], _ => rfl
  | a :: as, hh => by
    simp only [render]
    rw [renderTrig_congr (hh a (by simp)).1 (hh a (by simp)).2, render_congr as (fun b hb => hh b (by simp [hb]))]

end Aoe.Heap
