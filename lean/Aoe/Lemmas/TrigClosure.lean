import Aoe.Lemmas.TrigStep
/-!
Helper lemmas for C06, part 11: the exact shape of a tree copy (`copy_trigger_tree`) and of an import.
-/
namespace Aoe.Trig
open List

theorem lookupLast_mem : ∀ {d : List (Nat × Nat)} {k v : Nat}, lookupLast d k = some v → (k, v) ∈ d
  | [], _, _, h => by simp [lookupLast] at h
  | (a, b) :: d, k, v, h => by
    rw [lookupLast_cons] at h
    cases hl : lookupLast d k with
    | some w => simp only [hl, Option.some.injEq] at h; subst h; exact mem_cons_of_mem _ (lookupLast_mem hl)
    | none =>
      simp only [hl] at h
      by_cases e : a = k
      · simp only [e, if_true, Option.some.injEq] at h; subst h; subst e; simp
      · simp [e] at h

/-- `copy_trigger(index, append_after_source=False)` appends one copy of the trigger at that index -/
theorem copy_index_spec {tm tm' : TM} {cp : Trig} {k : Nat} (hi : Inv tm) (h : copy tm (.index k) false = .ok (tm', cp)) :
    ∃ src, tm.trigs[k]? = some src ∧ cp = { src with uid := tm.next, tid := tm.trigs.length } ∧
      tm'.trigs = tm.trigs ++ [cp] ∧ tm'.next = tm.next + 1 ∧ Inv tm' := by
  have hinv := (copy_good (c := false) hi h).1.inv
  unfold copy resolve! at h
  simp only [resolve] at h
  have hneg : ¬ ((k : Int) < 0) := by omega
  simp only [hneg, if_false, Int.toNat_natCast] at h
  cases hk : tm.trigs[k]? with
  | none =>
    simp only [hk] at h
    by_cases h0 : k = 0 <;> simp [h0] at h
  | some src =>
    simp only [hk] at h
    cases hr : readOrder tm with
    | error e => simp [hr] at h
    | ok tm1 =>
      obtain ⟨_, ht1, hn1, _, _⟩ := readOrder_sound (c := false) hi hr
      simp only [hr] at h
      cases hio : indexOf tm1.order k with
      | error e => simp [hio] at h
      | ok d =>
        simp only [hio, Bool.false_eq_true, if_false, Except.ok.injEq, Prod.mk.injEq] at h
        obtain ⟨rfl, rfl⟩ := h
        exact ⟨src, rfl, by simp [appendCopy, ht1, hn1], by simp [appendCopy, ht1], by simp [appendCopy, hn1], hinv⟩

/-- the copy loop of `copy_trigger_tree`: one copy per listed node, appended in order; `id_swap` pairs every node with
the position of its copy -/
theorem copyNodes_spec : ∀ {known : List Nat} {tm tm2 : TM} {news : List Nat} {swap : List (Nat × Nat)},
    Inv tm → (∀ k ∈ known, k < tm.trigs.length) → copyNodes tm known = .ok (tm2, news, swap) →
    ∃ copies : List Trig, tm2.trigs = tm.trigs ++ copies ∧ copies.length = known.length ∧ news = copies.map (·.uid) ∧
      tm2.next = tm.next + known.length ∧ tm2.order = tm2.order ∧
      swap = known.zip (range' tm.trigs.length known.length) ∧
      ∀ (i : Nat) (c : Trig), copies[i]? = some c → ∃ k src, known[i]? = some k ∧ tm.trigs[k]? = some src ∧
        c = { src with uid := tm.next + i, tid := tm.trigs.length + i }
  | [], tm, tm2, news, swap, _, _, h => by
    simp only [copyNodes, Except.ok.injEq, Prod.mk.injEq] at h
    obtain ⟨rfl, rfl, rfl⟩ := h
    exact ⟨[], by simp, rfl, rfl, by simp, rfl, by simp, by simp⟩
  | k :: known, tm, tm2, news, swap, hi, hlt, h => by
    simp only [copyNodes] at h
    cases hc : copy tm (.index k) false with
    | error e => simp [hc] at h
    | ok v =>
      obtain ⟨tm1, cp⟩ := v
      simp only [hc] at h
      obtain ⟨src, hsrc, hcp, ht1, hn1, hi1⟩ := copy_index_spec hi hc
      cases hr : copyNodes tm1 known with
      | error e => simp [hr] at h
      | ok v2 =>
        obtain ⟨tm3, news', swap'⟩ := v2
        simp only [hr, Except.ok.injEq, Prod.mk.injEq] at h
        obtain ⟨rfl, rfl, rfl⟩ := h
        have hlt1 : ∀ k' ∈ known, k' < tm1.trigs.length := by
          intro k' hk'; rw [ht1]; simp; have := hlt k' (by simp [hk']); omega
        obtain ⟨copies, e1, e2, e3, e4, _, e6, e7⟩ := copyNodes_spec hi1 hlt1 hr
        have hcpt : cp.tid = tm.trigs.length := by rw [hcp]
        refine ⟨cp :: copies, by rw [e1, ht1]; simp, by simp [e2], by simp [e3], by rw [e4, hn1]; simp; omega, rfl, ?_, ?_⟩
        · rw [e6, ht1]
          simp only [length_append, length_cons, length_nil, Nat.zero_add, zip_cons_cons, range'_succ, hcpt]
        · intro i c hc'
          cases i with
          | zero =>
            simp only [getElem?_cons_zero, Option.some.injEq] at hc'
            subst hc'
            exact ⟨k, src, by simp, hsrc, by simp [hcp]⟩
          | succ i =>
            simp only [getElem?_cons_succ] at hc'
            obtain ⟨k', src', hk', hs', hc''⟩ := e7 i c hc'
            have hk'lt : k' < tm.trigs.length := hlt k' (by simp [mem_of_getElem? hk'])
            rw [ht1, getElem?_append_left hk'lt] at hs'
            refine ⟨k', src', by simp [hk'], hs', ?_⟩
            rw [hc'', ht1, hn1]
            simp only [length_append, length_cons, length_nil]
            congr 1 <;> omega

/-- the tree search only appends valid list indices to the `known` list -/
theorem findRec_extends {fixed : Bool} {trigs : List Trig} : ∀ (fuel : Nat) (t : Trig) (known r : List Nat),
    findRec fixed trigs fuel t known = .ok r → ∃ extra, r = known ++ extra ∧ ∀ k ∈ extra, k < trigs.length
  | 0, _, _, _, h => by simp [findRec] at h
  | fuel + 1, t, known, r, h => by
    simp only [findRec] at h
    cases ht : targetsNat (actTargets t) with
    | error e => simp [ht] at h
    | ok found =>
      simp only [ht] at h
      generalize hu : ((if fixed = true then dedup found else found).filter (fun i => !known.contains i)) = unknown at h
      by_cases hun : unknown = []
      · simp only [hun, if_true, Except.ok.injEq] at h
        subst h; exact ⟨[], by simp, by simp⟩
      · simp only [hun, if_false] at h
        have hloop : ∀ (l : List Nat) (kn r : List Nat),
            l.foldlM (fun kn index =>
              match trigs[index]? with
              | none => Except.error Err.index
              | some t' => findRec fixed trigs fuel t' kn) kn = .ok r →
            (∀ a ∈ l, a < trigs.length) ∧ ∃ extra, r = kn ++ extra ∧ ∀ k ∈ extra, k < trigs.length := by
          intro l
          induction l with
          | nil =>
            intro kn r h'
            simp only [foldlM_nil, pure, Except.pure, Except.ok.injEq] at h'
            subst h'
            exact ⟨by simp, [], by simp, by simp⟩
          | cons a l ih =>
            intro kn r h'
            rw [foldlM_cons] at h'
            cases ha : trigs[a]? with
            | none => simp [ha, bind, Except.bind] at h'
            | some t' =>
              have halt : a < trigs.length := (List.getElem?_eq_some_iff.1 ha).1
              simp only [ha] at h'
              cases hf : findRec fixed trigs fuel t' kn with
              | error e => simp [hf, bind, Except.bind] at h'
              | ok kn' =>
                simp only [hf, bind, Except.bind] at h'
                obtain ⟨ex1, e1, v1⟩ := findRec_extends fuel t' kn kn' hf
                obtain ⟨hl, ex2, e2, v2⟩ := ih kn' r h'
                refine ⟨fun x hx => ?_, ex1 ++ ex2, by rw [e2, e1, append_assoc], fun k hk => ?_⟩
                · rcases mem_cons.1 hx with rfl | hx
                  · exact halt
                  · exact hl x hx
                · rcases mem_append.1 hk with hk | hk
                  · exact v1 k hk
                  · exact v2 k hk
        obtain ⟨hl, extra, e, v⟩ := hloop _ _ r h
        refine ⟨unknown ++ extra, by rw [e, append_assoc], fun k hk => ?_⟩
        rcases mem_append.1 hk with hk | hk
        · exact hl k hk
        · exact v k hk

theorem treeNodes_lt {fixed : Bool} {tm : TM} {f : Found} {known : List Nat} (hf : f.idx < tm.trigs.length)
    (h : treeNodes fixed tm f = .ok known) : ∀ k ∈ known, k < tm.trigs.length := by
  obtain ⟨extra, e, v⟩ := findRec_extends _ _ _ _ h
  intro k hk
  rw [e] at hk
  rcases mem_append.1 hk with hk | hk
  · simp at hk; subst hk; exact hf
  · exact v k hk

theorem mem_zip_getElem? {α β : Type} {l1 : List α} {l2 : List β} {a : α} {b : β} (h : (a, b) ∈ l1.zip l2) :
    ∃ i : Nat, l1[i]? = some a ∧ l2[i]? = some b := by
  obtain ⟨i, hi, he⟩ := getElem_of_mem h
  rw [getElem_zip] at he
  simp only [length_zip] at hi
  refine ⟨i, ?_, ?_⟩
  · rw [getElem?_eq_getElem (by omega)]; exact congrArg some (congrArg Prod.fst he)
  · rw [getElem?_eq_getElem (by omega)]; exact congrArg some (congrArg Prod.snd he)

theorem remapEffStrict_spec {d : List (Nat × Nat)} {e e' : Eff} (h : remapEffStrict d e = .ok e') :
    e'.kind = e.kind ∧ (e.isAct = false → e' = e) ∧
      (e.isAct = true → ∃ k v, e.target = some k ∧ lookupLast d k = some v ∧ e'.target = some v) := by
  unfold remapEffStrict at h
  by_cases ha : e.isAct = true
  · simp only [ha, if_true] at h
    cases ht : e.target with
    | none => simp [ht] at h
    | some k =>
      simp only [ht] at h
      cases hl : lookupLast d k with
      | none => simp [hl] at h
      | some v =>
        simp only [hl, Except.ok.injEq] at h
        subst h
        exact ⟨rfl, fun hf => by simp [ha] at hf, fun _ => ⟨k, v, rfl, hl, rfl⟩⟩
  · simp only [ha, Bool.false_eq_true, if_false, Except.ok.injEq] at h
    subst h
    exact ⟨rfl, fun _ => rfl, fun h' => absurd h' ha⟩

/-- the exact shape of `copy_trigger_tree`: the originals are untouched, one copy per listed node is appended, and
every (de)activation effect of a copy points at the copy of the trigger the source's effect points at -/
theorem copyTree_shape {fixed : Bool} {tm tm' : TM} {s : Sel} {news : List Nat} (hi : Inv tm)
    (h : copyTree fixed tm s = .ok (tm', news)) :
    ∃ known : List Nat, (∀ k ∈ known, k < tm.trigs.length) ∧ news.length = known.length ∧
      tm'.trigs.take tm.trigs.length = tm.trigs ∧ tm'.trigs.length = tm.trigs.length + known.length ∧
      ∀ (i k : Nat), known[i]? = some k → ∃ src c, tm.trigs[k]? = some src ∧
        tm'.trigs[tm.trigs.length + i]? = some c ∧ news[i]? = some c.uid ∧ c.effs.length = src.effs.length ∧
        ∀ (j : Nat) (e e' : Eff), src.effs[j]? = some e → c.effs[j]? = some e' →
          e'.kind = e.kind ∧ (e.isAct = false → e' = e) ∧
          (e.isAct = true → ∃ k' i', e.target = some k' ∧ known[i']? = some k' ∧ e'.target = some (tm.trigs.length + i')) := by
  unfold copyTree at h
  cases hr : resolve! tm s with
  | error e => simp [hr] at h
  | ok v =>
    obtain ⟨tm1, f⟩ := v
    obtain ⟨g1, _, ht1, hn1, _, hf1, _⟩ := resolve!_sound (c := false) hi hr
    simp only [hr] at h
    have hidx : f.idx < tm1.trigs.length := by rw [ht1]; exact (List.getElem?_eq_some_iff.1 hf1).1
    cases hk : treeNodes fixed tm1 f with
    | error e => simp [hk] at h
    | ok known =>
      simp only [hk] at h
      have hlt := treeNodes_lt hidx hk
      cases hcn : copyNodes tm1 known with
      | error e => simp [hcn] at h
      | ok v2 =>
        obtain ⟨tm2, news2, swap⟩ := v2
        simp only [hcn] at h
        obtain ⟨copies, e1, e2, e3, _, _, e6, e7⟩ := copyNodes_spec g1.inv hlt hcn
        cases hm : mapUids news2 (remapTrigStrict swap) tm2.trigs with
        | error e => simp [hm] at h
        | ok ts =>
          simp only [hm, Except.ok.injEq, Prod.mk.injEq] at h
          obtain ⟨rfl, rfl⟩ := h
          obtain ⟨hlen, hsp⟩ := mapUids_spec hm
          have hlen' : ts.length = tm.trigs.length + known.length := by rw [hlen, e1, ht1]; simp [e2]
          -- identities of the copies
          have hcu : ∀ (i : Nat) (c : Trig), copies[i]? = some c → c.uid = tm1.next + i := by
            intro i c hc
            obtain ⟨_, _, _, _, hc'⟩ := e7 i c hc
            rw [hc']
          refine ⟨known, fun k hk' => ht1 ▸ hlt k hk', by rw [e3]; simp [e2], ?_, hlen', ?_⟩
          · -- the originals are untouched
            apply ext_getElem?
            intro j
            by_cases hj : j < tm.trigs.length
            · have hj2 : tm2.trigs[j]? = some tm.trigs[j] := by
                rw [e1, ht1, getElem?_append_left hj]; exact getElem?_eq_getElem hj
              have hjt : j < ts.length := by omega
              have hnot : tm.trigs[j].uid ∉ news2 := by
                intro hmem
                rw [e3] at hmem
                obtain ⟨c, hc, hcu'⟩ := mem_map.1 hmem
                obtain ⟨i, hi', rfl⟩ := getElem_of_mem hc
                have := hcu i _ (getElem?_eq_getElem hi')
                have hfr := hi.fresh tm.trigs[j].uid (by simp only [uids, mem_map]; exact ⟨_, getElem_mem hj, rfl⟩)
                omega
              have := (hsp j _ _ hj2 (getElem?_eq_getElem hjt)).2 hnot
              simp only [getElem?_take, hj, if_true, getElem?_eq_getElem hjt, getElem?_eq_getElem hj, this]
            · have : (tm.trigs)[j]? = none := getElem?_eq_none (by omega)
              simp [getElem?_take, hj, this]
          · intro i k hik
            have hil : i < known.length := (List.getElem?_eq_some_iff.1 hik).1
            have hic : i < copies.length := by omega
            obtain ⟨k', src, hk', hsrc, hc⟩ := e7 i _ (getElem?_eq_getElem hic)
            rw [hik] at hk'; cases hk'
            rw [ht1] at hsrc
            have h2 : tm2.trigs[tm.trigs.length + i]? = some copies[i] := by
              rw [e1, ht1, getElem?_append_right (by omega)]
              simp [getElem?_eq_getElem hic]
            have hit : tm.trigs.length + i < ts.length := by omega
            have hmem : copies[i].uid ∈ news2 := by rw [e3]; exact mem_map.2 ⟨_, getElem_mem hic, rfl⟩
            have hrm := (hsp _ _ _ h2 (getElem?_eq_getElem hit)).1 hmem
            refine ⟨src, ts[tm.trigs.length + i], hsrc, getElem?_eq_getElem hit, ?_, ?_, ?_⟩
            · rw [(remapTrigStrict_shape hrm).1, e3]
              simp [getElem?_eq_getElem hic]
            · unfold remapTrigStrict at hrm
              cases hmm : copies[i].effs.mapM (remapEffStrict swap) with
              | error e => simp [hmm] at hrm
              | ok es =>
                simp only [hmm, Except.ok.injEq] at hrm
                rw [← hrm]
                have := (mapM_ok_spec hmm).1
                simp only [this, hc]
            · intro j e e' he he'
              unfold remapTrigStrict at hrm
              cases hmm : copies[i].effs.mapM (remapEffStrict swap) with
              | error e => simp [hmm] at hrm
              | ok es =>
                simp only [hmm, Except.ok.injEq] at hrm
                rw [← hrm] at he'
                simp only at he'
                have hce : copies[i].effs = src.effs := by rw [hc]
                rw [hce] at hmm
                obtain ⟨x, y, z⟩ := remapEffStrict_spec ((mapM_ok_spec hmm).2 j e e' he he')
                refine ⟨x, y, fun ha => ?_⟩
                obtain ⟨k', v, t1, t2, t3⟩ := z ha
                have hmz := lookupLast_mem t2
                rw [e6] at hmz
                obtain ⟨i', hi1, hi2⟩ := mem_zip_getElem? hmz
                have hi'l : i' < known.length := (List.getElem?_eq_some_iff.1 hi1).1
                rw [getElem?_range' hi'l] at hi2
                simp only [Nat.one_mul, Option.some.injEq] at hi2
                exact ⟨k', i', t1, hi1, by rw [t3, ← hi2, ht1]⟩

/-! ### import_triggers -/

theorem lookupLast_eq_none : ∀ {d : List (Nat × Nat)} {k : Nat}, lookupLast d k = none ↔ ∀ p ∈ d, p.1 ≠ k
  | [], k => by simp [lookupLast]
  | (a, b) :: d, k => by
    rw [lookupLast_cons]
    cases hl : lookupLast d k with
    | some w =>
      simp only [reduceCtorEq, false_iff]
      intro hall
      have := (lookupLast_eq_none (d := d) (k := k)).2 (fun p hp => hall p (mem_cons_of_mem _ hp))
      rw [hl] at this; cases this
    | none =>
      have ih := (lookupLast_eq_none (d := d) (k := k)).1 hl
      by_cases e : a = k
      · simp only [e, if_true, reduceCtorEq, false_iff]
        intro hall; exact hall (k, b) (by simp [e]) rfl
      · simp only [e, if_false, true_iff]
        intro p hp
        rcases mem_cons.1 hp with rfl | hp
        · exact e
        · exact ih p hp

theorem mem_changesFrom : ∀ {ts : List Trig} {j0 k v : Nat}, (k, v) ∈ changesFrom j0 ts →
    ∃ i : Nat, (ts[i]?).map (·.tid) = some k ∧ v = j0 + i
  | [], _, _, _, h => by simp [changesFrom] at h
  | t :: ts, j0, k, v, h => by
    simp only [changesFrom, mem_cons, Prod.mk.injEq] at h
    rcases h with ⟨rfl, rfl⟩ | h
    · exact ⟨0, by simp, by simp⟩
    · obtain ⟨i, h1, h2⟩ := mem_changesFrom h
      exact ⟨i + 1, by simpa using h1, by omega⟩

theorem changesFrom_keys : ∀ (ts : List Trig) (j0 : Nat), (changesFrom j0 ts).map (·.1) = ts.map (·.tid)
  | [], _ => rfl
  | t :: ts, j0 => by simp [changesFrom, changesFrom_keys ts]

theorem importRenum_getElem? : ∀ (ts : List Trig) (u n i : Nat),
    (importRenum u n ts)[i]? = (ts[i]?).map (fun t => { t with uid := u + i, tid := n + i })
  | [], _, _, _ => by simp [importRenum]
  | t :: ts, u, n, 0 => by simp [importRenum]
  | t :: ts, u, n, i + 1 => by
    simp only [importRenum, getElem?_cons_succ, importRenum_getElem? ts]
    congr; funext t; congr 1 <;> omega

/-- the exact shape of `import_triggers(triggers)` (default index): the existing triggers are untouched, the imported
copies are appended with ids = positions, the display order is reset to the identity, links between imported triggers
point at the imported copies, links to triggers that were not imported are reset to -1 -/
theorem import_shape {ext : Bool} {tm tm' : TM} {ts : List Trig} {news : List Nat}
    (h : importTriggers ext tm ts none = .ok (tm', news)) :
    tm'.trigs.take tm.trigs.length = tm.trigs ∧ tm'.trigs.length = tm.trigs.length + ts.length ∧
    (ext = false → tm'.order = range (tm.trigs.length + ts.length)) ∧ (ext = true → tm'.order = tm.order) ∧
    ∀ (i : Nat) (t : Trig), ts[i]? = some t → ∃ c, tm'.trigs[tm.trigs.length + i]? = some c ∧
      c.tid = tm.trigs.length + i ∧ news[i]? = some c.uid ∧ c.effs.length = t.effs.length ∧
      ∀ (j : Nat) (e e' : Eff), t.effs[j]? = some e → c.effs[j]? = some e' →
        e'.kind = e.kind ∧ (e.isAct = false → e' = e) ∧
        (e.isAct = true → (e.target = none → e'.target = none) ∧ ∀ k, e.target = some k →
          (k ∈ ts.map (·.tid) → ∃ i' : Nat, (ts[i']?).map (·.tid) = some k ∧ e'.target = some (tm.trigs.length + i')) ∧
          (k ∉ ts.map (·.tid) → e'.target = none)) := by
  unfold importTriggers at h
  cases ext
  all_goals
    simp only [Bool.false_eq_true, if_false, if_true, Except.ok.injEq, Prod.mk.injEq] at h
    obtain ⟨rfl, rfl⟩ := h
    have hlen : ((importRenum tm.next tm.trigs.length ts).map
        (fun t => ({ t with effs := t.effs.map (remapEffImport (changesFrom tm.trigs.length ts)) } : Trig))).length = ts.length := by
      have := congrArg List.length (importRenum_uid ts tm.next tm.trigs.length)
      simpa using this
    refine ⟨by simp, by simp [hlen], fun he => by first | exact absurd he (by decide) | simp [hlen],
      fun he => by first | exact absurd he (by decide) | rfl, fun i t hit => ?_⟩
    have hil : i < ts.length := (List.getElem?_eq_some_iff.1 hit).1
    refine ⟨⟨tm.next + i, tm.trigs.length + i, t.effs.map (remapEffImport (changesFrom tm.trigs.length ts))⟩, by
      simp only
      rw [getElem?_append_right (by omega)]
      simp only [Nat.add_sub_cancel_left, getElem?_map, importRenum_getElem?, hit, Option.map_some], rfl,
      by simp [importRenum_getElem?, hit], by simp, fun j e e' he he' => ?_⟩
    simp only [getElem?_map, he, Option.map_some, Option.some.injEq] at he'
    subst he'
    by_cases ha : e.isAct = true
    · cases ht : e.target with
      | none =>
        have hr : remapEffImport (changesFrom tm.trigs.length ts) e = e := by simp [remapEffImport, ht]
        rw [hr]
        refine ⟨rfl, fun _ => rfl, fun _ => ?_⟩
        exact ⟨fun _ => ht, fun k hk => (by cases hk)⟩
      | some k =>
        have hr : remapEffImport (changesFrom tm.trigs.length ts) e =
            { e with target := lookupLast (changesFrom tm.trigs.length ts) k } := by simp [remapEffImport, ha, ht]
        rw [hr]
        refine ⟨rfl, ?_, ?_⟩
        · intro hf; rw [ha] at hf; cases hf
        intro _
        refine ⟨fun hn => (by cases hn), fun k' hk' => ?_⟩
        cases hk'
        constructor
        · intro hmem
          cases hl : lookupLast (changesFrom tm.trigs.length ts) k with
          | none =>
            have := lookupLast_eq_none.1 hl
            rw [← changesFrom_keys ts tm.trigs.length] at hmem
            obtain ⟨p, hp, hpk⟩ := mem_map.1 hmem
            exact absurd hpk (this p hp)
          | some v =>
            obtain ⟨i', h1, h2⟩ := mem_changesFrom (lookupLast_mem hl)
            exact ⟨i', h1, by simp [h2]⟩
        · intro hnm
          have : lookupLast (changesFrom tm.trigs.length ts) k = none := by
            rw [lookupLast_eq_none]
            intro p hp hpk
            apply hnm
            rw [← changesFrom_keys ts tm.trigs.length]
            exact mem_map.2 ⟨p, hp, hpk⟩
          simp [this]
    · have hr : remapEffImport (changesFrom tm.trigs.length ts) e = e := by simp [remapEffImport, ha]
      rw [hr]
      exact ⟨rfl, fun _ => rfl, fun h' => absurd h' ha⟩

end Aoe.Trig
