import Aoe.Lemmas.Map
/-!
Helper lemmas for the elevation part of the map model (C20, and the "every operation keeps the geometry" part of
C11): the frame relation "only elevations outside a protected set of positions change", the frame lemma for
`_elevation_tile_recursion`, the fill loop, the fuel bound.
-/
namespace Aoe.Map

/-- `m'` differs from `m` at most in the elevation of tiles at positions outside `P` -/
structure Frame (P : Nat → Prop) (m m' : Map) : Prop where
  size : m'.size = m.size
  len : m'.tiles.length = m.tiles.length
  other : ∀ k : Nat, (m'.tiles[k]?).map (fun t => (t.terrainId, t.layer, t.index)) =
                      (m.tiles[k]?).map (fun t => (t.terrainId, t.layer, t.index))
  prot : ∀ k : Nat, P k → m'.tiles[k]? = m.tiles[k]?

theorem Frame.refl (P : Nat → Prop) (m : Map) : Frame P m m := ⟨rfl, rfl, fun _ => rfl, fun _ _ => rfl⟩

theorem Frame.trans {P : Nat → Prop} {a b c : Map} (h1 : Frame P a b) (h2 : Frame P b c) : Frame P a c :=
  ⟨h2.size.trans h1.size, h2.len.trans h1.len, fun k => (h2.other k).trans (h1.other k),
   fun k hk => (h2.prot k hk).trans (h1.prot k hk)⟩

theorem Frame.mono {P Q : Nat → Prop} {a b : Map} (h : Frame P a b) (hq : ∀ k, Q k → P k) : Frame Q a b :=
  ⟨h.size, h.len, h.other, fun k hk => h.prot k (hq k hk)⟩

theorem getElem?_setElevAt (m : Map) (k j : Nat) (e : Int) :
    (setElevAt m k e).tiles[j]? = if k = j then (m.tiles[j]?).map (fun t => { t with elevation := e }) else m.tiles[j]? := by
  simp only [setElevAt, List.getElem?_modify]
  split <;> simp

theorem Frame.setElevAt (P : Nat → Prop) (m : Map) (k : Nat) (e : Int) (hk : ¬ P k) : Frame P m (setElevAt m k e) := by
  refine ⟨rfl, by simp [Aoe.Map.setElevAt], ?_, ?_⟩
  · intro j
    rw [getElem?_setElevAt]
    split
    · cases m.tiles[j]? <;> simp
    · rfl
  · intro j hj
    rw [getElem?_setElevAt]
    have : k ≠ j := fun h => hk (h ▸ hj)
    simp [this]

theorem Frame.wf {P : Nat → Prop} {m m' : Map} (h : Frame P m m') (hwf : WF m) : WF m' := by
  refine ⟨by rw [h.len, h.size]; exact hwf.1, ?_⟩
  intro k t hk
  have := h.other k
  rw [hk] at this
  cases h' : m.tiles[k]? with
  | none => simp [h'] at this
  | some u =>
    simp [h'] at this
    rw [this.2.2]; exact hwf.2 k u h'


theorem getPosSafe_some (m : Map) (x y : Int) (k : Nat) (h : getPosSafe m x y = .ok (some k)) :
    xyToI x y m.size = .ok k ∧ k < m.tiles.length := by
  unfold getPosSafe at h
  split at h
  · next k' hk =>
    injection h with h; injection h with h; subst h
    simp only [getPos, truthy, Bool.false_and, Bool.false_eq_true, if_false, bind, Except.bind] at hk
    cases hx : xyToI x y m.size with
    | error e => simp [hx] at hk
    | ok j =>
      simp only [hx] at hk
      split at hk
      · injection hk with hk; subst hk; exact ⟨rfl, by assumption⟩
      · cases hk
  · cases h
  · cases h
  · cases h

theorem foldlM_frame {α : Type} (I : Map → Prop) (R : Map → Map → Prop) (step : Map → α → Except Err Map)
    (hrefl : ∀ m, R m m) (htrans : ∀ a b c, R a b → R b c → R a c) (hI : ∀ m m', I m → R m m' → I m') :
    ∀ (l : List α) (m m' : Map), (∀ m a m', a ∈ l → I m → step m a = .ok m' → R m m') → I m →
      l.foldlM step m = .ok m' → R m m'
  | [], m, m', _, _, h => by
      simp only [List.foldlM_nil, pure, Except.pure] at h
      injection h with h; subst h; exact hrefl m
  | a :: l, m, m', hs, hi, h => by
      simp only [List.foldlM_cons, bind, Except.bind] at h
      cases h1 : step m a with
      | error e => simp [h1] at h
      | ok m1 =>
        simp only [h1] at h
        have r1 := hs m a m1 (by simp) hi h1
        have r2 := foldlM_frame I R step hrefl htrans hI l m1 m' (fun m a m' ha => hs m a m' (by simp [ha]))
          (hI m m1 hi r1) h
        exact htrans _ _ _ r1 r2

theorem elevStep_frame (P : Nat → Prop) (s : Nat) (xys vis : List (Int × Int)) (recur : Map → Nat → Except Err Map)
    (src : Nat) (x y : Int)
    (H : ∀ (x y : Int) (k : Nat), xyToI x y s = .ok k → (x, y) ∉ xys → ¬ P k)
    (hrec : ∀ m1 k m2, WF m1 → m1.size = s → recur m1 k = .ok m2 → Frame P m1 m2)
    (m : Map) (o : Int × Int) (m' : Map) (hwf : WF m) (hs : m.size = s)
    (h : elevStep recur src x y xys vis m o = .ok m') : Frame P m m' := by
  unfold elevStep at h
  simp only [] at h
  split at h
  · next hc =>
    simp only [Bool.and_eq_true, Bool.not_eq_true', List.contains_eq_mem, decide_eq_false_iff_not] at hc
    obtain ⟨⟨_, hxys⟩, _⟩ := hc
    simp only [bind, Except.bind] at h
    cases hp : getPosSafe m (x + o.1) (y + o.2) with
    | error e => simp [hp] at h
    | ok r =>
      simp only [hp] at h
      cases r with
      | none => simp [pure, Except.pure] at h; subst h; exact Frame.refl P m
      | some ko =>
        have hko := (getPosSafe_some m _ _ ko hp).1
        rw [hs] at hko
        have hnp : ¬ P ko := H _ _ ko hko hxys
        simp only [] at h
        cases hb : getPosSafe m (x + o.1 * 2) (y + o.2 * 2) with
        | error e => simp [hb] at h
        | ok behind =>
          simp only [hb] at h
          cases h1 : listGet m.tiles src with
          | error e => simp [h1] at h
          | ok st =>
            simp only [h1] at h
            cases h2 : listGet m.tiles ko with
            | error e => simp [h2] at h
            | ok ot =>
              simp only [h2] at h
              split at h
              · cases h
              · next fill hfill =>
                split at h
                · simp only [pure, Except.pure] at h; injection h with h; subst h
                  exact Frame.setElevAt P m ko _ hnp
                · split at h
                  · have f1 := Frame.setElevAt P m ko (st.elevation + sign ot.elevation st.elevation) hnp
                    exact f1.trans (hrec _ _ _ (f1.wf hwf) (by rw [f1.size, hs]) h)
                  · simp only [pure, Except.pure] at h; injection h with h; subst h
                    exact Frame.refl P m
  · simp only [pure, Except.pure] at h; injection h with h; subst h
    exact Frame.refl P m
/-- **frame lemma**: `_elevation_tile_recursion` changes nothing but elevations, and no elevation at a protected
position, provided every coordinate pair outside `xys` lies outside the protected positions -/
theorem elevRec_frame (P : Nat → Prop) (s : Nat) (xys : List (Int × Int))
    (H : ∀ (x y : Int) (k : Nat), xyToI x y s = .ok k → (x, y) ∉ xys → ¬ P k) :
    ∀ (fuel : Nat) (m : Map) (src : Nat) (vis : List (Int × Int)) (m' : Map), WF m → m.size = s →
      elevRec fuel m src xys vis = .ok m' → Frame P m m'
  | 0, _, _, _, _, _, _, h => by simp [elevRec] at h
  | fuel + 1, m, src, vis, m', hwf, hs, h => by
      simp only [elevRec, bind, Except.bind] at h
      cases h1 : listGet m.tiles src with
      | error e => simp [h1] at h
      | ok st =>
        simp only [h1] at h
        cases h2 : tileXY m st with
        | error e => simp [h2] at h
        | ok xy =>
          simp only [h2] at h
          refine foldlM_frame (fun m => WF m ∧ m.size = s) (Frame P) _ (Frame.refl P)
            (fun _ _ _ => Frame.trans) (fun a b hi r => ⟨r.wf hi.1, by rw [r.size, hi.2]⟩) offsets m m' ?_ ⟨hwf, hs⟩ h
          intro ma o mb _ hi hstep
          exact elevStep_frame P s xys (xy :: vis) _ src xy.1 xy.2 H
            (fun m1 k m2 w1 s1 hr => elevRec_frame P s xys H fuel m1 k (xy :: vis) m2 w1 s1 hr) ma o mb hi.1 hi.2 hstep

def Tile.withElev (t : Tile) (e : Int) : Tile := { t with elevation := e }

/-- the fill loop `for row in source_tiles: for tile in row: tile.elevation = elevation` -/
theorem fill_spec (e : Int) : ∀ (ps : List Nat) (m : Map) (k : Nat),
    (ps.foldl (fun m k => setElevAt m k e) m).tiles[k]? =
      if k ∈ ps then (m.tiles[k]?).map (fun t => t.withElev e) else m.tiles[k]?
  | [], m, k => by simp
  | p :: ps, m, k => by
      simp only [List.foldl_cons]
      rw [fill_spec e ps (setElevAt m p e) k, getElem?_setElevAt]
      by_cases h1 : k ∈ ps <;> by_cases h2 : p = k
      · subst h2; simp [h1]; cases m.tiles[p]? <;> simp [Tile.withElev]
      · have : k ≠ p := fun h => h2 h.symm
        simp [h1, h2, this]
      · subst h2; simp [h1]; rfl
      · have : k ≠ p := fun h => h2 h.symm
        simp [h1, h2, this]

theorem fill_frame (e : Int) (ps : List Nat) (m : Map) :
    Frame (fun k => k ∉ ps) m (ps.foldl (fun m k => setElevAt m k e) m) := by
  induction ps generalizing m with
  | nil => exact Frame.refl _ m
  | cons p ps ih =>
    simp only [List.foldl_cons]
    have f1 : Frame (fun k => k ∉ p :: ps) m (setElevAt m p e) := Frame.setElevAt _ m p e (by simp)
    exact f1.trans ((ih (setElevAt m p e)).mono (fun k hk => by simp at hk; exact hk.2))


/-- coordinates of a position: the inverse of `xy_to_i` -/
theorem xy_of_xyToI (x y : Int) (s k : Nat) (h : xyToI x y s = .ok k) :
    (((k % s : Nat) : Int), ((k / s : Nat) : Int)) = (x, y) := by
  obtain ⟨h0, h1, h2, h3, hk⟩ := xyToI_inv x y s k h
  have hs : (s : Int) ≠ 0 := by omega
  rw [Int.natCast_emod, Int.natCast_ediv, hk, Int.add_mul_emod_self_right, Int.add_mul_ediv_right _ _ hs,
    Int.emod_eq_of_lt h0 h1, Int.ediv_eq_zero_of_lt h0 h1]
  simp

/-- if every protected position holds a tile whose `xy` is in `xys`, then a coordinate pair outside `xys` never
addresses a protected position -/
theorem protect_of_xys (m : Map) (hwf : WF m) (xys : List (Int × Int)) (P : Nat → Prop)
    (hP : ∀ k, P k → ∃ t, m.tiles[k]? = some t ∧ ∃ c ∈ xys, tileXY m t = .ok c) :
    ∀ (x y : Int) (k : Nat), xyToI x y m.size = .ok k → (x, y) ∉ xys → ¬ P k := by
  intro x y k hk hn hp
  obtain ⟨t, ht, c, hc, hxy⟩ := hP k hp
  rw [tileXY_wf m hwf k t ht] at hxy
  injection hxy with hxy
  rw [xy_of_xyToI x y m.size k hk] at hxy
  exact hn (hxy ▸ hc)


/-- the rows of positions of a rectangle that lies on the map -/
def rectRows (s x1 y1 x2 y2 : Nat) : List (List Nat) :=
  (List.range (y2 + 1 - y1)).map (fun dy => List.range' (x1 + (y1 + dy) * s) (x2 + 1 - x1))

theorem squareRowsPos_spec (m : Map) (hwf : WF m) (x1 y1 x2 y2 : Nat)
    (hx : x1 ≤ x2) (hx2 : x2 < m.size) (hy : y1 ≤ y2) (hy2 : y2 < m.size) :
    squareRowsPos m x1 y1 x2 y2 = .ok (rectRows m.size x1 y1 x2 y2) := by
  unfold squareRowsPos intRange rectRows
  have hn : ((y2 : Int) + 1 - (y1 : Int)).toNat = y2 + 1 - y1 := by omega
  rw [hn]
  rw [mapM_ok _ (fun row : Int => List.range' (x1 + row.toNat * m.size) (x2 + 1 - x1))]
  · simp only [List.map_map, Function.comp_def]
    refine congrArg Except.ok (List.map_congr_left ?_)
    intro a _
    have : ((y1 : Int) + (a : Int)).toNat = y1 + a := by omega
    rw [this]
  · intro a ha
    simp only [List.mem_map, List.mem_range] at ha
    obtain ⟨k, hk, rfl⟩ := ha
    have e : (y1 : Int) + (k : Int) = ((y1 + k : Nat) : Int) := by omega
    have hyk : y1 + k < m.size := by omega
    have e2 : ((y1 : Int) + (k : Int)).toNat = y1 + k := by omega
    have hl := pos_lt_sq x2 (y1 + k) m.size hx2 hyk
    have hmin : min (x2 + (y1 + k) * m.size + 1) m.tiles.length - (x1 + (y1 + k) * m.size) = x2 + 1 - x1 := by
      rw [hwf.1]; omega
    rw [e, xyToI_nat x1 (y1 + k) m.size (by omega) hyk, xyToI_nat x2 (y1 + k) m.size hx2 hyk]
    simp [bind, Except.bind, pure, Except.pure, slicePos, hmin, e2]

theorem mem_rectRows (s x1 y1 x2 y2 k : Nat) :
    k ∈ (rectRows s x1 y1 x2 y2).flatten ↔ ∃ x y, x1 ≤ x ∧ x ≤ x2 ∧ y1 ≤ y ∧ y ≤ y2 ∧ k = x + y * s := by
  simp only [rectRows, List.mem_flatten, List.mem_map, List.mem_range]
  constructor
  · rintro ⟨r, ⟨dy, hdy, rfl⟩, hk⟩
    rw [List.mem_range'_1] at hk
    exact ⟨k - (y1 + dy) * s, y1 + dy, by omega, by omega, by omega, by omega, by omega⟩
  · rintro ⟨x, y, h1, h2, h3, h4, rfl⟩
    refine ⟨_, ⟨y - y1, by omega, rfl⟩, ?_⟩
    rw [List.mem_range'_1]
    have : y1 + (y - y1) = y := by omega
    rw [this]; omega


theorem listGet_ok {α : Type} (l : List α) (k : Nat) (a : α) (h : listGet l k = .ok a) : l[k]? = some a := by
  unfold listGet at h
  split at h
  · next b hb => injection h with h; subst h; exact hb
  · cases h

theorem bind_ok {α β : Type} (x : Except Err α) (f : α → Except Err β) (b : β) (h : (x >>= f) = .ok b) :
    ∃ a, x = .ok a ∧ f a = .ok b := by
  cases x with
  | error e => simp [bind, Except.bind] at h
  | ok a => exact ⟨a, rfl, by simpa [bind, Except.bind] using h⟩

/-- the recursion started from a list of edge tiles keeps the frame -/
theorem edge_fold_frame (P : Nat → Prop) (fuel : Nat) (xys : List (Int × Int)) (m1 m' : Map) (hwf : WF m1)
    (hP : ∀ k, P k → ∃ t, m1.tiles[k]? = some t ∧ ∃ c ∈ xys, tileXY m1 t = .ok c)
    (edge : List Nat) (h : edge.foldlM (fun m k => elevRec fuel m k xys []) m1 = .ok m') : Frame P m1 m' := by
  have H := protect_of_xys m1 hwf xys P hP
  refine foldlM_frame (fun m => WF m ∧ m.size = m1.size) (Frame P) _ (Frame.refl P)
    (fun _ _ _ => Frame.trans) (fun a b hi r => ⟨r.wf hi.1, by rw [r.size, hi.2]⟩) edge m1 m' ?_ ⟨hwf, rfl⟩ h
  intro ma k mb _ hi hstep
  exact elevRec_frame P m1.size xys H fuel ma k [] mb hi.1 hi.2 hstep

/-- `set_elevation` on a rectangle with more than one tile: only elevations change, and every tile of the
rectangle ends at `e` – for every fuel with which the model terminates normally -/
theorem setElevation_rect (fs : Bool) (fuel : Nat) (m m' : Map) (e : Int) (x1 y1 x2 y2 : Nat) (hwf : WF m)
    (hx : x1 ≤ x2) (hx2 : x2 < m.size) (hy : y1 ≤ y2) (hy2 : y2 < m.size) (hns : ¬ (x1 = x2 ∧ y1 = y2))
    (h : setElevation fs fuel m e x1 y1 (some (x2 : Int)) (some (y2 : Int)) = .ok m') :
    Frame (fun _ => False) m m' ∧
      ∀ k ∈ (rectRows m.size x1 y1 x2 y2).flatten, (m'.tiles[k]?).map Tile.elevation = some e := by
  have hc : ¬ ((x1 : Int) = (x2 : Int) ∧ (y1 : Int) = (y2 : Int)) := by omega
  unfold setElevation at h
  simp only [Option.getD_some, if_neg hc, squareRowsPos_spec m hwf x1 y1 x2 y2 hx hx2 hy hy2] at h
  obtain ⟨rows, hrows, h⟩ := bind_ok _ _ _ h
  injection hrows with hps
  generalize hm1 : rows.flatten.foldl (fun m k => setElevAt m k e) m = m1 at h
  have ff : Frame (fun k => k ∉ rows.flatten) m m1 := hm1 ▸ fill_frame e rows.flatten m
  have hwf1 : WF m1 := ff.wf hwf
  obtain ⟨xys, hxys, h⟩ := bind_ok _ _ _ h
  obtain ⟨first, _, h⟩ := bind_ok _ _ _ h
  obtain ⟨last, _, h⟩ := bind_ok _ _ _ h
  obtain ⟨mids, _, h⟩ := bind_ok _ _ _ h
  have fe : Frame (fun k => k ∈ rows.flatten) m1 m' := by
    refine edge_fold_frame _ fuel xys m1 m' hwf1 ?_ _ h
    intro k hk
    obtain ⟨c, hc, hkc⟩ := mapM_ok_mem _ _ _ hxys k hk
    obtain ⟨t, hg, hkc⟩ := bind_ok _ _ _ hkc
    exact ⟨t, listGet_ok _ _ _ hg, c, hc, hkc⟩
  refine ⟨(ff.mono (fun _ hk => hk.elim)).trans (fe.mono (fun _ hk => hk.elim)), ?_⟩
  intro k hk
  rw [hps] at hk
  rw [fe.prot k hk, ← hm1, fill_spec, if_pos hk]
  obtain ⟨x, y, h1, h2, h3, h4, rfl⟩ := (mem_rectRows _ _ _ _ _ _).mp (hps ▸ hk)
  have hlt : x + y * m.size < m.tiles.length := by
    rw [hwf.1]; exact pos_lt_sq x y m.size (by omega) (by omega)
  rw [List.getElem?_eq_getElem hlt]
  rfl


/-- `set_elevation` on a single tile: only elevations change; the tile itself ends at `e` when the assignment is
made (`fixSingle`), and keeps its old elevation when it is not (the code as it is) -/
theorem setElevation_single (fs : Bool) (fuel : Nat) (m m' : Map) (e : Int) (x y : Nat) (x2? y2? : Option Int)
    (hwf : WF m) (hx : x < m.size) (hy : y < m.size)
    (hx2 : x2?.getD (x : Int) = (x : Int)) (hy2 : y2?.getD (y : Int) = (y : Int))
    (h : setElevation fs fuel m e x y x2? y2? = .ok m') :
    Frame (fun _ => False) m m' ∧
      (m'.tiles[x + y * m.size]?).map Tile.elevation =
        if fs then some e else (m.tiles[x + y * m.size]?).map Tile.elevation := by
  unfold setElevation at h
  simp only [hx2, hy2, and_self, if_true, getPos_xy false m hwf x y hx hy] at h
  obtain ⟨k, hk, h⟩ := bind_ok _ _ _ h
  injection hk with hk
  subst hk
  have hlt : x + y * m.size < m.tiles.length := by rw [hwf.1]; exact pos_lt_sq x y m.size hx hy
  generalize hm1 : (if fs = true then setElevAt m (x + y * m.size) e else m) = m1 at h
  have ff : Frame (fun _ => False) m m1 := by
    subst hm1; cases fs
    · exact Frame.refl _ m
    · exact Frame.setElevAt _ m _ e (fun hf => hf)
  have hwf1 : WF m1 := ff.wf hwf
  obtain ⟨t, ht, h⟩ := bind_ok _ _ _ h
  obtain ⟨xy, hxy, h⟩ := bind_ok _ _ _ h
  have fe : Frame (fun k => k = x + y * m.size) m1 m' := by
    refine elevRec_frame _ m1.size [xy] ?_ fuel m1 _ [] m' hwf1 rfl h
    refine protect_of_xys m1 hwf1 [xy] _ ?_
    intro k hk; subst hk
    exact ⟨t, listGet_ok _ _ _ ht, xy, by simp, hxy⟩
  refine ⟨ff.trans (fe.mono (fun _ hk => hk.elim)), ?_⟩
  rw [fe.prot _ rfl, ← hm1]
  cases fs
  · simp
  · simp [getElem?_setElevAt, List.getElem?_eq_getElem hlt]


/-! ### fuel bound -/

theorem filter_length_le {α : Type} (p q : α → Bool) (hqp : ∀ a, q a = true → p a = true) :
    ∀ l : List α, (l.filter q).length ≤ (l.filter p).length
  | [] => by simp
  | b :: l => by
      have ih := filter_length_le p q hqp l
      simp only [List.filter_cons]
      cases hq : q b
      · cases hp : p b <;> simp <;> omega
      · simp [hqp b hq]; omega

theorem filter_length_lt {α : Type} (p q : α → Bool) (hqp : ∀ a, q a = true → p a = true) :
    ∀ (l : List α) (a : α), a ∈ l → p a = true → q a = false → (l.filter q).length < (l.filter p).length
  | [], a, ha, _, _ => by simp at ha
  | b :: l, a, ha, hpa, hqa => by
      have hle := filter_length_le p q hqp l
      simp only [List.filter_cons]
      rcases List.mem_cons.mp ha with rfl | hm
      · simp [hpa, hqa]; omega
      · have ih := filter_length_lt p q hqp l a hm hpa hqa
        cases hq : q b
        · cases hp : p b <;> simp <;> omega
        · simp [hqp b hq]; omega

/-- coordinates of position `k` on a map of size `s` -/
def coordOf (s k : Nat) : Int × Int := (((k % s : Nat) : Int), ((k / s : Nat) : Int))

/-- number of map positions whose coordinates are not in `vis` -/
def freeCount (s : Nat) (vis : List (Int × Int)) : Nat :=
  ((List.range (s * s)).filter (fun k => !vis.contains (coordOf s k))).length

theorem freeCount_cons_lt (s : Nat) (vis : List (Int × Int)) (k : Nat) (hk : k < s * s) (hv : coordOf s k ∉ vis) :
    freeCount s (coordOf s k :: vis) < freeCount s vis := by
  unfold freeCount
  apply filter_length_lt _ _ _ _ k (List.mem_range.mpr hk)
  · simpa using hv
  · simp
  · intro a ha
    simp only [List.contains_cons, Bool.not_eq_true', Bool.or_eq_false_iff] at ha ⊢
    simpa using ha.2

theorem freeCount_le_sq (s : Nat) (vis : List (Int × Int)) : freeCount s vis ≤ s * s := by
  unfold freeCount
  exact Nat.le_trans (List.length_filter_le _ _) (by simp)


theorem getPosSafe_total (m : Map) (x y : Int) :
    getPosSafe m x y = .ok none ∨ ∃ k, getPosSafe m x y = .ok (some k) := by
  have e : getPos false m (some x) (some y) none =
      (xyToI x y m.size).bind (fun k => if k < m.tiles.length then .ok k else .error .index) := by
    simp [getPos, truthy, bind]
  unfold getPosSafe
  rw [e]
  unfold xyToI
  by_cases hoob : (max x y ≥ (m.size : Int) ∨ min x y < 0)
  · left; simp [hoob, Except.bind]
  · by_cases hk : (x + y * (m.size : Int)).toNat < m.tiles.length
    · right; exact ⟨(x + y * (m.size : Int)).toNat, by simp [hoob, Except.bind, hk]⟩
    · left; simp [hoob, Except.bind, hk]

theorem listGet_lt {α : Type} (l : List α) (k : Nat) (h : k < l.length) : listGet l k = .ok l[k] := by
  simp [listGet, List.getElem?_eq_getElem h]

theorem foldlM_ok {α : Type} (I : Map → Prop) (step : Map → α → Except Err Map) :
    ∀ (l : List α) (m : Map), (∀ m a, a ∈ l → I m → ∃ m', step m a = .ok m' ∧ I m') → I m →
      ∃ m', l.foldlM step m = .ok m' ∧ I m'
  | [], m, _, hi => ⟨m, rfl, hi⟩
  | a :: l, m, hs, hi => by
      obtain ⟨m1, h1, hi1⟩ := hs m a (by simp) hi
      obtain ⟨m2, h2, hi2⟩ := foldlM_ok I step l m1 (fun m a ha => hs m a (by simp [ha])) hi1
      exact ⟨m2, by simp [List.foldlM_cons, h1, h2, bind, Except.bind], hi2⟩

theorem elevStep_ok (s : Nat) (xys vis : List (Int × Int)) (recur : Map → Nat → Except Err Map)
    (src : Nat) (x y : Int) (hsrc : src < s * s)
    (hrec : ∀ m1 k, WF m1 → m1.size = s → k < s * s → coordOf s k ∉ vis → ∃ m2, recur m1 k = .ok m2)
    (m : Map) (o : Int × Int) (hwf : WF m) (hs : m.size = s) :
    ∃ m', elevStep recur src x y xys vis m o = .ok m' := by
  have hlen : m.tiles.length = s * s := by rw [hwf.1, hs]
  unfold elevStep
  simp only []
  split
  · next hc =>
    simp only [Bool.and_eq_true, Bool.not_eq_true', List.contains_eq_mem, decide_eq_false_iff_not] at hc
    obtain ⟨⟨_, _⟩, hvis⟩ := hc
    rcases getPosSafe_total m (x + o.1) (y + o.2) with hp | ⟨ko, hp⟩
    · exact ⟨m, by simp [hp, bind, Except.bind, pure, Except.pure]⟩
    · obtain ⟨hko, hkolt⟩ := getPosSafe_some m _ _ ko hp
      rw [hs] at hko
      have hsrc' : src < m.tiles.length := by omega
      have h1 := listGet_lt m.tiles src hsrc'
      have h2 := listGet_lt m.tiles ko hkolt
      have tail : ∀ fill : Bool, ∃ m',
          (if fill = true then Except.ok (setElevAt m ko m.tiles[src].elevation)
           else if (m.tiles[ko].elevation - m.tiles[src].elevation).natAbs > 1 then
             recur (setElevAt m ko (m.tiles[src].elevation + sign m.tiles[ko].elevation m.tiles[src].elevation)) ko
           else Except.ok m) = Except.ok m' := by
        intro fill
        cases fill
        · simp only [Bool.false_eq_true, if_false]
          split
          · have f1 := Frame.setElevAt (fun _ => False) m ko
              (m.tiles[src].elevation + sign m.tiles[ko].elevation m.tiles[src].elevation) (fun hf => hf)
            have hc : coordOf s ko = (x + o.1, y + o.2) := xy_of_xyToI _ _ s ko hko
            exact hrec _ ko (f1.wf hwf) (by rw [f1.size, hs]) (by omega) (by rw [hc]; exact hvis)
          · exact ⟨m, rfl⟩
        · exact ⟨_, rfl⟩
      simp only [hp, bind, Except.bind, h1, h2]
      rcases getPosSafe_total m (x + o.1 * 2) (y + o.2 * 2) with hb | ⟨kb, hb⟩
      · simp only [hb, pure, Except.pure]
        exact tail false
      · obtain ⟨_, hkblt⟩ := getPosSafe_some m _ _ kb hb
        simp only [hb, pure, Except.pure, listGet_lt m.tiles kb hkblt]
        exact tail _
  · exact ⟨m, rfl⟩
/-- **fuel bound**: the recursion started at a tile whose coordinates are not yet visited terminates normally as
soon as the fuel is at least the number of unvisited map positions (each nested call visits a new position) -/
theorem elevRec_ok (s : Nat) (xys : List (Int × Int)) :
    ∀ (fuel : Nat) (m : Map) (src : Nat) (vis : List (Int × Int)), WF m → m.size = s → src < s * s →
      coordOf s src ∉ vis → freeCount s vis ≤ fuel → ∃ m', elevRec fuel m src xys vis = .ok m'
  | 0, m, src, vis, _, _, hsrc, hv, hf => by
      have := freeCount_cons_lt s vis src hsrc hv
      omega
  | fuel + 1, m, src, vis, hwf, hs, hsrc, hv, hf => by
      have hlt : src < m.tiles.length := by rw [hwf.1, hs]; exact hsrc
      have hxy : tileXY m m.tiles[src] = .ok (coordOf s src) := by
        rw [tileXY_wf m hwf src _ (List.getElem?_eq_getElem hlt), hs]; rfl
      have hfc := freeCount_cons_lt s vis src hsrc hv
      simp only [elevRec, bind, Except.bind, listGet_lt m.tiles src hlt, hxy]
      have HF : ∀ (x y : Int) (k : Nat), xyToI x y s = .ok k → (x, y) ∉ xys → ¬ (fun _ : Nat => False) k :=
        fun _ _ _ _ _ hf => hf
      have key : ∀ (ma : Map) (o : Int × Int), o ∈ offsets → (WF ma ∧ ma.size = s) →
          ∃ mb, elevStep (fun m' k => elevRec fuel m' k xys (coordOf s src :: vis)) src (coordOf s src).1
            (coordOf s src).2 xys (coordOf s src :: vis) ma o = .ok mb ∧ (WF mb ∧ mb.size = s) := by
        intro ma o _ hi
        have hrec : ∀ m1 k, WF m1 → m1.size = s → k < s * s → coordOf s k ∉ coordOf s src :: vis →
            ∃ m2, elevRec fuel m1 k xys (coordOf s src :: vis) = .ok m2 :=
          fun m1 k w1 s1 hk hkv => elevRec_ok s xys fuel m1 k (coordOf s src :: vis) w1 s1 hk hkv (by omega)
        obtain ⟨mb, hmb⟩ := elevStep_ok s xys (coordOf s src :: vis) _ src (coordOf s src).1 (coordOf s src).2
          hsrc hrec ma o hi.1 hi.2
        have fr := elevStep_frame (fun _ => False) s xys (coordOf s src :: vis) _ src _ _ HF
          (fun m1 k m2 w1 s1 hr => elevRec_frame _ s xys HF fuel m1 k _ m2 w1 s1 hr) ma o mb hi.1 hi.2 hmb
        exact ⟨mb, hmb, fr.wf hi.1, by rw [fr.size, hi.2]⟩
      obtain ⟨m', hm', _⟩ := foldlM_ok (fun m => WF m ∧ m.size = s) _ offsets m key ⟨hwf, hs⟩
      exact ⟨m', hm'⟩

theorem mapM_ok_exists {α β : Type} (f : α → Except Err β) (Q : β → Prop) :
    ∀ l : List α, (∀ a ∈ l, ∃ b, f a = .ok b ∧ Q b) → ∃ bs, l.mapM f = .ok bs ∧ ∀ b ∈ bs, Q b
  | [], _ => ⟨[], rfl, by simp⟩
  | a :: l, h => by
      obtain ⟨b, hb, qb⟩ := h a (by simp)
      obtain ⟨bs, hbs, qbs⟩ := mapM_ok_exists f Q l (fun a' ha' => h a' (by simp [ha']))
      refine ⟨b :: bs, by simp [List.mapM_cons, hb, hbs, bind, Except.bind, pure, Except.pure], ?_⟩
      intro b' hb'
      rcases List.mem_cons.mp hb' with rfl | hm
      · exact qb
      · exact qbs b' hm

theorem pyFirst_ok {α : Type} (l : List α) (h : l ≠ []) : ∃ a, pyFirst l = .ok a ∧ a ∈ l := by
  cases l with
  | nil => exact absurd rfl h
  | cons a l => exact ⟨a, rfl, by simp⟩

theorem pyLast_ok {α : Type} (l : List α) (h : l ≠ []) : ∃ a, pyLast l = .ok a ∧ a ∈ l := by
  refine ⟨l.getLast h, ?_, List.getLast_mem h⟩
  simp [pyLast, List.getLast?_eq_some_getLast h]

/-- the recursion started from every edge tile terminates normally with fuel `≥ size²` -/
theorem edge_fold_ok (fuel : Nat) (xys : List (Int × Int)) (m1 : Map) (hwf : WF m1) (hf : m1.size * m1.size ≤ fuel)
    (edge : List Nat) (he : ∀ k ∈ edge, k < m1.size * m1.size) :
    ∃ m', edge.foldlM (fun m k => elevRec fuel m k xys []) m1 = .ok m' := by
  have HF : ∀ (x y : Int) (k : Nat), xyToI x y m1.size = .ok k → (x, y) ∉ xys → ¬ (fun _ : Nat => False) k :=
    fun _ _ _ _ _ hf => hf
  obtain ⟨m', hm', _⟩ := foldlM_ok (fun m => WF m ∧ m.size = m1.size) (fun m k => elevRec fuel m k xys []) edge m1
    (by
      intro ma k hk hi
      obtain ⟨mb, hmb⟩ := elevRec_ok m1.size xys fuel ma k [] hi.1 hi.2 (he k hk) (by simp)
        (Nat.le_trans (freeCount_le_sq _ _) hf)
      have fr := elevRec_frame _ m1.size xys HF fuel ma k [] mb hi.1 hi.2 hmb
      exact ⟨mb, hmb, fr.wf hi.1, by rw [fr.size, hi.2]⟩) ⟨hwf, rfl⟩
  exact ⟨m', hm'⟩


theorem ok_bind {α β : Type} (a : α) (f : α → Except Err β) : ((Except.ok a : Except Err α) >>= f) = f a := rfl

theorem rectRows_ne_nil (s x1 y1 x2 y2 : Nat) (hy : y1 ≤ y2) : rectRows s x1 y1 x2 y2 ≠ [] := by
  intro h
  have := congrArg List.length h
  simp [rectRows] at this
  omega

theorem mem_rectRows_row (s x1 y1 x2 y2 : Nat) (hx : x1 ≤ x2) (r : List Nat) (hr : r ∈ rectRows s x1 y1 x2 y2) :
    r ≠ [] ∧ ∀ k ∈ r, k ∈ (rectRows s x1 y1 x2 y2).flatten := by
  refine ⟨?_, fun k hk => List.mem_flatten.mpr ⟨r, hr, hk⟩⟩
  simp only [rectRows, List.mem_map, List.mem_range] at hr
  obtain ⟨dy, _, rfl⟩ := hr
  intro h
  have := congrArg List.length h
  simp at this
  omega

theorem setElevation_rect_ok (fs : Bool) (fuel : Nat) (m : Map) (e : Int) (x1 y1 x2 y2 : Nat) (hwf : WF m)
    (hx : x1 ≤ x2) (hx2 : x2 < m.size) (hy : y1 ≤ y2) (hy2 : y2 < m.size) (hns : ¬ (x1 = x2 ∧ y1 = y2))
    (hf : m.size * m.size ≤ fuel) :
    ∃ m', setElevation fs fuel m e x1 y1 (some (x2 : Int)) (some (y2 : Int)) = .ok m' := by
  have hc : ¬ ((x1 : Int) = (x2 : Int) ∧ (y1 : Int) = (y2 : Int)) := by omega
  unfold setElevation
  simp only [Option.getD_some, if_neg hc, squareRowsPos_spec m hwf x1 y1 x2 y2 hx hx2 hy hy2, ok_bind]
  generalize hps : rectRows m.size x1 y1 x2 y2 = rows
  have hflat : ∀ k ∈ rows.flatten, k < m.size * m.size := by
    intro k hk
    obtain ⟨x, y, h1, h2, h3, h4, rfl⟩ := (mem_rectRows _ _ _ _ _ _).mp (hps ▸ hk)
    exact pos_lt_sq x y m.size (by omega) (by omega)
  have hrow : ∀ r ∈ rows, r ≠ [] ∧ ∀ k ∈ r, k ∈ rows.flatten := by
    intro r hr; subst hps; exact mem_rectRows_row _ _ _ _ _ hx r hr
  have hne : rows ≠ [] := hps ▸ rectRows_ne_nil _ _ _ _ _ hy
  generalize hm1 : rows.flatten.foldl (fun m k => setElevAt m k e) m = m1
  have ff : Frame (fun k => k ∉ rows.flatten) m m1 := hm1 ▸ fill_frame e rows.flatten m
  have hwf1 : WF m1 := ff.wf hwf
  have hs1 : m1.size = m.size := ff.size
  -- xys
  have hxys : rows.flatten.mapM (fun k => do let t ← listGet m1.tiles k; tileXY m1 t) =
      .ok (rows.flatten.map (fun k => coordOf m1.size k)) := by
    apply mapM_ok
    intro k hk
    have hlt : k < m1.tiles.length := by rw [hwf1.1, hs1]; exact hflat k hk
    rw [listGet_lt _ _ hlt, ok_bind]
    exact tileXY_wf m1 hwf1 k _ (List.getElem?_eq_getElem hlt)
  obtain ⟨first, hfirst, hfm⟩ := pyFirst_ok rows hne
  obtain ⟨last, hlast, hlm⟩ := pyLast_ok rows hne
  obtain ⟨mids, hmids, hmq⟩ := mapM_ok_exists
    (fun r : List Nat => (do let a ← pyFirst r; let b ← pyLast r; pure [a, b] : Except Err (List Nat)))
    (fun ab => ∀ k ∈ ab, k ∈ rows.flatten) ((rows.drop 1).dropLast) (by
      intro r hr
      have hr' : r ∈ rows := List.mem_of_mem_drop (List.dropLast_subset _ hr)
      obtain ⟨hrne, hrk⟩ := hrow r hr'
      obtain ⟨a, ha, ham⟩ := pyFirst_ok r hrne
      obtain ⟨b, hb, hbm⟩ := pyLast_ok r hrne
      refine ⟨[a, b], by simp only [ha, hb, ok_bind]; rfl, ?_⟩
      intro k hk
      simp at hk
      rcases hk with rfl | rfl
      · exact hrk _ ham
      · exact hrk _ hbm)
  have hedge : ∀ k ∈ first ++ last ++ mids.flatten, k < m1.size * m1.size := by
    intro k hk
    rw [hs1]
    apply hflat
    simp only [List.mem_append, List.mem_flatten] at hk
    rcases hk with (hk | hk) | ⟨ab, hab, hk⟩
    · exact (hrow first hfm).2 k hk
    · exact (hrow last hlm).2 k hk
    · exact hmq ab hab k hk
  obtain ⟨m', hm'⟩ := edge_fold_ok fuel (rows.flatten.map (fun k => coordOf m1.size k)) m1 hwf1
    (by rw [hs1]; exact hf) _ hedge
  refine ⟨m', ?_⟩
  simp only [hxys, hfirst, hlast, hmids, ok_bind]
  exact hm'

theorem setElevation_single_ok (fs : Bool) (fuel : Nat) (m : Map) (e : Int) (x y : Nat) (x2? y2? : Option Int)
    (hwf : WF m) (hx : x < m.size) (hy : y < m.size)
    (hx2 : x2?.getD (x : Int) = (x : Int)) (hy2 : y2?.getD (y : Int) = (y : Int))
    (hf : m.size * m.size ≤ fuel) :
    ∃ m', setElevation fs fuel m e x y x2? y2? = .ok m' := by
  unfold setElevation
  simp only [hx2, hy2, and_self, if_true, getPos_xy false m hwf x y hx hy, ok_bind]
  have hk : x + y * m.size < m.size * m.size := pos_lt_sq x y m.size hx hy
  generalize hm1 : (if fs = true then setElevAt m (x + y * m.size) e else m) = m1
  have ff : Frame (fun _ => False) m m1 := by
    subst hm1; cases fs
    · exact Frame.refl _ m
    · exact Frame.setElevAt _ m _ e (fun hf => hf)
  have hwf1 : WF m1 := ff.wf hwf
  have hs1 : m1.size = m.size := ff.size
  have hlt : x + y * m.size < m1.tiles.length := by rw [hwf1.1, hs1]; exact hk
  have hxy := tileXY_wf m1 hwf1 _ _ (List.getElem?_eq_getElem hlt)
  simp only [listGet_lt _ _ hlt, ok_bind, hxy]
  exact elevRec_ok m1.size _ fuel m1 _ [] hwf1 rfl (by rw [hs1]; exact hk) (by simp)
    (Nat.le_trans (freeCount_le_sq _ _) (by rw [hs1]; exact hf))

theorem fold_frame_any (fuel : Nat) (xys : List (Int × Int)) (m1 m' : Map) (hwf : WF m1) (edge : List Nat)
    (h : edge.foldlM (fun m k => elevRec fuel m k xys []) m1 = .ok m') : Frame (fun _ => False) m1 m' := by
  have HF : ∀ (x y : Int) (k : Nat), xyToI x y m1.size = .ok k → (x, y) ∉ xys → ¬ (fun _ : Nat => False) k :=
    fun _ _ _ _ _ hf => hf
  refine foldlM_frame (fun m => WF m ∧ m.size = m1.size) (Frame _) _ (Frame.refl _)
    (fun _ _ _ => Frame.trans) (fun a b hi r => ⟨r.wf hi.1, by rw [r.size, hi.2]⟩) edge m1 m' ?_ ⟨hwf, rfl⟩ h
  intro ma k mb _ hi hstep
  exact elevRec_frame _ m1.size xys HF fuel ma k [] mb hi.1 hi.2 hstep

/-- whatever its arguments, a `set_elevation` that returns normally changed nothing but elevations -/
theorem setElevation_frame_any (fs : Bool) (fuel : Nat) (m m' : Map) (e x1 y1 : Int) (x2? y2? : Option Int)
    (hwf : WF m) (h : setElevation fs fuel m e x1 y1 x2? y2? = .ok m') : Frame (fun _ => False) m m' := by
  unfold setElevation at h
  simp only [] at h
  split at h
  · obtain ⟨k, _, h⟩ := bind_ok _ _ _ h
    generalize hm1 : (if fs = true then setElevAt m k e else m) = m1 at h
    have ff : Frame (fun _ => False) m m1 := by
      subst hm1; cases fs
      · exact Frame.refl _ m
      · exact Frame.setElevAt _ m _ e (fun hf => hf)
    obtain ⟨t, _, h⟩ := bind_ok _ _ _ h
    obtain ⟨xy, _, h⟩ := bind_ok _ _ _ h
    have HF : ∀ (x y : Int) (k : Nat), xyToI x y m1.size = .ok k → (x, y) ∉ [xy] → ¬ (fun _ : Nat => False) k :=
      fun _ _ _ _ _ hf => hf
    exact ff.trans (elevRec_frame _ m1.size [xy] HF fuel m1 k [] m' (ff.wf hwf) rfl h)
  · obtain ⟨rows, _, h⟩ := bind_ok _ _ _ h
    generalize hm1 : rows.flatten.foldl (fun m k => setElevAt m k e) m = m1 at h
    have ff : Frame (fun k => k ∉ rows.flatten) m m1 := hm1 ▸ fill_frame e rows.flatten m
    obtain ⟨xys, _, h⟩ := bind_ok _ _ _ h
    obtain ⟨first, _, h⟩ := bind_ok _ _ _ h
    obtain ⟨last, _, h⟩ := bind_ok _ _ _ h
    obtain ⟨mids, _, h⟩ := bind_ok _ _ _ h
    exact (ff.mono (fun _ hk => hk.elim)).trans (fold_frame_any fuel xys m1 m' (ff.wf hwf) _ h)

/-- the positions `set_elevation` works on are the positions of the tiles `get_square_2d` returns -/
theorem squareRows_pos_agree (m : Map) (hwf : WF m) (x1 y1 x2 y2 : Nat)
    (hx : x1 ≤ x2) (hx2 : x2 < m.size) (hy : y1 ≤ y2) (hy2 : y2 < m.size) :
    ∃ rows prows, squareRows m x1 y1 x2 y2 = .ok rows ∧ squareRowsPos m x1 y1 x2 y2 = .ok prows ∧
      rows.length = prows.length ∧
      ∀ dx dy, dx ≤ x2 - x1 → dy ≤ y2 - y1 → ∃ r pr k, rows[dy]? = some r ∧ prows[dy]? = some pr ∧
        pr[dx]? = some k ∧ r[dx]? = m.tiles[k]? ∧ k = (x1 + dx) + (y1 + dy) * m.size := by
  refine ⟨_, _, squareRows_spec m x1 y1 x2 y2 hx hx2 hy hy2, squareRowsPos_spec m hwf x1 y1 x2 y2 hx hx2 hy hy2,
    by simp [rectRows], ?_⟩
  intro dx dy hdx hdy
  have hdy' : dy < y2 + 1 - y1 := by omega
  refine ⟨(m.tiles.take (x2 + (y1 + dy) * m.size + 1)).drop (x1 + (y1 + dy) * m.size),
    List.range' (x1 + (y1 + dy) * m.size) (x2 + 1 - x1), (x1 + dx) + (y1 + dy) * m.size,
    by simp [List.getElem?_range hdy'], by simp [rectRows, List.getElem?_range hdy'], ?_,
    squareRow_get m x1 x2 (y1 + dy) dx hdx hx, rfl⟩
  rw [List.getElem?_range' (by omega)]
  congr 1; omega

end Aoe.Map
