import Aoe.Lemmas.DirtyCommit
/-!
C18 helper lemmas, part 3: single history steps and whole histories.
-/
namespace Aoe.Dirty

theorem save_rel {cfg : Cfg} {s s' : Scn} (h : save cfg s = .ok s') : CommitRel cfg s s' := commit_rel _ _ _ h

theorem run_cons {cfg : Cfg} {op : Op} {ops : List Op} {s s' : Scn} (h : run cfg s (op :: ops) = .ok s') :
    ∃ s1, step cfg s op = .ok s1 ∧ run cfg s1 ops = .ok s' := by
  unfold run at h
  split at h
  · cases h
  · next s1 h1 => exact ⟨s1, h1, h⟩

theorem run_append {cfg : Cfg} : ∀ (a b : List Op) (s s' : Scn), run cfg s (a ++ b) = .ok s' →
    ∃ s1, run cfg s a = .ok s1 ∧ run cfg s1 b = .ok s'
  | [], b, s, s', h => ⟨s, rfl, h⟩
  | op :: ops, b, s, s', h => by
    simp only [List.cons_append] at h
    obtain ⟨s1, h1, h2⟩ := run_cons h
    obtain ⟨s2, h3, h4⟩ := run_append ops b s1 s' h2
    exact ⟨s2, by simp [run, h1, h3], h4⟩

theorem run_snoc {cfg : Cfg} {ops : List Op} {op : Op} {s s' : Scn} (h : run cfg s (ops ++ [op]) = .ok s') :
    ∃ s1, run cfg s ops = .ok s1 ∧ step cfg s1 op = .ok s' := by
  obtain ⟨s1, h1, h2⟩ := run_append ops [op] s s' h
  obtain ⟨s2, h3, h4⟩ := run_cons h2
  simp [run] at h4; subst h4
  exact ⟨s1, h1, h3⟩

/-! ### one step, seen from one plain retriever -/

theorem step_plain {cfg : Cfg} {s s1 : Scn} {op : Op} {f : Field} {c : Cell Val}
    (h : step cfg s op = .ok s1) (hc : s.plain f = some c) :
    ∃ c1, s1.plain f = some c1 ∧
      ((∃ v, op = .userSet f v ∧ c1 = c.userSet v) ∨ ((∀ v, op ≠ .userSet f v) ∧ LibRel cfg.allow c c1)) := by
  cases op with
  | userSet g v =>
    by_cases hg : g = f
    · subst hg
      simp only [step, hc] at h
      cases h
      exact ⟨_, by simp [Dirty.recSet], Or.inl ⟨v, rfl, rfl⟩⟩
    · refine ⟨c, ?_, Or.inr ⟨fun v hv => hg (by cases hv; rfl), LibRel.refl _ _⟩⟩
      simp only [step] at h
      split at h
      · cases h; exact hc
      · cases h; simp [Dirty.recSet, Ne.symm hg, hc]
  | userRec l i g v =>
    refine ⟨c, ?_, Or.inr ⟨fun v hv => (by cases hv), LibRel.refl _ _⟩⟩
    simp only [step] at h
    split at h
    · cases h
    · split at h
      · cases h
      · split at h
        · cases h
        · split at h <;> (cases h; exact hc)
  | userList l recs =>
    refine ⟨c, ?_, Or.inr ⟨fun v hv => (by cases hv), LibRel.refl _ _⟩⟩
    simp only [step] at h
    split at h <;> (cases h; exact hc)
  | mgrSet slot v =>
    simp only [step] at h; cases h
    exact ⟨c, hc, Or.inr ⟨fun v hv => (by cases hv), LibRel.refl _ _⟩⟩
  | mgrObjs l objs =>
    simp only [step] at h; cases h
    exact ⟨c, hc, Or.inr ⟨fun v hv => (by cases hv), LibRel.refl _ _⟩⟩
  | save =>
    have hr := (save_rel (by simpa [step] using h)).plain f
    rcases hr with ⟨x, _⟩ | ⟨x, c1, hx, h1, hl⟩
    · rw [hc] at x; cases x
    · rw [hc] at hx; cases hx
      exact ⟨c1, h1, Or.inr ⟨fun v hv => (by cases hv), hl⟩⟩

/-- an absent plain retriever stays absent -/
theorem step_plain_none {cfg : Cfg} {s s1 : Scn} {op : Op} {f : Field}
    (h : step cfg s op = .ok s1) (hc : s.plain f = none) : s1.plain f = none := by
  cases op with
  | userSet g v =>
    simp only [step] at h
    split at h
    · cases h; exact hc
    · next c hg =>
      cases h
      have : f ≠ g := fun e => by subst e; rw [hc] at hg; cases hg
      simp [Dirty.recSet, this, hc]
  | userRec l i g v =>
    simp only [step] at h
    split at h
    · cases h
    · split at h
      · cases h
      · split at h
        · cases h
        · split at h <;> (cases h; exact hc)
  | userList l recs =>
    simp only [step] at h
    split at h <;> (cases h; exact hc)
  | mgrSet slot v => simp only [step] at h; cases h; exact hc
  | mgrObjs l objs => simp only [step] at h; cases h; exact hc
  | save =>
    have hr := (save_rel (by simpa [step] using h)).plain f
    rcases hr with ⟨_, y⟩ | ⟨x, c1, hx, _, _⟩
    · exact y
    · rw [hc] at hx; cases hx

/-- **history invariant of one plain retriever**: it exists throughout, keeps `CellOk`, and is marked exactly when
it was marked before or the history contains a user assignment to it -/
theorem run_plain {cfg : Cfg} {f : Field} : ∀ (h : List Op) (s s' : Scn) (c : Cell Val),
    run cfg s h = .ok s' → s.plain f = some c → CellOk c →
    ∃ c', s'.plain f = some c' ∧ CellOk c' ∧ (c'.dirty = true ↔ (c.dirty = true ∨ ∃ v, Op.userSet f v ∈ h))
  | [], s, s', c, h, hc, hk => by
    simp [run] at h; subst h
    exact ⟨c, hc, hk, by simp⟩
  | op :: ops, s, s', c, h, hc, hk => by
    obtain ⟨s1, h1, h2⟩ := run_cons h
    obtain ⟨c1, hc1, hcase⟩ := step_plain h1 hc
    rcases hcase with ⟨v, rfl, rfl⟩ | ⟨hne, hl⟩
    · obtain ⟨c', h', hk', hiff⟩ := run_plain ops s1 s' _ h2 hc1 (userSet_ok c v hk)
      refine ⟨c', h', hk', ?_⟩
      rw [hiff, userSet_dirty c v hk]
      constructor
      · intro _; exact Or.inr ⟨v, by simp⟩
      · intro _; exact Or.inl rfl
    · obtain ⟨c', h', hk', hiff⟩ := run_plain ops s1 s' _ h2 hc1 (hl.ok hk)
      refine ⟨c', h', hk', ?_⟩
      rw [hiff, hl.1]
      constructor
      · rintro (h | ⟨v, hv⟩)
        · exact Or.inl h
        · exact Or.inr ⟨v, by simp [hv]⟩
      · rintro (h | ⟨v, hv⟩)
        · exact Or.inl h
        · simp at hv
          rcases hv with hv | hv
          · exact absurd hv.symm (hne v)
          · exact Or.inr ⟨v, hv⟩

/-- with the setting off, a marked retriever keeps its value through any history without a further user assignment -/
theorem run_plain_dirty_stays {cfg : Cfg} {f : Field} (ha : cfg.allow = false) : ∀ (h : List Op) (s s' : Scn) (c : Cell Val),
    run cfg s h = .ok s' → s.plain f = some c → c.dirty = true → (∀ v, Op.userSet f v ∉ h) → s'.plain f = some c
  | [], s, s', c, h, hc, _, _ => by simp [run] at h; subst h; exact hc
  | op :: ops, s, s', c, h, hc, hd, hn => by
    obtain ⟨s1, h1, h2⟩ := run_cons h
    obtain ⟨c1, hc1, hcase⟩ := step_plain h1 hc
    rcases hcase with ⟨v, rfl, _⟩ | ⟨_, hl⟩
    · exact absurd (by simp) (hn v)
    · rw [ha] at hl
      have := hl.eq_of_dirty hd
      subst this
      exact run_plain_dirty_stays ha ops s1 s' c1 h2 hc1 hd (fun v hv => hn v (by simp [hv]))

theorem run_plain_none {cfg : Cfg} {f : Field} : ∀ (h : List Op) (s s' : Scn),
    run cfg s h = .ok s' → s.plain f = none → s'.plain f = none
  | [], s, s', h, hc => by simp [run] at h; subst h; exact hc
  | op :: ops, s, s', h, hc => by
    obtain ⟨s1, h1, h2⟩ := run_cons h
    exact run_plain_none ops s1 s' h2 (step_plain_none h1 hc)

/-! ### one step, seen from one struct-list retriever -/

/-- what one history step does to the list retriever `l` -/
inductive ListStep (cfg : Cfg) (l : Field) (s : Scn) (op : Op) (c c1 : Cell (List Rec)) : Prop
  | user (recs : Option (List Rec)) (hop : op = .userList l recs) (hc1 : c1 = c.userSet recs)
  | urec (i : Nat) (f : Field) (v : Option Val) (recs : List Rec) (r : Rec) (x : Cell Val)
      (hop : op = .userRec l i f v) (hd : c.data = some recs) (hr : recs[i]? = some r) (hx : r f = some x)
      (hc1 : c1 = { c with data := some (recs.set i (recSet r f (x.userSet v))) })
  | save (hop : op = .save) (hlib : ListLib cfg l (s.mobjs l).length c c1)
  | same (hne : ∀ recs, op ≠ .userList l recs) (hc1 : c1 = c)

theorem step_list {cfg : Cfg} {s s1 : Scn} {op : Op} {l : Field} {c : Cell (List Rec)}
    (h : step cfg s op = .ok s1) (hc : s.lists l = some c) :
    ∃ c1, s1.lists l = some c1 ∧ ListStep cfg l s op c c1 := by
  cases op with
  | userSet g v =>
    refine ⟨c, ?_, .same (fun _ hv => by cases hv) rfl⟩
    simp only [step] at h
    split at h <;> (cases h; exact hc)
  | userRec k i g v =>
    by_cases hk : k = l
    · subst hk
      simp only [step, hc] at h
      split at h
      · cases h
      · next recs hrecs =>
        split at h
        · cases h
        · next r hr =>
          split at h
          · cases h; exact ⟨c, hc, .same (fun _ hv => by cases hv) rfl⟩
          · next x hx =>
            cases h
            exact ⟨{ c with data := some (recs.set i (recSet r g (x.userSet v))) }, by simp [listSet], .urec i g v recs r x rfl hrecs hr hx rfl⟩
    · refine ⟨c, ?_, .same (fun _ hv => by cases hv) rfl⟩
      simp only [step] at h
      split at h
      · cases h
      · split at h
        · cases h
        · split at h
          · cases h
          · split at h
            · cases h; exact hc
            · cases h; simp [listSet, Ne.symm hk, hc]
  | userList k recs =>
    by_cases hk : k = l
    · subst hk
      simp only [step, hc] at h
      cases h
      exact ⟨c.userSet recs, by simp [listSet], .user recs rfl rfl⟩
    · refine ⟨c, ?_, .same (fun _ hv => hk (by cases hv; rfl)) rfl⟩
      simp only [step] at h
      split at h
      · cases h; exact hc
      · cases h; simp [listSet, Ne.symm hk, hc]
  | mgrSet slot v =>
    simp only [step] at h; cases h
    exact ⟨c, hc, .same (fun _ hv => by cases hv) rfl⟩
  | mgrObjs k objs =>
    simp only [step] at h; cases h
    exact ⟨c, hc, .same (fun _ hv => by cases hv) rfl⟩
  | save =>
    have hr := (save_rel (by simpa [step] using h)).lists l
    rcases hr with ⟨x, _⟩ | ⟨x, c1, hx, h1, hl⟩
    · rw [hc] at x; cases x
    · rw [hc] at hx; cases hx
      exact ⟨c1, h1, .save rfl hl⟩

theorem step_list_none {cfg : Cfg} {s s1 : Scn} {op : Op} {l : Field}
    (h : step cfg s op = .ok s1) (hc : s.lists l = none) : s1.lists l = none := by
  cases op with
  | userSet g v =>
    simp only [step] at h
    split at h <;> (cases h; exact hc)
  | userRec k i g v =>
    simp only [step] at h
    split at h
    · cases h
    · next ck hk =>
      have : l ≠ k := fun e => by subst e; rw [hc] at hk; cases hk
      split at h
      · cases h
      · split at h
        · cases h
        · split at h
          · cases h; exact hc
          · cases h; simp [listSet, this, hc]
  | userList k recs =>
    simp only [step] at h
    split at h
    · cases h; exact hc
    · next ck hk =>
      have : l ≠ k := fun e => by subst e; rw [hc] at hk; cases hk
      cases h; simp [listSet, this, hc]
  | mgrSet slot v => simp only [step] at h; cases h; exact hc
  | mgrObjs k objs => simp only [step] at h; cases h; exact hc
  | save =>
    have hr := (save_rel (by simpa [step] using h)).lists l
    rcases hr with ⟨_, y⟩ | ⟨x, c1, hx, _, _⟩
    · exact y
    · rw [hc] at hx; cases hx

theorem run_list_none {cfg : Cfg} {l : Field} : ∀ (h : List Op) (s s' : Scn),
    run cfg s h = .ok s' → s.lists l = none → s'.lists l = none
  | [], s, s', h, hc => by simp [run] at h; subst h; exact hc
  | op :: ops, s, s', h, hc => by
    obtain ⟨s1, h1, h2⟩ := run_cons h
    exact run_list_none ops s1 s' h2 (step_list_none h1 hc)

/-- **history invariant of one struct-list retriever, repaired library**: marked exactly when it was marked before
or the history contains a user assignment of the list -/
theorem run_list_fixed {cfg : Cfg} {l : Field} (hf : cfg.fixed = true) : ∀ (h : List Op) (s s' : Scn) (c : Cell (List Rec)),
    run cfg s h = .ok s' → s.lists l = some c → CellOk c →
    ∃ c', s'.lists l = some c' ∧ CellOk c' ∧ (c'.dirty = true ↔ (c.dirty = true ∨ ∃ recs, Op.userList l recs ∈ h))
  | [], s, s', c, h, hc, hk => by
    simp [run] at h; subst h
    exact ⟨c, hc, hk, by simp⟩
  | op :: ops, s, s', c, h, hc, hk => by
    obtain ⟨s1, h1, h2⟩ := run_cons h
    obtain ⟨c1, hc1, hcase⟩ := step_list h1 hc
    have key : ∀ (hk1 : CellOk c1) (hd : c1.dirty = c.dirty) (hne : ∀ recs, op ≠ .userList l recs),
        ∃ c', s'.lists l = some c' ∧ CellOk c' ∧
          (c'.dirty = true ↔ (c.dirty = true ∨ ∃ recs, Op.userList l recs ∈ op :: ops)) := by
      intro hk1 hd hne
      obtain ⟨c', h', hk', hiff⟩ := run_list_fixed hf ops s1 s' _ h2 hc1 hk1
      refine ⟨c', h', hk', ?_⟩
      rw [hiff, hd]
      constructor
      · rintro (h | ⟨v, hv⟩)
        · exact Or.inl h
        · exact Or.inr ⟨v, by simp [hv]⟩
      · rintro (h | ⟨v, hv⟩)
        · exact Or.inl h
        · simp at hv
          rcases hv with hv | hv
          · exact absurd hv.symm (hne v)
          · exact Or.inr ⟨v, hv⟩
    cases hcase with
    | user recs hop hc1' =>
      subst hop; subst hc1'
      obtain ⟨c', h', hk', hiff⟩ := run_list_fixed hf ops s1 s' _ h2 hc1 (userSet_ok c recs hk)
      refine ⟨c', h', hk', ?_⟩
      rw [hiff, userSet_dirty c recs hk]
      constructor
      · intro _; exact Or.inr ⟨recs, by simp⟩
      · intro _; exact Or.inl rfl
    | urec i f v recs r x hop hd hr hx hc1' =>
      subst hc1'
      exact key (Or.inl rfl) rfl (fun _ hv => by rw [hop] at hv; cases hv)
    | save hop hlib =>
      refine key ?_ (hlib.fixedDirty hf) (fun _ hv => by rw [hop] at hv; cases hv)
      rcases hk with hs | hd
      · cases hdat : c.data with
        | none => rw [hdat] at hs; cases hs
        | some recs =>
          obtain ⟨recs', h', _⟩ := hlib.keep recs hdat
          exact Or.inl (by rw [h']; rfl)
      · exact Or.inr (hlib.mono hd)
    | same hne hc1' =>
      subst hc1'
      exact key hk rfl hne

/-- both variants: a struct-list retriever is never un-marked -/
theorem run_list_dirty_mono {cfg : Cfg} {l : Field} : ∀ (h : List Op) (s s' : Scn) (c : Cell (List Rec)),
    run cfg s h = .ok s' → s.lists l = some c → c.dirty = true → ∃ c', s'.lists l = some c' ∧ c'.dirty = true
  | [], s, s', c, h, hc, hd => by simp [run] at h; subst h; exact ⟨c, hc, hd⟩
  | op :: ops, s, s', c, h, hc, hd => by
    obtain ⟨s1, h1, h2⟩ := run_cons h
    obtain ⟨c1, hc1, hcase⟩ := step_list h1 hc
    refine run_list_dirty_mono ops s1 s' c1 h2 hc1 ?_
    cases hcase with
    | user recs hop hc1' => subst hc1'; simp [Cell.userSet, hd]
    | urec i f v recs r x hop hd' hr hx hc1' => subst hc1'; exact hd
    | save hop hlib => exact hlib.mono hd
    | same hne hc1' => subst hc1'; exact hd

/-! ### fields of records -/

theorem commitObjs_ok_length (allow : Bool) : ∀ (recs : List Rec) (objs : List MObj) (recs' : List Rec),
    commitObjs allow recs objs = .ok recs' → objs.length ≤ recs.length
  | recs, [], _, _ => by simp
  | [], _ :: _, _, h => by simp [commitObjs] at h
  | r :: recs, o :: os, recs', h => by
    unfold commitObjs at h
    split at h
    · cases h
    · split at h
      · cases h
      · next rs hrs => simp; exact commitObjs_ok_length allow recs os rs hrs

/-- setting off: a marked retriever of a record survives internal writes -/
theorem RecLib.dirty_cell {r r' : Rec} (h : RecLib false r r') {f : Field} {c : Cell Val} (hc : r f = some c)
    (hd : c.dirty = true) : r' f = some c := by
  rcases h f with ⟨x, _⟩ | ⟨x, c', hx, hc', hl⟩
  · rw [hc] at x; cases x
  · rw [hc] at hx; cases hx
    rw [hc', hl.eq_of_dirty hd]

/-- the user op assigns list `l` itself or the very cell `(l, i, f)` -/
def Op.reassigns (l : Field) (i : Nat) (f : Field) : Op → Prop
  | .userList k _ => k = l
  | .userRec k j g _ => k = l ∧ j = i ∧ g = f
  | _ => False

/-- the user op touches list `l` at all (the list or any field of any of its records) -/
def Op.touchesList (l : Field) : Op → Prop
  | .userList k _ => k = l
  | .userRec k _ _ _ => k = l
  | _ => False

/-- state invariant for `user_rec_value_saved` -/
def RecCellIs (s : Scn) (l : Field) (i : Nat) (f : Field) (v : Option Val) : Prop :=
  ∃ c recs r, s.lists l = some c ∧ c.data = some recs ∧ recs[i]? = some r ∧ r f = some { data := v, dirty := true } ∧
    i < (s.mobjs l).length

theorem step_mobjs {cfg : Cfg} {s s1 : Scn} {op : Op} {l : Field} (h : step cfg s op = .ok s1) :
    (∃ objs, op = .mgrObjs l objs ∧ s1.mobjs l = objs) ∨ ((∀ objs, op ≠ .mgrObjs l objs) ∧ s1.mobjs l = s.mobjs l) := by
  cases op with
  | userSet g v =>
    refine Or.inr ⟨fun _ hv => (by cases hv), ?_⟩
    simp only [step] at h
    split at h <;> (cases h; rfl)
  | userRec k i g v =>
    refine Or.inr ⟨fun _ hv => (by cases hv), ?_⟩
    simp only [step] at h
    split at h
    · cases h
    · split at h
      · cases h
      · split at h
        · cases h
        · split at h <;> (cases h; rfl)
  | userList k recs =>
    refine Or.inr ⟨fun _ hv => (by cases hv), ?_⟩
    simp only [step] at h
    split at h <;> (cases h; rfl)
  | mgrSet slot v => simp only [step] at h; cases h; exact Or.inr ⟨fun _ hv => (by cases hv), rfl⟩
  | mgrObjs k objs =>
    simp only [step] at h; cases h
    by_cases hk : k = l
    · subst hk; exact Or.inl ⟨objs, rfl, by simp⟩
    · exact Or.inr ⟨fun _ hv => hk (by cases hv; rfl), (by simp [Ne.symm hk])⟩
  | save =>
    refine Or.inr ⟨fun _ hv => (by cases hv), ?_⟩
    rw [(save_rel (by simpa [step] using h)).mobjs]

theorem step_recCell {cfg : Cfg} (ha : cfg.allow = false) {s s1 : Scn} {op : Op} {l : Field} {i : Nat} {f : Field}
    {v : Option Val} (h : step cfg s op = .ok s1) (hi : RecCellIs s l i f v) (hno : ¬ op.reassigns l i f)
    (hobjs : ∀ objs, op = .mgrObjs l objs → i < objs.length) : RecCellIs s1 l i f v := by
  obtain ⟨c, recs, r, hc, hd, hr, hf, hm⟩ := hi
  have hm1 : i < (s1.mobjs l).length := by
    rcases step_mobjs (l := l) h with ⟨objs, hop, hs⟩ | ⟨_, hs⟩
    · rw [hs]; exact hobjs objs hop
    · rw [hs]; exact hm
  obtain ⟨c1, hc1, hcase⟩ := step_list h hc
  cases hcase with
  | user recs' hop _ => subst hop; exact absurd rfl hno
  | urec j g w recs' r' x hop hd' hr' hx hc1' =>
    subst hc1'
    rw [hd] at hd'; cases hd'
    by_cases hj : j = i
    · subst hj
      rw [hr] at hr'; cases hr'
      have hg : g ≠ f := fun e => hno (by subst hop; exact ⟨rfl, rfl, e⟩)
      refine ⟨_, _, recSet r g (x.userSet w), hc1, rfl, ?_, ?_, hm1⟩
      · have hlt : j < recs.length := by
          rcases Nat.lt_or_ge j recs.length with h | h
          · exact h
          · rw [List.getElem?_eq_none h] at hr; cases hr
        simp [hlt]
      · simp [Dirty.recSet, Ne.symm hg, hf]
    · refine ⟨_, _, r, hc1, rfl, ?_, hf, hm1⟩
      rw [List.getElem?_set_ne hj]; exact hr
  | save hop hlib =>
    obtain ⟨recs', hd1, hk⟩ := hlib.keep recs hd
    obtain ⟨r', hr', hl⟩ := hk i r hm hr
    rw [ha] at hl
    exact ⟨c1, recs', r', hc1, hd1, hr', hl.dirty_cell hf rfl, hm1⟩
  | same _ hc1' => subst hc1'; exact ⟨_, recs, r, hc1, hd, hr, hf, hm1⟩

theorem run_recCell {cfg : Cfg} (ha : cfg.allow = false) {l : Field} {i : Nat} {f : Field} {v : Option Val} :
    ∀ (h : List Op) (s s' : Scn), run cfg s h = .ok s' → RecCellIs s l i f v → (∀ op ∈ h, ¬ op.reassigns l i f) →
      (∀ op ∈ h, ∀ objs, op = .mgrObjs l objs → i < objs.length) → RecCellIs s' l i f v
  | [], s, s', h, hi, _, _ => by simp [run] at h; subst h; exact hi
  | op :: ops, s, s', h, hi, hno, hobjs => by
    obtain ⟨s1, h1, h2⟩ := run_cons h
    exact run_recCell ha ops s1 s' h2 (step_recCell ha h1 hi (hno op (by simp)) (hobjs op (by simp)))
      (fun o ho => hno o (by simp [ho])) (fun o ho => hobjs o (by simp [ho]))

/-- every record of list `l` is as loaded (data present, nothing marked) -/
def RecsLoaded (s : Scn) (l : Field) : Prop :=
  ∃ c recs, s.lists l = some c ∧ c.data = some recs ∧ ∀ r ∈ recs, RecLoaded r

theorem RecLib.loaded {allow : Bool} {r r' : Rec} (h : RecLib allow r r') (hl : RecLoaded r) : RecLoaded r' := by
  intro f c' hc'
  rcases h f with ⟨_, y⟩ | ⟨c, c'', hx, hy, hr⟩
  · rw [y] at hc'; cases hc'
  · rw [hy] at hc'; cases hc'
    have := hl f c hx
    refine ⟨?_, by rw [hr.1]; exact this.2⟩
    rcases hr.2 with rfl | ⟨hs, _⟩
    · exact this.1
    · exact hs

theorem step_recsLoaded {cfg : Cfg} (hdf : DfltLoaded cfg) {s s1 : Scn} {op : Op} {l : Field}
    (h : step cfg s op = .ok s1) (hi : RecsLoaded s l) (hno : ¬ op.touchesList l) : RecsLoaded s1 l := by
  obtain ⟨c, recs, hc, hd, hall⟩ := hi
  obtain ⟨c1, hc1, hcase⟩ := step_list h hc
  cases hcase with
  | user recs' hop _ => subst hop; exact absurd rfl hno
  | urec j g w recs' r' x hop _ _ _ _ => subst hop; exact absurd rfl hno
  | save hop hlib =>
    obtain ⟨recs', hd1, _⟩ := hlib.keep recs hd
    refine ⟨c1, recs', hc1, hd1, fun r' hr' => ?_⟩
    obtain ⟨r, hr, hl⟩ := hlib.mem recs recs' hd hd1 r' hr'
    rcases hr with hr | hr
    · exact hl.loaded (hall r hr)
    · subst hr; exact hl.loaded (hdf l)
  | same _ hc1' => subst hc1'; exact ⟨_, recs, hc1, hd, hall⟩

theorem run_recsLoaded {cfg : Cfg} (hdf : DfltLoaded cfg) {l : Field} : ∀ (h : List Op) (s s' : Scn),
    run cfg s h = .ok s' → RecsLoaded s l → (∀ op ∈ h, ¬ op.touchesList l) → RecsLoaded s' l
  | [], s, s', h, hi, _ => by simp [run] at h; subst h; exact hi
  | op :: ops, s, s', h, hi, hno => by
    obtain ⟨s1, h1, h2⟩ := run_cons h
    exact run_recsLoaded hdf ops s1 s' h2 (step_recsLoaded hdf h1 hi (hno op (by simp))) (fun o ho => hno o (by simp [ho]))

theorem RecLoaded.clean {r : Rec} (h : RecLoaded r) : RecClean r := fun f c hc => (h f c hc).2

/-- an object-list link writes the objects' values into records the user never touched -/
theorem commit_rec_lands {cfg : Cfg} (hdf : DfltLoaded cfg) {s s' : Scn} {pre post : List Push} {l : Field}
    {refresh : List (Field × Deriv)}
    (h : commit cfg (pre ++ Push.objs l refresh :: post) s = .ok s') (hpost : ∀ p ∈ post, ¬ p.isObjs l)
    (hi : RecsLoaded s l) {i : Nat} {o opre opost : MObj} {f : Field} {v : Val}
    (ho : (s.mobjs l)[i]? = some o) (hsplit : o = opre ++ (f, v) :: opost) (hlast : ∀ x ∈ opost, x.1 ≠ f) :
    savedRec s' l i f = some v := by
  obtain ⟨c, recs, hc, hd, hall⟩ := hi
  obtain ⟨s1, h1, h2⟩ := commit_append _ _ _ _ h
  obtain ⟨s2, h3, h4⟩ := commit_cons h2
  have r1 := commit_rel _ _ _ h1
  rcases r1.lists l with ⟨x, _⟩ | ⟨x, c1, hx, hc1, hlib⟩
  · rw [hc] at x; cases x
  · rw [hc] at hx; cases hx
    obtain ⟨recs1, hd1, _⟩ := hlib.keep recs hd
    have hall1 : ∀ r ∈ recs1, RecLoaded r := by
      intro r' hr'
      obtain ⟨r, hr, hl⟩ := hlib.mem recs recs1 hd hd1 r' hr'
      rcases hr with hr | hr
      · exact hl.loaded (hall r hr)
      · subst hr; exact hl.loaded (hdf l)
    obtain ⟨c1', c2, recs2, recs', p, hc1', hu, hd2, hco, _, rfl⟩ := pushObjs_spec h3
    rw [hc1] at hc1'; cases hc1'
    have hall2 : ∀ r ∈ recs2, RecLoaded r := by
      intro r hr
      rcases updateLength_mem hu hd1 hd2 r hr with h | h
      · exact hall1 r h
      · subst h; exact hdf l
    rw [← r1.mobjs] at ho
    have hi2 : i < recs2.length := by
      have := commitObjs_ok_length _ _ _ _ hco
      have : i < (s1.mobjs l).length := by
        rcases Nat.lt_or_ge i (s1.mobjs l).length with h | h
        · exact h
        · rw [List.getElem?_eq_none h] at ho; cases ho
      omega
    obtain ⟨r', hr', hcm⟩ := commitObjs_get _ _ _ _ hco i recs2[i] o (List.getElem?_eq_getElem hi2) ho
    have hval := commitObj_clean _ o _ r' hcm (hall2 _ (List.getElem_mem hi2)).clean opre f v opost hsplit hlast
    simp [savedRec, savedRecs, commit_frame_list _ _ _ h4 hpost, listSet, hr', hval]

end Aoe.Dirty
