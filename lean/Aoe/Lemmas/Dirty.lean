import Aoe.Model.Dirty
/-!
Helper definitions and lemmas for C18 (model `Aoe.Model.Dirty`): the predicates the property theorems are stated
with (`Loaded`, `CellOk`, `LibRel`) and the invariants of `commit` / `step` / `run`.
-/
namespace Aoe.Dirty

/-! ### cells -/

/-- a retriever right after loading a file: it has data and is not marked -/
def CellLoaded {α : Type} (c : Cell α) : Prop := c.data.isSome = true ∧ c.dirty = false

/-- invariant of every reachable retriever: data is `None` only after a user assignment -/
def CellOk {α : Type} (c : Cell α) : Prop := c.data.isSome = true ∨ c.dirty = true

/-- `c'` is what library-internal writes (`set_data(…, affect_dirty=False)`) can make of `c` -/
def LibRel {α : Type} (allow : Bool) (c c' : Cell α) : Prop :=
  c'.dirty = c.dirty ∧ (c' = c ∨ (c'.data.isSome = true ∧ (c.dirty = false ∨ allow = true)))

theorem CellLoaded.ok {α : Type} {c : Cell α} (h : CellLoaded c) : CellOk c := Or.inl h.1

theorem LibRel.refl {α : Type} (allow : Bool) (c : Cell α) : LibRel allow c c := ⟨rfl, Or.inl rfl⟩

theorem LibRel.trans {α : Type} {allow : Bool} {a b c : Cell α} (h1 : LibRel allow a b) (h2 : LibRel allow b c) :
    LibRel allow a c := by
  obtain ⟨d1, r1⟩ := h1
  obtain ⟨d2, r2⟩ := h2
  refine ⟨d2.trans d1, ?_⟩
  rcases r2 with rfl | ⟨s2, p2⟩
  · exact r1
  · right; exact ⟨s2, by rw [d1] at p2; exact p2⟩

theorem LibRel.internalSet {α : Type} (allow : Bool) (c : Cell α) (v : α) : LibRel allow c (c.internalSet allow v) := by
  unfold Cell.internalSet LibRel
  cases hd : c.dirty <;> cases allow <;> simp [hd]

theorem LibRel.ok {α : Type} {allow : Bool} {c c' : Cell α} (h : LibRel allow c c') (hc : CellOk c) : CellOk c' := by
  obtain ⟨d, r⟩ := h
  rcases r with rfl | ⟨s, _⟩
  · exact hc
  · exact Or.inl s

/-- a dirty retriever is untouchable by the library while the setting is off -/
theorem LibRel.eq_of_dirty {α : Type} {c c' : Cell α} (h : LibRel false c c') (hd : c.dirty = true) : c' = c := by
  obtain ⟨_, r⟩ := h
  rcases r with rfl | ⟨_, p⟩
  · rfl
  · rcases p with p | p
    · rw [hd] at p; cases p
    · cases p

theorem userSet_dirty {α : Type} (c : Cell α) (v : Option α) (hc : CellOk c) : (c.userSet v).dirty = true := by
  unfold Cell.userSet
  rcases hc with h | h <;> simp [h]

theorem userSet_ok {α : Type} (c : Cell α) (v : Option α) (hc : CellOk c) : CellOk (c.userSet v) :=
  Or.inr (userSet_dirty c v hc)

theorem internalSet_clean {α : Type} (allow : Bool) (c : Cell α) (v : α) (hd : c.dirty = false) :
    c.internalSet allow v = { data := some v, dirty := false } := by
  simp [Cell.internalSet, hd]

theorem internalSet_allow {α : Type} (c : Cell α) (v : α) :
    c.internalSet true v = { data := some v, dirty := c.dirty } := by
  simp [Cell.internalSet]

/-! ### records under library writes -/

/-- every retriever of `r'` is what internal writes can make of the same retriever of `r`; none appears or vanishes -/
def RecLib (allow : Bool) (r r' : Rec) : Prop :=
  ∀ f, (r f = none ∧ r' f = none) ∨ ∃ c c', r f = some c ∧ r' f = some c' ∧ LibRel allow c c'

theorem RecLib.refl (allow : Bool) (r : Rec) : RecLib allow r r := by
  intro f
  cases h : r f with
  | none => exact Or.inl ⟨rfl, rfl⟩
  | some c => exact Or.inr ⟨c, c, rfl, rfl, LibRel.refl _ _⟩

theorem RecLib.trans {allow : Bool} {a b c : Rec} (h1 : RecLib allow a b) (h2 : RecLib allow b c) : RecLib allow a c := by
  intro f
  rcases h1 f with ⟨x, y⟩ | ⟨x, y, hx, hy, hr⟩
  · rcases h2 f with ⟨_, z⟩ | ⟨u, _, hu, _, _⟩
    · exact Or.inl ⟨x, z⟩
    · rw [y] at hu; cases hu
  · rcases h2 f with ⟨y', _⟩ | ⟨u, w, hu, hw, hr2⟩
    · rw [hy] at y'; cases y'
    · rw [hy] at hu; cases hu
      exact Or.inr ⟨x, w, hx, hw, hr.trans hr2⟩

theorem RecLib.recSet {allow : Bool} {r : Rec} {f : Field} {c c' : Cell Val} (h : r f = some c) (hr : LibRel allow c c') :
    RecLib allow r (recSet r f c') := by
  intro k
  by_cases hk : k = f
  · subst hk; exact Or.inr ⟨c, c', h, by simp [Dirty.recSet], hr⟩
  · cases hx : r k with
    | none => exact Or.inl ⟨rfl, by simp [Dirty.recSet, hk, hx]⟩
    | some x => exact Or.inr ⟨x, x, rfl, by simp [Dirty.recSet, hk, hx], LibRel.refl _ _⟩

theorem refreshAll_lib (allow : Bool) (n : Nat) : ∀ (l : List (Field × Deriv)) (p p' : Rec),
    refreshAll allow p n l = .ok p' → RecLib allow p p'
  | [], p, p', h => by simp [refreshAll] at h; subst h; exact RecLib.refl _ _
  | (t, d) :: rest, p, p', h => by
    unfold refreshAll at h
    split at h
    · cases h
    · next c hc =>
      exact (RecLib.recSet hc (LibRel.internalSet allow c _)).trans (refreshAll_lib allow n rest _ _ h)

theorem commitObj_lib (allow : Bool) : ∀ (o : MObj) (r r' : Rec), commitObj allow r o = .ok r' → RecLib allow r r'
  | [], r, r', h => by simp [commitObj] at h; subst h; exact RecLib.refl _ _
  | (f, v) :: rest, r, r', h => by
    unfold commitObj at h
    split at h
    · cases h
    · next c hc =>
      exact (RecLib.recSet hc (LibRel.internalSet allow c _)).trans (commitObj_lib allow rest _ _ h)

/-! ### a freshly loaded scenario -/

/-- every retriever of the record has data and is unmarked -/
def RecLoaded (r : Rec) : Prop := ∀ f c, r f = some c → CellLoaded c

/-- the state right after `AoE2DEScenario.from_file` / `from_default`: parsing assigns every retriever once (its
data was `None` before, so nothing is marked) -/
structure Loaded (s : Scn) : Prop where
  plain : RecLoaded s.plain
  lists : ∀ l c, s.lists l = some c → CellLoaded c ∧ ∀ recs, c.data = some recs → ∀ r ∈ recs, RecLoaded r

/-- the struct models give every retriever a default (true for the struct-level retrievers of every shipped
structure file; re-checked on the live struct models by the harness) -/
def DfltLoaded (cfg : Cfg) : Prop := ∀ l, RecLoaded (cfg.dflt l)

end Aoe.Dirty
