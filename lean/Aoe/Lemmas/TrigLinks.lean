import Aoe.Lemmas.TrigCore
/-!
Helper lemmas for C06/C07, part 3: the link relation between two states (`EffRel`, `LinkRel`, `Step`), its
transitivity, and the link / invariant theorems of the common `rebuild` step.
-/
namespace Aoe.Trig
open List

/-! ### the link relation -/

/-- what must hold between an effect before (`e`, in state `tm`) and after (`e'`, in state `tm'`) an operation:
same kind; other effects untouched; an unset link stays unset; a link to a trigger that still exists designates the
same trigger; (`clear`) a link to a trigger that no longer exists is reset to -1. -/
def EffRel (clear : Bool) (tm tm' : TM) (e e' : Eff) : Prop :=
  e'.kind = e.kind ∧ (e.isAct = false → e' = e) ∧
  (e.isAct = true → (e.target = none → e'.target = none) ∧
    ∀ u, ref tm e = some u → (u ∈ uids tm' → ref tm' e' = some u) ∧ (clear = true → u ∉ uids tm' → e'.target = none))

/-- every trigger that exists in both states (same identity) has the same number of effects, related pointwise -/
def LinkRel (clear : Bool) (tm tm' : TM) : Prop :=
  ∀ t ∈ tm.trigs, ∀ t' ∈ tm'.trigs, t'.uid = t.uid →
    t'.effs.length = t.effs.length ∧ ∀ (j : Nat) (e e' : Eff), t.effs[j]? = some e → t'.effs[j]? = some e' → EffRel clear tm tm' e e'

/-- one step of a history: links are kept, identities are never reused -/
structure Step (clear : Bool) (tm tm' : TM) : Prop where
  link : LinkRel clear tm tm'
  mono : tm.next ≤ tm'.next
  old : ∀ u ∈ uids tm', u ∈ uids tm ∨ tm.next ≤ u

theorem Eff.isAct_congr {e e' : Eff} (h : e'.kind = e.kind) : e'.isAct = e.isAct := by
  unfold Eff.isAct; rw [h]

theorem mem_trigs_of_uid {tm : TM} {u : Nat} (h : u ∈ uids tm) : ∃ t ∈ tm.trigs, t.uid = u := by
  simpa [uids] using h

theorem eq_of_uid_eq {tm : TM} (hn : (uids tm).Nodup) {t p : Trig} (ht : t ∈ tm.trigs) (hp : p ∈ tm.trigs)
    (h : t.uid = p.uid) : t = p := by
  obtain ⟨i, hi, rfl⟩ := getElem_of_mem ht
  obtain ⟨j, hj, rfl⟩ := getElem_of_mem hp
  have : i = j := by
    apply uidAt_inj hn (u := tm.trigs[i].uid)
    · simp [uidAt, getElem?_eq_getElem hi]
    · simp [uidAt, getElem?_eq_getElem hj, h]
  subst this; rfl

theorem EffRel.trans {c : Bool} {tm tm' tm'' : TM} (hfresh : ∀ u ∈ uids tm, u < tm.next)
    (hold : ∀ u ∈ uids tm'', u ∈ uids tm' ∨ tm'.next ≤ u) (hmono : tm.next ≤ tm'.next)
    {e e' e'' : Eff} (h1 : EffRel c tm tm' e e') (h2 : EffRel c tm' tm'' e' e'') : EffRel c tm tm'' e e'' := by
  obtain ⟨k1, f1, a1⟩ := h1
  obtain ⟨k2, f2, a2⟩ := h2
  have hact : e'.isAct = e.isAct := Eff.isAct_congr k1
  refine ⟨k2.trans k1, fun hf => ?_, fun ha => ?_⟩
  · rw [f2 (hact ▸ hf), f1 hf]
  · obtain ⟨n1, r1⟩ := a1 ha
    obtain ⟨n2, r2⟩ := a2 (hact ▸ ha)
    refine ⟨fun hn => n2 (n1 hn), fun u hu => ⟨fun hm => ?_, fun hc hm => ?_⟩⟩
    · have hlt : u < tm.next := by
        unfold ref at hu
        cases ht : e.target with
        | none => simp [ht] at hu
        | some k => simp [ht] at hu; exact hfresh u (uidAt_mem hu)
      have hm' : u ∈ uids tm' := by
        rcases hold u hm with h | h
        · exact h
        · omega
      exact (r2 u ((r1 u hu).1 hm')).1 hm
    · by_cases hm' : u ∈ uids tm'
      · exact (r2 u ((r1 u hu).1 hm')).2 hc hm
      · exact n2 ((r1 u hu).2 hc hm')

theorem Step.trans {c : Bool} {tm tm' tm'' : TM} (hi : Inv tm)
    (s1 : Step c tm tm') (s2 : Step c tm' tm'') : Step c tm tm'' := by
  refine ⟨?_, Nat.le_trans s1.mono s2.mono, ?_⟩
  · intro t ht t'' ht'' hu
    have hmem'' : t''.uid ∈ uids tm'' := by simp only [uids, mem_map]; exact ⟨t'', ht'', rfl⟩
    have hlt : t.uid < tm.next := hi.fresh _ (by simp only [uids, mem_map]; exact ⟨t, ht, rfl⟩)
    have hmem' : t''.uid ∈ uids tm' := by
      rcases s2.old _ hmem'' with h | h
      · exact h
      · have := s1.mono; omega
    obtain ⟨t', ht', hu'⟩ := mem_trigs_of_uid hmem'
    obtain ⟨l1, r1⟩ := s1.link t ht t' ht' (hu'.trans hu)
    obtain ⟨l2, r2⟩ := s2.link t' ht' t'' ht'' hu'.symm
    refine ⟨l2.trans l1, fun j e e'' he he'' => ?_⟩
    have hj : j < t'.effs.length := by
      have := (List.getElem?_eq_some_iff.1 he).1; omega
    exact EffRel.trans hi.fresh s2.old s1.mono (r1 j e _ he (getElem?_eq_getElem hj)) (r2 j _ e'' (getElem?_eq_getElem hj) he'')
  · intro u hu
    rcases s2.old u hu with h | h
    · exact s1.old u h
    · exact Or.inr (Nat.le_trans s1.mono h)

/-- an effect is related to itself when the old triggers keep their positions -/
theorem EffRel.refl_of_prefix {c : Bool} {tm tm' : TM} (hpre : ∀ i u, uidAt tm i = some u → uidAt tm' i = some u)
    (e : Eff) : EffRel c tm tm' e e := by
  refine ⟨rfl, fun _ => rfl, fun _ => ⟨fun h => h, fun u hu => ?_⟩⟩
  have : ref tm' e = some u := by
    unfold ref at hu ⊢
    cases ht : e.target with
    | none => simp [ht] at hu
    | some k => simp [ht] at hu ⊢; exact hpre k u hu
  exact ⟨fun _ => this, fun _ hn => absurd (by
    unfold ref at this
    cases ht : e.target with
    | none => simp [ht] at this
    | some k => simp [ht] at this; exact uidAt_mem this) hn⟩

/-- a state whose trigger list extends the old one (same old triggers, new identities are fresh) is a `Step` -/
theorem Step.of_append {c : Bool} {tm tm' : TM} (hi : Inv tm) (extra : List Trig)
    (htr : tm'.trigs = tm.trigs ++ extra) (hnew : ∀ x ∈ extra, tm.next ≤ x.uid) (hmono : tm.next ≤ tm'.next) :
    Step c tm tm' := by
  have hpre : ∀ i u, uidAt tm i = some u → uidAt tm' i = some u := by
    intro i u h
    have hl := uidAt_lt h
    unfold uidAt at h ⊢
    rw [htr, getElem?_append_left hl]; exact h
  refine ⟨?_, hmono, ?_⟩
  · intro t ht t' ht' hu
    rw [htr, mem_append] at ht'
    rcases ht' with ht' | ht'
    · have := eq_of_uid_eq hi.uniq ht' ht hu
      subst this
      exact ⟨rfl, fun j e e' he he' => by rw [he] at he'; cases he'; exact EffRel.refl_of_prefix hpre e⟩
    · have h1 := hnew t' ht'
      have h2 := hi.fresh t.uid (by simp only [uids, mem_map]; exact ⟨t, ht, rfl⟩)
      omega
  · intro u hu
    simp only [uids, htr, map_append, mem_append, mem_map] at hu
    rcases hu with ⟨x, hx, rfl⟩ | ⟨x, hx, rfl⟩
    · exact Or.inl (by simp only [uids, mem_map]; exact ⟨x, hx, rfl⟩)
    · exact Or.inr (hnew x hx)

/-- a state with the same trigger list is a `Step` -/
theorem Step.of_same {c : Bool} {tm tm' : TM} (hi : Inv tm) (htr : tm'.trigs = tm.trigs) (hmono : tm.next ≤ tm'.next) :
    Step c tm tm' :=
  Step.of_append hi [] (by simp [htr]) (by simp) hmono

/-! ### the `rebuild` step -/

/-- `picked` is a duplicate-free selection of triggers of `tm` -/
structure Picked (tm : TM) (picked : List Trig) : Prop where
  sub : ∀ p ∈ picked, tm.trigs[p.tid]? = some p
  nodup : (picked.map (·.tid)).Nodup

/-- `g` retargets activation effects: a link to the selected trigger with old id `k` becomes the trigger's new
position; everything else is left alone; (`clear`) links to triggers that are dropped are reset -/
structure Retarget (n : Nat) (picked : List Trig) (g : Eff → Eff) (clear : Bool) : Prop where
  kind : ∀ e, (g e).kind = e.kind
  frame : ∀ e, e.isAct = false → g e = e
  unset : ∀ e, e.target = none → (g e).target = none
  hit : ∀ e k, e.isAct = true → e.target = some k → k ∈ picked.map (·.tid) →
    (g e).target = some ((picked.map (·.tid)).idxOf k)
  miss : clear = true → ∀ e k, e.isAct = true → e.target = some k → k ∉ picked.map (·.tid) → k < n → (g e).target = none

theorem Picked.mem {tm : TM} {picked : List Trig} (h : Picked tm picked) {p : Trig} (hp : p ∈ picked) : p ∈ tm.trigs :=
  mem_of_getElem? (h.sub p hp)

theorem Picked.uids_nodup {tm : TM} {picked : List Trig} (hn : (uids tm).Nodup) (h : Picked tm picked) :
    (picked.map (·.uid)).Nodup := by
  have hp := h.nodup
  rw [nodup_iff_pairwise_ne, pairwise_map] at hp ⊢
  refine hp.imp_of_mem ?_
  intro a b ha hb hne he
  apply hne
  have := eq_of_uid_eq hn (h.mem ha) (h.mem hb) he
  rw [this]

/-- the new position of a selected trigger carries its identity -/
theorem rebuild_uidAt {tm : TM} {picked : List Trig} (h : Picked tm picked) (g : Eff → Eff) {k : Nat}
    (hk : k ∈ picked.map (·.tid)) :
    ((rebuild g picked)[(picked.map (·.tid)).idxOf k]?).map (·.uid) = uidAt tm k := by
  have hlt : (picked.map (·.tid)).idxOf k < (picked.map (·.tid)).length := idxOf_lt_length_of_mem hk
  have hlt' : (picked.map (·.tid)).idxOf k < picked.length := by simpa using hlt
  have hget : (picked.map (·.tid))[(picked.map (·.tid)).idxOf k] = k := getElem_idxOf hlt
  rw [getElem_map] at hget
  have hsub := h.sub _ (getElem_mem hlt')
  rw [hget] at hsub
  simp [rebuild_getElem?, getElem?_eq_getElem hlt', uidAt, hsub]

theorem rebuild_step {c : Bool} {tm tm' : TM} {picked : List Trig} {g : Eff → Eff} (hi : Inv tm)
    (hp : Picked tm picked) (hg : Retarget tm.trigs.length picked g c)
    (htr : tm'.trigs = rebuild g picked) (hnext : tm'.next = tm.next) : Step c tm tm' := by
  have huids : uids tm' = picked.map (·.uid) := by simp [uids, htr, rebuild_uids]
  refine ⟨?_, by omega, fun u hu => ?_⟩
  · intro t ht t' ht' hu
    rw [htr] at ht'
    obtain ⟨j, hj, rfl⟩ := getElem_of_mem ht'
    have hj' : j < picked.length := by simpa [rebuild_length] using hj
    have hgj := rebuild_getElem? g picked j
    rw [getElem?_eq_getElem hj, getElem?_eq_getElem hj'] at hgj
    simp only [Option.map_some, Option.some.injEq] at hgj
    rw [hgj] at hu ⊢
    simp only at hu
    have hpt : picked[j] = t := eq_of_uid_eq hi.uniq (hp.mem (getElem_mem hj')) ht hu
    subst hpt
    refine ⟨by simp, fun i e e' he he' => ?_⟩
    simp only [getElem?_map, he, Option.map_some, Option.some.injEq] at he'
    subst he'
    refine ⟨hg.kind e, hg.frame e, fun ha => ⟨hg.unset e, fun u hu => ?_⟩⟩
    unfold ref at hu
    cases ht : e.target with
    | none => simp [ht] at hu
    | some k =>
      simp only [ht, Option.bind_some] at hu
      have hkn : k < tm.trigs.length := uidAt_lt hu
      by_cases hk : k ∈ picked.map (·.tid)
      · have hnew := hg.hit e k ha ht hk
        have : ref tm' (g e) = some u := by
          unfold ref
          rw [hnew, Option.bind_some]
          unfold uidAt
          rw [htr, rebuild_uidAt hp g hk]; exact hu
        exact ⟨fun _ => this, fun _ hn => absurd (by rw [huids]; unfold ref at this; rw [hnew] at this; exact uidAt_mem (by simpa using this) |> fun h => by rwa [huids] at h) hn⟩
      · -- the target is not selected: its identity is not among the new identities
        have hnot : u ∉ uids tm' := by
          rw [huids]
          intro hm
          obtain ⟨p, hpm, hpu⟩ := mem_map.1 hm
          have h1 : uidAt tm p.tid = some u := by simp [uidAt, hp.sub p hpm, hpu]
          have := uidAt_inj hi.uniq hu h1
          exact hk (this ▸ mem_map.2 ⟨p, hpm, rfl⟩)
        exact ⟨fun hm => absurd hm hnot, fun hc _ => hg.miss hc e k ha ht hk hkn⟩
  · rw [huids] at hu
    obtain ⟨p, hpm, rfl⟩ := mem_map.1 hu
    exact Or.inl (by simp only [uids, mem_map]; exact ⟨p, hp.mem hpm, rfl⟩)

/-- the trigger-list part of the invariant after `rebuild` -/
theorem rebuild_ids (g : Eff → Eff) (picked : List Trig) (i : Nat) (t : Trig) (h : (rebuild g picked)[i]? = some t) : t.tid = i := by
  rw [rebuild_getElem?] at h
  cases hp : picked[i]? with
  | none => simp [hp] at h
  | some p => simp [hp] at h; rw [← h]

/-! ### the two dictionaries are retargetings -/

theorem remapEff_kind (d : List (Nat × Nat)) (e : Eff) : (remapEff d e).kind = e.kind := by
  unfold remapEff
  split
  · split
    · split <;> rfl
    · rfl
  · rfl

theorem retarget_changesFrom {n : Nat} {picked : List Trig} (hn : (picked.map (·.tid)).Nodup) :
    Retarget n picked (remapEff (changesFrom 0 picked)) false where
  kind := remapEff_kind _
  frame := fun e h => by simp [remapEff, h]
  unset := fun e h => by
    unfold remapEff; split
    · simp [h]
    · exact h
  hit := fun e k ha ht hk => by
    simp [remapEff, ha, ht, lookupLast_changesFrom hn, hk]
  miss := fun h => by cases h

theorem retarget_changesMoved {n : Nat} {picked : List Trig} (hn : (picked.map (·.tid)).Nodup) :
    Retarget n picked (remapEff (changesMoved 0 picked)) false where
  kind := remapEff_kind _
  frame := fun e h => by simp [remapEff, h]
  unset := fun e h => by
    unfold remapEff; split
    · simp [h]
    · exact h
  hit := fun e k ha ht hk => by
    simp only [remapEff, ha, ht, lookupLast_changesMoved hn, hk, true_and, Nat.zero_add, if_true]
    split
    · rename_i v hv
      split at hv
      · exact hv.symm
      · cases hv
    · rename_i hv
      split at hv
      · cases hv
      · rename_i hne
        simp only [ne_eq, Decidable.not_not] at hne
        simp [ht, hne]
  miss := fun h => by cases h

end Aoe.Trig
