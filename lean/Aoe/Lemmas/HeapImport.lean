import Aoe.Lemmas.HeapFrame
/-!
C09: what `import_triggers` returns – the contents of the copies (ids, remapped links) and which list holds them.
-/
namespace Aoe.Heap

/-! ## the renumbering dictionary -/

theorem dictGet_importDict_none (base : Nat) : ∀ (ts : List Trig) (k : Nat) (x : Int),
    dictGet (importDict base k ts) x = none ↔ ∀ t ∈ ts, t.tid ≠ x
  | [], _, _ => by simp [importDict, dictGet]
  | t :: ts, k, x => by
    simp only [importDict, dictGet]
    have ih := dictGet_importDict_none base ts (k + 1) x
    cases hd : dictGet (importDict base (k + 1) ts) x with
    | some v =>
      simp only [reduceCtorEq, false_iff]
      intro hall
      have := ih.mpr (fun t' ht' => hall t' (by simp [ht']))
      rw [hd] at this; simp at this
    | none =>
      have hts := ih.mp hd
      by_cases he : t.tid = x
      · simp [he]
      · simp only [he, if_false, true_iff]
        intro t' ht'
        rcases List.mem_cons.mp ht' with rfl | h
        · exact he
        · exact hts t' h

theorem dictGet_importDict_some (base : Nat) : ∀ (ts : List Trig) (k j : Nat) (t : Trig),
    (ts.map (·.tid)).Nodup → ts[j]? = some t → dictGet (importDict base k ts) t.tid = some (((base + (k + j) : Nat)) : Int)
  | [], _, j, t, _, h => by simp at h
  | t0 :: ts, k, j, t, nd, h => by
    simp only [List.map_cons, List.nodup_cons] at nd
    simp only [importDict, dictGet]
    cases j with
    | zero =>
      simp only [List.getElem?_cons_zero, Option.some.injEq] at h
      subst h
      have : dictGet (importDict base (k + 1) ts) t0.tid = none :=
        (dictGet_importDict_none base ts (k + 1) t0.tid).mpr (fun t' ht' e => nd.1 (List.mem_map.mpr ⟨t', ht', e⟩))
      simp [this]
    | succ j =>
      simp only [List.getElem?_cons_succ] at h
      have := dictGet_importDict_some base ts (k + 1) j t nd.2 h
      rw [this]
      simp only [Option.some.injEq]
      have : base + (k + 1 + j) = base + (k + (j + 1)) := by omega
      rw [this]

/-! ## contents of the copies -/

theorem copyTrigs_content (fT : Nat → Trig → Trig) (fC : Comp → Comp) :
    ∀ (refs : List Addr) (k : Nat) (h h' : Heap) (r : List Addr), copyTrigs fT fC k h refs = some (h', r) →
      HWF h → Sep h → (∀ a ∈ refs, a < h.trigs.length) →
      ∀ (j : Nat) (a : Addr), refs[j]? = some a → ∃ (t : Trig) (cs : List Comp) (base : Nat),
        h.trigs[a]? = some t ∧ lookupAll h.comps t.comps = some cs ∧ h.comps.length ≤ base ∧
        h'.trigs[h.trigs.length + j]? = some { fT (k + j) t with comps := List.range' base cs.length } ∧
        ∀ (p : Nat) (c : Comp), cs[p]? = some c → h'.comps[base + p]? = some (fC { c with uuid := t.compsU })
  | [], _, _, _, _, _, _, _, _, j, a, hj => by simp at hj
  | a0 :: as, k, h, h', r, hc, w, s, v, j, a, hj => by
    simp only [copyTrigs] at hc
    cases h1 : copyTrig (fT k) fC h a0 with
    | none => simp [h1] at hc
    | some p1 =>
      obtain ⟨h1', a'⟩ := p1
      cases h2 : copyTrigs fT fC (k + 1) h1' as with
      | none => simp [h1, h2] at hc
      | some p2 =>
        obtain ⟨h2', r2⟩ := p2
        simp only [h1, h2, Option.some.injEq, Prod.mk.injEq] at hc
        obtain ⟨rfl, rfl⟩ := hc
        obtain ⟨e1, w1, s1, ha', l1⟩ := copyTrig_inv h1 w s
        obtain ⟨e2, _, _, _, _⟩ := copyTrigs_inv fT fC as (k + 1) h1' _ r2 h2 w1 s1
        cases j with
        | zero =>
          simp only [List.getElem?_cons_zero, Option.some.injEq] at hj
          subst hj
          obtain ⟨t, cs, ht, hcs, _, rfl⟩ := copyTrig_spec h1
          refine ⟨t, cs, h.comps.length, ht, hcs, Nat.le_refl _, ?_, ?_⟩
          · apply e2.trigs
            simp [snoc]
          · intro p c hp
            apply e2.comps
            have hlt : p < cs.length := (List.getElem?_eq_some_iff.mp hp).1
            simp [snoc, List.getElem?_append_right, hp]
        | succ j =>
          simp only [List.getElem?_cons_succ] at hj
          have valid1 : ∀ b ∈ as, b < h1'.trigs.length := fun b hb => Nat.lt_of_lt_of_le (v b (by simp [hb])) e1.tlen
          obtain ⟨t, cs, base, ht, hcs, hb, htr, hcm⟩ := copyTrigs_content fT fC as (k + 1) h1' _ r2 h2 w1 s1 valid1 j a hj
          have halt : a < h.trigs.length := v a (by simp [List.mem_of_getElem? hj])
          have ht0 : h.trigs[a]? = some t := by rw [← e1.trigs_lt halt]; exact ht
          have hcs0 : lookupAll h.comps t.comps = some cs := by
            rw [← hcs]
            exact (lookupAll_congr h.comps h1'.comps t.comps (fun c hc => e1.comps_lt (w a t ht0 c hc))).symm
          refine ⟨t, cs, base, ht0, hcs0, Nat.le_trans e1.clen hb, ?_, hcm⟩
          have e3 : h1'.trigs.length + j = h.trigs.length + (j + 1) := by omega
          have e4 : k + 1 + j = k + (j + 1) := by omega
          rw [← e3, ← e4]; exact htr

/-- payload of the cells (everything but the stamps) -/
def payT (t : Trig) : Int × Int × List Addr := (t.tid, t.name, t.comps)
def payC (c : Comp) : Kind × Int × Int := (c.kind, c.target, c.val)

theorem stampTrigs_payT (cfg : Cfg) (u : Uid) (S : List Addr) (h : Heap) (a : Addr) :
    ((stampTrigs cfg u S h).trigs[a]?).map payT = (h.trigs[a]?).map payT := by
  rw [stampTrigs_trig]
  cases h.trigs[a]? with
  | none => rfl
  | some t => simp only [Option.map_some]; split <;> simp [payT, stampT]

theorem stampTrigs_payC (cfg : Cfg) (u : Uid) (S : List Addr) (h : Heap) (c : Addr) :
    ((stampTrigs cfg u S h).comps[c]?).map payC = (h.comps[c]?).map payC := by
  rw [stampTrigs_comp]
  cases h.comps[c]? with
  | none => rfl
  | some co => simp only [Option.map_some]; split <;> simp [payC, stampC]

/-- shape of the heap after an import: the first copies `h1`, possibly more fresh cells, then stamping -/
theorem importTriggers_shape {cfg : Cfg} {w w' : World} (i : Inv0 w) {u : Uid} {refs r : List Addr}
    (e : importTriggers cfg w u refs = .ok (w', r)) :
    ∃ (ts : List Trig) (h1 h2 : Heap) (S : List Addr), refs.Nodup ∧ lookupTrigs w.heap refs = some ts ∧
      copyTrigs (fun k t => { t with tid := (((w.trigsOf u).length + k : Nat) : Int) })
        (remapC (importDict (w.trigsOf u).length 0 ts)) 0 w.heap refs = some (h1, r) ∧
      Ext h1 h2 ∧ w'.heap = stampTrigs cfg u S h2 := by
  unfold importTriggers at e
  by_cases hnd : refs.Nodup
  · simp only [hnd, not_true_eq_false, if_false] at e
    cases hts : lookupTrigs w.heap refs with
    | none => simp [hts] at e
    | some ts =>
      simp only [hts] at e
      split at e
      · simp at e
      · rename_i h1 copies hcp
        obtain ⟨ex, w1, s1, hr, hl⟩ := copyTrigs_inv _ _ _ _ _ _ _ hcp i.hwf i.sep
        by_cases hfi : cfg.fixImport = true
        · simp only [hfi, if_true, Except.ok.injEq, Prod.mk.injEq] at e
          obtain ⟨rfl, rfl⟩ := e
          exact ⟨ts, h1, h1, copies, hnd, rfl, hcp, Ext.refl _, rfl⟩
        · simp only [hfi, Bool.false_eq_true, if_false] at e
          cases hct : ctor cfg u h1 (w.trigsOf u ++ copies) with
          | none => simp [hct] at e
          | some q =>
            obtain ⟨h2, held⟩ := q
            simp only [hct, Except.ok.injEq, Prod.mk.injEq] at e
            obtain ⟨rfl, rfl⟩ := e
            -- shape of the constructor's result
            cases hseq : w.trigsOf u ++ copies with
            | nil =>
              rw [hseq] at hct
              simp only [ctor, Option.some.injEq, Prod.mk.injEq] at hct
              exact ⟨ts, h1, h1, [], hnd, rfl, hcp, Ext.refl _, by rw [stampTrigs_nil]; exact hct.1.symm⟩
            | cons a0 rest =>
              rw [hseq] at hct
              simp only [ctor] at hct
              cases ht0 : h1.trigs[a0]? with
              | none => simp [ht0] at hct
              | some t0 =>
                simp only [ht0] at hct
                by_cases hf : isForeign u t0 = true
                · simp only [hf, if_true] at hct
                  cases hc2 : copyTrigs (fun _ t => t) id 0 h1 (a0 :: rest) with
                  | none => simp [hc2] at hct
                  | some p2 =>
                    obtain ⟨h3, seq1⟩ := p2
                    simp only [hc2, Option.some.injEq, Prod.mk.injEq] at hct
                    obtain ⟨ex2, _, _, _, _⟩ := copyTrigs_inv _ _ _ _ _ _ _ hc2 w1 s1
                    exact ⟨ts, h1, h3, seq1, hnd, rfl, hcp, ex2, hct.1.symm⟩
                · have hf' : isForeign u t0 = false := by simpa using hf
                  simp only [hf', Bool.false_eq_true, if_false, Option.some.injEq, Prod.mk.injEq] at hct
                  exact ⟨ts, h1, h1, a0 :: rest, hnd, rfl, hcp, Ext.refl _, hct.1.symm⟩
  · simp [hnd] at e

/-- `importTriggers` unfolded once -/
theorem importTriggers_cases {cfg : Cfg} {w w' : World} {u : Uid} {refs r : List Addr}
    (e : importTriggers cfg w u refs = .ok (w', r)) :
    ∃ (ts : List Trig) (h1 : Heap), refs.Nodup ∧ lookupTrigs w.heap refs = some ts ∧
      copyTrigs (fun k t => { t with tid := (((w.trigsOf u).length + k : Nat) : Int) })
        (remapC (importDict (w.trigsOf u).length 0 ts)) 0 w.heap refs = some (h1, r) ∧
      ((cfg.fixImport = true ∧
          w' = { w with heap := stampTrigs cfg u r h1, trigsOf := setFn w.trigsOf u (w.trigsOf u ++ r) }) ∨
       (cfg.fixImport = false ∧ ∃ (h2 : Heap) (held : List Addr), ctor cfg u h1 (w.trigsOf u ++ r) = some (h2, held) ∧
          w' = { w with heap := h2, trigsOf := setFn w.trigsOf u held })) := by
  unfold importTriggers at e
  by_cases hnd : refs.Nodup
  · simp only [hnd, not_true_eq_false, if_false] at e
    cases hts : lookupTrigs w.heap refs with
    | none => simp [hts] at e
    | some ts =>
      simp only [hts] at e
      split at e
      · simp at e
      · rename_i h1 copies hcp
        by_cases hfi : cfg.fixImport = true
        · simp only [hfi, if_true, Except.ok.injEq, Prod.mk.injEq] at e
          obtain ⟨rfl, rfl⟩ := e
          exact ⟨ts, h1, hnd, rfl, hcp, Or.inl ⟨hfi, rfl⟩⟩
        · simp only [hfi, Bool.false_eq_true, if_false] at e
          cases hct : ctor cfg u h1 (w.trigsOf u ++ copies) with
          | none => simp [hct] at e
          | some q =>
            obtain ⟨h2, held⟩ := q
            simp only [hct, Except.ok.injEq, Prod.mk.injEq] at e
            obtain ⟨rfl, rfl⟩ := e
            exact ⟨ts, h1, hnd, rfl, hcp, Or.inr ⟨by simpa using hfi, h2, held, hct, rfl⟩⟩
  · simp [hnd] at e

end Aoe.Heap
