import Aoe.Lemmas.Dirty
/-!
C18 helper lemmas, part 2: what `update_retriever_length`, `commit_object_list`, one push and a whole commit do.
-/
namespace Aoe.Dirty

/-! ### `update_retriever_length` -/

/-- the retriever still holds a list afterwards -/
theorem updateLength_data {cfg : Cfg} {l : Field} {c c1 : Cell (List Rec)} {n : Nat}
    (h : updateLength cfg l c n = .ok c1) : ∃ recs recs1, c.data = some recs ∧ c1.data = some recs1 := by
  unfold updateLength at h
  split at h
  · cases h
  · next recs hrecs =>
    refine ⟨recs, ?_⟩
    split at h
    · cases h; exact ⟨recs, hrecs, hrecs⟩
    · split at h
      · cases h
        unfold Cell.internalSet
        split
        · exact ⟨recs, hrecs, hrecs⟩
        · exact ⟨_, hrecs, rfl⟩
      · split at h
        · cases h
          unfold Cell.internalSet
          split
          · exact ⟨recs, hrecs, hrecs⟩
          · exact ⟨_, hrecs, rfl⟩
        · cases h; exact ⟨_, hrecs, rfl⟩

/-- repaired variant: only internal writes -/
theorem updateLength_fixed {cfg : Cfg} {l : Field} {c c1 : Cell (List Rec)} {n : Nat}
    (hf : cfg.fixed = true) (h : updateLength cfg l c n = .ok c1) : LibRel cfg.allow c c1 := by
  unfold updateLength at h
  split at h
  · cases h
  · split at h
    · cases h; exact LibRel.refl _ _
    · split at h
      · cases h; exact LibRel.internalSet _ _ _
      · cases h; exact LibRel.internalSet _ _ _

/-- both variants: the marker is never cleared -/
theorem updateLength_dirty_mono {cfg : Cfg} {l : Field} {c c1 : Cell (List Rec)} {n : Nat}
    (h : updateLength cfg l c n = .ok c1) (hd : c.dirty = true) : c1.dirty = true := by
  unfold updateLength at h
  split at h
  · cases h
  · split at h
    · cases h; exact hd
    · split at h
      · cases h; rw [(LibRel.internalSet _ _ _).1]; exact hd
      · split at h
        · cases h; rw [(LibRel.internalSet _ _ _).1]; exact hd
        · cases h; simp [Cell.userSet, hd]

/-- a clean list is resized to the manager's length (repaired variant) and stays clean -/
theorem updateLength_clean_fixed {cfg : Cfg} {l : Field} {c c1 : Cell (List Rec)} {n : Nat}
    (hf : cfg.fixed = true) (hd : c.dirty = false) (h : updateLength cfg l c n = .ok c1) :
    c1.dirty = false ∧ ∃ recs1, c1.data = some recs1 ∧ recs1.length = n := by
  unfold updateLength at h
  split at h
  · cases h
  · next recs hrecs =>
    split at h
    · next hn => cases h; exact ⟨hd, recs, hrecs, hn.symm⟩
    · split at h
      · next hlt =>
        cases h
        rw [internalSet_clean _ _ _ hd]
        exact ⟨rfl, _, rfl, by simp; omega⟩
      · next hne hnl =>
        cases h
        rw [internalSet_clean _ _ _ hd]
        exact ⟨rfl, _, rfl, by simp; omega⟩

/-- with the setting on, every resize lands (repaired variant) -/
theorem updateLength_allow_fixed {cfg : Cfg} {l : Field} {c c1 : Cell (List Rec)} {n : Nat}
    (hf : cfg.fixed = true) (ha : cfg.allow = true) (h : updateLength cfg l c n = .ok c1) :
    ∃ recs1, c1.data = some recs1 ∧ recs1.length = n := by
  unfold updateLength at h
  split at h
  · cases h
  · next recs hrecs =>
    split at h
    · next hn => cases h; exact ⟨recs, hrecs, hn.symm⟩
    · split at h
      · next hlt =>
        cases h
        rw [ha, internalSet_allow]
        exact ⟨_, rfl, by simp; omega⟩
      · next hne hnl =>
        cases h
        rw [ha, internalSet_allow]
        exact ⟨_, rfl, by simp; omega⟩

/-- both variants: a record the manager still has an object for keeps its place -/
theorem updateLength_keep {cfg : Cfg} {l : Field} {c c1 : Cell (List Rec)} {n : Nat} {recs recs1 : List Rec}
    (h : updateLength cfg l c n = .ok c1) (h0 : c.data = some recs) (h1 : c1.data = some recs1)
    {i : Nat} {r : Rec} (hi : i < n) (hr : recs[i]? = some r) : recs1[i]? = some r := by
  have hil : i < recs.length := by
    rcases Nat.lt_or_ge i recs.length with h | h
    · exact h
    · rw [List.getElem?_eq_none h] at hr; cases hr
  unfold updateLength at h
  rw [h0] at h
  simp only at h
  split at h
  · cases h; rw [h0] at h1; cases h1; exact hr
  · split at h
    · cases h
      unfold Cell.internalSet at h1
      split at h1
      · rw [h0] at h1; cases h1; exact hr
      · cases h1; rw [List.getElem?_take]; simp [hi, hr]
    · split at h
      · cases h
        unfold Cell.internalSet at h1
        split at h1
        · rw [h0] at h1; cases h1; exact hr
        · cases h1; rw [List.getElem?_append_left hil]; exact hr
      · cases h
        simp only [Cell.userSet] at h1
        cases h1; rw [List.getElem?_append_left hil]; exact hr

/-- both variants: every record afterwards is an old one or a default one -/
theorem updateLength_mem {cfg : Cfg} {l : Field} {c c1 : Cell (List Rec)} {n : Nat} {recs recs1 : List Rec}
    (h : updateLength cfg l c n = .ok c1) (h0 : c.data = some recs) (h1 : c1.data = some recs1) :
    ∀ r ∈ recs1, r ∈ recs ∨ r = cfg.dflt l := by
  intro r hr
  unfold updateLength at h
  rw [h0] at h
  simp only at h
  split at h
  · cases h; rw [h0] at h1; cases h1; exact Or.inl hr
  · split at h
    · cases h
      unfold Cell.internalSet at h1
      split at h1
      · rw [h0] at h1; cases h1; exact Or.inl hr
      · cases h1; exact Or.inl (List.mem_of_mem_take hr)
    · split at h
      · cases h
        unfold Cell.internalSet at h1
        split at h1
        · rw [h0] at h1; cases h1; exact Or.inl hr
        · cases h1
          rcases List.mem_append.mp hr with h | h
          · exact Or.inl h
          · exact Or.inr (List.eq_of_mem_replicate h)
      · cases h
        simp only [Cell.userSet] at h1
        cases h1
        rcases List.mem_append.mp hr with h | h
        · exact Or.inl h
        · exact Or.inr (List.eq_of_mem_replicate h)

/-! ### `commit_object_list` -/

theorem commitObjs_length (allow : Bool) : ∀ (recs : List Rec) (objs : List MObj) (recs' : List Rec),
    commitObjs allow recs objs = .ok recs' → recs'.length = recs.length
  | recs, [], recs', h => by simp [commitObjs] at h; subst h; rfl
  | [], _ :: _, _, h => by simp [commitObjs] at h
  | r :: recs, o :: os, recs', h => by
    unfold commitObjs at h
    split at h
    · cases h
    · split at h
      · cases h
      · next rs hrs => cases h; simp [commitObjs_length allow recs os rs hrs]

/-- record `i` receives object `i` -/
theorem commitObjs_get (allow : Bool) : ∀ (recs : List Rec) (objs : List MObj) (recs' : List Rec),
    commitObjs allow recs objs = .ok recs' → ∀ (i : Nat) (r : Rec) (o : MObj), recs[i]? = some r → objs[i]? = some o →
      ∃ r', recs'[i]? = some r' ∧ commitObj allow r o = .ok r'
  | recs, [], recs', h => by intro i r o _ ho; simp at ho
  | [], _ :: _, _, h => by simp [commitObjs] at h
  | r0 :: recs, o0 :: os, recs', h => by
    unfold commitObjs at h
    split at h
    · cases h
    · next r0' hr0 =>
      split at h
      · cases h
      · next rs hrs =>
        cases h
        intro i r o hr ho
        cases i with
        | zero => simp at hr ho; subst hr; subst ho; exact ⟨r0', by simp, hr0⟩
        | succ j =>
          simp at hr ho
          obtain ⟨r', h1, h2⟩ := commitObjs_get allow recs os rs hrs j r o hr ho
          exact ⟨r', by simp [h1], h2⟩

/-- records beyond the objects are left alone -/
theorem commitObjs_beyond (allow : Bool) : ∀ (recs : List Rec) (objs : List MObj) (recs' : List Rec),
    commitObjs allow recs objs = .ok recs' → ∀ (i : Nat), objs.length ≤ i → recs'[i]? = recs[i]?
  | recs, [], recs', h => by simp [commitObjs] at h; subst h; intros; rfl
  | [], _ :: _, _, h => by simp [commitObjs] at h
  | r0 :: recs, o0 :: os, recs', h => by
    unfold commitObjs at h
    split at h
    · cases h
    · split at h
      · cases h
      · next rs hrs =>
        cases h
        intro i hi
        cases i with
        | zero => simp at hi
        | succ j =>
          simp at hi ⊢
          exact commitObjs_beyond allow recs os rs hrs j hi

/-- every record is only touched by internal writes -/
theorem commitObjs_lib {allow : Bool} {recs : List Rec} {objs : List MObj} {recs' : List Rec}
    (h : commitObjs allow recs objs = .ok recs') {i : Nat} {r : Rec} (hr : recs[i]? = some r) :
    ∃ r', recs'[i]? = some r' ∧ RecLib allow r r' := by
  cases ho : objs[i]? with
  | none =>
    have hb := commitObjs_beyond allow recs objs recs' h i (by
      rcases Nat.lt_or_ge i objs.length with hlt | hge
      · rw [List.getElem?_eq_getElem hlt] at ho; cases ho
      · exact hge)
    exact ⟨r, by rw [hb, hr], RecLib.refl _ _⟩
  | some o =>
    obtain ⟨r', h1, h2⟩ := commitObjs_get allow recs objs recs' h i r o hr ho
    exact ⟨r', h1, commitObj_lib allow o r r' h2⟩

/-! ### an object committed into a record the user never touched -/

/-- no retriever of the record is marked -/
def RecClean (r : Rec) : Prop := ∀ f c, r f = some c → c.dirty = false

theorem RecLib.clean {allow : Bool} {r r' : Rec} (h : RecLib allow r r') (hc : RecClean r) : RecClean r' := by
  intro f c' hc'
  rcases h f with ⟨_, y⟩ | ⟨c, c'', hx, hy, hr⟩
  · rw [y] at hc'; cases hc'
  · rw [hy] at hc'; cases hc'
    rw [hr.1]; exact hc f c hx

/-- the last value an object holds for `f` is what the (unmarked) record ends up with -/
theorem commitObj_clean (allow : Bool) : ∀ (o : MObj) (r r' : Rec), commitObj allow r o = .ok r' → RecClean r →
    ∀ pre f v post, o = pre ++ (f, v) :: post → (∀ x ∈ post, x.1 ≠ f) → r' f = some { data := some v, dirty := false }
  | [], r, r', _, _ => by intro pre f v post ho; simp at ho
  | (g, w) :: rest, r, r', h, hc => by
    intro pre f v post ho hpost
    unfold commitObj at h
    split at h
    · cases h
    · next c hcg =>
      have hlib : RecLib allow r (recSet r g (c.internalSet allow w)) := RecLib.recSet hcg (LibRel.internalSet allow c w)
      have hc1 : RecClean (recSet r g (c.internalSet allow w)) := hlib.clean hc
      cases pre with
      | cons p pre' =>
        simp at ho
        exact commitObj_clean allow rest _ r' h hc1 pre' f v post ho.2 hpost
      | nil =>
        simp at ho
        obtain ⟨⟨rfl, rfl⟩, rfl⟩ := ho
        -- the remaining links never write `g` again: the value stays
        have hval : (recSet r g (c.internalSet allow w)) g = some { data := some w, dirty := false } := by
          simp [Dirty.recSet, internalSet_clean allow c w (hc g c hcg)]
        clear hlib hc1 hcg hc
        generalize recSet r g (c.internalSet allow w) = r1 at h hval
        induction rest generalizing r1 with
        | nil => simp [commitObj] at h; subst h; exact hval
        | cons x xs ih =>
          obtain ⟨k, u⟩ := x
          unfold commitObj at h
          split at h
          · cases h
          · next ck hck =>
            have hk : k ≠ g := hpost (k, u) (by simp)
            apply ih (fun y hy => hpost y (by simp [hy])) _ h
            simp [Dirty.recSet, Ne.symm hk, hval]

/-! ### one push -/

theorem pushObjs_spec {cfg : Cfg} {s s' : Scn} {l : Field} {refresh : List (Field × Deriv)}
    (h : pushObjs cfg s l refresh = .ok s') :
    ∃ c c1 recs1 recs' p, s.lists l = some c ∧ updateLength cfg l c (s.mobjs l).length = .ok c1 ∧
      c1.data = some recs1 ∧ commitObjs cfg.allow recs1 (s.mobjs l) = .ok recs' ∧
      refreshAll cfg.allow s.plain recs'.length refresh = .ok p ∧
      s' = { s with lists := listSet s.lists l { c1 with data := some recs' }, plain := p } := by
  unfold pushObjs at h
  split at h
  · cases h
  · next c hc =>
    split at h
    · cases h
    · next c1 hc1 =>
      split at h
      · cases h
      · next recs1 hrecs1 =>
        split at h
        · cases h
        · next recs' hrecs' =>
          split at h
          · cases h
          · next p hp =>
            cases h
            exact ⟨c, c1, recs1, recs', p, hc, hc1, hrecs1, hrecs', hp, rfl⟩

theorem pushPlain_spec {allow : Bool} {s s' : Scn} {slot : Nat} {f : Field}
    (h : pushPlain allow s slot f = .ok s') :
    ∃ c v, s.plain f = some c ∧ s.mgr slot = some v ∧
      s' = { s with plain := recSet s.plain f (c.internalSet allow v) } := by
  unfold pushPlain at h
  split at h
  · cases h
  · next c hc =>
    split at h
    · cases h
    · next v hv => cases h; exact ⟨c, v, hc, hv, rfl⟩

/-- what the library can make of a struct-list retriever during a commit (`n` = number of manager objects) -/
structure ListLib (cfg : Cfg) (l : Field) (n : Nat) (c c' : Cell (List Rec)) : Prop where
  mono : c.dirty = true → c'.dirty = true
  fixedDirty : cfg.fixed = true → c'.dirty = c.dirty
  noneEq : c.data = none → c' = c
  keep : ∀ recs, c.data = some recs → ∃ recs', c'.data = some recs' ∧
    ∀ (i : Nat) (r : Rec), i < n → recs[i]? = some r → ∃ r', recs'[i]? = some r' ∧ RecLib cfg.allow r r'
  mem : ∀ recs recs', c.data = some recs → c'.data = some recs' →
    ∀ r' ∈ recs', ∃ r, (r ∈ recs ∨ r = cfg.dflt l) ∧ RecLib cfg.allow r r'

theorem ListLib.refl (cfg : Cfg) (l : Field) (n : Nat) (c : Cell (List Rec)) : ListLib cfg l n c c where
  mono := id
  fixedDirty := fun _ => rfl
  noneEq := fun _ => rfl
  keep := fun recs h => ⟨recs, h, fun i r _ hr => ⟨r, hr, RecLib.refl _ _⟩⟩
  mem := fun recs recs' h h' r' hr' => by
    rw [h] at h'; cases h'; exact ⟨r', Or.inl hr', RecLib.refl _ _⟩

theorem ListLib.trans {cfg : Cfg} {l : Field} {n : Nat} {a b c : Cell (List Rec)}
    (h1 : ListLib cfg l n a b) (h2 : ListLib cfg l n b c) : ListLib cfg l n a c where
  mono := fun h => h2.mono (h1.mono h)
  fixedDirty := fun hf => (h2.fixedDirty hf).trans (h1.fixedDirty hf)
  noneEq := fun h => by
    have := h1.noneEq h; subst this; exact h2.noneEq h
  keep := fun recs h => by
    obtain ⟨recs', hb, k1⟩ := h1.keep recs h
    obtain ⟨recs'', hc, k2⟩ := h2.keep recs' hb
    refine ⟨recs'', hc, fun i r hi hr => ?_⟩
    obtain ⟨r', hr', l1⟩ := k1 i r hi hr
    obtain ⟨r'', hr'', l2⟩ := k2 i r' hi hr'
    exact ⟨r'', hr'', l1.trans l2⟩
  mem := fun recs recs'' h h'' r'' hr'' => by
    obtain ⟨recs', hb, _⟩ := h1.keep recs h
    obtain ⟨r', hr', l2⟩ := h2.mem recs' recs'' hb h'' r'' hr''
    rcases hr' with hr' | hr'
    · obtain ⟨r, hr, l1⟩ := h1.mem recs recs' h hb r' hr'
      exact ⟨r, hr, l1.trans l2⟩
    · exact ⟨r', Or.inr hr', l2⟩

/-- the list retriever across `update_retriever_length` + `commit_object_list` -/
theorem pushObjs_listLib {cfg : Cfg} {l : Field} {c c1 : Cell (List Rec)} {objs : List MObj} {recs1 recs' : List Rec}
    (hu : updateLength cfg l c objs.length = .ok c1) (h1 : c1.data = some recs1)
    (hc : commitObjs cfg.allow recs1 objs = .ok recs') :
    ListLib cfg l objs.length c { c1 with data := some recs' } where
  mono := fun h => (updateLength_dirty_mono hu h : c1.dirty = true)
  fixedDirty := fun hf => ((updateLength_fixed hf hu).1 : c1.dirty = c.dirty)
  noneEq := fun h => by
    obtain ⟨recs, _, h0, _⟩ := updateLength_data hu
    rw [h] at h0; cases h0
  keep := fun recs h0 => by
    refine ⟨recs', rfl, fun i r hi hr => ?_⟩
    have := updateLength_keep hu h0 h1 hi hr
    exact commitObjs_lib hc this
  mem := fun recs recs'' h0 h'' r' hr' => by
    cases h''
    obtain ⟨i, hi, hget⟩ := List.getElem_of_mem hr'
    have hlen := commitObjs_length _ _ _ _ hc
    have hi1 : i < recs1.length := by omega
    obtain ⟨r'', hr'', hlib⟩ := commitObjs_lib hc (List.getElem?_eq_getElem hi1)
    rw [List.getElem?_eq_getElem hi, hget] at hr''
    cases hr''
    exact ⟨recs1[i], updateLength_mem hu h0 h1 _ (List.getElem_mem hi1), hlib⟩

/-- the state before and after library-internal work (one push, a whole commit) -/
structure CommitRel (cfg : Cfg) (s s' : Scn) : Prop where
  mgr : s'.mgr = s.mgr
  mobjs : s'.mobjs = s.mobjs
  plain : RecLib cfg.allow s.plain s'.plain
  lists : ∀ l, (s.lists l = none ∧ s'.lists l = none) ∨
    ∃ c c', s.lists l = some c ∧ s'.lists l = some c' ∧ ListLib cfg l (s.mobjs l).length c c'

theorem CommitRel.refl (cfg : Cfg) (s : Scn) : CommitRel cfg s s where
  mgr := rfl
  mobjs := rfl
  plain := RecLib.refl _ _
  lists := fun l => by
    cases h : s.lists l with
    | none => exact Or.inl ⟨rfl, rfl⟩
    | some c => exact Or.inr ⟨c, c, rfl, rfl, ListLib.refl _ _ _ _⟩

theorem CommitRel.trans {cfg : Cfg} {a b c : Scn} (h1 : CommitRel cfg a b) (h2 : CommitRel cfg b c) :
    CommitRel cfg a c where
  mgr := h2.mgr.trans h1.mgr
  mobjs := h2.mobjs.trans h1.mobjs
  plain := h1.plain.trans h2.plain
  lists := fun l => by
    rcases h1.lists l with ⟨x, y⟩ | ⟨x, y, hx, hy, r1⟩
    · rcases h2.lists l with ⟨_, z⟩ | ⟨u, _, hu, _, _⟩
      · exact Or.inl ⟨x, z⟩
      · rw [y] at hu; cases hu
    · rcases h2.lists l with ⟨y', _⟩ | ⟨u, w, hu, hw, r2⟩
      · rw [hy] at y'; cases y'
      · rw [hy] at hu; cases hu
        rw [h1.mobjs] at r2
        exact Or.inr ⟨x, w, hx, hw, r1.trans r2⟩

theorem push_rel {cfg : Cfg} {s s' : Scn} {p : Push} (h : push cfg s p = .ok s') : CommitRel cfg s s' := by
  cases p with
  | plain slot f =>
    obtain ⟨c, v, hc, _, rfl⟩ := pushPlain_spec h
    exact { mgr := rfl, mobjs := rfl, plain := RecLib.recSet hc (LibRel.internalSet _ _ _),
            lists := (CommitRel.refl cfg s).lists }
  | objs l refresh =>
    obtain ⟨c, c1, recs1, recs', p, hc, hu, h1, hco, hp, rfl⟩ := pushObjs_spec h
    refine { mgr := rfl, mobjs := rfl, plain := refreshAll_lib _ _ _ _ _ hp, lists := fun k => ?_ }
    by_cases hk : k = l
    · subst hk
      exact Or.inr ⟨c, _, hc, by simp [listSet], pushObjs_listLib hu h1 hco⟩
    · cases hx : s.lists k with
      | none => exact Or.inl ⟨rfl, by simp [listSet, hk, hx]⟩
      | some x => exact Or.inr ⟨x, x, rfl, by simp [listSet, hk, hx], ListLib.refl _ _ _ _⟩

theorem commit_rel {cfg : Cfg} : ∀ (prog : List Push) (s s' : Scn), commit cfg prog s = .ok s' → CommitRel cfg s s'
  | [], s, s', h => by simp [commit] at h; subst h; exact CommitRel.refl _ _
  | p :: ps, s, s', h => by
    unfold commit at h
    split at h
    · cases h
    · next s1 h1 => exact (push_rel h1).trans (commit_rel ps s1 s' h)

/-! ### frames: what a push does not write -/

/-- the push assigns the plain retriever `f` (through a plain link or as a `REFRESH` target) -/
def Push.writes (f : Field) : Push → Prop
  | .plain _ g => g = f
  | .objs _ refresh => ∃ x ∈ refresh, x.1 = f

/-- the push is an object-list link of `l` -/
def Push.isObjs (l : Field) : Push → Prop
  | .plain _ _ => False
  | .objs k _ => k = l

theorem refreshAll_frame (allow : Bool) (n : Nat) (f : Field) : ∀ (l : List (Field × Deriv)) (p p' : Rec),
    refreshAll allow p n l = .ok p' → (∀ x ∈ l, x.1 ≠ f) → p' f = p f
  | [], p, p', h, _ => by simp [refreshAll] at h; subst h; rfl
  | (t, d) :: rest, p, p', h, hn => by
    unfold refreshAll at h
    split at h
    · cases h
    · next c hc =>
      have ht : t ≠ f := hn (t, d) (by simp)
      rw [refreshAll_frame allow n f rest _ _ h (fun x hx => hn x (by simp [hx]))]
      simp [Dirty.recSet, Ne.symm ht]

theorem push_frame_plain {cfg : Cfg} {s s' : Scn} {p : Push} {f : Field} (h : push cfg s p = .ok s')
    (hn : ¬ p.writes f) : s'.plain f = s.plain f := by
  cases p with
  | plain slot g =>
    obtain ⟨c, v, _, _, rfl⟩ := pushPlain_spec h
    have : g ≠ f := hn
    simp [Dirty.recSet, Ne.symm this]
  | objs l refresh =>
    obtain ⟨c, c1, recs1, recs', p, _, _, _, _, hp, rfl⟩ := pushObjs_spec h
    exact refreshAll_frame _ _ f _ _ _ hp (fun x hx hxf => hn ⟨x, hx, hxf⟩)

theorem push_frame_list {cfg : Cfg} {s s' : Scn} {p : Push} {l : Field} (h : push cfg s p = .ok s')
    (hn : ¬ p.isObjs l) : s'.lists l = s.lists l := by
  cases p with
  | plain slot g => obtain ⟨c, v, _, _, rfl⟩ := pushPlain_spec h; rfl
  | objs k refresh =>
    obtain ⟨c, c1, recs1, recs', p, _, _, _, _, _, rfl⟩ := pushObjs_spec h
    have : k ≠ l := hn
    simp [listSet, Ne.symm this]

theorem commit_frame_plain {cfg : Cfg} {f : Field} : ∀ (prog : List Push) (s s' : Scn), commit cfg prog s = .ok s' →
    (∀ p ∈ prog, ¬ p.writes f) → s'.plain f = s.plain f
  | [], s, s', h, _ => by simp [commit] at h; subst h; rfl
  | p :: ps, s, s', h, hn => by
    unfold commit at h
    split at h
    · cases h
    · next s1 h1 =>
      rw [commit_frame_plain ps s1 s' h (fun q hq => hn q (by simp [hq])), push_frame_plain h1 (hn p (by simp))]

theorem commit_frame_list {cfg : Cfg} {l : Field} : ∀ (prog : List Push) (s s' : Scn), commit cfg prog s = .ok s' →
    (∀ p ∈ prog, ¬ p.isObjs l) → s'.lists l = s.lists l
  | [], s, s', h, _ => by simp [commit] at h; subst h; rfl
  | p :: ps, s, s', h, hn => by
    unfold commit at h
    split at h
    · cases h
    · next s1 h1 =>
      rw [commit_frame_list ps s1 s' h (fun q hq => hn q (by simp [hq])), push_frame_list h1 (hn p (by simp))]

theorem commit_append {cfg : Cfg} : ∀ (a b : List Push) (s s' : Scn), commit cfg (a ++ b) s = .ok s' →
    ∃ s1, commit cfg a s = .ok s1 ∧ commit cfg b s1 = .ok s'
  | [], b, s, s', h => ⟨s, rfl, h⟩
  | p :: ps, b, s, s', h => by
    simp only [List.cons_append] at h
    unfold commit at h
    split at h
    · cases h
    · next s1 h1 =>
      obtain ⟨s2, h2, h3⟩ := commit_append ps b s1 s' h
      exact ⟨s2, by simp [commit, h1, h2], h3⟩

theorem commit_cons {cfg : Cfg} {p : Push} {ps : List Push} {s s' : Scn} (h : commit cfg (p :: ps) s = .ok s') :
    ∃ s1, push cfg s p = .ok s1 ∧ commit cfg ps s1 = .ok s' := by
  unfold commit at h
  split at h
  · cases h
  · next s1 h1 => exact ⟨s1, h1, h⟩

/-! ### a write that lands -/

/-- a landing internal write: the retriever is unmarked, or the setting is on -/
theorem internalSet_lands {α : Type} {allow : Bool} {c : Cell α} (v : α) (h : c.dirty = false ∨ allow = true) :
    c.internalSet allow v = { data := some v, dirty := c.dirty } := by
  rcases h with h | h
  · rw [internalSet_clean _ _ _ h, h]
  · rw [h, internalSet_allow]

/-- the value of the LAST `REFRESH` entry for `t` is what an unmarked (or overwritable) count field receives -/
theorem refreshAll_lands (allow : Bool) (n : Nat) (t : Field) (d : Deriv) : ∀ (pre post : List (Field × Deriv)) (p p' : Rec) (c : Cell Val),
    refreshAll allow p n (pre ++ (t, d) :: post) = .ok p' → (∀ x ∈ post, x.1 ≠ t) → p t = some c →
    (c.dirty = false ∨ allow = true) → p' t = some { data := some (d.eval n), dirty := c.dirty }
  | [], post, p, p', c, h, hn, hc, hl => by
    simp only [List.nil_append] at h
    unfold refreshAll at h
    rw [hc] at h
    simp only at h
    rw [refreshAll_frame allow n t post _ _ h hn]
    simp [Dirty.recSet, internalSet_lands _ hl]
  | (u, e) :: pre, post, p, p', c, h, hn, hc, hl => by
    simp only [List.cons_append] at h
    unfold refreshAll at h
    split at h
    · cases h
    · next cu hcu =>
      by_cases hut : u = t
      · subst hut
        rw [hc] at hcu; cases hcu
        have := refreshAll_lands allow n u d pre post _ p' (c.internalSet allow (e.eval n)) h hn
          (by simp [Dirty.recSet]) (by rw [(LibRel.internalSet _ _ _).1]; exact hl)
        rw [this, (LibRel.internalSet _ _ _).1]
      · exact refreshAll_lands allow n t d pre post _ p' c h hn (by simp [Dirty.recSet, Ne.symm hut, hc]) hl

/-! ### writes that land during a commit -/

/-- both variants: an unmarked (or overwritable) list is resized to the manager's length -/
theorem updateLength_lands {cfg : Cfg} {l : Field} {c c1 : Cell (List Rec)} {n : Nat}
    (hl : c.dirty = false ∨ cfg.allow = true) (h : updateLength cfg l c n = .ok c1) :
    ∃ recs1, c1.data = some recs1 ∧ recs1.length = n := by
  unfold updateLength at h
  split at h
  · cases h
  · next recs hrecs =>
    split at h
    · next hn => cases h; exact ⟨recs, hrecs, hn.symm⟩
    · split at h
      · next hlt =>
        cases h
        rw [internalSet_lands _ hl]
        exact ⟨_, rfl, by simp; omega⟩
      · next hne hnl =>
        split at h
        · cases h
          rw [internalSet_lands _ hl]
          exact ⟨_, rfl, by simp; omega⟩
        · cases h
          exact ⟨_, rfl, by simp; omega⟩

/-- the last plain link of `f` in the program decides an unmarked (or overwritable) retriever -/
theorem commit_plain_lands {cfg : Cfg} {s s' : Scn} {pre post : List Push} {slot : Nat} {f : Field} {c : Cell Val}
    (h : commit cfg (pre ++ Push.plain slot f :: post) s = .ok s') (hpost : ∀ p ∈ post, ¬ p.writes f)
    (hc : s.plain f = some c) (hl : c.dirty = false ∨ cfg.allow = true) :
    ∃ v, s.mgr slot = some v ∧ s'.plain f = some { data := some v, dirty := c.dirty } := by
  obtain ⟨s1, h1, h2⟩ := commit_append _ _ _ _ h
  obtain ⟨s2, h3, h4⟩ := commit_cons h2
  have r1 := commit_rel _ _ _ h1
  rcases r1.plain f with ⟨x, _⟩ | ⟨x, c1, hx, hc1, hlib⟩
  · rw [hc] at x; cases x
  · rw [hc] at hx; cases hx
    obtain ⟨c1', v, hc1', hv, rfl⟩ := pushPlain_spec h3
    rw [hc1] at hc1'; cases hc1'
    refine ⟨v, by rw [← r1.mgr]; exact hv, ?_⟩
    rw [commit_frame_plain _ _ _ h4 hpost]
    have : c1.dirty = false ∨ cfg.allow = true := by rw [hlib.1]; exact hl
    simp [Dirty.recSet, internalSet_lands _ this, hlib.1]

/-- the plain link exists, hence the retriever it writes -/
theorem commit_plain_exists {cfg : Cfg} {s s' : Scn} {pre post : List Push} {slot : Nat} {f : Field}
    (h : commit cfg (pre ++ Push.plain slot f :: post) s = .ok s') : ∃ c, s.plain f = some c := by
  obtain ⟨s1, h1, h2⟩ := commit_append _ _ _ _ h
  obtain ⟨s2, h3, _⟩ := commit_cons h2
  obtain ⟨c1, v, hc1, _, _⟩ := pushPlain_spec h3
  rcases (commit_rel _ _ _ h1).plain f with ⟨_, y⟩ | ⟨x, _, hx, _, _⟩
  · rw [hc1] at y; cases y
  · exact ⟨x, hx⟩

/-- the last object-list link of `l` decides the length of an unmarked (or overwritable) list, and the count field
refreshed from it receives that length -/
theorem commit_list_lands {cfg : Cfg} {s s' : Scn} {pre post : List Push} {l : Field} {refresh : List (Field × Deriv)}
    {c : Cell (List Rec)}
    (h : commit cfg (pre ++ Push.objs l refresh :: post) s = .ok s') (hpost : ∀ p ∈ post, ¬ p.isObjs l)
    (hc : s.lists l = some c) (hl : (c.dirty = false ∧ cfg.fixed = true) ∨ cfg.allow = true) :
    ∃ c' recs', s'.lists l = some c' ∧ c'.data = some recs' ∧ recs'.length = (s.mobjs l).length ∧
      (cfg.fixed = true → c'.dirty = c.dirty) := by
  obtain ⟨s1, h1, h2⟩ := commit_append _ _ _ _ h
  obtain ⟨s2, h3, h4⟩ := commit_cons h2
  have r1 := commit_rel _ _ _ h1
  rcases r1.lists l with ⟨x, _⟩ | ⟨x, c1, hx, hc1, hlib⟩
  · rw [hc] at x; cases x
  · rw [hc] at hx; cases hx
    obtain ⟨c1', c2, recs2, recs', p, hc1', hu, hd2, hco, _, rfl⟩ := pushObjs_spec h3
    rw [hc1] at hc1'; cases hc1'
    rw [commit_frame_list _ _ _ h4 hpost]
    have hl1 : c1.dirty = false ∨ cfg.allow = true := by
      rcases hl with ⟨hd, hf⟩ | ha
      · left; rw [hlib.fixedDirty hf]; exact hd
      · exact Or.inr ha
    obtain ⟨recs2', hd2', hlen⟩ := updateLength_lands hl1 hu
    rw [hd2] at hd2'; cases hd2'
    refine ⟨{ c2 with data := some recs' }, recs', by simp [listSet], rfl, ?_, ?_⟩
    · rw [commitObjs_length _ _ _ _ hco, hlen, r1.mobjs]
    · intro hf
      show c2.dirty = c.dirty
      rw [(updateLength_fixed hf hu).1, hlib.fixedDirty hf]

/-- a count field the user did not touch receives the length of its list as it is saved -/
theorem commit_count_lands {cfg : Cfg} {s s' : Scn} {pre post : List Push} {l : Field} {rpre rpost : List (Field × Deriv)}
    {t : Field} {d : Deriv} {c : Cell Val}
    (h : commit cfg (pre ++ Push.objs l (rpre ++ (t, d) :: rpost) :: post) s = .ok s')
    (hpostl : ∀ p ∈ post, ¬ p.isObjs l) (hpostt : ∀ p ∈ post, ¬ p.writes t) (hrpost : ∀ x ∈ rpost, x.1 ≠ t)
    (hc : s.plain t = some c) (hl : c.dirty = false ∨ cfg.allow = true) :
    ∃ recs', savedRecs s' l = some recs' ∧ s'.plain t = some { data := some (d.eval recs'.length), dirty := c.dirty } := by
  obtain ⟨s1, h1, h2⟩ := commit_append _ _ _ _ h
  obtain ⟨s2, h3, h4⟩ := commit_cons h2
  have r1 := commit_rel _ _ _ h1
  rcases r1.plain t with ⟨x, _⟩ | ⟨x, c1, hx, hc1, hlib⟩
  · rw [hc] at x; cases x
  · rw [hc] at hx; cases hx
    obtain ⟨cl, c2, recs2, recs', p, _, _, _, _, hp, rfl⟩ := pushObjs_spec h3
    have hl1 : c1.dirty = false ∨ cfg.allow = true := by rw [hlib.1]; exact hl
    have := refreshAll_lands _ _ t d rpre rpost _ _ c1 hp hrpost hc1 hl1
    refine ⟨recs', ?_, ?_⟩
    · simp [savedRecs, commit_frame_list _ _ _ h4 hpostl, listSet]
    · rw [commit_frame_plain _ _ _ h4 hpostt]
      simp [this, hlib.1]

end Aoe.Dirty
