import Aoe.Lemmas.TrigMove
/-!
Helper lemmas for C06/C07, part 5: invariant and link step of `move`, selection, `add`, `copy`, per-player copies and
`import`.
-/
namespace Aoe.Trig
open List

/-- the result of an operation on an invariant state: invariant again, links kept, identities fresh -/
structure Good (c : Bool) (tm tm' : TM) : Prop where
  inv : Inv tm'
  step : Step c tm tm'

theorem Good.trans {c : Bool} {tm tm' tm'' : TM} (hi : Inv tm) (g1 : Good c tm tm') (g2 : Good c tm' tm'') : Good c tm tm'' :=
  ⟨g2.inv, Step.trans hi g1.step g2.step⟩

theorem Good.refl {c : Bool} {tm : TM} (hi : Inv tm) : Good c tm tm := ⟨hi, Step.of_same hi rfl (Nat.le_refl _)⟩

/-! ### the display order getter as a step -/

theorem readOrder_good {c : Bool} {tm : TM} (hi : Inv tm) :
    ∃ tm1, readOrder tm = .ok tm1 ∧ Good c tm tm1 ∧ tm1.trigs = tm.trigs ∧ tm1.next = tm.next ∧
      IsPerm tm1.order tm.trigs.length ∧ tm1.hashed = uids tm ∧ (IsPerm tm.order tm.trigs.length → tm1.order = tm.order) := by
  obtain ⟨o, h1, h2, h3⟩ := readOrder_inv hi
  exact ⟨_, h1, ⟨hi.synced h2, Step.of_same hi rfl (Nat.le_refl _)⟩, rfl, rfl, h2, rfl, h3⟩

theorem readOrder_sound {c : Bool} {tm tm1 : TM} (hi : Inv tm) (h : readOrder tm = .ok tm1) :
    Good c tm tm1 ∧ tm1.trigs = tm.trigs ∧ tm1.next = tm.next ∧ IsPerm tm1.order tm.trigs.length ∧ tm1.hashed = uids tm := by
  obtain ⟨tm1', h1, h2, h3, h4, h5, h6, _⟩ := readOrder_good (c := c) hi
  rw [h1] at h; cases h
  exact ⟨h2, h3, h4, h5, h6⟩

/-- `tm1` is `tm` or what the display order getter makes of `tm` -/
def Synced (tm tm1 : TM) : Prop := tm1 = tm ∨ readOrder tm = .ok tm1

theorem readOrder_idem {tm tm1 : TM} (hi : Inv tm) (h : readOrder tm = .ok tm1) : readOrder tm1 = .ok tm1 := by
  obtain ⟨_, ht, _, _, hh⟩ := readOrder_sound (c := false) hi h
  unfold readOrder
  have : tm1.hashed = uids tm1 := by rw [hh]; simp [uids, ht]
  rw [if_pos this]

theorem Synced.read {tm tm1 tm2 : TM} (hi : Inv tm) (hs : Synced tm tm1) (h : readOrder tm1 = .ok tm2) :
    readOrder tm = .ok tm2 := by
  rcases hs with rfl | hs
  · exact h
  · rw [readOrder_idem hi hs] at h; cases h; exact hs

theorem Synced.trans {tm tm1 tm2 : TM} (hi : Inv tm) (h1 : Synced tm tm1) (h2 : Synced tm1 tm2) : Synced tm tm2 := by
  rcases h2 with rfl | h2
  · exact h1
  · exact Or.inr (h1.read hi h2)

/-! ### move_triggers -/

theorem moveSpec_ne_nil {order ids : List Nat} {k : Nat} (h : ids ≠ []) : moveSpec order ids k ≠ [] := by
  unfold moveSpec
  cases ids with
  | nil => exact absurd rfl h
  | cons a l => simp

theorem move_spec {c : Bool} {tm : TM} (hi : Inv tm) {ids : List Nat} (hne : ids ≠ []) (hnd : ids.Nodup)
    (hlt : ∀ i ∈ ids, i < tm.trigs.length) (k : Nat) :
    ∃ D tm', displayOrder tm = .ok D ∧ IsPerm D tm.trigs.length ∧ move tm ids k = .ok tm' ∧ Good c tm tm' ∧
      tm'.next = tm.next ∧ tm'.order = range tm.trigs.length ∧ tm'.trigs.length = tm.trigs.length ∧
      (uids tm').map some = (moveSpec D ids k).map (uidAt tm) := by
  obtain ⟨tm1, h1, g1, ht1, hn1, hp1, _, _⟩ := readOrder_good (c := c) hi
  have hp1' : IsPerm tm1.order tm1.trigs.length := ht1 ▸ hp1
  have hms : IsPerm (moveSpec tm1.order ids k) tm1.trigs.length := isPerm_moveSpec k hp1' hnd (ht1 ▸ hlt)
  obtain ⟨tm', r1, r2, r3, r4, r5, r6, r7⟩ := reorder_some_spec (c := c) g1.inv hms (moveSpec_ne_nil hne)
  refine ⟨tm1.order, tm', by simp [displayOrder, h1, Except.map], hp1, ?_, g1.trans hi ⟨r2, r3⟩, by omega, by rw [r5, ht1],
    by rw [r6, ht1], ?_⟩
  · unfold move
    simp only [hne, if_false, h1, moveOrder_eq_spec k hp1.1, r1]
  · rw [r7]
    have : uidAt tm1 = uidAt tm := by funext i; simp [uidAt, ht1]
    rw [this]

/-! ### `move_triggers` with arbitrary duplicate-free ids (invalid ids are rejected) -/

theorem mem_moveSpec_of_mem {order ids : List Nat} {k i : Nat} (h : i ∈ ids) : i ∈ moveSpec order ids k := by
  unfold moveSpec; simp [h]

theorem move_sound {c : Bool} {tm tm' : TM} (hi : Inv tm) {ids : List Nat} {k : Nat} (hnd : ids.Nodup)
    (h : move tm ids k = .ok tm') : Good c tm tm' ∧ tm'.next = tm.next := by
  have hne : ids ≠ [] := by
    intro e; subst e; simp [move] at h
  by_cases hall : ∀ i ∈ ids, i < tm.trigs.length
  · obtain ⟨D, tm2, _, _, hm, g, hn, _⟩ := move_spec (c := c) hi hne hnd hall k
    rw [hm] at h; cases h; exact ⟨g, hn⟩
  · exfalso
    have hall' : ∃ i, i ∈ ids ∧ ¬ i < tm.trigs.length := by
      apply Classical.byContradiction
      intro hno
      apply hall
      intro i hi'
      apply Classical.byContradiction
      intro hlt
      exact hno ⟨i, hi', hlt⟩
    obtain ⟨i, himem, hige⟩ := hall'
    obtain ⟨tm1, h1, _, ht1, _, hp1, hh1, _⟩ := readOrder_good (c := c) hi
    unfold move at h
    simp only [hne, if_false, h1, moveOrder_eq_spec k hp1.1] at h
    unfold reorder at h
    simp only [moveSpec_ne_nil hne, if_false] at h
    unfold reorderCore at h
    have hro : readOrder { tm1 with order := moveSpec tm1.order ids k } = .ok { tm1 with order := moveSpec tm1.order ids k } := by
      unfold readOrder
      have : ({ tm1 with order := moveSpec tm1.order ids k } : TM).hashed = uids { tm1 with order := moveSpec tm1.order ids k } := by
        show tm1.hashed = _
        rw [hh1]; simp [uids, ht1]
      rw [if_pos this]
    rw [hro] at h
    obtain ⟨e, he⟩ := pick_error_of_invalid (trigs := tm1.trigs) (mem_moveSpec_of_mem (order := tm1.order) (k := k) himem)
      (by rw [ht1]; omega)
    simp [he] at h

/-! ### selection -/

/-- the state after a selection: unchanged or synchronised -/
theorem resolveObj_sound {c : Bool} {tm tm1 : TM} {t : Trig} {f : Found} (hi : Inv tm) (h : resolveObj tm t = .ok (tm1, f)) :
    Good c tm tm1 ∧ Synced tm tm1 ∧ tm1.trigs = tm.trigs ∧ tm1.next = tm.next ∧ IsPerm tm1.order tm.trigs.length ∧
      f.trig = t ∧ f.idx = t.tid ∧ tm1.order[f.disp]? = some t.tid := by
  unfold resolveObj at h
  cases hr : readOrder tm with
  | error e => simp [hr] at h
  | ok tm2 =>
    obtain ⟨g, ht, hn, hp, _⟩ := readOrder_sound (c := c) hi hr
    simp only [hr, indexOf] at h
    by_cases hm : t.tid ∈ tm2.order
    · simp only [hm, if_true] at h
      cases h
      refine ⟨g, Or.inr hr, ht, hn, hp, rfl, rfl, ?_⟩
      simp only
      rw [getElem?_eq_getElem (idxOf_lt_length_of_mem hm), getElem_idxOf]
    · simp [hm] at h

theorem resolve_sound {c : Bool} {tm tm1 : TM} {s : Sel} {r : Option Found} (hi : Inv tm) (h : resolve tm s = .ok (tm1, r)) :
    Good c tm tm1 ∧ Synced tm tm1 ∧ tm1.trigs = tm.trigs ∧ tm1.next = tm.next ∧
      ∀ f, r = some f → IsPerm tm1.order tm.trigs.length ∧ tm.trigs[f.idx]? = some f.trig ∧ tm1.order[f.disp]? = some f.idx := by
  cases s with
  | obj p =>
    simp only [resolve] at h
    cases hp : tm.trigs[p]? with
    | none => simp [hp] at h
    | some t =>
      simp only [hp] at h
      cases hr : resolveObj tm t with
      | error e => simp [hr] at h
      | ok v =>
        obtain ⟨tm2, f⟩ := v
        simp only [hr, Except.ok.injEq, Prod.mk.injEq] at h
        obtain ⟨rfl, rfl⟩ := h
        obtain ⟨g, hsy, ht, hn, hpm, h1, h2, h3⟩ := resolveObj_sound (c := c) hi hr
        refine ⟨g, hsy, ht, hn, fun f' hf' => ?_⟩
        cases hf'
        have := hi.ids p t hp
        refine ⟨hpm, ?_, ?_⟩
        · rw [h2, h1, this]; exact hp
        · rw [h2]; exact h3
  | index i =>
    simp only [resolve] at h
    by_cases hneg : i < 0
    · simp [hneg] at h
    · simp only [hneg, if_false] at h
      cases hp : tm.trigs[i.toNat]? with
      | none =>
        simp only [hp] at h
        by_cases h0 : i = 0
        · simp only [h0, if_true, Except.ok.injEq, Prod.mk.injEq] at h
          obtain ⟨rfl, rfl⟩ := h
          exact ⟨Good.refl hi, Or.inl rfl, rfl, rfl, fun f hf => by cases hf⟩
        · simp [h0] at h
      | some t =>
        simp only [hp] at h
        cases hr : readOrder tm with
        | error e => simp [hr] at h
        | ok tm2 =>
          obtain ⟨g, ht, hn, hpm, _⟩ := readOrder_sound (c := c) hi hr
          simp only [hr, indexOf] at h
          by_cases hm : i.toNat ∈ tm2.order
          · simp only [hm, if_true, Except.ok.injEq, Prod.mk.injEq] at h
            obtain ⟨rfl, rfl⟩ := h
            refine ⟨g, Or.inr hr, ht, hn, fun f hf => ?_⟩
            cases hf
            refine ⟨hpm, hp, ?_⟩
            simp only
            rw [getElem?_eq_getElem (idxOf_lt_length_of_mem hm), getElem_idxOf]
          · simp [hm] at h
  | display d =>
    simp only [resolve] at h
    cases hr : readOrder tm with
    | error e => simp [hr] at h
    | ok tm2 =>
      obtain ⟨g, ht, hn, hpm, _⟩ := readOrder_sound (c := c) hi hr
      simp only [hr] at h
      cases ho : tm2.order[d]? with
      | none =>
        simp only [ho] at h
        by_cases h0 : d ≠ 0
        · simp [h0] at h
        · simp only [h0, if_false, Except.ok.injEq, Prod.mk.injEq] at h
          obtain ⟨rfl, rfl⟩ := h
          exact ⟨g, Or.inr hr, ht, hn, fun f hf => by cases hf⟩
      | some ti =>
        simp only [ho] at h
        cases hp : tm2.trigs[ti]? with
        | none =>
          simp only [hp] at h
          by_cases h1 : ti ≠ 0
          · simp [h1] at h
          · by_cases h0 : d ≠ 0
            · simp [h1, h0] at h
            · simp only [h1, h0, if_false, Except.ok.injEq, Prod.mk.injEq] at h
              obtain ⟨rfl, rfl⟩ := h
              exact ⟨g, Or.inr hr, ht, hn, fun f hf => by cases hf⟩
        | some t =>
          simp only [hp, Except.ok.injEq, Prod.mk.injEq] at h
          obtain ⟨rfl, rfl⟩ := h
          refine ⟨g, Or.inr hr, ht, hn, fun f hf => ?_⟩
          cases hf
          exact ⟨hpm, ht ▸ hp, ho⟩

theorem resolve!_sound {c : Bool} {tm tm1 : TM} {s : Sel} {f : Found} (hi : Inv tm) (h : resolve! tm s = .ok (tm1, f)) :
    Good c tm tm1 ∧ Synced tm tm1 ∧ tm1.trigs = tm.trigs ∧ tm1.next = tm.next ∧
      IsPerm tm1.order tm.trigs.length ∧ tm.trigs[f.idx]? = some f.trig ∧ tm1.order[f.disp]? = some f.idx := by
  unfold resolve! at h
  cases hr : resolve tm s with
  | error e => simp [hr] at h
  | ok v =>
    obtain ⟨tm2, r⟩ := v
    cases r with
    | none => simp [hr] at h
    | some f' =>
      simp only [hr, Except.ok.injEq, Prod.mk.injEq] at h
      obtain ⟨rfl, rfl⟩ := h
      obtain ⟨g, hsy, ht, hn, hf⟩ := resolve_sound (c := c) hi hr
      obtain ⟨a, b, d⟩ := hf _ rfl
      exact ⟨g, hsy, ht, hn, a, b, d⟩

/-! ### appending one fresh trigger (`add_trigger`, the first half of `copy_trigger`) -/

theorem inv_append {tm : TM} (hi : Inv tm) (t : Trig) (hu : t.uid = tm.next) (ht : t.tid = tm.trigs.length) :
    Inv { tm with trigs := tm.trigs ++ [t], next := tm.next + 1 } := by
  have huids : uids { tm with trigs := tm.trigs ++ [t], next := tm.next + 1 } = uids tm ++ [tm.next] := by
    simp [uids, hu]
  refine ⟨?_, ?_, ?_, ?_, ?_⟩
  · intro i x hx
    simp only at hx
    by_cases hlt : i < tm.trigs.length
    · rw [getElem?_append_left hlt] at hx; exact hi.ids i x hx
    · rw [getElem?_append_right (by omega)] at hx
      cases hd : i - tm.trigs.length with
      | zero => simp [hd] at hx; subst hx; omega
      | succ m => simp [hd] at hx
  · obtain ⟨m, hm, _⟩ := hi.order
    refine ⟨m, hm, fun he => ?_⟩
    exfalso
    simp only at he
    rw [huids] at he
    have : tm.next ∈ tm.hashed := by rw [he]; simp
    have := hi.hfresh _ this
    omega
  · rw [huids, nodup_append]
    refine ⟨hi.uniq, by simp, ?_⟩
    intro a ha b hb e
    simp at hb; subst hb; subst e
    have := hi.fresh _ ha; omega
  · intro u hu'
    rw [huids, mem_append] at hu'
    simp only
    rcases hu' with h | h
    · have := hi.fresh u h; omega
    · simp at h; omega
  · intro u hu'
    have := hi.hfresh u hu'
    simp only; omega

theorem good_append {c : Bool} {tm : TM} (hi : Inv tm) (t : Trig) (hu : t.uid = tm.next) (ht : t.tid = tm.trigs.length) :
    Good c tm { tm with trigs := tm.trigs ++ [t], next := tm.next + 1 } :=
  ⟨inv_append hi t hu ht, Step.of_append hi [t] rfl (by simp [hu]) (by simp)⟩

theorem add_good {c : Bool} {tm : TM} (hi : Inv tm) : Good c tm (add tm) :=
  good_append hi _ rfl rfl

theorem appendCopy_good {c : Bool} {tm : TM} (hi : Inv tm) (t : Trig) : Good c tm (appendCopy tm t).1 :=
  good_append hi _ rfl rfl

/-! ### copy_trigger -/

theorem copy_good {c : Bool} {tm tm' : TM} {s : Sel} {after : Bool} {cp : Trig} (hi : Inv tm)
    (h : copy tm s after = .ok (tm', cp)) : Good c tm tm' ∧ cp.uid = tm.next ∧ tm.next < tm'.next := by
  unfold copy at h
  cases hr : resolve! tm s with
  | error e => simp [hr] at h
  | ok v =>
    obtain ⟨tm1, f⟩ := v
    obtain ⟨g1, _, ht1, hn1, hp1, hf1, _⟩ := resolve!_sound (c := c) hi hr
    simp only [hr] at h
    have g2 : Good c tm1 (appendCopy tm1 f.trig).1 := appendCopy_good g1.inv f.trig
    have hidx : f.idx < tm.trigs.length := (List.getElem?_eq_some_iff.1 hf1).1
    cases after with
    | false =>
      simp only [Bool.false_eq_true, if_false, Except.ok.injEq, Prod.mk.injEq] at h
      obtain ⟨rfl, rfl⟩ := h
      exact ⟨g1.trans hi g2, by simp [appendCopy, hn1], by simp [appendCopy, hn1]⟩
    | true =>
      simp only [if_true] at h
      have hlen : (appendCopy tm1 f.trig).1.trigs.length = tm.trigs.length + 1 := by simp [appendCopy, ht1]
      obtain ⟨D, tm3, _, _, hm, g3, hn3, _⟩ := move_spec (c := c) g2.inv (ids := [f.idx, (appendCopy tm1 f.trig).2.tid])
        (by simp) (by simp [appendCopy, ht1]; omega) (by
          intro i hi'
          simp only [mem_cons, not_mem_nil, or_false] at hi'
          rcases hi' with rfl | rfl
          · omega
          · simp [appendCopy, ht1]) f.idx
      simp only [hm, Except.ok.injEq, Prod.mk.injEq] at h
      obtain ⟨rfl, rfl⟩ := h
      exact ⟨(g1.trans hi g2).trans hi g3, by simp [appendCopy, hn1], by rw [hn3]; simp [appendCopy, hn1]⟩

/-! ### copy_trigger_per_player (structure) -/

theorem copyPlayers_good {c : Bool} : ∀ {ps : List Nat} {tm tm' : TM} {src : Trig} {acc r : List (Nat × Trig)},
    Inv tm → copyPlayers tm src ps acc = .ok (tm', r) → Good c tm tm' ∧ tm.next ≤ tm'.next
  | [], tm, tm', src, acc, r, hi, h => by
    simp only [copyPlayers, Except.ok.injEq, Prod.mk.injEq] at h
    obtain ⟨rfl, _⟩ := h
    exact ⟨Good.refl hi, Nat.le_refl _⟩
  | p :: ps, tm, tm', src, acc, r, hi, h => by
    simp only [copyPlayers] at h
    cases hr : resolveObj tm src with
    | error e => simp [hr] at h
    | ok v =>
      obtain ⟨tm1, f⟩ := v
      obtain ⟨g1, _, _, hn1, _⟩ := resolveObj_sound (c := c) hi hr
      simp only [hr] at h
      have g2 : Good c tm1 (appendCopy tm1 f.trig).1 := appendCopy_good g1.inv f.trig
      obtain ⟨g3, hle⟩ := copyPlayers_good (c := c) g2.inv h
      refine ⟨(g1.trans hi g2).trans hi g3, ?_⟩
      have : (appendCopy tm1 f.trig).1.next = tm.next + 1 := by simp [appendCopy, hn1]
      omega

theorem copyPerPlayer_good {c : Bool} {tm tm' : TM} {s : Sel} {fromP : Nat} {players : Option (List Nat)} {gaia : Bool}
    {r : List (Nat × Trig)} (hi : Inv tm) (h : copyPerPlayer tm s fromP players gaia = .ok (tm', r)) :
    Good c tm tm' ∧ tm.next ≤ tm'.next := by
  unfold copyPerPlayer at h
  cases hr : resolve! tm s with
  | error e => simp [hr] at h
  | ok v =>
    obtain ⟨tm1, f⟩ := v
    obtain ⟨g1, _, _, hn1, _⟩ := resolve!_sound (c := c) hi hr
    simp only [hr] at h
    obtain ⟨g2, hle⟩ := copyPlayers_good (c := c) g1.inv h
    exact ⟨g1.trans hi g2, by omega⟩

end Aoe.Trig
