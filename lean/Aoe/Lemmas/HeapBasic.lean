import Aoe.Model.Heap
/-!
Helper lemmas for the heap model (C09): list helpers, stamping, deep copy, and the shape relations under which
the heap invariants are transported.
-/
namespace Aoe.Heap

/-! ## list helpers -/

theorem length_mapAt {α : Type} (p : Nat → Bool) (f : α → α) : ∀ (l : List α) (i : Nat), (mapAt p f i l).length = l.length
  | [], _ => rfl
  | _ :: xs, i => by simp [mapAt, length_mapAt p f xs (i + 1)]

theorem getElem?_mapAt {α : Type} (p : Nat → Bool) (f : α → α) :
    ∀ (l : List α) (i j : Nat), (mapAt p f i l)[j]? = (l[j]?).map (fun x => if p (i + j) then f x else x)
  | [], _, _ => by simp [mapAt]
  | x :: xs, i, 0 => by simp [mapAt]
  | x :: xs, i, j + 1 => by
    simp only [mapAt, List.getElem?_cons_succ]
    rw [getElem?_mapAt p f xs (i + 1) j]
    have : i + 1 + j = i + (j + 1) := by omega
    rw [this]

theorem lookupAll_length {α : Type} (cs : List α) : ∀ (as : List Addr) (r : List α), lookupAll cs as = some r → r.length = as.length
  | [], r, h => by simp [lookupAll] at h; subst h; rfl
  | a :: as, r, h => by
    simp only [lookupAll] at h
    cases h1 : cs[a]? <;> cases h2 : lookupAll cs as <;> simp [h1, h2] at h
    subst h
    simp [lookupAll_length cs as _ h2]

theorem lookupAll_get {α : Type} (cs : List α) :
    ∀ (as : List Addr) (r : List α), lookupAll cs as = some r → ∀ (k : Nat) (a : Addr), as[k]? = some a → r[k]? = cs[a]? ∧ (cs[a]?).isSome
  | [], r, h, k, a, hk => by simp at hk
  | a0 :: as, r, h, k, a, hk => by
    simp only [lookupAll] at h
    cases h1 : cs[a0]? <;> cases h2 : lookupAll cs as <;> simp [h1, h2] at h
    subst h
    cases k with
    | zero => simp at hk; subst hk; simp [h1]
    | succ k => simp at hk; simpa using lookupAll_get cs as _ h2 k a hk

theorem lookupAll_isSome {α : Type} (cs : List α) :
    ∀ (as : List Addr), (∀ a ∈ as, a < cs.length) → ∃ r, lookupAll cs as = some r
  | [], _ => ⟨[], rfl⟩
  | a :: as, h => by
    have ha : a < cs.length := h a (by simp)
    obtain ⟨r, hr⟩ := lookupAll_isSome cs as (fun b hb => h b (by simp [hb]))
    refine ⟨cs[a] :: r, ?_⟩
    simp [lookupAll, hr, List.getElem?_eq_getElem ha]

theorem lookupAll_valid {α : Type} (cs : List α) :
    ∀ (as : List Addr) (r : List α), lookupAll cs as = some r → ∀ a ∈ as, a < cs.length
  | [], _, _, a, ha => by simp at ha
  | a0 :: as, r, h, a, ha => by
    simp only [lookupAll] at h
    cases h1 : cs[a0]? <;> cases h2 : lookupAll cs as <;> simp [h1, h2] at h
    rcases List.mem_cons.mp ha with rfl | ha'
    · exact (List.getElem?_eq_some_iff.mp h1).1
    · exact lookupAll_valid cs as _ h2 a ha'

/-- `lookupAll` only looks at the addressed cells -/
theorem lookupAll_congr {α : Type} (cs cs' : List α) :
    ∀ (as : List Addr), (∀ a ∈ as, cs'[a]? = cs[a]?) → lookupAll cs' as = lookupAll cs as
  | [], _ => rfl
  | a :: as, h => by
    simp only [lookupAll]
    rw [h a (by simp), lookupAll_congr cs cs' as (fun b hb => h b (by simp [hb]))]

theorem setFn_same {β : Type} (f : Uid → β) (u : Uid) (v : β) : setFn f u v u = v := by simp [setFn]
theorem setFn_other {β : Type} (f : Uid → β) (u : Uid) (v : β) (x : Uid) (h : x ≠ u) : setFn f u v x = f x := by
  simp [setFn, h]

/-! ## extension of a heap by fresh cells -/

/-- `h'` has the cells of `h` unchanged (and possibly more) -/
structure Ext (h h' : Heap) : Prop where
  trigs : ∀ (a : Addr) (t : Trig), h.trigs[a]? = some t → h'.trigs[a]? = some t
  comps : ∀ (c : Addr) (co : Comp), h.comps[c]? = some co → h'.comps[c]? = some co
  tlen : h.trigs.length ≤ h'.trigs.length
  clen : h.comps.length ≤ h'.comps.length

theorem Ext.refl (h : Heap) : Ext h h := ⟨fun _ _ x => x, fun _ _ x => x, Nat.le_refl _, Nat.le_refl _⟩

theorem Ext.trans {h1 h2 h3 : Heap} (a : Ext h1 h2) (b : Ext h2 h3) : Ext h1 h3 :=
  ⟨fun x t hx => b.trigs x t (a.trigs x t hx), fun x t hx => b.comps x t (a.comps x t hx),
   Nat.le_trans a.tlen b.tlen, Nat.le_trans a.clen b.clen⟩

theorem Ext.trigs_lt {h h' : Heap} (e : Ext h h') {a : Addr} (ha : a < h.trigs.length) : h'.trigs[a]? = h.trigs[a]? := by
  rw [e.trigs a _ (List.getElem?_eq_getElem ha), List.getElem?_eq_getElem ha]

theorem Ext.comps_lt {h h' : Heap} (e : Ext h h') {c : Addr} (hc : c < h.comps.length) : h'.comps[c]? = h.comps[c]? := by
  rw [e.comps c _ (List.getElem?_eq_getElem hc), List.getElem?_eq_getElem hc]

/-! ## heap invariants -/

/-- every component address stored in a trigger is allocated -/
def HWF (h : Heap) : Prop := ∀ (a : Addr) (t : Trig), h.trigs[a]? = some t → ∀ c ∈ t.comps, c < h.comps.length

/-- two different trigger objects never share a component object -/
def Sep (h : Heap) : Prop :=
  ∀ (a1 a2 : Addr) (t1 t2 : Trig), a1 ≠ a2 → h.trigs[a1]? = some t1 → h.trigs[a2]? = some t2 → ∀ c ∈ t1.comps, c ∉ t2.comps

/-- same cells, same component lists (stamps and payload may differ) -/
structure Shape (h h' : Heap) : Prop where
  tlen : h'.trigs.length = h.trigs.length
  clen : h'.comps.length = h.comps.length
  comps : ∀ (a : Addr), (h'.trigs[a]?).map (·.comps) = (h.trigs[a]?).map (·.comps)

theorem Shape.refl (h : Heap) : Shape h h := ⟨rfl, rfl, fun _ => rfl⟩
theorem Shape.trans {h1 h2 h3 : Heap} (a : Shape h1 h2) (b : Shape h2 h3) : Shape h1 h3 :=
  ⟨b.tlen.trans a.tlen, b.clen.trans a.clen, fun x => (b.comps x).trans (a.comps x)⟩

theorem Shape.comps_of {h h' : Heap} (s : Shape h h') {a : Addr} {t' : Trig} (ht : h'.trigs[a]? = some t') :
    ∃ t, h.trigs[a]? = some t ∧ t.comps = t'.comps := by
  have := s.comps a
  rw [ht] at this
  cases h0 : h.trigs[a]? with
  | none => simp [h0] at this
  | some t => simp [h0] at this; exact ⟨t, rfl, this.symm⟩

theorem Shape.hwf {h h' : Heap} (s : Shape h h') (w : HWF h) : HWF h' := by
  intro a t' ht c hc
  obtain ⟨t, h0, e⟩ := s.comps_of ht
  rw [s.clen]
  exact w a t h0 c (e ▸ hc)

theorem Shape.sep {h h' : Heap} (s : Shape h h') (w : Sep h) : Sep h' := by
  intro a1 a2 t1 t2 ne h1 h2 c hc
  obtain ⟨u1, g1, e1⟩ := s.comps_of h1
  obtain ⟨u2, g2, e2⟩ := s.comps_of h2
  rw [← e2]
  exact w a1 a2 u1 u2 ne g1 g2 c (e1 ▸ hc)

theorem Shape.compsOf {h h' : Heap} (s : Shape h h') (a : Addr) : compsOf h' a = compsOf h a := by
  have := s.comps a
  unfold Heap.compsOf
  cases h1 : h'.trigs[a]? <;> cases h0 : h.trigs[a]? <;> simp [h1, h0] at this ⊢
  exact this

/-- same cells, same component lists, same stamps (only `tid`, `name`, `target`, `val` may differ) -/
structure Skel (h h' : Heap) : Prop where
  shape : Shape h h'
  tstamp : ∀ (a : Addr), (h'.trigs[a]?).map (fun t => (t.uuid, t.compsU)) = (h.trigs[a]?).map (fun t => (t.uuid, t.compsU))
  cstamp : ∀ (c : Addr), (h'.comps[c]?).map (·.uuid) = (h.comps[c]?).map (·.uuid)

theorem Skel.refl (h : Heap) : Skel h h := ⟨Shape.refl h, fun _ => rfl, fun _ => rfl⟩
theorem Skel.trans {h1 h2 h3 : Heap} (a : Skel h1 h2) (b : Skel h2 h3) : Skel h1 h3 :=
  ⟨a.shape.trans b.shape, fun x => (b.tstamp x).trans (a.tstamp x), fun x => (b.cstamp x).trans (a.cstamp x)⟩

theorem Skel.trig_of {h h' : Heap} (s : Skel h h') {a : Addr} {t' : Trig} (ht : h'.trigs[a]? = some t') :
    ∃ t, h.trigs[a]? = some t ∧ t.comps = t'.comps ∧ t.uuid = t'.uuid ∧ t.compsU = t'.compsU := by
  obtain ⟨t, h0, e⟩ := s.shape.comps_of ht
  have := s.tstamp a
  rw [ht, h0] at this
  simp at this
  exact ⟨t, h0, e, this.1.symm, this.2.symm⟩

theorem Skel.comp_of {h h' : Heap} (s : Skel h h') {c : Addr} {co' : Comp} (hc : h'.comps[c]? = some co') :
    ∃ co, h.comps[c]? = some co ∧ co.uuid = co'.uuid := by
  have := s.cstamp c
  rw [hc] at this
  cases h0 : h.comps[c]? with
  | none => simp [h0] at this
  | some co => simp [h0] at this; exact ⟨co, rfl, this.symm⟩

/-- writing a trigger cell with the same component list and stamps -/
theorem Skel.setTrig (h : Heap) (a : Addr) (t t' : Trig) (ht : h.trigs[a]? = some t)
    (e1 : t'.comps = t.comps) (e2 : t'.uuid = t.uuid) (e3 : t'.compsU = t.compsU) :
    Skel h { h with trigs := h.trigs.set a t' } := by
  obtain ⟨ha, hget⟩ := List.getElem?_eq_some_iff.mp ht
  refine ⟨⟨by simp, rfl, fun b => ?_⟩, fun b => ?_, fun _ => rfl⟩
  · by_cases hb : a = b
    · subst hb; simp [ha, e1, hget]
    · simp [hb]
  · by_cases hb : a = b
    · subst hb; simp [ha, e2, e3, hget]
    · simp [hb]

theorem Skel.setComp (h : Heap) (c : Addr) (co co' : Comp) (hc : h.comps[c]? = some co) (e : co'.uuid = co.uuid) :
    Skel h { h with comps := h.comps.set c co' } := by
  obtain ⟨hlt, hget⟩ := List.getElem?_eq_some_iff.mp hc
  refine ⟨⟨rfl, by simp, fun _ => rfl⟩, fun _ => rfl, fun b => ?_⟩
  by_cases hb : c = b
  · subst hb; simp [hlt, e, hget]
  · simp [hb]

end Aoe.Heap
