import Aoe.Lemmas.HeapStep
/-!
C09: `addComp`, `importTriggers`, `adopt`, `save` keep the invariant; one step; runs.
-/
namespace Aoe.Heap

/-! ## a new component on a held trigger -/

theorem addComp_inv {cfg : Cfg} {w w' : World} (i : Inv cfg w) {u : Uid} {k : Nat} {kd : Kind} {tg v : Int}
    (safe : Safe cfg w (.addComp u k kd tg v)) (e : addComp w u k kd tg v = .ok w') : Inv cfg w' := by
  unfold addComp at e
  cases hk : (w.trigsOf u)[k]? with
  | none => simp [hk] at e
  | some a =>
    simp only [hk] at e
    cases ht : w.heap.trigs[a]? with
    | none => simp [ht] at e
    | some t =>
      simp only [ht, Except.ok.injEq] at e
      subst e
      have hau : a ∈ w.trigsOf u := List.mem_of_getElem? hk
      have halt : a < w.heap.trigs.length := i.1.swf u a hau
      have hU : t.compsU = u := by
        rcases safe with hn | hs
        · exact i.2 hn u a hau t ht
        · exact hs a t hk ht
      -- the cells of the new heap
      have trig' : ∀ (b : Addr) (tb : Trig),
          (w.heap.trigs.set a { t with comps := t.comps ++ [w.heap.comps.length] })[b]? = some tb →
            (b = a ∧ tb = { t with comps := t.comps ++ [w.heap.comps.length] }) ∨ (b ≠ a ∧ w.heap.trigs[b]? = some tb) := by
        intro b tb hb
        by_cases hba : a = b
        · subst hba; left
          simp [halt] at hb
          exact ⟨rfl, hb.symm⟩
        · right
          simp [hba] at hb
          exact ⟨fun x => hba x.symm, hb⟩
      have comp_old : ∀ (c : Addr), c < w.heap.comps.length →
          (w.heap.comps ++ [({ uuid := t.compsU, kind := kd, target := tg, val := v } : Comp)])[c]? = w.heap.comps[c]? := by
        intro c hc; simp [List.getElem?_append_left hc]
      have hwf' : HWF ⟨w.heap.trigs.set a { t with comps := t.comps ++ [w.heap.comps.length] },
                       w.heap.comps ++ [{ uuid := t.compsU, kind := kd, target := tg, val := v }]⟩ := by
        intro b tb hb c hc
        simp only [List.length_append, List.length_cons, List.length_nil]
        rcases trig' b tb hb with ⟨_, rfl⟩ | ⟨_, h0⟩
        · rcases List.mem_append.mp hc with h1 | h1
          · have := i.1.hwf a t ht c h1; omega
          · simp at h1; omega
        · have := i.1.hwf b tb h0 c hc; omega
      have sep' : Sep ⟨w.heap.trigs.set a { t with comps := t.comps ++ [w.heap.comps.length] },
                       w.heap.comps ++ [{ uuid := t.compsU, kind := kd, target := tg, val := v }]⟩ := by
        intro b1 b2 t1 t2 ne h1 h2 c hc1 hc2
        rcases trig' b1 t1 h1 with ⟨e1, rfl⟩ | ⟨n1, g1⟩ <;> rcases trig' b2 t2 h2 with ⟨e2, rfl⟩ | ⟨n2, g2⟩
        · exact ne (e1.trans e2.symm)
        · rcases List.mem_append.mp hc1 with x | x
          · exact i.1.sep a b2 t t2 (fun q => n2 q.symm) ht g2 c x hc2
          · simp at x
            have := i.1.hwf b2 t2 g2 c hc2; omega
        · rcases List.mem_append.mp hc2 with x | x
          · exact i.1.sep b1 a t1 t n1 g1 ht c hc1 x
          · simp at x
            have := i.1.hwf b1 t1 g1 c hc1; omega
        · exact i.1.sep b1 b2 t1 t2 ne g1 g2 c hc1 hc2
      refine ⟨⟨hwf', sep', ?_, ?_, i.1.anon, i.1.live0⟩, fun hn => ?_⟩
      · intro x b hb
        show b < (w.heap.trigs.set a _).length
        simp only [List.length_set]
        exact i.1.swf x b hb
      · intro x b hb tb htb
        rcases trig' b tb htb with ⟨rfl, rfl⟩ | ⟨_, h0⟩
        · have hx : x = u := by
            by_cases hxu : x = u
            · exact hxu
            · exact absurd hau (i.1.trigs_disjoint hxu hb)
          subst hx
          obtain ⟨o1, o2⟩ := i.1.owned x b hb t ht
          refine ⟨o1, fun c hc co hco => ?_⟩
          rcases List.mem_append.mp hc with h1 | h1
          · have hlt := i.1.hwf b t ht c h1
            change (w.heap.comps ++ [_])[c]? = some co at hco
            rw [comp_old c hlt] at hco
            exact o2 c h1 co hco
          · simp at h1
            subst h1
            change (w.heap.comps ++ [_])[w.heap.comps.length]? = some co at hco
            simp at hco
            rw [← hco]; exact hU
        · obtain ⟨o1, o2⟩ := i.1.owned x b hb tb h0
          refine ⟨o1, fun c hc co hco => ?_⟩
          have hlt := i.1.hwf b tb h0 c hc
          change (w.heap.comps ++ [_])[c]? = some co at hco
          rw [comp_old c hlt] at hco
          exact o2 c hc co hco
      · intro x b hb tb htb
        rcases trig' b tb htb with ⟨rfl, rfl⟩ | ⟨_, h0⟩
        · exact i.2 hn x b hb t ht
        · exact i.2 hn x b hb tb h0

/-! ## import -/

theorem importTriggers_nf {cfg : Cfg} {w w' : World} (i : Inv cfg w) {u : Uid} {refs r : List Addr}
    (e : importTriggers cfg w u refs = .ok (w', r)) : StampNF cfg w w' u := by
  unfold importTriggers at e
  by_cases hnd : refs.Nodup
  · simp only [hnd, not_true_eq_false, if_false] at e
    cases hts : lookupTrigs w.heap refs with
    | none => simp [hts] at e
    | some ts =>
      simp only [hts] at e
      split at e
      · simp at e
      · rename_i h1 copies hcp
        obtain ⟨ex, w1, s1, hr, hl⟩ := copyTrigs_inv _ _ _ _ _ _ _ hcp i.1.hwf i.1.sep
        have i1 : Inv0 { w with heap := h1 } := i.1.ext ex w1 s1
        have hfresh : ∀ a ∈ copies, w.heap.trigs.length ≤ a ∧ a < h1.trigs.length := by
          intro a ha; rw [hr] at ha
          have := List.mem_range'_1.mp ha
          omega
        have freeC : ∀ a ∈ copies, ∀ v, v ≠ u → a ∉ w.trigsOf v :=
          fun a ha v _ => free_of_fresh i.1 (hfresh a ha).1 v
        by_cases hfi : cfg.fixImport = true
        · simp only [hfi, if_true, Except.ok.injEq, Prod.mk.injEq] at e
          obtain ⟨rfl, _⟩ := e
          have from_ : ∀ a ∈ w.trigsOf u ++ copies, a ∈ copies ∨ a ∈ w.trigsOf u := by
            intro a ha; rcases List.mem_append.mp ha with h | h
            · exact Or.inr h
            · exact Or.inl h
          exact ⟨h1, copies, _, ex, w1, s1, fun a ha => (hfresh a ha).2, freeC, from_, rfl⟩
        · simp only [hfi, Bool.false_eq_true, if_false] at e
          cases hct : ctor cfg u h1 (w.trigsOf u ++ copies) with
          | none => simp [hct] at e
          | some q =>
            obtain ⟨h2, held⟩ := q
            simp only [hct, Except.ok.injEq, Prod.mk.injEq] at e
            obtain ⟨rfl, _⟩ := e
            have valid : ∀ a ∈ w.trigsOf u ++ copies, a < h1.trigs.length := by
              intro a ha; rcases List.mem_append.mp ha with h | h
              · exact Nat.lt_of_lt_of_le (i.1.swf u a h) ex.tlen
              · exact (hfresh a h).2
            have free : ∀ a ∈ w.trigsOf u ++ copies, ∀ v, v ≠ u → a ∉ w.trigsOf v := by
              intro a ha v hv; rcases List.mem_append.mp ha with h | h
              · exact i.1.trigs_disjoint (Ne.symm hv) h
              · exact freeC a h v hv
            exact StampNF.of_ext ex (ctor_nf i1 cfg u _ valid (Or.inr free) hct)
  · simp [hnd] at e

/-! ## the list entry points -/

theorem mem_take_drop_insert {l r : List Addr} {pos : Nat} {a : Addr} (h : a ∈ l.take pos ++ r ++ l.drop pos) :
    a ∈ r ∨ a ∈ l := by
  rcases List.mem_append.mp h with h | h
  · rcases List.mem_append.mp h with h | h
    · exact Or.inr (List.mem_of_mem_take h)
    · exact Or.inl h
  · exact Or.inr (List.mem_of_mem_drop h)

theorem adopt_nf {cfg : Cfg} {w w' : World} (i : Inv cfg w) {u : Uid} {how : How}
    {refs0 : List Addr} {cf : Bool} (safe : Safe cfg w (.adopt u how refs0 cf))
    (e : adopt cfg w u how refs0 cf = .ok w') : StampNF cfg w w' u := by
  unfold adopt at e
  by_cases hv : refs0.all (fun a => decide (a < w.heap.trigs.length)) = true
  · simp only [hv, not_true_eq_false, if_false] at e
    have valid0 : ∀ a ∈ refs0, a < w.heap.trigs.length := by
      intro a ha; have := List.all_eq_true.mp hv a ha; simpa using this
    -- the pre-pass
    cases hpre : (if cf = true then ownEach u w.heap refs0 else some (w.heap, refs0)) with
    | none => simp [hpre] at e
    | some p =>
      obtain ⟨h0, refs⟩ := p
      simp only [hpre] at e
      -- facts about the pre-pass result
      have pre : Ext w.heap h0 ∧ HWF h0 ∧ Sep h0 ∧ (∀ a ∈ refs, a < h0.trigs.length) ∧
          ((∀ a ∈ refs, ∀ v, v ≠ u → a ∉ w.trigsOf v) ∨
            (cf = false ∧ h0 = w.heap ∧ refs = refs0 ∧ ∃ seq, how.seq (w.trigsOf u) refs0 = some seq ∧ FirstForeign w.heap u seq)) := by
        by_cases hcf : cf = true
        · simp only [hcf, if_true] at hpre
          obtain ⟨ex, w1, s1, _, m⟩ := ownEach_inv u refs0 w.heap h0 refs hpre i.1.hwf i.1.sep
          refine ⟨ex, w1, s1, ?_, Or.inl ?_⟩
          · intro a ha
            rcases m a ha with ⟨_, h2⟩ | ⟨h1, _⟩
            · exact h2
            · exact Nat.lt_of_lt_of_le (valid0 a h1) ex.tlen
          · intro a ha
            rcases m a ha with ⟨h1, _⟩ | ⟨_, t, ht, nf⟩
            · exact fun v _ => free_of_fresh i.1 h1 v
            · exact free_of_not_isForeign i.1 ht nf
        · have hcf' : cf = false := by simpa using hcf
          simp only [hcf', Bool.false_eq_true, if_false, Option.some.injEq, Prod.mk.injEq] at hpre
          obtain ⟨rfl, rfl⟩ := hpre
          refine ⟨Ext.refl _, i.1.hwf, i.1.sep, valid0, ?_⟩
          rcases safe with s | s | s
          · exact absurd s hcf
          · exact Or.inl (fun a ha => (s a ha).free i.1 (valid0 a ha))
          · exact Or.inr ⟨hcf', rfl, rfl, s⟩
      obtain ⟨ex, w1, s1, valid, alt⟩ := pre
      have i1 : Inv0 { w with heap := h0 } := i.1.ext ex w1 s1
      -- in-place entry points
      have inPlace : ∀ (l' : List Addr), (∀ a ∈ l', a ∈ refs ∨ a ∈ w.trigsOf u) → how.seq (w.trigsOf u) refs0 = none →
          StampNF cfg w { w with heap := stampTrigs cfg u refs h0, trigsOf := setFn w.trigsOf u l' } u := by
        intro l' from_ hseq
        have free : ∀ a ∈ refs, ∀ v, v ≠ u → a ∉ w.trigsOf v := by
          rcases alt with f | ⟨_, _, _, seq, hs, _⟩
          · exact f
          · rw [hseq] at hs; exact absurd hs (by simp)
        exact ⟨h0, refs, l', ex, w1, s1, valid, free, from_, rfl⟩
      -- the setter
      have viaSetter : ∀ (seq : List Addr), (∀ a ∈ seq, a ∈ refs ∨ a ∈ w.trigsOf u) →
          (cf = false → how.seq (w.trigsOf u) refs0 = some seq) →
          ∀ (h2 : Heap) (held : List Addr), ctor cfg u h0 seq = some (h2, held) →
          StampNF cfg w { w with heap := h2, trigsOf := setFn w.trigsOf u held } u := by
        intro seq from_ hseq h2 held hct
        have validS : ∀ a ∈ seq, a < h0.trigs.length := by
          intro a ha; rcases from_ a ha with h | h
          · exact valid a h
          · exact Nat.lt_of_lt_of_le (i.1.swf u a h) ex.tlen
        have ok : FirstForeign h0 u seq ∨ ∀ a ∈ seq, ∀ v, v ≠ u → a ∉ w.trigsOf v := by
          rcases alt with f | ⟨hcf, rfl, _, seq', hs, ff⟩
          · right
            intro a ha v hv; rcases from_ a ha with h | h
            · exact f a h v hv
            · exact i.1.trigs_disjoint (Ne.symm hv) h
          · left
            rw [hseq hcf] at hs
            simp only [Option.some.injEq] at hs
            rw [hs]; exact ff
        exact StampNF.of_ext ex (ctor_nf i1 cfg u seq validS ok hct)
      cases how with
      | append =>
        simp only at e
        by_cases hlen : refs.length = 1
        · simp only [hlen, if_true, Except.ok.injEq] at e
          subst e
          exact inPlace _ (fun a ha => by
            rcases List.mem_append.mp ha with h | h
            · exact Or.inr h
            · exact Or.inl h) rfl
        · simp [hlen] at e
      | insert pos =>
        simp only at e
        by_cases hlen : refs.length = 1
        · simp only [hlen, if_true, Except.ok.injEq] at e
          subst e
          exact inPlace _ (fun a ha => mem_take_drop_insert ha) rfl
        · simp [hlen] at e
      | extend =>
        simp only [Except.ok.injEq] at e
        subst e
        exact inPlace _ (fun a ha => by
          rcases List.mem_append.mp ha with h | h
          · exact Or.inr h
          · exact Or.inl h) rfl
      | setitem pos =>
        simp only at e
        match refs, e, inPlace with
        | [a], e, inPlace =>
          simp only at e
          by_cases hp : pos < (w.trigsOf u).length
          · simp only [hp, if_true, Except.ok.injEq] at e
            subst e
            exact inPlace _ (fun b hb => by
              rcases List.mem_or_eq_of_mem_set hb with h | h
              · exact Or.inr h
              · exact Or.inl (by simp [h])) rfl
          · simp [hp] at e
        | [], e, _ => simp at e
        | _ :: _ :: _, e, _ => simp at e
      | iadd =>
        simp only at e
        cases hct : ctor cfg u h0 (w.trigsOf u ++ refs) with
        | none => simp [hct] at e
        | some q =>
          obtain ⟨h2, held⟩ := q
          simp only [hct, Except.ok.injEq] at e
          subst e
          refine viaSetter _ (fun a ha => by
            rcases List.mem_append.mp ha with h | h
            · exact Or.inr h
            · exact Or.inl h) (fun hcf => ?_) h2 held hct
          rcases alt with _ | ⟨_, _, hr, _⟩
          · -- refs = refs0 when no pre-pass ran
            have : refs = refs0 := by
              simp only [hcf, Bool.false_eq_true, if_false, Option.some.injEq, Prod.mk.injEq] at hpre
              exact hpre.2.symm
            rw [this]; rfl
          · rw [hr]; rfl
      | assign =>
        simp only at e
        by_cases hnd : refs0.Nodup
        · simp only [hnd, if_true] at e
          cases hct : ctor cfg u h0 refs with
          | none => simp [hct] at e
          | some q =>
            obtain ⟨h2, held⟩ := q
            simp only [hct, Except.ok.injEq] at e
            subst e
            refine viaSetter _ (fun a ha => Or.inl ha) (fun hcf => ?_) h2 held hct
            have : refs = refs0 := by
              simp only [hcf, Bool.false_eq_true, if_false, Option.some.injEq, Prod.mk.injEq] at hpre
              exact hpre.2.symm
            rw [this]; rfl
        · simp [hnd] at e
  · simp [hv] at e

end Aoe.Heap
