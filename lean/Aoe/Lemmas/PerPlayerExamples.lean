import Aoe.Lemmas.PerPlayerTree
/-!
Concrete states, arguments and result projections used by the non-vacuity `example`s and the `_counter` witness of
`Aoe.Props.C08` (kept out of the Props file, which holds theorems only).
-/
namespace Aoe.PerPlayer

/-- a trigger with a condition, two plain effects and an activation effect -/
def exT0 : Trig :=
  { name := "t0", tid := 0,
    conds := [{ kind := 3, src := some 1, tgt := some (-1), link := 0, rest := 7 }],
    effs := [{ kind := 11, src := some 1, tgt := some 2, link := -1, rest := 1 },
             { kind := 11, src := some 2, tgt := none, link := -1, rest := 2 },
             { kind := 8, src := some (-1), tgt := some 1, link := 1, rest := 3 }] }
def exT1 : Trig :=
  { name := "t1", tid := 1, conds := [],
    effs := [{ kind := 9, src := some 1, tgt := some 1, link := 0, rest := 4 }] }
/-- two triggers linked in a cycle, display order reversed -/
def exS : State := { heap := [exT0, exT1], list := [0, 1], order := [1, 0] }
/-- from player 1, only-from-player, source changes only, effect 1 locked by index, GAIA asked, request 3,1,2 -/
def exA : Args :=
  { frm := 1, flags := { fromOnly := true, incSrc := true, incTgt := false },
    lock := { effIds := [1] }, gaia := true, players := some [3, 1, 2] }
/-- everything enabled, nothing locked, default players -/
def exB : Args :=
  { frm := 1, flags := { fromOnly := false, incSrc := true, incTgt := true }, lock := {}, gaia := false, players := none }

/-- F16 witness: trigger 0 activates *and* deactivates trigger 1 -/
def dupS : State :=
  { heap := [{ name := "A", tid := 0, conds := [],
               effs := [{ kind := 8, src := some (-1), tgt := some (-1), link := 1, rest := 0 },
                        { kind := 9, src := some (-1), tgt := some (-1), link := 1, rest := 0 }] },
             { name := "B", tid := 1, conds := [], effs := [] }],
    list := [0, 1], order := [0, 1] }
def dupA : Args :=
  { frm := 1, flags := { fromOnly := false, incSrc := true, incTgt := false }, lock := {}, gaia := false,
    players := some [2] }

/-- the returned dict of a per-player copy -/
def dictOf (r : Except Err (State × List (Int × Nat))) : Option (List (Int × Nat)) :=
  match r with
  | .ok x => some x.2
  | .error _ => none

/-- conditions and effects of the object at address `x` after a call -/
def compsOf {β : Type} (r : Except Err (State × β)) (x : Nat) : Option (List Comp × List Comp) :=
  match r with
  | .ok y => y.1.heap[x]?.map (fun t => (t.conds, t.effs))
  | .error _ => none

/-- the returned dict of a tree copy -/
def treeDictOf (r : Except Err (State × List (Int × List Nat))) : Option (List (Int × List Nat)) :=
  match r with
  | .ok x => some x.2
  | .error _ => none

/-- the trigger list (addresses) after a call -/
def listOf {β : Type} (r : Except Err (State × β)) : Option (List Nat) :=
  match r with
  | .ok y => some y.1.list
  | .error _ => none

end Aoe.PerPlayer
