import Aoe.Lemmas.Versions
/-!
`creatable` (the cheap, kernel-decidable predicate on a type's merged defaults) implies that the constructor accepts
the defaults: `Effect.__init__` / `Condition.__init__` succeed on the keyword dict `_add_effect` builds when no argument
is supplied.
-/
namespace Aoe.Versions

theorem bindKw_id {sig : Sig} {kw : Dict} (h : ∀ k ∈ dkeys kw, k ∈ sig.initParams) : bindKw sig kw = .ok kw := by
  induction kw with
  | nil => rfl
  | cons p r ih =>
    obtain ⟨k, v⟩ := p
    have hk : memN k sig.initParams = true := memN_iff.2 (h k (by simp [dkeys]))
    have hr := ih (fun x hx => h x (by simp only [dkeys, List.map_cons, List.mem_cons] at hx ⊢; exact Or.inr hx))
    simp [bindKw, hr, hk]

theorem coordAxis_ok {a b : Val} (ha : isInt a = true) (hb : isInt b = true) : ∃ r, coordAxis a b = .ok r := by
  cases a <;> simp [isInt] at ha
  cases b <;> simp [isInt] at hb
  rename_i x y
  unfold coordAxis
  by_cases hc : (valid (.int x) && !valid (.int y)) = true
  · simp only [hc, if_true]
    by_cases hxy : x > x <;> simp [hxy]
  · simp only [hc, Bool.false_eq_true, if_false]
    by_cases hxy : x > y <;> simp [hxy]

theorem coords_ok {kw : Dict} {N : AttrNames} (h1 : isInt (par kw N.x1) = true) (h2 : isInt (par kw N.x2) = true)
    (h3 : isInt (par kw N.y1) = true) (h4 : isInt (par kw N.y2) = true) : ∃ r, coords kw N = .ok r := by
  obtain ⟨a, ha⟩ := coordAxis_ok h1 h2
  obtain ⟨b, hb⟩ := coordAxis_ok h3 h4
  exact ⟨(a, b), by simp [coords, ha, hb]⟩

/-- the quantity default can be handed to the quantity setter: an int is split, `None` and `[]` are left alone -/
def qOK : Val → Bool
  | .int _ => true
  | .none => true
  | .list [] => true
  | _ => false

theorem aaStep_ok (src : Src) (k es : Nat) (cls0 qty0 q0 var0 vref : Val)
    (hv : vref.isNone = true) (hc : cls0.isNone = false) (hq : qOK q0 = true) :
    ∃ r, aaStep src k es cls0 qty0 q0 var0 vref = .ok r := by
  match src with
  | .variable => simp [aaStep, hv]
  | .none => simp [aaStep]
  | .quantity =>
    simp only [aaStep, hc, Bool.and_false, Bool.false_and, Bool.false_eq_true, if_false]
    by_cases hval : (valid cls0 || valid qty0) = true
    · simp [hval]
    · simp only [hval, if_false]
      cases q0 with
      | none => simp
      | int i => simp [splitVal]
      | str s => simp [qOK] at hq
      | list l =>
        cases l with
        | nil => simp
        | cons x xs => simp [qOK] at hq

theorem effectBody_ok {sig : Sig} {N : AttrNames} {f : AAFamily} {k es : Nat} {kw : Dict}
    (hv : (par kw N.variableRef).isNone = true) (hc : (par kw N.aaClass).isNone = false)
    (hq : qOK (par kw N.quantity) = true)
    (h1 : isInt (par kw N.x1) = true) (h2 : isInt (par kw N.x2) = true)
    (h3 : isInt (par kw N.y1) = true) (h4 : isInt (par kw N.y2) = true) :
    ∃ r, effectBody sig N f k es kw = .ok r := by
  obtain ⟨⟨cls, qty, q, var1⟩, ha⟩ := aaStep_ok (source f (par kw sig.typeKey) (par kw N.objectAttributes)) k es
    (par kw N.aaClass) (par kw N.aaQuantity) (par kw N.quantity) (par kw N.varAttr) (par kw N.variableRef) hv hc hq
  obtain ⟨⟨⟨x1, x2⟩, ⟨y1, y2⟩⟩, hcd⟩ := coords_ok h1 h2 h3 h4
  unfold effectBody
  simp only [ha, hcd]
  exact ⟨_, rfl⟩

/-- the keyword dict `_add_effect` builds when nothing is supplied -/
def defaultKw (sig : Sig) (ty : Int) (d : Dict) : Dict := d.map (fun kv => (kv.1, kwValue sig ty [] kv.1 kv.2))

theorem par_defaultKw (sig : Sig) (ty : Int) (d : Dict) (n : Nat) :
    (dget d n = none ∧ par (defaultKw sig ty d) n = .none) ∨
    (∃ dv, dget d n = some dv ∧ (par (defaultKw sig ty d) n = .int ty ∨ par (defaultKw sig ty d) n = dv)) := by
  unfold par defaultKw
  rw [dget_map_val]
  cases h : dget d n with
  | none => exact Or.inl ⟨rfl, rfl⟩
  | some dv =>
    refine Or.inr ⟨dv, rfl, ?_⟩
    simp only [Option.map_some, Option.getD_some, kwValue, argOf, dget]
    cases Nat.beq n sig.typeKey
    · exact Or.inr rfl
    · exact Or.inl rfl

theorem isInt_par_defaultKw {sig : Sig} {ty : Int} {d : Dict} {n : Nat}
    (h : isInt ((dget d n).getD .none) = true) : isInt (par (defaultKw sig ty d) n) = true := by
  rcases par_defaultKw sig ty d n with ⟨h0, -⟩ | ⟨dv, h0, h1 | h1⟩
  · rw [h0] at h; simp [isInt] at h
  · rw [h1]; rfl
  · rw [h1]; rw [h0] at h; simpa using h

theorem notNone_par_defaultKw {sig : Sig} {ty : Int} {d : Dict} {n : Nat}
    (h : ((dget d n).getD .none).isNone = false) : (par (defaultKw sig ty d) n).isNone = false := by
  rcases par_defaultKw sig ty d n with ⟨h0, -⟩ | ⟨dv, h0, h1 | h1⟩
  · rw [h0] at h; simp [Val.isNone] at h
  · rw [h1]; rfl
  · rw [h1]; rw [h0] at h; simpa using h

theorem qOK_par_defaultKw {sig : Sig} {ty : Int} {d : Dict} {n : Nat}
    (h : qOK ((dget d n).getD .none) = true) : qOK (par (defaultKw sig ty d) n) = true := by
  rcases par_defaultKw sig ty d n with ⟨-, h1⟩ | ⟨dv, h0, h1 | h1⟩
  · rw [h1]; rfl
  · rw [h1]; rfl
  · rw [h1]; rw [h0] at h; simpa using h

theorem none_par_defaultKw {sig : Sig} {ty : Int} {d : Dict} {n : Nat} (h : n ∉ dkeys d) :
    (par (defaultKw sig ty d) n).isNone = true := by
  rcases par_defaultKw sig ty d n with ⟨-, h1⟩ | ⟨dv, h0, -⟩
  · rw [h1]; rfl
  · rw [dget_none_iff.2 h] at h0; cases h0

/-- **`creatable` is sound**: if the merged defaults `d` of a type satisfy it (stated on `d` directly), the
constructor accepts the default keyword dict -/
theorem construct_defaults_ok (c : Ctx) (ty : Int) (d : Dict)
    (hinit : ∀ k ∈ dkeys d, k ∈ c.sig.initParams)
    (hvr : c.names.variableRef ∉ dkeys d)
    (hint : c.sig.intRequired.all (fun n => isInt ((dget d n).getD .none)) = true)
    (hx1 : isInt ((dget d c.names.x1).getD .none) = true) (hx2 : isInt ((dget d c.names.x2).getD .none) = true)
    (hy1 : isInt ((dget d c.names.y1).getD .none) = true) (hy2 : isInt ((dget d c.names.y2).getD .none) = true)
    (heff : c.isEffect = true → ((dget d c.names.aaClass).getD .none).isNone = false ∧
                                  qOK ((dget d c.names.quantity).getD .none) = true) :
    ∃ o, construct c (defaultKw c.sig ty d) = .ok o := by
  have hb : bindKw c.sig (defaultKw c.sig ty d) = .ok (defaultKw c.sig ty d) :=
    bindKw_id (by rw [defaultKw, dkeys_map_val]; exact hinit)
  have hi : c.sig.intRequired.all (fun n => isInt (par (defaultKw c.sig ty d) n)) = true := by
    rw [List.all_eq_true] at hint ⊢
    exact fun n hn => isInt_par_defaultKw (hint n hn)
  have X1 := isInt_par_defaultKw (sig := c.sig) (ty := ty) hx1
  have X2 := isInt_par_defaultKw (sig := c.sig) (ty := ty) hx2
  have Y1 := isInt_par_defaultKw (sig := c.sig) (ty := ty) hy1
  have Y2 := isInt_par_defaultKw (sig := c.sig) (ty := ty) hy2
  unfold construct
  by_cases he : c.isEffect = true
  · obtain ⟨hc, hq⟩ := heff he
    obtain ⟨r, hr⟩ := effectBody_ok (sig := c.sig) (N := c.names) (f := c.fam) (k := c.width) (es := c.emptyStr)
      (kw := defaultKw c.sig ty d) (none_par_defaultKw hvr) (notNone_par_defaultKw hc) (qOK_par_defaultKw hq) X1 X2 Y1 Y2
    simp only [he, if_true, effectInit, hb, hi, Bool.not_true, Bool.false_eq_true, if_false, hr]
    exact ⟨_, rfl⟩
  · obtain ⟨⟨⟨x1, x2⟩, ⟨y1, y2⟩⟩, hcd⟩ := coords_ok X1 X2 Y1 Y2
    simp only [he, if_false, condInit, hb, hi, Bool.not_true, Bool.false_eq_true, hcd]
    exact ⟨_, rfl⟩

end Aoe.Versions

namespace Aoe.Versions

theorem dget_filter_pred (d : Dict) (P : Nat × Val → Bool) (k : Nat) (hk : ∀ v, P (k, v) = true) :
    dget (d.filter P) k = dget d k := by
  induction d with
  | nil => rfl
  | cons a r ih =>
    obtain ⟨k', v⟩ := a
    by_cases hp : P (k', v) = true
    · simp only [List.filter_cons, hp, if_true, dget_cons, ih]
    · have hne : ¬ k' = k := fun e => hp (e ▸ hk v)
      simp only [List.filter_cons, hp, Bool.false_eq_true, if_false, dget_cons, ih, hne]

theorem dget_map_fix (d : Dict) (g : Nat × Val → Nat × Val) (k : Nat) (h1 : ∀ kv, (g kv).1 = kv.1)
    (h2 : ∀ v, (g (k, v)).2 = v) : dget (d.map g) k = dget d k := by
  induction d with
  | nil => rfl
  | cons a r ih =>
    obtain ⟨k', v⟩ := a
    have e : g (k', v) = ((g (k', v)).1, (g (k', v)).2) := rfl
    rw [List.map_cons, e, dget_cons, dget_cons, ih, h1]
    by_cases hk : k' = k
    · subst hk; simp [h2]
    · simp [hk]

/-- the attribute names the constructors may rewrite (everything else is stored as handed over) -/
def special (N : AttrNames) : List Nat :=
  [N.selectedIds, N.aaClass, N.aaQuantity, N.quantity, N.varAttr, N.x1, N.x2, N.y1, N.y2, N.locRef,
   N.itemId, N.legacyLoc, N.variableRef]

/-- **the constructors store every ordinary argument unchanged**: an attribute that is not one of the few the
constructor normalises (`special`: selected ids, the armour/attack group, the area corners, the location reference
and the three pseudo attributes) reads back exactly the value of the keyword dict -/
theorem construct_other_attrs {c : Ctx} {kw o : Dict} (hinit : ∀ k ∈ dkeys kw, k ∈ c.sig.initParams)
    (h : construct c kw = .ok o) {k : Nat} (hk : k ∉ special c.names) : dget o k = dget kw k := by
  have hb : bindKw c.sig kw = .ok kw := bindKw_id hinit
  simp only [special, List.mem_cons, List.mem_nil_iff, or_false, not_or] at hk
  obtain ⟨k1, k2, k3, k4, k5, k6, k7, k8, k9, k10, k11, k12, k13⟩ := hk
  unfold construct at h
  by_cases he : c.isEffect = true
  · simp only [he, if_true] at h
    cases hi : effectInit c.sig c.names c.fam c.width c.emptyStr kw with
    | error e => simp [hi] at h
    | ok r =>
      simp only [hi, Except.ok.injEq] at h
      subst h
      simp only [effectInit, hb] at hi
      by_cases hint : (!c.sig.intRequired.all (fun n => isInt (par kw n))) = true
      · simp [hint] at hi
      · simp only [hint, Bool.false_eq_true, if_false] at hi
        simp only [effectBody] at hi
        cases ha : aaStep (source c.fam (par kw c.sig.typeKey) (par kw c.names.objectAttributes)) c.width c.emptyStr
            (par kw c.names.aaClass) (par kw c.names.aaQuantity) (par kw c.names.quantity) (par kw c.names.varAttr)
            (par kw c.names.variableRef) with
        | error e => simp [ha] at hi
        | ok q4 =>
          obtain ⟨cls, qty, q, var1⟩ := q4
          simp only [ha] at hi
          cases hc : coords kw c.names with
          | error e => simp [hc] at hi
          | ok cc =>
            obtain ⟨⟨x1, x2⟩, ⟨y1, y2⟩⟩ := cc
            simp only [hc, Except.ok.injEq] at hi
            subst hi
            unfold effectObs
            rw [dget_filter_pred _ _ k (by intro v; simp [nbeq_eq_decide, k11, k12, k13, k4])]
            exact dget_map_fix _ _ _ (fun _ => rfl)
              (by intro v; simp [nbeq_eq_decide, k1, k2, k3, k4, k5, k6, k7, k8, k9, k10])
  · simp only [he, Bool.false_eq_true, if_false, condInit, hb] at h
    by_cases hint : (!c.sig.intRequired.all (fun n => isInt (par kw n))) = true
    · simp [hint] at h
    · simp only [hint, Bool.false_eq_true, if_false] at h
      cases hc : coords kw c.names with
      | error e => simp [hc] at h
      | ok cc =>
        obtain ⟨⟨x1, x2⟩, ⟨y1, y2⟩⟩ := cc
        simp only [hc, Except.ok.injEq] at h
        subst h
        exact dget_map_fix _ _ _ (fun _ => rfl) (by intro v; simp [nbeq_eq_decide, k6, k7, k8, k9])

/-- an ordered pair of set coordinates passes `validate_coords` unchanged -/
theorem coordAxis_id {x y : Int} (hxy : x ≤ y) (hfill : ¬ (x ≠ -1 ∧ y = -1)) :
    coordAxis (.int x) (.int y) = .ok (.int x, .int y) := by
  unfold coordAxis
  have h1 : (valid (.int x) && !valid (.int y)) = false := by
    simp only [valid, ibeq_eq_decide, Bool.and_eq_false_imp, Bool.not_eq_true', decide_eq_false_iff_not,
      Bool.not_eq_false', decide_eq_true_eq, Bool.not_not]
    intro hx
    by_cases hy : y = -1
    · exact absurd ⟨hx, hy⟩ hfill
    · simpa using hy
  have h2 : ¬ x > y := by omega
  simp [h1, h2]

end Aoe.Versions
