import Aoe.Lemmas.TrigOrder
/-!
Helper lemmas for C06/C07, part 2: the invariant, the lazy display order, dictionaries, `pick`, and the common
"renumber the surviving triggers and retarget the activation effects through a dict" step (`rebuild`) that
`reorder_triggers` and `remove_triggers` share.
-/
namespace Aoe.Trig
open List

/-! ### specification vocabulary -/

/-- identity of the trigger at list position `i` -/
def uidAt (tm : TM) (i : Nat) : Option Nat := (tm.trigs[i]?).map (·.uid)

/-- the trigger (identity) an effect designates: `none` when unset (-1) or dangling -/
def ref (tm : TM) (e : Eff) : Option Nat := e.target.bind (uidAt tm)

/-- the invariant of C06 (first two clauses) plus the ghost bookkeeping -/
structure Inv (tm : TM) : Prop where
  /-- every trigger's id equals its position -/
  ids : ∀ (i : Nat) (t : Trig), tm.trigs[i]? = some t → t.tid = i
  /-- the stored display order is a permutation of `range m`; `m` is the current length unless the list changed
  since the last hashing (then the getter resynchronises) -/
  order : ∃ m, IsPerm tm.order m ∧ (tm.hashed = uids tm → m = tm.trigs.length)
  uniq : (uids tm).Nodup
  fresh : ∀ u ∈ uids tm, u < tm.next
  hfresh : ∀ u ∈ tm.hashed, u < tm.next

theorem uids_length (tm : TM) : (uids tm).length = tm.trigs.length := by simp [uids]

theorem uidAt_eq_getElem? (tm : TM) (i : Nat) : uidAt tm i = (uids tm)[i]? := by simp [uidAt, uids]

theorem uidAt_lt {tm : TM} {i u : Nat} (h : uidAt tm i = some u) : i < tm.trigs.length := by
  unfold uidAt at h
  cases hg : tm.trigs[i]? with
  | none => simp [hg] at h
  | some t => exact (List.getElem?_eq_some_iff.1 hg).1

theorem uidAt_mem {tm : TM} {i u : Nat} (h : uidAt tm i = some u) : u ∈ uids tm := by
  rw [uidAt_eq_getElem?] at h
  exact mem_of_getElem? h

/-- positions are determined by identities -/
theorem uidAt_inj {tm : TM} (hn : (uids tm).Nodup) {i j u : Nat} (hi : uidAt tm i = some u) (hj : uidAt tm j = some u) :
    i = j := by
  rw [uidAt_eq_getElem?] at hi hj
  obtain ⟨h1, _⟩ := List.getElem?_eq_some_iff.1 hi
  exact (List.getElem?_inj h1 hn).1 (hi.trans hj.symm)

/-! ### the display order getter -/

theorem readOrder_perm {tm : TM} (h : IsPerm tm.order tm.trigs.length) :
    readOrder tm = .ok { tm with hashed := uids tm } := by
  unfold readOrder
  by_cases hh : tm.hashed = uids tm
  · have : ({ tm with hashed := uids tm } : TM) = tm := by rw [← hh]
    rw [this, if_pos hh]
  · obtain ⟨o', ho', _, hsame⟩ := updateOrderArray_isPerm h tm.trigs.length
    simp [hh, ho', hsame rfl]

/-- under the invariant the getter never raises and yields a permutation of all current ids -/
theorem readOrder_inv {tm : TM} (h : Inv tm) :
    ∃ o, readOrder tm = .ok { tm with order := o, hashed := uids tm } ∧ IsPerm o tm.trigs.length ∧
      (IsPerm tm.order tm.trigs.length → o = tm.order) := by
  obtain ⟨m, hm, hmn⟩ := h.order
  unfold readOrder
  by_cases hh : tm.hashed = uids tm
  · refine ⟨tm.order, ?_, hmn hh ▸ hm, fun _ => rfl⟩
    have : ({ tm with order := tm.order, hashed := uids tm } : TM) = tm := by rw [← hh]
    rw [this, if_pos hh]
  · obtain ⟨o', ho', hp, hsame⟩ := updateOrderArray_isPerm hm tm.trigs.length
    refine ⟨o', by simp [hh, ho'], hp, fun hp' => hsame (hm.unique hp')⟩

/-- the synchronised state is again in the invariant -/
theorem Inv.synced {tm : TM} (h : Inv tm) {o : List Nat} (ho : IsPerm o tm.trigs.length) :
    Inv { tm with order := o, hashed := uids tm } :=
  { ids := h.ids
    order := ⟨_, ho, fun _ => rfl⟩
    uniq := h.uniq
    fresh := h.fresh
    hfresh := h.fresh }

/-! ### dictionaries -/

theorem lookupLast_changesFrom : ∀ {ts : List Trig} {j0 k : Nat}, (ts.map (·.tid)).Nodup →
    lookupLast (changesFrom j0 ts) k = if k ∈ ts.map (·.tid) then some (j0 + (ts.map (·.tid)).idxOf k) else none
  | [], _, _, _ => by simp [changesFrom, lookupLast]
  | t :: ts, j0, k, h => by
    rw [map_cons, nodup_cons] at h
    simp only [changesFrom, lookupLast, lookupLast_changesFrom (j0 := j0 + 1) (k := k) h.2, map_cons, mem_cons]
    by_cases hk : k ∈ ts.map (·.tid)
    · have hne : t.tid ≠ k := fun e => h.1 (e ▸ hk)
      have hne' : k ≠ t.tid := fun e => hne e.symm
      simp only [hk, if_true, or_true, idxOf_cons]
      have : (t.tid == k) = false := by simpa using hne
      simp [this]; omega
    · simp only [hk, if_false, or_false]
      by_cases e : t.tid = k
      · subst e; simp
      · have e' : k ≠ t.tid := fun x => e x.symm
        simp [e, e']

theorem lookupLast_cons (a b : Nat) (r : List (Nat × Nat)) (k : Nat) :
    lookupLast ((a, b) :: r) k =
      match lookupLast r k with
      | some v => some v
      | none => if a = k then some b else none := rfl

theorem lookupLast_changesMoved : ∀ {ts : List Trig} {j0 k : Nat}, (ts.map (·.tid)).Nodup →
    lookupLast (changesMoved j0 ts) k =
      if k ∈ ts.map (·.tid) ∧ j0 + (ts.map (·.tid)).idxOf k ≠ k then some (j0 + (ts.map (·.tid)).idxOf k) else none
  | [], _, _, _ => by simp [changesMoved, lookupLast]
  | t :: ts, j0, k, h => by
    rw [map_cons, nodup_cons] at h
    have ih := lookupLast_changesMoved (j0 := j0 + 1) (k := k) h.2
    have hstep : lookupLast (changesMoved j0 (t :: ts)) k =
        match lookupLast (changesMoved (j0 + 1) ts) k with
        | some v => some v
        | none => if j0 ≠ t.tid ∧ t.tid = k then some j0 else none := by
      simp only [changesMoved]
      by_cases hj : j0 ≠ t.tid
      · simp only [hj, if_true, lookupLast_cons, true_and, ne_eq, not_false_eq_true]
      · simp only [hj, if_false, false_and]
        cases lookupLast (changesMoved (j0 + 1) ts) k <;> rfl
    rw [hstep, ih]
    by_cases hk : k ∈ ts.map (·.tid)
    · have hne : t.tid ≠ k := fun e => h.1 (e ▸ hk)
      have hb : (t.tid == k) = false := by simpa using hne
      have hidx : (t.tid :: ts.map (·.tid)).idxOf k = (ts.map (·.tid)).idxOf k + 1 := by
        simp [idxOf_cons, hb]
      have e1 : j0 + 1 + (ts.map (·.tid)).idxOf k = j0 + ((ts.map (·.tid)).idxOf k + 1) := by omega
      rw [map_cons, hidx, ← e1]
      by_cases hm : j0 + 1 + (ts.map (·.tid)).idxOf k = k
      · simp [hk, hm, hne]
      · simp [hk, hm]
    · by_cases e : t.tid = k
      · subst e
        by_cases hj : j0 = t.tid
        · simp [hk, hj]
        · simp [hk, hj]
      · have e' : k ≠ t.tid := fun x => e x.symm
        simp [hk, e, e']

/-! ### `pick`, `renumFrom`, `rebuild` -/

theorem pick_map_some : ∀ {trigs : List Trig} {o : List Nat} {p : List Trig}, pick trigs o = .ok p →
    p.map some = o.map (fun i => trigs[i]?)
  | _, [], p, h => by simp [pick] at h; subst h; rfl
  | trigs, i :: o, p, h => by
    simp only [pick] at h
    cases hi : trigs[i]? with
    | none => simp [hi] at h
    | some t =>
      cases hr : pick trigs o with
      | error e => simp [hi, hr] at h
      | ok r =>
        simp [hi, hr] at h
        subst h
        simp [hi, pick_map_some hr]

theorem pick_ok : ∀ {trigs : List Trig} {o : List Nat}, (∀ i ∈ o, i < trigs.length) → ∃ p, pick trigs o = .ok p
  | _, [], _ => ⟨[], rfl⟩
  | trigs, i :: o, h => by
    have hi : i < trigs.length := h i (by simp)
    obtain ⟨p, hp⟩ := pick_ok (trigs := trigs) (o := o) (fun j hj => h j (by simp [hj]))
    exact ⟨trigs[i] :: p, by simp [pick, getElem?_eq_getElem hi, hp]⟩

theorem pick_length {trigs : List Trig} {o : List Nat} {p : List Trig} (h : pick trigs o = .ok p) : p.length = o.length := by
  have := congrArg List.length (pick_map_some h)
  simpa using this

theorem pick_getElem? {trigs : List Trig} {o : List Nat} {p : List Trig} (h : pick trigs o = .ok p) (j : Nat) :
    p[j]? = (o[j]?).bind (fun i => trigs[i]?) := by
  have := congrArg (fun l => l[j]?) (pick_map_some h)
  simp only [getElem?_map] at this
  cases hp : p[j]? with
  | none => cases ho : o[j]? with
    | none => rfl
    | some i => simp [hp, ho] at this
  | some t => cases ho : o[j]? with
    | none => simp [hp, ho] at this
    | some i => simp [hp, ho] at this; simp [this]

theorem pick_error_of_invalid {trigs : List Trig} {o : List Nat} {i : Nat} (hi : i ∈ o) (hn : trigs.length ≤ i) :
    ∃ e, pick trigs o = .error e := by
  cases h : pick trigs o with
  | error e => exact ⟨e, rfl⟩
  | ok p =>
    obtain ⟨j, hj, rfl⟩ := getElem_of_mem hi
    have := pick_getElem? h j
    have hl := pick_length h
    have hpj : p[j]? = some p[j] := getElem?_eq_getElem (by omega)
    rw [hpj, getElem?_eq_getElem hj] at this
    simp [getElem?_eq_none hn] at this

theorem renumFrom_getElem? : ∀ {ts : List Trig} {j0 j : Nat},
    (renumFrom j0 ts)[j]? = (ts[j]?).map (fun t => { t with tid := j0 + j })
  | [], _, _ => by simp [renumFrom]
  | t :: ts, j0, 0 => by simp [renumFrom]
  | t :: ts, j0, j + 1 => by
    simp only [renumFrom, getElem?_cons_succ, renumFrom_getElem? (ts := ts)]
    congr; funext t; congr 1; omega

/-- renumber in list order, apply `g` to every effect -/
def rebuild (g : Eff → Eff) (ts : List Trig) : List Trig :=
  (renumFrom 0 ts).map (fun t => { t with effs := t.effs.map g })

theorem rebuild_getElem? (g : Eff → Eff) (ts : List Trig) (j : Nat) :
    (rebuild g ts)[j]? = (ts[j]?).map (fun t => ⟨t.uid, j, t.effs.map g⟩) := by
  simp only [rebuild, getElem?_map, renumFrom_getElem?, Option.map_map]
  congr; funext t; simp

theorem rebuild_length (g : Eff → Eff) (ts : List Trig) : (rebuild g ts).length = ts.length := by
  have : ∀ {ts : List Trig} {j0 : Nat}, (renumFrom j0 ts).length = ts.length := by
    intro ts; induction ts with
    | nil => intro _; rfl
    | cons t ts ih => intro j0; simp [renumFrom, ih]
  simp [rebuild, this]

theorem rebuild_uids (g : Eff → Eff) (ts : List Trig) : (rebuild g ts).map (·.uid) = ts.map (·.uid) := by
  apply ext_getElem?
  intro j
  simp only [getElem?_map, rebuild_getElem?, Option.map_map]
  rfl

theorem remapTrig_map (d : List (Nat × Nat)) (ts : List Trig) :
    (renumFrom 0 ts).map (remapTrig d) = rebuild (remapEff d) ts := rfl

end Aoe.Trig
