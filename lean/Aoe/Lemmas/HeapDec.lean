import Aoe.Lemmas.HeapImport
/-!
C09: `Safe` is decidable (so that concrete safe histories can be exhibited by evaluation).
-/
namespace Aoe.Heap

def notForeignB (w : World) (u : Uid) (a : Addr) : Bool :=
  match w.heap.trigs[a]? with
  | none => true
  | some t => decide (t.uuid = u) || !(w.trigsOf t.uuid).contains a

theorem notForeignB_iff (w : World) (u : Uid) (a : Addr) : notForeignB w u a = true ↔ NotForeign w u a := by
  unfold notForeignB NotForeign
  cases h : w.heap.trigs[a]? <;> simp

def firstForeignB (h : Heap) (u : Uid) (seq : List Addr) : Bool :=
  match seq with
  | [] => false
  | a0 :: _ =>
    match h.trigs[a0]? with
    | none => false
    | some t => isForeign u t

theorem firstForeignB_iff (h : Heap) (u : Uid) (seq : List Addr) : firstForeignB h u seq = true ↔ FirstForeign h u seq := by
  unfold firstForeignB FirstForeign
  cases seq with
  | nil => simp
  | cons a0 rest =>
    cases ht : h.trigs[a0]? with
    | none =>
      simp only [ht, Bool.false_eq_true, false_iff]
      rintro ⟨b0, r, t0, e, h0, _⟩
      simp only [List.cons.injEq] at e; obtain ⟨rfl, _⟩ := e
      rw [ht] at h0; simp at h0
    | some t =>
      simp only [ht]
      constructor
      · intro c; exact ⟨a0, rest, t, rfl, ht, c⟩
      · rintro ⟨b0, r, t0, e, h0, f⟩
        simp only [List.cons.injEq] at e; obtain ⟨rfl, _⟩ := e
        rw [ht] at h0; simp at h0; subst h0; exact f

def setterForeignB (w : World) (u : Uid) (how : How) (refs : List Addr) : Bool :=
  match how.seq (w.trigsOf u) refs with
  | none => false
  | some seq => firstForeignB w.heap u seq

theorem setterForeignB_iff (w : World) (u : Uid) (how : How) (refs : List Addr) :
    setterForeignB w u how refs = true ↔ ∃ seq, how.seq (w.trigsOf u) refs = some seq ∧ FirstForeign w.heap u seq := by
  unfold setterForeignB
  cases hs : how.seq (w.trigsOf u) refs <;> simp [firstForeignB_iff]

def listOwnedB (w : World) (u : Uid) (i : Nat) : Bool :=
  match (w.trigsOf u)[i]? with
  | none => true
  | some a =>
    match w.heap.trigs[a]? with
    | none => true
    | some t => decide (t.compsU = u)

theorem listOwnedB_iff (w : World) (u : Uid) (i : Nat) : listOwnedB w u i = true ↔
    ∀ (a : Addr) (t : Trig), (w.trigsOf u)[i]? = some a → w.heap.trigs[a]? = some t → t.compsU = u := by
  unfold listOwnedB
  cases hk : (w.trigsOf u)[i]? with
  | none => simp
  | some a0 =>
    cases ht : w.heap.trigs[a0]? with
    | none =>
      simp only [ht, true_iff]
      intro a t e h'; cases e; rw [ht] at h'; simp at h'
    | some t0 =>
      simp only [ht, decide_eq_true_eq]
      constructor
      · intro c a t e h'; cases e; rw [ht] at h'; cases h'; exact c
      · intro f; exact f a0 t0 rfl ht

def safeB (cfg : Cfg) (w : World) : Op → Bool
  | .adopt u how refs cf => cf || refs.all (notForeignB w u) || setterForeignB w u how refs
  | .addComp u i _ _ _ => cfg.fixNested || listOwnedB w u i
  | _ => true

theorem safeB_iff (cfg : Cfg) (w : World) (op : Op) : safeB cfg w op = true ↔ Safe cfg w op := by
  cases op <;> simp only [safeB, Safe, Bool.or_eq_true, List.all_eq_true, notForeignB_iff, setterForeignB_iff,
    listOwnedB_iff, or_assoc]

instance (cfg : Cfg) (w : World) (op : Op) : Decidable (Safe cfg w op) := decidable_of_iff _ (safeB_iff cfg w op)

end Aoe.Heap
