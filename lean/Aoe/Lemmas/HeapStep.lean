import Aoe.Lemmas.HeapCopy
/-!
Every operation of the heap model keeps the invariant (C09), provided it is `Safe`: the three inputs on which the
pinned code is known to break the property are excluded unless the corresponding repair is switched on.
-/
namespace Aoe.Heap

/-- `a` is not held by a scenario other than `u` (stated through the stamp, hence decidable) -/
def NotForeign (w : World) (u : Uid) (a : Addr) : Prop :=
  ∀ (t : Trig), w.heap.trigs[a]? = some t → t.uuid = u ∨ a ∉ w.trigsOf t.uuid

/-- the sequence handed to the `triggers` setter -/
def How.seq (how : How) (l refs : List Addr) : Option (List Addr) :=
  match how with
  | .iadd => some (l ++ refs)
  | .assign => some refs
  | _ => none

/-- the `UuidList` constructor will deep-copy the whole sequence -/
def FirstForeign (h : Heap) (u : Uid) (seq : List Addr) : Prop :=
  ∃ (a0 : Addr) (rest : List Addr) (t0 : Trig), seq = a0 :: rest ∧ h.trigs[a0]? = some t0 ∧ isForeign u t0 = true

/-- inputs on which an operation keeps the invariant: foreign objects are adopted only as copies (by the caller,
`copyFirst`, or by the constructor's own first-entry rule), and – without the F17 repair – components are only
added to triggers whose nested lists carry the owner's stamp -/
def Safe (cfg : Cfg) (w : World) : Op → Prop
  | .adopt u how refs cf =>
    cf = true ∨ (∀ a ∈ refs, NotForeign w u a) ∨ (∃ seq, how.seq (w.trigsOf u) refs = some seq ∧ FirstForeign w.heap u seq)
  | .addComp u i _ _ _ =>
    cfg.fixNested = true ∨
      ∀ (a : Addr) (t : Trig), (w.trigsOf u)[i]? = some a → w.heap.trigs[a]? = some t → t.compsU = u
  | _ => True

theorem setFn_self {β : Type} (f : Uid → β) (u : Uid) : setFn f u (f u) = f := by
  funext x; by_cases h : x = u <;> simp [setFn, h]

theorem NotForeign.free {w : World} (i : Inv0 w) {u : Uid} {a : Addr} (ha : a < w.heap.trigs.length)
    (nf : NotForeign w u a) : ∀ v, v ≠ u → a ∉ w.trigsOf v := by
  intro v hv hm
  have ht := List.getElem?_eq_getElem ha
  have h1 := (i.owned v a hm _ ht).1
  rcases nf _ ht with h2 | h2
  · exact hv (h1.symm.trans h2)
  · rw [h1] at h2; exact h2 hm

/-- an entry whose stamp is `u` or `NO_UUID` is held by nobody else -/
theorem free_of_not_isForeign {w : World} (i : Inv0 w) {u : Uid} {a : Addr} {t : Trig}
    (ht : w.heap.trigs[a]? = some t) (nf : isForeign u t = false) : ∀ v, v ≠ u → a ∉ w.trigsOf v := by
  intro v hv hm
  have h1 := (i.owned v a hm t ht).1
  simp only [isForeign, Bool.and_eq_false_iff, bne_eq_false_iff_eq] at nf
  rcases nf with h2 | h2
  · exact hv (h1.symm.trans h2)
  · rw [h1] at h2
    rw [h2, i.anon] at hm
    simp at hm

/-- a fresh address is held by nobody -/
theorem free_of_fresh {w : World} (i : Inv0 w) {a : Addr} (ha : w.heap.trigs.length ≤ a) : ∀ v, a ∉ w.trigsOf v := by
  intro v hm
  have := i.swf v a hm
  omega

/-! ## normal form of the adopting operations: extend by fresh cells, stamp a free set, replace `u`'s list -/

theorem mapAt_false {α : Type} (p : Nat → Bool) (f : α → α) (hp : ∀ i, p i = false) : ∀ (l : List α) (i : Nat), mapAt p f i l = l
  | [], _ => rfl
  | x :: xs, i => by simp [mapAt, hp, mapAt_false p f hp xs (i + 1)]

theorem stampTrigs_nil (cfg : Cfg) (u : Uid) (h : Heap) : stampTrigs cfg u [] h = h := by
  simp [stampTrigs, mapAt_false]

/-- what the outcome agrees on with the state before, from the point of view of scenario `v` -/
structure Agree (w w' : World) (v : Uid) : Prop where
  list : w'.trigsOf v = w.trigsOf v
  trigs : ∀ a ∈ w.trigsOf v, w'.heap.trigs[a]? = w.heap.trigs[a]?
  comps : ∀ a ∈ w.trigsOf v, ∀ c ∈ compsOf w.heap a, w'.heap.comps[c]? = w.heap.comps[c]?
  live : w'.live = w.live

theorem Agree.refl (w : World) (v : Uid) : Agree w w v := ⟨rfl, fun _ _ => rfl, fun _ _ _ _ => rfl, rfl⟩

def StampNF (cfg : Cfg) (w w' : World) (u : Uid) : Prop :=
  ∃ (h1 : Heap) (S l' : List Addr), Ext w.heap h1 ∧ HWF h1 ∧ Sep h1 ∧ (∀ a ∈ S, a < h1.trigs.length) ∧
    (∀ a ∈ S, ∀ v, v ≠ u → a ∉ w.trigsOf v) ∧ (∀ a ∈ l', a ∈ S ∨ a ∈ w.trigsOf u) ∧
    w' = { w with heap := stampTrigs cfg u S h1, trigsOf := setFn w.trigsOf u l' }

theorem StampNF.inv {cfg : Cfg} {w w' : World} {u : Uid} (nf : StampNF cfg w w' u) (i : Inv cfg w) (hu : u ≠ noUuid) :
    Inv cfg w' := by
  obtain ⟨h1, S, l', ex, w1, s1, valid, free, from_, rfl⟩ := nf
  have i1 : Inv0 { w with heap := h1 } := i.1.ext ex w1 s1
  exact ⟨i1.stamp cfg u hu S l' valid free from_, fun hn => ((i.2 hn).ext i.1 ex).stamp cfg hn u S l' free from_⟩

theorem StampNF.agree {cfg : Cfg} {w w' : World} {u : Uid} (nf : StampNF cfg w w' u) (i : Inv0 w) {v : Uid} (hv : v ≠ u) :
    Agree w w' v := by
  obtain ⟨h1, S, l', ex, w1, s1, valid, free, _, rfl⟩ := nf
  refine ⟨setFn_other _ _ _ _ hv, ?_, ?_, rfl⟩
  · intro a ha
    have hS : a ∉ S := fun hS => free a hS v hv ha
    have hlt := i.swf v a ha
    show (stampTrigs cfg u S h1).trigs[a]? = _
    rw [stampTrigs_trig, ex.trigs_lt hlt]
    simp [hS]
  · intro a ha c hc
    have hS : a ∉ S := fun hS => free a hS v hv ha
    have hlt := i.swf v a ha
    have ht := List.getElem?_eq_getElem hlt
    have hcm := (mem_compsOf ht).mp hc
    have hclt := i.hwf a _ ht c hcm
    show (stampTrigs cfg u S h1).comps[c]? = _
    rw [stampTrigs_comp, ex.comps_lt hclt]
    have hm : c ∉ S.flatMap (compsOf h1) := by
      intro hm
      obtain ⟨b, hb, hcb⟩ := List.mem_flatMap.mp hm
      have hbl := valid b hb
      have hne : a ≠ b := fun e => hS (e ▸ hb)
      have := s1 a b _ _ hne (ex.trigs a _ ht) (List.getElem?_eq_getElem hbl) c hcm
      exact this ((mem_compsOf (List.getElem?_eq_getElem hbl)).mp hcb)
    simp [hm]

/-! ## the `triggers` setter -/

theorem ctor_nf {w : World} (i : Inv0 w) (cfg : Cfg) (u : Uid) (seq : List Addr)
    (valid : ∀ a ∈ seq, a < w.heap.trigs.length)
    (ok : FirstForeign w.heap u seq ∨ ∀ a ∈ seq, ∀ v, v ≠ u → a ∉ w.trigsOf v)
    {h2 : Heap} {held : List Addr} (hc : ctor cfg u w.heap seq = some (h2, held)) :
    StampNF cfg w { w with heap := h2, trigsOf := setFn w.trigsOf u held } u := by
  cases seq with
  | nil =>
    simp only [ctor, Option.some.injEq, Prod.mk.injEq] at hc
    obtain ⟨rfl, rfl⟩ := hc
    exact ⟨w.heap, [], [], Ext.refl _, i.hwf, i.sep, by simp, by simp, by simp, by rw [stampTrigs_nil]⟩
  | cons a0 rest =>
    have ha0 := valid a0 (by simp)
    simp only [ctor, List.getElem?_eq_getElem ha0] at hc
    by_cases hf : isForeign u w.heap.trigs[a0] = true
    · simp only [hf, if_true] at hc
      cases hcp : copyTrigs (fun _ t => t) id 0 w.heap (a0 :: rest) with
      | none => simp [hcp] at hc
      | some p =>
        obtain ⟨h1, seq1⟩ := p
        simp only [hcp, Option.some.injEq, Prod.mk.injEq] at hc
        obtain ⟨rfl, rfl⟩ := hc
        obtain ⟨e, w1, s1, hr, hl⟩ := copyTrigs_inv _ _ _ _ _ _ _ hcp i.hwf i.sep
        have hfresh : ∀ a ∈ seq1, w.heap.trigs.length ≤ a ∧ a < h1.trigs.length := by
          intro a ha; rw [hr] at ha
          have := List.mem_range'_1.mp ha
          omega
        have free : ∀ a ∈ seq1, ∀ v, v ≠ u → a ∉ w.trigsOf v :=
          fun a ha v _ => free_of_fresh i (hfresh a ha).1 v
        exact ⟨h1, seq1, seq1, e, w1, s1, fun a ha => (hfresh a ha).2, free, fun a ha => Or.inl ha, rfl⟩
    · have hf' : isForeign u w.heap.trigs[a0] = false := by simpa using hf
      simp only [hf', Bool.false_eq_true, if_false, Option.some.injEq, Prod.mk.injEq] at hc
      obtain ⟨rfl, rfl⟩ := hc
      have free : ∀ a ∈ a0 :: rest, ∀ v, v ≠ u → a ∉ w.trigsOf v := by
        rcases ok with ⟨b0, r0, t0, e, ht0, hff⟩ | ok
        · exfalso
          simp only [List.cons.injEq] at e
          obtain ⟨rfl, _⟩ := e
          rw [List.getElem?_eq_getElem ha0] at ht0
          simp only [Option.some.injEq] at ht0
          rw [ht0, hff] at hf'
          exact Bool.noConfusion hf'
        · exact ok
      exact ⟨w.heap, _, _, Ext.refl _, i.hwf, i.sep, valid, free, fun a ha => Or.inl ha, rfl⟩

/-- the same after a preliminary extension of the heap -/
theorem StampNF.of_ext {cfg : Cfg} {w : World} {h0 : Heap} {w' : World} {u : Uid} (ex : Ext w.heap h0)
    (nf : StampNF cfg { w with heap := h0 } w' u) : StampNF cfg w w' u := by
  obtain ⟨h1, S, l', ex1, w1, s1, valid, free, from_, e⟩ := nf
  exact ⟨h1, S, l', ex.trans ex1, w1, s1, valid, free, from_, e⟩

/-! ## operations that only write payload -/

theorem editTrig_skel {h h' : Heap} {a : Addr} {v : Int} (e : editTrig h a v = .ok h') : Skel h h' := by
  unfold editTrig at e
  cases ht : h.trigs[a]? with
  | none => simp [ht] at e
  | some t =>
    simp only [ht, Except.ok.injEq] at e
    subst e
    exact Skel.setTrig h a t _ ht rfl rfl rfl

theorem editComp_skel {h h' : Heap} {c : Addr} {f : CField} {v : Int} (e : editComp h c f v = .ok h') : Skel h h' := by
  unfold editComp at e
  cases hc : h.comps[c]? with
  | none => simp [hc] at e
  | some co =>
    simp only [hc, Except.ok.injEq] at e
    subst e
    exact Skel.setComp h c co _ hc (by cases f <;> rfl)

theorem Inv.skel_same {cfg : Cfg} {w : World} (i : Inv cfg w) {h' : Heap} (s : Skel w.heap h') :
    Inv cfg { w with heap := h' } := by
  have e : ({ w with heap := h' } : World) = { w with heap := h', trigsOf := setFn w.trigsOf 0 (w.trigsOf 0) } := by
    rw [setFn_self]
  rw [e]
  exact ⟨i.1.skel s 0 _ (fun _ h => h), fun hn => (i.2 hn).skel s 0 _ (fun _ h => h)⟩

theorem renumber_skel : ∀ (as : List Addr) (n : Nat) (h : Heap) (d : List (Int × Int)) (h' : Heap) (d' : List (Int × Int)),
    renumber n as h d = some (h', d') → Skel h h'
  | [], _, h, d, h', d', e => by
    simp only [renumber, Option.some.injEq, Prod.mk.injEq] at e
    rw [← e.1]; exact Skel.refl h
  | a :: as, n, h, d, h', d', e => by
    simp only [renumber] at e
    cases ht : h.trigs[a]? with
    | none => simp [ht] at e
    | some t =>
      simp only [ht] at e
      by_cases hn : ((n : Nat) : Int) ≠ t.tid
      · simp only [hn, ne_eq, not_false_eq_true, if_true] at e
        exact (Skel.setTrig h a t { t with tid := (n : Int) } ht rfl rfl rfl).trans (renumber_skel as _ _ _ _ _ e)
      · simp only [hn, if_false] at e
        exact renumber_skel as _ _ _ _ _ e

theorem relinkC_uuid (d : List (Int × Int)) (c : Comp) : (relinkC d c).uuid = c.uuid := by
  unfold relinkC
  split
  · split <;> rfl
  · rfl

theorem relinkComps_skel (d : List (Int × Int)) (ts : List Trig) :
    ∀ (r : List Addr) (cs cs' : List Comp), relinkComps d r cs = some cs' → Skel ⟨ts, cs⟩ ⟨ts, cs'⟩
  | [], cs, cs', e => by
    simp only [relinkComps, Option.some.injEq] at e
    subst e; exact Skel.refl _
  | c :: r, cs, cs', e => by
    simp only [relinkComps] at e
    cases hc : cs[c]? with
    | none => simp [hc] at e
    | some co =>
      simp only [hc] at e
      have s1 : Skel ⟨ts, cs⟩ ⟨ts, cs.set c (relinkC d co)⟩ :=
        Skel.setComp ⟨ts, cs⟩ c co _ hc (relinkC_uuid d co)
      exact s1.trans (relinkComps_skel d ts r _ _ e)

theorem relink_skel (d : List (Int × Int)) : ∀ (as : List Addr) (h h' : Heap), relink d as h = some h' → Skel h h'
  | [], h, h', e => by
    simp only [relink, Option.some.injEq] at e
    subst e; exact Skel.refl _
  | a :: as, h, h', e => by
    simp only [relink] at e
    cases ht : h.trigs[a]? with
    | none => simp [ht] at e
    | some t =>
      simp only [ht] at e
      cases hr : relinkComps d t.comps h.comps with
      | none => simp [hr] at e
      | some cs =>
        simp only [hr] at e
        have s1 : Skel h { h with comps := cs } := relinkComps_skel d h.trigs t.comps h.comps cs hr
        exact s1.trans (relink_skel d as _ _ e)

theorem removeTrigger_inv {cfg : Cfg} {w w' : World} (i : Inv cfg w) {u : Uid} {k : Nat} {a : Addr}
    (e : removeTrigger w u k = .ok (w', a)) : Inv cfg w' := by
  unfold removeTrigger at e
  cases hk : (w.trigsOf u)[k]? with
  | none => simp [hk] at e
  | some a0 =>
    simp only [hk] at e
    cases hr : renumber 0 ((w.trigsOf u).eraseIdx k) w.heap [] with
    | none => simp [hr] at e
    | some p =>
      obtain ⟨h1, d⟩ := p
      simp only [hr] at e
      cases hl : relink (d ++ [(((k : Nat) : Int), (-1 : Int))]) ((w.trigsOf u).eraseIdx k) h1 with
      | none => simp [hl] at e
      | some h2 =>
        simp only [hl, Except.ok.injEq, Prod.mk.injEq] at e
        obtain ⟨rfl, _⟩ := e
        have s : Skel w.heap h2 := (renumber_skel _ _ _ _ _ _ hr).trans (relink_skel _ _ _ _ hl)
        have sub : ∀ b ∈ (w.trigsOf u).eraseIdx k, b ∈ w.trigsOf u := fun b hb => List.mem_of_mem_eraseIdx hb
        exact ⟨i.1.skel s u _ sub, fun hn => (i.2 hn).skel s u _ sub⟩

/-! ## new objects -/

/-- adopting entries that are already completely stamped with `u` and held by nobody else (no heap change) -/
theorem Inv0.adopt_stamped {w : World} (i : Inv0 w) (u : Uid) (hu : u ≠ noUuid) (l' : List Addr)
    (ok : ∀ a ∈ l', a ∈ w.trigsOf u ∨
      (a < w.heap.trigs.length ∧ (∀ v, v ≠ u → a ∉ w.trigsOf v) ∧
        ∀ (t : Trig), w.heap.trigs[a]? = some t → t.uuid = u ∧ ∀ c ∈ t.comps, ∀ (co : Comp), w.heap.comps[c]? = some co → co.uuid = u)) :
    Inv0 { w with trigsOf := setFn w.trigsOf u l' } := by
  refine ⟨i.hwf, i.sep, ?_, ?_, ?_, i.live0⟩
  · intro v a ha
    change a ∈ setFn w.trigsOf u l' v at ha
    by_cases hv : v = u
    · subst hv; rw [setFn_same] at ha
      rcases ok a ha with h1 | ⟨h1, _⟩
      · exact i.swf _ a h1
      · exact h1
    · rw [setFn_other _ _ _ _ hv] at ha; exact i.swf v a ha
  · intro v a ha t ht
    change a ∈ setFn w.trigsOf u l' v at ha
    by_cases hv : v = u
    · subst hv; rw [setFn_same] at ha
      rcases ok a ha with h1 | ⟨_, _, h3⟩
      · exact i.owned _ a h1 t ht
      · exact h3 t ht
    · rw [setFn_other _ _ _ _ hv] at ha; exact i.owned v a ha t ht
  · show setFn w.trigsOf u l' noUuid = []
    rw [setFn_other _ _ _ _ (Ne.symm hu)]; exact i.anon

theorem addTrigger_inv {cfg : Cfg} {w : World} (i : Inv cfg w) (u : Uid) (hu : u ≠ noUuid) (name : Int) :
    Inv cfg (addTrigger w u name).1 := by
  let t : Trig := { uuid := u, tid := (w.trigsOf u).length, name := name, comps := [], compsU := u }
  have hh : (addTrigger w u name).1 = { w with heap := snoc w.heap t [], trigsOf := setFn w.trigsOf u (w.trigsOf u ++ [w.heap.trigs.length]) } := by
    simp [addTrigger, snoc, t]
  have hc : t.comps = List.range' w.heap.comps.length ([] : List Comp).length := by simp [t]
  have e := snoc_ext w.heap t []
  have i1 : Inv0 { w with heap := snoc w.heap t [] } := i.1.ext e (snoc_hwf _ _ _ hc i.1.hwf) (snoc_sep _ _ _ hc i.1.hwf i.1.sep)
  have hnew : (snoc w.heap t []).trigs[w.heap.trigs.length]? = some t := by simp [snoc]
  have key : ∀ a ∈ w.trigsOf u ++ [w.heap.trigs.length], a ∈ w.trigsOf u ∨
      (a < (snoc w.heap t []).trigs.length ∧ (∀ v, v ≠ u → a ∉ w.trigsOf v) ∧
        ∀ (t' : Trig), (snoc w.heap t []).trigs[a]? = some t' → t'.uuid = u ∧
          ∀ c ∈ t'.comps, ∀ (co : Comp), (snoc w.heap t []).comps[c]? = some co → co.uuid = u) := by
    intro a ha
    rcases List.mem_append.mp ha with h1 | h1
    · exact Or.inl h1
    · right
      simp only [List.mem_singleton] at h1
      subst h1
      refine ⟨by simp [snoc], fun v _ => free_of_fresh i.1 (Nat.le_refl _) v, ?_⟩
      intro t' ht'
      rw [hnew] at ht'
      simp only [Option.some.injEq] at ht'
      subst ht'
      exact ⟨rfl, by simp [t]⟩
  have r := i1.adopt_stamped u hu _ key
  rw [hh]
  refine ⟨r, fun hn => ?_⟩
  have lo := (i.2 hn).ext i.1 e
  intro v a ha t' ht'
  change a ∈ setFn w.trigsOf u (w.trigsOf u ++ [w.heap.trigs.length]) v at ha
  change (snoc w.heap t []).trigs[a]? = some t' at ht'
  by_cases hv : v = u
  · subst hv
    rw [setFn_same] at ha
    rcases List.mem_append.mp ha with h1 | h1
    · exact lo v a h1 t' ht'
    · simp only [List.mem_singleton] at h1
      subst h1
      rw [hnew] at ht'
      simp only [Option.some.injEq] at ht'
      subst ht'; rfl
  · rw [setFn_other _ _ _ _ hv] at ha
    exact lo v a ha t' ht'

end Aoe.Heap
