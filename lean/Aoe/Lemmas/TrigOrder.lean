import Aoe.Model.Trig
/-!
Helper lemmas for C06/C07, part 1: permutations of `range n` (`IsPerm`), `update_order_array`, the lazy display
order, dictionaries (`lookupLast`), `pick` / `renumFrom` / `changesFrom`.
-/
namespace Aoe.Trig
open List

/-- `o` is a permutation of `0 … n-1` (stated by elements; equivalent to `o ~ range n`, see `isPerm_iff_perm`) -/
def IsPerm (o : List Nat) (n : Nat) : Prop := o.Nodup ∧ ∀ i, i ∈ o ↔ i < n

theorem isPerm_iff_perm {o : List Nat} {n : Nat} : IsPerm o n ↔ o.Perm (range n) := by
  constructor
  · rintro ⟨hn, hm⟩
    exact (perm_ext_iff_of_nodup hn nodup_range).2 (fun a => by rw [hm a, mem_range])
  · intro h
    exact ⟨h.symm.nodup nodup_range, fun i => by rw [h.mem_iff, mem_range]⟩

theorem IsPerm.length {o : List Nat} {n : Nat} (h : IsPerm o n) : o.length = n := by
  have := (isPerm_iff_perm.1 h).length_eq
  simpa using this

theorem isPerm_range (n : Nat) : IsPerm (range n) n := ⟨nodup_range, fun _ => mem_range⟩

theorem IsPerm.unique {o : List Nat} {m n : Nat} (h : IsPerm o m) (h' : IsPerm o n) : m = n := by
  rw [← h.length, ← h'.length]

/-- a duplicate-free list of `n` numbers below `n` is a permutation of `range n` -/
theorem isPerm_of_nodup_lt {o : List Nat} {n : Nat} (hn : o.Nodup) (hlt : ∀ i ∈ o, i < n) (hl : o.length = n) :
    IsPerm o n := by
  refine ⟨hn, fun i => ⟨hlt i, fun hi => ?_⟩⟩
  -- pigeonhole: otherwise `i :: o` would be a duplicate-free list of `n+1` numbers below `n`
  apply Classical.byContradiction
  intro hni
  have hnd : (i :: o).Nodup := nodup_cons.2 ⟨hni, hn⟩
  have hsub : (i :: o) ⊆ range n := by
    intro x hx
    rcases mem_cons.1 hx with rfl | hx
    · exact mem_range.2 hi
    · exact mem_range.2 (hlt x hx)
  have := hnd.length_le_of_subset hsub
  simp at this
  omega

/-! ### `removeAll`, `appendMissing`, `updateOrderArray` -/

theorem removeAll_perm {A : List Nat} : ∀ {L o : List Nat}, o.Perm (A ++ L) → ∃ o', removeAll o L = .ok o' ∧ o'.Perm A
  | [], o, h => ⟨o, rfl, by simpa using h⟩
  | x :: L, o, h => by
    have hx : x ∈ o := h.symm.subset (by simp)
    have h1 : o.Perm (x :: (A ++ L)) := h.trans perm_middle
    have h2 : (o.erase x).Perm (A ++ L) := by
      have := h1.erase x
      simpa using this
    obtain ⟨o', ho', hp⟩ := removeAll_perm h2
    exact ⟨o', by simp [removeAll, hx, ho'], hp⟩

theorem appendMissing_eq : ∀ {L o : List Nat}, L.Nodup → appendMissing o L = o ++ L.filter (fun i => decide (i ∉ o))
  | [], o, _ => by simp [appendMissing]
  | i :: L, o, h => by
    rw [nodup_cons] at h
    by_cases hi : i ∈ o
    · simp [appendMissing, hi, appendMissing_eq h.2]
    · have hf : L.filter (fun j => decide (j ∉ o ++ [i])) = L.filter (fun j => decide (j ∉ o)) := by
        apply filter_congr
        intro j hj
        have : j ≠ i := fun e => h.1 (e ▸ hj)
        simp [this]
      simp only [appendMissing, hi, if_false, appendMissing_eq h.2, hf, filter_cons]
      simp [hi]

theorem isPerm_appendMissing {o : List Nat} {m n : Nat} (h : IsPerm o m) (hmn : m ≤ n) :
    IsPerm (appendMissing o (range n)) n := by
  rw [appendMissing_eq nodup_range]
  refine ⟨?_, fun i => ?_⟩
  · rw [nodup_append]
    refine ⟨h.1, nodup_range.sublist filter_sublist, ?_⟩
    intro a ha b hb
    simp only [mem_filter, decide_eq_true_eq] at hb
    intro e; subst e; exact hb.2 ha
  · simp only [mem_append, mem_filter, mem_range, decide_eq_true_eq, h.2]
    omega

/-- `update_order_array` turns a permutation of `range m` into a permutation of `range n` (and does not raise) -/
theorem updateOrderArray_isPerm {o : List Nat} {m : Nat} (h : IsPerm o m) (n : Nat) :
    ∃ o', updateOrderArray o n = .ok o' ∧ IsPerm o' n ∧ (m = n → o' = o) := by
  have hl := h.length
  unfold updateOrderArray
  by_cases h1 : n < o.length
  · have hp : o.Perm (range n ++ range' n (o.length - n)) := by
      have : range n ++ range' n (o.length - n) = range m := by
        rw [range_eq_range', range_eq_range', hl]
        have := @range'_append 0 n (m - n) 1
        simp only [Nat.zero_add, Nat.one_mul] at this
        rw [this]; congr 1; omega
      rw [this]; exact isPerm_iff_perm.1 h
    obtain ⟨o', ho', hp'⟩ := removeAll_perm hp
    exact ⟨o', by simp [h1, ho'], isPerm_iff_perm.2 hp', by omega⟩
  · by_cases h2 : o.length < n
    · exact ⟨_, by simp [h1, h2], isPerm_appendMissing h (by omega), by omega⟩
    · have : m = n := by omega
      subst this
      exact ⟨o, by simp [h1, h2], h, fun _ => rfl⟩

end Aoe.Trig
