import Aoe.Model.Versions
/-!
Helper lemmas for C15/C16: the kernel-fast Boolean primitives mean what they say, dictionary algebra
(`dget`/`dset`/`dmerge`), the keyword-filling loop of `_add_effect`, the display-order update.
-/
namespace Aoe.Versions

theorem nbeq_eq_decide (a b : Nat) : Nat.beq a b = decide (a = b) := by
  by_cases h : a = b
  · subst h; simp [Nat.beq_refl]
  · have : Nat.beq a b = false := by
      cases hb : Nat.beq a b
      · rfl
      · exact absurd (Nat.eq_of_beq_eq_true hb) h
    simp [this, h]

theorem memN_iff {x : Nat} {l : List Nat} : memN x l = true ↔ x ∈ l := by
  induction l with
  | nil => simp [memN]
  | cons y r ih =>
    simp only [memN, Bool.or_eq_true, ih, nbeq_eq_decide, decide_eq_true_eq, List.mem_cons]
    constructor
    · rintro (h | h)
      · exact Or.inl h.symm
      · exact Or.inr h
    · rintro (h | h)
      · exact Or.inl h.symm
      · exact Or.inr h

theorem ibeq_iff {a b : Int} : ibeq a b = true ↔ a = b := by
  cases a <;> cases b <;> simp [ibeq, nbeq_eq_decide] <;> omega

theorem ibeq_eq_decide (a b : Int) : ibeq a b = decide (a = b) := by
  by_cases h : a = b
  · simp [h, ibeq_iff.2]
  · have : ibeq a b = false := by
      cases hb : ibeq a b
      · rfl
      · exact absurd (ibeq_iff.1 hb) h
    simp [this, h]

theorem ibeq_refl (a : Int) : ibeq a a = true := ibeq_iff.2 rfl

theorem memI_iff {x : Int} {l : List Int} : memI x l = true ↔ x ∈ l := by
  induction l with
  | nil => simp [memI]
  | cons y r ih =>
    simp only [memI, Bool.or_eq_true, ih, ibeq_iff, List.mem_cons]
    constructor
    · rintro (h | h)
      · exact Or.inl h.symm
      · exact Or.inr h
    · rintro (h | h)
      · exact Or.inl h.symm
      · exact Or.inr h

theorem lbeq_iff {a b : List Nat} : lbeq a b = true ↔ a = b := by
  induction a generalizing b with
  | nil => cases b <;> simp [lbeq]
  | cons x xs ih => cases b <;> simp [lbeq, ih, nbeq_eq_decide]

theorem subset_iff {a b : List Nat} : subset a b = true ↔ ∀ x ∈ a, x ∈ b := by
  simp [subset, List.all_eq_true, memN_iff]

theorem nodupNat_iff {l : List Nat} : nodupNat l = true ↔ l.Nodup := by
  induction l with
  | nil => simp [nodupNat]
  | cons x r ih =>
    simp only [nodupNat, Bool.and_eq_true, Bool.not_eq_true', List.nodup_cons, ih]
    constructor
    · rintro ⟨h1, h2⟩; exact ⟨fun h => by simp [memN_iff.2 h] at h1, h2⟩
    · rintro ⟨h1, h2⟩
      refine ⟨?_, h2⟩
      cases h : memN x r
      · rfl
      · exact absurd (memN_iff.1 h) h1

theorem nodupInt_iff {l : List Int} : nodupInt l = true ↔ l.Nodup := by
  induction l with
  | nil => simp [nodupInt]
  | cons x r ih =>
    simp only [nodupInt, Bool.and_eq_true, Bool.not_eq_true', List.nodup_cons, ih]
    constructor
    · rintro ⟨h1, h2⟩; exact ⟨fun h => by simp [memI_iff.2 h] at h1, h2⟩
    · rintro ⟨h1, h2⟩
      refine ⟨?_, h2⟩
      cases h : memI x r
      · rfl
      · exact absurd (memI_iff.1 h) h1

/-! ### dictionaries -/

theorem dget_cons (k' : Nat) (v : Val) (r : Dict) (k : Nat) :
    dget ((k', v) :: r) k = if k' = k then some v else dget r k := by
  by_cases h : k' = k <;> simp [dget, h, nbeq_eq_decide]

theorem dget_none_iff {d : Dict} {k : Nat} : dget d k = none ↔ k ∉ dkeys d := by
  induction d with
  | nil => simp [dget, dkeys]
  | cons p r ih =>
    obtain ⟨k', v⟩ := p
    rw [dget_cons]
    by_cases h : k' = k
    · simp [h, dkeys]
    · simp only [h, if_false, ih]
      simp [dkeys, Ne.symm h]

theorem dget_isSome_iff {d : Dict} {k : Nat} : (dget d k).isSome = true ↔ k ∈ dkeys d := by
  cases h : dget d k
  · simp [dget_none_iff.1 h]
  · have : k ∈ dkeys d := by
      by_cases hc : k ∈ dkeys d
      · exact hc
      · rw [dget_none_iff.2 hc] at h; cases h
    simp [this]

theorem dget_dset (d : Dict) (k : Nat) (v : Val) (k' : Nat) :
    dget (dset d k v) k' = if k = k' then some v else dget d k' := by
  induction d with
  | nil => simp [dset, dget_cons, dget]
  | cons p r ih =>
    obtain ⟨a, b⟩ := p
    by_cases h : a = k
    · subst h
      by_cases h2 : a = k' <;> simp [dset, dget_cons, h2, nbeq_eq_decide]
    · by_cases h2 : a = k'
      · subst h2
        have : ¬ k = a := fun e => h e.symm
        simp [dset, h, dget_cons, this, nbeq_eq_decide]
      · simp [dset, h, dget_cons, h2, ih, nbeq_eq_decide]

theorem dkeys_dset (d : Dict) (k : Nat) (v : Val) :
    dkeys (dset d k v) = if k ∈ dkeys d then dkeys d else dkeys d ++ [k] := by
  induction d with
  | nil => simp [dset, dkeys]
  | cons p r ih =>
    obtain ⟨a, b⟩ := p
    by_cases h : a = k
    · subst h; simp [dset, dkeys, nbeq_eq_decide]
    · have h' : ¬ k = a := fun e => h e.symm
      simp only [dset, nbeq_eq_decide, h, decide_false, cond_false, dkeys, List.map_cons, List.mem_cons, h', false_or] at ih ⊢
      rw [ih]
      split <;> simp_all

theorem mem_dkeys_dset {d : Dict} {k : Nat} {v : Val} {x : Nat} :
    x ∈ dkeys (dset d k v) ↔ x ∈ dkeys d ∨ x = k := by
  rw [dkeys_dset]
  split
  · constructor
    · exact Or.inl
    · rintro (h | h)
      · exact h
      · subst h; assumption
  · simp

theorem mem_dkeys_dmerge {a b : Dict} {x : Nat} : x ∈ dkeys (dmerge a b) ↔ x ∈ dkeys a ∨ x ∈ dkeys b := by
  induction b generalizing a with
  | nil => simp [dmerge, dkeys]
  | cons p r ih =>
    obtain ⟨k, v⟩ := p
    simp only [dmerge, ih, mem_dkeys_dset]
    simp only [dkeys, List.map_cons, List.mem_cons]
    constructor
    · rintro ((h | h) | h)
      · exact Or.inl h
      · exact Or.inr (Or.inl h)
      · exact Or.inr (Or.inr h)
    · rintro (h | h | h)
      · exact Or.inl (Or.inl h)
      · exact Or.inl (Or.inr h)
      · exact Or.inr h

/-- lookup in `{**a, **b}` when the keys of `b` are distinct: `b` wins -/
theorem dget_dmerge {a b : Dict} (hb : (dkeys b).Nodup) (k : Nat) :
    dget (dmerge a b) k = match dget b k with | some v => some v | none => dget a k := by
  induction b generalizing a with
  | nil => simp [dmerge, dget]
  | cons p r ih =>
    obtain ⟨k', v⟩ := p
    have hnd : (dkeys r).Nodup := (List.nodup_cons.1 hb).2
    have hnot : k' ∉ dkeys r := (List.nodup_cons.1 hb).1
    rw [dmerge, ih hnd, dget_cons, dget_dset]
    by_cases h : k' = k
    · subst h
      simp [dget_none_iff.2 hnot]
    · simp [h]

theorem dget_dmerge_dflt {a b : Dict} (hb : (dkeys b).Nodup) (k : Nat) :
    (dget (dmerge a b) k).getD .none = dflt a b k := by
  rw [dget_dmerge hb, dflt]
  cases dget b k <;> simp

/-- `{**a, **b} = b`-wise lookups when `b` has exactly the keys of `a` -/
theorem dkeys_dmerge_same {a b : Dict} (h : ∀ x ∈ dkeys b, x ∈ dkeys a) : dkeys (dmerge a b) = dkeys a := by
  induction b generalizing a with
  | nil => simp [dmerge]
  | cons p r ih =>
    obtain ⟨k, v⟩ := p
    have hk : k ∈ dkeys a := h k (by simp [dkeys])
    have e : dkeys (dset a k v) = dkeys a := by rw [dkeys_dset]; simp [hk]
    rw [dmerge, ih (a := dset a k v)]
    · exact e
    · intro x hx; rw [e]; exact h x (by simp only [dkeys, List.map_cons, List.mem_cons] at hx ⊢; exact Or.inr hx)

theorem dget_map_val (d : Dict) (f : Nat → Val → Val) (k : Nat) :
    dget (d.map (fun kv => (kv.1, f kv.1 kv.2))) k = (dget d k).map (f k) := by
  induction d with
  | nil => simp [dget]
  | cons p r ih =>
    obtain ⟨a, b⟩ := p
    simp only [List.map_cons, dget_cons, ih]
    by_cases h : a = k
    · subst h; simp
    · simp [h]

theorem dkeys_map_val (d : Dict) (f : Nat → Val → Val) :
    dkeys (d.map (fun kv => (kv.1, f kv.1 kv.2))) = dkeys d := by
  simp [dkeys, List.map_map, Function.comp_def]

/-! ### `Table.find?` -/

theorem find?_some {t : Table} {ty : Int} {e : TypeEntry} (h : t.find? ty = some e) : e ∈ t ∧ e.id = ty := by
  induction t with
  | nil => simp [Table.find?] at h
  | cons x r ih =>
    simp only [Table.find?] at h
    by_cases hx : ibeq x.id ty = true
    · simp only [hx, cond_true, Option.some.injEq] at h
      subst h
      exact ⟨List.mem_cons_self .., ibeq_iff.1 hx⟩
    · simp only [Bool.not_eq_true] at hx
      simp only [hx, cond_false] at h
      exact ⟨List.mem_cons_of_mem _ (ih h).1, (ih h).2⟩

theorem find?_none_iff {t : Table} {ty : Int} : t.find? ty = none ↔ ty ∉ t.ids := by
  induction t with
  | nil => simp [Table.find?, Table.ids]
  | cons x r ih =>
    simp only [Table.find?, Table.ids, List.map_cons, List.mem_cons, not_or]
    by_cases hx : ibeq x.id ty = true
    · simp [(ibeq_iff.1 hx).symm, ibeq_refl]
    · have : ¬ ty = x.id := fun e => hx (ibeq_iff.2 e.symm)
      simp only [Bool.not_eq_true] at hx
      simp only [hx, cond_false, this, not_false_eq_true, true_and]
      exact ih

theorem find?_of_mem {t : Table} (hnd : t.ids.Nodup) {e : TypeEntry} (he : e ∈ t) : t.find? e.id = some e := by
  induction t with
  | nil => cases he
  | cons x r ih =>
    simp only [Table.ids, List.map_cons, List.nodup_cons] at hnd
    simp only [Table.find?]
    rcases List.mem_cons.1 he with h | h
    · subst h; simp [ibeq_refl]
    · have : ibeq x.id e.id = false := by
        cases hb : ibeq x.id e.id
        · rfl
        · exact absurd (List.mem_map.2 ⟨e, h, (ibeq_iff.1 hb).symm⟩) hnd.1
      simp only [this, cond_false]
      exact ih hnd.2 h

/-! ### the keyword loop of `_add_effect` -/

/-- the value `_add_effect` stores under key `k` whose default is `dv` -/
def kwValue (sig : Sig) (ty : Int) (args : Dict) (k : Nat) (dv : Val) : Val :=
  bif Nat.beq k sig.typeKey then Val.int ty else (argOf args k).getD dv

theorem fillKw_eq {sig : Sig} {ty : Int} {args d : Dict} (h : ∀ k ∈ dkeys d, k ∈ sig.addParams) :
    fillKw sig ty args d = .ok (d.map (fun kv => (kv.1, kwValue sig ty args kv.1 kv.2))) := by
  induction d with
  | nil => simp [fillKw]
  | cons p r ih =>
    obtain ⟨k, dv⟩ := p
    have hk : memN k sig.addParams = true := memN_iff.2 (h k (by simp [dkeys]))
    have hr : ∀ k ∈ dkeys r, k ∈ sig.addParams := fun x hx => h x (by
      simp only [dkeys, List.map_cons, List.mem_cons] at hx ⊢; exact Or.inr hx)
    simp [fillKw, hk, ih hr, kwValue]

theorem fillKw_ok_keys {sig : Sig} {ty : Int} {args d kw : Dict} (h : fillKw sig ty args d = .ok kw) :
    ∀ k ∈ dkeys d, k ∈ sig.addParams := by
  induction d generalizing kw with
  | nil => intro k hk; simp [dkeys] at hk
  | cons p r ih =>
    obtain ⟨k, dv⟩ := p
    simp only [fillKw] at h
    by_cases hk : memN k sig.addParams = true
    · simp only [hk, Bool.not_true, Bool.false_eq_true, if_false] at h
      cases hr : fillKw sig ty args r with
      | error e => simp [hr] at h
      | ok rest =>
        intro x hx
        simp only [dkeys, List.map_cons, List.mem_cons] at hx
        rcases hx with rfl | hx
        · exact memN_iff.1 hk
        · exact ih hr x hx
    · simp only [Bool.not_eq_true] at hk
      simp [hk] at h

/-! ### the display order -/

theorem appendMissing_of_all_mem (order l : List Nat) (h : ∀ i ∈ l, i ∈ order) : appendMissing order l = order := by
  induction l with
  | nil => rfl
  | cons i is ih =>
    have hi : memN i order = true := memN_iff.2 (h i (List.mem_cons_self ..))
    simp only [appendMissing, hi, cond_true]
    exact ih (fun j hj => h j (List.mem_cons_of_mem _ hj))

theorem appendMissing_append (order a b : List Nat) :
    appendMissing order (a ++ b) = appendMissing (appendMissing order a) b := by
  induction a generalizing order with
  | nil => rfl
  | cons i is ih => simp [appendMissing, ih]

end Aoe.Versions
