import Aoe.Lemmas.HeapInv
/-!
Deep copies (C09): a copy allocates fresh cells only, keeps the heap invariants, and nobody holds it yet.
-/
namespace Aoe.Heap

/-- append one trigger cell whose components are exactly the freshly appended component cells -/
def snoc (h : Heap) (t' : Trig) (cs' : List Comp) : Heap := { trigs := h.trigs ++ [t'], comps := h.comps ++ cs' }

theorem snoc_ext (h : Heap) (t' : Trig) (cs' : List Comp) : Ext h (snoc h t' cs') := by
  refine ⟨fun a t ha => ?_, fun c co hc => ?_, by simp [snoc], by simp [snoc]⟩
  · have := (List.getElem?_eq_some_iff.mp ha).1
    simp [snoc, List.getElem?_append_left this, ha]
  · have := (List.getElem?_eq_some_iff.mp hc).1
    simp [snoc, List.getElem?_append_left this, hc]

theorem snoc_trig (h : Heap) (t' : Trig) (cs' : List Comp) (a : Addr) (t : Trig)
    (ht : (snoc h t' cs').trigs[a]? = some t) : (a < h.trigs.length ∧ h.trigs[a]? = some t) ∨ (a = h.trigs.length ∧ t = t') := by
  by_cases ha : a < h.trigs.length
  · left; simp [snoc, List.getElem?_append_left ha] at ht; exact ⟨ha, ht⟩
  · right
    have hge : h.trigs.length ≤ a := Nat.le_of_not_lt ha
    simp only [snoc, List.getElem?_append_right hge] at ht
    by_cases hk : a - h.trigs.length = 0
    · simp [hk] at ht; exact ⟨by omega, ht.symm⟩
    · have : a - h.trigs.length = (a - h.trigs.length - 1) + 1 := by omega
      rw [this] at ht; simp at ht

theorem snoc_hwf (h : Heap) (t' : Trig) (cs' : List Comp) (hc : t'.comps = List.range' h.comps.length cs'.length)
    (w : HWF h) : HWF (snoc h t' cs') := by
  intro a t ht c hcm
  rcases snoc_trig h t' cs' a t ht with ⟨_, h0⟩ | ⟨_, q⟩
  · have := w a t h0 c hcm
    simp [snoc]; omega
  · rw [q, hc] at hcm
    have := List.mem_range'_1.mp hcm
    simp [snoc]; omega

theorem snoc_sep (h : Heap) (t' : Trig) (cs' : List Comp) (hc : t'.comps = List.range' h.comps.length cs'.length)
    (w : HWF h) (s : Sep h) : Sep (snoc h t' cs') := by
  intro a1 a2 t1 t2 ne h1 h2 c hc1 hc2
  rcases snoc_trig h t' cs' a1 t1 h1 with ⟨_, g1⟩ | ⟨e1, q1⟩ <;>
    rcases snoc_trig h t' cs' a2 t2 h2 with ⟨_, g2⟩ | ⟨e2, q2⟩
  · exact s a1 a2 t1 t2 ne g1 g2 c hc1 hc2
  · have := w a1 t1 g1 c hc1
    rw [q2, hc] at hc2
    have := List.mem_range'_1.mp hc2
    omega
  · have := w a2 t2 g2 c hc2
    rw [q1, hc] at hc1
    have := List.mem_range'_1.mp hc1
    omega
  · exact ne (e1.trans e2.symm)

/-- what `copyTrig` does, read off its definition -/
theorem copyTrig_spec {fT : Trig → Trig} {fC : Comp → Comp} {h h' : Heap} {a a' : Addr}
    (hc : copyTrig fT fC h a = some (h', a')) :
    ∃ t cs, h.trigs[a]? = some t ∧ lookupAll h.comps t.comps = some cs ∧ a' = h.trigs.length ∧
      h' = snoc h { fT t with comps := List.range' h.comps.length cs.length }
             (cs.map (fun c => fC { c with uuid := t.compsU })) := by
  unfold copyTrig at hc
  cases ht : h.trigs[a]? with
  | none => simp [ht] at hc
  | some t =>
    cases hl : lookupAll h.comps t.comps with
    | none => simp [ht, hl] at hc
    | some cs =>
      simp only [ht, hl, Option.some.injEq, Prod.mk.injEq] at hc
      exact ⟨t, cs, rfl, hl, hc.2.symm, hc.1.symm⟩

theorem copyTrig_inv {fT : Trig → Trig} {fC : Comp → Comp} {h h' : Heap} {a a' : Addr}
    (hc : copyTrig fT fC h a = some (h', a')) (w : HWF h) (s : Sep h) :
    Ext h h' ∧ HWF h' ∧ Sep h' ∧ a' = h.trigs.length ∧ h'.trigs.length = h.trigs.length + 1 := by
  obtain ⟨t, cs, _, _, ha', rfl⟩ := copyTrig_spec hc
  have hcm : ({ fT t with comps := List.range' h.comps.length cs.length } : Trig).comps =
      List.range' h.comps.length (cs.map (fun c => fC { c with uuid := t.compsU })).length := by simp
  exact ⟨snoc_ext _ _ _, snoc_hwf _ _ _ hcm w, snoc_sep _ _ _ hcm w s, ha', by simp [snoc]⟩

/-- the copy exists whenever the source is a well-formed trigger -/
theorem copyTrig_isSome (fT : Trig → Trig) (fC : Comp → Comp) (h : Heap) (a : Addr) (w : HWF h) (ha : a < h.trigs.length) :
    ∃ r, copyTrig fT fC h a = some r := by
  unfold copyTrig
  rw [List.getElem?_eq_getElem ha]
  obtain ⟨cs, hcs⟩ := lookupAll_isSome h.comps (h.trigs[a]).comps (w a _ (List.getElem?_eq_getElem ha))
  simp [hcs]

/-- copies of a list: fresh consecutive addresses, invariants kept -/
theorem copyTrigs_inv (fT : Nat → Trig → Trig) (fC : Comp → Comp) :
    ∀ (refs : List Addr) (k : Nat) (h h' : Heap) (r : List Addr), copyTrigs fT fC k h refs = some (h', r) →
      HWF h → Sep h →
      Ext h h' ∧ HWF h' ∧ Sep h' ∧ r = List.range' h.trigs.length refs.length ∧
        h'.trigs.length = h.trigs.length + refs.length
  | [], k, h, h', r, hc, w, s => by
    simp only [copyTrigs, Option.some.injEq, Prod.mk.injEq] at hc
    obtain ⟨rfl, rfl⟩ := hc
    exact ⟨Ext.refl h, w, s, by simp, by simp⟩
  | a :: as, k, h, h', r, hc, w, s => by
    simp only [copyTrigs] at hc
    cases h1 : copyTrig (fT k) fC h a with
    | none => simp [h1] at hc
    | some p1 =>
      obtain ⟨h1', a'⟩ := p1
      cases h2 : copyTrigs fT fC (k + 1) h1' as with
      | none => simp [h1, h2] at hc
      | some p2 =>
        obtain ⟨h2', r2⟩ := p2
        simp only [h1, h2, Option.some.injEq, Prod.mk.injEq] at hc
        obtain ⟨rfl, rfl⟩ := hc
        obtain ⟨e1, w1, s1, ha', l1⟩ := copyTrig_inv h1 w s
        obtain ⟨e2, w2, s2, hr2, l2⟩ := copyTrigs_inv fT fC as (k + 1) h1' _ r2 h2 w1 s1
        refine ⟨e1.trans e2, w2, s2, ?_, by rw [l2, l1]; simp; omega⟩
        rw [hr2, ha', l1]
        simp [List.range'_succ]

theorem copyTrigs_isSome (fT : Nat → Trig → Trig) (fC : Comp → Comp) :
    ∀ (refs : List Addr) (k : Nat) (h : Heap), HWF h → Sep h → (∀ a ∈ refs, a < h.trigs.length) →
      ∃ p, copyTrigs fT fC k h refs = some p
  | [], _, h, _, _, _ => ⟨(h, []), rfl⟩
  | a :: as, k, h, w, s, v => by
    obtain ⟨⟨h1, a'⟩, e1⟩ := copyTrig_isSome (fT k) fC h a w (v a (by simp))
    obtain ⟨ex, w1, s1, _, _⟩ := copyTrig_inv e1 w s
    obtain ⟨⟨h2, r2⟩, e2⟩ := copyTrigs_isSome fT fC as (k + 1) h1 w1 s1
      (fun b hb => Nat.lt_of_lt_of_le (v b (by simp [hb])) ex.tlen)
    exact ⟨(h2, a' :: r2), by simp [copyTrigs, e1, e2]⟩

/-- `ownEach`: every resulting entry is either a fresh copy or an original entry without a foreign stamp -/
theorem ownEach_inv (u : Uid) :
    ∀ (refs : List Addr) (h h' : Heap) (r : List Addr), ownEach u h refs = some (h', r) → HWF h → Sep h →
      Ext h h' ∧ HWF h' ∧ Sep h' ∧ r.length = refs.length ∧
        ∀ a ∈ r, (h.trigs.length ≤ a ∧ a < h'.trigs.length) ∨
                 (a ∈ refs ∧ ∃ t, h.trigs[a]? = some t ∧ isForeign u t = false)
  | [], h, h', r, hc, w, s => by
    simp only [ownEach, Option.some.injEq, Prod.mk.injEq] at hc
    obtain ⟨rfl, rfl⟩ := hc
    exact ⟨Ext.refl h, w, s, rfl, by simp⟩
  | a :: as, h, h', r, hc, w, s => by
    simp only [ownEach] at hc
    cases ht : h.trigs[a]? with
    | none => simp [ht] at hc
    | some t =>
      simp only [ht] at hc
      by_cases hf : isForeign u t = true
      · simp only [hf, if_true] at hc
        cases h1 : copyTrig id id h a with
        | none => simp [h1] at hc
        | some p1 =>
          obtain ⟨h1', a'⟩ := p1
          cases h2 : ownEach u h1' as with
          | none => simp [h1, h2] at hc
          | some p2 =>
            obtain ⟨h2', r2⟩ := p2
            simp only [h1, h2, Option.some.injEq, Prod.mk.injEq] at hc
            obtain ⟨rfl, rfl⟩ := hc
            obtain ⟨e1, w1, s1, ha', l1⟩ := copyTrig_inv h1 w s
            obtain ⟨e2, w2, s2, len2, m2⟩ := ownEach_inv u as h1' _ r2 h2 w1 s1
            refine ⟨e1.trans e2, w2, s2, by simp [len2], ?_⟩
            intro b hb
            rcases List.mem_cons.mp hb with rfl | hb
            · left; exact ⟨by omega, by have := e2.tlen; omega⟩
            · rcases m2 b hb with ⟨x, y⟩ | ⟨x, t', y, z⟩
              · left; exact ⟨by omega, y⟩
              · by_cases hbl : b < h.trigs.length
                · right
                  refine ⟨by simp [x], t', ?_, z⟩
                  rw [← e1.trigs_lt hbl]; exact y
                · left
                  have := (List.getElem?_eq_some_iff.mp y).1
                  exact ⟨by omega, Nat.lt_of_lt_of_le this e2.tlen⟩
      · have hf' : isForeign u t = false := by simpa using hf
        simp only [hf', Bool.false_eq_true, if_false] at hc
        cases h2 : ownEach u h as with
        | none => simp [h2] at hc
        | some p2 =>
          obtain ⟨h2', r2⟩ := p2
          simp only [h2, Option.some.injEq, Prod.mk.injEq] at hc
          obtain ⟨rfl, rfl⟩ := hc
          obtain ⟨e2, w2, s2, len2, m2⟩ := ownEach_inv u as h _ r2 h2 w s
          refine ⟨e2, w2, s2, by simp [len2], ?_⟩
          intro b hb
          rcases List.mem_cons.mp hb with rfl | hb
          · right; exact ⟨by simp, t, ht, hf'⟩
          · rcases m2 b hb with x | ⟨x, y⟩
            · left; exact x
            · right; exact ⟨by simp [x], y⟩

theorem ownEach_isSome (u : Uid) :
    ∀ (refs : List Addr) (h : Heap), HWF h → Sep h → (∀ a ∈ refs, a < h.trigs.length) → ∃ p, ownEach u h refs = some p
  | [], h, _, _, _ => ⟨(h, []), rfl⟩
  | a :: as, h, w, s, v => by
    have ha := v a (by simp)
    simp only [ownEach, List.getElem?_eq_getElem ha]
    by_cases hf : isForeign u h.trigs[a] = true
    · obtain ⟨⟨h1, a'⟩, e1⟩ := copyTrig_isSome id id h a w ha
      obtain ⟨ex, w1, s1, _, _⟩ := copyTrig_inv e1 w s
      obtain ⟨⟨h2, r2⟩, e2⟩ := ownEach_isSome u as h1 w1 s1 (fun b hb => Nat.lt_of_lt_of_le (v b (by simp [hb])) ex.tlen)
      exact ⟨(h2, a' :: r2), by simp [hf, e1, e2]⟩
    · obtain ⟨⟨h2, r2⟩, e2⟩ := ownEach_isSome u as h w s (fun b hb => v b (by simp [hb]))
      exact ⟨(h2, a :: r2), by simp [hf, e2]⟩

end Aoe.Heap
