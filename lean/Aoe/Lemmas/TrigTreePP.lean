import Aoe.Lemmas.TrigTree
/-!
Helper lemmas for C06/C07, part 9: `copy_trigger_tree_per_player`.
-/
namespace Aoe.Trig
open List

/-! ### insertion-ordered dicts -/

theorem dictGet_dictSet_eq {α : Type} : ∀ (d : List (Nat × α)) (k : Nat) (v : α), dictGet (dictSet d k v) k = some v
  | [], k, v => by simp [dictSet, dictGet]
  | (a, b) :: d, k, v => by
    unfold dictSet
    by_cases h : a = k
    · simp [h, dictGet]
    · simp [h, dictGet, dictGet_dictSet_eq d k v]

theorem dictGet_dictSet_ne {α : Type} : ∀ (d : List (Nat × α)) {k k' : Nat} (v : α), k' ≠ k →
    dictGet (dictSet d k v) k' = dictGet d k'
  | [], k, k', v, h => by
    have : k ≠ k' := fun e => h e.symm
    simp [dictSet, dictGet, this]
  | (a, b) :: d, k, k', v, h => by
    unfold dictSet
    have hk : k ≠ k' := fun e => h e.symm
    by_cases ha : a = k
    · subst ha; simp [dictGet, hk]
    · simp only [ha, if_false, dictGet, dictGet_dictSet_ne d v h]

theorem mem_dictSet {α : Type} : ∀ {d : List (Nat × α)} {k : Nat} {v : α} {x : Nat × α}, x ∈ dictSet d k v →
    x ∈ d ∨ x = (k, v)
  | [], k, v, x, h => by simp [dictSet] at h; exact Or.inr h
  | (a, b) :: d, k, v, x, h => by
    unfold dictSet at h
    by_cases ha : a = k
    · simp only [ha, if_true, mem_cons] at h
      rcases h with h | h
      · exact Or.inr h
      · exact Or.inl (by simp [h])
    · simp only [ha, if_false, mem_cons] at h
      rcases h with h | h
      · exact Or.inl (by simp [h])
      · rcases mem_dictSet h with h | h
        · exact Or.inl (by simp [h])
        · exact Or.inr h

theorem mem_of_dictGet {α : Type} : ∀ {d : List (Nat × α)} {k : Nat} {v : α}, dictGet d k = some v → (k, v) ∈ d
  | [], _, _, h => by simp [dictGet] at h
  | (a, b) :: d, k, v, h => by
    unfold dictGet at h
    by_cases ha : a = k
    · simp only [ha, if_true, Option.some.injEq] at h
      subst h; subst ha; simp
    · simp only [ha, if_false] at h
      exact mem_cons_of_mem _ (mem_of_dictGet h)

/-! ### the copy loops -/

theorem copyPlayers_spec {c : Bool} : ∀ {ps : List Nat} {tm tm' : TM} {src : Trig} {acc r : List (Nat × Trig)},
    Inv tm → copyPlayers tm src ps acc = .ok (tm', r) →
    Good c tm tm' ∧ tm.next ≤ tm'.next ∧ ∀ x ∈ r, x ∈ acc ∨ (x.1 ∈ ps ∧ tm.next ≤ x.2.uid)
  | [], tm, tm', src, acc, r, hi, h => by
    simp only [copyPlayers, Except.ok.injEq, Prod.mk.injEq] at h
    obtain ⟨rfl, rfl⟩ := h
    exact ⟨Good.refl hi, Nat.le_refl _, fun x hx => Or.inl hx⟩
  | p :: ps, tm, tm', src, acc, r, hi, h => by
    simp only [copyPlayers] at h
    cases hr : resolveObj tm src with
    | error e => simp [hr] at h
    | ok v =>
      obtain ⟨tm1, f⟩ := v
      obtain ⟨g1, _, _, hn1, _⟩ := resolveObj_sound (c := c) hi hr
      simp only [hr] at h
      have g2 : Good c tm1 (appendCopy tm1 f.trig).1 := appendCopy_good g1.inv f.trig
      obtain ⟨g3, hle, hmem⟩ := copyPlayers_spec (c := c) g2.inv h
      have hnx : (appendCopy tm1 f.trig).1.next = tm.next + 1 := by simp [appendCopy, hn1]
      refine ⟨(g1.trans hi g2).trans hi g3, by omega, fun x hx => ?_⟩
      rcases hmem x hx with h1 | ⟨h1, h2⟩
      · rcases mem_dictSet h1 with h1 | h1
        · exact Or.inl h1
        · subst h1
          exact Or.inr ⟨by simp, by simp [appendCopy, hn1]⟩
      · exact Or.inr ⟨by simp [h1], by omega⟩

theorem mem_playersFor {players : Option (List Nat)} {fromP : Nat} {gaia : Bool} {p : Nat}
    (h : p ∈ playersFor players fromP gaia) : p ≠ fromP := by
  unfold playersFor at h
  simp only [mem_filter] at h
  simpa using h.2

theorem copyPerPlayer_spec {c : Bool} {tm tm' : TM} {s : Sel} {fromP : Nat} {players : Option (List Nat)} {gaia : Bool}
    {r : List (Nat × Trig)} (hi : Inv tm) (h : copyPerPlayer tm s fromP players gaia = .ok (tm', r)) :
    Good c tm tm' ∧ tm.next ≤ tm'.next ∧ ∀ x ∈ r, x.1 ≠ fromP ∧ tm.next ≤ x.2.uid := by
  unfold copyPerPlayer at h
  cases hr : resolve! tm s with
  | error e => simp [hr] at h
  | ok v =>
    obtain ⟨tm1, f⟩ := v
    obtain ⟨g1, _, _, hn1, _⟩ := resolve!_sound (c := c) hi hr
    simp only [hr] at h
    obtain ⟨g2, hle, hmem⟩ := copyPlayers_spec (c := c) g1.inv h
    refine ⟨g1.trans hi g2, by omega, fun x hx => ?_⟩
    rcases hmem x hx with h1 | ⟨h1, h2⟩
    · simp at h1
    · exact ⟨mem_playersFor h1, by omega⟩

/-- what the retargeting loop needs to know about the two dicts: other players' lists hold only triggers created by
this call; the source player's swap entry of a node is the node's own id -/
structure SwapOK (n0 : Nat) (fromP : Nat) (nt : PlayerTrigs) (swap : List (Nat × List (Nat × Nat))) : Prop where
  fresh : ∀ pl ∈ nt, pl.1 ≠ fromP → ∀ ut ∈ pl.2, n0 ≤ ut.1
  ident : ∀ k d v, dictGet swap k = some d → dictGet d fromP = some v → v = k

theorem swapOK_fold {n0 fromP index : Nat} : ∀ (d : List (Nat × Trig)) (nt : PlayerTrigs) (swap : List (Nat × List (Nat × Nat))),
    (∀ x ∈ d, x.1 ≠ fromP ∧ n0 ≤ x.2.uid) → SwapOK n0 fromP nt swap →
    SwapOK n0 fromP
      (d.foldl (fun (acc : PlayerTrigs × List (Nat × List (Nat × Nat))) pc =>
        (dictSet acc.1 pc.1 (((dictGet acc.1 pc.1).getD []) ++ [(pc.2.uid, pc.2.tid)]),
         dictSet acc.2 index (dictSet ((dictGet acc.2 index).getD []) pc.1 pc.2.tid))) (nt, swap)).1
      (d.foldl (fun (acc : PlayerTrigs × List (Nat × List (Nat × Nat))) pc =>
        (dictSet acc.1 pc.1 (((dictGet acc.1 pc.1).getD []) ++ [(pc.2.uid, pc.2.tid)]),
         dictSet acc.2 index (dictSet ((dictGet acc.2 index).getD []) pc.1 pc.2.tid))) (nt, swap)).2
  | [], nt, swap, _, h => h
  | pc :: d, nt, swap, hd, h => by
    simp only [foldl_cons]
    apply swapOK_fold d _ _ (fun x hx => hd x (by simp [hx]))
    obtain ⟨hp, hu⟩ := hd pc (by simp)
    refine ⟨fun pl hpl hne ut hut => ?_, fun k dd v hk hv => ?_⟩
    · rcases mem_dictSet hpl with h1 | h1
      · exact h.fresh pl h1 hne ut hut
      · subst h1
        simp only [mem_append, mem_cons, not_mem_nil, or_false] at hut
        rcases hut with h2 | h2
        · cases hg : dictGet nt pc.1 with
          | none => simp [hg] at h2
          | some l =>
            simp only [hg, Option.getD_some] at h2
            have : (pc.1, l) ∈ nt := mem_of_dictGet hg
            exact h.fresh _ this hne ut h2
        · subst h2; exact hu
    · by_cases hki : k = index
      · subst hki
        rw [dictGet_dictSet_eq] at hk
        cases hk
        rw [dictGet_dictSet_ne _ _ (fun e => hp e.symm)] at hv
        cases hg : dictGet swap k with
        | none => simp [hg, dictGet] at hv
        | some d0 => simp only [hg, Option.getD_some] at hv; exact h.ident k d0 v hg hv
      · rw [dictGet_dictSet_ne _ _ hki] at hk
        exact h.ident k dd v hk hv

theorem copyTreePlayers_spec {c : Bool} {fromP : Nat} {players : Option (List Nat)} {gaia : Bool} {n0 : Nat} :
    ∀ {known : List Nat} {tm tm' : TM} {nt nt' : PlayerTrigs} {swap swap' : List (Nat × List (Nat × Nat))},
    Inv tm → n0 ≤ tm.next → SwapOK n0 fromP nt swap →
    copyTreePlayers tm fromP players gaia known nt swap = .ok (tm', nt', swap') →
    Good c tm tm' ∧ tm.next ≤ tm'.next ∧ SwapOK n0 fromP nt' swap'
  | [], tm, tm', nt, nt', swap, swap', hi, _, hs, h => by
    simp only [copyTreePlayers, Except.ok.injEq, Prod.mk.injEq] at h
    obtain ⟨rfl, rfl, rfl⟩ := h
    exact ⟨Good.refl hi, Nat.le_refl _, hs⟩
  | index :: rest, tm, tm', nt, nt', swap, swap', hi, hn0, hs, h => by
    simp only [copyTreePlayers] at h
    cases hc : copyPerPlayer tm (.index index) fromP players gaia with
    | error e => simp [hc] at h
    | ok v =>
      obtain ⟨tm1, d⟩ := v
      simp only [hc] at h
      obtain ⟨g1, hle1, hd⟩ := copyPerPlayer_spec (c := c) hi hc
      have hs' := swapOK_fold (n0 := n0) (fromP := fromP) (index := index) d nt swap
        (fun x hx => ⟨(hd x hx).1, Nat.le_trans hn0 (hd x hx).2⟩) hs
      obtain ⟨g2, hle2, hs2⟩ := copyTreePlayers_spec (c := c) g1.inv (by omega) hs' h
      exact ⟨g1.trans hi g2, by omega, hs2⟩

/-! ### the retargeting loop -/

theorem remapTrigSwap_shape {swap : List (Nat × List (Nat × Nat))} {p : Nat} {t t' : Trig}
    (h : remapTrigSwap swap p t = .ok t') : t'.uid = t.uid ∧ t'.tid = t.tid := by
  unfold remapTrigSwap at h
  cases hm : t.effs.mapM (remapEffSwap swap p) with
  | error e => simp [hm] at h
  | ok es => simp [hm] at h; subst h; exact ⟨rfl, rfl⟩

theorem remapTrigSwap_ident {swap : List (Nat × List (Nat × Nat))} {fromP : Nat} {t t' : Trig}
    (hid : ∀ k d v, dictGet swap k = some d → dictGet d fromP = some v → v = k)
    (h : remapTrigSwap swap fromP t = .ok t') : t' = t := by
  unfold remapTrigSwap at h
  cases hm : t.effs.mapM (remapEffSwap swap fromP) with
  | error e => simp [hm] at h
  | ok es =>
    simp [hm] at h; subst h
    obtain ⟨hl, hp⟩ := mapM_ok_spec hm
    have : es = t.effs := by
      apply ext_getElem?
      intro j
      cases he : t.effs[j]? with
      | none =>
        rw [getElem?_eq_none_iff] at he ⊢; omega
      | some e =>
        have hj : j < es.length := by rw [hl]; exact (List.getElem?_eq_some_iff.1 he).1
        have h1 := hp j e _ he (getElem?_eq_getElem hj)
        rw [getElem?_eq_getElem hj]
        congr 1
        unfold remapEffSwap at h1
        split at h1
        · cases ht : e.target with
          | none => simp [ht] at h1
          | some k =>
            simp only [ht] at h1
            cases hd : dictGet swap k with
            | none => simp [hd] at h1
            | some d =>
              simp only [hd] at h1
              cases hv : dictGet d fromP with
              | none => simp [hv] at h1
              | some v =>
                simp only [hv, Except.ok.injEq] at h1
                have := hid k d v hd hv
                subst this
                rw [← h1]; cases e; simp_all
        · exact (Except.ok.inj h1).symm
    rw [this]

/-- pointwise relation between the trigger list before and after a retargeting pass -/
def KeepOld (n0 : Nat) (ts ts' : List Trig) : Prop :=
  ts'.length = ts.length ∧ ∀ (j : Nat) (t t' : Trig), ts[j]? = some t → ts'[j]? = some t' →
    t'.uid = t.uid ∧ t'.tid = t.tid ∧ (t.uid < n0 → t' = t)

theorem KeepOld.refl (n0 : Nat) (ts : List Trig) : KeepOld n0 ts ts :=
  ⟨rfl, fun j t t' h h' => by rw [h] at h'; cases h'; exact ⟨rfl, rfl, fun _ => rfl⟩⟩

theorem KeepOld.trans {n0 : Nat} {a b c : List Trig} (h1 : KeepOld n0 a b) (h2 : KeepOld n0 b c) : KeepOld n0 a c := by
  refine ⟨h2.1.trans h1.1, fun j t t'' ht ht'' => ?_⟩
  have hj : j < b.length := by rw [h1.1]; exact (List.getElem?_eq_some_iff.1 ht).1
  obtain ⟨u1, i1, k1⟩ := h1.2 j t _ ht (getElem?_eq_getElem hj)
  obtain ⟨u2, i2, k2⟩ := h2.2 j _ t'' (getElem?_eq_getElem hj) ht''
  refine ⟨u2.trans u1, i2.trans i1, fun hlt => ?_⟩
  have := k1 hlt
  rw [this] at k2
  exact k2 hlt

theorem remapOne_keepOld {n0 fromP player u : Nat} {swap : List (Nat × List (Nat × Nat))} {ts ts' : List Trig}
    (hid : ∀ k d v, dictGet swap k = some d → dictGet d fromP = some v → v = k)
    (hnew : player ≠ fromP → n0 ≤ u)
    (h : mapUids [u] (remapTrigSwap swap player) ts = .ok ts') : KeepOld n0 ts ts' := by
  obtain ⟨hl, hp⟩ := mapUids_spec h
  refine ⟨hl, fun j t t' ht ht' => ?_⟩
  obtain ⟨ha, hb⟩ := hp j t t' ht ht'
  by_cases hm : t.uid ∈ [u]
  · obtain ⟨x, y⟩ := remapTrigSwap_shape (ha hm)
    refine ⟨x, y, fun hlt => ?_⟩
    simp only [mem_cons, not_mem_nil, or_false] at hm
    by_cases hpf : player = fromP
    · subst hpf; exact remapTrigSwap_ident hid (ha (by simp [hm]))
    · have := hnew hpf; omega
  · have := hb hm; subst this; exact ⟨rfl, rfl, fun _ => rfl⟩

theorem remapPlayers_keepOld {n0 fromP : Nat} {swap : List (Nat × List (Nat × Nat))}
    (hid : ∀ k d v, dictGet swap k = some d → dictGet d fromP = some v → v = k) :
    ∀ {nt : PlayerTrigs} {ts ts' : List Trig}, (∀ pl ∈ nt, pl.1 ≠ fromP → ∀ ut ∈ pl.2, n0 ≤ ut.1) →
    remapPlayers swap nt ts = .ok ts' → KeepOld n0 ts ts'
  | [], ts, ts', _, h => by
    simp only [remapPlayers, Except.ok.injEq] at h; subst h; exact KeepOld.refl _ _
  | (player, l) :: rest, ts, ts', hf, h => by
    simp only [remapPlayers] at h
    cases hl : l.foldlM (fun ts ut => mapUids [ut.1] (remapTrigSwap swap player) ts) ts with
    | error e => simp [hl] at h
    | ok ts1 =>
      simp only [hl] at h
      have h2 := remapPlayers_keepOld hid (fun pl hpl => hf pl (by simp [hpl])) h
      refine KeepOld.trans ?_ h2
      -- the inner loop
      have hin : ∀ (l : List (Nat × Nat)) (ts ts1 : List Trig), (player ≠ fromP → ∀ ut ∈ l, n0 ≤ ut.1) →
          l.foldlM (fun ts ut => mapUids [ut.1] (remapTrigSwap swap player) ts) ts = .ok ts1 → KeepOld n0 ts ts1 := by
        intro l
        induction l with
        | nil => intro ts ts1 _ h'; simp only [foldlM_nil, pure, Except.pure, Except.ok.injEq] at h'; subst h'; exact KeepOld.refl _ _
        | cons ut l ih =>
          intro ts ts1 hfr h'
          rw [foldlM_cons] at h'
          cases h1 : mapUids [ut.1] (remapTrigSwap swap player) ts with
          | error e => simp [h1, bind, Except.bind] at h'
          | ok tsm =>
            simp only [h1, bind, Except.bind] at h'
            exact KeepOld.trans (remapOne_keepOld hid (fun hne => hfr hne ut (by simp)) h1)
              (ih tsm ts1 (fun hne x hx => hfr hne x (by simp [hx])) h')
      exact hin l ts ts1 (fun hne => hf (player, l) (by simp) hne) hl

end Aoe.Trig

namespace Aoe.Trig
open List

/-! ### copy_trigger_tree_per_player -/

theorem pick_tid {tm : TM} (hi : Inv tm) : ∀ {known : List Nat} {srcs : List Trig}, pick tm.trigs known = .ok srcs →
    ∀ kt ∈ known.zip srcs, kt.2.tid = kt.1
  | [], srcs, h, kt, hkt => by
    simp only [pick, Except.ok.injEq] at h; subst h; simp at hkt
  | k :: known, srcs, h, kt, hkt => by
    simp only [pick] at h
    cases hk : tm.trigs[k]? with
    | none => simp [hk] at h
    | some t =>
      cases hr : pick tm.trigs known with
      | error e => simp [hk, hr] at h
      | ok r =>
        simp only [hk, hr, Except.ok.injEq] at h
        subst h
        simp only [zip_cons_cons, mem_cons] at hkt
        rcases hkt with rfl | hkt
        · exact hi.ids k t hk
        · exact pick_tid hi hr kt hkt

theorem swap0_ident {fromP : Nat} : ∀ (l : List (Nat × Trig)) (sw : List (Nat × List (Nat × Nat))),
    (∀ kt ∈ l, kt.2.tid = kt.1) →
    (∀ k d v, dictGet sw k = some d → dictGet d fromP = some v → v = k) →
    ∀ k d v, dictGet (l.foldl (fun sw kt => dictSet sw kt.1 (dictSet ((dictGet sw kt.1).getD []) fromP kt.2.tid)) sw) k = some d →
      dictGet d fromP = some v → v = k
  | [], sw, _, h => h
  | kt :: l, sw, hl, h => by
    simp only [foldl_cons]
    apply swap0_ident l _ (fun x hx => hl x (by simp [hx]))
    intro k d v hk hv
    by_cases e : k = kt.1
    · subst e
      rw [dictGet_dictSet_eq] at hk
      cases hk
      rw [dictGet_dictSet_eq] at hv
      cases hv
      exact hl kt (by simp)
    · rw [dictGet_dictSet_ne _ _ e] at hk
      exact h k d v hk hv

theorem copyTreePPCore_good {c : Bool} {fixed : Bool} {tm tm' : TM} {s : Sel} {fromP : Nat} {players : Option (List Nat)}
    {gaia : Bool} {ret : List (Nat × List Nat)} {known : List Nat} {nt : PlayerTrigs} {disp : Nat} (hi : Inv tm)
    (h : copyTreePPCore fixed tm s fromP players gaia = .ok (tm', ret, known, nt, disp)) :
    Good c tm tm' ∧ tm.next ≤ tm'.next := by
  unfold copyTreePPCore at h
  cases hr : resolve! tm s with
  | error e => simp [hr] at h
  | ok v =>
    obtain ⟨tm1, f⟩ := v
    obtain ⟨g1, _, _, hn1, _⟩ := resolve!_sound (c := c) hi hr
    simp only [hr] at h
    cases hk : treeNodes fixed tm1 f with
    | error e => simp [hk] at h
    | ok kn =>
      simp only [hk] at h
      cases hpk : pick tm1.trigs kn with
      | error e => simp [hpk] at h
      | ok srcs =>
        simp only [hpk] at h
        have hs0 : SwapOK tm1.next fromP [(fromP, srcs.map (fun t => (t.uid, t.tid)))]
            ((kn.zip srcs).foldl (fun sw kt => dictSet sw kt.1 (dictSet ((dictGet sw kt.1).getD []) fromP kt.2.tid)) []) :=
          ⟨fun pl hpl hne => by simp at hpl; subst hpl; exact absurd rfl hne,
           swap0_ident _ _ (pick_tid g1.inv hpk) (fun k d v hk' _ => by simp [dictGet] at hk')⟩
        cases hcp : copyTreePlayers tm1 fromP players gaia kn [(fromP, srcs.map (fun t => (t.uid, t.tid)))]
            ((kn.zip srcs).foldl (fun sw kt => dictSet sw kt.1 (dictSet ((dictGet sw kt.1).getD []) fromP kt.2.tid)) []) with
        | error e => simp [hcp] at h
        | ok v2 =>
          obtain ⟨tm2, nt2, swap⟩ := v2
          simp only [hcp] at h
          obtain ⟨g2, hle2, hs2⟩ := copyTreePlayers_spec (c := c) g1.inv (Nat.le_refl _) hs0 hcp
          cases hrm : remapPlayers swap nt2 tm2.trigs with
          | error e => simp [hrm] at h
          | ok ts =>
            simp only [hrm, Except.ok.injEq, Prod.mk.injEq] at h
            obtain ⟨rfl, _⟩ := h
            have hko := remapPlayers_keepOld (n0 := tm1.next) hs2.ident hs2.fresh hrm
            have g3 : Good c tm1 { tm2 with trigs := ts } :=
              modify_good g1.inv g2 hko.1 (fun j t t' ht ht' => hko.2 j t t' ht ht') rfl rfl rfl
            exact ⟨g1.trans hi g3, by simp only; omega⟩

/-- `copy_trigger_tree_per_player`: invariant and links, provided the id list handed to `move_triggers` by the
group-by step is duplicate-free (which is what defect F16 breaks on the pinned tree) -/
theorem copyTreePerPlayer_good {c : Bool} {fixed : Bool} {tm tm' : TM} {s : Sel} {fromP : Nat} {players : Option (List Nat)}
    {gaia : Bool} {g : Group} {ret : List (Nat × List Nat)} (hi : Inv tm)
    (hdom : g = .none ∨ ∀ tm1 r known nt disp ids, copyTreePPCore fixed tm s fromP players gaia = .ok (tm1, r, known, nt, disp) →
      groupIds g fromP known nt = .ok ids → ids.Nodup)
    (h : copyTreePerPlayer fixed tm s fromP players gaia g = .ok (tm', ret)) : Good c tm tm' ∧ tm.next ≤ tm'.next := by
  unfold copyTreePerPlayer at h
  cases hc : copyTreePPCore fixed tm s fromP players gaia with
  | error e => simp [hc] at h
  | ok v =>
    obtain ⟨tm1, r, known, nt, disp⟩ := v
    obtain ⟨g1, hle1⟩ := copyTreePPCore_good (c := c) hi hc
    simp only [hc] at h
    cases g with
    | none =>
      simp only [Except.ok.injEq, Prod.mk.injEq] at h
      obtain ⟨rfl, _⟩ := h
      exact ⟨g1, hle1⟩
    | trigger =>
      simp only at h
      cases hg : groupIds .trigger fromP known nt with
      | error e => simp [hg] at h
      | ok ids =>
        simp only [hg] at h
        cases hm : move tm1 ids disp with
        | error e => simp [hm] at h
        | ok tm2 =>
          simp only [hm, Except.ok.injEq, Prod.mk.injEq] at h
          obtain ⟨rfl, _⟩ := h
          have hnd : ids.Nodup := by
            rcases hdom with h0 | h0
            · cases h0
            · exact h0 tm1 r known nt disp ids hc hg
          obtain ⟨g2, hn2⟩ := move_sound (c := c) g1.inv hnd hm
          exact ⟨g1.trans hi g2, by omega⟩
    | player =>
      simp only at h
      cases hg : groupIds .player fromP known nt with
      | error e => simp [hg] at h
      | ok ids =>
        simp only [hg] at h
        cases hm : move tm1 ids disp with
        | error e => simp [hm] at h
        | ok tm2 =>
          simp only [hm, Except.ok.injEq, Prod.mk.injEq] at h
          obtain ⟨rfl, _⟩ := h
          have hnd : ids.Nodup := by
            rcases hdom with h0 | h0
            · cases h0
            · exact h0 tm1 r known nt disp ids hc hg
          obtain ⟨g2, hn2⟩ := move_sound (c := c) g1.inv hnd hm
          exact ⟨g1.trans hi g2, by omega⟩

end Aoe.Trig
