import Aoe.Lemmas.TrigClosure
/-!
Helper lemmas for C06, part 12: the fuel of the tree search (`length + 2`) is never exhausted – the `Err.fuel` branch
of `findRec` is unreachable from `treeNodes`, so the fuelled model terminates exactly like the Python recursion.
-/
namespace Aoe.Trig
open List

/-- number of valid list indices that are not yet in `known` -/
def slack (n : Nat) (known : List Nat) : Nat := ((range n).filter (fun i => !known.contains i)).length

theorem slack_mono {n : Nat} {a b : List Nat} (h : ∀ x ∈ a, x ∈ b) : slack n b ≤ slack n a := by
  unfold slack
  have : (range n).filter (fun i => !b.contains i) = ((range n).filter (fun i => !a.contains i)).filter (fun i => !b.contains i) := by
    rw [filter_filter]
    apply filter_congr
    intro x _
    by_cases hb : x ∈ b
    · simp [hb]
    · have : x ∉ a := fun ha => hb (h x ha)
      simp [hb, this]
  rw [this]
  exact length_filter_le _ _

theorem slack_lt {n : Nat} {a b : List Nat} (h : ∀ x ∈ a, x ∈ b) {k : Nat} (hk : k < n) (hka : k ∉ a) (hkb : k ∈ b) :
    slack n b < slack n a := by
  have h1 : slack n b ≤ slack n (k :: a) := slack_mono (fun x hx => by
    rcases mem_cons.1 hx with rfl | hx
    · exact hkb
    · exact h x hx)
  have h2 : slack n (k :: a) < slack n a := by
    unfold slack
    have hmem : k ∈ (range n).filter (fun i => !a.contains i) := by simp [hk, hka]
    have : (range n).filter (fun i => !(k :: a).contains i) = ((range n).filter (fun i => !a.contains i)).erase k := by
      rw [(nodup_range.sublist filter_sublist).erase_eq_filter, filter_filter]
      apply filter_congr
      intro x _
      by_cases e : x = k <;> by_cases ha : x ∈ a <;> simp [e, ha]
    rw [this, length_erase_of_mem hmem]
    have := length_pos_of_mem hmem
    omega
  omega

theorem slack_le (n : Nat) (a : List Nat) : slack n a ≤ n := by
  unfold slack
  have := length_filter_le (fun i => !a.contains i) (range n)
  simpa using this

/-- with more fuel than unvisited valid indices the search never runs out of fuel -/
theorem findRec_no_fuel {fixed : Bool} {trigs : List Trig} : ∀ (fuel : Nat) (t : Trig) (known : List Nat),
    slack trigs.length known < fuel → findRec fixed trigs fuel t known ≠ .error .fuel
  | 0, _, _, h => by omega
  | fuel + 1, t, known, h => by
    simp only [findRec]
    cases ht : targetsNat (actTargets t) with
    | error e =>
      simp only [ht]
      -- `targetsNat` only raises `value`
      have : ∀ (l : List (Option Nat)) e, targetsNat l = .error e → e = .value := by
        intro l
        induction l with
        | nil => intro e h'; simp [targetsNat] at h'
        | cons a l ih =>
          intro e h'
          cases a with
          | none => simp [targetsNat] at h'; exact h'.symm
          | some k =>
            simp only [targetsNat] at h'
            cases hl : targetsNat l with
            | error e' => simp [hl] at h'; rw [← h']; exact ih e' hl
            | ok r => simp [hl] at h'
      intro hc
      have := this _ _ ht
      simp only [Except.error.injEq] at hc
      rw [this] at hc; cases hc
    | ok found =>
      simp only [ht]
      generalize hu : ((if fixed = true then dedup found else found).filter (fun i => !known.contains i)) = unknown
      by_cases hun : unknown = []
      · simp [hun]
      · simp only [hun, if_false]
        -- the loop: every accumulator contains `known ++ unknown`, hence has less slack than fuel
        have hloop : ∀ (l : List Nat) (kn : List Nat), slack trigs.length kn < fuel →
            l.foldlM (fun kn index =>
              match trigs[index]? with
              | none => Except.error Err.index
              | some t' => findRec fixed trigs fuel t' kn) kn ≠ .error .fuel := by
          intro l
          induction l with
          | nil => intro kn _; simp [pure, Except.pure]
          | cons a l ih =>
            intro kn hkn
            rw [foldlM_cons]
            cases ha : trigs[a]? with
            | none => simp [bind, Except.bind]
            | some t' =>
              simp only
              cases hf : findRec fixed trigs fuel t' kn with
              | error e =>
                simp only [bind, Except.bind]
                intro hc
                simp only [Except.error.injEq] at hc
                subst hc
                exact findRec_no_fuel fuel t' kn hkn hf
              | ok kn' =>
                simp only [bind, Except.bind]
                obtain ⟨extra, e, _⟩ := findRec_extends fuel t' kn kn' hf
                exact ih kn' (Nat.lt_of_le_of_lt (slack_mono (fun x hx => by rw [e]; simp [hx])) hkn)
        cases hul : unknown with
        | nil => exact absurd hul hun
        | cons a rest =>
          rw [foldlM_cons]
          cases ha : trigs[a]? with
          | none => simp [bind, Except.bind]
          | some t' =>
            have halt : a < trigs.length := (List.getElem?_eq_some_iff.1 ha).1
            have hanot : a ∉ known := by
              have : a ∈ unknown := by rw [hul]; simp
              rw [← hu] at this
              simpa using (mem_filter.1 this).2
            have hlt : slack trigs.length (known ++ a :: rest) < fuel := by
              have := slack_lt (n := trigs.length) (a := known) (b := known ++ a :: rest) (fun x hx => by simp [hx]) halt hanot (by simp)
              omega
            have := hloop (a :: rest) (known ++ a :: rest) hlt
            rw [foldlM_cons, ha] at this
            exact this

theorem treeNodes_no_fuel {fixed : Bool} {tm : TM} {f : Found} : treeNodes fixed tm f ≠ .error .fuel := by
  unfold treeNodes
  apply findRec_no_fuel
  have := slack_le tm.trigs.length [f.idx]
  omega

end Aoe.Trig
