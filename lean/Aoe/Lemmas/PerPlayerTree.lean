import Aoe.Lemmas.PerPlayerHeap
/-!
Lemmas about `copy_trigger_tree_per_player` (helpers of `Aoe.Props.C08`): the *frame* of a trigger object
(conditions, effects up to activation targets) is preserved by every step that is not the per-player rewriting –
relinking, `reorder_triggers`, `move_triggers` – and the per-node loop produces, for every owner, one copy per node.
-/
namespace Aoe.PerPlayer

/-- forget the target of a (de)activation effect -/
def stripLink (c : Comp) : Comp := if isAct c.kind then { c with link := 0 } else c

/-- the frame of a trigger object: its conditions and its effects up to the targets of (de)activation effects
(name and trigger id are not part of it) -/
def frame (t : Trig) : List Comp × List Comp := (t.conds, t.effs.map stripLink)

/-- frames of all objects of a heap -/
def frames (h : List Trig) : List (List Comp × List Comp) := h.map frame

theorem frames_modify (h : List Trig) (a : Nat) (g : Trig → Trig) (hg : ∀ t, frame (g t) = frame t) :
    frames (h.modify a g) = frames h := by
  unfold frames
  apply List.ext_getElem?
  intro j
  simp only [List.getElem?_map, List.getElem?_modify]
  cases h[j]? with
  | none => rfl
  | some t => by_cases e : a = j <;> simp [e, hg]

theorem frames_set (h : List Trig) (a : Nat) (t t' : Trig) (ht : h[a]? = some t) (hf : frame t' = frame t) :
    frames (h.set a t') = frames h := by
  unfold frames
  apply List.ext_getElem?
  intro j
  simp only [List.getElem?_map, List.getElem?_set]
  by_cases e : a = j
  · subst e
    have : a < h.length := by
      rcases Nat.lt_or_ge a h.length with h' | h'
      · exact h'
      · rw [List.getElem?_eq_none h'] at ht; cases ht
    have hg : h[a] = t := by
      have := List.getElem?_eq_getElem this
      rw [ht] at this; injection this with this; exact this.symm
    simp [this, hf, hg]
  · simp [e]

theorem frames_foldl_modify (g : Trig → Trig) (hg : ∀ t, frame (g t) = frame t) (l : List Nat) (h : List Trig) :
    frames (l.foldl (fun h a => h.modify a g) h) = frames h := by
  induction l generalizing h with
  | nil => rfl
  | cons a r ih => simp only [List.foldl_cons]; rw [ih, frames_modify _ _ _ hg]

theorem stripLink_relink (e : Comp) (v : Int) (h : isAct e.kind = true) :
    stripLink { e with link := v } = stripLink e := by
  simp [stripLink, h]

theorem relinkEffs_frame {sw : List (Int × List (Int × Int))} {p : Int} :
    ∀ {effs effs' : List Comp}, relinkEffs sw p effs = .ok effs' → effs'.map stripLink = effs.map stripLink := by
  intro effs
  induction effs with
  | nil => intro effs' h; simp only [relinkEffs] at h; injection h with h; subst h; rfl
  | cons e r ih =>
    intro effs' h
    unfold relinkEffs at h
    split at h
    · rename_i hact
      split at h
      · cases h
      · split at h
        · cases h
        · rename_i r' hr
          injection h with h; subst h
          simp [ih hr, stripLink_relink _ _ hact]
    · split at h
      · cases h
      · rename_i r' hr
        injection h with h; subst h
        simp [ih hr]

theorem relinkObj_frames {sw : List (Int × List (Int × Int))} {p : Int} {h h' : List Trig} {a : Nat}
    (hr : relinkObj sw p h a = .ok h') : frames h' = frames h := by
  unfold relinkObj at hr
  split at hr
  · cases hr
  · rename_i t ht
    rw [heapGet_ok] at ht
    split at hr
    · cases hr
    · rename_i effs he
      injection hr with hr; subst hr
      apply frames_set _ _ t _ ht
      simp [frame, relinkEffs_frame he]

theorem relinkList_frames {sw : List (Int × List (Int × Int))} {p : Int} :
    ∀ {l : List Nat} {h h' : List Trig}, relinkList sw p l h = .ok h' → frames h' = frames h := by
  intro l
  induction l with
  | nil => intro h h' hr; simp only [relinkList] at hr; injection hr with hr; subst hr; rfl
  | cons x r ih =>
    intro h h' hr
    unfold relinkList at hr
    split at hr
    · cases hr
    · rename_i h1 h1e
      rw [ih hr, relinkObj_frames h1e]

theorem relinkAll_frames {sw : List (Int × List (Int × Int))} :
    ∀ {nt : List (Int × List Nat)} {h h' : List Trig}, relinkAll sw nt h = .ok h' → frames h' = frames h := by
  intro nt
  induction nt with
  | nil => intro h h' hr; simp only [relinkAll] at hr; injection hr with hr; subst hr; rfl
  | cons x r ih =>
    intro h h' hr
    unfold relinkAll at hr
    split at hr
    · cases hr
    · rename_i h1 h1e
      rw [ih hr, relinkList_frames h1e]

theorem frame_remapLinks (ch : List (Int × Int)) (t : Trig) : frame (remapLinks ch t) = frame t := by
  unfold frame remapLinks
  simp only [List.map_map]
  congr 1
  apply List.map_congr_left
  intro e _
  simp only [Function.comp]
  split
  · rename_i hact
    split
    · exact stripLink_relink _ _ hact
    · rfl
  · rfl

theorem reorderLoop_frames {list : List Nat} :
    ∀ {o : List Int} {k : Nat} {heap : List Trig} {nl : List Nat} {ch : List (Int × Int)}
      {heap' : List Trig} {nl' : List Nat} {ch' : List (Int × Int)},
      reorderLoop list o k heap nl ch = .ok (heap', nl', ch') → frames heap' = frames heap := by
  intro o
  induction o with
  | nil =>
    intro k heap nl ch heap' nl' ch' h
    simp only [reorderLoop] at h
    injection h with h; injection h with h1 _; subst h1; rfl
  | cons idx rest ih =>
    intro k heap nl ch heap' nl' ch' h
    unfold reorderLoop at h
    split at h
    · cases h
    · split at h
      · cases h
      · rw [ih h, frames_modify]
        intro t; rfl

theorem reorder_frames {s s' : State} {o : List Int} (h : reorder s o = .ok s') : frames s'.heap = frames s.heap := by
  unfold reorder at h
  split at h
  · cases h
  · split at h
    · cases h
    · rename_i heap nl ch hl
      injection h with h; subst h
      simp only
      rw [frames_foldl_modify _ (frame_remapLinks ch), reorderLoop_frames hl]

theorem moveTriggers_frames {s s' : State} {ids : List Int} {i : Int} (h : moveTriggers s ids i = .ok s') :
    frames s'.heap = frames s.heap := by
  unfold moveTriggers at h
  split at h
  · cases h
  · split at h
    · exact reorder_frames h
    · split at h
      · cases h
      · split at h
        · cases h
        · exact reorder_frames h

theorem groupStep_frames {g : GroupBy} {frm : Int} {known : List Int} {nt : List (Int × List Nat)} {di : Int}
    {s s' : State} (h : groupStep g frm known nt di s = .ok s') : frames s'.heap = frames s.heap := by
  unfold groupStep at h
  split at h
  · injection h with h; subst h; rfl
  · split at h
    · cases h
    · exact moveTriggers_frames h

/-- `new_triggers.get(p, [])` -/
def lookupL : List (Int × List Nat) → Int → List Nat
  | [], _ => []
  | (k, l) :: r, p => if k == p then l else lookupL r p

theorem lookupL_dictPush (nt : List (Int × List Nat)) (q : Int) (x : Nat) (p : Int) :
    lookupL (dictPush nt q x) p = if q = p then lookupL nt p ++ [x] else lookupL nt p := by
  induction nt with
  | nil => by_cases h : q = p <;> simp [dictPush, lookupL, h]
  | cons kl r ih =>
    obtain ⟨k, l⟩ := kl
    unfold dictPush
    by_cases hk : k = q
    · subst hk
      by_cases hp : k = p
      · subst hp; simp [lookupL]
      · simp [lookupL, hp]
    · have hk' : (k == q) = false := by simpa using hk
      simp only [hk', Bool.false_eq_true, if_false]
      by_cases hp : k = p
      · subst hp
        have : ¬ q = k := fun e => hk e.symm
        simp [lookupL, this]
      · simp [lookupL, hp, ih]

theorem keys_dictPush (nt : List (Int × List Nat)) (q : Int) (x : Nat) :
    (dictPush nt q x).map (·.1) = addKey (nt.map (·.1)) q := by
  induction nt with
  | nil => simp [dictPush, addKey]
  | cons kl r ih =>
    obtain ⟨k, l⟩ := kl
    unfold dictPush
    by_cases hk : k = q
    · subst hk; simp [addKey]
    · have hk' : (k == q) = false := by simpa using hk
      simp only [hk', Bool.false_eq_true, if_false, List.map_cons, ih]
      unfold addKey
      have : ¬ q = k := fun e => hk e.symm
      by_cases hm : q ∈ r.map (·.1)
      · simp [hm]
      · simp [hm, this]

theorem mem_lookupL {nt : List (Int × List Nat)} (hn : (nt.map (·.1)).Nodup) {p : Int} {l : List Nat}
    (h : (p, l) ∈ nt) : lookupL nt p = l := by
  induction nt with
  | nil => cases h
  | cons kl r ih =>
    obtain ⟨k, l'⟩ := kl
    simp only [List.map_cons, List.nodup_cons] at hn
    rcases List.mem_cons.mp h with h | h
    · injection h with h1 h2; subst h1 h2; simp [lookupL]
    · have : k ≠ p := by
        intro e; subst e
        exact hn.1 (List.mem_map.mpr ⟨(k, l), h, rfl⟩)
      simp [lookupL, this, ih hn.2 h]

theorem lookupL_mem {nt : List (Int × List Nat)} {p : Int} (h : p ∈ nt.map (·.1)) : (p, lookupL nt p) ∈ nt := by
  induction nt with
  | nil => cases h
  | cons kl r ih =>
    obtain ⟨k, l'⟩ := kl
    by_cases e : k = p
    · subst e; simp [lookupL]
    · simp only [List.map_cons, List.mem_cons] at h
      rcases h with h | h
      · exact absurd h.symm e
      · simp only [lookupL, beq_iff_eq, e, if_false]
        exact List.mem_cons_of_mem _ (ih h)

/-- all the pushes of one node -/
def pushAll (nt : List (Int × List Nat)) (d : List (Int × Nat)) : List (Int × List Nat) :=
  d.foldl (fun acc pa => dictPush acc pa.1 pa.2) nt

theorem pushCopies_ok {heap : List Trig} {index : Int} :
    ∀ {d : List (Int × Nat)} {nt nt' : List (Int × List Nat)} {sw sw' : List (Int × List (Int × Int))},
      pushCopies heap index d nt sw = .ok (nt', sw') → nt' = pushAll nt d := by
  intro d
  induction d with
  | nil => intro nt nt' sw sw' h; simp only [pushCopies] at h; injection h with h; injection h with h1 _; subst h1; rfl
  | cons pa r ih =>
    intro nt nt' sw sw' h
    unfold pushCopies at h
    split at h
    · cases h
    · rw [ih h]; rfl

theorem lookupL_pushAll (d : List (Int × Nat)) (nt : List (Int × List Nat)) (p : Int) :
    lookupL (pushAll nt d) p = lookupL nt p ++ (d.filter (fun pa => pa.1 == p)).map (·.2) := by
  unfold pushAll
  induction d generalizing nt with
  | nil => simp
  | cons pa r ih =>
    simp only [List.foldl_cons]
    rw [ih, lookupL_dictPush]
    by_cases e : pa.1 = p
    · simp [e]
    · simp [e]

theorem keys_pushAll (d : List (Int × Nat)) (nt : List (Int × List Nat)) :
    (pushAll nt d).map (·.1) = (d.map (·.1)).foldl addKey (nt.map (·.1)) := by
  unfold pushAll
  induction d generalizing nt with
  | nil => simp
  | cons pa r ih => simp only [List.foldl_cons, List.map_cons]; rw [ih, keys_dictPush]

theorem filter_key_of_mem {d : List (Int × Nat)} (hn : (d.map (·.1)).Nodup) {p : Int} {x : Nat} (h : (p, x) ∈ d) :
    (d.filter (fun pa => pa.1 == p)).map (·.2) = [x] := by
  induction d with
  | nil => cases h
  | cons kv r ih =>
    obtain ⟨k, v⟩ := kv
    simp only [List.map_cons, List.nodup_cons] at hn
    rcases List.mem_cons.mp h with h | h
    · injection h with h1 h2; subst h1 h2
      have : r.filter (fun pa => pa.1 == p) = [] := by
        rw [List.filter_eq_nil_iff]
        intro pa hpa hc
        have : pa.1 = p := by simpa using hc
        exact hn.1 (List.mem_map.mpr ⟨pa, hpa, this⟩)
      simp [this]
    · have : k ≠ p := by
        intro e; subst e
        exact hn.1 (List.mem_map.mpr ⟨(k, x), h, rfl⟩)
      simp [this, ih hn.2 h]

theorem filter_key_of_not_mem {d : List (Int × Nat)} {p : Int} (h : p ∉ d.map (·.1)) :
    (d.filter (fun pa => pa.1 == p)).map (·.2) = [] := by
  have : d.filter (fun pa => pa.1 == p) = [] := by
    rw [List.filter_eq_nil_iff]
    intro pa hpa hc
    have : pa.1 = p := by simpa using hc
    exact h (List.mem_map.mpr ⟨pa, hpa, this⟩)
  simp [this]

theorem foldl_addKey_absorb (l ks : List Int) (h : ∀ q ∈ l, q ∈ ks) : l.foldl addKey ks = ks := by
  induction l with
  | nil => rfl
  | cons q r ih =>
    simp only [List.foldl_cons]
    have : addKey ks q = ks := by simp [addKey, h q List.mem_cons_self]
    rw [this]
    exact ih (fun q hq => h q (List.mem_cons_of_mem _ hq))


theorem stripLink_fields (c : Comp) :
    (stripLink c).kind = c.kind ∧ (stripLink c).src = c.src ∧ (stripLink c).tgt = c.tgt ∧
      (stripLink c).rest = c.rest ∧ (isAct c.kind = false → (stripLink c).link = c.link) := by
  unfold stripLink
  split <;> simp_all

theorem stripLink_rwCopy (f : Flags) (frm p : Int) (c : Comp) :
    stripLink (rwCopy f frm p c) = rwCopy f frm p (stripLink c) := by
  unfold stripLink rwCopy
  grind

theorem lockedBy_stripLink (la : Bool) (ids types : List Int) (j : Nat) (c : Comp) :
    lockedBy la ids types j (stripLink c) = lockedBy la ids types j c := by
  simp [lockedBy, (stripLink_fields c).1]

/-- `rewriteSpec` seen on frames -/
def frameSpec (g : Comp → Comp) (lk : Lock) (f : List Comp × List Comp) : List Comp × List Comp :=
  (f.1.mapIdx (fun j c => if lockedC lk j c then c else g c),
   f.2.mapIdx (fun j c => if lockedE lk j c then c else g c))

theorem frame_rewriteSpec (g : Comp → Comp) (lk : Lock) (t : Trig) (hg : ∀ c, stripLink (g c) = g (stripLink c)) :
    frame (rewriteSpec g lk t) = frameSpec g lk (frame t) := by
  unfold frame rewriteSpec frameSpec
  congr 1
  apply List.ext_getElem?
  intro j
  simp only [List.getElem?_map, List.getElem?_mapIdx]
  cases t.effs[j]? with
  | none => rfl
  | some c =>
    have hl : lockedE lk j (stripLink c) = lockedE lk j c := lockedBy_stripLink _ _ _ _ _
    simp only [Option.map_some, hl]
    by_cases h : lockedE lk j c = true
    · simp [h]
    · simp [h, hg]

/-- `l[i]` for a non-negative index is stable under extension of the list -/
theorem pyGet_prefix {α : Type} {l l' : List α} {i : Int} {y : α} (hi : 0 ≤ i) (hp : l <+: l')
    (h : pyGet l i = .ok y) : pyGet l' i = .ok y := by
  unfold pyGet pyIdx at h ⊢
  simp only [hi, if_true] at h ⊢
  obtain ⟨r, rfl⟩ := hp
  by_cases h1 : i.toNat < l.length
  · simp only [h1, if_true] at h
    have h2 : i.toNat < (l ++ r).length := by simp; omega
    simp only [h2, if_true]
    rw [List.getElem?_append_left h1]
    exact h
  · simp [h1] at h

theorem pyGet_ok_nonneg {α : Type} {l : List α} {i : Int} {y : α} (hi : 0 ≤ i) (h : pyGet l i = .ok y) :
    l[i.toNat]? = some y := by
  unfold pyGet pyIdx at h
  simp only [hi, if_true] at h
  by_cases h1 : i.toNat < l.length
  · simp only [h1, if_true] at h
    split at h
    · rename_i x hx; injection h with h; subst h; exact hx
    · cases h
  · simp [h1] at h

theorem pyIndexOf_mem {l : List Int} {x : Int} {k : Nat} (h : pyIndexOf l x = .ok k) : x ∈ l := by
  unfold pyIndexOf at h
  split at h
  · rename_i k' hk
    rw [List.findIdx?_eq_some_iff_getElem] at hk
    obtain ⟨hlt, hx, _⟩ := hk
    have : l[k'] = x := by simpa using hx
    exact this ▸ List.getElem_mem hlt
  · cases h

theorem resolve_index_ok {s : State} {i ti di : Int} {src : Nat} (h : resolve s (.index i) = .ok (ti, di, src)) :
    pyGet s.list i = .ok src ∧ i ∈ s.order := by
  unfold resolve at h
  cases hg : pyGet s.list i with
  | error e => simp [hg, bind, Except.bind] at h
  | ok a =>
    cases hi : pyIndexOf s.order i with
    | error e => simp [hg, hi, bind, Except.bind] at h
    | ok k =>
      simp only [hg, hi, bind, Except.bind, pure, Except.pure] at h
      injection h with h; injection h with _ h; injection h with _ h
      subst h
      exact ⟨rfl, pyIndexOf_mem hi⟩

theorem frames_append (h1 h2 : List Trig) : frames (h1 ++ h2) = frames h1 ++ frames h2 := by
  simp [frames]

theorem frames_getElem? (h : List Trig) (x : Nat) : (frames h)[x]? = h[x]?.map frame := by
  simp [frames]

theorem getElem?_lt {α : Type} {l : List α} {x : Nat} {v : α} (h : l[x]? = some v) : x < l.length := by
  rcases Nat.lt_or_ge x l.length with h' | h'
  · exact h'
  · rw [List.getElem?_eq_none h'] at h; cases h

theorem prefix_getElem? {α : Type} {l l' : List α} (hp : l <+: l') {x : Nat} {v : α} (h : l[x]? = some v) :
    l'[x]? = some v := by
  obtain ⟨r, rfl⟩ := hp
  rw [List.getElem?_append_left (getElem?_lt h)]; exact h

/-- the object at address `x` is (frame-wise) the copy for player `p` of the original object at address `y` -/
def Good (a : Args) (s : State) (F : List (List Comp × List Comp)) (p : Int) (x y : Nat) : Prop :=
  s.heap.length ≤ x ∧ ∃ t0, s.heap[y]? = some t0 ∧
    F[x]? = some (frameSpec (rwCopy a.flags a.frm p) a.lock (frame t0))

/-- positionwise `Good` -/
def GoodList (a : Args) (s : State) (F : List (List Comp × List Comp)) (p : Int) (l done : List Nat) : Prop :=
  l.length = done.length ∧ ∀ (i x y : Nat), l[i]? = some x → done[i]? = some y → Good a s F p x y

theorem Good.mono {a : Args} {s : State} {F F' : List (List Comp × List Comp)} {p : Int} {x y : Nat}
    (hp : F <+: F') (h : Good a s F p x y) : Good a s F' p x y := by
  obtain ⟨h1, t0, h2, h3⟩ := h
  exact ⟨h1, t0, h2, prefix_getElem? hp h3⟩

theorem GoodList.mono {a : Args} {s : State} {F F' : List (List Comp × List Comp)} {p : Int} {l done : List Nat}
    (hp : F <+: F') (h : GoodList a s F p l done) : GoodList a s F' p l done :=
  ⟨h.1, fun i x y hx hy => (h.2 i x y hx hy).mono hp⟩

theorem GoodList.snoc {a : Args} {s : State} {F : List (List Comp × List Comp)} {p : Int} {l done : List Nat}
    {x y : Nat} (h : GoodList a s F p l done) (hg : Good a s F p x y) :
    GoodList a s F p (l ++ [x]) (done ++ [y]) := by
  refine ⟨by simp [h.1], ?_⟩
  intro i x' y' hx hy
  rcases Nat.lt_or_ge i l.length with hi | hi
  · rw [List.getElem?_append_left hi] at hx
    rw [List.getElem?_append_left (h.1 ▸ hi)] at hy
    exact h.2 i x' y' hx hy
  · rw [List.getElem?_append_right hi] at hx
    rw [List.getElem?_append_right (h.1 ▸ hi)] at hy
    have h0 : i - l.length = 0 := by
      rcases Nat.eq_zero_or_pos (i - l.length) with h0 | h0
      · exact h0
      · rw [List.getElem?_eq_none (by simp; omega)] at hx; cases hx
    rw [h0] at hx
    rw [← h.1, h0] at hy
    simp at hx hy
    subst hx hy
    exact hg

theorem tree_step {a : Args} {s s1 s1' : State} {index : Int} {d : List (Int × Nat)} {y : Nat} {t0 : Trig}
    (hcall : copyPerPlayer s1 a (.index index) = .ok (s1', d))
    (hy : pyGet s.list index = .ok y) (ht0 : s.heap[y]? = some t0)
    (hF : frames s.heap <+: frames s1.heap) (hL : s.list <+: s1.list) (hO : ∀ i ∈ s1.order, 0 ≤ i) :
    frames s1.heap <+: frames s1'.heap ∧ s1.list <+: s1'.list ∧ (∀ i ∈ s1'.order, 0 ≤ i) ∧
    d.map (·.1) = owners a ∧ ∀ p x, (p, x) ∈ d → Good a s (frames s1'.heap) p x y := by
  obtain ⟨ti, di, src, t0', news, hres, hsrc, hheap, _, hlist, hord, hkeys, hcop⟩ := copyPerPlayer_ok hcall
  obtain ⟨hget, hmem⟩ := resolve_index_ok hres
  have hi : 0 ≤ index := hO _ hmem
  have hy1 := pyGet_prefix hi hL hy
  rw [hget] at hy1; injection hy1 with hy1; subst hy1
  have hfr : frames s1'.heap = frames s1.heap ++ frames news := by
    rw [hheap, frames_append, frames_modify]
    intro t; rfl
  have hft : frame t0' = frame t0 := by
    have h1 : (frames s.heap)[src]? = some (frame t0) := by rw [frames_getElem?, ht0]; rfl
    have h2 := prefix_getElem? hF h1
    rw [frames_getElem?, hsrc] at h2
    simpa using h2
  refine ⟨⟨frames news, hfr.symm⟩, ⟨_, hlist.symm⟩, ?_, hkeys, ?_⟩
  · intro i hi'
    rw [hord, List.mem_append] at hi'
    rcases hi' with h | h
    · exact hO i h
    · rcases List.mem_map.mp h with ⟨n, _, rfl⟩
      exact Int.natCast_nonneg n
  · intro p x hx
    obtain ⟨_, _, hge, k, hk⟩ := hcop p x hx
    refine ⟨?_, t0, ht0, ?_⟩
    · have := hF.length_le
      simp only [frames, List.length_map] at this
      omega
    · rw [frames_getElem?, hk, mkCopy_eq]
      simp only [Option.map_some]
      rw [frame_rewriteSpec _ _ _ (stripLink_rwCopy _ _ _)]
      congr 2

theorem nodeAddrs_cons {s : State} {i : Int} {r : List Int} {l : List Nat} (h : nodeAddrs s (i :: r) = .ok l) :
    ∃ y ys, pyGet s.list i = .ok y ∧ nodeAddrs s r = .ok ys ∧ l = y :: ys := by
  unfold nodeAddrs at h
  split at h
  · cases h
  · rename_i y hy
    split at h
    · cases h
    · rename_i ys hys
      injection h with h
      exact ⟨y, ys, hy, hys, h.symm⟩

theorem treeCopyLoop_inv {a : Args} {s : State} :
    ∀ {rest : List Int} {s1 : State} {nt1 : List (Int × List Nat)} {sw1 : List (Int × List (Int × Int))}
      {s2 : State} {nt2 : List (Int × List Nat)} {sw2 : List (Int × List (Int × Int))} {done restAddrs : List Nat},
    treeCopyLoop a rest s1 nt1 sw1 = .ok (s2, nt2, sw2) →
    nodeAddrs s rest = .ok restAddrs →
    (∀ y ∈ restAddrs, ∃ t0, s.heap[y]? = some t0) →
    frames s.heap <+: frames s1.heap → s.list <+: s1.list → (∀ i ∈ s1.order, 0 ≤ i) →
    (∀ p ∈ owners a, GoodList a s (frames s1.heap) p (lookupL nt1 p) done) →
    frames s1.heap <+: frames s2.heap ∧
    (∀ p, p ∉ owners a → lookupL nt2 p = lookupL nt1 p) ∧
    (nt2.map (·.1) = if rest = [] then nt1.map (·.1) else (owners a).foldl addKey (nt1.map (·.1))) ∧
    (∀ p ∈ owners a, GoodList a s (frames s2.heap) p (lookupL nt2 p) (done ++ restAddrs)) := by
  intro rest
  induction rest with
  | nil =>
    intro s1 nt1 sw1 s2 nt2 sw2 done restAddrs h hn _ _ _ _ hG
    simp only [treeCopyLoop] at h
    injection h with h; injection h with h1 h2; injection h2 with h2 _
    subst h1 h2
    simp only [nodeAddrs] at hn
    injection hn with hn; subst hn
    exact ⟨List.prefix_refl _, fun _ _ => rfl, by simp, by simpa using hG⟩
  | cons index rest' ih =>
    intro s1 nt1 sw1 s2 nt2 sw2 done restAddrs h hn hsrc hF hL hO hG
    obtain ⟨y, ys, hy, hys, rfl⟩ := nodeAddrs_cons hn
    obtain ⟨t0, ht0⟩ := hsrc y List.mem_cons_self
    unfold treeCopyLoop at h
    split at h
    · cases h
    · rename_i s1' d hcall
      split at h
      · cases h
      · rename_i nt1' sw1' hpush
        have hnt := pushCopies_ok hpush
        obtain ⟨g1, g2, g3, g4, g5⟩ := tree_step hcall hy ht0 hF hL hO
        have hnod : (d.map (·.1)).Nodup := by rw [g4]; exact nodup_foldl_addKey _ _ List.nodup_nil
        have hG' : ∀ p ∈ owners a, GoodList a s (frames s1'.heap) p (lookupL nt1' p) (done ++ [y]) := by
          intro p hp
          have hpd : p ∈ d.map (·.1) := by rw [g4]; exact hp
          obtain ⟨⟨p', x⟩, hpx, hp'⟩ := List.mem_map.mp hpd
          simp only at hp'; subst hp'
          rw [hnt, lookupL_pushAll, filter_key_of_mem hnod hpx]
          exact ((hG p' hp).mono g1).snoc (g5 p' x hpx)
        obtain ⟨k1, k2, k3, k4⟩ := ih h hys (fun y' hy' => hsrc y' (List.mem_cons_of_mem _ hy'))
          (hF.trans g1) (hL.trans g2) g3 hG'
        refine ⟨g1.trans k1, ?_, ?_, ?_⟩
        · intro p hp
          rw [k2 p hp, hnt, lookupL_pushAll, filter_key_of_not_mem (by rw [g4]; exact hp)]
          simp
        · rw [k3]
          have hk : nt1'.map (·.1) = (owners a).foldl addKey (nt1.map (·.1)) := by
            rw [hnt, keys_pushAll, g4]
          simp only [List.cons_ne_nil, if_false]
          split
          · exact hk
          · rw [hk]
            apply foldl_addKey_absorb
            intro q hq
            rw [mem_foldl_addKey]; exact Or.inr hq
        · intro p hp
          have := k4 p hp
          simpa [List.append_assoc] using this

theorem foldlM_prefix {α : Type} {f : List Int → α → Except Err (List Int)}
    (hf : ∀ k i k', f k i = .ok k' → k <+: k') :
    ∀ {l : List α} {init r : List Int}, l.foldlM f init = .ok r → init <+: r := by
  intro l
  induction l with
  | nil => intro init r h; simp only [List.foldlM_nil, pure, Except.pure] at h; injection h with h; subst h; exact List.prefix_refl _
  | cons x xs ih =>
    intro init r h
    simp only [List.foldlM_cons, bind, Except.bind] at h
    split at h
    · cases h
    · rename_i k' hk
      exact (hf _ _ _ hk).trans (ih h)

theorem dfs_prefix {fixed : Bool} {s : State} :
    ∀ {fuel : Nat} {a : Nat} {known k' : List Int}, dfs fixed s fuel a known = .ok k' → known <+: k' := by
  intro fuel
  induction fuel with
  | zero => intro a known k' h; simp [dfs] at h
  | succ n ih =>
    intro a known k' h
    unfold dfs at h
    split at h
    · cases h
    · rename_i t ht
      split at h
      · injection h with h; subst h; exact List.prefix_refl _
      · have hp := foldlM_prefix (f := fun k i =>
            match pyGet s.list i with
            | .error e => .error e
            | .ok a' => dfs fixed s n a' k) (by
            intro k i k'' hk
            split at hk
            · cases hk
            · exact ih hk) h
        exact (List.prefix_append _ _).trans hp

theorem swapInit_heap {s : State} {frm : Int} :
    ∀ {known : List Int} {sw sw' : List (Int × List (Int × Int))} {srcs : List Nat},
      swapInit s frm known sw = .ok sw' → nodeAddrs s known = .ok srcs → ∀ y ∈ srcs, ∃ t0, s.heap[y]? = some t0 := by
  intro known
  induction known with
  | nil => intro sw sw' srcs _ hn; simp only [nodeAddrs] at hn; injection hn with hn; subst hn; intro y hy; cases hy
  | cons i r ih =>
    intro sw sw' srcs h hn
    obtain ⟨y, ys, hy, hys, rfl⟩ := nodeAddrs_cons hn
    unfold swapInit at h
    rw [hy] at h
    simp only at h
    split at h
    · cases h
    · rename_i t ht
      rw [heapGet_ok] at ht
      intro y' hy'
      rcases List.mem_cons.mp hy' with e | e
      · subst e; exact ⟨t, ht⟩
      · exact ih h hys y' e

theorem frm_not_mem_owners (a : Args) : a.frm ∉ owners a := by
  unfold owners
  rw [mem_foldl_addKey]
  simp

/-- what a successful `copy_trigger_tree_per_player` returns, at the level of frames -/
theorem copyTree_ok {fixed : Bool} {fuel : Nat} {s s' : State} {a : Args} {sel : Sel} {g : GroupBy}
    {nt : List (Int × List Nat)} (h : copyTreePerPlayer fixed fuel s a sel g = .ok (s', nt))
    (hO : ∀ i ∈ s.order, 0 ≤ i) :
    ∃ ti di src known srcs,
      resolve s sel = .ok (ti, di, src) ∧ dfs fixed s fuel src [ti] = .ok known ∧ nodeAddrs s known = .ok srcs ∧
      frames s.heap <+: frames s'.heap ∧
      nt.map (·.1) = a.frm :: owners a ∧
      lookupL nt a.frm = srcs ∧
      (∀ y ∈ srcs, ∃ t0, s.heap[y]? = some t0) ∧
      ∀ p ∈ owners a, GoodList a s (frames s'.heap) p (lookupL nt p) srcs := by
  unfold copyTreePerPlayer at h
  split at h
  · cases h
  · rename_i ti di src hres
    split at h
    · cases h
    · rename_i known hdfs
      split at h
      · cases h
      · rename_i srcs hsrcs
        split at h
        · cases h
        · rename_i sw0 hsw
          split at h
          · cases h
          · rename_i s1 nt1 sw hloop
            split at h
            · cases h
            · rename_i heap2 hrel
              split at h
              · cases h
              · rename_i s3 hgrp
                injection h with h; injection h with h1 h2
                subst h1 h2
                have hheap := swapInit_heap hsw hsrcs
                have hfo := frm_not_mem_owners a
                have hG0 : ∀ p ∈ owners a, GoodList a s (frames s.heap) p (lookupL [(a.frm, srcs)] p) [] := by
                  intro p hp
                  have : a.frm ≠ p := fun e => hfo (e ▸ hp)
                  simp [lookupL, this, GoodList]
                obtain ⟨k1, k2, k3, k4⟩ := treeCopyLoop_inv hloop hsrcs hheap (List.prefix_refl _)
                  (List.prefix_refl _) hO hG0
                have hne : known ≠ [] := by
                  intro e
                  have := (dfs_prefix hdfs).length_le
                  rw [e] at this; simp at this
                have hfr : frames s3.heap = frames s1.heap := by
                  rw [groupStep_frames hgrp]; exact relinkAll_frames hrel
                refine ⟨ti, di, src, known, srcs, hres, hdfs, hsrcs, ?_, ?_, ?_, hheap, ?_⟩
                · rw [hfr]; exact k1
                · rw [k3]
                  simp only [hne, if_false, List.map_cons, List.map_nil]
                  rw [foldl_addKey_of_nodup]
                  · rfl
                  · simp only [List.singleton_append, List.nodup_cons]
                    exact ⟨hfo, nodup_foldl_addKey _ _ List.nodup_nil⟩
                · rw [k2 _ hfo]; simp [lookupL]
                · intro p hp
                  rw [hfr]
                  simpa using k4 p hp

theorem nodup_eraseDups (l : List Int) : l.eraseDups.Nodup := by
  generalize hn : l.length = n
  induction n using Nat.strongRecOn generalizing l with
  | _ n ih =>
    cases l with
    | nil => simp
    | cons a as =>
      rw [List.eraseDups_cons, List.nodup_cons]
      constructor
      · rw [List.mem_eraseDups, List.mem_filter]
        simp
      · apply ih (as.filter fun b => !b == a).length _ _ rfl
        have := List.length_filter_le (fun b => !b == a) as
        simp at hn; omega

theorem unknownOf_spec (fixed : Bool) (known : List Int) (t : Trig) :
    (∀ i ∈ unknownOf fixed known t, i ∉ known) ∧ (fixed = true → (unknownOf fixed known t).Nodup) := by
  unfold unknownOf
  constructor
  · intro i hi
    split at hi
    · rw [List.mem_eraseDups, List.mem_filter] at hi
      simpa using hi.2
    · rw [List.mem_filter] at hi
      simpa using hi.2
  · intro hf
    simp only [hf, if_true]
    exact nodup_eraseDups _

theorem foldlM_inv {α : Type} {P : List Int → Prop} {f : List Int → α → Except Err (List Int)}
    (hf : ∀ k i k', P k → f k i = .ok k' → P k') :
    ∀ {l : List α} {init r : List Int}, P init → l.foldlM f init = .ok r → P r := by
  intro l
  induction l with
  | nil => intro init r hp h; simp only [List.foldlM_nil, pure, Except.pure] at h; injection h with h; subst h; exact hp
  | cons x xs ih =>
    intro init r hp h
    simp only [List.foldlM_cons, bind, Except.bind] at h
    split at h
    · cases h
    · rename_i k' hk
      exact ih (hf _ _ _ hp hk) h

/-- with the repair, no trigger index enters the node list twice -/
theorem dfs_nodup {s : State} :
    ∀ {fuel : Nat} {a : Nat} {known k' : List Int}, dfs true s fuel a known = .ok k' → known.Nodup → k'.Nodup := by
  intro fuel
  induction fuel with
  | zero => intro a known k' h; simp [dfs] at h
  | succ n ih =>
    intro a known k' h hn
    unfold dfs at h
    split at h
    · cases h
    · rename_i t ht
      split at h
      · injection h with h; subst h; exact hn
      · have hu := unknownOf_spec true known t
        refine foldlM_inv (P := List.Nodup) (f := fun k i =>
            match pyGet s.list i with
            | .error e => .error e
            | .ok a' => dfs true s n a' k) ?_ ?_ h
        · intro k i k'' hk hki
          split at hki
          · cases hki
          · exact ih hki hk
        · rw [List.nodup_append]
          refine ⟨hn, hu.2 rfl, ?_⟩
          intro x hx y hy e
          subst e
          exact hu.1 x hy hx

/-- equal except possibly the target of a (de)activation effect -/
def SameUpToLink (c' c'' : Comp) : Prop :=
  c'.kind = c''.kind ∧ c'.src = c''.src ∧ c'.tgt = c''.tgt ∧ c'.rest = c''.rest ∧
    (isAct c''.kind = false → c'.link = c''.link)

theorem sameUpToLink_of_strip {c' c'' : Comp} (h : stripLink c' = stripLink c'') : SameUpToLink c' c'' := by
  obtain ⟨a1, a2, a3, a4, a5⟩ := stripLink_fields c'
  obtain ⟨b1, b2, b3, b4, b5⟩ := stripLink_fields c''
  have hk : c'.kind = c''.kind := by rw [← a1, ← b1, h]
  refine ⟨hk, by rw [← a2, ← b2, h], by rw [← a3, ← b3, h], by rw [← a4, ← b4, h], ?_⟩
  intro hact
  rw [← a5 (hk ▸ hact), ← b5 hact, h]

/-- components of an object whose frame is that of a rewritten source -/
theorem corr_of_frame {g : Comp → Comp} {lk : Lock} {t0 t' : Trig} (hf : frame t' = frame (rewriteSpec g lk t0))
    {isEff : Bool} {j : Nat} {c c' : Comp} (h : Corr t0 t' isEff j c c') :
    SameUpToLink c' (if lockedAt lk isEff j c then c else g c) := by
  unfold frame rewriteSpec at hf
  injection hf with hf1 hf2
  simp only at hf1 hf2
  unfold Corr at h
  unfold lockedAt
  cases isEff
  · simp only [Bool.false_eq_true, if_false] at h ⊢
    obtain ⟨h1, h2⟩ := h
    rw [hf1, List.getElem?_mapIdx, h1] at h2
    simp only [Option.map_some] at h2
    injection h2 with h2
    rw [← h2]
    exact ⟨rfl, rfl, rfl, rfl, fun _ => rfl⟩
  · simp only [if_true] at h ⊢
    obtain ⟨h1, h2⟩ := h
    apply sameUpToLink_of_strip
    have e1 : (t'.effs.map stripLink)[j]? = some (stripLink c') := by rw [List.getElem?_map, h2]; rfl
    rw [hf2, List.getElem?_map, List.getElem?_mapIdx, h1] at e1
    simp only [Option.map_some] at e1
    injection e1 with e1
    exact e1.symm

end Aoe.PerPlayer
