import Aoe.Model.Units
/-!
Helper lemmas for C10: the bookkeeping invariant `UInv` and its preservation by every operation of the model
`Aoe.Model.Units`.  Core Lean only.
-/
namespace Aoe.Units

/-- The bookkeeping invariant of the unit manager (C10).
* `owner`  – every reference in owner `p`'s list names an existing object, and that object reports owner `p`;
* `nodup`  – no list holds a reference twice (with `owner`: every stored unit is stored exactly once);
* `handedLt`, `handedInc` – the automatically assigned ids are strictly increasing (hence unique) and all below
  the counter;
* `fileLtNext`, `fileLt` – every id of the loaded file is below the counter and below every automatic id. -/
structure UInv (s : State) : Prop where
  owner : ∀ p i, i ∈ s.lists p → ∃ u, s.heap[i]? = some u ∧ u.player = p
  nodup : ∀ p, (s.lists p).Nodup
  handedLt : ∀ a ∈ s.handed, a < s.nextId
  handedInc : s.handed.Pairwise (· < ·)
  fileLtNext : ∀ f ∈ s.fileIds, f < s.nextId
  fileLt : ∀ f ∈ s.fileIds, ∀ a ∈ s.handed, f < a

@[simp] theorem upd_same (f : Player → List Nat) (p : Player) (l : List Nat) : upd f p l p = l := by
  simp [upd]

@[simp] theorem upd_other (f : Player → List Nat) (p q : Player) (l : List Nat) (h : q ≠ p) :
    upd f p l q = f q := by
  simp [upd, h]

theorem lt_of_get {l : List Unit} {i : Nat} {u : Unit} (h : l[i]? = some u) : i < l.length := by
  obtain ⟨h', _⟩ := List.getElem?_eq_some_iff.mp h
  exact h'

/-- a reference is in at most one list -/
theorem UInv.list_unique {s : State} (h : UInv s) {p q : Player} {i : Nat}
    (hp : i ∈ s.lists p) (hq : i ∈ s.lists q) : p = q := by
  obtain ⟨u, hu, hup⟩ := h.owner p i hp
  obtain ⟨v, hv, hvq⟩ := h.owner q i hq
  rw [hu] at hv
  cases hv
  rw [← hup, ← hvq]

/-! ### id generator -/

theorem uinv_newId {s : State} (h : UInv s) : UInv (newId s).2 where
  owner := h.owner
  nodup := h.nodup
  handedLt := by
    intro a ha
    simp only [newId, List.mem_append, List.mem_singleton] at ha ⊢
    rcases ha with ha | ha
    · have := h.handedLt a ha; omega
    · omega
  handedInc := by
    simp only [newId, List.pairwise_append, List.pairwise_cons, List.Pairwise.nil, List.mem_singleton]
    refine ⟨h.handedInc, ⟨by simp, trivial⟩, ?_⟩
    intro a ha b hb
    subst hb
    exact h.handedLt a ha
  fileLtNext := by
    intro f hf
    have := h.fileLtNext f hf
    simp only [newId]; omega
  fileLt := by
    intro f hf a ha
    simp only [newId, List.mem_append, List.mem_singleton] at ha
    rcases ha with ha | ha
    · exact h.fileLt f hf a ha
    · subst ha; exact h.fileLtNext f hf

theorem uinv_saveCounter {s : State} (h : UInv s) : UInv (saveCounter s).2 where
  owner := h.owner
  nodup := h.nodup
  handedLt := by
    intro a ha
    have := h.handedLt a ha
    simp only [saveCounter]; omega
  handedInc := h.handedInc
  fileLtNext := by
    intro f hf
    have := h.fileLtNext f hf
    simp only [saveCounter]; omega
  fileLt := h.fileLt

/-! ### add -/

/-- appending a fresh object to the list of the owner it reports -/
theorem uinv_push {s : State} (h : UInv s) (u : Unit) :
    UInv { s with heap := s.heap ++ [u],
                  lists := upd s.lists u.player (s.lists u.player ++ [s.heap.length]) } where
  owner := by
    intro q i hi
    simp only at hi ⊢
    by_cases hq : q = u.player
    · subst hq
      simp only [upd_same, List.mem_append, List.mem_singleton] at hi
      rcases hi with hi | hi
      · obtain ⟨v, hv, hvp⟩ := h.owner _ i hi
        exact ⟨v, by rw [List.getElem?_append_left (lt_of_get hv)]; exact hv, hvp⟩
      · subst hi
        exact ⟨u, List.getElem?_concat_length, rfl⟩
    · rw [upd_other _ _ _ _ hq] at hi
      obtain ⟨v, hv, hvp⟩ := h.owner _ i hi
      exact ⟨v, by rw [List.getElem?_append_left (lt_of_get hv)]; exact hv, hvp⟩
  nodup := by
    intro q
    simp only
    by_cases hq : q = u.player
    · subst hq
      simp only [upd_same]
      rw [List.nodup_append]
      refine ⟨h.nodup _, by simp, ?_⟩
      intro a ha b hb
      simp only [List.mem_singleton] at hb
      subst hb
      obtain ⟨v, hv, _⟩ := h.owner _ a ha
      exact Nat.ne_of_lt (lt_of_get hv)
    · rw [upd_other _ _ _ _ hq]
      exact h.nodup q
  handedLt := h.handedLt
  handedInc := h.handedInc
  fileLtNext := h.fileLtNext
  fileLt := h.fileLt

theorem addUnit_eq (s : State) (a : AddArgs) :
    addUnit s a =
      match a.refId with
      | some r => ({ s with heap := s.heap ++ [mkUnit a r],
                            lists := upd s.lists a.player (s.lists a.player ++ [s.heap.length]) }, s.heap.length)
      | none => ({ (newId s).2 with heap := s.heap ++ [mkUnit a s.nextId],
                                    lists := upd s.lists a.player (s.lists a.player ++ [s.heap.length]) },
                 s.heap.length) := by
  cases h : a.refId <;> simp [addUnit, h, newId]

theorem uinv_addUnit {s : State} (h : UInv s) (a : AddArgs) : UInv (addUnit s a).1 := by
  rw [addUnit_eq]
  cases a.refId with
  | some r => exact uinv_push h (mkUnit a r)
  | none => exact uinv_push (uinv_newId h) (mkUnit a s.nextId)

theorem uinv_cloneUnit {cfg : Cfg} {s s' : State} {src i : Nat} {c : CloneArgs} (h : UInv s)
    (hc : cloneUnit cfg s src c = .ok (s', i)) : UInv s' := by
  unfold cloneUnit at hc
  split at hc
  · cases hc
  · split at hc
    · cases hc
    · injection hc with hc
      have := uinv_addUnit h (cloneAddArgs cfg ‹Unit› c)
      rw [hc] at this
      exact this

/-! ### remove -/

theorem uinv_removeObj {s s' : State} {i : Nat} (h : UInv s) (hr : removeObj s i = .ok s') : UInv s' := by
  unfold removeObj at hr
  split at hr
  · cases hr
  · rename_i u hu
    split at hr
    · injection hr with hr
      subst hr
      refine ⟨?_, ?_, h.handedLt, h.handedInc, h.fileLtNext, h.fileLt⟩
      · intro q j hj
        simp only at hj ⊢
        by_cases hq : q = u.player
        · subst hq
          rw [upd_same] at hj
          exact h.owner _ j (List.mem_of_mem_erase hj)
        · rw [upd_other _ _ _ _ hq] at hj
          exact h.owner _ j hj
      · intro q
        simp only
        by_cases hq : q = u.player
        · subst hq
          rw [upd_same]
          exact (h.nodup _).erase i
        · rw [upd_other _ _ _ _ hq]
          exact h.nodup q
    · cases hr

theorem uinv_removeById {s : State} (h : UInv s) (r : Int) : UInv (removeById s r) := by
  unfold removeById
  split
  · exact h
  · rename_i p _
    refine ⟨?_, ?_, h.handedLt, h.handedInc, h.fileLtNext, h.fileLt⟩
    · intro q j hj
      simp only at hj ⊢
      by_cases hq : q = p
      · subst hq
        rw [upd_same] at hj
        exact h.owner _ j (List.mem_of_mem_eraseP hj)
      · rw [upd_other _ _ _ _ hq] at hj
        exact h.owner _ j hj
    · intro q
      simp only
      by_cases hq : q = p
      · subst hq
        rw [upd_same]
        exact (h.nodup _).sublist List.eraseP_sublist
      · rw [upd_other _ _ _ _ hq]
        exact h.nodup q

theorem uinv_removeUnit {s s' : State} {rid : Option Int} {obj : Option Nat} (h : UInv s)
    (hr : removeUnit s rid obj = .ok s') : UInv s' := by
  unfold removeUnit at hr
  split at hr
  · cases hr
  · cases hr
  · injection hr with hr
    subst hr
    exact uinv_removeById h _
  · exact uinv_removeObj h hr

/-! ### ownership change -/

/-- after `units[u.player].remove(u)` the reference `i` is in no list, all other references stay -/
theorem mem_after_remove {s : State} (h : UInv s) {i : Nat} {u : Unit} (hu : s.heap[i]? = some u)
    {q : Player} {j : Nat} (hj : j ∈ upd s.lists u.player ((s.lists u.player).erase i) q) :
    j ≠ i ∧ j ∈ s.lists q := by
  by_cases hq : q = u.player
  · subst hq
    rw [upd_same] at hj
    exact (h.nodup _).mem_erase_iff.mp hj
  · rw [upd_other _ _ _ _ hq] at hj
    refine ⟨?_, hj⟩
    intro hji
    subst hji
    obtain ⟨v, hv, hvq⟩ := h.owner q j hj
    rw [hu] at hv
    cases hv
    exact hq hvq.symm

theorem nodup_after_remove {s : State} (h : UInv s) (i : Nat) (p q : Player) :
    (upd s.lists p ((s.lists p).erase i) q).Nodup := by
  by_cases hq : q = p
  · subst hq
    rw [upd_same]
    exact (h.nodup _).erase i
  · rw [upd_other _ _ _ _ hq]
    exact h.nodup q

theorem uinv_setPlayer {s s' : State} {i : Nat} {p : Player} (h : UInv s)
    (hs : setPlayer s i p = .ok s') : UInv s' := by
  unfold setPlayer at hs
  split at hs
  · cases hs
  · rename_i u hu
    split at hs
    · injection hs with hs
      subst hs
      have hlt := lt_of_get hu
      refine ⟨?_, ?_, h.handedLt, h.handedInc, h.fileLtNext, h.fileLt⟩
      · intro q j hj
        simp only at hj ⊢
        by_cases hq : q = p
        · subst hq
          simp only [upd_same, List.mem_append, List.mem_singleton] at hj
          rcases hj with hj | hj
          · obtain ⟨hne, hm⟩ := mem_after_remove h hu hj
            rw [List.getElem?_set_ne (Ne.symm hne)]
            exact h.owner _ j hm
          · subst hj
            exact ⟨{ u with player := q }, List.getElem?_set_self hlt, rfl⟩
        · rw [upd_other _ _ _ _ hq] at hj
          obtain ⟨hne, hm⟩ := mem_after_remove h hu hj
          rw [List.getElem?_set_ne (Ne.symm hne)]
          exact h.owner _ j hm
      · intro q
        simp only
        by_cases hq : q = p
        · subst hq
          rw [upd_same, List.nodup_append]
          refine ⟨nodup_after_remove h i _ _, by simp, ?_⟩
          intro a ha b hb
          simp only [List.mem_singleton] at hb
          subst hb
          exact (mem_after_remove h hu ha).1
        · rw [upd_other _ _ _ _ hq]
          exact nodup_after_remove h i _ _
    · cases hs

theorem uinv_chownList {p : Player} (is : List Nat) : ∀ {s : State}, UInv s → UInv (chownList s is p).1 := by
  induction is with
  | nil => intro s h; exact h
  | cons i rest ih =>
    intro s h
    unfold chownList
    cases hs : setPlayer s i p with
    | error e => exact h
    | ok s' => exact ih (uinv_setPlayer h hs)

/-! ### every operation, every history -/

theorem uinv_step (cfg : Cfg) {s : State} (h : UInv s) (op : Op) : UInv (step cfg s op) := by
  cases op with
  | add a => exact uinv_addUnit h a
  | clone src c =>
    simp only [step]
    cases hc : cloneUnit cfg s src c with
    | error e => exact h
    | ok r => exact uinv_cloneUnit (s' := r.1) (i := r.2) h hc
  | remove rid obj =>
    simp only [step]
    cases hr : removeUnit s rid obj with
    | error e => exact h
    | ok s' => exact uinv_removeUnit h hr
  | setPlayer i p =>
    simp only [step]
    cases hs : setPlayer s i p with
    | error e => exact h
    | ok s' => exact uinv_setPlayer h hs
  | chown is p => exact uinv_chownList is h
  | newId => exact uinv_newId h
  | save => exact uinv_saveCounter h

theorem uinv_run (cfg : Cfg) (ops : List Op) : ∀ {s : State}, UInv s → UInv (run cfg s ops) := by
  induction ops with
  | nil => intro s h; exact h
  | cons op rest ih => intro s h; exact ih (uinv_step cfg h op)

/-! ### the loaded state -/

theorem uinv_load (counter : Int) (file : List Unit) (hc : ∀ u ∈ file, u.refId < counter) :
    UInv (load counter file) where
  owner := by
    intro p i hi
    simp only [load, List.mem_filter, List.mem_range] at hi ⊢
    obtain ⟨_, hm⟩ := hi
    split at hm
    · rename_i u hu
      exact ⟨u, hu, by simpa using hm⟩
    · cases hm
  nodup := by
    intro p
    exact List.nodup_range.sublist List.filter_sublist
  handedLt := by intro a ha; cases ha
  handedInc := List.Pairwise.nil
  fileLtNext := by
    intro f hf
    simp only [load, List.mem_map] at hf
    obtain ⟨u, hu, rfl⟩ := hf
    exact hc u hu
  fileLt := by intro f _ a ha; cases ha

/-! ### what `add_unit` does to the lists -/

/-- the id `add_unit` gives the new unit: the supplied one, else the next value of the generator -/
def ridOf (s : State) (r : Option Int) : Int :=
  match r with
  | some r => r
  | none => s.nextId

theorem addUnit_spec (s : State) (a : AddArgs) :
    (addUnit s a).2 = s.heap.length ∧
    (addUnit s a).1.heap = s.heap ++ [mkUnit a (ridOf s a.refId)] ∧
    (addUnit s a).1.lists = upd s.lists a.player (s.lists a.player ++ [s.heap.length]) ∧
    (addUnit s a).1.fileIds = s.fileIds ∧
    (addUnit s a).1.handed = (match a.refId with | some _ => s.handed | none => s.handed ++ [s.nextId]) ∧
    (addUnit s a).1.nextId = (match a.refId with | some _ => s.nextId | none => s.nextId + 1) := by
  rw [addUnit_eq]
  cases a.refId <;> simp [ridOf, newId]

theorem addUnit_get (s : State) (a : AddArgs) :
    (addUnit s a).1.heap[(addUnit s a).2]? = some (mkUnit a (ridOf s a.refId)) := by
  obtain ⟨h1, h2, _⟩ := addUnit_spec s a
  rw [h1, h2]
  exact List.getElem?_concat_length

theorem addUnit_old (s : State) (a : AddArgs) {j : Nat} {u : Unit} (h : s.heap[j]? = some u) :
    (addUnit s a).1.heap[j]? = some u := by
  obtain ⟨_, h2, _⟩ := addUnit_spec s a
  rw [h2, List.getElem?_append_left (lt_of_get h)]
  exact h

/-! ### removal, exactly -/

theorem removeObj_spec {s s' : State} {i : Nat} (h : UInv s) (hr : removeObj s i = .ok s') :
    ∃ u, s.heap[i]? = some u ∧ i ∈ s.lists u.player ∧
      s'.heap = s.heap ∧ s'.nextId = s.nextId ∧ s'.handed = s.handed ∧ s'.fileIds = s.fileIds ∧
      s'.lists u.player = (s.lists u.player).erase i ∧
      (s.lists u.player).length = (s'.lists u.player).length + 1 ∧
      (∀ q, q ≠ u.player → s'.lists q = s.lists q) ∧
      (∀ q, s'.lists q = (s.lists q).filter (· != i)) := by
  unfold removeObj at hr
  split at hr
  · cases hr
  · rename_i u hu
    split at hr
    · rename_i hmem
      injection hr with hr
      subst hr
      refine ⟨u, hu, hmem, rfl, rfl, rfl, rfl, by simp, ?_, ?_, ?_⟩
      · simp only [upd_same, List.length_erase_of_mem hmem]
        have : 0 < (s.lists u.player).length := List.length_pos_of_mem hmem
        omega
      · intro q hq
        simp only [upd_other _ _ _ _ hq]
      · intro q
        simp only
        by_cases hq : q = u.player
        · subst hq
          rw [upd_same]
          exact (h.nodup _).erase_eq_filter i
        · rw [upd_other _ _ _ _ hq]
          symm
          rw [List.filter_eq_self]
          intro a ha
          simp only [bne_iff_ne, ne_eq]
          intro hai
          subst hai
          exact hq (h.list_unique ha hmem)
    · cases hr

/-- `remove_unit(reference_id = r)` when no stored unit carries `r`: nothing happens -/
theorem removeById_absent {s : State} {r : Int} (hn : ∀ p, ∀ j ∈ s.lists p, hasRef s r j = false) :
    removeById s r = s := by
  unfold removeById
  have : (List.finRange 9).find? (fun p => (s.lists p).any (hasRef s r)) = none := by
    rw [List.find?_eq_none]
    intro p _
    simp only [List.any_eq_true, not_exists, not_and, Bool.not_eq_true]
    exact hn p
  rw [this]

/-- `remove_unit(reference_id = r)` when some stored unit carries `r`: the first such unit in owner order, then
list order, is taken out; every other reference stays where it was -/
theorem removeById_present {s : State} {r : Int} {p₀ : Player} {j₀ : Nat} (hj : j₀ ∈ s.lists p₀)
    (hr : hasRef s r j₀ = true) :
    ∃ (p : Player) (l₁ : List Nat) (i : Nat) (l₂ : List Nat),
      s.lists p = l₁ ++ i :: l₂ ∧ hasRef s r i = true ∧ (∀ j ∈ l₁, hasRef s r j = false) ∧
      (∀ q, q < p → ∀ j ∈ s.lists q, hasRef s r j = false) ∧
      (removeById s r).lists = upd s.lists p (l₁ ++ l₂) ∧
      (removeById s r).heap = s.heap ∧ (removeById s r).nextId = s.nextId ∧
      (removeById s r).handed = s.handed ∧ (removeById s r).fileIds = s.fileIds := by
  unfold removeById
  cases hf : (List.finRange 9).find? (fun p => (s.lists p).any (hasRef s r)) with
  | none =>
    rw [List.find?_eq_none] at hf
    exact absurd (List.any_eq_true.mpr ⟨j₀, hj, hr⟩) (hf p₀ (List.mem_finRange p₀))
  | some p =>
    obtain ⟨hp, as, bs, hsplit, has⟩ := List.find?_eq_some_iff_append.mp hf
    simp only [List.any_eq_true] at hp
    obtain ⟨j, hjm, hjr⟩ := hp
    obtain ⟨i, l₁, l₂, hl₁, hi, hl, he⟩ := List.exists_of_eraseP hjm hjr
    refine ⟨p, l₁, i, l₂, hl, hi, ?_, ?_, ?_, rfl, rfl, rfl, rfl⟩
    · intro j hj
      simpa using hl₁ j hj
    · intro q hq j hjq
      have hpw := List.pairwise_lt_finRange 9
      rw [hsplit, List.pairwise_append] at hpw
      have hqm : q ∈ as ++ p :: bs := hsplit ▸ List.mem_finRange q
      rw [List.mem_append, List.mem_cons] at hqm
      rcases hqm with hqa | hqp | hqb
      · have := has q hqa
        simp only [Bool.not_eq_eq_eq_not, Bool.not_true] at this
        cases hh : hasRef s r j with
        | false => rfl
        | true =>
          have : (s.lists q).any (hasRef s r) = true := List.any_eq_true.mpr ⟨j, hjq, hh⟩
          simp_all
      · exact absurd hqp (Fin.ne_of_lt hq)
      · have := (List.pairwise_cons.mp hpw.2.1).1 q hqb
        exact absurd hq (Fin.lt_asymm this)
    · simp only
      rw [he]

/-! ### how the generator state evolves -/

/-- ids handed out by an operation are at least the old counter; the counter never decreases -/
def Grows (s s' : State) : Prop :=
  s.nextId ≤ s'.nextId ∧ s'.fileIds = s.fileIds ∧ ∀ a ∈ s'.handed, a ∈ s.handed ∨ s.nextId ≤ a

theorem Grows.refl (s : State) : Grows s s := ⟨Int.le_refl _, rfl, fun _ h => Or.inl h⟩

theorem Grows.trans {a b c : State} (h1 : Grows a b) (h2 : Grows b c) : Grows a c := by
  refine ⟨Int.le_trans h1.1 h2.1, h2.2.1.trans h1.2.1, ?_⟩
  intro x hx
  rcases h2.2.2 x hx with h | h
  · exact h1.2.2 x h
  · exact Or.inr (Int.le_trans h1.1 h)

theorem grows_of_eq {s s' : State} (hn : s'.nextId = s.nextId) (hh : s'.handed = s.handed)
    (hf : s'.fileIds = s.fileIds) : Grows s s' :=
  ⟨by rw [hn]; exact Int.le_refl _, hf, fun a ha => Or.inl (hh ▸ ha)⟩

theorem grows_addUnit (s : State) (a : AddArgs) : Grows s (addUnit s a).1 := by
  obtain ⟨_, _, _, hf, hh, hn⟩ := addUnit_spec s a
  refine ⟨?_, hf, ?_⟩
  · rw [hn]; cases a.refId <;> simp <;> omega
  · intro x hx
    rw [hh] at hx
    cases hr : a.refId with
    | some r => rw [hr] at hx; exact Or.inl hx
    | none =>
      rw [hr] at hx
      simp only [List.mem_append, List.mem_singleton] at hx
      rcases hx with hx | hx
      · exact Or.inl hx
      · exact Or.inr (by omega)

theorem grows_setPlayer {s s' : State} {i : Nat} {p : Player} (hs : setPlayer s i p = .ok s') : Grows s s' := by
  unfold setPlayer at hs
  split at hs
  · cases hs
  · split at hs
    · injection hs with hs; subst hs; exact grows_of_eq rfl rfl rfl
    · cases hs

theorem grows_chownList {p : Player} (is : List Nat) : ∀ (s : State), Grows s (chownList s is p).1 := by
  induction is with
  | nil => intro s; exact Grows.refl s
  | cons i rest ih =>
    intro s
    unfold chownList
    cases hs : setPlayer s i p with
    | error e => exact Grows.refl s
    | ok s' => exact (grows_setPlayer hs).trans (ih s')

theorem grows_removeById (s : State) (r : Int) : Grows s (removeById s r) := by
  unfold removeById
  split
  · exact Grows.refl s
  · exact grows_of_eq rfl rfl rfl

theorem grows_removeObj {s s' : State} {i : Nat} (hr : removeObj s i = .ok s') : Grows s s' := by
  unfold removeObj at hr
  split at hr
  · cases hr
  · split at hr
    · injection hr with hr; subst hr; exact grows_of_eq rfl rfl rfl
    · cases hr

theorem grows_step (cfg : Cfg) (s : State) (op : Op) : Grows s (step cfg s op) := by
  cases op with
  | add a => exact grows_addUnit s a
  | clone src c =>
    simp only [step]
    cases hc : cloneUnit cfg s src c with
    | error e => exact Grows.refl s
    | ok r =>
      unfold cloneUnit at hc
      split at hc
      · cases hc
      · split at hc
        · cases hc
        · injection hc with hc
          subst hc
          exact grows_addUnit s _
  | remove rid obj =>
    simp only [step]
    cases hr : removeUnit s rid obj with
    | error e => exact Grows.refl s
    | ok s' =>
      unfold removeUnit at hr
      split at hr
      · cases hr
      · cases hr
      · injection hr with hr; subst hr; exact grows_removeById s _
      · exact grows_removeObj hr
  | setPlayer i p =>
    simp only [step]
    cases hs : setPlayer s i p with
    | error e => exact Grows.refl s
    | ok s' => exact grows_setPlayer hs
  | chown is p => exact grows_chownList is s
  | newId =>
    refine ⟨by simp [step, newId]; omega, rfl, ?_⟩
    intro a ha
    simp only [step, newId, List.mem_append, List.mem_singleton] at ha
    rcases ha with ha | ha
    · exact Or.inl ha
    · exact Or.inr (by omega)
  | save =>
    exact ⟨by simp [step, saveCounter]; omega, rfl, fun a ha => Or.inl ha⟩

theorem grows_run (cfg : Cfg) (ops : List Op) : ∀ (s : State), Grows s (run cfg s ops) := by
  induction ops with
  | nil => intro s; exact Grows.refl s
  | cons op rest ih => intro s; exact (grows_step cfg s op).trans (ih _)

/-! ### reference ids of all objects unique (holds as long as no explicit reference id is supplied) -/

def refs (s : State) : List Int := s.heap.map (·.refId)

/-- every object ever created has its own reference id, all below the counter -/
structure IdInv (s : State) : Prop where
  nodup : (refs s).Nodup
  lt : ∀ r ∈ refs s, r < s.nextId

/-- the operation supplies no explicit `reference_id` -/
def Op.auto : Op → Bool
  | .add a => a.refId.isNone
  | .clone _ c => c.refId.isNone
  | _ => true

theorem set_same {l : List Unit} {i : Nat} {u : Unit} (h : l[i]? = some u) (p : Player) :
    (l.set i { u with player := p }).map (·.refId) = l.map (·.refId) := by
  apply List.ext_getElem?
  intro j
  by_cases hj : i = j
  · subst hj
    rw [List.map_set, List.getElem?_set_self (by simpa using lt_of_get h)]
    simp [h]
  · simp [List.getElem?_map, List.getElem?_set_ne hj]

theorem idinv_of_eq {s s' : State} (h : IdInv s) (hr : refs s' = refs s) (hn : s.nextId ≤ s'.nextId) :
    IdInv s' :=
  ⟨hr ▸ h.nodup, fun r hm => Int.lt_of_lt_of_le (h.lt r (hr ▸ hm)) hn⟩

theorem idinv_addAuto {s : State} (h : IdInv s) (a : AddArgs) (ha : a.refId = none) :
    IdInv (addUnit s a).1 := by
  obtain ⟨_, h2, _, _, _, hn⟩ := addUnit_spec s a
  rw [ha] at hn
  dsimp only at hn
  have hrefs : refs (addUnit s a).1 = refs s ++ [s.nextId] := by
    simp [refs, h2, ha, ridOf, mkUnit]
  constructor
  · rw [hrefs, List.nodup_append]
    refine ⟨h.nodup, by simp, ?_⟩
    intro x hx y hy
    simp only [List.mem_singleton] at hy
    subst hy
    exact Int.ne_of_lt (h.lt x hx)
  · intro r hr
    rw [hrefs] at hr
    simp only [List.mem_append, List.mem_singleton] at hr
    rw [hn]
    rcases hr with hr | hr
    · have := h.lt r hr; omega
    · omega

theorem idinv_setPlayer {s s' : State} {i : Nat} {p : Player} (h : IdInv s) (hs : setPlayer s i p = .ok s') :
    IdInv s' := by
  unfold setPlayer at hs
  split at hs
  · cases hs
  · rename_i u hu
    split at hs
    · injection hs with hs
      subst hs
      exact idinv_of_eq h (set_same hu p) (Int.le_refl _)
    · cases hs

theorem idinv_chownList {p : Player} (is : List Nat) : ∀ {s : State}, IdInv s → IdInv (chownList s is p).1 := by
  induction is with
  | nil => intro s h; exact h
  | cons i rest ih =>
    intro s h
    unfold chownList
    cases hs : setPlayer s i p with
    | error e => exact h
    | ok s' => exact ih (idinv_setPlayer h hs)

theorem idinv_removeById {s : State} (h : IdInv s) (r : Int) : IdInv (removeById s r) := by
  unfold removeById
  split
  · exact h
  · exact idinv_of_eq h rfl (Int.le_refl _)

theorem idinv_removeObj {s s' : State} {i : Nat} (h : IdInv s) (hr : removeObj s i = .ok s') : IdInv s' := by
  unfold removeObj at hr
  split at hr
  · cases hr
  · split at hr
    · injection hr with hr; subst hr; exact idinv_of_eq h rfl (Int.le_refl _)
    · cases hr

theorem idinv_step (cfg : Cfg) {s : State} (h : IdInv s) (op : Op) (ha : op.auto = true) :
    IdInv (step cfg s op) := by
  cases op with
  | add a =>
    simp only [Op.auto, Option.isNone_iff_eq_none] at ha
    exact idinv_addAuto h a ha
  | clone src c =>
    simp only [Op.auto, Option.isNone_iff_eq_none] at ha
    simp only [step]
    cases hc : cloneUnit cfg s src c with
    | error e => exact h
    | ok r =>
      unfold cloneUnit at hc
      split at hc
      · cases hc
      · split at hc
        · cases hc
        · injection hc with hc
          subst hc
          exact idinv_addAuto h _ ha
  | remove rid obj =>
    simp only [step]
    cases hr : removeUnit s rid obj with
    | error e => exact h
    | ok s' =>
      unfold removeUnit at hr
      split at hr
      · cases hr
      · cases hr
      · injection hr with hr
        subst hr
        exact idinv_removeById h _
      · exact idinv_removeObj h hr
  | setPlayer i p =>
    simp only [step]
    cases hs : setPlayer s i p with
    | error e => exact h
    | ok s' => exact idinv_setPlayer h hs
  | chown is p => exact idinv_chownList is h
  | newId => exact idinv_of_eq h rfl (by simp [step, newId]; omega)
  | save => exact idinv_of_eq h rfl (by simp [step, saveCounter]; omega)

theorem idinv_run (cfg : Cfg) (ops : List Op) :
    ∀ {s : State}, IdInv s → (∀ op ∈ ops, op.auto = true) → IdInv (run cfg s ops) := by
  induction ops with
  | nil => intro s h _; exact h
  | cons op rest ih =>
    intro s h ha
    exact ih (idinv_step cfg h op (ha op (List.mem_cons_self))) (fun o ho => ha o (List.mem_cons_of_mem _ ho))

theorem idinv_load (counter : Int) (file : List Unit) (hn : (file.map (·.refId)).Nodup)
    (hc : ∀ u ∈ file, u.refId < counter) : IdInv (load counter file) := by
  refine ⟨hn, ?_⟩
  intro r hr
  simp only [refs, load, List.mem_map] at hr
  obtain ⟨u, hu, rfl⟩ := hr
  exact hc u hu

/-- two objects with the same reference id are the same object -/
theorem IdInv.same {s : State} (h : IdInv s) {i j : Nat} {u v : Unit} (hu : s.heap[i]? = some u)
    (hv : s.heap[j]? = some v) (he : u.refId = v.refId) : i = j := by
  have hi : i < (refs s).length := by simp [refs]; exact lt_of_get hu
  apply (List.getElem?_inj hi h.nodup).mp
  simp [refs, List.getElem?_map, hu, hv, he]

/-- with unique ids, `remove_unit(reference_id = id of unit i)` takes out exactly the stored unit `i` -/
theorem removeById_designated {s : State} (h : UInv s) (hid : IdInv s) {p : Player} {i : Nat} {u : Unit}
    (hi : i ∈ s.lists p) (hu : s.heap[i]? = some u) :
    ∀ q, (removeById s u.refId).lists q = (s.lists q).filter (· != i) := by
  have hr : hasRef s u.refId i = true := by simp [hasRef, hu]
  obtain ⟨p', l₁, i', l₂, hl, hi', _, _, hlists, _⟩ := removeById_present hi hr
  have hii : i' = i := by
    unfold hasRef at hi'
    split at hi'
    · rename_i v hv
      exact hid.same hv hu (by simpa using hi')
    · cases hi'
  subst hii
  have hmem : i' ∈ s.lists p' := by rw [hl]; simp
  have hpp : p = p' := h.list_unique hi hmem
  subst hpp
  intro q
  rw [hlists]
  by_cases hq : q = p
  · subst hq
    rw [upd_same]
    have hnd := h.nodup q
    rw [hl] at hnd ⊢
    rw [← hnd.erase_eq_filter i']
    have hni : i' ∉ l₁ := by
      intro hm
      have := (List.nodup_append.mp hnd).2.2 i' hm i' (by simp)
      exact this rfl
    rw [List.erase_append_right _ hni, List.erase_cons_head]
  · rw [upd_other _ _ _ _ hq]
    symm
    rw [List.filter_eq_self]
    intro a ha
    simp only [bne_iff_ne, ne_eq]
    intro hai
    subst hai
    exact hq (h.list_unique ha hmem)

end Aoe.Units
