import Aoe.Model.Units
/-!
Helper lemmas for C10: the bookkeeping invariant `UInv` and its preservation by every operation of the model
`Aoe.Model.Units`.  Core Lean only.
-/
namespace Aoe.Units

/-- The bookkeeping invariant of the unit manager (C10).
* `owner`  – every reference in owner `p`'s list names an existing object, and that object reports owner `p`;
* `nodup`  – no list holds a reference twice (with `owner`: every stored unit is stored exactly once);
* `handedLt`, `handedInc` – the automatically assigned ids are strictly increasing (hence unique) and all below
  the counter;
* `fileLtNext`, `fileLt` – every id of the loaded file is below the counter and below every automatic id. -/
structure UInv (s : State) : Prop where
  owner : ∀ p i, i ∈ s.lists p → ∃ u, s.heap[i]? = some u ∧ u.player = p
  nodup : ∀ p, (s.lists p).Nodup
  handedLt : ∀ a ∈ s.handed, a < s.nextId
  handedInc : s.handed.Pairwise (· < ·)
  fileLtNext : ∀ f ∈ s.fileIds, f < s.nextId
  fileLt : ∀ f ∈ s.fileIds, ∀ a ∈ s.handed, f < a

@[simp] theorem upd_same (f : Player → List Nat) (p : Player) (l : List Nat) : upd f p l p = l := by
  simp [upd]

@[simp] theorem upd_other (f : Player → List Nat) (p q : Player) (l : List Nat) (h : q ≠ p) :
    upd f p l q = f q := by
  simp [upd, h]

theorem lt_of_get {l : List Unit} {i : Nat} {u : Unit} (h : l[i]? = some u) : i < l.length := by
  obtain ⟨h', _⟩ := List.getElem?_eq_some_iff.mp h
  exact h'

/-- a reference is in at most one list -/
theorem UInv.list_unique {s : State} (h : UInv s) {p q : Player} {i : Nat}
    (hp : i ∈ s.lists p) (hq : i ∈ s.lists q) : p = q := by
  obtain ⟨u, hu, hup⟩ := h.owner p i hp
  obtain ⟨v, hv, hvq⟩ := h.owner q i hq
  rw [hu] at hv
  cases hv
  rw [← hup, ← hvq]

/-! ### id generator -/

theorem uinv_newId {s : State} (h : UInv s) : UInv (newId s).2 where
  owner := h.owner
  nodup := h.nodup
  handedLt := by
    intro a ha
    simp only [newId, List.mem_append, List.mem_singleton] at ha ⊢
    rcases ha with ha | ha
    · have := h.handedLt a ha; omega
    · omega
  handedInc := by
    simp only [newId, List.pairwise_append, List.pairwise_cons, List.Pairwise.nil, List.mem_singleton]
    refine ⟨h.handedInc, ⟨by simp, trivial⟩, ?_⟩
    intro a ha b hb
    subst hb
    exact h.handedLt a ha
  fileLtNext := by
    intro f hf
    have := h.fileLtNext f hf
    simp only [newId]; omega
  fileLt := by
    intro f hf a ha
    simp only [newId, List.mem_append, List.mem_singleton] at ha
    rcases ha with ha | ha
    · exact h.fileLt f hf a ha
    · subst ha; exact h.fileLtNext f hf

theorem uinv_saveCounter {s : State} (h : UInv s) : UInv (saveCounter s).2 where
  owner := h.owner
  nodup := h.nodup
  handedLt := by
    intro a ha
    have := h.handedLt a ha
    simp only [saveCounter]; omega
  handedInc := h.handedInc
  fileLtNext := by
    intro f hf
    have := h.fileLtNext f hf
    simp only [saveCounter]; omega
  fileLt := h.fileLt

/-! ### add -/

/-- appending a fresh object to the list of the owner it reports -/
theorem uinv_push {s : State} (h : UInv s) (u : Unit) :
    UInv { s with heap := s.heap ++ [u],
                  lists := upd s.lists u.player (s.lists u.player ++ [s.heap.length]) } where
  owner := by
    intro q i hi
    simp only at hi ⊢
    by_cases hq : q = u.player
    · subst hq
      simp only [upd_same, List.mem_append, List.mem_singleton] at hi
      rcases hi with hi | hi
      · obtain ⟨v, hv, hvp⟩ := h.owner _ i hi
        exact ⟨v, by rw [List.getElem?_append_left (lt_of_get hv)]; exact hv, hvp⟩
      · subst hi
        exact ⟨u, List.getElem?_concat_length, rfl⟩
    · rw [upd_other _ _ _ _ hq] at hi
      obtain ⟨v, hv, hvp⟩ := h.owner _ i hi
      exact ⟨v, by rw [List.getElem?_append_left (lt_of_get hv)]; exact hv, hvp⟩
  nodup := by
    intro q
    simp only
    by_cases hq : q = u.player
    · subst hq
      simp only [upd_same]
      rw [List.nodup_append]
      refine ⟨h.nodup _, by simp, ?_⟩
      intro a ha b hb
      simp only [List.mem_singleton] at hb
      subst hb
      obtain ⟨v, hv, _⟩ := h.owner _ a ha
      exact Nat.ne_of_lt (lt_of_get hv)
    · rw [upd_other _ _ _ _ hq]
      exact h.nodup q
  handedLt := h.handedLt
  handedInc := h.handedInc
  fileLtNext := h.fileLtNext
  fileLt := h.fileLt

theorem addUnit_eq (s : State) (a : AddArgs) :
    addUnit s a =
      match a.refId with
      | some r => ({ s with heap := s.heap ++ [mkUnit a r],
                            lists := upd s.lists a.player (s.lists a.player ++ [s.heap.length]) }, s.heap.length)
      | none => ({ (newId s).2 with heap := s.heap ++ [mkUnit a s.nextId],
                                    lists := upd s.lists a.player (s.lists a.player ++ [s.heap.length]) },
                 s.heap.length) := by
  cases h : a.refId <;> simp [addUnit, h, newId]

theorem uinv_addUnit {s : State} (h : UInv s) (a : AddArgs) : UInv (addUnit s a).1 := by
  rw [addUnit_eq]
  cases a.refId with
  | some r => exact uinv_push h (mkUnit a r)
  | none => exact uinv_push (uinv_newId h) (mkUnit a s.nextId)

theorem uinv_cloneUnit {cfg : Cfg} {s s' : State} {src i : Nat} {c : CloneArgs} (h : UInv s)
    (hc : cloneUnit cfg s src c = .ok (s', i)) : UInv s' := by
  unfold cloneUnit at hc
  split at hc
  · cases hc
  · split at hc
    · cases hc
    · injection hc with hc
      have := uinv_addUnit h (cloneAddArgs cfg ‹Unit› c)
      rw [hc] at this
      exact this

/-! ### remove -/

theorem uinv_removeObj {s s' : State} {i : Nat} (h : UInv s) (hr : removeObj s i = .ok s') : UInv s' := by
  unfold removeObj at hr
  split at hr
  · cases hr
  · rename_i u hu
    split at hr
    · injection hr with hr
      subst hr
      refine ⟨?_, ?_, h.handedLt, h.handedInc, h.fileLtNext, h.fileLt⟩
      · intro q j hj
        simp only at hj ⊢
        by_cases hq : q = u.player
        · subst hq
          rw [upd_same] at hj
          exact h.owner _ j (List.mem_of_mem_erase hj)
        · rw [upd_other _ _ _ _ hq] at hj
          exact h.owner _ j hj
      · intro q
        simp only
        by_cases hq : q = u.player
        · subst hq
          rw [upd_same]
          exact (h.nodup _).erase i
        · rw [upd_other _ _ _ _ hq]
          exact h.nodup q
    · cases hr

theorem uinv_removeById {s : State} (h : UInv s) (r : Int) : UInv (removeById s r) := by
  unfold removeById
  split
  · exact h
  · rename_i p _
    refine ⟨?_, ?_, h.handedLt, h.handedInc, h.fileLtNext, h.fileLt⟩
    · intro q j hj
      simp only at hj ⊢
      by_cases hq : q = p
      · subst hq
        rw [upd_same] at hj
        exact h.owner _ j (List.mem_of_mem_eraseP hj)
      · rw [upd_other _ _ _ _ hq] at hj
        exact h.owner _ j hj
    · intro q
      simp only
      by_cases hq : q = p
      · subst hq
        rw [upd_same]
        exact (h.nodup _).sublist List.eraseP_sublist
      · rw [upd_other _ _ _ _ hq]
        exact h.nodup q

theorem uinv_removeUnit {s s' : State} {rid : Option Int} {obj : Option Nat} (h : UInv s)
    (hr : removeUnit s rid obj = .ok s') : UInv s' := by
  unfold removeUnit at hr
  split at hr
  · cases hr
  · cases hr
  · injection hr with hr
    subst hr
    exact uinv_removeById h _
  · exact uinv_removeObj h hr

/-! ### ownership change -/

/-- after `units[u.player].remove(u)` the reference `i` is in no list, all other references stay -/
theorem mem_after_remove {s : State} (h : UInv s) {i : Nat} {u : Unit} (hu : s.heap[i]? = some u)
    {q : Player} {j : Nat} (hj : j ∈ upd s.lists u.player ((s.lists u.player).erase i) q) :
    j ≠ i ∧ j ∈ s.lists q := by
  by_cases hq : q = u.player
  · subst hq
    rw [upd_same] at hj
    exact (h.nodup _).mem_erase_iff.mp hj
  · rw [upd_other _ _ _ _ hq] at hj
    refine ⟨?_, hj⟩
    intro hji
    subst hji
    obtain ⟨v, hv, hvq⟩ := h.owner q j hj
    rw [hu] at hv
    cases hv
    exact hq hvq.symm

theorem nodup_after_remove {s : State} (h : UInv s) (i : Nat) (p q : Player) :
    (upd s.lists p ((s.lists p).erase i) q).Nodup := by
  by_cases hq : q = p
  · subst hq
    rw [upd_same]
    exact (h.nodup _).erase i
  · rw [upd_other _ _ _ _ hq]
    exact h.nodup q

theorem uinv_setPlayer {s s' : State} {i : Nat} {p : Player} (h : UInv s)
    (hs : setPlayer s i p = .ok s') : UInv s' := by
  unfold setPlayer at hs
  split at hs
  · cases hs
  · rename_i u hu
    split at hs
    · injection hs with hs
      subst hs
      have hlt := lt_of_get hu
      refine ⟨?_, ?_, h.handedLt, h.handedInc, h.fileLtNext, h.fileLt⟩
      · intro q j hj
        simp only at hj ⊢
        by_cases hq : q = p
        · subst hq
          simp only [upd_same, List.mem_append, List.mem_singleton] at hj
          rcases hj with hj | hj
          · obtain ⟨hne, hm⟩ := mem_after_remove h hu hj
            rw [List.getElem?_set_ne (Ne.symm hne)]
            exact h.owner _ j hm
          · subst hj
            exact ⟨{ u with player := q }, List.getElem?_set_self hlt, rfl⟩
        · rw [upd_other _ _ _ _ hq] at hj
          obtain ⟨hne, hm⟩ := mem_after_remove h hu hj
          rw [List.getElem?_set_ne (Ne.symm hne)]
          exact h.owner _ j hm
      · intro q
        simp only
        by_cases hq : q = p
        · subst hq
          rw [upd_same, List.nodup_append]
          refine ⟨nodup_after_remove h i _ _, by simp, ?_⟩
          intro a ha b hb
          simp only [List.mem_singleton] at hb
          subst hb
          exact (mem_after_remove h hu ha).1
        · rw [upd_other _ _ _ _ hq]
          exact nodup_after_remove h i _ _
    · cases hs

theorem uinv_chownList {p : Player} (is : List Nat) : ∀ {s : State}, UInv s → UInv (chownList s is p).1 := by
  induction is with
  | nil => intro s h; exact h
  | cons i rest ih =>
    intro s h
    unfold chownList
    cases hs : setPlayer s i p with
    | error e => exact h
    | ok s' => exact ih (uinv_setPlayer h hs)

/-! ### every operation, every history -/

theorem uinv_step (cfg : Cfg) {s : State} (h : UInv s) (op : Op) : UInv (step cfg s op) := by
  cases op with
  | add a => exact uinv_addUnit h a
  | clone src c =>
    simp only [step]
    cases hc : cloneUnit cfg s src c with
    | error e => exact h
    | ok r => exact uinv_cloneUnit (s' := r.1) (i := r.2) h hc
  | remove rid obj =>
    simp only [step]
    cases hr : removeUnit s rid obj with
    | error e => exact h
    | ok s' => exact uinv_removeUnit h hr
  | setPlayer i p =>
    simp only [step]
    cases hs : setPlayer s i p with
    | error e => exact h
    | ok s' => exact uinv_setPlayer h hs
  | chown is p => exact uinv_chownList is h
  | newId => exact uinv_newId h
  | save => exact uinv_saveCounter h

theorem uinv_run (cfg : Cfg) (ops : List Op) : ∀ {s : State}, UInv s → UInv (run cfg s ops) := by
  induction ops with
  | nil => intro s h; exact h
  | cons op rest ih => intro s h; exact ih (uinv_step cfg h op)

/-! ### the loaded state -/

theorem uinv_load (counter : Int) (file : List Unit) (hc : ∀ u ∈ file, u.refId < counter) :
    UInv (load counter file) where
  owner := by
    intro p i hi
    simp only [load, List.mem_filter, List.mem_range] at hi ⊢
    obtain ⟨_, hm⟩ := hi
    split at hm
    · rename_i u hu
      exact ⟨u, hu, by simpa using hm⟩
    · cases hm
  nodup := by
    intro p
    exact List.nodup_range.sublist List.filter_sublist
  handedLt := by intro a ha; cases ha
  handedInc := List.Pairwise.nil
  fileLtNext := by
    intro f hf
    simp only [load, List.mem_map] at hf
    obtain ⟨u, hu, rfl⟩ := hf
    exact hc u hu
  fileLt := by intro f _ a ha; cases ha

end Aoe.Units
