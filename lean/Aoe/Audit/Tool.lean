import Lean
/-!
`#audit_module M` prints, for every theorem declared in module `M`, the axioms it depends on,
one line per theorem:  `AXIOMS <theorem> : [ax1, ax2, …]`.
The check script parses these lines; anything outside {propext, Classical.choice, Quot.sound}
fails the audit (this also reveals `sorryAx`, `Lean.ofReduceBool` from `native_decide`, and the
per-theorem axioms of `bv_decide`).
-/
open Lean Elab Command

elab "#audit_module " m:ident : command => do
  let env ← getEnv
  let some idx := env.getModuleIdx? m.getId
    | throwError "audit: module {m.getId} is not imported"
  let names := env.header.moduleData[idx.toNat]!.constNames
  let mut n : Nat := 0
  for c in names do
    if c.isInternalDetail then continue
    match env.find? c with
    | some (.thmInfo _) =>
      let axs ← collectAxioms c
      let axs := axs.qsort Name.lt
      logInfo m!"AXIOMS {c} : {axs.toList}"
      n := n + 1
    | _ => pure ()
  logInfo m!"AUDITED {m.getId} theorems={n}"
