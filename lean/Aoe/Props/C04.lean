import Aoe.Props.Codec
/-!
# C04 – every file the library writes is well-formed

"Well-formed" = decodable by the independent reader of the version's structure definition with no bytes missing or left
over, every stored count equal to the number of stored elements. In the model that is `Consistent table tree`, and the
run-time verdict `consistentB = true` that the harness obtains for every file the library writes implies it
(`wellformed_of_check`). The theorems say what a consistent tree guarantees, for every table.

Partial: that the library's COMMIT always produces a consistent tree (`Inv m → Consistent (commit m t)`) is not yet a
theorem (the manager commit model M4 is under construction); it is checked on the real code for every saved file of
every explored history by decoding it with the generated reader (`harness/h_c04.py`).
-/
namespace Aoe.Props.C04
open Aoe Aoe.Bytes Aoe.Codec

/-- the verdict computed by the compiled reader is sound: `consistentB = true` implies `Consistent` -/
theorem wellformed_of_check (t : Table) (tr : Tree) (h : consistentB t tr = true) : Consistent t tr :=
  consistentB_sound t tr h

/-- a consistent tree is written as a file that the independent reader decodes completely (nothing missing, nothing
left over) to the same tree – so it can always be re-loaded -/
theorem written_wellformed (t : Table) (tr : Tree) (hb bb z : Bytes) (hc : Consistent t tr)
    (h1 : serializeHeader t tr = .ok hb) (h2 : serializeBody t tr = .ok bb) :
    parseHeader t (hb ++ z) = .ok (tr.header, z) ∧ parseBody t tr.header bb = .ok (tr.body, .list [], []) :=
  Aoe.Props.Codec.parse_serialize t tr hb bb z hc h1 h2

/-- in a consistent field the stored count equals the number of stored elements (negative counts store nothing): this
is the clause for effects, conditions, selected objects, variables, units per player, disabled ids, tiles -/
theorem consistent_count (c : ICodec) (cnt : Count) (isList : Option Bool) (isStruct : Bool) (γ : Env) (vs : List Val)
    (h : fieldOk c cnt isList isStruct γ (.list vs)) : ∃ n, cnt.eval γ = .ok n ∧ vs.length = n.toNat := by
  obtain ⟨n, hn, hl, _, _⟩ := h
  exact ⟨n, hn, hl⟩

/-- an optional block (count 0 or 1 from the trigger / victory version) is present exactly when its gate says so -/
theorem consistent_optional (c : ICodec) (cnt : Count) (γ : Env) (v : Val)
    (h : fieldOk c cnt (some false) false γ v) :
    (∃ n, cnt.eval γ = .ok n ∧ ((n = 1 ∧ v.isScalar = true) ∨ (n ≠ 1 ∧ ∃ vs, v = .list vs ∧ vs.length = n.toNat))) := by
  obtain ⟨n, hn, hv⟩ := h
  refine ⟨n, hn, ?_⟩
  cases v with
  | list vs =>
    obtain ⟨hl, _, hs⟩ := hv
    rcases hs with h | h | h
    · cases h
    · exact Or.inr ⟨h, vs, rfl, hl⟩
    · cases h
  | none => exact absurd hv id
  | int i => exact Or.inl ⟨hv.2.1, rfl⟩
  | flt i => exact Or.inl ⟨hv.2.1, rfl⟩
  | data i => exact Or.inl ⟨hv.2.1, rfl⟩
  | str i => exact Or.inl ⟨hv.2.1, rfl⟩
  | strct i => exact Or.inl ⟨hv.2.1, rfl⟩

/-- string length prefixes: what is stored in front of a string is exactly the length of what follows -/
theorem string_prefix_exact (w : Nat) (trail : Bool) (s b : Bytes) (h : encPStr w trail s = .ok b) :
    ∃ pre, b = pre ++ strPayload trail s ∧ pre.length = w ∧ decSInt pre = (strPayload trail s).length := by
  unfold encPStr at h
  simp only [bind, Except.bind] at h
  cases e : encSInt w (strPayload trail s).length with
  | error x => rw [e] at h; cases h
  | ok p =>
    rw [e] at h
    simp only [pure, Except.pure, Except.ok.injEq] at h
    have d := decSInt_encSInt w _ p e
    exact ⟨p, h.symm, d.2, d.1⟩

/-! ### non-vacuity: a consistent tree with a counted struct list exists (see `Aoe.Props.C02.demoTable`) -/
example : ∃ (t : Table) (tr : Tree), Consistent t tr ∧ tr.body ≠ [] :=
  ⟨{ header := { name := 0, fields := [(1, field (intC false 4) (.static 1) none false)] },
     body := [{ name := 2, fields := [(3, field (intC false 1) (.static 1) none false),
       (4, field (intC true 2) (.expr (.ref (.self 3))) (some true) false)] }] },
   { header := [.int 7], body := [.strct [.int 2, .list [.int 5, .int (-6)]]] },
   consistentB_sound _ _ (by decide), by simp⟩

end Aoe.Props.C04
