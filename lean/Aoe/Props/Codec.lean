import Aoe.Model.Codec
/-!
File-level consequences of the combinator laws, shared by C01, C02, C04, C12.
They hold for EVERY `Table`, in particular for each of the 15 tables regenerated from `structure.json`.
-/
namespace Aoe.Props.Codec
open Aoe Aoe.Bytes Aoe.Codec

/-- **P∘S** – what the serializer writes for a consistent tree, the parser reads back as that very tree, consuming
the header bytes exactly (whatever follows them – the deflated body) and the body bytes exactly. -/
theorem parse_serialize (t : Table) (tr : Tree) (hb bb z : Bytes) (hc : Consistent t tr)
    (h1 : serializeHeader t tr = .ok hb) (h2 : serializeBody t tr = .ok bb) :
    parseHeader t (hb ++ z) = .ok (tr.header, z) ∧
    parseBody t tr.header bb = .ok (tr.body, .list [], []) := by
  obtain ⟨c1, c2, c3⟩ := hc
  constructor
  · exact recDec_recEnc true t.header.fields {} tr.header hb z c1 h1
  · unfold serializeBody at h2
    simp only [bind, Except.bind] at h2
    cases e : secsEnc t.body tr.body with
    | error x => rw [e] at h2; cases h2
    | ok b =>
      rw [e, c3] at h2
      simp only [fieldEnc, encMany, pure, Except.pure, Except.ok.injEq] at h2
      subst h2
      have d := secsDec_secsEnc t.body _ tr.body b [] c2 e
      unfold parseBody
      simp only [List.append_nil] at d ⊢
      simp only [d, bind, Except.bind, pure, Except.pure]

/-- the format is unambiguous: two consistent trees with the same bytes are the same tree -/
theorem serialize_injective (t : Table) (t1 t2 : Tree) (hb bb : Bytes)
    (c1 : Consistent t t1) (c2 : Consistent t t2)
    (h1 : serializeHeader t t1 = .ok hb) (h2 : serializeHeader t t2 = .ok hb)
    (b1 : serializeBody t t1 = .ok bb) (b2 : serializeBody t t2 = .ok bb) :
    t1.header = t2.header ∧ t1.body = t2.body ∧ t1.eofMark = t2.eofMark := by
  have p1 := parse_serialize t t1 hb bb [] c1 h1 b1
  have p2 := parse_serialize t t2 hb bb [] c2 h2 b2
  have e1 : t1.header = t2.header := by
    have := p1.1.symm.trans p2.1
    simpa using this
  refine ⟨e1, ?_, by rw [c1.2.2, c2.2.2]⟩
  have := p1.2
  rw [e1] at this
  have := this.symm.trans p2.2
  simpa using this

/-- a file in the image of the serializer ("any file the library itself has written") is reproduced byte for byte
by parse-then-serialize -/
theorem serialize_parse_of_written (t : Table) (tr : Tree) (hb bb : Bytes) (hc : Consistent t tr)
    (h1 : serializeHeader t tr = .ok hb) (h2 : serializeBody t tr = .ok bb)
    (hdr : List Val) (z : Bytes) (body : List Val) (m : Val) (r : Bytes)
    (p1 : parseHeader t (hb ++ z) = .ok (hdr, z)) (p2 : parseBody t hdr bb = .ok (body, m, r)) :
    serializeHeader t { header := hdr, body := body, eofMark := m } = .ok hb ∧
    serializeBody t { header := hdr, body := body, eofMark := m } = .ok bb ∧ r = [] := by
  have q := parse_serialize t tr hb bb z hc h1 h2
  have e1 : hdr = tr.header := by
    have := p1.symm.trans q.1; simpa using this
  subst e1
  have := p2.symm.trans q.2
  simp only [Except.ok.injEq, Prod.mk.injEq] at this
  obtain ⟨rfl, rfl, rfl⟩ := this
  refine ⟨h1, ?_, rfl⟩
  have : ({ header := tr.header, body := tr.body, eofMark := Val.list [] } : Tree) = tr := by
    cases tr; simp_all [Consistent]
  rw [this]; exact h2

end Aoe.Props.Codec
