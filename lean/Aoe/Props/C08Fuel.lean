import Aoe.Model.PerPlayer
/-!
# C08 – the recursion budget of the trigger-tree search suffices

`dfs` models `_find_trigger_tree_nodes_recursively` with a `fuel` argument (Lean needs a terminating definition; the
Python recursion has no bound of its own). The theorems of `Aoe.Props.C08` hold for every fuel that does not run out; this
file removes that proviso: **with `2 * n + 1` units of fuel (`n` = number of triggers) the search never runs out**, whatever
the links are (cycles, self links, repeated links, dangling and negative indices included, pinned and repaired code).

Measure: `room n known` = how many of the `2 n` integers that `self.triggers[i]` accepts (`-n ≤ i < n`) are not yet in
`known`. Every recursive call is made for an accepted index that has just been added to `known`, so the measure drops with
the recursion depth.
-/
namespace Aoe.Props.C08Fuel
open Aoe.PerPlayer

/-- the integers `self.triggers[i]` accepts for a list of length `n` -/
def accepted (n : Nat) : List Int := (List.range (2 * n)).map (fun j : Nat => (j : Int) - (n : Int))

theorem mem_accepted (n : Nat) (i : Int) : i ∈ accepted n ↔ (-(n : Int) ≤ i ∧ i < (n : Int)) := by
  simp only [accepted, List.mem_map, List.mem_range]
  constructor
  · rintro ⟨j, hj, rfl⟩; omega
  · intro h; exact ⟨(i + n).toNat, by omega, by omega⟩

theorem pyIdx_some_accepted (n : Nat) (i : Int) (k : Nat) (h : pyIdx n i = some k) : i ∈ accepted n := by
  rw [mem_accepted]
  unfold pyIdx at h
  split at h
  · split at h
    · omega
    · cases h
  · split at h
    · omega
    · cases h

theorem pyGet_ok_accepted {α : Type} (l : List α) (i : Int) (x : α) (h : pyGet l i = .ok x) : i ∈ accepted l.length := by
  unfold pyGet at h
  split at h
  · rename_i k hk; exact pyIdx_some_accepted _ _ _ hk
  · cases h

/-- accepted indices not yet known -/
def room (n : Nat) (known : List Int) : Nat := ((accepted n).filter (fun i => !known.contains i)).length

theorem room_le (n : Nat) (known : List Int) : room n known ≤ 2 * n := by
  unfold room
  exact Nat.le_trans (List.length_filter_le _ _) (by simp [accepted])

theorem filter_sublist_of_imp {α : Type} (l : List α) (p q : α → Bool) (h : ∀ a, p a = true → q a = true) :
    (l.filter p).Sublist (l.filter q) := by
  induction l with
  | nil => exact List.Sublist.slnil
  | cons a l ih =>
    by_cases hp : p a = true
    · rw [List.filter_cons_of_pos hp, List.filter_cons_of_pos (h a hp)]
      exact List.Sublist.cons_cons a ih
    · rw [List.filter_cons_of_neg hp]
      by_cases hq : q a = true
      · rw [List.filter_cons_of_pos hq]; exact List.Sublist.cons a ih
      · rw [List.filter_cons_of_neg hq]; exact ih

/-- more known indices, less room -/
theorem room_mono (n : Nat) (k k' : List Int) (h : ∀ i ∈ k, i ∈ k') : room n k' ≤ room n k := by
  unfold room
  apply List.Sublist.length_le
  apply filter_sublist_of_imp
  intro i hi
  simp only [Bool.not_eq_true', List.contains_eq_mem, decide_eq_false_iff_not] at hi ⊢
  exact fun hk => hi (h i hk)

/-- an accepted index that becomes known takes one unit of room -/
theorem room_lt (n : Nat) (k k' : List Int) (h : ∀ i ∈ k, i ∈ k') (j : Int) (hj : j ∈ accepted n) (hjk : j ∉ k)
    (hjk' : j ∈ k') : room n k' < room n k := by
  unfold room
  -- the filter for k' is a sublist of the filter for k with j erased
  have hsub : ((accepted n).filter (fun i => !k'.contains i)).Sublist
      ((accepted n).filter (fun i => (i != j) && !k.contains i)) := by
    apply filter_sublist_of_imp
    intro i hi
    simp only [Bool.not_eq_true', List.contains_eq_mem, decide_eq_false_iff_not, Bool.and_eq_true, bne_iff_ne, ne_eq] at hi ⊢
    exact ⟨fun e => hi (e ▸ hjk'), fun hk => hi (h i hk)⟩
  have hlt : ((accepted n).filter (fun i => (i != j) && !k.contains i)).length <
      ((accepted n).filter (fun i => !k.contains i)).length := by
    rw [← List.filter_filter]
    apply List.length_filter_lt_length_iff_exists.mpr
    refine ⟨j, ?_, by simp⟩
    simp only [List.mem_filter, Bool.not_eq_true', List.contains_eq_mem, decide_eq_false_iff_not]
    exact ⟨hj, hjk⟩
  exact Nat.lt_of_le_of_lt hsub.length_le hlt

theorem unknownOf_not_known (fixed : Bool) (known : List Int) (t : Trig) (i : Int) (h : i ∈ unknownOf fixed known t) :
    i ∉ known := by
  unfold unknownOf at h
  split at h
  · have := List.mem_eraseDups.mp h
    simp only [List.mem_filter, Bool.not_eq_true', List.contains_eq_mem, decide_eq_false_iff_not] at this
    exact this.2
  · simp only [List.mem_filter, Bool.not_eq_true', List.contains_eq_mem, decide_eq_false_iff_not] at h
    exact h.2

/-- the body of the loop over the unknown nodes -/
def stepF (fixed : Bool) (s : State) (fuel : Nat) (k : List Int) (i : Int) : Except Err (List Int) :=
  match pyGet s.list i with
  | .error e => .error e
  | .ok a' => dfs fixed s fuel a' k

theorem dfs_succ (fixed : Bool) (s : State) (fuel a : Nat) (known : List Int) :
    dfs fixed s (fuel + 1) a known =
      match heapGet s.heap a with
      | .error e => .error e
      | .ok t =>
        if (unknownOf fixed known t).isEmpty then .ok known
        else (unknownOf fixed known t).foldlM (stepF fixed s fuel) (known ++ unknownOf fixed known t) := by
  rfl

/-- the search only ever adds to `known` -/
theorem dfs_superset (fixed : Bool) (s : State) : ∀ (fuel : Nat) (a : Nat) (known r : List Int),
    dfs fixed s fuel a known = .ok r → ∀ i ∈ known, i ∈ r := by
  intro fuel
  induction fuel with
  | zero => intro a known r h; simp [dfs] at h
  | succ fuel ih =>
    intro a known r h
    rw [dfs_succ] at h
    split at h
    · cases h
    · rename_i t _
      split at h
      · injection h with e; subst e; exact fun i hi => hi
      · -- the fold only grows its accumulator
        have key : ∀ (us : List Int) (k r : List Int),
            us.foldlM (stepF fixed s fuel) k = .ok r → ∀ i ∈ k, i ∈ r := by
          intro us
          induction us with
          | nil => intro k r h; simp only [List.foldlM_nil, pure, Except.pure] at h; injection h with e; subst e; exact fun i hi => hi
          | cons u us ihu =>
            intro k r h
            simp only [List.foldlM_cons, bind, Except.bind] at h
            split at h
            · cases h
            · rename_i k1 hk1
              unfold stepF at hk1
              split at hk1
              · cases hk1
              · rename_i a' _
                exact fun i hi => ihu k1 r h i (ih a' k k1 hk1 i hi)
        exact fun i hi => key _ _ r h i (List.mem_append_left _ hi)

/-- **the budget suffices**: with more fuel than there is room, the search does not run out -/
theorem dfs_no_fuel_error (fixed : Bool) (s : State) : ∀ (fuel : Nat) (a : Nat) (known : List Int),
    room s.list.length known < fuel → dfs fixed s fuel a known ≠ .error .fuel := by
  intro fuel
  induction fuel with
  | zero => intro a known h; omega
  | succ fuel ih =>
    intro a known hroom
    rw [dfs_succ]
    split
    · rename_i e he
      intro h; injection h with h; subst h
      -- heapGet never reports `fuel`
      unfold heapGet at he
      split at he <;> cases he
    · rename_i t _
      split
      · intro h; cases h
      · -- fold over the unknown nodes; accumulator ⊇ known ++ unknown
        have key : ∀ (us : List Int) (k : List Int), (∀ i ∈ us, i ∈ k) → (∀ i ∈ us, i ∉ known) → (∀ i ∈ known, i ∈ k) →
            us.foldlM (stepF fixed s fuel) k ≠ .error .fuel := by
          intro us
          induction us with
          | nil => intro k _ _ _ h; simp only [List.foldlM_nil, pure, Except.pure] at h; cases h
          | cons u us ihu =>
            intro k hin hnk hkn
            simp only [List.foldlM_cons, bind, Except.bind]
            split
            · rename_i e he
              -- the step failed: not with `fuel`
              intro h; injection h with h; subst h
              unfold stepF at he
              split at he
              · rename_i e' he'
                injection he with he; subst he
                unfold pyGet at he'
                split at he'
                · split at he' <;> cases he'
                · cases he'
              · rename_i a' ha'
                have hu : u ∈ accepted s.list.length := pyGet_ok_accepted _ _ _ ha'
                have : room s.list.length k < fuel := by
                  have := room_lt s.list.length known k hkn u hu (hnk u (by simp)) (hin u (by simp))
                  omega
                exact ih a' k this he
            · rename_i k1 hk1
              unfold stepF at hk1
              split at hk1
              · cases hk1
              · rename_i a' _
                have hsup := dfs_superset fixed s fuel a' k k1 hk1
                exact ihu k1 (fun i hi => hsup i (hin i (by simp [hi]))) (fun i hi => hnk i (by simp [hi]))
                  (fun i hi => hsup i (hkn i hi))
        exact key _ _ (fun i hi => List.mem_append_right _ hi)
          (fun i hi => unknownOf_not_known fixed known t i hi) (fun i hi => List.mem_append_left _ hi)

/-- the budget the driver (and `copy_trigger_tree_per_player`'s model) uses: `2 n + 1` is always enough -/
theorem dfs_fuel_suffices (fixed : Bool) (s : State) (a : Nat) (known : List Int) (fuel : Nat)
    (h : 2 * s.list.length + 1 ≤ fuel) : dfs fixed s fuel a known ≠ .error .fuel :=
  dfs_no_fuel_error fixed s fuel a known (Nat.lt_of_le_of_lt (room_le _ _) (by omega))

/-- the search `copy_trigger_tree_per_player`'s model starts (budget `2 n + 2`, known = the source index) never runs out -/
theorem tree_search_budget (fixed : Bool) (s : State) (src : Nat) (ti : Int) :
    dfs fixed s (2 * s.list.length + 2) src [ti] ≠ .error .fuel :=
  dfs_fuel_suffices fixed s src [ti] _ (by omega)

/-! non-vacuity: three triggers linked in a cycle (0 → 1 → 2 → 0, and 1 → 1); the search ends with every node known -/
example : room 3 [0] = 5 := by decide

end Aoe.Props.C08Fuel
