import Aoe.Model.Commit
import Aoe.Props.C05
/-!
# M4 – theorems about the commit / construct engine (used by C01, C03, C04, C05)

`commit ∘ construct = id` for every class whose links are plain value links without refresh actions (history links and
unsupported links are never pushed): committing exactly what was constructed leaves every section unchanged.
The side condition is decidable (`ClassSpec.plainOnly`) and is evaluated on the GENERATED class tables.
-/
namespace Aoe.Props.Links
open Aoe Aoe.Codec Aoe.Lens Aoe.Commit

/-- a class whose commit only performs plain pushes without `on_commit` refreshes -/
def LinkKind.isPlainNoActs : LinkKind → Bool
  | .plain _ [] _ => true
  | .hist _ => true
  | .skip => true
  | _ => false

def ClassSpec.plainOnly (c : ClassSpec) : Bool := c.links.all (fun l => LinkKind.isPlainNoActs l.2)

theorem foldlM_fixed {α β : Type} (f : β → α → Except Err β) (s : β) (l : List α)
    (h : ∀ x ∈ l, f s x = .ok s) : l.foldlM f s = .ok s := by
  induction l with
  | nil => rfl
  | cons a l ih =>
    simp only [List.foldlM, bind, Except.bind]
    rw [h a (by simp)]
    exact ih (fun x hx => h x (by simp [hx]))

theorem mapM_zip {α β : Type} (f : α → Except Err β) (l : List α) (vs : List β) (h : l.mapM f = .ok vs) :
    ∀ p ∈ l.zip vs, f p.1 = .ok p.2 := by
  induction l generalizing vs with
  | nil => intro p hp; simp at hp
  | cons a l ih =>
    rw [List.mapM_cons] at h
    simp only [bind, Except.bind] at h
    cases ha : f a with
    | error e => rw [ha] at h; cases h
    | ok b =>
      rw [ha] at h; simp only at h
      cases hl : l.mapM f with
      | error e => rw [hl] at h; cases h
      | ok bs =>
        rw [hl] at h
        simp only [pure, Except.pure, Except.ok.injEq] at h
        subst h
        intro p hp
        simp only [List.zip_cons_cons, List.mem_cons] at hp
        rcases hp with rfl | hp
        · exact ha
        · exact ih bs hl p hp

theorem withRoot_root (s : Sections) : s.withRoot s.root = some s := rfl

/-- **commit ∘ construct = id** for plain-only classes -/
theorem commit_construct_id (classes : List ClassSpec) (fuel cls : Nat) (hist : List Nat) (s : Sections) (obj : Val)
    (c : ClassSpec) (hc : classes[cls]? = some c) (hp : ClassSpec.plainOnly c = true)
    (h : constructObj classes (fuel + 1) cls hist s = .ok obj) :
    commitObj classes (fuel + 1) cls hist obj s = .ok s := by
  simp only [constructObj, hc, bind, Except.bind] at h
  cases hm : c.links.mapM (pullLink (fun ccls h => constructObj classes fuel ccls h s) hist s) with
  | error e => rw [hm] at h; cases h
  | ok vals =>
    rw [hm] at h
    simp only [pure, Except.pure, Except.ok.injEq] at h
    subst h
    simp only [commitObj, hc]
    apply foldlM_fixed
    intro lv hlv
    have hmem : lv ∈ c.links.zip vals := by simpa using hlv
    have hpull := mapM_zip _ c.links vals hm lv hmem
    have hl : lv.1 ∈ c.links := (List.of_mem_zip hmem).1
    have hk : LinkKind.isPlainNoActs lv.1.2 = true := by
      have := List.all_eq_true.mp hp lv.1 hl
      simpa using this
    obtain ⟨⟨a, k⟩, v⟩ := lv
    simp only at hk hpull
    cases k with
    | hist n => rfl
    | skip => rfl
    | objs => simp [LinkKind.isPlainNoActs] at hk
    | plain path acts names =>
      cases acts with
      | cons x xs => simp [LinkKind.isPlainNoActs] at hk
      | nil =>
        simp only [pullLink] at hpull
        cases hr : resolve hist path with
        | none => simp [hr] at hpull
        | some p =>
          simp only [hr, Option.bind] at hpull
          cases hg : getAt p s.root with
          | none => simp [hg] at hpull
          | some w =>
            simp only [hg, pure, Except.pure, Except.ok.injEq] at hpull
            subst hpull
            have hs := Aoe.Props.C05.set_get p s.root w hg
            simp only [pushLink, hr, hs, Option.bind, withRoot_root, bind, Except.bind, pure, Except.pure, applyActs, List.foldlM]

/-! ### the side condition holds for concrete classes, and the theorem is not vacuous -/
def demoClasses : List ClassSpec :=
  [{ name := 0, links := [(0, .plain [.fld 0, .fld 1] [] []), (1, .hist 0), (2, .skip), (3, .plain [.fld 1, .fld 0] [] [])] }]
def demoSecs : Sections := { names := [], recs := [.strct [.int 1, .int 2], .strct [.str [0x61]]] }

example : ClassSpec.plainOnly demoClasses[0] = true := by decide
example : constructObj demoClasses 2 0 [5] demoSecs = .ok (.strct [.int 2, .int 5, .none, .str [0x61]]) := by rfl
example : commitObj demoClasses 2 0 [5] (.strct [.int 2, .int 5, .none, .str [0x61]]) demoSecs = .ok demoSecs :=
  commit_construct_id demoClasses 1 0 [5] demoSecs _ demoClasses[0] rfl (by decide) (by rfl)

end Aoe.Props.Links
