import Aoe.Model.Commit
import Aoe.Props.C05
/-!
# M4 – theorems about the commit / construct engine (used by C01, C03, C04, C05)

`commit ∘ construct = id` for every class whose links are plain value links without refresh actions (history links and
unsupported links are never pushed): committing exactly what was constructed leaves every section unchanged.
The side condition is decidable (`ClassSpec.plainOnly`) and is evaluated on the GENERATED class tables.
-/
namespace Aoe.Props.Links
open Aoe Aoe.Codec Aoe.Lens Aoe.Commit

/-- a class whose commit only performs plain pushes without `on_commit` refreshes -/
def LinkKind.isPlainNoActs : LinkKind → Bool
  | .plain _ [] _ => true
  | .hist _ => true
  | .skip => true
  | _ => false

def ClassSpec.plainOnly (c : ClassSpec) : Bool := c.links.all (fun l => LinkKind.isPlainNoActs l.2)

theorem foldlM_fixed {α β : Type} (f : β → α → Except Err β) (s : β) (l : List α)
    (h : ∀ x ∈ l, f s x = .ok s) : l.foldlM f s = .ok s := by
  induction l with
  | nil => rfl
  | cons a l ih =>
    simp only [List.foldlM, bind, Except.bind]
    rw [h a (by simp)]
    exact ih (fun x hx => h x (by simp [hx]))

theorem mapM_zip {α β : Type} (f : α → Except Err β) (l : List α) (vs : List β) (h : l.mapM f = .ok vs) :
    ∀ p ∈ l.zip vs, f p.1 = .ok p.2 := by
  induction l generalizing vs with
  | nil => intro p hp; simp at hp
  | cons a l ih =>
    rw [List.mapM_cons] at h
    simp only [bind, Except.bind] at h
    cases ha : f a with
    | error e => rw [ha] at h; cases h
    | ok b =>
      rw [ha] at h; simp only at h
      cases hl : l.mapM f with
      | error e => rw [hl] at h; cases h
      | ok bs =>
        rw [hl] at h
        simp only [pure, Except.pure, Except.ok.injEq] at h
        subst h
        intro p hp
        simp only [List.zip_cons_cons, List.mem_cons] at hp
        rcases hp with rfl | hp
        · exact ha
        · exact ih bs hl p hp

theorem withRoot_root (s : Sections) : s.withRoot s.root = some s := rfl

/-- **commit ∘ construct = id** for plain-only classes -/
theorem commit_construct_id (classes : List ClassSpec) (fuel cls : Nat) (hist : List Nat) (s : Sections) (obj : Val)
    (c : ClassSpec) (hc : classes[cls]? = some c) (hp : ClassSpec.plainOnly c = true)
    (h : constructObj classes (fuel + 1) cls hist s = .ok obj) :
    commitObj classes (fuel + 1) cls hist obj s = .ok s := by
  simp only [constructObj, hc, bind, Except.bind] at h
  cases hm : c.links.mapM (pullLink (fun ccls h => constructObj classes fuel ccls h s) hist s) with
  | error e => rw [hm] at h; cases h
  | ok vals =>
    rw [hm] at h
    simp only [pure, Except.pure, Except.ok.injEq] at h
    subst h
    simp only [commitObj, hc]
    apply foldlM_fixed
    intro lv hlv
    have hmem : lv ∈ c.links.zip vals := by simpa using hlv
    have hpull := mapM_zip _ c.links vals hm lv hmem
    have hl : lv.1 ∈ c.links := (List.of_mem_zip hmem).1
    have hk : LinkKind.isPlainNoActs lv.1.2 = true := by
      have := List.all_eq_true.mp hp lv.1 hl
      simpa using this
    obtain ⟨⟨a, k⟩, v⟩ := lv
    simp only at hk hpull
    cases k with
    | hist n => rfl
    | skip => rfl
    | objs => simp [LinkKind.isPlainNoActs] at hk
    | plain path acts names =>
      cases acts with
      | cons x xs => simp [LinkKind.isPlainNoActs] at hk
      | nil =>
        simp only [pullLink] at hpull
        cases hr : resolve hist path with
        | none => simp [hr] at hpull
        | some p =>
          simp only [hr, Option.bind] at hpull
          cases hg : getAt p s.root with
          | none => simp [hg] at hpull
          | some w =>
            simp only [hg, pure, Except.pure, Except.ok.injEq] at hpull
            subst hpull
            have hs := Aoe.Props.C05.set_get p s.root w hg
            simp only [pushLink, hr, hs, Option.bind, withRoot_root, bind, Except.bind, pure, Except.pure, applyActs, List.foldlM]

/-! ### the side condition holds for concrete classes, and the theorem is not vacuous -/
def demoClasses : List ClassSpec :=
  [{ name := 0, links := [(0, .plain [.fld 0, .fld 1] [] []), (1, .hist 0), (2, .skip), (3, .plain [.fld 1, .fld 0] [] [])] }]
def demoSecs : Sections := { names := [], recs := [.strct [.int 1, .int 2], .strct [.str [0x61]]] }

example : ClassSpec.plainOnly demoClasses[0] = true := by decide
example : constructObj demoClasses 2 0 [5] demoSecs = .ok (.strct [.int 2, .int 5, .none, .str [0x61]]) := by rfl
example : commitObj demoClasses 2 0 [5] (.strct [.int 2, .int 5, .none, .str [0x61]]) demoSecs = .ok demoSecs :=
  commit_construct_id demoClasses 1 0 [5] demoSecs _ demoClasses[0] rfl (by decide) (by rfl)

end Aoe.Props.Links

/-! ## the general case: classes with refresh actions and object lists -/
namespace Aoe.Props.Links
open Aoe Aoe.Codec Aoe.Lens Aoe.Commit

/-- a refresh action is *stable* in `s`: what its eval yields is what its destination already holds (a stored count that
equals the number of stored elements, a derived field that is in sync). This is the engine-level part of the normal form
of C01: in a consistent file every `len(...)` refresh is stable. -/
def actStable (s : Sections) (recPath : List Step) (names : List Nat) (a : RefreshAct) : Prop :=
  ∃ selfRec v, getAt recPath s.root = some selfRec ∧ a.expr.eval (s.env names selfRec) = .ok v ∧
    getAt (a.dest.path recPath) s.root = some v

theorem applyActs_stable (acts : List RefreshAct) (recPath : List Step) (names : List Nat) (s : Sections)
    (h : ∀ a ∈ acts, actStable s recPath names a) : applyActs acts recPath names s = .ok s := by
  unfold applyActs
  apply foldlM_fixed
  intro a ha
  obtain ⟨selfRec, v, h1, h2, h3⟩ := h a ha
  have hs := Aoe.Props.C05.set_get _ s.root v h3
  simp only [h1, h2, bind, Except.bind, pure, Except.pure]
  simp [hs, Option.bind, withRoot_root]

theorem mapM_range'_get {β : Type} (f : Nat → Except Err β) (k n : Nat) (os : List β)
    (h : (List.range' k n).mapM f = .ok os) : ∀ i o, os[i]? = some o → f (k + i) = .ok o := by
  induction n generalizing k os with
  | zero =>
    simp only [List.range'_zero, List.mapM_nil, pure, Except.pure, Except.ok.injEq] at h
    subst h; intro i o hi; simp at hi
  | succ n ih =>
    rw [List.range'_succ, List.mapM_cons] at h
    simp only [bind, Except.bind] at h
    cases hf : f k with
    | error e => rw [hf] at h; cases h
    | ok b =>
      rw [hf] at h; simp only at h
      cases hr : (List.range' (k + 1) n).mapM f with
      | error e => rw [hr] at h; cases h
      | ok bs =>
        rw [hr] at h
        simp only [pure, Except.pure, Except.ok.injEq] at h
        subst h
        intro i o hi
        cases i with
        | zero => simp only [List.getElem?_cons_zero, Option.some.injEq] at hi; subst hi; simpa using hf
        | succ j =>
          simp only [List.getElem?_cons_succ] at hi
          have := ih (k + 1) bs hr j o hi
          rw [show k + (j + 1) = k + 1 + j by omega]; exact this

theorem mapM_range_length {β : Type} (f : Nat → Except Err β) (k n : Nat) (os : List β)
    (h : (List.range' k n).mapM f = .ok os) : os.length = n := by
  induction n generalizing k os with
  | zero => simp only [List.range'_zero, List.mapM_nil, pure, Except.pure, Except.ok.injEq] at h; subst h; rfl
  | succ n ih =>
    rw [List.range'_succ, List.mapM_cons] at h
    simp only [bind, Except.bind] at h
    cases hf : f k with
    | error e => rw [hf] at h; cases h
    | ok b =>
      rw [hf] at h; simp only at h
      cases hr : (List.range' (k + 1) n).mapM f with
      | error e => rw [hr] at h; cases h
      | ok bs =>
        rw [hr] at h
        simp only [pure, Except.pure, Except.ok.injEq] at h
        subst h
        simp [ih (k + 1) bs hr]

/-- the refresh-stable normal form of everything an object of class `cls` (with index history `hist`) touches -/
def Stable (classes : List ClassSpec) : Nat → Nat → List Nat → Sections → Prop
  | 0, _, _, _ => True
  | fuel + 1, cls, hist, s =>
    match classes[cls]? with
    | some c => ∀ l ∈ c.links,
        match l.2 with
        | .plain path acts names => ∀ p, resolve hist path = some p → ∀ a ∈ acts, actStable s (dropLastStep p) names a
        | .objs path ccls _ _ _ acts names => ∀ p, resolve hist path = some p →
            (∀ a ∈ acts, actStable s (dropLastStep p) names a) ∧
            (∀ l', getAt p s.root = some (.list l') → ∀ i, i < l'.length → Stable classes fuel ccls (hist ++ [i]) s)
        | _ => True
    | none => True

/-- **commit ∘ construct = id for every class**: committing exactly what was constructed leaves every section unchanged,
provided the sections are refresh-stable (stored counts and derived fields in sync) -/
theorem commit_construct_id_general (classes : List ClassSpec) (fuel : Nat) :
    ∀ (cls : Nat) (hist : List Nat) (s : Sections) (obj : Val), Stable classes fuel cls hist s →
      constructObj classes fuel cls hist s = .ok obj → commitObj classes fuel cls hist obj s = .ok s := by
  induction fuel with
  | zero => intro cls hist s obj _ h; simp [constructObj] at h
  | succ fuel ih =>
    intro cls hist s obj hst h
    cases hc : classes[cls]? with
    | none => simp [constructObj, hc] at h
    | some c =>
      simp only [constructObj, hc, bind, Except.bind] at h
      simp only [Stable, hc] at hst
      cases hm : c.links.mapM (pullLink (fun ccls h => constructObj classes fuel ccls h s) hist s) with
      | error e => rw [hm] at h; cases h
      | ok vals =>
        rw [hm] at h
        simp only [pure, Except.pure, Except.ok.injEq] at h
        subst h
        simp only [commitObj, hc]
        apply foldlM_fixed
        intro lv hlv
        have hmem : lv ∈ c.links.zip vals := by simpa using hlv
        have hpull := mapM_zip _ c.links vals hm lv hmem
        have hl : lv.1 ∈ c.links := (List.of_mem_zip hmem).1
        have hstl := hst lv.1 hl
        obtain ⟨⟨a, k⟩, v⟩ := lv
        simp only at hpull hstl
        cases k with
        | hist n => rfl
        | skip => rfl
        | plain path acts names =>
          simp only [pullLink] at hpull
          cases hr : resolve hist path with
          | none => simp [hr] at hpull
          | some p =>
            simp only [hr, Option.bind] at hpull
            cases hg : getAt p s.root with
            | none => simp [hg] at hpull
            | some w =>
              simp only [hg, pure, Except.pure, Except.ok.injEq] at hpull
              subst hpull
              have hs := Aoe.Props.C05.set_get p s.root w hg
              have ha := applyActs_stable acts (dropLastStep p) names s (hstl p hr)
              simp only [pushLink, hr, hs, Option.bind, withRoot_root, bind, Except.bind, pure, Except.pure, ha]
        | objs path ccls defaults childNames guards acts names =>
          simp only [pullLink] at hpull
          cases hr : resolve hist path with
          | none => simp [hr] at hpull
          | some p =>
            simp only [hr, Option.bind] at hpull
            obtain ⟨hacts, hchildren⟩ := hstl p hr
            cases hg : getAt p s.root with
            | none => simp [hg] at hpull
            | some w =>
              simp only [hg] at hpull
              cases w with
              | list old =>
                simp only [bind, Except.bind] at hpull
                cases hos : (List.range old.length).mapM (fun i => constructObj classes fuel ccls (hist ++ [i]) s) with
                | error e => rw [hos] at hpull; cases hpull
                | ok os =>
                  rw [hos] at hpull
                  simp only [pure, Except.pure, Except.ok.injEq] at hpull
                  subst hpull
                  rw [List.range_eq_range'] at hos
                  have hlen := mapM_range_length _ 0 old.length os hos
                  have hget := mapM_range'_get _ 0 old.length os hos
                  have hrs : resizeList old old.length (Val.strct []) = old := by
                    unfold resizeList; simp
                  have hs := Aoe.Props.C05.set_get p s.root (.list old) hg
                  have hchild : (os.zipIdx).foldlM (fun (s : Sections) (oi : Val × Nat) =>
                      commitObj classes fuel ccls (hist ++ [oi.2]) oi.1 s) s = .ok s := by
                    apply foldlM_fixed
                    intro oi hoi
                    have hi := List.mem_zipIdx_iff_getElem?.mp hoi
                    have hlt : oi.2 < old.length := by
                      rw [← hlen]
                      rcases Nat.lt_or_ge oi.2 os.length with h' | h'
                      · exact h'
                      · rw [List.getElem?_eq_none h'] at hi; cases hi
                    have hcon := hget oi.2 oi.1 hi
                    simp only [Nat.zero_add] at hcon
                    exact ih ccls (hist ++ [oi.2]) s oi.1 (hchildren old hg oi.2 hlt) hcon
                  have ha := applyActs_stable acts (dropLastStep p) names s hacts
                  simp only [pushLink, hr, hg, bind, Except.bind, pure, Except.pure, hlen, Nat.le_refl, if_true]
                  rw [hrs, hs]
                  simp only [Option.bind, withRoot_root, hchild, ha]
              | int _ => simp at hpull
              | flt _ => simp at hpull
              | data _ => simp at hpull
              | str _ => simp at hpull
              | none => simp at hpull
              | strct _ => simp at hpull

end Aoe.Props.Links

namespace Aoe.Props.Links
open Aoe Aoe.Codec Aoe.Lens Aoe.Commit

/-! ### non-vacuity of the general theorem: a class with an object list and a count refresh -/
def demo2Classes : List ClassSpec :=
  [{ name := 0, links := [(0, .objs [.fld 0, .fld 1] 1 [.int 0] [7] []
        [{ dest := .self 0, expr := .len (.ref (.self 6)) }] [5, 6])] },
   { name := 1, links := [(1, .plain [.fld 0, .fld 1, .hidx 0, .fld 0] [] [7]), (2, .hist 0)] }]
def demo2Secs : Sections :=
  { names := [(9, [5, 6])], recs := [.strct [.int 2, .list [.strct [.int 10], .strct [.int 20]]]] }

example : constructObj demo2Classes 3 0 [] demo2Secs
    = .ok (.strct [.list [.strct [.int 10, .int 0], .strct [.int 20, .int 1]]]) := by rfl

theorem demo2_stable : Stable demo2Classes 3 0 [] demo2Secs := by
  simp only [Stable, demo2Classes, List.getElem?_cons_zero, List.mem_singleton, forall_eq]
  intro p hp
  simp only [resolve, Option.map, Option.some.injEq] at hp
  subst hp
  refine ⟨?_, ?_⟩
  · exact ⟨.strct [.int 2, .list [.strct [.int 10], .strct [.int 20]]], .int 2, by rfl, by rfl, by rfl⟩
  · intro l' hl' i hi
    show Stable demo2Classes 2 1 ([] ++ [i]) demo2Secs
    simp only [Stable, demo2Classes, List.getElem?_cons_succ, List.getElem?_cons_zero]
    intro l hl
    simp only [List.mem_cons, List.mem_nil_iff, or_false] at hl
    rcases hl with rfl | rfl
    · intro p hp a ha; simp at ha
    · trivial

example : commitObj demo2Classes 3 0 [] (.strct [.list [.strct [.int 10, .int 0], .strct [.int 20, .int 1]]]) demo2Secs
    = .ok demo2Secs :=
  commit_construct_id_general demo2Classes 3 0 [] demo2Secs _ demo2_stable (by rfl)

end Aoe.Props.Links

namespace Aoe.Props.Links
open Aoe Aoe.Codec Aoe.Lens Aoe.Commit

/-! ## what a refresh establishes (C04: stored counts equal the number of stored elements) -/

theorem withRoot_some (s s' : Sections) (v : Val) (h : s.withRoot v = some s') : s'.root = v ∧ s'.names = s.names := by
  cases v <;> simp [Sections.withRoot] at h
  subst h; exact ⟨rfl, rfl⟩

/-- after a single refresh action its destination holds the value its `eval` yielded in the state it ran in -/
theorem applyActs_single (a : RefreshAct) (recPath : List Step) (names : List Nat) (s s' : Sections)
    (h : applyActs [a] recPath names s = .ok s') :
    ∃ selfRec v, getAt recPath s.root = some selfRec ∧ a.expr.eval (s.env names selfRec) = .ok v ∧
      getAt (a.dest.path recPath) s'.root = some v := by
  simp only [applyActs, List.foldlM, bind, Except.bind] at h
  cases hg : getAt recPath s.root with
  | none => simp [hg] at h
  | some selfRec =>
    simp only [hg, pure, Except.pure] at h
    cases he : a.expr.eval (s.env names selfRec) with
    | error e => simp [he] at h
    | ok v =>
      simp only [he] at h
      refine ⟨selfRec, v, rfl, he, ?_⟩
      cases hs : setAt (a.dest.path recPath) s.root v with
      | none => simp [hs, Option.bind] at h
      | some r =>
        simp only [hs, Option.bind] at h
        cases hw : s.withRoot r with
        | none => simp [hw] at h
        | some s2 =>
          simp only [hw, Except.ok.injEq] at h
          subst h
          rw [(withRoot_some s s2 r hw).1]
          exact Aoe.Props.C05.get_set _ s.root v r hs

/-- the `len(x)` refresh: the count written is the number of elements the list `x` of the same record holds -/
theorem len_refresh_value (γ : Env) (nm : Nat) (l : List Val) (h : γ.lookup (.self nm) = .ok (.list l)) :
    (Expr.len (.ref (.self nm))).eval γ = .ok (.int l.length) := by
  simp [Expr.eval, h, bind, Except.bind, lenOf, pure, Except.pure]

/-- **stored count = number of stored elements** after the commit of a counted list: if the refresh of a list link is the
usual `count := len(list)` and it runs (the commit succeeds), the count retriever holds the length of the list as
it is stored at that moment -/
theorem count_equals_length (i nm : Nat) (recPath : List Step) (names : List Nat) (s s' : Sections) (selfRec : Val)
    (l : List Val) (hrec : getAt recPath s.root = some selfRec)
    (hl : (s.env names selfRec).lookup (.self nm) = .ok (.list l))
    (h : applyActs [{ dest := .self i, expr := .len (.ref (.self nm)) }] recPath names s = .ok s') :
    getAt (recPath ++ [Step.fld i]) s'.root = some (.int l.length) := by
  obtain ⟨sr, v, h1, h2, h3⟩ := applyActs_single _ recPath names s s' h
  rw [hrec] at h1
  cases h1
  rw [len_refresh_value _ nm l hl] at h2
  cases h2
  exact h3

end Aoe.Props.Links

namespace Aoe.Props.Links
open Aoe Aoe.Codec Aoe.Lens Aoe.Commit

/-! ## pull after push (C03 at the link level) -/

/-- what a plain link pushed is what the same link pulls afterwards -/
theorem pull_push_same (rc : Nat → List Nat → Val → Sections → Except Err Sections) (rp : Nat → List Nat → Except Err Val)
    (hist : List Nat) (s s' : Sections) (a : Nat) (path : List PStep) (names : List Nat) (v : Val)
    (h : pushLink rc hist s ((a, .plain path [] names), v) = .ok s') :
    pullLink rp hist s' (a, .plain path [] names) = .ok v := by
  simp only [pushLink, bind, Except.bind] at h
  cases hr : resolve hist path with
  | none => simp [hr] at h
  | some p =>
    simp only [hr, pure, Except.pure] at h
    cases hs : setAt p s.root v with
    | none => simp [hs, Option.bind] at h
    | some r =>
      simp only [hs, Option.bind] at h
      cases hw : s.withRoot r with
      | none => simp [hw] at h
      | some s2 =>
        simp only [hw, applyActs, List.foldlM, pure, Except.pure, Except.ok.injEq] at h
        subst h
        have hg := Aoe.Props.C05.get_set p s.root v r hs
        simp only [pullLink, hr, Option.bind, (withRoot_some s s2 r hw).1, hg, pure, Except.pure]

/-- frame: pushing one plain link does not change what another plain link pulls when their resolved paths diverge
(different fields, or the same field of different list elements) -/
theorem pull_push_frame (rc : Nat → List Nat → Val → Sections → Except Err Sections) (rp : Nat → List Nat → Except Err Val)
    (hist hist' : List Nat) (s s' : Sections) (a b : Nat) (path path' : List PStep) (names names' : List Nat) (v : Val)
    (p p' : List Step) (hp : resolve hist path = some p) (hp' : resolve hist' path' = some p')
    (hd : Aoe.Props.C05.Diverge p p')
    (h : pushLink rc hist s ((a, .plain path [] names), v) = .ok s') :
    pullLink rp hist' s' (b, .plain path' [] names') = pullLink rp hist' s (b, .plain path' [] names') := by
  simp only [pushLink, bind, Except.bind, hp, pure, Except.pure] at h
  cases hs : setAt p s.root v with
  | none => simp [hs, Option.bind] at h
  | some r =>
    simp only [hs, Option.bind] at h
    cases hw : s.withRoot r with
    | none => simp [hw] at h
    | some s2 =>
      simp only [hw, applyActs, List.foldlM, pure, Except.pure, Except.ok.injEq] at h
      subst h
      have hf := Aoe.Props.C05.frame p p' s.root v r hd hs
      simp only [pullLink, hp', Option.bind, (withRoot_some s s2 r hw).1, hf]

end Aoe.Props.Links

namespace Aoe.Props.Links
open Aoe Aoe.Codec Aoe.Lens Aoe.Commit

/-! ## construct ∘ commit for plain classes: what was pushed is what is pulled (C03 at the class level) -/

/-- divergence of unresolved link paths of ONE object (same index history): different retrievers somewhere along a
common prefix (an index step against a field step also diverges) -/
def PDiverge : List PStep → List PStep → Bool
  | .fld i :: p, .fld j :: q => i != j || PDiverge p q
  | .hidx i :: p, .hidx j :: q => i == j && PDiverge p q
  | .fld _ :: _, .hidx _ :: _ => true
  | .hidx _ :: _, .fld _ :: _ => true
  | _, _ => false

theorem resolve_diverge (hist : List Nat) (p q : List PStep) (rp rq : List Step)
    (hp : resolve hist p = some rp) (hq : resolve hist q = some rq) (h : PDiverge p q = true) :
    Aoe.Props.C05.Diverge rp rq := by
  induction p generalizing q rp rq with
  | nil => cases q <;> simp [PDiverge] at h
  | cons a p ih =>
    cases q with
    | nil => cases a <;> simp [PDiverge] at h
    | cons b q =>
      cases a with
      | fld i =>
        simp only [resolve] at hp
        cases hrp : resolve hist p with
        | none => simp [hrp] at hp
        | some rp' =>
          simp only [hrp, Option.map, Option.some.injEq] at hp
          subst hp
          cases b with
          | fld j =>
            simp only [resolve] at hq
            cases hrq : resolve hist q with
            | none => simp [hrq] at hq
            | some rq' =>
              simp only [hrq, Option.map, Option.some.injEq] at hq
              subst hq
              simp only [PDiverge, Bool.or_eq_true, bne_iff_ne, ne_eq] at h
              by_cases hij : i = j
              · subst hij
                rcases h with h | h
                · exact absurd rfl h
                · exact Or.inr ⟨rfl, ih q rp' rq' hrp hrq h⟩
              · exact Or.inl (by simpa using hij)
          | hidx k =>
            simp only [resolve] at hq
            cases hk : hist[k]? with
            | none => simp [hk] at hq
            | some n =>
              simp only [hk] at hq
              cases hrq : resolve hist q with
              | none => simp [hrq] at hq
              | some rq' =>
                simp only [hrq, Option.map, Option.some.injEq] at hq
                subst hq
                exact Or.inl (by simp)
      | hidx i =>
        simp only [resolve] at hp
        cases hi : hist[i]? with
        | none => simp [hi] at hp
        | some n =>
          simp only [hi] at hp
          cases hrp : resolve hist p with
          | none => simp [hrp] at hp
          | some rp' =>
            simp only [hrp, Option.map, Option.some.injEq] at hp
            subst hp
            cases b with
            | fld j =>
              simp only [resolve] at hq
              cases hrq : resolve hist q with
              | none => simp [hrq] at hq
              | some rq' =>
                simp only [hrq, Option.map, Option.some.injEq] at hq
                subst hq
                exact Or.inl (by simp)
            | hidx k =>
              simp only [resolve] at hq
              cases hk : hist[k]? with
              | none => simp [hk] at hq
              | some m =>
                simp only [hk] at hq
                cases hrq : resolve hist q with
                | none => simp [hrq] at hq
                | some rq' =>
                  simp only [hrq, Option.map, Option.some.injEq] at hq
                  subst hq
                  simp only [PDiverge, Bool.and_eq_true, beq_iff_eq] at h
                  obtain ⟨hik, hd⟩ := h
                  subst hik
                  rw [hi] at hk
                  cases hk
                  exact Or.inr ⟨rfl, ih q rp' rq' hrp hrq hd⟩

/-- a list of independent writes -/
def writeAll : List (List Step × Val) → Val → Option Val
  | [], t => some t
  | (p, v) :: ws, t => match setAt p t v with | some t1 => writeAll ws t1 | none => none

theorem writeAll_frame (ws : List (List Step × Val)) (q : List Step) (t t' : Val)
    (hd : ∀ w ∈ ws, Aoe.Props.C05.Diverge w.1 q) (h : writeAll ws t = some t') : getAt q t' = getAt q t := by
  induction ws generalizing t with
  | nil => simp only [writeAll, Option.some.injEq] at h; subst h; rfl
  | cons w ws ih =>
    obtain ⟨p, v⟩ := w
    simp only [writeAll] at h
    cases hs : setAt p t v with
    | none => simp [hs] at h
    | some t1 =>
      simp only [hs] at h
      rw [ih t1 (fun w hw => hd w (by simp [hw])) h]
      exact Aoe.Props.C05.frame p q t v t1 (hd (p, v) (by simp)) hs

theorem diverge_symm (p q : List Step) (h : Aoe.Props.C05.Diverge p q) : Aoe.Props.C05.Diverge q p := by
  induction p generalizing q with
  | nil => cases q <;> exact absurd h id
  | cons a p ih =>
    cases q with
    | nil => exact absurd h id
    | cons b q =>
      rcases h with h | ⟨h1, h2⟩
      · exact Or.inl (fun e => h e.symm)
      · exact Or.inr ⟨h1.symm, ih q h2⟩

/-- every one of pairwise-diverging writes is read back -/
theorem writeAll_get (ws : List (List Step × Val)) (t t' : Val)
    (hd : ws.Pairwise (fun a b => Aoe.Props.C05.Diverge a.1 b.1)) (h : writeAll ws t = some t') :
    ∀ w ∈ ws, getAt w.1 t' = some w.2 := by
  induction ws generalizing t with
  | nil => intro w hw; simp at hw
  | cons w0 ws ih =>
    obtain ⟨p, v⟩ := w0
    simp only [writeAll] at h
    cases hs : setAt p t v with
    | none => simp [hs] at h
    | some t1 =>
      simp only [hs] at h
      rw [List.pairwise_cons] at hd
      intro w hw
      simp only [List.mem_cons] at hw
      rcases hw with rfl | hw
      · have hf := writeAll_frame ws p t1 t' (fun w hw => diverge_symm _ _ (hd.1 w hw)) h
        rw [hf]
        exact Aoe.Props.C05.get_set p t v t1 hs
      · exact ih t1 hd.2 h w hw

end Aoe.Props.Links

namespace Aoe.Props.Links
open Aoe Aoe.Codec Aoe.Lens Aoe.Commit

/-- the writes a list of (link, value) pairs of a plain-only class performs, in list order -/
def writesOf (hist : List Nat) : List ((Nat × LinkKind) × Val) → Option (List (List Step × Val))
  | [] => some []
  | lv :: r =>
    match lv.1.2 with
    | .plain path _ _ =>
      match resolve hist path, writesOf hist r with
      | some p, some ws => some ((p, lv.2) :: ws)
      | _, _ => none
    | _ => writesOf hist r

/-- two links of one object address different places -/
def linkDistinct (a b : LinkKind) : Bool :=
  match a, b with
  | .plain p _ _, .plain q _ _ => PDiverge p q
  | _, _ => true

def allDistinctFrom (a : LinkKind) : List (Nat × LinkKind) → Bool
  | [] => true
  | b :: r => linkDistinct a b.2 && linkDistinct b.2 a && allDistinctFrom a r

/-- decidable side condition on a generated class: its plain links address pairwise different retrievers -/
def ClassSpec.pathsDistinct : List (Nat × LinkKind) → Bool
  | [] => true
  | a :: r => allDistinctFrom a.2 r && ClassSpec.pathsDistinct r

theorem commit_plain_writes (rc : Nat → List Nat → Val → Sections → Except Err Sections) (hist : List Nat)
    (L : List ((Nat × LinkKind) × Val)) (hp : ∀ lv ∈ L, LinkKind.isPlainNoActs lv.1.2 = true) (s s' : Sections)
    (h : L.foldlM (pushLink rc hist) s = .ok s') :
    ∃ ws, writesOf hist L = some ws ∧ writeAll ws s.root = some s'.root := by
  induction L generalizing s with
  | nil =>
    simp only [List.foldlM, pure, Except.pure, Except.ok.injEq] at h; subst h
    exact ⟨[], rfl, rfl⟩
  | cons lv L ih =>
    simp only [List.foldlM, bind, Except.bind] at h
    cases h1 : pushLink rc hist s lv with
    | error e => rw [h1] at h; cases h
    | ok s1 =>
      rw [h1] at h
      obtain ⟨ws, hw, hwa⟩ := ih (fun x hx => hp x (by simp [hx])) s1 h
      have hk := hp lv (by simp)
      obtain ⟨⟨a, k⟩, v⟩ := lv
      cases k with
      | hist n =>
        simp only [pushLink, pure, Except.pure, Except.ok.injEq] at h1; subst h1
        exact ⟨ws, by simp [writesOf, hw], hwa⟩
      | skip =>
        simp only [pushLink, pure, Except.pure, Except.ok.injEq] at h1; subst h1
        exact ⟨ws, by simp [writesOf, hw], hwa⟩
      | objs => simp [LinkKind.isPlainNoActs] at hk
      | plain path acts names =>
        cases acts with
        | cons x xs => simp [LinkKind.isPlainNoActs] at hk
        | nil =>
          simp only [pushLink, bind, Except.bind] at h1
          cases hr : resolve hist path with
          | none => simp [hr] at h1
          | some p =>
            simp only [hr, pure, Except.pure] at h1
            cases hs : setAt p s.root v with
            | none => simp [hs, Option.bind] at h1
            | some r =>
              simp only [hs, Option.bind] at h1
              cases hwr : s.withRoot r with
              | none => simp [hwr] at h1
              | some s2 =>
                simp only [hwr, applyActs, List.foldlM, pure, Except.pure, Except.ok.injEq] at h1
                subst h1
                refine ⟨(p, v) :: ws, by simp [writesOf, hr, hw], ?_⟩
                simp only [writeAll, hs]
                rw [← (withRoot_some s s2 r hwr).1]; exact hwa

theorem linkDistinct_writes (hist : List Nat) (a : (Nat × LinkKind) × Val) (L : List ((Nat × LinkKind) × Val))
    (ws : List (List Step × Val)) (p : List Step) (path : List PStep) (acts : List RefreshAct) (names : List Nat)
    (ha : a.1.2 = .plain path acts names) (hp : resolve hist path = some p)
    (hd : ∀ b ∈ L, linkDistinct a.1.2 b.1.2 = true) (hw : writesOf hist L = some ws) :
    ∀ w ∈ ws, Aoe.Props.C05.Diverge p w.1 := by
  induction L generalizing ws with
  | nil => simp only [writesOf, Option.some.injEq] at hw; subst hw; intro w hw; simp at hw
  | cons b L ih =>
    obtain ⟨⟨bn, bk⟩, bv⟩ := b
    have hb := hd ((bn, bk), bv) (by simp)
    have hrest : ∀ x ∈ L, linkDistinct a.1.2 x.1.2 = true := fun x hx => hd x (List.mem_cons_of_mem _ hx)
    cases bk with
    | hist n => simp only [writesOf] at hw; exact ih ws hrest hw
    | skip => simp only [writesOf] at hw; exact ih ws hrest hw
    | objs a1 a2 a3 a4 a5 a6 a7 => simp only [writesOf] at hw; exact ih ws hrest hw
    | plain q qa qn =>
      simp only [writesOf] at hw
      cases hq : resolve hist q with
      | none => simp [hq] at hw
      | some rq =>
        cases hws : writesOf hist L with
        | none => simp [hq, hws] at hw
        | some ws' =>
          simp only [hq, hws, Option.some.injEq] at hw
          subst hw
          intro w hw
          simp only [List.mem_cons] at hw
          rcases hw with rfl | hw
          · rw [ha] at hb
            simp only [linkDistinct] at hb
            exact resolve_diverge hist path q p rq hp hq hb
          · exact ih ws' hrest hws w hw

end Aoe.Props.Links

namespace Aoe.Props.Links
open Aoe Aoe.Codec Aoe.Lens Aoe.Commit

/-- symmetric distinctness of two (link, value) pairs -/
def PairDistinct (a b : (Nat × LinkKind) × Val) : Prop :=
  linkDistinct a.1.2 b.1.2 = true ∧ linkDistinct b.1.2 a.1.2 = true

theorem allDistinctFrom_spec (a : LinkKind) (r : List (Nat × LinkKind)) (h : allDistinctFrom a r = true) :
    ∀ b ∈ r, linkDistinct a b.2 = true ∧ linkDistinct b.2 a = true := by
  induction r with
  | nil => intro b hb; simp at hb
  | cons c r ih =>
    simp only [allDistinctFrom, Bool.and_eq_true] at h
    intro b hb
    simp only [List.mem_cons] at hb
    rcases hb with rfl | hb
    · exact ⟨h.1.1, h.1.2⟩
    · exact ih h.2 b hb

theorem pathsDistinct_pairwise (links : List (Nat × LinkKind)) (vals : List Val)
    (h : ClassSpec.pathsDistinct links = true) : (links.zip vals).Pairwise PairDistinct := by
  induction links generalizing vals with
  | nil => simp
  | cons a r ih =>
    cases vals with
    | nil => simp
    | cons v vs =>
      simp only [ClassSpec.pathsDistinct, Bool.and_eq_true] at h
      rw [List.zip_cons_cons, List.pairwise_cons]
      refine ⟨?_, ih vs h.2⟩
      intro b hb
      have hb1 : b.1 ∈ r := (List.of_mem_zip hb).1
      exact allDistinctFrom_spec a.2 r h.1 b.1 hb1

theorem pairDistinct_symm (a b : (Nat × LinkKind) × Val) (h : PairDistinct a b) : PairDistinct b a := ⟨h.2, h.1⟩

theorem writes_pairwise (hist : List Nat) (L : List ((Nat × LinkKind) × Val)) (ws : List (List Step × Val))
    (hd : L.Pairwise PairDistinct) (hw : writesOf hist L = some ws) :
    ws.Pairwise (fun a b => Aoe.Props.C05.Diverge a.1 b.1) := by
  induction L generalizing ws with
  | nil => simp only [writesOf, Option.some.injEq] at hw; subst hw; simp
  | cons a L ih =>
    rw [List.pairwise_cons] at hd
    obtain ⟨⟨an, ak⟩, av⟩ := a
    cases ak with
    | hist n => simp only [writesOf] at hw; exact ih ws hd.2 hw
    | skip => simp only [writesOf] at hw; exact ih ws hd.2 hw
    | objs a1 a2 a3 a4 a5 a6 a7 => simp only [writesOf] at hw; exact ih ws hd.2 hw
    | plain path acts names =>
      simp only [writesOf] at hw
      cases hp : resolve hist path with
      | none => simp [hp] at hw
      | some p =>
        cases hws : writesOf hist L with
        | none => simp [hp, hws] at hw
        | some ws' =>
          simp only [hp, hws, Option.some.injEq] at hw
          subst hw
          rw [List.pairwise_cons]
          refine ⟨?_, ih ws' hd.2 hws⟩
          exact linkDistinct_writes hist ((an, .plain path acts names), av) L ws' p path acts names rfl hp
            (fun b hb => (hd.1 b hb).1) hws

theorem mem_writesOf (hist : List Nat) (L : List ((Nat × LinkKind) × Val)) (ws : List (List Step × Val))
    (hw : writesOf hist L = some ws) (a : Nat) (path : List PStep) (acts : List RefreshAct) (names : List Nat) (v : Val)
    (hm : ((a, LinkKind.plain path acts names), v) ∈ L) :
    ∃ p, resolve hist path = some p ∧ (p, v) ∈ ws := by
  induction L generalizing ws with
  | nil => simp at hm
  | cons b L ih =>
    obtain ⟨⟨bn, bk⟩, bv⟩ := b
    simp only [List.mem_cons] at hm
    cases bk with
    | hist n =>
      simp only [writesOf] at hw
      rcases hm with h | h
      · cases h
      · exact ih ws hw h
    | skip =>
      simp only [writesOf] at hw
      rcases hm with h | h
      · cases h
      · exact ih ws hw h
    | objs a1 a2 a3 a4 a5 a6 a7 =>
      simp only [writesOf] at hw
      rcases hm with h | h
      · cases h
      · exact ih ws hw h
    | plain q qa qn =>
      simp only [writesOf] at hw
      cases hq : resolve hist q with
      | none => simp [hq] at hw
      | some rq =>
        cases hws : writesOf hist L with
        | none => simp [hq, hws] at hw
        | some ws' =>
          simp only [hq, hws, Option.some.injEq] at hw
          subst hw
          rcases hm with h | h
          · cases h
            exact ⟨rq, hq, by simp⟩
          · obtain ⟨p, hp, hmem⟩ := ih ws' hws h
            exact ⟨p, hp, by simp [hmem]⟩

/-- **construct ∘ commit on plain classes**: after the commit of an object of a class whose links are plain value links
addressing pairwise different retrievers, every link pulls exactly the value that was pushed through it -/
theorem pull_after_commit (classes : List ClassSpec) (fuel cls : Nat) (hist : List Nat) (s s' : Sections) (vals : List Val)
    (c : ClassSpec) (hc : classes[cls]? = some c) (hp : ClassSpec.plainOnly c = true)
    (hd : ClassSpec.pathsDistinct c.links = true)
    (h : commitObj classes (fuel + 1) cls hist (.strct vals) s = .ok s')
    (rp : Nat → List Nat → Except Err Val) (a : Nat) (path : List PStep) (names : List Nat) (v : Val)
    (hm : ((a, LinkKind.plain path [] names), v) ∈ c.links.zip vals) :
    pullLink rp hist s' (a, .plain path [] names) = .ok v := by
  simp only [commitObj, hc] at h
  have hplain : ∀ lv ∈ (c.links.zip vals).reverse, LinkKind.isPlainNoActs lv.1.2 = true := by
    intro lv hlv
    have : lv.1 ∈ c.links := (List.of_mem_zip (by simpa using hlv)).1
    have := List.all_eq_true.mp hp lv.1 this
    simpa using this
  obtain ⟨ws, hw, hwa⟩ := commit_plain_writes _ hist _ hplain s s' h
  have hpw : ((c.links.zip vals).reverse).Pairwise PairDistinct := by
    rw [List.pairwise_reverse]
    exact (pathsDistinct_pairwise c.links vals hd).imp (fun hab => pairDistinct_symm _ _ hab)
  have hdw := writes_pairwise hist _ ws hpw hw
  obtain ⟨p, hrp, hmem⟩ := mem_writesOf hist _ ws hw a path [] names v (by simpa using hm)
  have hg := writeAll_get ws s.root s'.root hdw hwa (p, v) hmem
  simp only [pullLink, hrp, Option.bind, hg, pure, Except.pure]

example : ClassSpec.pathsDistinct demoClasses[0].links = true := by decide

/-- every write of a plain-only commit is the write of one of its links -/
theorem writesOf_origin (hist : List Nat) (L : List ((Nat × LinkKind) × Val)) (ws : List (List Step × Val))
    (hw : writesOf hist L = some ws) (p : List Step) (v : Val) (hm : (p, v) ∈ ws) :
    ∃ a path acts names, ((a, LinkKind.plain path acts names), v) ∈ L ∧ resolve hist path = some p := by
  induction L generalizing ws with
  | nil => simp only [writesOf, Option.some.injEq] at hw; subst hw; simp at hm
  | cons b L ih =>
    obtain ⟨⟨bn, bk⟩, bv⟩ := b
    cases bk with
    | hist n =>
      simp only [writesOf] at hw
      obtain ⟨a, path, acts, names, h1, h2⟩ := ih ws hw hm
      exact ⟨a, path, acts, names, by simp [h1], h2⟩
    | skip =>
      simp only [writesOf] at hw
      obtain ⟨a, path, acts, names, h1, h2⟩ := ih ws hw hm
      exact ⟨a, path, acts, names, by simp [h1], h2⟩
    | objs a1 a2 a3 a4 a5 a6 a7 =>
      simp only [writesOf] at hw
      obtain ⟨a, path, acts, names, h1, h2⟩ := ih ws hw hm
      exact ⟨a, path, acts, names, by simp [h1], h2⟩
    | plain q qa qn =>
      simp only [writesOf] at hw
      cases hq : resolve hist q with
      | none => simp [hq] at hw
      | some rq =>
        cases hws : writesOf hist L with
        | none => simp [hq, hws] at hw
        | some ws' =>
          simp only [hq, hws, Option.some.injEq] at hw
          subst hw
          simp only [List.mem_cons, Prod.mk.injEq] at hm
          rcases hm with ⟨h1, h2⟩ | h
          · subst h1; subst h2
            exact ⟨bn, q, qa, qn, by simp, hq⟩
          · obtain ⟨a, path, acts, names, h1, h2⟩ := ih ws' hws h
            exact ⟨a, path, acts, names, by simp [h1], h2⟩

/-- **frame of a commit** (plain classes): a place that diverges from the retriever of every link of the class holds
after the commit what it held before -/
theorem commit_frame (classes : List ClassSpec) (fuel cls : Nat) (hist : List Nat) (s s' : Sections) (vals : List Val)
    (c : ClassSpec) (hc : classes[cls]? = some c) (hp : ClassSpec.plainOnly c = true)
    (h : commitObj classes (fuel + 1) cls hist (.strct vals) s = .ok s')
    (q : List Step)
    (hq : ∀ a path acts names p, (a, LinkKind.plain path acts names) ∈ c.links → resolve hist path = some p →
      Aoe.Props.C05.Diverge p q) :
    getAt q s'.root = getAt q s.root := by
  simp only [commitObj, hc] at h
  have hplain : ∀ lv ∈ (c.links.zip vals).reverse, LinkKind.isPlainNoActs lv.1.2 = true := by
    intro lv hlv
    have : lv.1 ∈ c.links := (List.of_mem_zip (by simpa using hlv)).1
    have := List.all_eq_true.mp hp lv.1 this
    simpa using this
  obtain ⟨ws, hw, hwa⟩ := commit_plain_writes _ hist _ hplain s s' h
  refine writeAll_frame ws q s.root s'.root ?_ hwa
  intro w hwm
  obtain ⟨p, v⟩ := w
  obtain ⟨a, path, acts, names, h1, h2⟩ := writesOf_origin hist _ ws hw p v hwm
  have : (a, LinkKind.plain path acts names) ∈ c.links := (List.of_mem_zip (by simpa using h1)).1
  exact hq a path acts names p this h2

/-- **an edit lands exactly where it belongs** (plain classes with pairwise different retrievers): two commits of the
same object that differ in the values of some links, started from the same sections, produce sections in which
(1) every link pulls its own object's value, so a link whose value is the same in both pulls the same in both, and
(2) every place outside the links' retrievers is what it was before, in both -/
theorem edit_lands_only_there (classes : List ClassSpec) (fuel cls : Nat) (hist : List Nat) (s s1 s2 : Sections)
    (vals1 vals2 : List Val) (c : ClassSpec) (hc : classes[cls]? = some c) (hp : ClassSpec.plainOnly c = true)
    (hd : ClassSpec.pathsDistinct c.links = true)
    (h1 : commitObj classes (fuel + 1) cls hist (.strct vals1) s = .ok s1)
    (h2 : commitObj classes (fuel + 1) cls hist (.strct vals2) s = .ok s2)
    (rp : Nat → List Nat → Except Err Val) :
    (∀ a path names v1 v2, ((a, LinkKind.plain path [] names), v1) ∈ c.links.zip vals1 →
        ((a, LinkKind.plain path [] names), v2) ∈ c.links.zip vals2 →
        pullLink rp hist s1 (a, .plain path [] names) = .ok v1 ∧ pullLink rp hist s2 (a, .plain path [] names) = .ok v2) ∧
    (∀ q, (∀ a path acts names p, (a, LinkKind.plain path acts names) ∈ c.links → resolve hist path = some p →
        Aoe.Props.C05.Diverge p q) → getAt q s1.root = getAt q s2.root) := by
  refine ⟨?_, ?_⟩
  · intro a path names v1 v2 m1 m2
    exact ⟨pull_after_commit classes fuel cls hist s s1 vals1 c hc hp hd h1 rp a path names v1 m1,
           pull_after_commit classes fuel cls hist s s2 vals2 c hc hp hd h2 rp a path names v2 m2⟩
  · intro q hq
    rw [commit_frame classes fuel cls hist s s1 vals1 c hc hp h1 q hq,
        commit_frame classes fuel cls hist s s2 vals2 c hc hp h2 q hq]

end Aoe.Props.Links
