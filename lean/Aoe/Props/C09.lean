import Aoe.Lemmas.HeapDec
/-!
# C09 – scenarios do not leak into each other

Model: `Aoe.Model.Heap` (heap with explicit addresses, owner stamps, the `UuidList` entry points, `deepcopy`,
`import_triggers`, commit/save into the section of the *object's* stamp).  `cfg : Cfg` selects the repaired
behaviours (`pinned` = the code as it is, `repaired` = F5 and F17 repaired); `copyFirst` on a list entry point is
the copy-on-foreign behaviour (F6, not proposed as a repair).

* `Inv cfg w` – every trigger a scenario holds and every component of it carries that scenario's stamp, two trigger
  objects never share a component, everything reachable is allocated (plus, with the F17 repair, owned nested lists).
* `Safe cfg w op` – the inputs on which the pinned code keeps the invariant: list entry points get no object held
  by another scenario unless it is copied first (by the caller or by the constructor's first-entry rule); without
  the F17 repair components are only added to triggers whose nested lists carry the owner's stamp.  With
  `repaired` and `copyFirst` every input is safe (`safe_repaired`).

Theorems: `disjoint_of_inv`, `inv_step`, `inv_run` / `disjoint_run` (all interleavings), `inv_run_repaired`,
`save_touches_only_own`, `save_frame_step`, `save_frame_run`, `import_returns_held`,
`import_returns_held_pinned_nonempty`, `import_returned_owned`, `import_links`, `import_link_internal`,
`import_link_external`, `import_link_other`, `safeRun_of_check` (safe histories by evaluation);
counterexamples on the pinned model: `import_returns_held_counter` (F5), `*_foreign_counter` (F6, six entry
points), `nested_owner_counter`, `nested_owner_leak_counter` (F17).
Outside the model (covered by the harness only): process-global dataset dicts and class-level state.
-/
namespace Aoe.Props.C09
open Aoe.Heap

/-- nothing reachable from `u` is reachable from `v` (`reach A ∩ reach B = ∅`) -/
def Disjoint (w : World) (u v : Uid) : Prop := ∀ r ∈ reach w u, r ∉ reach w v

/-- **isolation follows from ownership**: under the invariant two different scenarios reach disjoint sets of objects -/
theorem disjoint_of_inv {cfg : Cfg} {w : World} (i : Inv cfg w) {u v : Uid} (ne : u ≠ v) : Disjoint w u v := by
  intro r hr hr'
  simp only [reach, List.mem_flatMap, List.mem_cons, List.mem_map] at hr hr'
  obtain ⟨a, ha, h1⟩ := hr
  obtain ⟨b, hb, h2⟩ := hr'
  rcases h1 with rfl | ⟨c, hc, rfl⟩ <;> rcases h2 with h2 | ⟨c', hc', h2⟩
  · simp only [Ref.t.injEq] at h2; subst h2
    exact i.1.trigs_disjoint ne ha hb
  · cases h2
  · cases h2
  · simp only [Ref.c.injEq] at h2; subst h2
    exact i.1.comps_disjoint ne ha hb hc hc'

/-- freshly loaded scenarios satisfy the invariant -/
theorem inv_init (cfg : Cfg) (n : Nat) : Inv cfg (initWorld n) := by
  refine ⟨⟨?_, ?_, ?_, ?_, rfl, by simp [initWorld, noUuid]⟩, fun _ => ?_⟩
  · intro a t h; simp [initWorld] at h
  · intro a1 a2 t1 t2 _ h; simp [initWorld] at h
  · intro u a h; simp [initWorld] at h
  · intro u a h; simp [initWorld] at h
  · intro u a h; simp [initWorld] at h

/-- **one step** (edit, new trigger, new component, import with deepcopy, append / insert / extend / setitem / `+=` /
setter, remove, save – on any scenario) keeps the invariant -/
theorem inv_step {cfg : Cfg} {w w' : World} {op : Op} {r : Ret} (i : Inv cfg w) (safe : Safe cfg w op)
    (e : step cfg w op = .ok (w', r)) : Inv cfg w' := step_inv i safe e

/-- histories: any interleaving of operations on any scenarios, each applied to a safe input -/
inductive SafeRun (cfg : Cfg) : World → List Op → World → Prop
  | nil (w : World) : SafeRun cfg w [] w
  | cons {w w1 w2 : World} {op : Op} {ops : List Op} {r : Ret} :
      Safe cfg w op → step cfg w op = .ok (w1, r) → SafeRun cfg w1 ops w2 → SafeRun cfg w (op :: ops) w2

/-- **all interleavings** keep the invariant (induction over the history) -/
theorem inv_run {cfg : Cfg} {w w' : World} {ops : List Op} (i : Inv cfg w) (h : SafeRun cfg w ops w') : Inv cfg w' := by
  induction h with
  | nil => exact i
  | cons s e _ ih => exact ih (inv_step i s e)

/-- … hence scenarios stay disjoint along every history -/
theorem disjoint_run {cfg : Cfg} {w w' : World} {ops : List Op} (i : Inv cfg w) (h : SafeRun cfg w ops w')
    {u v : Uid} (ne : u ≠ v) : Disjoint w' u v := disjoint_of_inv (inv_run i h) ne

/-- the list entry points copy foreign entries first -/
def CopyFirst : Op → Prop
  | .adopt _ _ _ cf => cf = true
  | _ => True

instance : DecidablePred CopyFirst := fun op => by
  cases op <;> simp only [CopyFirst] <;> infer_instance

/-- with the repairs (F5, F17) and copy-on-foreign entry points (F6) **every** input is safe -/
theorem safe_repaired (w : World) {op : Op} (h : CopyFirst op) : Safe repaired w op := by
  cases op <;> simp [Safe, CopyFirst, repaired] at h ⊢
  exact Or.inl h

/-- the repaired model keeps the invariant on every history whatsoever (plain `run`, no side conditions) -/
theorem inv_run_repaired : ∀ (ops : List Op) (w w' : World), Inv repaired w → (∀ op ∈ ops, CopyFirst op) →
    run repaired w ops = .ok w' → Inv repaired w'
  | [], w, w', i, _, e => by simp only [run, Except.ok.injEq] at e; exact e ▸ i
  | op :: ops, w, w', i, hc, e => by
    simp only [run] at e
    split at e
    · simp at e
    · rename_i w1 r h1
      exact inv_run_repaired ops w1 w' (inv_step i (safe_repaired w (hc op (by simp))) h1)
        (fun o ho => hc o (by simp [ho])) e

/-! ## save -/

/-- what scenario `v` writes when it is saved now -/
def savedBy (w : World) (v : Uid) : Except Err (List STrig) :=
  match save w v with
  | .ok (_, o) => .ok o
  | .error e => .error e

/-- **save of A reads only what A reaches and writes only A's sections**: under the invariant it succeeds, changes
neither the heap nor any manager list nor the section of any other scenario, and its output is `render` of A's list -/
theorem save_touches_only_own {cfg : Cfg} {w : World} (i : Inv cfg w) {u : Uid} (hl : w.live u = true) :
    ∃ w' o, save w u = .ok (w', o) ∧ render w.heap (w.trigsOf u) = some o ∧
      w'.heap = w.heap ∧ w'.trigsOf = w.trigsOf ∧ w'.sectOf u = o ∧ ∀ v, v ≠ u → w'.sectOf v = w.sectOf v := by
  obtain ⟨w', rs, e, hr, s⟩ := save_owned i.1 hl
  exact ⟨w', rs, e, hr, s.same.heap, s.same.trigsOf, s.mine, s.others⟩

theorem savedBy_eq_render {cfg : Cfg} {w : World} (i : Inv cfg w) {u : Uid} (hl : w.live u = true) :
    ∃ o, savedBy w u = .ok o ∧ render w.heap (w.trigsOf u) = some o := by
  obtain ⟨w', rs, e, hr, _⟩ := save_owned i.1 hl
  exact ⟨rs, by simp [savedBy, e], hr⟩

/-- **save frame, one step**: an operation that is not activity on `B` (any edit, import, adoption, removal or
*save* on other scenarios – also one that reads `B`'s triggers to copy them) does not change what `B` saves -/
theorem save_frame_step {cfg : Cfg} {w w' : World} {op : Op} {r : Ret} (i : Inv cfg w) (safe : Safe cfg w op) {v : Uid}
    (hl : w.live v = true) (nt : ¬ Touches w v op) (e : step cfg w op = .ok (w', r)) : savedBy w' v = savedBy w v := by
  have i' := inv_step i safe e
  have ag := step_agree i safe nt e
  obtain ⟨o, h1, r1⟩ := savedBy_eq_render i hl
  obtain ⟨o', h2, r2⟩ := savedBy_eq_render i' (by rw [ag.live]; exact hl)
  have : render w'.heap (w'.trigsOf v) = render w.heap (w.trigsOf v) := by
    rw [ag.list]
    exact render_congr _ (fun a ha => ⟨ag.trigs a ha, ag.comps a ha⟩)
  rw [this, r1] at r2
  rw [h1, h2, Option.some.inj r2]

/-- histories without activity on `v` -/
inductive QuietRun (cfg : Cfg) (v : Uid) : World → List Op → World → Prop
  | nil (w : World) : QuietRun cfg v w [] w
  | cons {w w1 w2 : World} {op : Op} {ops : List Op} {r : Ret} :
      Safe cfg w op → ¬ Touches w v op → step cfg w op = .ok (w1, r) → QuietRun cfg v w1 ops w2 →
      QuietRun cfg v w (op :: ops) w2

/-- **save frame**: whatever happens on the other scenarios, `B` saves the same -/
theorem save_frame_run {cfg : Cfg} {v : Uid} {w w' : World} {ops : List Op} (i : Inv cfg w) (hl : w.live v = true)
    (h : QuietRun cfg v w ops w') : savedBy w' v = savedBy w v := by
  induction h with
  | nil => rfl
  | cons s nt e _ ih =>
    have ag := step_agree i s nt e
    rw [ih (inv_step i s e) (by rw [ag.live]; exact hl)]
    exact save_frame_step i s hl nt e

/-! ## import -/

/-- **the returned objects are the held ones** (F5 repaired): the manager's list is the old list followed by
exactly the returned addresses -/
theorem import_returns_held {cfg : Cfg} (hf : cfg.fixImport = true) {w w' : World} {u : Uid} {refs r : List Addr}
    (e : importTriggers cfg w u refs = .ok (w', r)) : w'.trigsOf u = w.trigsOf u ++ r := by
  obtain ⟨ts, h1, _, _, _, ⟨_, rfl⟩ | ⟨hf', _⟩⟩ := importTriggers_cases e
  · exact setFn_same _ _ _
  · rw [hf] at hf'; exact Bool.noConfusion hf'

/-- the pinned code gets it right exactly when the receiving manager already holds a trigger -/
theorem import_returns_held_pinned_nonempty {cfg : Cfg} {w w' : World} (i : Inv cfg w) {u : Uid} {refs r : List Addr}
    (hne : w.trigsOf u ≠ []) (e : importTriggers cfg w u refs = .ok (w', r)) : w'.trigsOf u = w.trigsOf u ++ r := by
  obtain ⟨ts, h1, _, _, hcp, ⟨_, rfl⟩ | ⟨_, h2, held, hct, rfl⟩⟩ := importTriggers_cases e
  · exact setFn_same _ _ _
  · show setFn w.trigsOf u held u = _
    rw [setFn_same]
    obtain ⟨a0, rest, hl⟩ := List.exists_cons_of_ne_nil hne
    obtain ⟨ex, _, _, _, _⟩ := copyTrigs_inv _ _ _ _ _ _ _ hcp i.1.hwf i.1.sep
    have ha0 : a0 ∈ w.trigsOf u := by rw [hl]; simp
    have hlt := i.1.swf u a0 ha0
    have ht0 : h1.trigs[a0]? = some (w.heap.trigs[a0]) := by
      rw [ex.trigs_lt hlt]; exact List.getElem?_eq_getElem hlt
    have hown := (i.1.owned u a0 ha0 _ (List.getElem?_eq_getElem hlt)).1
    rw [hl] at hct ⊢
    simp only [List.cons_append, ctor, ht0, isForeign, hown, bne_self_eq_false, Bool.false_and,
      Bool.false_eq_true, if_false, Option.some.injEq, Prod.mk.injEq] at hct
    exact hct.2.symm

/-- **imported triggers are owned by the receiver and by nobody else** (F5 repaired): every returned object is held
by `u`, carries `u`'s stamp, and is reachable from no other scenario -/
theorem import_returned_owned {cfg : Cfg} (hf : cfg.fixImport = true) {w w' : World} (i : Inv cfg w) {u : Uid}
    (hl : w.live u = true) {refs r : List Addr} (e : importTriggers cfg w u refs = .ok (w', r)) :
    ∀ a ∈ r, a ∈ w'.trigsOf u ∧ (∀ (t : Trig), w'.heap.trigs[a]? = some t → t.uuid = u) ∧
      ∀ v, v ≠ u → Ref.t a ∉ reach w' v := by
  have i' : Inv cfg w' := (importTriggers_nf i e).inv i (live_ne i.1 hl)
  have held := import_returns_held hf e
  intro a ha
  have hm : a ∈ w'.trigsOf u := by rw [held]; exact List.mem_append.mpr (Or.inr ha)
  refine ⟨hm, fun t ht => (i'.1.owned u a hm t ht).1, fun v hv hr => ?_⟩
  have : Ref.t a ∈ reach w' u := by
    simp only [reach, List.mem_flatMap]
    exact ⟨a, hm, by simp⟩
  exact disjoint_of_inv i' (Ne.symm hv) _ this hr

/-- link target an imported component gets: `index_changes[old]`, `-1` on `KeyError`, untouched for other kinds -/
def linkTarget (d : List (Int × Int)) (c : Comp) : Int :=
  if c.kind.isLink then (match dictGet d c.target with | some v => v | none => -1) else c.target

/-- **contents of the returned copies**: the k-th returned trigger is a fresh cell with id `len + k`, the same name
and as many components as its source; each component keeps kind and payload, and its link is `linkTarget` of the
source's under the dictionary `old id of the j-th imported ↦ len + j` -/
theorem import_links {cfg : Cfg} {w w' : World} (i : Inv cfg w) {u : Uid} {refs r : List Addr}
    (e : importTriggers cfg w u refs = .ok (w', r)) :
    ∃ ts, lookupTrigs w.heap refs = some ts ∧ r = List.range' w.heap.trigs.length refs.length ∧
      ∀ (j : Nat) (a : Addr), refs[j]? = some a → ∃ (t : Trig) (cs : List Comp) (t' : Trig),
        w.heap.trigs[a]? = some t ∧ lookupAll w.heap.comps t.comps = some cs ∧
        w'.heap.trigs[w.heap.trigs.length + j]? = some t' ∧
        t'.tid = (((w.trigsOf u).length + j : Nat) : Int) ∧ t'.name = t.name ∧ t'.comps.length = cs.length ∧
        ∀ (p : Nat) (c : Comp), cs[p]? = some c → ∃ (ca : Addr) (c' : Comp), t'.comps[p]? = some ca ∧
          w.heap.comps.length ≤ ca ∧ w'.heap.comps[ca]? = some c' ∧ c'.kind = c.kind ∧ c'.val = c.val ∧
          c'.target = linkTarget (importDict (w.trigsOf u).length 0 ts) c := by
  obtain ⟨ts, h1, h2, S, hnd, hts, hcp, ex, hw'⟩ := importTriggers_shape i.1 e
  obtain ⟨ex1, _, _, hr, _⟩ := copyTrigs_inv _ _ _ _ _ _ _ hcp i.1.hwf i.1.sep
  have valid : ∀ a ∈ refs, a < w.heap.trigs.length := lookupAll_valid _ _ _ hts
  refine ⟨ts, hts, hr, fun j a hj => ?_⟩
  obtain ⟨t, cs, base, ht, hcs, hbase, htr, hcm⟩ := copyTrigs_content _ _ _ _ _ _ _ hcp i.1.hwf i.1.sep valid j a hj
  -- the cell in the final heap: same payload
  have h2t := ex.trigs _ _ htr
  have pt := stampTrigs_payT cfg u S h2 (w.heap.trigs.length + j)
  rw [← hw', h2t] at pt
  cases ht' : w'.heap.trigs[w.heap.trigs.length + j]? with
  | none => simp [ht'] at pt
  | some t' =>
    simp only [ht', Option.map_some, payT, Option.some.injEq, Prod.mk.injEq] at pt
    obtain ⟨p1, p2, p3⟩ := pt
    refine ⟨t, cs, t', ht, hcs, rfl, by simp [p1], by simp [p2], by simp [p3], fun p c hp => ?_⟩
    have hlt : p < cs.length := (List.getElem?_eq_some_iff.mp hp).1
    have h2c := ex.comps _ _ (hcm p c hp)
    have pc := stampTrigs_payC cfg u S h2 (base + p)
    rw [← hw', h2c] at pc
    cases hc' : w'.heap.comps[base + p]? with
    | none => simp [hc'] at pc
    | some c' =>
      simp only [hc', Option.map_some, payC, Option.some.injEq, Prod.mk.injEq] at pc
      obtain ⟨q1, q2, q3⟩ := pc
      refine ⟨base + p, c', by simp [p3, hlt], by omega, hc', ?_, ?_, ?_⟩
      · rw [q1]; simp only [remapC]; split <;> rfl
      · rw [q3]; simp only [remapC]; split <;> rfl
      · rw [q2]; simp only [remapC, linkTarget]; split <;> rfl

/-- **links to triggers that were not imported are cleared** -/
theorem import_link_external (base : Nat) (ts : List Trig) (c : Comp) (hl : c.kind.isLink = true)
    (hx : ∀ t ∈ ts, t.tid ≠ c.target) : linkTarget (importDict base 0 ts) c = -1 := by
  simp [linkTarget, hl, (dictGet_importDict_none base ts 0 c.target).mpr hx]

/-- **internal links point at the imported copies**: a link to the old id of the j-th imported trigger becomes the
new id `len + j` of its copy (old ids of the imported triggers pairwise different) -/
theorem import_link_internal (base : Nat) (ts : List Trig) (c : Comp) (hl : c.kind.isLink = true)
    (nd : (ts.map (·.tid)).Nodup) (j : Nat) (t : Trig) (hj : ts[j]? = some t) (hx : c.target = t.tid) :
    linkTarget (importDict base 0 ts) c = ((base + j : Nat) : Int) := by
  have := dictGet_importDict_some base ts 0 j t nd hj
  simp [linkTarget, hl, hx, this]

/-- components that are not (de)activation effects keep their `trigger_id` -/
theorem import_link_other (d : List (Int × Int)) (c : Comp) (hl : c.kind.isLink = false) : linkTarget d c = c.target := by
  simp [linkTarget, hl]

/-! ## the pinned code breaks three clauses: witnesses (by evaluation of the model) -/

/-- the outcome is `ok` and satisfies `p` -/
def onOk {α : Type} (x : Except Err α) (p : α → Bool) : Bool :=
  match x with
  | .ok a => p a
  | .error _ => false

instance (w : World) (u v : Uid) : Decidable (Disjoint w u v) :=
  inferInstanceAs (Decidable (∀ r ∈ reach w u, r ∉ reach w v))

def failsWithIndexError : Except Err (List STrig) → Bool
  | .error .index => true
  | _ => false

def isAddrs : Ret → List Addr → Bool
  | .addrs r, l => r == l
  | _, _ => false

/-- F5: scenario 1 has one trigger, scenario 2 none; `import_triggers` of it into scenario 2 -/
def f5 (cfg : Cfg) : Except Err (World × Ret) :=
  match run cfg (initWorld 2) [.addTrigger 1 5] with
  | .ok w => step cfg w (.importT 2 [0])
  | .error e => .error e

/-- **F5**: the returned object (address 1, still stamped by scenario 1) is not the one the manager holds
(address 2, a second copy); the repaired model returns the held one, stamped by scenario 2 -/
theorem import_returns_held_counter :
    onOk (f5 pinned) (fun p => isAddrs p.2 [1] && decide (p.1.trigsOf 2 = [2]) &&
                               decide ((p.1.heap.trigs[1]?).map (·.uuid) = some 1)) = true ∧
    onOk (f5 repaired) (fun p => isAddrs p.2 [1] && decide (p.1.trigsOf 2 = [1]) &&
                                 decide ((p.1.heap.trigs[1]?).map (·.uuid) = some 2)) = true := by decide

/-- F6: scenario 1 holds trigger 0, scenario 2 holds trigger 1; scenario 2 adopts objects through an entry point -/
def f6 (how : How) (refs : List Addr) (copyFirst : Bool) : Except Err World :=
  run pinned (initWorld 2) [.addTrigger 1 5, .addTrigger 2 6, .adopt 2 how refs copyFirst]

/-- trigger 0 is shared by scenarios 1 and 2, stamped by the receiver 2, and the giver cannot be saved any more
(its commit goes to a record of scenario 2 that does not exist) -/
def Shared (w : World) : Prop :=
  ¬ Disjoint w 1 2 ∧ 0 ∈ w.trigsOf 1 ∧ 0 ∈ w.trigsOf 2 ∧ (w.heap.trigs[0]?).map (·.uuid) = some 2 ∧
    failsWithIndexError (savedBy w 1) = true

instance (w : World) : Decidable (Shared w) := by unfold Shared; infer_instance

theorem append_foreign_counter : onOk (f6 .append [0] false) (fun w => decide (Shared w)) = true := by decide
theorem insert_foreign_counter : onOk (f6 (.insert 0) [0] false) (fun w => decide (Shared w)) = true := by decide
theorem extend_foreign_counter : onOk (f6 .extend [0] false) (fun w => decide (Shared w)) = true := by decide
theorem setitem_foreign_counter : onOk (f6 (.setitem 0) [0] false) (fun w => decide (Shared w)) = true := by decide
theorem iadd_foreign_counter : onOk (f6 .iadd [0] false) (fun w => decide (Shared w)) = true := by decide
theorem assign_foreign_counter : onOk (f6 .assign [1, 0] false) (fun w => decide (Shared w)) = true := by decide

/-- with copy-on-foreign the same call keeps the scenarios apart (and both can be saved) -/
theorem append_copyFirst_ok :
    onOk (f6 .append [0] true) (fun w => decide (Disjoint w 1 2 ∧ w.trigsOf 1 = [0] ∧ w.trigsOf 2 = [1, 2]) &&
      (savedBy w 1).toBool && (savedBy w 2).toBool) = true := by decide

/-- F17: scenario 1 saved two triggers (the second with an effect); scenario 2 imports trigger 0 and adds an effect to
the imported copy -/
def f15 (cfg : Cfg) : Except Err World :=
  run cfg (initWorld 2) [.addTrigger 1 1, .addTrigger 1 2, .addComp 1 1 .eff (-1) 7, .save 1, .addTrigger 2 3,
    .importT 2 [0], .addComp 2 1 .eff (-1) 99]

/-- **F17**: the new effect of scenario 2 (component cell 1 of trigger cell 3) carries the stamp of scenario 1;
with the repair it carries 2 -/
theorem nested_owner_counter :
    onOk (f15 pinned) (fun w => decide (w.trigsOf 2 = [2, 3] ∧ (w.heap.trigs[3]?).map (·.comps) = some [1] ∧
                                        (w.heap.comps[1]?).map (·.uuid) = some 1)) = true ∧
    onOk (f15 repaired) (fun w => decide (w.trigsOf 2 = [2, 3] ∧ (w.heap.trigs[3]?).map (·.comps) = some [1] ∧
                                          (w.heap.comps[1]?).map (·.uuid) = some 2)) = true := by decide

/-- … so that **saving scenario 2 rewrites the section of scenario 1** (its record 1, effect 0, becomes the new effect)
and scenario 2's own file gets a blank default effect instead; with the repair neither happens -/
theorem nested_owner_leak_counter :
    onOk (f15 pinned) (fun w => onOk (save w 2) (fun p =>
        decide (w.sectOf 1 = [⟨1, [], []⟩, ⟨2, [⟨.eff, -1, 7⟩], []⟩] ∧
                p.1.sectOf 1 = [⟨1, [], []⟩, ⟨2, [⟨.eff, -1, 99⟩], []⟩] ∧
                p.2 = [⟨3, [], []⟩, ⟨1, [dfltComp], []⟩]))) = true ∧
    onOk (f15 repaired) (fun w => onOk (save w 2) (fun p =>
        decide (p.1.sectOf 1 = w.sectOf 1 ∧ p.2 = [⟨3, [], []⟩, ⟨1, [⟨.eff, -1, 99⟩], []⟩]))) = true := by decide

/-! ## non-vacuity: the hypotheses are met by ordinary histories -/

/-- a history on two scenarios with an import, a copy-first adoption, new components, edits, a removal and saves -/
def demoOps : List Op :=
  [.addTrigger 1 10, .addTrigger 1 11, .addComp 1 0 .act 1 5, .addComp 1 1 .deact 7 6, .addComp 1 1 .cond (-1) 8,
   .importT 2 [0, 1], .addComp 2 0 .eff (-1) 9, .adopt 2 .append [1] true, .save 2, .editTrig 0 77, .editComp 0 .val 78,
   .remove 1 0, .save 1, .save 2]

/-- it runs in the repaired model; the imported links are remapped / cleared as `import_link_*` say -/
example : onOk (run repaired (initWorld 2) demoOps) (fun w =>
    decide (w.trigsOf 1 = [1] ∧ w.trigsOf 2 = [2, 3, 4] ∧
      (w.heap.comps[3]?).map (·.target) = some 1 ∧      -- act 1  -> copy of trigger 1 (new id 1)
      (w.heap.comps[4]?).map (·.target) = some (-1) ∧   -- deact 7 -> not imported -> cleared
      (w.heap.comps[3]?).map (·.uuid) = some 2)) = true := by decide

example : ∀ op ∈ demoOps, CopyFirst op := by decide

/-- `Safe` on the pinned model is satisfiable for a foreign object through the constructor's first-entry rule
(`manager.triggers = [foreign, …]` copies everything) -/
example : Safe pinned (addTrigger (initWorld 2) 1 5).1 (.adopt 2 .assign [0] false) :=
  Or.inr (Or.inr ⟨[0], rfl, ⟨0, [], _, rfl, rfl, by decide⟩⟩)

/-- evaluate a history, checking `Safe` before every step -/
def checkSafeRun (cfg : Cfg) : World → List Op → Bool
  | _, [] => true
  | w, op :: ops =>
    decide (Safe cfg w op) &&
      (match step cfg w op with
       | .ok (w1, _) => checkSafeRun cfg w1 ops
       | .error _ => false)

theorem safeRun_of_check (cfg : Cfg) : ∀ (ops : List Op) (w : World), checkSafeRun cfg w ops = true → ∃ w', SafeRun cfg w ops w'
  | [], w, _ => ⟨w, SafeRun.nil w⟩
  | op :: ops, w, h => by
    simp only [checkSafeRun, Bool.and_eq_true, decide_eq_true_eq] at h
    obtain ⟨hs, hr⟩ := h
    split at hr
    · rename_i w1 r he
      obtain ⟨w', hw'⟩ := safeRun_of_check cfg ops w1 hr
      exact ⟨w', SafeRun.cons hs he hw'⟩
    · exact absurd hr (by simp)

/-- a **safe history of the pinned code** (so `inv_run pinned` is not vacuous): links, an import into a non-empty
manager, a component on a native trigger, the setter with a foreign first entry (copies), an own trigger appended
again, a removal and saves of both scenarios -/
example : ∃ w', SafeRun pinned (initWorld 2)
    [.addTrigger 1 1, .addComp 1 0 .act 0 5, .addTrigger 2 2, .importT 2 [0], .addComp 2 0 .eff (-1) 3,
     .adopt 1 .assign [1, 2] false, .adopt 2 .append [1] false, .remove 2 0, .save 2, .save 1] w' :=
  safeRun_of_check pinned _ _ (by decide)

/-- … and the unsafe inputs are exactly what `Safe` rejects there -/
example : checkSafeRun pinned (initWorld 2) [.addTrigger 1 1, .addTrigger 2 2, .adopt 2 .append [0] false] = false ∧
    checkSafeRun pinned (initWorld 2) [.addTrigger 1 1, .addTrigger 2 2, .importT 2 [0], .addComp 2 1 .eff (-1) 3] = false ∧
    checkSafeRun repaired (initWorld 2) [.addTrigger 1 1, .addTrigger 2 2, .importT 2 [0], .addComp 2 1 .eff (-1) 3] = true := by
  decide

/-- a quiet history for scenario 2 (activity on scenario 1 only, including an import *from* 2 and a save of 1):
scenario 2 saves the same before and after, as `save_frame_run` says -/
example : onOk (run repaired (initWorld 2) [.addTrigger 2 4, .addComp 2 0 .eff (-1) 1]) (fun w =>
    onOk (run repaired w [.importT 1 [0], .addComp 1 0 .eff 0 2, .editTrig 1 9, .save 1]) (fun w' =>
      onOk (savedBy w' 2) (fun o' => onOk (savedBy w 2) (fun o =>
        decide (o' = o ∧ o = [⟨4, [⟨.eff, -1, 1⟩], []⟩]))))) = true := by decide

end Aoe.Props.C09
