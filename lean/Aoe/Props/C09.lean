import Aoe.Model.Heap
namespace Aoe.Props.C09
open Aoe.Heap
theorem placeholder : (1 : Nat) = 1 := rfl
end Aoe.Props.C09
