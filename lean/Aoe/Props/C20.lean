import Aoe.Lemmas.MapElev
import Aoe.Lemmas.MapElevRange
import Aoe.Lemmas.MapElevHist
import Aoe.Lemmas.MapElevLower
import Aoe.Lemmas.MapElevRaise
import Aoe.Lemmas.MapElevSingle
/-!
# C20 – elevation editing raises exactly the requested area and keeps the terrain smooth

Property theorems about `setElevation` / `elevRec` (operational model of `MapManager.set_elevation` and
`_elevation_tile_recursion`, with fuel) and about the closed form `pyramid` of `Aoe.Model.Map` (M8).

`setElevation fixSingle`: `false` is the pinned code, which never assigns the elevation when the selection is a
single tile (defect F12); `true` is the proposed one-line repair.  `rect_set` holds for both on selections of more
than one tile; `rect_set_single` needs the repair; for the pinned code `single_asis_keeps` (the tile keeps whatever
elevation it had, on every map) and the concrete `rect_set_single_counter` are proved.

**Not proved** (validated exhaustively by `harness/h_c20.py`: maps up to 9×9, all rectangles, base/target 0..4, and
randomly up to 40×40): on a flat map the operational procedure computes the closed form,

    theorem setElevation_eq_pyramid (hwf : WF (flat s b)) (valid rectangle) :
      setElevation true (elevFuel (flat s b)) (flat s b) e x1 y1 (some x2) (some y2) = .ok m' →
      m'.tiles.map (·.elevation) = pyramid s b e x1 y1 x2 y2

so smoothness (`pyramid_smooth`) is a theorem about the closed form only.  Proved parts of the equation:
`setElevation_eq_pyramid_partial` (on the rectangle itself), `setElevation_eq_pyramid_level` (request = base),
`setElevation_eq_pyramid_whole` (whole map selected), `setElevation_eq_pyramid_lower_one` / `_raise_one`
(|request - base| = 1, rectangles of more than one tile); open: steps of two levels or more outside the rectangle.
For every map and request the result stays in the interval spanned by the start elevations and the request
(`elevations_stay_in_range`, over histories `elevations_in_range_over_histories`).
-/
namespace Aoe.Props.C20
open Aoe.Map

/-- the elevation of the tile at `(x, y)` -/
def elevAt (m : Map) (x y : Nat) : Option Int := (m.tiles[x + y * m.size]?).map Tile.elevation

/-- a `set_elevation` that returns changed nothing but elevations: size, tile count, terrain ids, layers and
indices are what they were (for every argument, valid or not) -/
theorem only_elevations_change (fs : Bool) (fuel : Nat) (m m' : Map) (e x1 y1 : Int) (x2 y2 : Option Int) (hwf : WF m)
    (h : setElevation fs fuel m e x1 y1 x2 y2 = .ok m') :
    WF m' ∧ m'.size = m.size ∧ m'.tiles.length = m.tiles.length ∧
      ∀ k : Nat, (m'.tiles[k]?).map (fun t => (t.terrainId, t.layer, t.index)) =
                 (m.tiles[k]?).map (fun t => (t.terrainId, t.layer, t.index)) :=
  let f := setElevation_frame_any fs fuel m m' e x1 y1 x2 y2 hwf h
  ⟨f.wf hwf, f.size, f.len, f.other⟩

/-- **rect_set**: every tile of a selected rectangle of more than one tile ends at the requested elevation –
for every start map (flat or not), every rectangle on the map (touching the border or not), every elevation, and
every fuel with which the operational model terminates normally (`fuel_suffices`: `size² + 1` always does).
Holds for the pinned code and for the repaired one. -/
theorem rect_set (fs : Bool) (fuel : Nat) (m m' : Map) (e : Int) (x1 y1 x2 y2 : Nat) (hwf : WF m)
    (hx : x1 ≤ x2) (hx2 : x2 < m.size) (hy : y1 ≤ y2) (hy2 : y2 < m.size) (hns : ¬ (x1 = x2 ∧ y1 = y2))
    (h : setElevation fs fuel m e x1 y1 (some (x2 : Int)) (some (y2 : Int)) = .ok m') :
    ∀ x y, x1 ≤ x → x ≤ x2 → y1 ≤ y → y ≤ y2 → elevAt m' x y = some e := by
  intro x y h1 h2 h3 h4
  obtain ⟨fr, hel⟩ := setElevation_rect fs fuel m m' e x1 y1 x2 y2 hwf hx hx2 hy hy2 hns h
  unfold elevAt
  rw [fr.size]
  exact hel _ ((mem_rectRows _ _ _ _ _ _).mpr ⟨x, y, h1, h2, h3, h4, rfl⟩)

/-- **rect_set_single** (repaired code): a single selected tile – given as `(x, y)` alone or as the 1×1 rectangle
`(x, y, x, y)` – ends at the requested elevation -/
theorem rect_set_single (fuel : Nat) (m m' : Map) (e : Int) (x y : Nat) (x2? y2? : Option Int) (hwf : WF m)
    (hx : x < m.size) (hy : y < m.size)
    (hx2 : x2? = none ∨ x2? = some (x : Int)) (hy2 : y2? = none ∨ y2? = some (y : Int))
    (h : setElevation true fuel m e x y x2? y2? = .ok m') : elevAt m' x y = some e := by
  have h1 : x2?.getD (x : Int) = (x : Int) := by rcases hx2 with rfl | rfl <;> rfl
  have h2 : y2?.getD (y : Int) = (y : Int) := by rcases hy2 with rfl | rfl <;> rfl
  obtain ⟨fr, hel⟩ := setElevation_single true fuel m m' e x y x2? y2? hwf hx hy h1 h2 h
  unfold elevAt
  rw [fr.size]
  simpa using hel

/-- the pinned code (F12): a single selected tile keeps whatever elevation it had – on every map, for every
requested elevation -/
theorem single_asis_keeps (fuel : Nat) (m m' : Map) (e : Int) (x y : Nat) (x2? y2? : Option Int) (hwf : WF m)
    (hx : x < m.size) (hy : y < m.size)
    (hx2 : x2? = none ∨ x2? = some (x : Int)) (hy2 : y2? = none ∨ y2? = some (y : Int))
    (h : setElevation false fuel m e x y x2? y2? = .ok m') : elevAt m' x y = elevAt m x y := by
  have h1 : x2?.getD (x : Int) = (x : Int) := by rcases hx2 with rfl | rfl <;> rfl
  have h2 : y2?.getD (y : Int) = (y : Int) := by rcases hy2 with rfl | rfl <;> rfl
  obtain ⟨fr, hel⟩ := setElevation_single false fuel m m' e x y x2? y2? hwf hx hy h1 h2 h
  unfold elevAt
  rw [fr.size]
  simpa using hel

/-- **rect_set_single_counter**: on a flat 3×3 map of elevation 0, `set_elevation(3, 1, 1)` of the pinned code
returns normally and leaves tile (1,1) at 0; the repaired code sets it to 3 (and its neighbours to 2) -/
theorem rect_set_single_counter :
    (setElevation false (elevFuel (flat 3 0)) (flat 3 0) 3 1 1 none none).map (fun m => m.tiles.map (·.elevation)) =
      .ok [0, 0, 0, 0, 0, 0, 0, 0, 0] ∧
    (setElevation true (elevFuel (flat 3 0)) (flat 3 0) 3 1 1 none none).map (fun m => m.tiles.map (·.elevation)) =
      .ok [2, 2, 2, 2, 3, 2, 2, 2, 2] := by decide +kernel

/-- **fuel_suffices**: with `size² + 1` units of fuel (what the driver uses; `size²` is enough) the operational model
never runs out of fuel and never raises on a rectangle that lies on the map -/
theorem fuel_suffices (fs : Bool) (m : Map) (e : Int) (x1 y1 x2 y2 : Nat) (hwf : WF m)
    (hx : x1 ≤ x2) (hx2 : x2 < m.size) (hy : y1 ≤ y2) (hy2 : y2 < m.size) :
    ∃ m', setElevation fs (elevFuel m) m e x1 y1 (some (x2 : Int)) (some (y2 : Int)) = .ok m' := by
  by_cases hs : x1 = x2 ∧ y1 = y2
  · obtain ⟨rfl, rfl⟩ := hs
    exact setElevation_single_ok fs _ m e x1 y1 _ _ hwf hx2 hy2 rfl rfl (by unfold elevFuel; omega)
  · exact setElevation_rect_ok fs _ m e x1 y1 x2 y2 hwf hx hx2 hy hy2 hs (by unfold elevFuel; omega)

theorem fuel_suffices_point (fs : Bool) (m : Map) (e : Int) (x y : Nat) (hwf : WF m) (hx : x < m.size) (hy : y < m.size) :
    ∃ m', setElevation fs (elevFuel m) m e x y none none = .ok m' :=
  setElevation_single_ok fs _ m e x y _ _ hwf hx hy rfl rfl (by unfold elevFuel; omega)

/-- **rect_set_total** (repaired code): for every consistent map, every rectangle on it (1×1 included) and every
elevation, `set_elevation` returns normally and every tile of the rectangle is at the requested elevation -/
theorem rect_set_total (m : Map) (e : Int) (x1 y1 x2 y2 : Nat) (hwf : WF m)
    (hx : x1 ≤ x2) (hx2 : x2 < m.size) (hy : y1 ≤ y2) (hy2 : y2 < m.size) :
    ∃ m', setElevation true (elevFuel m) m e x1 y1 (some (x2 : Int)) (some (y2 : Int)) = .ok m' ∧
      ∀ x y, x1 ≤ x → x ≤ x2 → y1 ≤ y → y ≤ y2 → elevAt m' x y = some e := by
  obtain ⟨m', h⟩ := fuel_suffices true m e x1 y1 x2 y2 hwf hx hx2 hy hy2
  refine ⟨m', h, ?_⟩
  by_cases hs : x1 = x2 ∧ y1 = y2
  · obtain ⟨rfl, rfl⟩ := hs
    intro x y h1 h2 h3 h4
    have hx' : x = x1 := by omega
    have hy' : y = y1 := by omega
    subst hx' hy'
    exact rect_set_single _ m m' e x y _ _ hwf hx2 hy2 (Or.inr rfl) (Or.inr rfl) h
  · exact rect_set true _ m m' e x1 y1 x2 y2 hwf hx hx2 hy hy2 hs h

/-- the model lets `set_elevation` work on *positions*; they are the positions of exactly the tile objects
`get_square_2d` returns (row by row, left to right) -/
theorem selection_positions (m : Map) (hwf : WF m) (x1 y1 x2 y2 : Nat)
    (hx : x1 ≤ x2) (hx2 : x2 < m.size) (hy : y1 ≤ y2) (hy2 : y2 < m.size) :
    ∃ rows prows, square2d m x1 y1 x2 y2 = .ok rows ∧ squareRowsPos m x1 y1 x2 y2 = .ok prows ∧
      rows.length = prows.length ∧
      ∀ dx dy, dx ≤ x2 - x1 → dy ≤ y2 - y1 → ∃ r pr k, rows[dy]? = some r ∧ prows[dy]? = some pr ∧
        pr[dx]? = some k ∧ r[dx]? = m.tiles[k]? ∧ k = (x1 + dx) + (y1 + dy) * m.size :=
  squareRows_pos_agree m hwf x1 y1 x2 y2 hx hx2 hy hy2

/-! ### the closed form -/

/-- **pyramid_rect**: inside the rectangle the closed form is the requested elevation -/
theorem pyramid_rect (b e x1 y1 x2 y2 x y : Int) (h1 : x1 ≤ x) (h2 : x ≤ x2) (h3 : y1 ≤ y) (h4 : y ≤ y2) :
    pyramidAt b e x1 y1 x2 y2 x y = e := by
  unfold pyramidAt cheb
  split <;> omega

/-- **pyramid_smooth**: two neighbouring tiles (diagonals included) never differ by more than one level -/
theorem pyramid_smooth (b e x1 y1 x2 y2 x y x' y' : Int)
    (hx : x - x' ≤ 1 ∧ x' - x ≤ 1) (hy : y - y' ≤ 1 ∧ y' - y ≤ 1) :
    pyramidAt b e x1 y1 x2 y2 x y - pyramidAt b e x1 y1 x2 y2 x' y' ≤ 1 ∧
    pyramidAt b e x1 y1 x2 y2 x' y' - pyramidAt b e x1 y1 x2 y2 x y ≤ 1 := by
  unfold pyramidAt cheb
  split <;> omega

/-- the closed form stays between base and target, and is the base far enough from the rectangle -/
theorem pyramid_between (b e x1 y1 x2 y2 x y : Int) :
    min b e ≤ pyramidAt b e x1 y1 x2 y2 x y ∧ pyramidAt b e x1 y1 x2 y2 x y ≤ max b e := by
  unfold pyramidAt cheb
  split <;> omega

theorem pyramid_far (b e x1 y1 x2 y2 x y : Int) (h : cheb x1 y1 x2 y2 x y ≥ (e - b).natAbs) :
    pyramidAt b e x1 y1 x2 y2 x y = b := by
  unfold pyramidAt
  split <;> omega

/-- the row-major list the driver prints holds `pyramidAt` of each tile's coordinates -/
theorem pyramid_get (s : Nat) (b e x1 y1 x2 y2 : Int) (x y : Nat) (hx : x < s) (hy : y < s) :
    (pyramid s b e x1 y1 x2 y2)[x + y * s]? = some (pyramidAt b e x1 y1 x2 y2 x y) := by
  have hlt := pos_lt_sq x y s hx hy
  have hs : 0 < s := by omega
  simp only [pyramid, List.getElem?_map, List.getElem?_range hlt, Option.map_some]
  rw [Nat.add_mul_mod_self_right, Nat.mod_eq_of_lt hx, Nat.add_mul_div_right _ _ hs, Nat.div_eq_of_lt hx,
    Nat.zero_add]

/-- smoothness of the whole closed-form map: any two tiles of the map that touch (diagonals included) differ by at
most one level -/
theorem pyramid_map_smooth (s : Nat) (b e x1 y1 x2 y2 : Int) (x y x' y' : Nat)
    (hx : x < s) (hy : y < s) (hx' : x' < s) (hy' : y' < s) (nx : x ≤ x' + 1 ∧ x' ≤ x + 1) (ny : y ≤ y' + 1 ∧ y' ≤ y + 1) :
    ∃ u v, (pyramid s b e x1 y1 x2 y2)[x + y * s]? = some u ∧ (pyramid s b e x1 y1 x2 y2)[x' + y' * s]? = some v ∧
      u - v ≤ 1 ∧ v - u ≤ 1 :=
  ⟨_, _, pyramid_get s b e x1 y1 x2 y2 x y hx hy, pyramid_get s b e x1 y1 x2 y2 x' y' hx' hy',
    pyramid_smooth b e x1 y1 x2 y2 x y x' y' (by omega) (by omega)⟩

/-- **setElevation_eq_pyramid_partial**: the operational model and the closed form agree on the rectangle -/
theorem setElevation_eq_pyramid_partial (s : Nat) (b e : Int) (x1 y1 x2 y2 : Nat) (m' : Map)
    (hx : x1 ≤ x2) (hx2 : x2 < s) (hy : y1 ≤ y2) (hy2 : y2 < s)
    (h : setElevation true (elevFuel (flat s b)) (flat s b) e x1 y1 (some (x2 : Int)) (some (y2 : Int)) = .ok m') :
    ∀ x y, x1 ≤ x → x ≤ x2 → y1 ≤ y → y ≤ y2 →
      (m'.tiles[x + y * s]?).map Tile.elevation = (pyramid s b e x1 y1 x2 y2)[x + y * s]? := by
  intro x y h1 h2 h3 h4
  have hwf : WF (flat s b) := wf_resetIndices s _ (by simp)
  obtain ⟨m'', h', hall⟩ := rect_set_total (flat s b) e x1 y1 x2 y2 hwf hx hx2 hy hy2
  rw [h] at h'; injection h' with h'; subst h'
  have := hall x y h1 h2 h3 h4
  have hsz : m'.size = s := (only_elevations_change _ _ _ _ _ _ _ _ _ hwf h).2.1
  rw [pyramid_get s b e x1 y1 x2 y2 x y (by omega) (by omega),
    pyramid_rect b e x1 y1 x2 y2 x y (by omega) (by omega) (by omega) (by omega)]
  simpa [elevAt, hsz] using this

/-! ### range of the operational result (narrows the unproved `setElevation_eq_pyramid`) -/

/-- **elevations_stay_in_range**: an interval that contains every elevation of the map and the requested elevation
contains every elevation after `set_elevation` - for every start map (flat or not), every argument list (valid or
not), every fuel, the pinned and the repaired code.  The recursion only ever writes the source tile's elevation or
one step from it towards the neighbour's, so it can neither overshoot the request nor dig below / pile above what
was there. -/
theorem elevations_stay_in_range (fs : Bool) (fuel : Nat) (m m' : Map) (e x1 y1 : Int) (x2 y2 : Option Int)
    (lo hi : Int) (hm : ∀ (k : Nat) (t : Tile), m.tiles[k]? = some t → lo ≤ t.elevation ∧ t.elevation ≤ hi) (h1 : lo ≤ e) (h2 : e ≤ hi)
    (h : setElevation fs fuel m e x1 y1 x2 y2 = .ok m') :
    ∀ (k : Nat) (t : Tile), m'.tiles[k]? = some t → lo ≤ t.elevation ∧ t.elevation ≤ hi :=
  setElevation_bnd fs fuel m m' e x1 y1 x2 y2 lo hi hm h1 h2 h

theorem flat_elev (s : Nat) (b : Int) (k : Nat) (t : Tile) (h : (flat s b).tiles[k]? = some t) : t.elevation = b := by
  simp only [flat, resetIndices, List.getElem?_mapIdx, List.getElem?_replicate] at h
  split at h
  · simp at h; subst h; rfl
  · simp at h

/-- on a flat map of elevation `b` the operational result lies between `b` and the requested `e` everywhere - the
same bounds the closed form has (`pyramid_between`) -/
theorem flat_result_between (fs : Bool) (fuel : Nat) (s : Nat) (b e x1 y1 : Int) (x2 y2 : Option Int) (m' : Map)
    (h : setElevation fs fuel (flat s b) e x1 y1 x2 y2 = .ok m') :
    ∀ (k : Nat) (t : Tile), m'.tiles[k]? = some t → min b e ≤ t.elevation ∧ t.elevation ≤ max b e :=
  elevations_stay_in_range fs fuel (flat s b) m' e x1 y1 x2 y2 (min b e) (max b e)
    (fun k t ht => by rw [flat_elev s b k t ht]; omega) (by omega) (by omega) h

/-- **setElevation_eq_pyramid_level**: the unproved equation `operational = closed form` holds in full when the
requested elevation is the base elevation - for every argument list with which the call returns, pinned and repaired
code: nothing moves, and the closed form is flat as well -/
theorem setElevation_eq_pyramid_level (fs : Bool) (fuel : Nat) (s : Nat) (b x1 y1 : Int) (x2 y2 : Option Int)
    (rx1 ry1 rx2 ry2 : Int) (m' : Map)
    (h : setElevation fs fuel (flat s b) b x1 y1 x2 y2 = .ok m') :
    m'.tiles.map (·.elevation) = pyramid s b b rx1 ry1 rx2 ry2 := by
  have hwf : WF (flat s b) := wf_resetIndices s _ (by simp)
  have hlen : m'.tiles.length = s * s := by
    rw [(only_elevations_change _ _ _ _ _ _ _ _ _ hwf h).2.2.1]; simp [flat, resetIndices]
  have hb := flat_result_between fs fuel s b b x1 y1 x2 y2 m' h
  apply List.ext_getElem?
  intro k
  by_cases hk : k < s * s
  · have hk' : k < m'.tiles.length := by omega
    have hp := pyramid_between b b rx1 ry1 rx2 ry2 ((k % s : Nat) : Int) ((k / s : Nat) : Int)
    have ht := hb k m'.tiles[k] (List.getElem?_eq_getElem hk')
    simp only [pyramid, List.getElem?_map, List.getElem?_range hk, List.getElem?_eq_getElem hk', Option.map_some]
    congr 1
    omega
  · simp only [pyramid, List.getElem?_map]
    rw [List.getElem?_eq_none (by omega), List.getElem?_eq_none (by simp; omega)]
    rfl

/-- **setElevation_eq_pyramid_whole**: the unproved equation holds in full when the whole map is selected (repaired
code; any size, base and request) -/
theorem setElevation_eq_pyramid_whole (s : Nat) (b e : Int) (m' : Map) (hs : 0 < s)
    (h : setElevation true (elevFuel (flat s b)) (flat s b) e (0 : Nat) (0 : Nat) (some ((s - 1 : Nat) : Int))
      (some ((s - 1 : Nat) : Int)) = .ok m') :
    m'.tiles.map (·.elevation) = pyramid s b e (0 : Nat) (0 : Nat) ((s - 1 : Nat) : Int) ((s - 1 : Nat) : Int) := by
  have hwf : WF (flat s b) := wf_resetIndices s _ (by simp)
  have hlen : m'.tiles.length = s * s := by
    rw [(only_elevations_change _ _ _ _ _ _ _ _ _ hwf h).2.2.1]; simp [flat, resetIndices]
  have hp := setElevation_eq_pyramid_partial s b e 0 0 (s - 1) (s - 1) m' (by omega) (by omega) (by omega) (by omega) h
  apply List.ext_getElem?
  intro k
  by_cases hk : k < s * s
  · have hx : k % s < s := Nat.mod_lt _ hs
    have hy : k / s < s := Nat.div_lt_of_lt_mul hk
    have hkk : k % s + k / s * s = k := by rw [Nat.mul_comm]; exact Nat.mod_add_div k s
    have := hp (k % s) (k / s) (Nat.zero_le _) (Nat.le_sub_one_of_lt hx) (Nat.zero_le _) (Nat.le_sub_one_of_lt hy)
    rw [hkk] at this
    rw [List.getElem?_map]
    exact this
  · rw [List.getElem?_eq_none (by simp; omega), List.getElem?_eq_none (by simp [pyramid]; omega)]

/-- **lower_one_exact**: lowering a rectangle (more than one tile) to `e` on a map whose elevations all lie in
`[e, e + 1]` - e.g. a flat map one level higher - changes *exactly* the requested area: every tile of the rectangle
(`mem_rectRows`: the positions `x + y * size`, `x1 ≤ x ≤ x2`, `y1 ≤ y ≤ y2`) gets elevation `e`, every other tile is
what it was.  Pinned and repaired code, every fuel with which the model returns. -/
theorem lower_one_exact (fs : Bool) (fuel : Nat) (m m' : Map) (e : Int) (x1 y1 x2 y2 : Nat) (hwf : WF m)
    (hx : x1 ≤ x2) (hx2 : x2 < m.size) (hy : y1 ≤ y2) (hy2 : y2 < m.size) (hns : ¬ (x1 = x2 ∧ y1 = y2))
    (hm : ∀ (k : Nat) (t : Tile), m.tiles[k]? = some t → e ≤ t.elevation ∧ t.elevation ≤ e + 1)
    (h : setElevation fs fuel m e x1 y1 (some (x2 : Int)) (some (y2 : Int)) = .ok m') :
    ∀ k : Nat, m'.tiles[k]? = if k ∈ (rectRows m.size x1 y1 x2 y2).flatten
      then (m.tiles[k]?).map (fun t => t.withElev e) else m.tiles[k]? := by
  intro k
  rw [setElevation_lower_one fs fuel m m' e x1 y1 x2 y2 hwf hx hx2 hy hy2 hns hm h, fill_spec]

/-- **setElevation_eq_pyramid_lower_one**: the unproved equation `operational = closed form` holds in full when a
rectangle of more than one tile is lowered by one level on a flat map - any size, base, rectangle on the map, any
fuel with which the model returns, pinned and repaired code -/
theorem setElevation_eq_pyramid_lower_one (fs : Bool) (fuel : Nat) (s : Nat) (b : Int) (x1 y1 x2 y2 : Nat) (m' : Map)
    (hx : x1 ≤ x2) (hx2 : x2 < s) (hy : y1 ≤ y2) (hy2 : y2 < s) (hns : ¬ (x1 = x2 ∧ y1 = y2))
    (h : setElevation fs fuel (flat s b) (b - 1) x1 y1 (some (x2 : Int)) (some (y2 : Int)) = .ok m') :
    m'.tiles.map (·.elevation) = pyramid s b (b - 1) x1 y1 x2 y2 := by
  have hwf : WF (flat s b) := wf_resetIndices s _ (by simp)
  have hlen : (flat s b).tiles.length = s * s := by simp [flat, resetIndices]
  have hex := lower_one_exact fs fuel (flat s b) m' (b - 1) x1 y1 x2 y2 hwf hx hx2 hy hy2 hns
    (fun k t ht => by rw [flat_elev s b k t ht]; omega) h
  have hsz : (flat s b).size = s := rfl
  rw [hsz] at hex
  apply List.ext_getElem?
  intro k
  rw [List.getElem?_map, hex k]
  by_cases hk : k < s * s
  · have hk' : k < (flat s b).tiles.length := by omega
    have hel := flat_elev s b k _ (List.getElem?_eq_getElem hk')
    have hs : 0 < s := by omega
    simp only [pyramid, List.getElem?_map, List.getElem?_range hk, Option.map_some, List.getElem?_eq_getElem hk']
    split
    · next hmem =>
      obtain ⟨x, y, h1, h2, h3, h4, rfl⟩ := (mem_rectRows _ _ _ _ _ _).mp hmem
      have hxs : x < s := by omega
      simp only [Option.map_some, Tile.withElev]
      rw [Nat.add_mul_mod_self_right, Nat.mod_eq_of_lt hxs, Nat.add_mul_div_right _ _ hs, Nat.div_eq_of_lt hxs,
        Nat.zero_add, pyramid_rect (b) (b - 1) x1 y1 x2 y2 x y (by omega) (by omega) (by omega) (by omega)]
    · next hmem =>
      have hnot : ¬ (x1 ≤ k % s ∧ k % s ≤ x2 ∧ y1 ≤ k / s ∧ k / s ≤ y2) := fun hh =>
        hmem ((mem_rectRows _ _ _ _ _ _).mpr ⟨k % s, k / s, hh.1, hh.2.1, hh.2.2.1, hh.2.2.2,
          by rw [Nat.mul_comm]; exact (Nat.mod_add_div k s).symm⟩)
      simp only [Option.map_some, hel]
      congr 1
      unfold pyramidAt cheb
      split <;> omega
  · have hn : (flat s b).tiles[k]? = none := List.getElem?_eq_none (by omega)
    rw [hn, List.getElem?_eq_none (by simp [pyramid]; omega)]
    split <;> rfl

/-- **raise_one_exact**: raising a rectangle (more than one tile) to `e` on a map that is everywhere one level lower
changes *exactly* the requested area.  The source tiles are at the highest level; a lower neighbour would be filled
only if the tile behind it were at the source's level, i.e. inside the rectangle - impossible, the rectangle is convex.
Pinned and repaired code, every fuel with which the model returns. -/
theorem raise_one_exact (fs : Bool) (fuel : Nat) (m m' : Map) (e : Int) (x1 y1 x2 y2 : Nat) (hwf : WF m)
    (hx : x1 ≤ x2) (hx2 : x2 < m.size) (hy : y1 ≤ y2) (hy2 : y2 < m.size) (hns : ¬ (x1 = x2 ∧ y1 = y2))
    (hm : ∀ (k : Nat) (t : Tile), m.tiles[k]? = some t → t.elevation = e - 1)
    (h : setElevation fs fuel m e x1 y1 (some (x2 : Int)) (some (y2 : Int)) = .ok m') :
    ∀ k : Nat, m'.tiles[k]? = if k ∈ (rectRows m.size x1 y1 x2 y2).flatten
      then (m.tiles[k]?).map (fun t => t.withElev e) else m.tiles[k]? := by
  intro k
  rw [setElevation_raise_one fs fuel m m' e x1 y1 x2 y2 hwf hx hx2 hy hy2 hns hm h, fill_spec]

/-- **lower_one_exact_gen**: `lower_one_exact` for every start map whose elevations *outside* the rectangle lie in
`[e, e + 1]` - whatever elevations the rectangle's own tiles had -/
theorem lower_one_exact_gen (fs : Bool) (fuel : Nat) (m m' : Map) (e : Int) (x1 y1 x2 y2 : Nat) (hwf : WF m)
    (hx : x1 ≤ x2) (hx2 : x2 < m.size) (hy : y1 ≤ y2) (hy2 : y2 < m.size) (hns : ¬ (x1 = x2 ∧ y1 = y2))
    (hm : ∀ (k : Nat) (t : Tile), m.tiles[k]? = some t → k ∉ (rectRows m.size x1 y1 x2 y2).flatten →
      e ≤ t.elevation ∧ t.elevation ≤ e + 1)
    (h : setElevation fs fuel m e x1 y1 (some (x2 : Int)) (some (y2 : Int)) = .ok m') :
    ∀ k : Nat, m'.tiles[k]? = if k ∈ (rectRows m.size x1 y1 x2 y2).flatten
      then (m.tiles[k]?).map (fun t => t.withElev e) else m.tiles[k]? := by
  intro k
  rw [setElevation_lower_one_gen fs fuel m m' e x1 y1 x2 y2 hwf hx hx2 hy hy2 hns hm h, fill_spec]

/-- **raise_one_exact_gen**: `raise_one_exact` for every start map that is at `e - 1` everywhere *outside* the
rectangle - whatever elevations the rectangle's own tiles had (a hill or a pit being levelled) -/
theorem raise_one_exact_gen (fs : Bool) (fuel : Nat) (m m' : Map) (e : Int) (x1 y1 x2 y2 : Nat) (hwf : WF m)
    (hx : x1 ≤ x2) (hx2 : x2 < m.size) (hy : y1 ≤ y2) (hy2 : y2 < m.size) (hns : ¬ (x1 = x2 ∧ y1 = y2))
    (hm : ∀ (k : Nat) (t : Tile), m.tiles[k]? = some t → k ∉ (rectRows m.size x1 y1 x2 y2).flatten → t.elevation = e - 1)
    (h : setElevation fs fuel m e x1 y1 (some (x2 : Int)) (some (y2 : Int)) = .ok m') :
    ∀ k : Nat, m'.tiles[k]? = if k ∈ (rectRows m.size x1 y1 x2 y2).flatten
      then (m.tiles[k]?).map (fun t => t.withElev e) else m.tiles[k]? := by
  intro k
  rw [setElevation_raise_one_gen fs fuel m m' e x1 y1 x2 y2 hwf hx hx2 hy hy2 hns hm h, fill_spec]

/-- **setElevation_eq_pyramid_raise_one**: the unproved equation `operational = closed form` holds in full when a
rectangle of more than one tile is raised by one level on a flat map - any size, base, rectangle on the map, any
fuel with which the model returns, pinned and repaired code -/
theorem setElevation_eq_pyramid_raise_one (fs : Bool) (fuel : Nat) (s : Nat) (b : Int) (x1 y1 x2 y2 : Nat) (m' : Map)
    (hx : x1 ≤ x2) (hx2 : x2 < s) (hy : y1 ≤ y2) (hy2 : y2 < s) (hns : ¬ (x1 = x2 ∧ y1 = y2))
    (h : setElevation fs fuel (flat s b) (b + 1) x1 y1 (some (x2 : Int)) (some (y2 : Int)) = .ok m') :
    m'.tiles.map (·.elevation) = pyramid s b (b + 1) x1 y1 x2 y2 := by
  have hwf : WF (flat s b) := wf_resetIndices s _ (by simp)
  have hlen : (flat s b).tiles.length = s * s := by simp [flat, resetIndices]
  have hex := raise_one_exact fs fuel (flat s b) m' (b + 1) x1 y1 x2 y2 hwf hx hx2 hy hy2 hns
    (fun k t ht => by rw [flat_elev s b k t ht]; omega) h
  have hsz : (flat s b).size = s := rfl
  rw [hsz] at hex
  apply List.ext_getElem?
  intro k
  rw [List.getElem?_map, hex k]
  by_cases hk : k < s * s
  · have hk' : k < (flat s b).tiles.length := by omega
    have hel := flat_elev s b k _ (List.getElem?_eq_getElem hk')
    have hs : 0 < s := by omega
    simp only [pyramid, List.getElem?_map, List.getElem?_range hk, Option.map_some, List.getElem?_eq_getElem hk']
    split
    · next hmem =>
      obtain ⟨x, y, h1, h2, h3, h4, rfl⟩ := (mem_rectRows _ _ _ _ _ _).mp hmem
      have hxs : x < s := by omega
      simp only [Option.map_some, Tile.withElev]
      rw [Nat.add_mul_mod_self_right, Nat.mod_eq_of_lt hxs, Nat.add_mul_div_right _ _ hs, Nat.div_eq_of_lt hxs,
        Nat.zero_add, pyramid_rect (b) (b + 1) x1 y1 x2 y2 x y (by omega) (by omega) (by omega) (by omega)]
    · next hmem =>
      have hnot : ¬ (x1 ≤ k % s ∧ k % s ≤ x2 ∧ y1 ≤ k / s ∧ k / s ≤ y2) := fun hh =>
        hmem ((mem_rectRows _ _ _ _ _ _).mpr ⟨k % s, k / s, hh.1, hh.2.1, hh.2.2.1, hh.2.2.2,
          by rw [Nat.mul_comm]; exact (Nat.mod_add_div k s).symm⟩)
      simp only [Option.map_some, hel]
      congr 1
      unfold pyramidAt cheb
      split <;> omega
  · have hn : (flat s b).tiles[k]? = none := List.getElem?_eq_none (by omega)
    rw [hn, List.getElem?_eq_none (by simp [pyramid]; omega)]
    split <;> rfl

/-- non-vacuity: a flat 4×4 map of elevation 2 raised to 3 on the rectangle (1,1)-(2,2) -/
example : (setElevation false (elevFuel (flat 4 2)) (flat 4 2) 3 1 1 (some 2) (some 2)).map
    (fun m => m.tiles.map (·.elevation)) = .ok (pyramid 4 2 3 1 1 2 2) := by decide +kernel

/-- non-vacuity: a flat 4×4 map of elevation 3 lowered to 2 on the rectangle (1,1)-(2,2); the call returns and the
result is the closed form -/
example : (setElevation false (elevFuel (flat 4 3)) (flat 4 3) 2 1 1 (some 2) (some 2)).map
    (fun m => m.tiles.map (·.elevation)) = .ok (pyramid 4 3 2 1 1 2 2) := by decide +kernel

/-- **single_one_level_exact** (repaired code): setting a single tile - given as `(x, y)` alone or as a 1×1
rectangle - one level below a map within `[e, e + 1]`, or one level above a map that is everywhere at `e - 1`,
changes exactly that tile -/
theorem single_one_level_exact (fuel : Nat) (m m' : Map) (e : Int) (x y : Nat) (x2? y2? : Option Int) (hwf : WF m)
    (hx : x < m.size) (hy : y < m.size)
    (hx2 : x2? = none ∨ x2? = some (x : Int)) (hy2 : y2? = none ∨ y2? = some (y : Int))
    (hm : (∀ (k : Nat) (t : Tile), m.tiles[k]? = some t → e ≤ t.elevation ∧ t.elevation ≤ e + 1) ∨
          (∀ (k : Nat) (t : Tile), m.tiles[k]? = some t → t.elevation = e - 1))
    (h : setElevation true fuel m e x y x2? y2? = .ok m') : m' = setElevAt m (x + y * m.size) e := by
  have h1 : x2?.getD (x : Int) = (x : Int) := by rcases hx2 with rfl | rfl <;> rfl
  have h2 : y2?.getD (y : Int) = (y : Int) := by rcases hy2 with rfl | rfl <;> rfl
  rcases hm with hm | hm
  · exact setElevation_single_lower_one fuel m m' e x y x2? y2? hwf hx hy h1 h2 hm h
  · exact setElevation_single_raise_one fuel m m' e x y x2? y2? hwf hx hy h1 h2 hm h

/-- **setElevation_eq_pyramid_single_one**: operational = closed form in full for a single tile moved one level up
or down on a flat map (repaired code) -/
theorem setElevation_eq_pyramid_single_one (fuel : Nat) (s : Nat) (b e : Int) (x y : Nat) (m' : Map)
    (hx : x < s) (hy : y < s) (he : e = b - 1 ∨ e = b + 1)
    (h : setElevation true fuel (flat s b) e x y none none = .ok m') :
    m'.tiles.map (·.elevation) = pyramid s b e x y x y := by
  have hwf : WF (flat s b) := wf_resetIndices s _ (by simp)
  have hlen : (flat s b).tiles.length = s * s := by simp [flat, resetIndices]
  have hsz : (flat s b).size = s := rfl
  have hex := single_one_level_exact fuel (flat s b) m' e x y none none hwf hx hy (Or.inl rfl) (Or.inl rfl)
    (by
      rcases he with rfl | rfl
      · exact Or.inl (fun k t ht => by rw [flat_elev s b k t ht]; omega)
      · exact Or.inr (fun k t ht => by rw [flat_elev s b k t ht]; omega)) h
  rw [hsz] at hex
  subst hex
  have hs : 0 < s := by omega
  apply List.ext_getElem?
  intro k
  rw [List.getElem?_map, getElem?_setElevAt]
  by_cases hk : k < s * s
  · have hk' : k < (flat s b).tiles.length := by omega
    have hel := flat_elev s b k _ (List.getElem?_eq_getElem hk')
    simp only [pyramid, List.getElem?_map, List.getElem?_range hk, Option.map_some, List.getElem?_eq_getElem hk']
    split
    · next hkk =>
      subst hkk
      simp only [Option.map_some]
      rw [Nat.add_mul_mod_self_right, Nat.mod_eq_of_lt hx, Nat.add_mul_div_right _ _ hs, Nat.div_eq_of_lt hx,
        Nat.zero_add, pyramid_rect b e x y x y x y (by omega) (by omega) (by omega) (by omega)]
    · next hkk =>
      have hnot : ¬ (k % s = x ∧ k / s = y) := fun hh => hkk (by
        rw [← hh.1, ← hh.2, Nat.mul_comm]; exact Nat.mod_add_div k s)
      simp only [Option.map_some, hel]
      congr 1
      unfold pyramidAt cheb
      rcases he with rfl | rfl <;> split <;> omega
  · have hn : (flat s b).tiles[k]? = none := List.getElem?_eq_none (by omega)
    rw [hn, List.getElem?_eq_none (by simp [pyramid]; omega)]
    split <;> rfl

/-- non-vacuity: the corner tile of a flat 3×3 map of elevation 1 raised to 2 (repaired code) -/
example : (setElevation true (elevFuel (flat 3 1)) (flat 3 1) 2 0 0 none none).map
    (fun m => m.tiles.map (·.elevation)) = .ok (pyramid 3 1 2 0 0 0 0) := by decide +kernel

/-- **operational_smooth_one_level**: the smoothness clause as a theorem about the *operational* model (not only the
closed form) for steps of one level: after raising or lowering a rectangle of more than one tile by one level on a
flat map, any two tiles that touch (diagonals included) differ by at most one level -/
theorem operational_smooth_one_level (fs : Bool) (fuel : Nat) (s : Nat) (b e : Int) (x1 y1 x2 y2 : Nat) (m' : Map)
    (hx : x1 ≤ x2) (hx2 : x2 < s) (hy : y1 ≤ y2) (hy2 : y2 < s) (hns : ¬ (x1 = x2 ∧ y1 = y2))
    (he : e = b - 1 ∨ e = b + 1)
    (h : setElevation fs fuel (flat s b) e x1 y1 (some (x2 : Int)) (some (y2 : Int)) = .ok m')
    (x y x' y' : Nat) (hxs : x < s) (hys : y < s) (hxs' : x' < s) (hys' : y' < s)
    (nx : x ≤ x' + 1 ∧ x' ≤ x + 1) (ny : y ≤ y' + 1 ∧ y' ≤ y + 1) :
    ∃ u v, (m'.tiles.map (·.elevation))[x + y * s]? = some u ∧ (m'.tiles.map (·.elevation))[x' + y' * s]? = some v ∧
      u - v ≤ 1 ∧ v - u ≤ 1 := by
  rcases he with rfl | rfl
  · rw [setElevation_eq_pyramid_lower_one fs fuel s b x1 y1 x2 y2 m' hx hx2 hy hy2 hns h]
    exact pyramid_map_smooth s b _ x1 y1 x2 y2 x y x' y' hxs hys hxs' hys' nx ny
  · rw [setElevation_eq_pyramid_raise_one fs fuel s b x1 y1 x2 y2 m' hx hx2 hy hy2 hns h]
    exact pyramid_map_smooth s b _ x1 y1 x2 y2 x y x' y' hxs hys hxs' hys' nx ny

/-- non-vacuity of `setElevation_eq_pyramid_level`: the call returns on a flat 3×3 map of elevation 2 -/
example : ((setElevation true (elevFuel (flat 3 2)) (flat 3 2) 2 0 0 (some 1) (some 1)).map
    (fun m => m.tiles.map (·.elevation))) = .ok (pyramid 3 2 2 0 0 1 1) := by decide +kernel

/-- **elevations_in_range_over_histories**: over any history of `map_size` assignments, `terrain` assignments and
`set_elevation` calls (raising ones included: they leave the manager as it was), every elevation on the map lies in
any interval that contains the start elevations, 0 (a fresh tile's elevation, used when the map grows), every
elevation handed to the `terrain` setter and every requested elevation -/
theorem elevations_in_range_over_histories (fs : Bool) (lo hi : Int) (h0 : lo ≤ 0 ∧ 0 ≤ hi) (m : Map) (ops : List Op)
    (hm : ∀ (k : Nat) (t : Tile), m.tiles[k]? = some t → lo ≤ t.elevation ∧ t.elevation ≤ hi)
    (ho : ∀ op ∈ ops, op.InRange lo hi) :
    ∀ (k : Nat) (t : Tile), (run fs m ops).tiles[k]? = some t → lo ≤ t.elevation ∧ t.elevation ≤ hi :=
  run_bnd h0 fs ops m hm ho

/-- non-vacuity: a history that grows, raises, shrinks and lowers, all inside `[-1, 3]` -/
example : ∀ op ∈ [Op.setSize 4, .setElevation 3 1 1 (some 2) (some 2), .setSize 3, .setElevation (-1) 0 0 none none],
    op.InRange (-1) 3 := by
  intro op h
  simp only [List.mem_cons, List.mem_nil_iff, or_false] at h
  rcases h with rfl | rfl | rfl | rfl <;> simp [Op.InRange]

/-- non-vacuity: a non-flat 3×3 map within `[0, 4]`, raised to 3 at its centre (repaired code), returns normally -/
example : ((setElevation true 10
    { size := 3, tiles := resetIndices ([0,4,0, 1,0,2, 4,0,0].map (fun e => { Tile.fresh with elevation := e })) }
    3 1 1 none none).map (fun m => m.tiles.map (·.elevation))).toOption.isSome = true := by decide +kernel

/-! ### non-vacuity and sanity: concrete maps, border-touching rectangles, lowering, operational = closed form -/

example : WF (flat 5 0) := wf_resetIndices 5 _ (by simp)
example : (setElevation false (elevFuel (flat 5 0)) (flat 5 0) 3 1 1 (some 2) (some 2)).map
    (fun m => m.tiles.map (·.elevation)) = .ok (pyramid 5 0 3 1 1 2 2) := by decide +kernel
example : pyramid 5 0 3 1 1 2 2 = [2,2,2,2,1, 2,3,3,2,1, 2,3,3,2,1, 2,2,2,2,1, 1,1,1,1,1] := by decide +kernel
example : (setElevation true (elevFuel (flat 4 5)) (flat 4 5) 2 3 3 none none).map
    (fun m => m.tiles.map (·.elevation)) = .ok (pyramid 4 5 2 3 3 3 3) := by decide +kernel
example : (setElevation false (elevFuel (flat 4 1)) (flat 4 1) 4 0 0 (some 0) (some 3)).map
    (fun m => m.tiles.map (·.elevation)) = .ok (pyramid 4 1 4 0 0 0 3) := by decide +kernel

end Aoe.Props.C20
