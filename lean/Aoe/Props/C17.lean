import Aoe.Model.AA
/-!
# C17 – armour/attack class and amount are packed losslessly

Property theorems only (helper lemmas live in this file's private section because they are three lines).
`k` is the amount width: `width true = 16` (trigger version ≥ 2.5), `width false = 8`; every theorem is proved
for every `k`, hence for both layouts.
-/
namespace Aoe.Props.C17
open Aoe.AA

private theorem pow_pos' (k : Nat) : (0 : Int) < (2 ^ k : Int) := Int.pow_pos (by decide)

private theorem shr_eq (v : Int) (k : Nat) : v >>> k = v / (2 ^ k : Int) := by
  rw [Int.shiftRight_eq_div_pow]; simp [Int.natCast_pow]

/-- the stored value is `class * 2^k + amount` (definition of the layout, both widths) -/
theorem merge_def (ge25 : Bool) (c q : Int) :
    merge (width ge25) c q = c * (if ge25 then 65536 else 256) + q := by
  cases ge25 <;> simp [merge, width]

/-- stored → pair → stored is the identity for **every** integer (negative ones included: floor shift and
floor modulus) -/
theorem split_merge (k : Nat) (v : Int) : merge k (split k v).1 (split k v).2 = v := by
  simp only [split, merge, shr_eq]
  exact Int.ediv_mul_add_emod v (2 ^ k)

/-- pair → stored → pair is the identity whenever the amount fits its `k` bits (any class, also negative) -/
theorem merge_split (k : Nat) (c q : Int) (h0 : 0 ≤ q) (h1 : q < (2 ^ k : Int)) :
    split k (merge k c q) = (c, q) := by
  have hp := pow_pos' k
  simp only [split, merge, shr_eq]
  refine Prod.ext ?_ ?_
  · show (c * 2 ^ k + q) / 2 ^ k = c
    rw [Int.add_comm, Int.add_mul_ediv_right _ _ (Int.ne_of_gt hp), Int.ediv_eq_zero_of_lt h0 h1]; simp
  · show (c * 2 ^ k + q) % 2 ^ k = q
    rw [Int.add_comm, Int.add_mul_emod_self_right, Int.emod_eq_of_lt h0 h1]

/-- the amount that comes out of a split always fits its bits, the packing is therefore a bijection between
`Int` and `Int × [0, 2^k)` -/
theorem split_amount_range (k : Nat) (v : Int) : 0 ≤ (split k v).2 ∧ (split k v).2 < (2 ^ k : Int) :=
  ⟨Int.emod_nonneg _ (Int.ne_of_gt (pow_pos' k)), Int.emod_lt_of_pos _ (pow_pos' k)⟩

/-- merge is injective on in-range amounts: two different pairs never share a stored value -/
theorem merge_injective (k : Nat) (c c' q q' : Int) (h0 : 0 ≤ q) (h1 : q < (2 ^ k : Int))
    (h0' : 0 ≤ q') (h1' : q' < (2 ^ k : Int)) (h : merge k c q = merge k c' q') : c = c' ∧ q = q' := by
  have a := merge_split k c q h0 h1
  have b := merge_split k c' q' h0' h1'
  rw [h, b] at a
  exact ⟨(Prod.mk.inj a).1.symm, (Prod.mk.inj a).2.symm⟩

/-- **load → save**: an effect built from stored fields writes back exactly those fields, for every source
family, every stored integer and both layouts (quantity-based and variable-based forms) -/
theorem stored_roundtrip (k : Nat) (s : Src) (q : Int) (v : Int) :
    storedQuantity k (ofStored k s (some q) v) = .ok (some q) ∧
    storedVariable k (ofStored k s (some q) v) = .ok v := by
  cases s
  · -- quantity source
    have := split_merge k q
    simp only [split, merge] at this
    simp [ofStored, storedQuantity, storedVariable, split, merge, this]
  · -- variable source
    have := split_merge k v
    simp only [split, merge] at this
    simp [ofStored, storedQuantity, storedVariable, split, merge, this]
  · simp [ofStored, storedQuantity, storedVariable]

/-- **set → save → load** (quantity-based): class and amount supplied to `new_effect` come back unchanged
after being stored and re-read, provided the amount fits (`0 ≤ a < 2^k`) -/
theorem pair_roundtrip (k : Nat) (c a v : Int) (h0 : 0 ≤ a) (h1 : a < (2 ^ k : Int)) :
    ∃ q, storedQuantity k (ofPair c a v) = .ok (some q) ∧ q = c * (2 ^ k : Int) + a ∧
      storedVariable k (ofPair c a v) = .ok v ∧
      ofStored k .quantity (some q) v = ofPair c a v := by
  refine ⟨merge k c a, rfl, rfl, rfl, ?_⟩
  have := merge_split k c a h0 h1
  simp only [ofStored, ofPair]
  rw [this]

/-- **set → save → load** (variable-based): class and variable id come back unchanged -/
theorem pairVar_roundtrip (k : Nat) (c v : Int) (q : Option Int) (h0 : 0 ≤ v) (h1 : v < (2 ^ k : Int)) :
    ∃ r, storedVariable k (ofPairVar c v q) = .ok r ∧ r = c * (2 ^ k : Int) + v ∧
      storedQuantity k (ofPairVar c v q) = .ok q ∧
      ofStored k .variable q r = ofPairVar c v q := by
  refine ⟨merge k c v, rfl, rfl, rfl, ?_⟩
  have := merge_split k c v h0 h1
  simp only [ofStored, ofPairVar]
  rw [this]

/-- effects outside the armour/attack family keep their plain quantity and variable, and expose no pair -/
theorem plain_quantity_kept (k : Nat) (q : Option Int) (v : Int) :
    (ofStored k .none q v).quantity = q ∧ (ofStored k .none q v).aaClass = none ∧
    (ofStored k .none q v).aaQty = none ∧
    storedQuantity k (ofStored k .none q v) = .ok q ∧ storedVariable k (ofStored k .none q v) = .ok v :=
  ⟨rfl, rfl, rfl, rfl, rfl⟩

/-- assigning `quantity` on a quantity-based effect re-derives the pair and stores exactly that value -/
theorem setQuantity_stored (k : Nat) (e : Eff) (v : Int) :
    storedQuantity k (setQuantity k e v) = .ok (some v) := by
  cases hs : e.src
  · have := split_merge k v
    simp only [setQuantity, storedQuantity, hs, split] at *
    simp only [this]
  · simp [setQuantity, storedQuantity, hs]
  · simp [setQuantity, storedQuantity, hs]

/-- family detection: the four dedicated effects are quantity-based whatever the attribute; the partial ones
only together with ATTACK / ARMOR; everything else is plain -/
theorem source_spec (f : Family) (et oa : Option Int) :
    (source f et oa = .quantity ↔ (mem? f.aaEffects et ∨ (mem? f.partialQ et ∧ mem? f.aaAttrs oa))) ∧
    (source f et oa = .none → ¬ mem? f.aaEffects et) := by
  unfold source
  cases h1 : mem? f.aaEffects et <;> cases h2 : mem? f.partialQ et <;> cases h3 : mem? f.aaAttrs oa <;>
    cases h4 : mem? f.partialV et <;> simp

/-- an effect that is re-targeted after creation (type or attribute assigned later) follows its NEW family: once the
attribute is ATTACK/ARMOR of a by-variable effect and class and variable are set, the stored variable packs the pair;
re-targeting away from the family stores the plain variable again -/
theorem retarget_variable (k : Nat) (f : Family) (e : Eff) (et oa : Option Int) (c v : Int)
    (h : source f et oa = .variable) :
    storedVariable k (setVar (setClass (retarget f e et oa) c) v) = .ok (merge k c v) := by
  simp [retarget, setClass, setVar, storedVariable, h]

theorem retarget_quantity (k : Nat) (f : Family) (e : Eff) (et oa : Option Int) (c a : Int)
    (h : source f et oa = .quantity) :
    storedQuantity k (setAmount (setClass (retarget f e et oa) c) a) = .ok (some (merge k c a)) := by
  simp [retarget, setClass, setAmount, storedQuantity, h]

theorem retarget_plain (k : Nat) (f : Family) (e : Eff) (et oa : Option Int) (h : source f et oa = .none) :
    storedVariable k (retarget f e et oa) = .ok e.var ∧ storedQuantity k (retarget f e et oa) = .ok e.quantity := by
  simp [retarget, storedVariable, storedQuantity, h]

/-! ### non-vacuity: the hypotheses are met by ordinary values, and the numbers are the documented ones -/
/-- a plain quantity left behind by an earlier life of the effect (created as a plain effect, or assigned through the
`quantity` setter) never reaches the file once the effect is a quantity-based armour/attack effect: only the pair does -/
theorem stale_quantity_ignored (k : Nat) (e : Eff) (q' : Option Int) (h : e.src = .quantity) :
    storedQuantity k { e with quantity := q' } = storedQuantity k e := by
  simp [storedQuantity, h]

/-- the pair that was set last wins over an earlier `quantity = v` assignment -/
theorem pair_after_setQuantity (k : Nat) (e : Eff) (v c a : Int) (h : e.src = .quantity) :
    storedQuantity k (setAmount (setClass (setQuantity k e v) c) a) = .ok (some (merge k c a)) := by
  simp [setQuantity, setClass, setAmount, storedQuantity, h]

/-- … and a later `quantity = v` assignment wins over an earlier pair -/
theorem setQuantity_after_pair (k : Nat) (e : Eff) (v c a : Int) (h : e.src = .quantity) :
    storedQuantity k (setQuantity k (setAmount (setClass e c) a) v) = .ok (some v) := by
  have := setQuantity_stored k (setAmount (setClass e c) a) v
  simpa [setClass, setAmount, h] using this

example : (fresh .variable).aaClass = some 0 ∧ (fresh .quantity).aaClass = none := by decide

example : merge (width true) 3 5 = 196613 ∧ merge (width false) 3 5 = 773 := by decide
example : split 16 196613 = (3, 5) ∧ split 8 773 = (3, 5) ∧ split 8 (-300) = (-2, 212) := by decide
example : (0:Int) ≤ 5 ∧ (5:Int) < 2 ^ 8 := by decide
example : ofStored 8 .quantity (some 773) (-1) = ofPair 3 5 (-1) := by decide

end Aoe.Props.C17
