import Aoe.Props.CommitCounts
/-!
# The whole reconstruct (all managers in their fixed order) - C03 / C04 at the level of one save

`AoE2ObjectManager.reconstruct` commits the managers one after the other into the same sections. What the tree holds of
manager `m` right after `m`'s own commit (`commit_holds`) is still there after the managers that follow - provided their
links stay away from `m`'s retrievers (`classAway`, decidable on the generated tables; it fails, correctly, where two
managers write the same retriever, e.g. the deprecated duplicates of the Map manager that the Option manager also writes).

`commitAll_holds`: after the whole reconstruct the tree holds the object of every manager `m` with `mgrSafe`.
Together with `construct_of_holds`: constructing `m` again from the saved sections returns `normalize obj`.
-/
namespace Aoe.Props.CommitAll
open Aoe Aoe.Codec Aoe.Lens Aoe.Commit Aoe.Props.Links Aoe.Props.CommitFrame Aoe.Props.CommitHolds Aoe.Props.CommitCounts
open Aoe.Props.C05 (Diverge frame get_set)

/-- what the tree holds of one link survives the push of another link that stays away from its retriever -/
theorem linkHolds_allPres (classes : List ClassSpec) (fuel : Nat) (hist : List Nat)
    (lv lv' : (Nat × LinkKind) × Val)
    (hn : nestOk classes fuel hist.length lv.1.2 = true)
    (haw : ∀ path, pathOf lv.1.2 = some path → linkAway classes fuel hist.length path lv'.1.2 = true) :
    AllPres (linkHolds (Holds classes fuel) hist lv) (linkFoot (foot classes fuel) hist lv') := by
  obtain ⟨⟨a, k⟩, v⟩ := lv
  cases k with
  | hist n => intro w _ t x t' _ _; simp [linkHolds]
  | skip => intro w _ t x t' _ _; simp [linkHolds]
  | plain path acts names =>
    cases hr : resolve hist path with
    | none =>
      intro w _ t x t' _ hq
      simp only [linkHolds, hr] at hq
      obtain ⟨p, hp, _⟩ := hq
      cases hp
    | some p =>
      exact linkAway_pres classes fuel hist path p hr _
        (fun w hd => linkHolds_pres classes fuel hist _ hn w
          (fun pth q hpth hq => by simp only [pathOf, Option.some.injEq] at hpth; subst hpth; rw [hr] at hq; cases hq; exact hd))
        lv' (haw path rfl)
  | objs path ccls d cn g acts names =>
    cases hr : resolve hist path with
    | none =>
      intro w _ t x t' _ hq
      simp only [linkHolds, hr] at hq
      obtain ⟨p, os, hp, _⟩ := hq
      cases hp
    | some p =>
      exact linkAway_pres classes fuel hist path p hr _
        (fun w hd => linkHolds_pres classes fuel hist _ hn w
          (fun pth q hpth hq => by simp only [pathOf, Option.some.injEq] at hpth; subst hpth; rw [hr] at hq; cases hq; exact hd))
        lv' (haw path rfl)

/-- static: every link of class `other` stays away from the retriever of every link of class `mine` (both at top level) -/
def classAway (classes : List ClassSpec) (fuel : Nat) (mine other : ClassSpec) : Bool :=
  mine.links.all (fun l => match pathOf l.2 with
    | some path => other.links.all (fun l' => linkAway classes fuel 0 path l'.2)
    | none => true)

def nestAll (classes : List ClassSpec) (fuel : Nat) (c : ClassSpec) : Bool :=
  c.links.all (fun l => nestOk classes fuel 0 l.2)

/-- the commit of another manager keeps what the tree holds of mine -/
theorem commitObj_keeps_holds (classes : List ClassSpec) (fuel : Nat) (mine other : Nat) (cM cO : ClassSpec)
    (hM : classes[mine]? = some cM) (hO : classes[other]? = some cO)
    (hnest : nestAll classes fuel cM = true) (haway : classAway classes fuel cM cO = true)
    (objM objO : Val) (t t' : Sections)
    (h : commitObj classes (fuel + 1) other [] objO t = .ok t')
    (hH : Holds classes (fuel + 1) mine [] objM t.root) : Holds classes (fuel + 1) mine [] objM t'.root := by
  refine commitObj_inv (Holds classes (fuel + 1) mine [] objM) classes (fuel + 1) other [] objO t t' h ?_ hH
  intro w hw u x u' hs hQ
  simp only [Holds, hM] at hQ ⊢
  cases objM with
  | strct valsM =>
    simp only at hQ ⊢
    intro lv hlv
    -- which link of the other manager wrote `w`
    simp only [foot, hO] at hw
    cases objO with
    | strct valsO =>
      simp only [List.mem_flatMap] at hw
      obtain ⟨lv', hlv', hwl⟩ := hw
      have hl : lv.1 ∈ cM.links := (List.of_mem_zip hlv).1
      have hl' : lv'.1 ∈ cO.links := (List.of_mem_zip hlv').1
      have hn : nestOk classes fuel ([] : List Nat).length lv.1.2 = true := by
        have := List.all_eq_true.mp hnest lv.1 hl
        simpa using this
      have haw : ∀ path, pathOf lv.1.2 = some path → linkAway classes fuel ([] : List Nat).length path lv'.1.2 = true := by
        intro path hp
        have h1 := List.all_eq_true.mp haway lv.1 hl
        simp only [hp] at h1
        have := List.all_eq_true.mp h1 lv'.1 hl'
        simpa using this
      exact linkHolds_allPres classes fuel [] lv lv' hn haw w hwl u x u' hs (hQ lv hlv)
    | _ => simp at hw
  | _ => trivial

theorem mem_drop_zip_fst {α β : Type} (j : Nat) (l : List α) (v : List β) (x : α × β)
    (h : x ∈ (l.zip v).drop j) : x.1 ∈ l.drop j := by
  induction j generalizing l v with
  | zero => simp only [List.drop_zero] at h ⊢; exact (List.of_mem_zip h).1
  | succ j ih =>
    cases l with
    | nil => simp at h
    | cons a l =>
      cases v with
      | nil => simp at h
      | cons b v =>
        simp only [List.zip_cons_cons, List.drop_succ_cons] at h ⊢
        exact ih l v h

/-- static: manager number `i` of the list is `tableSafe` and every manager committed after it stays away from it -/
def mgrSafe (classes : List ClassSpec) (managers : List Nat) (i : Nat) : Bool :=
  match managers[i]? with
  | none => false
  | some m =>
    match classes[m]? with
    | none => false
    | some cM =>
      tableSafe classes 4 m 0 && nestAll classes 3 cM &&
        (managers.drop (i + 1)).all (fun m' => match classes[m']? with
          | some cO => classAway classes 3 cM cO
          | none => false)

/-- the fold over the managers that follow keeps what the tree holds of manager `m` -/
theorem later_managers_keep (classes : List ClassSpec) (m : Nat) (cM : ClassSpec) (hM : classes[m]? = some cM)
    (hnest : nestAll classes 3 cM = true) (objM : Val) (rest : List (Nat × Val)) :
    ∀ (s s' : Sections),
      (∀ mo ∈ rest, match classes[mo.1]? with | some cO => classAway classes 3 cM cO = true | none => False) →
      rest.foldlM (fun (s : Sections) (mo : Nat × Val) => commitObj classes 4 mo.1 [] mo.2 s) s = .ok s' →
      Holds classes 4 m [] objM s.root → Holds classes 4 m [] objM s'.root := by
  induction rest with
  | nil => intro s s' _ h hH; simp only [List.foldlM, pure, Except.pure, Except.ok.injEq] at h; subst h; exact hH
  | cons mo rest ih =>
    intro s s' haw h hH
    simp only [List.foldlM, bind, Except.bind] at h
    cases h1 : commitObj classes 4 mo.1 [] mo.2 s with
    | error e => rw [h1] at h; cases h
    | ok s1 =>
      rw [h1] at h
      have hmo := haw mo (by simp)
      cases hO : classes[mo.1]? with
      | none => simp [hO] at hmo
      | some cO =>
        simp only [hO] at hmo
        exact ih s1 s' (fun x hx => haw x (by simp [hx])) h
          (commitObj_keeps_holds classes 3 m mo.1 cM cO hM hO hnest hmo objM mo.2 s s1 h1 hH)

/-- **after the whole reconstruct the sections hold the object of manager number `i`** (for every `mgrSafe` manager) -/
theorem commitAll_holds (classes : List ClassSpec) (managers : List Nat) (objs : List Val) (s s' : Sections)
    (h : commitAll classes managers objs s = .ok s')
    (i : Nat) (hsafe : mgrSafe classes managers i = true) (m : Nat) (obj : Val)
    (hm : managers[i]? = some m) (ho : objs[i]? = some obj) :
    Holds classes 4 m [] obj s'.root := by
  unfold mgrSafe at hsafe
  simp only [hm] at hsafe
  cases hM : classes[m]? with
  | none => simp [hM] at hsafe
  | some cM =>
    simp only [hM, Bool.and_eq_true] at hsafe
    obtain ⟨⟨hts, hnest⟩, hlater⟩ := hsafe
    unfold commitAll at h
    have hi : i < (managers.zip objs).length := by
      have h1 : i < managers.length := by
        rcases List.getElem?_eq_some_iff.mp hm with ⟨h', _⟩; exact h'
      have h2 : i < objs.length := by
        rcases List.getElem?_eq_some_iff.mp ho with ⟨h', _⟩; exact h'
      simp; omega
    have hzi : (managers.zip objs)[i] = (m, obj) := by
      rw [List.getElem_zip]
      obtain ⟨_, e1⟩ := List.getElem?_eq_some_iff.mp hm
      obtain ⟨_, e2⟩ := List.getElem?_eq_some_iff.mp ho
      simp [e1, e2]
    have hsplit : managers.zip objs = (managers.zip objs).take i ++ (m, obj) :: (managers.zip objs).drop (i + 1) := by
      rw [← hzi, List.getElem_cons_drop]; exact (List.take_append_drop i _).symm
    rw [hsplit, List.foldlM_append] at h
    simp only [bind, Except.bind] at h
    cases hA : List.foldlM (fun (s : Sections) (mo : Nat × Val) => commitObj classes 4 mo.1 [] mo.2 s) s
        ((managers.zip objs).take i) with
    | error e => rw [hA] at h; cases h
    | ok sA =>
      rw [hA] at h
      simp only [List.foldlM, bind, Except.bind] at h
      cases hB : commitObj classes 4 m [] obj sA with
      | error e => rw [hB] at h; cases h
      | ok sB =>
        rw [hB] at h
        have hH := commit_holds classes 4 m [] obj sA sB hts hB
        refine later_managers_keep classes m cM hM hnest obj _ sB s' ?_ h hH
        intro mo hmo
        have hmem : mo.1 ∈ managers.drop (i + 1) := mem_drop_zip_fst (i + 1) managers objs mo hmo
        have := List.all_eq_true.mp hlater mo.1 hmem
        cases hO : classes[mo.1]? with
        | none => simp [hO] at this
        | some cO => simpa [hO] using this

/-- **after a whole save, loading manager `i` again returns what was saved** (engine part of C03 for one full reconstruct):
constructing the manager from the sections that `commitAll` left returns the normalised object -/
theorem construct_after_commitAll (classes : List ClassSpec) (managers : List Nat) (objs : List Val) (s s' : Sections)
    (h : commitAll classes managers objs s = .ok s')
    (i : Nat) (hsafe : mgrSafe classes managers i = true) (m : Nat) (obj : Val)
    (hm : managers[i]? = some m) (ho : objs[i]? = some obj) (hwf : WF classes 4 m [] obj) :
    constructObj classes 4 m [] s' = .ok (normalize classes 4 m [] obj) :=
  construct_of_holds classes 4 m [] obj s' hwf (commitAll_holds classes managers objs s s' h i hsafe m obj hm ho)

/-! ### the counts of a manager's object tree survive the managers that follow -/

/-- static: every link of class `other` also stays away from the count retrievers of class `mine` -/
def classAwayC (classes : List ClassSpec) (fuel : Nat) (mine other : ClassSpec) : Bool :=
  mine.links.all (fun l => match l.2 with
    | .objs path _ _ _ _ acts _ =>
      (match headLen acts with
       | some (ci, _, _) => other.links.all (fun l' => linkAway classes fuel 0 (destPPath path (.self ci)) l'.2)
       | none => true)
    | _ => true)

theorem commitObj_keeps_counts (classes : List ClassSpec) (fuel : Nat) (mine other : Nat) (cM cO : ClassSpec)
    (hM : classes[mine]? = some cM) (hO : classes[other]? = some cO)
    (hnest : nestAll classes fuel cM = true) (haway : classAway classes fuel cM cO = true)
    (hawayC : classAwayC classes fuel cM cO = true)
    (objM objO : Val) (t t' : Sections)
    (h : commitObj classes (fuel + 1) other [] objO t = .ok t')
    (hH : Counts classes (fuel + 1) mine [] objM t.root) : Counts classes (fuel + 1) mine [] objM t'.root := by
  refine commitObj_inv (Counts classes (fuel + 1) mine [] objM) classes (fuel + 1) other [] objO t t' h ?_ hH
  intro w hw u x u' hs hQ
  simp only [Counts, hM] at hQ ⊢
  cases objM with
  | strct valsM =>
    simp only at hQ ⊢
    intro lv hlv
    simp only [foot, hO] at hw
    cases objO with
    | strct valsO =>
      simp only [List.mem_flatMap] at hw
      obtain ⟨lv', hlv', hwl⟩ := hw
      have hl : lv.1 ∈ cM.links := (List.of_mem_zip hlv).1
      have hl' : lv'.1 ∈ cO.links := (List.of_mem_zip hlv').1
      have hold := hQ lv hlv
      obtain ⟨⟨a, k⟩, v⟩ := lv
      cases k with
      | hist n => exact ⟨by simp [countFact], by simp [kidsFact]⟩
      | skip => exact ⟨by simp [countFact], by simp [kidsFact]⟩
      | plain path acts names => exact ⟨by simp [countFact], by simp [kidsFact]⟩
      | objs path ccls d cn g acts names =>
        cases v with
        | list os =>
          have hn : wellNested classes fuel ccls path ([] : List Nat).length = true := by
            have := List.all_eq_true.mp hnest _ hl
            simpa [nestOk] using this
          refine ⟨?_, ?_⟩
          · have hcf := hold.1
            simp only [countFact] at hcf ⊢
            intro ci nm jj rest hsl hra hlast hfirst hguard p hp
            have hfact := hcf ci nm jj rest hsl hra hlast hfirst hguard p hp
            have haw : linkAway classes fuel ([] : List Nat).length (destPPath path (.self ci)) lv'.1.2 = true := by
              have h1 := List.all_eq_true.mp hawayC _ hl
              simp only [hsl] at h1
              have := List.all_eq_true.mp h1 lv'.1 hl'
              simpa using this
            have hcp : resolve [] (destPPath path (.self ci)) = some (dropLastStep p ++ [Step.fld ci]) := by
              have := resolve_dest [] path p (.self ci) hp
              simpa [Dest.path] using this
            exact linkAway_pres classes fuel [] _ _ hcp (fun t => getAt (dropLastStep p ++ [Step.fld ci]) t = some (.int os.length))
              (fun w hd => pres_of_diverge _ w _ hd) lv' haw w hwl u x u' hs hfact
          · have hkf := hold.2
            simp only [kidsFact] at hkf ⊢
            intro p hp oi hoi
            have haw : linkAway classes fuel ([] : List Nat).length path lv'.1.2 = true := by
              have h1 := List.all_eq_true.mp haway _ hl
              simp only [pathOf] at h1
              have := List.all_eq_true.mp h1 lv'.1 hl'
              simpa using this
            exact linkAway_pres classes fuel [] path p hp (Counts classes fuel ccls ([] ++ [oi.2]) oi.1)
              (fun w hd => counts_pres classes fuel ccls path [] oi.2 oi.1 p w hp hn
                (away_of_diverge _ w (diverge_append_right w p _ hd))) lv' haw w hwl u x u' hs (hkf p hp oi hoi)
        | _ => exact ⟨by simp [countFact], by simp [kidsFact]⟩
    | _ => simp at hw
  | _ => trivial

/-- static: `mgrSafe` plus pairwise different link names and the count retrievers left alone by the later managers -/
def mgrSafeC (classes : List ClassSpec) (managers : List Nat) (i : Nat) : Bool :=
  mgrSafe classes managers i &&
  match managers[i]? with
  | none => false
  | some m =>
    match classes[m]? with
    | none => false
    | some cM => namesOk classes 4 m &&
        (managers.drop (i + 1)).all (fun m' => match classes[m']? with
          | some cO => classAwayC classes 3 cM cO
          | none => false)

theorem later_managers_keep_counts (classes : List ClassSpec) (m : Nat) (cM : ClassSpec) (hM : classes[m]? = some cM)
    (hnest : nestAll classes 3 cM = true) (objM : Val) (rest : List (Nat × Val)) :
    ∀ (s s' : Sections),
      (∀ mo ∈ rest, match classes[mo.1]? with
        | some cO => classAway classes 3 cM cO = true ∧ classAwayC classes 3 cM cO = true | none => False) →
      rest.foldlM (fun (s : Sections) (mo : Nat × Val) => commitObj classes 4 mo.1 [] mo.2 s) s = .ok s' →
      Counts classes 4 m [] objM s.root → Counts classes 4 m [] objM s'.root := by
  induction rest with
  | nil => intro s s' _ h hH; simp only [List.foldlM, pure, Except.pure, Except.ok.injEq] at h; subst h; exact hH
  | cons mo rest ih =>
    intro s s' haw h hH
    simp only [List.foldlM, bind, Except.bind] at h
    cases h1 : commitObj classes 4 mo.1 [] mo.2 s with
    | error e => rw [h1] at h; cases h
    | ok s1 =>
      rw [h1] at h
      have hmo := haw mo (by simp)
      cases hO : classes[mo.1]? with
      | none => simp [hO] at hmo
      | some cO =>
        simp only [hO] at hmo
        exact ih s1 s' (fun x hx => haw x (by simp [hx])) h
          (commitObj_keeps_counts classes 3 m mo.1 cM cO hM hO hnest hmo.1 hmo.2 objM mo.2 s s1 h1 hH)

/-- **after the whole reconstruct every counted object list of manager `i`'s object tree is stored with a count equal to
its number of objects** (C04 for one full save, engine part) -/
theorem commitAll_counts (classes : List ClassSpec) (managers : List Nat) (objs : List Val) (s s' : Sections)
    (h : commitAll classes managers objs s = .ok s')
    (i : Nat) (hsafe : mgrSafeC classes managers i = true) (m : Nat) (obj : Val)
    (hm : managers[i]? = some m) (ho : objs[i]? = some obj) :
    Counts classes 4 m [] obj s'.root := by
  unfold mgrSafeC at hsafe
  simp only [Bool.and_eq_true, hm] at hsafe
  obtain ⟨hs1, hs2⟩ := hsafe
  unfold mgrSafe at hs1
  simp only [hm] at hs1
  cases hM : classes[m]? with
  | none => simp [hM] at hs1
  | some cM =>
    simp only [hM, Bool.and_eq_true] at hs1 hs2
    obtain ⟨⟨hts, hnest⟩, hlater⟩ := hs1
    obtain ⟨hnames, hlaterC⟩ := hs2
    unfold commitAll at h
    have hi : i < (managers.zip objs).length := by
      have h1 : i < managers.length := by
        rcases List.getElem?_eq_some_iff.mp hm with ⟨h', _⟩; exact h'
      have h2 : i < objs.length := by
        rcases List.getElem?_eq_some_iff.mp ho with ⟨h', _⟩; exact h'
      simp; omega
    have hzi : (managers.zip objs)[i] = (m, obj) := by
      rw [List.getElem_zip]
      obtain ⟨_, e1⟩ := List.getElem?_eq_some_iff.mp hm
      obtain ⟨_, e2⟩ := List.getElem?_eq_some_iff.mp ho
      simp [e1, e2]
    have hsplit : managers.zip objs = (managers.zip objs).take i ++ (m, obj) :: (managers.zip objs).drop (i + 1) := by
      rw [← hzi, List.getElem_cons_drop]; exact (List.take_append_drop i _).symm
    rw [hsplit, List.foldlM_append] at h
    simp only [bind, Except.bind] at h
    cases hA : List.foldlM (fun (s : Sections) (mo : Nat × Val) => commitObj classes 4 mo.1 [] mo.2 s) s
        ((managers.zip objs).take i) with
    | error e => rw [hA] at h; cases h
    | ok sA =>
      rw [hA] at h
      simp only [List.foldlM, bind, Except.bind] at h
      cases hB : commitObj classes 4 m [] obj sA with
      | error e => rw [hB] at h; cases h
      | ok sB =>
        rw [hB] at h
        have hC := commit_counts classes 4 m [] obj sA sB hts hnames hB
        refine later_managers_keep_counts classes m cM hM hnest obj _ sB s' ?_ h hC
        intro mo hmo
        have hmem : mo.1 ∈ managers.drop (i + 1) := mem_drop_zip_fst (i + 1) managers objs mo hmo
        have h1 := List.all_eq_true.mp hlater mo.1 hmem
        have h2 := List.all_eq_true.mp hlaterC mo.1 hmem
        cases hO : classes[mo.1]? with
        | none => simp [hO] at h1
        | some cO => simp only [hO] at h1 h2 ⊢; exact ⟨h1, h2⟩

end Aoe.Props.CommitAll
