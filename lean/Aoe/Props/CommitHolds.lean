import Aoe.Props.CommitFrame
/-!
# construct ∘ commit for every class (C03 at the manager level, engine part)

`Holds classes fuel cls hist obj t`: the section tree `t` holds the object `obj` of class `cls` at index history `hist`:
every plain link's retriever holds the object's value, every object-list link's struct list has one record per child
object and - recursively - holds the children.

* `commit_holds`: a successful commit establishes `Holds` (for class tables that pass the decidable check `tableSafe`).
* `construct_of_holds`: from a tree that holds `obj`, `constructObj` returns `normalize obj` (= `obj` with the index
  links read from the history and the links the version lacks set to `None`).
Together: `construct (commit obj) = normalize obj` for every class, any nesting, any values.
-/
namespace Aoe.Props.CommitHolds
open Aoe Aoe.Codec Aoe.Lens Aoe.Commit Aoe.Props.Links Aoe.Props.CommitFrame
open Aoe.Props.C05 (Diverge frame get_set)

/-- what one (link, value) pair demands of the tree; `H` = the demand of a child object -/
def linkHolds (H : Nat → List Nat → Val → Val → Prop) (hist : List Nat) (lv : (Nat × LinkKind) × Val) (t : Val) : Prop :=
  match lv.1.2 with
  | .plain path _ _ => ∃ p, resolve hist path = some p ∧ getAt p t = some lv.2
  | .objs path ccls _ _ _ _ _ =>
    ∃ p os, resolve hist path = some p ∧ lv.2 = .list os ∧ ListLen p os.length t ∧
      ∀ oi ∈ os.zipIdx, H ccls (hist ++ [oi.2]) oi.1 t
  | _ => True

/-- the tree holds the object -/
def Holds (classes : List ClassSpec) : Nat → Nat → List Nat → Val → Val → Prop
  | 0, _, _, _, _ => True
  | fuel + 1, cls, hist, obj, t =>
    match classes[cls]?, obj with
    | some c, .strct vals => ∀ lv ∈ c.links.zip vals, linkHolds (Holds classes fuel) hist lv t
    | _, _ => True

theorem diverge_append_right (p q r : List Step) (h : Diverge p q) : Diverge p (q ++ r) := by
  induction p generalizing q with
  | nil => cases q <;> exact absurd h id
  | cons a p ih =>
    cases q with
    | nil => exact absurd h id
    | cons b q =>
      rcases h with h | ⟨h1, h2⟩
      · exact Or.inl h
      · exact Or.inr ⟨h1, ih q h2⟩

theorem diverge_sibling (p : List Step) (i j : Nat) (r r' : List Step) (h : i ≠ j) :
    Diverge (p ++ Step.idx i :: r) (p ++ Step.idx j :: r') := by
  induction p with
  | nil => exact Or.inl (by intro e; cases e; exact h rfl)
  | cons a p ih => exact Or.inr ⟨rfl, ih⟩

/-- `w` touches nothing at or below `region` -/
def Away (region w : List Step) : Prop := ∀ r, Diverge w (region ++ r)

theorem away_of_diverge (region w : List Step) (h : Diverge w region) : Away region w :=
  fun r => diverge_append_right w region r h

theorem away_append (region r0 w : List Step) (h : Away region w) : Away (region ++ r0) w := by
  intro r; rw [List.append_assoc]; exact h (r0 ++ r)

/-- a write that stays away from the record of a child object keeps everything the tree holds of that child -/
theorem holds_pres (classes : List ClassSpec) (fuel : Nat) :
    ∀ (cls : Nat) (pp : List PStep) (hist : List Nat) (i : Nat) (obj : Val) (p w : List Step),
      resolve hist pp = some p → wellNested classes fuel cls pp hist.length = true → Away (p ++ [Step.idx i]) w →
      Pres (Holds classes fuel cls (hist ++ [i]) obj) w := by
  induction fuel with
  | zero => intro cls pp hist i obj p w _ _ _ t x t' _ _; simp [Holds]
  | succ fuel ih =>
    intro cls pp hist i obj p w hp hwn haw t x t' hs hH
    simp only [Holds] at hH ⊢
    cases hc : classes[cls]? with
    | none => simp
    | some c =>
      cases obj with
      | strct vals =>
        simp only [hc] at hH ⊢
        intro lv hlv
        have hl := hH lv hlv
        simp only [wellNested, hc, List.all_eq_true] at hwn
        have hwl := hwn lv.1 (List.of_mem_zip hlv).1
        obtain ⟨⟨a, k⟩, v⟩ := lv
        cases k with
        | hist n => simp [linkHolds]
        | skip => simp [linkHolds]
        | plain path acts names =>
          simp only [linkHolds] at hl ⊢
          obtain ⟨q, hq, hg⟩ := hl
          simp only [Bool.and_eq_true] at hwl
          obtain ⟨r, _, rfl⟩ := resolve_child hist i pp path p hp hwl.1 q hq
          refine ⟨_, hq, ?_⟩
          have hd : Diverge w (p ++ Step.idx i :: r) := by
            have := haw r; simpa using this
          exact pres_of_diverge _ w _ hd t x t' hs hg
        | objs path ccls defaults childNames guards acts names =>
          simp only [linkHolds] at hl ⊢
          obtain ⟨q, os, hq, hv, hlen, hch⟩ := hl
          simp only [Bool.and_eq_true] at hwl
          obtain ⟨⟨hpb, _⟩, hnest⟩ := hwl
          obtain ⟨r, _, rfl⟩ := resolve_child hist i pp path p hp hpb q hq
          have hd : Diverge w (p ++ Step.idx i :: r) := by
            have := haw r; simpa using this
          refine ⟨_, os, hq, hv, pres_len_diverge _ w _ hd t x t' hs hlen, ?_⟩
          intro oi hoi
          have hlen' : (hist ++ [i]).length = hist.length + 1 := by simp
          refine ih ccls path (hist ++ [i]) oi.2 oi.1 (p ++ Step.idx i :: r) w hq (by rw [hlen']; exact hnest) ?_ t x t' hs (hch oi hoi)
          have : p ++ Step.idx i :: r = (p ++ [Step.idx i]) ++ r := by simp
          rw [this, List.append_assoc]
          exact away_append (p ++ [Step.idx i]) (r ++ [Step.idx oi.2]) w haw
      | _ => simp

/-! ### two fold lemmas: every step establishes its own fact and keeps the facts of the others -/

theorem foldlM_forward_aux {α : Type} (f : Sections → α → Except Err Sections) (P : α → Sections → Prop) (key : α → Nat)
    (L : List α) : ∀ (done : List α) (s s' : Sections), ((done ++ L).map key).Nodup →
    (∀ x ∈ L, ∀ t t', f t x = .ok t' → P x t') →
    (∀ x ∈ L, ∀ y ∈ done ++ L, key y ≠ key x → ∀ t t', f t x = .ok t' → P y t → P y t') →
    (∀ y ∈ done, P y s) → L.foldlM f s = .ok s' → ∀ y ∈ done ++ L, P y s' := by
  induction L with
  | nil =>
    intro done s s' _ _ _ h0 h
    simp only [List.foldlM, pure, Except.pure, Except.ok.injEq] at h
    subst h; simpa using h0
  | cons x L ih =>
    intro done s s' hnd hE hP h0 h
    simp only [List.foldlM, bind, Except.bind] at h
    cases h1 : f s x with
    | error e => rw [h1] at h; cases h
    | ok s1 =>
      rw [h1] at h
      have hassoc : done ++ x :: L = (done ++ [x]) ++ L := by simp
      rw [hassoc]
      refine ih (done ++ [x]) s1 s' (by rw [← hassoc]; exact hnd)
        (fun z hz => hE z (by simp [hz])) ?_ ?_ h
      · intro z hz y hy hk
        exact hP z (by simp [hz]) y (by rw [hassoc]; exact hy) hk
      · intro y hy
        simp only [List.mem_append, List.mem_singleton] at hy
        rcases hy with hy | rfl
        · have hne : key y ≠ key x := by
            intro e
            rw [List.map_append, List.map_cons] at hnd
            have := (List.nodup_append.mp hnd).2.2 (key y) (List.mem_map_of_mem hy) (key x) (by simp)
            exact this e
          exact hP x (by simp) y (by simp [hy]) hne s s1 h1 (h0 y hy)
        · exact hE y (by simp) s s1 h1

theorem foldlM_forward {α : Type} (f : Sections → α → Except Err Sections) (P : α → Sections → Prop) (key : α → Nat)
    (L : List α) (hnd : (L.map key).Nodup)
    (hE : ∀ x ∈ L, ∀ t t', f t x = .ok t' → P x t')
    (hP : ∀ x ∈ L, ∀ y ∈ L, key y ≠ key x → ∀ t t', f t x = .ok t' → P y t → P y t')
    (s s' : Sections) (h : L.foldlM f s = .ok s') : ∀ y ∈ L, P y s' := by
  have := foldlM_forward_aux f P key L [] s s' (by simpa using hnd) hE (by simpa using hP) (by simp) h
  simpa using this

theorem foldlM_reverse_establish {α : Type} (f : Sections → α → Except Err Sections) (P : α → Sections → Prop)
    (L : List α)
    (hE : ∀ pre x suf, L = pre ++ x :: suf → ∀ t t', f t x = .ok t' → P x t')
    (hP : ∀ pre x suf, L = pre ++ x :: suf → ∀ y ∈ suf, ∀ t t', f t x = .ok t' → P y t → P y t')
    (s s' : Sections) (h : L.reverse.foldlM f s = .ok s') : ∀ y ∈ L, P y s' := by
  induction L generalizing s s' with
  | nil => intro y hy; simp at hy
  | cons x L ih =>
    rw [List.reverse_cons, List.foldlM_append] at h
    simp only [bind, Except.bind] at h
    cases hA : L.reverse.foldlM f s with
    | error e => rw [hA] at h; cases h
    | ok sA =>
      rw [hA] at h
      simp only [List.foldlM, bind, Except.bind] at h
      cases hB : f sA x with
      | error e => rw [hB] at h; cases h
      | ok sB =>
        rw [hB] at h
        simp only [pure, Except.pure, Except.ok.injEq] at h
        subst h
        have ihL := ih (fun pre z suf e => hE (x :: pre) z suf (by simp [e]))
          (fun pre z suf e => hP (x :: pre) z suf (by simp [e])) s sA hA
        intro y hy
        simp only [List.mem_cons] at hy
        rcases hy with rfl | hy
        · exact hE [] y L rfl sA sB hB
        · exact hP [] x L rfl y hy sA sB hB (ihL y hy)

/-! ### what the tree holds of one link survives every write that stays away from the link's retriever -/

/-- static: the children of an object-list link are well nested (nothing to check for the other kinds) -/
def nestOk (classes : List ClassSpec) (fuel k : Nat) : LinkKind → Bool
  | .objs path ccls _ _ _ _ _ => wellNested classes fuel ccls path k
  | _ => true

def pathOf : LinkKind → Option (List PStep)
  | .plain path _ _ => some path
  | .objs path _ _ _ _ _ _ => some path
  | _ => none

theorem linkHolds_pres (classes : List ClassSpec) (fuel : Nat) (hist : List Nat) (lv : (Nat × LinkKind) × Val)
    (hn : nestOk classes fuel hist.length lv.1.2 = true) (w : List Step)
    (hw : ∀ path p, pathOf lv.1.2 = some path → resolve hist path = some p → Diverge w p) :
    Pres (linkHolds (Holds classes fuel) hist lv) w := by
  obtain ⟨⟨a, k⟩, v⟩ := lv
  intro t x t' hs hl
  cases k with
  | hist n => simp [linkHolds]
  | skip => simp [linkHolds]
  | plain path acts names =>
    simp only [linkHolds] at hl ⊢
    obtain ⟨p, hp, hg⟩ := hl
    exact ⟨p, hp, pres_of_diverge p w _ (hw path p rfl hp) t x t' hs hg⟩
  | objs path ccls defaults childNames guards acts names =>
    simp only [linkHolds] at hl ⊢
    obtain ⟨p, os, hp, hv, hlen, hch⟩ := hl
    have hd := hw path p rfl hp
    refine ⟨p, os, hp, hv, pres_len_diverge p w _ hd t x t' hs hlen, ?_⟩
    intro oi hoi
    exact holds_pres classes fuel ccls path hist oi.2 oi.1 p w hp hn
      (away_of_diverge _ w (diverge_append_right w p _ hd)) t x t' hs (hch oi hoi)

/-! ### the push of an object-list link establishes what the tree must hold of it -/

theorem pushLink_objs_holds (classes : List ClassSpec) (fuel : Nat) (hist : List Nat) (s s' : Sections)
    (a : Nat) (path : List PStep) (ccls : Nat) (defaults : List Val) (childNames : List Nat)
    (guards : List (Nat × Expr)) (acts : List RefreshAct) (names : List Nat) (os : List Val) (p : List Step)
    (hp : resolve hist path = some p)
    (hnest : wellNested classes fuel ccls path hist.length = true)
    (hown : acts.all (fun x => PDiverge (destPPath path x.dest) path) = true)
    (hchild : ∀ i o t t', commitObj classes fuel ccls (hist ++ [i]) o t = .ok t' →
      Holds classes fuel ccls (hist ++ [i]) o t'.root)
    (h : pushLink (commitObj classes fuel) hist s
          ((a, .objs path ccls defaults childNames guards acts names), .list os) = .ok s') :
    linkHolds (Holds classes fuel) hist ((a, .objs path ccls defaults childNames guards acts names), .list os) s'.root := by
  have hactd : ∀ act ∈ acts, Diverge (act.dest.path (dropLastStep p)) p := fun act hact =>
    resolve_diverge hist _ path _ p (resolve_dest hist path p act.dest hp) hp (List.all_eq_true.mp hown act hact)
  have hlen : ListLen p os.length s'.root := by
    refine pushLink_objs_len (commitObj classes fuel) (foot classes fuel) hist s s' a path ccls defaults childNames
      guards acts names os p hp ?_ ?_ ?_ h
    · intro hh o t t' ht hpres hq
      exact commitObj_inv _ classes fuel ccls hh o t t' ht hpres hq
    · intro oi hoi w hw
      exact pres_len_of_below p w _ oi.2 (foot_below classes fuel ccls path hist oi.2 oi.1 p hp hnest w hw)
    · intro act hact
      exact pres_len_diverge p _ _ (hactd act hact)
  obtain ⟨p', old, dflt, s1, s2, hr, hg, hw, hf, ha⟩ :=
    pushLink_objs_steps (commitObj classes fuel) hist s s' a path ccls defaults childNames guards acts names os h
  rw [hp] at hr; cases hr
  refine ⟨p, os, hp, rfl, hlen, ?_⟩
  -- the children, one after the other
  have hkids : ∀ oi ∈ os.zipIdx, Holds classes fuel ccls (hist ++ [oi.2]) oi.1 s2.root := by
    refine foldlM_forward (fun (st : Sections) (oi : Val × Nat) => commitObj classes fuel ccls (hist ++ [oi.2]) oi.1 st)
      (fun oi st => Holds classes fuel ccls (hist ++ [oi.2]) oi.1 st.root) (fun oi => oi.2) os.zipIdx ?_ ?_ ?_ s1 s2 hf
    · rw [List.zipIdx_map_snd]; exact List.nodup_range' 1
    · intro x _ t t' ht
      exact hchild x.2 x.1 t t' ht
    · intro x _ y _ hne t t' ht hy
      refine commitObj_inv _ classes fuel ccls (hist ++ [x.2]) x.1 t t' ht ?_ hy
      intro w hw'
      obtain ⟨r, rfl⟩ := foot_below classes fuel ccls path hist x.2 x.1 p hp hnest w hw'
      refine holds_pres classes fuel ccls path hist y.2 y.1 p _ hp hnest ?_
      intro r'
      have := diverge_sibling p x.2 y.2 r r' (fun e => hne e.symm)
      simpa using this
  intro oi hoi
  refine applyActs_inv _ acts (dropLastStep p) names ?_ s2 s' ha (hkids oi hoi)
  intro act hact
  exact holds_pres classes fuel ccls path hist oi.2 oi.1 p _ hp hnest
    (away_of_diverge _ _ (diverge_append_right _ p _ (hactd act hact)))

/-! ### the commit of an object establishes `Holds` -/

/-- static: what the push of one link needs of the link itself -/
def ownSafe (classes : List ClassSpec) (fuel k : Nat) (rec : Nat → Nat → Bool) : LinkKind → Bool
  | .plain path acts _ => acts.all (fun x => PDiverge (destPPath path x.dest) path)
  | .objs path ccls _ _ _ acts _ =>
    wellNested classes fuel ccls path k && acts.all (fun x => PDiverge (destPPath path x.dest) path) && rec ccls (k + 1)
  | _ => true

/-- static: every link stays away from the retrievers of the links declared after it (= pushed before it) -/
def awayAll (classes : List ClassSpec) (fuel k : Nat) : List (Nat × LinkKind) → Bool
  | [] => true
  | x :: suf =>
    suf.all (fun y => match pathOf y.2 with
      | some path => linkAway classes fuel k path x.2
      | none => true) && awayAll classes fuel k suf

/-- the decidable check on a generated class table under which `commit` establishes `Holds` -/
def tableSafe (classes : List ClassSpec) : Nat → Nat → Nat → Bool
  | 0, _, _ => true
  | fuel + 1, cls, k =>
    match classes[cls]? with
    | none => true
    | some c => c.links.all (fun l => ownSafe classes fuel k (tableSafe classes fuel) l.2) && awayAll classes fuel k c.links

theorem links_hold (classes : List ClassSpec) (fuel : Nat) (hist : List Nat)
    (hchild : ∀ ccls, tableSafe classes fuel ccls (hist.length + 1) = true →
      ∀ h o t t', h.length = hist.length + 1 → commitObj classes fuel ccls h o t = .ok t' → Holds classes fuel ccls h o t'.root)
    (ls : List (Nat × LinkKind)) :
    ∀ (vs : List Val) (s s' : Sections),
      (∀ l ∈ ls, ownSafe classes fuel hist.length (tableSafe classes fuel) l.2 = true) →
      awayAll classes fuel hist.length ls = true →
      (ls.zip vs).reverse.foldlM (pushLink (commitObj classes fuel) hist) s = .ok s' →
      ∀ lv ∈ ls.zip vs, linkHolds (Holds classes fuel) hist lv s'.root := by
  induction ls with
  | nil => intro vs s s' _ _ _ lv hlv; simp at hlv
  | cons x ls ih =>
    intro vs s s' hown haway h
    cases vs with
    | nil => intro lv hlv; simp at hlv
    | cons v vs =>
      simp only [List.zip_cons_cons, List.reverse_cons] at h
      rw [List.foldlM_append] at h
      simp only [bind, Except.bind] at h
      cases hA : (ls.zip vs).reverse.foldlM (pushLink (commitObj classes fuel) hist) s with
      | error e => rw [hA] at h; cases h
      | ok sA =>
        rw [hA] at h
        simp only [List.foldlM, bind, Except.bind] at h
        cases hB : pushLink (commitObj classes fuel) hist sA (x, v) with
        | error e => rw [hB] at h; cases h
        | ok sB =>
          rw [hB] at h
          simp only [pure, Except.pure, Except.ok.injEq] at h
          subst h
          simp only [awayAll, Bool.and_eq_true] at haway
          have ihL := ih vs s sA (fun l hl => hown l (by simp [hl])) haway.2 hA
          have hx := hown x (by simp)
          intro lv hlv
          simp only [List.zip_cons_cons, List.mem_cons] at hlv
          rcases hlv with rfl | hlv
          · -- the link that was pushed last establishes its own fact
            obtain ⟨a, k⟩ := x
            cases k with
            | hist n => simp [linkHolds]
            | skip => simp [linkHolds]
            | plain path acts names =>
              simp only [ownSafe] at hx
              simp only [linkHolds]
              simp only [pushLink, bind, Except.bind] at hB
              cases hr : resolve hist path with
              | none => simp [hr] at hB
              | some p =>
                simp only [hr, pure, Except.pure] at hB
                refine ⟨p, rfl, ?_⟩
                cases hw : (setAt p sA.root v).bind sA.withRoot with
                | none => simp [hw] at hB
                | some s1 =>
                  simp only [hw] at hB
                  have hq1 : getAt p s1.root = some v := by
                    cases hs : setAt p sA.root v with
                    | none => simp [hs, Option.bind] at hw
                    | some r =>
                      simp only [hs, Option.bind] at hw
                      rw [(withRoot_some sA s1 r hw).1]
                      exact get_set p sA.root v r hs
                  refine applyActs_inv (fun t => getAt p t = some v) acts (dropLastStep p) names ?_ s1 sB hB hq1
                  intro act hact
                  exact pres_of_diverge p _ _ (resolve_diverge hist _ path _ p (resolve_dest hist path p act.dest hr) hr
                          (List.all_eq_true.mp hx act hact))
            | objs path ccls defaults childNames guards acts names =>
              simp only [ownSafe, Bool.and_eq_true] at hx
              obtain ⟨⟨hnest, hacts⟩, hrec⟩ := hx
              cases v with
              | list os =>
                cases hr : resolve hist path with
                | none => simp [pushLink, hr, bind, Except.bind] at hB
                | some p =>
                  refine pushLink_objs_holds classes fuel hist sA sB a path ccls defaults childNames guards acts names os p hr
                    hnest hacts ?_ hB
                  intro i o t t' ht
                  exact hchild ccls hrec (hist ++ [i]) o t t' (by simp) ht
              | _ =>
                simp only [pushLink, bind, Except.bind] at hB
                cases hr : resolve hist path with
                | none => simp [hr] at hB
                | some p => simp [hr, pure, Except.pure] at hB
          · -- the links pushed before keep theirs: the new push stays away from their retrievers
            have hold := ihL lv hlv
            have hlin : lv.1 ∈ ls := (List.of_mem_zip hlv).1
            have hnest : nestOk classes fuel hist.length lv.1.2 = true := by
              have := hown lv.1 (by simp [hlin])
              obtain ⟨⟨a', k'⟩, v'⟩ := lv
              cases k' <;> simp_all [nestOk, ownSafe]
            refine pushLink_inv _ (commitObj classes fuel) (foot classes fuel) ?_ hist sA sB (x, v) hB ?_ hold
            · intro cc hh o u u' hu hpres hQu
              exact commitObj_inv _ classes fuel cc hh o u u' hu hpres hQu
            · have haw := List.all_eq_true.mp haway.1 lv.1 hlin
              -- the resolved path of `lv` (it exists: the fact holds)
              obtain ⟨⟨a', k'⟩, v'⟩ := lv
              cases k' with
              | hist n => intro w _ t x' t' _ _; simp [linkHolds]
              | skip => intro w _ t x' t' _ _; simp [linkHolds]
              | plain path' acts' names' =>
                simp only [pathOf] at haw
                obtain ⟨p', hp', _⟩ := hold
                exact linkAway_pres classes fuel hist path' p' hp' _
                  (fun w hd => linkHolds_pres classes fuel hist _ hnest w
                    (fun pth q hpth hq => by simp only [pathOf, Option.some.injEq] at hpth; subst hpth; rw [hp'] at hq; cases hq; exact hd))
                  (x, v) haw
              | objs path' ccls' d' cn' g' acts' names' =>
                simp only [pathOf] at haw
                obtain ⟨p', os', hp', _⟩ := hold
                exact linkAway_pres classes fuel hist path' p' hp' _
                  (fun w hd => linkHolds_pres classes fuel hist _ hnest w
                    (fun pth q hpth hq => by simp only [pathOf, Option.some.injEq] at hpth; subst hpth; rw [hp'] at hq; cases hq; exact hd))
                  (x, v) haw

/-- **a successful commit leaves a tree that holds the object** (every class, any nesting, any values), for class
tables that pass the decidable check `tableSafe` -/
theorem commit_holds (classes : List ClassSpec) (fuel : Nat) :
    ∀ (cls : Nat) (hist : List Nat) (obj : Val) (s s' : Sections),
      tableSafe classes fuel cls hist.length = true →
      commitObj classes fuel cls hist obj s = .ok s' → Holds classes fuel cls hist obj s'.root := by
  induction fuel with
  | zero => intro cls hist obj s s' _ h; simp [commitObj] at h
  | succ fuel ih =>
    intro cls hist obj s s' hsafe h
    simp only [commitObj] at h
    simp only [Holds]
    cases hc : classes[cls]? with
    | none => simp [hc] at h
    | some c =>
      cases obj with
      | strct vals =>
        simp only [hc] at h ⊢
        simp only [tableSafe, hc, Bool.and_eq_true, List.all_eq_true] at hsafe
        refine links_hold classes fuel hist ?_ c.links vals s s' hsafe.1 hsafe.2 h
        intro ccls hts hh o t t' hlen ht
        exact ih ccls hh o t t' (by rw [hlen]; exact hts) ht
      | _ => simp [hc] at h

/-! ### from a tree that holds the object, `construct` returns the object (normalised) -/

/-- what `construct` hands the constructor for one link of an object that was committed -/
def normLink (N : Nat → List Nat → Val → Val) (hist : List Nat) (lv : (Nat × LinkKind) × Val) : Val :=
  match lv.1.2, lv.2 with
  | .hist k, _ => match hist[k]? with | some n => .int n | none => .none
  | .skip, _ => .none
  | .plain _ _ _, v => v
  | .objs _ ccls _ _ _ _ _, .list os => .list ((os.zipIdx).map (fun oi => N ccls (hist ++ [oi.2]) oi.1))
  | .objs _ _ _ _ _ _ _, v => v

/-- the object as `construct` returns it: index links read from the history, unsupported links `None` -/
def normalize (classes : List ClassSpec) : Nat → Nat → List Nat → Val → Val
  | 0, _, _, v => v
  | fuel + 1, cls, hist, obj =>
    match classes[cls]?, obj with
    | some c, .strct vals => .strct ((c.links.zip vals).map (normLink (normalize classes fuel) hist))
    | _, _ => obj

def linkWF (W : Nat → List Nat → Val → Prop) (hist : List Nat) (lv : (Nat × LinkKind) × Val) : Prop :=
  match lv.1.2, lv.2 with
  | .hist k, _ => k < hist.length
  | .objs _ ccls _ _ _ _ _, .list os => ∀ oi ∈ os.zipIdx, W ccls (hist ++ [oi.2]) oi.1
  | .objs _ _ _ _ _ _ _, _ => False
  | _, _ => True

/-- the object has one value per link, index links refer to the history, object lists hold well-formed objects -/
def WF (classes : List ClassSpec) : Nat → Nat → List Nat → Val → Prop
  | 0, _, _, _ => False
  | fuel + 1, cls, hist, obj =>
    match classes[cls]?, obj with
    | some c, .strct vals => vals.length = c.links.length ∧ ∀ lv ∈ c.links.zip vals, linkWF (WF classes fuel) hist lv
    | _, _ => False

theorem mapM_zip_ok {α β γ : Type} (f : α → Except Err γ) (g : α × β → γ) (ls : List α) :
    ∀ (vs : List β), ls.length = vs.length → (∀ lv ∈ ls.zip vs, f lv.1 = .ok (g lv)) →
      ls.mapM f = .ok ((ls.zip vs).map g) := by
  induction ls with
  | nil => intro vs _ _; simp [List.mapM_nil, pure, Except.pure]
  | cons x ls ih =>
    intro vs hl h
    cases vs with
    | nil => simp at hl
    | cons v vs =>
      have h1 := h (x, v) (by simp)
      have h2 := ih vs (by simpa using hl) (fun lv hlv => h lv (by simp [hlv]))
      simp only [List.mapM_cons, bind, Except.bind, h1, h2, pure, Except.pure, List.zip_cons_cons, List.map_cons]

theorem mapM_range'_zipIdx (f : Nat → Except Err Val) (G : Nat → Val → Val) (os : List Val) :
    ∀ (k : Nat), (∀ oi ∈ os.zipIdx k, f oi.2 = .ok (G oi.2 oi.1)) →
      (List.range' k os.length).mapM f = .ok ((os.zipIdx k).map (fun oi => G oi.2 oi.1)) := by
  induction os with
  | nil => intro k _; simp [List.mapM_nil, pure, Except.pure]
  | cons o os ih =>
    intro k h
    have h1 := h (o, k) (by simp [List.zipIdx_cons])
    have h2 := ih (k + 1) (fun oi hoi => h oi (by simp [List.zipIdx_cons, hoi]))
    simp only [List.length_cons, List.range'_succ, List.mapM_cons, bind, Except.bind, h1, h2, pure, Except.pure,
      List.zipIdx_cons, List.map_cons]

/-- **`construct` of a tree that holds the object returns the (normalised) object** -/
theorem construct_of_holds (classes : List ClassSpec) (fuel : Nat) :
    ∀ (cls : Nat) (hist : List Nat) (obj : Val) (s : Sections),
      WF classes fuel cls hist obj → Holds classes fuel cls hist obj s.root →
      constructObj classes fuel cls hist s = .ok (normalize classes fuel cls hist obj) := by
  induction fuel with
  | zero => intro cls hist obj s hwf; simp [WF] at hwf
  | succ fuel ih =>
    intro cls hist obj s hwf hH
    simp only [WF] at hwf
    simp only [Holds] at hH
    simp only [constructObj, normalize]
    cases hc : classes[cls]? with
    | none => simp [hc] at hwf
    | some c =>
      cases obj with
      | strct vals =>
        simp only [hc] at hwf hH ⊢
        obtain ⟨hlen, hwl⟩ := hwf
        have hm := mapM_zip_ok (pullLink (fun ccls h => constructObj classes fuel ccls h s) hist s)
          (normLink (normalize classes fuel) hist) c.links vals hlen.symm ?_
        · simp only [hm, bind, Except.bind, pure, Except.pure]
        · intro lv hlv
          have hw := hwl lv hlv
          have hh := hH lv hlv
          obtain ⟨⟨a, k⟩, v⟩ := lv
          cases k with
          | hist n =>
            simp only [linkWF] at hw
            have : hist[n]? = some hist[n] := List.getElem?_eq_getElem hw
            simp [pullLink, normLink, this, pure, Except.pure]
          | skip => simp [pullLink, normLink, pure, Except.pure]
          | plain path acts names =>
            simp only [linkHolds] at hh
            obtain ⟨p, hp, hg⟩ := hh
            simp only [pullLink, normLink, hp, Option.bind, hg, pure, Except.pure]
          | objs path ccls defaults childNames guards acts names =>
            simp only [linkHolds] at hh
            obtain ⟨p, os, hp, hv, ⟨l, hg, hll⟩, hch⟩ := hh
            subst hv
            simp only [linkWF] at hw
            have hkids := mapM_range'_zipIdx (fun i => constructObj classes fuel ccls (hist ++ [i]) s)
              (fun i o => normalize classes fuel ccls (hist ++ [i]) o) os 0 ?_
            · simp only [pullLink, hp, Option.bind, hg, List.range_eq_range', hll, bind, Except.bind, normLink]
              rw [hkids]
              simp [pure, Except.pure]
            · intro oi hoi
              exact ih ccls (hist ++ [oi.2]) oi.1 s (hw oi hoi) (hch oi hoi)
      | _ => simp [hc] at hwf

/-- **construct ∘ commit** (C03, manager level, engine part): committing an object and constructing it again from the
resulting sections returns the object - with its index links read from the history and the links the version lacks `None` -
for every class of a `tableSafe` table, any nesting and any values -/
theorem construct_after_commit (classes : List ClassSpec) (fuel cls : Nat) (hist : List Nat) (obj : Val) (s s' : Sections)
    (hsafe : tableSafe classes fuel cls hist.length = true) (hwf : WF classes fuel cls hist obj)
    (h : commitObj classes fuel cls hist obj s = .ok s') :
    constructObj classes fuel cls hist s' = .ok (normalize classes fuel cls hist obj) :=
  construct_of_holds classes fuel cls hist obj s' hwf (commit_holds classes fuel cls hist obj s s' hsafe h)

/-! ### every object that `construct` returns is well-formed and already normalised -/

theorem mapM_length {α β : Type} (f : α → Except Err β) (l : List α) (vs : List β) (h : l.mapM f = .ok vs) :
    vs.length = l.length := by
  induction l generalizing vs with
  | nil => simp only [List.mapM_nil, pure, Except.pure, Except.ok.injEq] at h; subst h; rfl
  | cons a l ih =>
    rw [List.mapM_cons] at h
    simp only [bind, Except.bind] at h
    cases ha : f a with
    | error e => rw [ha] at h; cases h
    | ok b =>
      rw [ha] at h; simp only at h
      cases hl : l.mapM f with
      | error e => rw [hl] at h; cases h
      | ok bs =>
        rw [hl] at h
        simp only [pure, Except.pure, Except.ok.injEq] at h
        subst h
        simp [ih bs hl]

theorem map_zipIdx_id (G : Nat → Val → Val) (os : List Val) :
    ∀ (k : Nat), (∀ oi ∈ os.zipIdx k, G oi.2 oi.1 = oi.1) → (os.zipIdx k).map (fun oi => G oi.2 oi.1) = os := by
  induction os with
  | nil => intro k _; simp
  | cons o os ih =>
    intro k h
    have h1 := h (o, k) (by simp [List.zipIdx_cons])
    have h2 := ih (k + 1) (fun oi hoi => h oi (by simp [List.zipIdx_cons, hoi]))
    simp only [List.zipIdx_cons, List.map_cons, h2]
    simp only at h1
    rw [h1]

/-- **what `construct` returns is well-formed and a fixed point of `normalize`**: the hypotheses of
`construct_after_commit` are met by every object that was loaded -/
theorem construct_wf (classes : List ClassSpec) (fuel : Nat) :
    ∀ (cls : Nat) (hist : List Nat) (s : Sections) (obj : Val),
      constructObj classes fuel cls hist s = .ok obj →
      WF classes fuel cls hist obj ∧ normalize classes fuel cls hist obj = obj := by
  induction fuel with
  | zero => intro cls hist s obj h; simp [constructObj] at h
  | succ fuel ih =>
    intro cls hist s obj h
    simp only [constructObj] at h
    cases hc : classes[cls]? with
    | none => simp [hc] at h
    | some c =>
      simp only [hc, bind, Except.bind] at h
      cases hm : c.links.mapM (pullLink (fun ccls h => constructObj classes fuel ccls h s) hist s) with
      | error e => rw [hm] at h; cases h
      | ok vals =>
        rw [hm] at h
        simp only [pure, Except.pure, Except.ok.injEq] at h
        subst h
        have hlen := mapM_length _ c.links vals hm
        have hz := mapM_zip _ c.links vals hm
        have key : ∀ lv ∈ c.links.zip vals,
            linkWF (WF classes fuel) hist lv ∧ normLink (normalize classes fuel) hist lv = lv.2 := by
          intro lv hlv
          have hp := hz lv hlv
          obtain ⟨⟨a, k⟩, v⟩ := lv
          cases k with
          | hist n =>
            simp only [pullLink] at hp
            cases hn : hist[n]? with
            | none => simp [hn] at hp
            | some m =>
              simp only [hn, pure, Except.pure, Except.ok.injEq] at hp
              subst hp
              have hlt : n < hist.length := by
                rcases List.getElem?_eq_some_iff.mp hn with ⟨h', _⟩; exact h'
              exact ⟨by simpa [linkWF] using hlt, by simp [normLink, hn]⟩
          | skip =>
            simp only [pullLink, pure, Except.pure, Except.ok.injEq] at hp
            subst hp
            exact ⟨by simp [linkWF], by simp [normLink]⟩
          | plain path acts names => exact ⟨by simp [linkWF], by simp [normLink]⟩
          | objs path ccls defaults childNames guards acts names =>
            simp only [pullLink] at hp
            cases hg : (resolve hist path).bind (fun p => getAt p s.root) with
            | none => simp [hg] at hp
            | some x =>
              cases x with
              | list l =>
                simp only [hg, bind, Except.bind] at hp
                cases hk : (List.range l.length).mapM (fun i => constructObj classes fuel ccls (hist ++ [i]) s) with
                | error e => rw [hk] at hp; cases hp
                | ok os =>
                  rw [hk] at hp
                  simp only [pure, Except.pure, Except.ok.injEq] at hp
                  subst hp
                  rw [List.range_eq_range'] at hk
                  have hget := mapM_range'_get _ 0 l.length os hk
                  have hkid : ∀ oi ∈ os.zipIdx, WF classes fuel ccls (hist ++ [oi.2]) oi.1 ∧
                      normalize classes fuel ccls (hist ++ [oi.2]) oi.1 = oi.1 := by
                    intro oi hoi
                    obtain ⟨o, i⟩ := oi
                    obtain ⟨hi, ho⟩ := List.mem_zipIdx' hoi
                    have := hget i o (by rw [ho]; exact List.getElem?_eq_getElem hi)
                    simp only [Nat.zero_add] at this
                    exact ih ccls (hist ++ [i]) s o this
                  refine ⟨by simp only [linkWF]; exact fun oi hoi => (hkid oi hoi).1, ?_⟩
                  simp only [normLink]
                  congr 1
                  exact map_zipIdx_id (fun i o => normalize classes fuel ccls (hist ++ [i]) o) os 0
                    (fun oi hoi => (hkid oi hoi).2)
              | _ => simp [hg] at hp
        refine ⟨?_, ?_⟩
        · simp only [WF, hc]
          exact ⟨hlen, fun lv hlv => (key lv hlv).1⟩
        · simp only [normalize, hc]
          congr 1
          have : ∀ (ls : List (Nat × LinkKind)) (vs : List Val), ls.length = vs.length →
              (∀ lv ∈ ls.zip vs, normLink (normalize classes fuel) hist lv = lv.2) →
              (ls.zip vs).map (normLink (normalize classes fuel) hist) = vs := by
            intro ls
            induction ls with
            | nil => intro vs hl _; cases vs <;> simp at hl ⊢
            | cons x ls ihl =>
              intro vs hl hh
              cases vs with
              | nil => simp at hl
              | cons v vs =>
                simp only [List.zip_cons_cons, List.map_cons]
                rw [hh (x, v) (by simp), ihl vs (by simpa using hl) (fun lv hlv => hh lv (by simp [hlv]))]
          exact this c.links vals hlen.symm (fun lv hlv => (key lv hlv).2)

/-- **load, save, load**: an object that was constructed (from any sections `s0`), committed (onto any sections `s`) and
constructed again is the same object -/
theorem construct_commit_construct (classes : List ClassSpec) (fuel cls : Nat) (hist : List Nat) (s0 s s' : Sections) (obj : Val)
    (hsafe : tableSafe classes fuel cls hist.length = true)
    (hc : constructObj classes fuel cls hist s0 = .ok obj)
    (h : commitObj classes fuel cls hist obj s = .ok s') :
    constructObj classes fuel cls hist s' = .ok obj := by
  obtain ⟨hwf, hn⟩ := construct_wf classes fuel cls hist s0 obj hc
  rw [construct_after_commit classes fuel cls hist obj s s' hsafe hwf h, hn]

/-! ### the manager-level statement of C03, modulo the per-class reconstruction hooks

What an object hands to `push` (`getattr(obj, link.name)` after the commit callback) and what its constructor makes of the
pulled values are per-class Python (`Effect.quantity`, `PlayerManager._player_attributes_to_list`, …) - a *hook*. The
engine theorem reduces "what you set is what you get after save and re-load" to one law per hook. -/

/-- a class's reconstruction hook: API-level object ↔ the values the link engine pushes / pulls -/
structure Hook (Obj : Type) where
  toVal : Obj → Val
  ofVal : Val → Option Obj

/-- the law a hook has to satisfy: its values are well-formed and the constructor inverts the reconstruction on the
normalised values -/
def Hook.Law {Obj : Type} (H : Hook Obj) (classes : List ClassSpec) (fuel cls : Nat) (hist : List Nat) : Prop :=
  ∀ o : Obj, WF classes fuel cls hist (H.toVal o) ∧ H.ofVal (normalize classes fuel cls hist (H.toVal o)) = some o

/-- **what you set is what you get** after commit and construct, for every class whose hook satisfies its law -/
theorem manager_roundtrip {Obj : Type} (H : Hook Obj) (classes : List ClassSpec) (fuel cls : Nat) (hist : List Nat)
    (hsafe : tableSafe classes fuel cls hist.length = true) (hlaw : H.Law classes fuel cls hist)
    (o : Obj) (s s' : Sections) (h : commitObj classes fuel cls hist (H.toVal o) s = .ok s') :
    (constructObj classes fuel cls hist s').toOption.bind H.ofVal = some o := by
  obtain ⟨hwf, hinv⟩ := hlaw o
  rw [construct_after_commit classes fuel cls hist (H.toVal o) s s' hsafe hwf h]
  simpa [Except.toOption] using hinv

/-- non-vacuity of the hook law: a one-attribute hook on the demo class of `Aoe.Props.Links` -/
def demoHook : Hook Int :=
  { toVal := fun a => .strct [.int a, .int 0, .none, .str [0x62]],
    ofVal := fun v => match v with | .strct (.int a :: _) => some a | _ => none }

example : tableSafe demoClasses 2 0 1 = true := by decide
example : demoHook.Law demoClasses 2 0 [5] := by
  intro a
  refine ⟨?_, ?_⟩
  · simp only [WF, demoClasses, demoHook, List.getElem?_cons_zero]
    refine ⟨by simp, ?_⟩
    intro lv hlv
    simp only [List.zip_cons_cons, List.zip_nil_right, List.mem_cons, List.not_mem_nil, or_false] at hlv
    rcases hlv with rfl | rfl | rfl | rfl <;> simp [linkWF]
  · simp [normalize, demoClasses, demoHook, normLink]

/-! non-vacuity: a two-level demo table (a manager with a counted list of children) -/
def demo3Classes : List ClassSpec :=
  [{ name := 0, links := [
      (0, .plain [.fld 0, .fld 0] [] [10, 11, 12]),
      (1, .objs [.fld 0, .fld 2] 1 [.int 0, .int 0] [20, 21] [] [{ dest := .self 1, expr := .len (.ref (.self 12)) }] [10, 11, 12])] },
   { name := 1, links := [
      (2, .hist 0),
      (3, .plain [.fld 0, .fld 2, .hidx 0, .fld 0] [] [20, 21]),
      (4, .plain [.fld 0, .fld 2, .hidx 0, .fld 1] [] [20, 21])] }]
def demo3Secs : Sections :=
  { names := [(1, [10, 11, 12])], recs := [.strct [.int 7, .int 1, .list [.strct [.int 5, .int 6]]]] }
def demo3Obj : Val := .strct [.int 8, .list [.strct [.int 99, .int 1, .int 2], .strct [.int 99, .int 3, .int 4]]]

example : tableSafe demo3Classes 3 0 0 = true := by decide
example : WF demo3Classes 3 0 [] demo3Obj := by
  simp only [WF, demo3Classes, demo3Obj]
  refine ⟨by decide, ?_⟩
  intro lv hlv
  simp only [List.zip_cons_cons, List.zip_nil_right, List.mem_cons, List.not_mem_nil, or_false] at hlv
  rcases hlv with rfl | rfl
  · simp [linkWF]
  · simp only [linkWF]
    intro oi hoi
    simp only [List.zipIdx_cons, List.zipIdx_nil, List.mem_cons, List.not_mem_nil, or_false] at hoi
    rcases hoi with rfl | rfl <;>
    · simp only [List.getElem?_cons_succ, List.getElem?_cons_zero]
      refine ⟨by decide, ?_⟩
      intro lv hlv
      simp only [List.zip_cons_cons, List.zip_nil_right, List.mem_cons, List.not_mem_nil, or_false] at hlv
      rcases hlv with rfl | rfl | rfl <;> simp
example : (commitObj demo3Classes 3 0 [] demo3Obj demo3Secs).toOption.isSome = true := by decide
example : (commitObj demo3Classes 3 0 [] demo3Obj demo3Secs >>= fun s' => constructObj demo3Classes 3 0 [] s') =
    .ok (.strct [.int 8, .list [.strct [.int 0, .int 1, .int 2], .strct [.int 1, .int 3, .int 4]]]) := by rfl

end Aoe.Props.CommitHolds
