import Aoe.Props.Codec
/-!
# C12 – unrepresentable values are rejected, never silently corrupted

Leaf level: an encoder succeeds exactly on the representable values and then emits exactly the field's width; the
decode-after-encode law (`Aoe.Props.Codec.parse_serialize`) then says a successful save re-loads to the same values
and no field spills into its neighbours (the decoder is handed `b ++ rest` and returns `rest` untouched).

The originally pinned code checked fixed-width strings (`cN`) by CHARACTER count (`len(val) > var_len`) – multi-byte text
passed the guard and overflowed the field (defect F9, re-found by this check and repaired): `encChars_pinned_counter`.
`encChars true` is the byte-length guard the repaired code uses.
-/
namespace Aoe.Props.C12
open Aoe Aoe.Bytes Aoe.Codec

/-- unsigned integers: accepted iff `0 ≤ v < 256^n` -/
theorem encUInt_ok_iff (n : Nat) (v : Int) :
    (∃ b, encUInt n v = .ok b) ↔ (0 ≤ v ∧ v < ((256 ^ n : Nat) : Int)) := by
  unfold encUInt
  constructor
  · intro ⟨b, h⟩; split at h
    · assumption
    · cases h
  · intro h; exact ⟨_, by rw [if_pos h]⟩

/-- signed integers: accepted iff `-256^n/2 ≤ v < 256^n/2` -/
theorem encSInt_ok_iff (n : Nat) (v : Int) :
    (∃ b, encSInt n v = .ok b) ↔ (-((256 ^ n / 2 : Nat) : Int) ≤ v ∧ v < ((256 ^ n / 2 : Nat) : Int)) := by
  unfold encSInt
  constructor
  · intro ⟨b, h⟩; split at h
    · assumption
    · cases h
  · intro h; exact ⟨_, by rw [if_pos h]⟩

/-- an accepted integer occupies exactly its `n` bytes and decodes to itself: nothing is wrapped or truncated -/
theorem int_exact (n : Nat) (v : Int) (b : Bytes) :
    (encUInt n v = .ok b → b.length = n ∧ decUInt b = v) ∧ (encSInt n v = .ok b → b.length = n ∧ decSInt b = v) :=
  ⟨fun h => ⟨(decUInt_encUInt n v b h).2, (decUInt_encUInt n v b h).1⟩,
   fun h => ⟨(decSInt_encSInt n v b h).2, (decSInt_encSInt n v b h).1⟩⟩

/-- length-prefixed strings: accepted iff the payload length (terminator included) fits the signed prefix -/
theorem encPStr_ok_iff (w : Nat) (trail : Bool) (s : Bytes) :
    (∃ b, encPStr w trail s = .ok b) ↔ ((strPayload trail s).length : Int) < ((256 ^ w / 2 : Nat) : Int) := by
  unfold encPStr
  constructor
  · intro ⟨b, h⟩
    simp only [bind, Except.bind] at h
    cases e : encSInt w (strPayload trail s).length with
    | error x => rw [e] at h; cases h
    | ok p => exact ((encSInt_ok_iff w _).mp ⟨p, e⟩).2
  · intro h
    have : ∃ p, encSInt w (strPayload trail s).length = .ok p :=
      (encSInt_ok_iff w _).mpr ⟨by omega, h⟩
    obtain ⟨p, hp⟩ := this
    exact ⟨p ++ strPayload trail s, by simp [hp, bind, Except.bind, pure, Except.pure]⟩

/-- an accepted string is stored as prefix + payload, the prefix holding exactly the payload's length -/
theorem encPStr_layout (w : Nat) (trail : Bool) (s : Bytes) (b : Bytes) (h : encPStr w trail s = .ok b) :
    ∃ pre, b = pre ++ strPayload trail s ∧ pre.length = w ∧ decSInt pre = (strPayload trail s).length := by
  unfold encPStr at h
  simp only [bind, Except.bind] at h
  cases e : encSInt w (strPayload trail s).length with
  | error x => rw [e] at h; cases h
  | ok p =>
    rw [e] at h
    simp only [pure, Except.pure, Except.ok.injEq] at h
    have d := decSInt_encSInt w _ p e
    exact ⟨p, h.symm, d.2, d.1⟩

/-- fixed-width strings (the code after the repair of F9: byte-length guard): accepted iff the ENCODED length fits … -/
theorem encChars_ok_iff (n : Nat) (s : Bytes) : (∃ b, encChars true n s = .ok b) ↔ s.length ≤ n := by
  unfold encChars
  simp only [if_true]
  constructor
  · intro ⟨b, h⟩
    by_cases hc : s.length > n
    · rw [if_pos hc] at h; cases h
    · omega
  · intro h; exact ⟨_, by rw [if_neg (by omega)]⟩

/-- … and an accepted one occupies exactly its `n` bytes -/
theorem encChars_exact (n : Nat) (s b : Bytes) (h : encChars true n s = .ok b) : b.length = n := by
  unfold encChars at h
  simp only [if_true] at h
  by_cases hc : s.length > n
  · rw [if_pos hc] at h; cases h
  · rw [if_neg hc] at h
    simp only [Except.ok.injEq] at h; subst h; simp; omega

/-- the originally pinned guard (character count) was exact only within the byte budget … -/
theorem encChars_pinned_exact_partial (n : Nat) (s b : Bytes) (hl : s.length ≤ n) (h : encChars false n s = .ok b) :
    b.length = n := by
  unfold encChars at h
  simp only [Bool.false_eq_true, if_false] at h
  by_cases hc : charCount s > n
  · rw [if_pos hc] at h; cases h
  · rw [if_neg hc] at h
    simp only [Except.ok.injEq] at h; subst h; simp; omega

/-- … the full statement was FALSE for it: two 2-byte characters in a 3-byte field passed the guard and produced 4
bytes (defect F9, repaired by a `fix:` commit; kept as the witness the check re-found) -/
theorem encChars_pinned_counter : ∃ b, encChars false 3 [0xC3, 0xA9, 0xC3, 0xA9] = .ok b ∧ b.length = 4 :=
  ⟨[0xC3, 0xA9, 0xC3, 0xA9], by rfl, rfl⟩

/-- no spill, whole file: a save that succeeds on a consistent tree re-loads to the same integers and strings, every
field occupying exactly its own extent (the decoder returns exactly the bytes that followed the field) -/
theorem save_ok_reloads_equal (t : Table) (tr : Tree) (hb bb z : Bytes) (hc : Consistent t tr)
    (h1 : serializeHeader t tr = .ok hb) (h2 : serializeBody t tr = .ok bb) :
    parseHeader t (hb ++ z) = .ok (tr.header, z) ∧ parseBody t tr.header bb = .ok (tr.body, .list [], []) :=
  Aoe.Props.Codec.parse_serialize t tr hb bb z hc h1 h2

/-- no spill, one field: whatever follows a field's bytes is handed on untouched -/
theorem field_no_spill (c : ICodec) (γ : Env) (v : Val) (b rest : Bytes) (hok : c.ok γ v) (h : c.enc v = .ok b) :
    c.dec γ (b ++ rest) = .ok (v, rest) := c.dec_enc γ v b rest hok h

/-! ### non-vacuity -/
example : (∃ b, encUInt 1 255 = .ok b) ∧ ¬ (∃ b, encUInt 1 256 = .ok b) ∧ ¬ (∃ b, encSInt 1 128 = .ok b) := by
  refine ⟨(encUInt_ok_iff 1 255).mpr (by decide), fun h => ?_, fun h => ?_⟩
  · have := (encUInt_ok_iff 1 256).mp h; revert this; decide
  · have := (encSInt_ok_iff 1 128).mp h; revert this; decide
example : encChars true 3 [0xC3, 0xA9, 0xC3, 0xA9] = .error .value := by rfl
example : encChars true 3 [0x61] = .ok [0x61, 0, 0] := by rfl

end Aoe.Props.C12
