import Aoe.Lemmas.TrigFuel
/-!
# C06 – trigger links survive every structural operation

Model: `Aoe.Model.Trig` (the trigger manager as it is on the pinned tree; `Fix` selects the repaired behaviour of the two
recorded defects). Vocabulary (defined in `Aoe/Lemmas`):

* `Inv tm` – every trigger's id equals its position, the stored display order is a permutation (of all current ids as
  soon as the getter has been called), identities are unique;
* `ref tm e` – the identity of the trigger an activation effect designates (`none`: -1 or dangling);
* `Hist fx tm ops tm'` – `ops` is a history of structural operations with in-domain arguments (`InDom`: ids handed to
  move / reorder / remove do not repeat, a reorder argument is a permutation of all ids, the group-by step of
  `copy_trigger_tree_per_player` gets duplicate-free ids) that ran from `tm` to `tm'` without an exception;
  `Hist.run_eq` ties it to the executable `run`.

Everything is proved for all trigger counts, all activation graphs, all display orders and all histories (induction over
the operation list); nothing is bounded.
-/
namespace Aoe.Props.C06
open Aoe.Trig List

/-! ## clauses 1 and 2: ids are positions, the display order is a permutation -/

/-- the empty manager is in the invariant -/
theorem inv_empty : Inv TM.empty :=
  { ids := fun i t h => by simp [TM.empty] at h
    order := ⟨0, ⟨by simp [TM.empty], by simp [TM.empty]⟩, fun _ => rfl⟩
    uniq := by simp [uids, TM.empty]
    fresh := by simp [uids, TM.empty]
    hfresh := by simp [TM.empty] }

/-- every structural operation (all twelve commands of the model, each with every in-domain argument) keeps the
invariant -/
theorem inv_step {fx : Fix} {tm tm' : TM} {op : Op} {r : Ret} (hi : Inv tm) (hd : InDom fx tm op)
    (h : step fx tm op = .ok (tm', r)) : Inv tm' :=
  (step_good (c := false) hi hd (fun h => by cases h) h).inv

/-- … hence every history does -/
theorem inv_run {fx : Fix} {tm tm' : TM} {ops : List Op} (hi : Inv tm) (h : Hist fx tm ops tm') : Inv tm' :=
  (hist_good (c := false) (fun h => by cases h) hi h).inv

/-- **clause 1**: after any history every trigger's id equals its position in the trigger list -/
theorem ids_are_positions {fx : Fix} {tm tm' : TM} {ops : List Op} (hi : Inv tm) (h : Hist fx tm ops tm')
    (i : Nat) (t : Trig) (ht : tm'.trigs[i]? = some t) : t.tid = i :=
  (inv_run hi h).ids i t ht

/-- **clause 2**: after any history the display order (what the getter returns) is a permutation of all trigger ids -/
theorem display_order_is_perm {fx : Fix} {tm tm' : TM} {ops : List Op} (hi : Inv tm) (h : Hist fx tm ops tm') :
    ∃ D, displayOrder tm' = .ok D ∧ D.Perm (range tm'.trigs.length) := by
  obtain ⟨o, h1, h2, _⟩ := readOrder_inv (inv_run hi h)
  exact ⟨o, by simp [displayOrder, h1, Except.map], isPerm_iff_perm.1 h2⟩

/-- identities stay unique (no trigger object occurs twice in the list) -/
theorem identities_unique {fx : Fix} {tm tm' : TM} {ops : List Op} (hi : Inv tm) (h : Hist fx tm ops tm') :
    (uids tm').Nodup :=
  (inv_run hi h).uniq

/-! ## clause 3: links to triggers that still exist designate the same trigger -/

/-- the effect lists of a trigger that exists before and after a history have the same length, the same kinds, and
effects other than (de)activate keep their `trigger_id` -/
theorem effects_frame {fx : Fix} {tm tm' : TM} {ops : List Op} (hi : Inv tm) (h : Hist fx tm ops tm')
    {t t' : Trig} (ht : t ∈ tm.trigs) (ht' : t' ∈ tm'.trigs) (hu : t'.uid = t.uid) :
    t'.effs.length = t.effs.length ∧
      ∀ (j : Nat) (e e' : Eff), t.effs[j]? = some e → t'.effs[j]? = some e' → e'.kind = e.kind ∧ (e.isAct = false → e' = e) := by
  obtain ⟨l, r⟩ := (hist_good (c := false) (fun h => by cases h) hi h).step.link t ht t' ht' hu
  exact ⟨l, fun j e e' he he' => ⟨(r j e e' he he').1, (r j e e' he he').2.1⟩⟩

/-- **clause 3**: after any history, every activate/deactivate effect that referred to a trigger `u` that still exists
refers to that same trigger (whatever happened to positions in between) -/
theorem link_preserved {fx : Fix} {tm tm' : TM} {ops : List Op} (hi : Inv tm) (h : Hist fx tm ops tm')
    {t t' : Trig} (ht : t ∈ tm.trigs) (ht' : t' ∈ tm'.trigs) (hu : t'.uid = t.uid)
    {j : Nat} {e e' : Eff} (he : t.effs[j]? = some e) (he' : t'.effs[j]? = some e') (ha : e.isAct = true)
    {u : Nat} (hr : ref tm e = some u) (hstill : u ∈ uids tm') : ref tm' e' = some u := by
  obtain ⟨_, r⟩ := (hist_good (c := false) (fun h => by cases h) hi h).step.link t ht t' ht' hu
  exact (((r j e e' he he').2.2 ha).2 u hr).1 hstill

/-- an unset link (-1) stays unset -/
theorem unset_stays_unset {fx : Fix} {tm tm' : TM} {ops : List Op} (hi : Inv tm) (h : Hist fx tm ops tm')
    {t t' : Trig} (ht : t ∈ tm.trigs) (ht' : t' ∈ tm'.trigs) (hu : t'.uid = t.uid)
    {j : Nat} {e e' : Eff} (he : t.effs[j]? = some e) (he' : t'.effs[j]? = some e') (ha : e.isAct = true)
    (hn : e.target = none) : e'.target = none := by
  obtain ⟨_, r⟩ := (hist_good (c := false) (fun h => by cases h) hi h).step.link t ht t' ht' hu
  exact ((r j e e' he he').2.2 ha).1 hn

/-! ## clause 4: the copies of a trigger tree refer to the copies, not to the originals -/

/-- **clause 4** (`copy_trigger_tree`, pinned and repaired tree search alike): there is a node list `known` (the tree,
in search order) such that the originals are untouched (their effects included), exactly one copy per listed node is
appended – the copy of `known[i]` at position `n + i`, returned as `news[i]` – and every activate/deactivate effect of a
copy whose source effect pointed at trigger `k'` points at position `n + i'` with `known[i'] = k'`, i.e. at the copy of
`k'`; never at an original (`n + i' ≥ n`). Other effects are copied verbatim. -/
theorem tree_copy_closed {fixed : Bool} {tm tm' : TM} {s : Sel} {news : List Nat} (hi : Inv tm)
    (h : copyTree fixed tm s = .ok (tm', news)) :
    ∃ known : List Nat, (∀ k ∈ known, k < tm.trigs.length) ∧ news.length = known.length ∧
      tm'.trigs.take tm.trigs.length = tm.trigs ∧ tm'.trigs.length = tm.trigs.length + known.length ∧
      ∀ (i k : Nat), known[i]? = some k → ∃ src c, tm.trigs[k]? = some src ∧
        tm'.trigs[tm.trigs.length + i]? = some c ∧ news[i]? = some c.uid ∧ c.effs.length = src.effs.length ∧
        ∀ (j : Nat) (e e' : Eff), src.effs[j]? = some e → c.effs[j]? = some e' →
          e'.kind = e.kind ∧ (e.isAct = false → e' = e) ∧
          (e.isAct = true → ∃ k' i', e.target = some k' ∧ known[i']? = some k' ∧ e'.target = some (tm.trigs.length + i')) :=
  copyTree_shape hi h

/-- the fuel of the modelled tree search (`len(triggers) + 2`) is never exhausted: the model's recursion ends for the
same reason the Python recursion does (every level below the root visits a new valid index) -/
theorem tree_search_fuel_suffices {fixed : Bool} {tm : TM} {f : Found} : treeNodes fixed tm f ≠ .error .fuel :=
  treeNodes_no_fuel

/-
FULL STATEMENTS NOT YET PROVED for `copy_trigger_tree_per_player` (see design.d/C06.md, "Partial"):

  theorem treepp_copy_closed (hi : Inv tm)
      (h : copyTreePPCore fixed tm s fromP players gaia = .ok (tm', ret, known, nt, disp)) :
      tm'.trigs.take tm.trigs.length = tm.trigs ∧
      ∀ p l, (p, l) ∈ nt → p ≠ fromP → ∀ i ut, l[i]? = some ut → ∃ k src c, known[i]? = some k ∧ tm.trigs[k]? = some src ∧
        tm'.trigs[ut.2]? = some c ∧ c.uid = ut.1 ∧ c.effs.length = src.effs.length ∧
        ∀ j e e', src.effs[j]? = some e → c.effs[j]? = some e' → e'.kind = e.kind ∧ (e.isAct = false → e' = e) ∧
          (e.isAct = true → ∃ k' i' ut', e.target = some k' ∧ known[i']? = some k' ∧ l[i']? = some ut' ∧ e'.target = some ut'.2)
      -- every player's copies point at that player's copies of the same tree

  theorem treepp_group_ids_nodup (hi : Inv tm) (hfix : fixed = true) (hp : players nodup)
      (h : copyTreePPCore fixed tm s fromP players gaia = .ok (tm1, r, known, nt, disp))
      (hg : groupIds g fromP known nt = .ok ids) : ids.Nodup
      -- would discharge the `InDom` hypothesis of the grouped per-player tree copy for the repaired tree search

What IS proved is `treepp_step_partial` below: invariant and links of all pre-existing triggers, for every grouping,
under the explicit hypothesis that the ids handed to `move_triggers` do not repeat (which F16 violates, `treepp_alias_counter`).
-/

/-- `copy_trigger_tree_per_player` (partial, see the comment above): the invariant is kept and every link of a
pre-existing trigger is preserved; the copies exist only at fresh identities; the source player's own triggers are
rewritten to the ids they already have (i.e. not at all). -/
theorem treepp_step_partial {fixed : Bool} {tm tm' : TM} {s : Sel} {fromP : Nat} {players : Option (List Nat)}
    {gaia : Bool} {g : Group} {ret : List (Nat × List Nat)} (hi : Inv tm)
    (hdom : g = .none ∨ ∀ tm1 r known nt disp ids, copyTreePPCore fixed tm s fromP players gaia = .ok (tm1, r, known, nt, disp) →
      groupIds g fromP known nt = .ok ids → ids.Nodup)
    (h : copyTreePerPlayer fixed tm s fromP players gaia g = .ok (tm', ret)) :
    Inv tm' ∧ LinkRel false tm tm' ∧ tm.next ≤ tm'.next := by
  obtain ⟨g1, hle⟩ := copyTreePerPlayer_good (c := false) hi hdom h
  exact ⟨g1.inv, g1.step.link, hle⟩

/-- **import_remap** (`import_triggers`, default index; an explicit index is this followed by `move_triggers` of the new
ids): existing triggers untouched, imported copies appended with id = position; the display order is reset to the
identity by the pinned `+=` (`ext = false`) and left to the lazy getter by the repaired `extend` (`ext = true`, F5 of C09);
a link between imported triggers points at the imported copy of its target (the last imported trigger with that old
id), a link to a trigger that was not imported is reset to -1, an unset link stays unset. -/
theorem import_remap {ext : Bool} {tm tm' : TM} {ts : List Trig} {news : List Nat}
    (h : importTriggers ext tm ts none = .ok (tm', news)) :
    tm'.trigs.take tm.trigs.length = tm.trigs ∧ tm'.trigs.length = tm.trigs.length + ts.length ∧
    (ext = false → tm'.order = range (tm.trigs.length + ts.length)) ∧ (ext = true → tm'.order = tm.order) ∧
    ∀ (i : Nat) (t : Trig), ts[i]? = some t → ∃ c, tm'.trigs[tm.trigs.length + i]? = some c ∧
      c.tid = tm.trigs.length + i ∧ news[i]? = some c.uid ∧ c.effs.length = t.effs.length ∧
      ∀ (j : Nat) (e e' : Eff), t.effs[j]? = some e → c.effs[j]? = some e' →
        e'.kind = e.kind ∧ (e.isAct = false → e' = e) ∧
        (e.isAct = true → (e.target = none → e'.target = none) ∧ ∀ k, e.target = some k →
          (k ∈ ts.map (·.tid) → ∃ i' : Nat, (ts[i']?).map (·.tid) = some k ∧ e'.target = some (tm.trigs.length + i')) ∧
          (k ∉ ts.map (·.tid) → e'.target = none)) :=
  import_shape h

/-- a tree copy that meets the hypotheses: the 3-cycle of `cyc` below (root 0) -/
example : ∃ tm' news, copyTree false ⟨[⟨0, 0, [⟨.act, some 1⟩]⟩, ⟨1, 1, [⟨.deact, some 0⟩]⟩], [1, 0], [0, 1], 2⟩ (.index 0) = .ok (tm', news) ∧
    tm'.trigs.map (fun t => t.effs.map (·.target)) = [[some 1], [some 0], [some 3], [some 2]] :=
  ⟨_, _, rfl, rfl⟩

/-! ## clause 5: an effect whose target was removed never ends up pointing at a different trigger -/

/-- **clause 5, for the repaired `remove_triggers`** (`fx.remove = true`, fix `fixes/F04-…diff`): after any history an
effect whose target no longer exists is reset to -1 – in particular it designates no trigger, now or after any further
operation (`unset_stays_unset`). -/
theorem link_cleared {fx : Fix} (hfx : fx.remove = true) {tm tm' : TM} {ops : List Op} (hi : Inv tm)
    (h : Hist fx tm ops tm') {t t' : Trig} (ht : t ∈ tm.trigs) (ht' : t' ∈ tm'.trigs) (hu : t'.uid = t.uid)
    {j : Nat} {e e' : Eff} (he : t.effs[j]? = some e) (he' : t'.effs[j]? = some e') (ha : e.isAct = true)
    {u : Nat} (hr : ref tm e = some u) (hgone : u ∉ uids tm') : e'.target = none ∧ ref tm' e' = none := by
  obtain ⟨_, r⟩ := (hist_good (c := true) (fun _ => hfx) hi h).step.link t ht t' ht' hu
  have := (((r j e e' he he').2.2 ha).2 u hr).2 rfl hgone
  exact ⟨this, by simp [ref, this]⟩

/-- a state of three triggers `a b c`, `a` activates `b` -/
def abc : TM := ⟨[⟨0, 0, [⟨.act, some 1⟩]⟩, ⟨1, 1, []⟩, ⟨2, 2, []⟩], [0, 1, 2], [0, 1, 2], 3⟩

/-- **defect F4 (pinned code)**: `remove_trigger(1)` on `abc` leaves `a`'s effect with `trigger_id = 1`, which now
designates `c` – a different trigger than the removed `b`. The clause is false for the code as it is. -/
theorem link_cleared_counter :
    remove false abc [.index 1] = .ok ⟨[⟨0, 0, [⟨.act, some 1⟩]⟩, ⟨2, 1, []⟩], [0, 1], [0, 1, 2], 3⟩ ∧
    ref abc ⟨.act, some 1⟩ = some 1 ∧
    ref ⟨[⟨0, 0, [⟨.act, some 1⟩]⟩, ⟨2, 1, []⟩], [0, 1], [0, 1, 2], 3⟩ ⟨.act, some 1⟩ = some 2 := by
  refine ⟨rfl, rfl, rfl⟩

/-- the repaired code on the same input: the link is reset -/
example : remove true abc [.index 1] = .ok ⟨[⟨0, 0, [⟨.act, none⟩]⟩, ⟨2, 1, []⟩], [0, 1], [0, 1, 2], 3⟩ := rfl

/-! ## defect F16: the tree search lists a node twice -/

/-- `a` activates and deactivates `b` -/
def dup : TM := ⟨[⟨0, 0, [⟨.act, some 1⟩, ⟨.deact, some 1⟩]⟩, ⟨1, 1, []⟩, ⟨2, 2, []⟩], [0, 1, 2], [0, 1, 2], 3⟩

/-- **defect F16 (pinned code)**: `copy_trigger_tree_per_player(ONE, 0, create_copy_for_players=[TWO],
group_triggers_by=TRIGGER)` on `dup` hands `move_triggers` the id of `b` twice, so the same trigger occurs twice in the
list (in the value model: identity 1 twice; on the real objects: `trigger_id ≠ position` for the first occurrence). -/
theorem treepp_alias_counter :
    ∃ tm' r, copyTreePerPlayer false dup (.index 0) 1 (some [2]) false .trigger = .ok (tm', r) ∧ ¬ (uids tm').Nodup := by
  refine ⟨_, _, rfl, by decide⟩

/-- with the tree search repaired the same call keeps identities unique -/
example : ∃ tm' r, copyTreePerPlayer true dup (.index 0) 1 (some [2]) false .trigger = .ok (tm', r) ∧ (uids tm').Nodup :=
  ⟨_, _, rfl, by decide⟩

/-! ## non-vacuity -/

/-- a concrete invariant state: 4 triggers, a 3-cycle of links with a self link, a trigger with an unset and a self
link, an effect of another kind carrying a trigger id, display order 2,0,3,1 -/
def cyc : TM :=
  ⟨[⟨0, 0, [⟨.act, some 1⟩, ⟨.deact, some 0⟩]⟩, ⟨1, 1, [⟨.act, some 2⟩, ⟨.other, some 0⟩]⟩, ⟨2, 2, [⟨.deact, some 0⟩]⟩,
    ⟨3, 3, [⟨.act, none⟩, ⟨.deact, some 3⟩]⟩],
   [2, 0, 3, 1], [0, 1, 2, 3], 4⟩

theorem inv_cyc : Inv cyc :=
  { ids := fun i t h => by
      match i, h with
      | 0, h => simp [cyc] at h; subst h; rfl
      | 1, h => simp [cyc] at h; subst h; rfl
      | 2, h => simp [cyc] at h; subst h; rfl
      | 3, h => simp [cyc] at h; subst h; rfl
      | n + 4, h => simp [cyc] at h
    order := ⟨4, ⟨by decide, fun i => by simp [cyc]; omega⟩, fun _ => rfl⟩
    uniq := by decide
    fresh := by decide
    hfresh := by decide }

/-- a history that meets every hypothesis (repaired code): move two triggers, copy a tree, remove one by display
index, reorder to the display order -/
example : ∃ tm', Hist Fix.all cyc [.move [2, 0] 1, .copyTree (.index 0), .remove [.display 1], .reorder none] tm' :=
  ⟨_, hist_of_histB rfl⟩

/-- … and one on the pinned code (`Fix.asIs`): a grouped per-player tree copy, an import at a display position,
per-player copies with GAIA, a removal by index and by object -/
example : ∃ tm', Hist Fix.asIs cyc
    [.copyTreePP (.obj 2) 1 (some [2, 3]) false .player,
     .importT [⟨0, 4, [⟨.act, some 7⟩]⟩, ⟨0, 7, [⟨.deact, some 9⟩]⟩] (some 1),
     .copyPP (.display 0) 2 none true, .remove [.index 3, .obj 0]] tm' :=
  ⟨_, hist_of_histB rfl⟩

end Aoe.Props.C06
