import Aoe.Lemmas.DirtyRun
import Aoe.Lemmas.DirtyExample
/-!
# C18 – values written directly into a section win over the managers

Model: `Aoe.Model.Dirty` (M11). A *history* is any list of `Op`s (direct section edits `userSet`/`userRec`/`userList`,
manager edits `mgrSet`/`mgrObjs`, `save`) run from a freshly loaded scenario (`Loaded`); `run cfg s₀ h = .ok s` is the
state after it, and the file written by a `save` is the content of the cells of the state it returns
(`savedPlain`, `savedRecs`, `savedRec`). All theorems quantify over **all** histories, all scenarios, all commit
programs and (unless a hypothesis says otherwise) both settings and both variants of `update_retriever_length`.

`cfg.fixed = false` is the pinned library, `cfg.fixed = true` the library with `fixes/F02-grow-not-dirty.diff`.
-/
namespace Aoe.Props.C18
open Aoe.Dirty

/-! ## plain fields -/

/-- **a field counts as user-edited iff the user assigned it since load** – nothing the library does (commits,
refreshes, resizes, any number of saves) marks or un-marks a plain retriever. Both variants, both settings. -/
theorem dirty_only_by_user (cfg : Cfg) (s₀ s : Scn) (h : List Op) (f : Field) (c : Cell Val)
    (hl : Loaded s₀) (hr : run cfg s₀ h = .ok s) (hc : s.plain f = some c) :
    c.dirty = true ↔ ∃ v, Op.userSet f v ∈ h := by
  cases h0 : s₀.plain f with
  | none => rw [run_plain_none h s₀ s hr h0] at hc; cases hc
  | some c₀ =>
    obtain ⟨c', hc', _, hiff⟩ := run_plain h s₀ s c₀ hr h0 (hl.plain f c₀ h0).ok
    rw [hc] at hc'; cases hc'
    rw [hiff, (hl.plain f c₀ h0).2]
    simp

/-- **the user's value is the saved value** (setting off): after the last direct assignment `sections[X].f = v`,
whatever the managers hold or are changed to, however many saves follow, the retriever holds `v` – so every file
written afterwards contains `v` (also `v = None`: nothing is written for the field). -/
theorem user_value_saved (cfg : Cfg) (ha : cfg.allow = false) (s₀ s : Scn) (h₁ h₂ : List Op) (f : Field)
    (v : Option Val) (hl : Loaded s₀) (hex : (s₀.plain f).isSome = true) (hn : ∀ w, Op.userSet f w ∉ h₂)
    (hr : run cfg s₀ (h₁ ++ Op.userSet f v :: h₂) = .ok s) :
    s.plain f = some { data := v, dirty := true } ∧ savedPlain s f = v := by
  obtain ⟨s1, hr1, hr2⟩ := run_append _ _ _ _ hr
  obtain ⟨s2, hs, hr3⟩ := run_cons hr2
  cases h0 : s₀.plain f with
  | none => rw [h0] at hex; cases hex
  | some c₀ =>
    obtain ⟨c1, hc1, hk1, _⟩ := run_plain h₁ s₀ s1 c₀ hr1 h0 (hl.plain f c₀ h0).ok
    have h2 : s2.plain f = some { data := v, dirty := true } := by
      simp only [step, hc1] at hs
      cases hs
      have := userSet_dirty c1 v hk1
      simp only [Cell.userSet] at this
      simp [Dirty.recSet, Cell.userSet, this]
    have := run_plain_dirty_stays ha h₂ s2 s _ hr3 h2 rfl hn
    exact ⟨this, by simp [savedPlain, this]⟩

/-- **with `ALLOW_DIRTY_RETRIEVER_OVERWRITE` the manager's value is saved**, from any state whatsoever (so after any
history, user-edited or not): the last plain link of `f` in the commit program decides. -/
theorem allow_manager_wins (cfg : Cfg) (ha : cfg.allow = true) (s s' : Scn) (pre post : List Push) (slot : Nat)
    (f : Field) (hp : cfg.prog = pre ++ Push.plain slot f :: post) (hpost : ∀ p ∈ post, ¬ p.writes f)
    (hs : save cfg s = .ok s') : (s.mgr slot).isSome = true ∧ savedPlain s' f = s.mgr slot := by
  unfold save at hs
  rw [hp] at hs
  obtain ⟨c, hc⟩ := commit_plain_exists hs
  obtain ⟨v, hv, h'⟩ := commit_plain_lands hs hpost hc (Or.inr ha)
  exact ⟨by rw [hv]; rfl, by simp [savedPlain, h', hv]⟩

/-- **fields the user did not touch are still updated from the managers**: after any history without a direct
assignment to `f`, a save writes the manager's current value (both settings, both variants). -/
theorem untouched_follow_manager (cfg : Cfg) (s₀ s s' : Scn) (h : List Op) (pre post : List Push) (slot : Nat)
    (f : Field) (hl : Loaded s₀) (hn : ∀ v, Op.userSet f v ∉ h) (hr : run cfg s₀ h = .ok s)
    (hp : cfg.prog = pre ++ Push.plain slot f :: post) (hpost : ∀ p ∈ post, ¬ p.writes f)
    (hs : save cfg s = .ok s') :
    (s.mgr slot).isSome = true ∧ savedPlain s' f = s.mgr slot ∧ ∃ c', s'.plain f = some c' ∧ c'.dirty = false := by
  unfold save at hs
  rw [hp] at hs
  obtain ⟨c, hc⟩ := commit_plain_exists hs
  have hd : c.dirty = false := by
    cases hdc : c.dirty with
    | false => rfl
    | true =>
      obtain ⟨v, hv⟩ := (dirty_only_by_user cfg s₀ s h f c hl hr hc).mp hdc
      exact absurd hv (hn v)
  obtain ⟨v, hv, h'⟩ := commit_plain_lands hs hpost hc (Or.inl hd)
  exact ⟨by rw [hv]; rfl, by simp [savedPlain, h', hv], _, h', hd⟩

/-- the same for the count fields the library maintains (`number_of_triggers`, `unit_count`, `map_width` …): an
untouched count field is saved as the length (or its square root) of its list **as that list is saved**. -/
theorem untouched_count_follows_list (cfg : Cfg) (s₀ s s' : Scn) (h : List Op) (pre post : List Push) (l t : Field)
    (d : Deriv) (rpre rpost : List (Field × Deriv)) (hl : Loaded s₀) (hn : ∀ v, Op.userSet t v ∉ h)
    (hr : run cfg s₀ h = .ok s) (hex : (s₀.plain t).isSome = true)
    (hp : cfg.prog = pre ++ Push.objs l (rpre ++ (t, d) :: rpost) :: post)
    (hpostl : ∀ p ∈ post, ¬ p.isObjs l) (hpostt : ∀ p ∈ post, ¬ p.writes t) (hrpost : ∀ x ∈ rpost, x.1 ≠ t)
    (hs : save cfg s = .ok s') :
    ∃ recs', savedRecs s' l = some recs' ∧ savedPlain s' t = some (d.eval recs'.length) := by
  unfold save at hs
  rw [hp] at hs
  cases h0 : s₀.plain t with
  | none => rw [h0] at hex; cases hex
  | some c₀ =>
    obtain ⟨c, hc, _, hiff⟩ := run_plain h s₀ s c₀ hr h0 (hl.plain t c₀ h0).ok
    have hd : c.dirty = false := by
      cases hdc : c.dirty with
      | false => rfl
      | true =>
        rcases hiff.mp hdc with h | ⟨v, hv⟩
        · rw [(hl.plain t c₀ h0).2] at h; cases h
        · exact absurd hv (hn v)
    obtain ⟨recs', h1, h2⟩ := commit_count_lands hs hpostl hpostt hrpost hc (Or.inl hd)
    exact ⟨recs', h1, by simp [savedPlain, h2]⟩

/-! ## struct lists: the library's own bookkeeping -/

/-- **the library's own bookkeeping never makes a list count as user-edited** – REPAIRED library
(`cfg.fixed = true`): a struct-list retriever is marked iff the user assigned the list itself. False for the pinned
library: `lib_growth_not_dirty_counter` below. -/
theorem lib_growth_not_dirty (cfg : Cfg) (hf : cfg.fixed = true) (s₀ s : Scn) (h : List Op) (l : Field)
    (c : Cell (List Rec)) (hl : Loaded s₀) (hr : run cfg s₀ h = .ok s) (hc : s.lists l = some c) :
    c.dirty = true ↔ ∃ recs, Op.userList l recs ∈ h := by
  cases h0 : s₀.lists l with
  | none => rw [run_list_none h s₀ s hr h0] at hc; cases hc
  | some c₀ =>
    obtain ⟨c', hc', _, hiff⟩ := run_list_fixed hf h s₀ s c₀ hr h0 (hl.lists l c₀ h0).1.ok
    rw [hc] at hc'; cases hc'
    rw [hiff, (hl.lists l c₀ h0).1.2]
    simp

/-- REPAIRED library: a list the user did not assign follows the manager – it is saved with exactly as many records
as the manager has objects (after growth **and** after shrinking), and stays unmarked. -/
theorem untouched_list_follows_manager (cfg : Cfg) (hf : cfg.fixed = true) (s₀ s s' : Scn) (h : List Op)
    (pre post : List Push) (l : Field) (refresh : List (Field × Deriv)) (hl : Loaded s₀)
    (hn : ∀ recs, Op.userList l recs ∉ h) (hr : run cfg s₀ h = .ok s)
    (hp : cfg.prog = pre ++ Push.objs l refresh :: post) (hpost : ∀ p ∈ post, ¬ p.isObjs l)
    (hs : save cfg s = .ok s') :
    ∃ recs', savedRecs s' l = some recs' ∧ recs'.length = (s.mobjs l).length := by
  unfold save at hs
  rw [hp] at hs
  obtain ⟨s1, h1, h2⟩ := commit_append _ _ _ _ hs
  obtain ⟨s2, h3, _⟩ := commit_cons h2
  obtain ⟨c1, _, _, _, _, hc1, _⟩ := pushObjs_spec h3
  rcases (commit_rel _ _ _ h1).lists l with ⟨_, y⟩ | ⟨c, _, hc, _, _⟩
  · rw [hc1] at y; cases y
  · have hd : c.dirty = false := by
      cases hdc : c.dirty with
      | false => rfl
      | true =>
        obtain ⟨v, hv⟩ := (lib_growth_not_dirty cfg hf s₀ s h l c hl hr hc).mp hdc
        exact absurd hv (hn v)
    obtain ⟨c', recs', h1', h2', h3', _⟩ := commit_list_lands hs hpost hc (Or.inl ⟨hd, hf⟩)
    exact ⟨recs', by simp [savedRecs, h1', h2'], h3'⟩

/-- with the setting on, every list follows the manager (both variants, any state) -/
theorem allow_list_follows_manager (cfg : Cfg) (ha : cfg.allow = true) (s s' : Scn)
    (pre post : List Push) (l : Field) (refresh : List (Field × Deriv))
    (hp : cfg.prog = pre ++ Push.objs l refresh :: post) (hpost : ∀ p ∈ post, ¬ p.isObjs l)
    (hs : save cfg s = .ok s') :
    ∃ recs', savedRecs s' l = some recs' ∧ recs'.length = (s.mobjs l).length := by
  unfold save at hs
  rw [hp] at hs
  obtain ⟨s1, h1, h2⟩ := commit_append _ _ _ _ hs
  obtain ⟨s2, h3, _⟩ := commit_cons h2
  obtain ⟨c1, _, _, _, _, hc1, _⟩ := pushObjs_spec h3
  rcases (commit_rel _ _ _ h1).lists l with ⟨_, y⟩ | ⟨c, _, hc, _, _⟩
  · rw [hc1] at y; cases y
  · obtain ⟨c', recs', h1', h2', h3', _⟩ := commit_list_lands hs hpost hc (Or.inr ha)
    exact ⟨recs', by simp [savedRecs, h1', h2'], h3'⟩

/-- both variants: the marker of a list is never cleared (so on the pinned library one growth is enough to freeze
the list for the rest of the session) -/
theorem list_dirty_forever (cfg : Cfg) (s s' : Scn) (h : List Op) (l : Field) (c : Cell (List Rec))
    (hr : run cfg s h = .ok s') (hc : s.lists l = some c) (hd : c.dirty = true) :
    ∃ c', s'.lists l = some c' ∧ c'.dirty = true :=
  run_list_dirty_mono h s s' c hr hc hd

/-! ## fields of structs inside lists (`sections[X].list[i].f`) -/

/-- **the user's value of a record field is the saved value** (setting off), from any state in which the retriever
satisfies the reachable-state invariant `CellOk`: as long as the managers keep an object for record `i` and the user
neither re-assigns the cell nor the list, every later file holds `v` – through commits, growth and shrinking of the
list, edits of other records. Both variants. -/
theorem user_rec_value_saved_from (cfg : Cfg) (ha : cfg.allow = false) (s₁ s : Scn) (h₂ : List Op) (l : Field) (i : Nat)
    (f : Field) (v : Option Val) (c : Cell (List Rec)) (recs : List Rec) (r : Rec) (x : Cell Val)
    (hc : s₁.lists l = some c) (hd : c.data = some recs) (hr : recs[i]? = some r) (hx : r f = some x) (hok : CellOk x)
    (hm : i < (s₁.mobjs l).length) (hno : ∀ op ∈ h₂, ¬ op.reassigns l i f)
    (hobjs : ∀ op ∈ h₂, ∀ objs, op = .mgrObjs l objs → i < objs.length)
    (hrun : run cfg s₁ (Op.userRec l i f v :: h₂) = .ok s) : savedRec s l i f = v := by
  obtain ⟨s2, hs, hr2⟩ := run_cons hrun
  have h2 : RecCellIs s2 l i f v := by
    simp only [step, hc, hd, hr, hx] at hs
    cases hs
    have hlt : i < recs.length := by
      rcases Nat.lt_or_ge i recs.length with h | h
      · exact h
      · rw [List.getElem?_eq_none h] at hr; cases hr
    refine ⟨{ data := some (recs.set i (recSet r f (x.userSet v))), dirty := c.dirty }, recs.set i (recSet r f (x.userSet v)),
      recSet r f (x.userSet v), by simp [listSet], rfl, by simp [hlt], ?_, hm⟩
    have := userSet_dirty x v hok
    simp only [Cell.userSet] at this
    simp [Dirty.recSet, Cell.userSet, this]
  obtain ⟨c', recs', r', hc', hd', hr', hf', _⟩ := run_recCell ha h₂ s2 s hr2 h2 hno hobjs
  simp [savedRec, savedRecs, hc', hd', hr', hf']

/-- the same from a freshly loaded scenario, after any history that did not touch the list directly -/
theorem user_rec_value_saved (cfg : Cfg) (ha : cfg.allow = false) (hdf : DfltLoaded cfg) (s₀ s₁ s : Scn)
    (h₁ h₂ : List Op) (l : Field) (i : Nat) (f : Field) (v : Option Val)
    (hl : Loaded s₀) (hex : (s₀.lists l).isSome = true) (h1 : ∀ op ∈ h₁, ¬ op.touchesList l)
    (hr1 : run cfg s₀ h₁ = .ok s₁) (hfield : (savedRec s₁ l i f).isSome = true)
    (hm : i < (s₁.mobjs l).length) (hno : ∀ op ∈ h₂, ¬ op.reassigns l i f)
    (hobjs : ∀ op ∈ h₂, ∀ objs, op = .mgrObjs l objs → i < objs.length)
    (hrun : run cfg s₁ (Op.userRec l i f v :: h₂) = .ok s) : savedRec s l i f = v := by
  cases h0 : s₀.lists l with
  | none => rw [h0] at hex; cases hex
  | some c₀ =>
    have hl0 := hl.lists l c₀ h0
    cases hd0 : c₀.data with
    | none => have := hl0.1.1; rw [hd0] at this; cases this
    | some recs₀ =>
      obtain ⟨c, recs, hc, hd, hall⟩ := run_recsLoaded hdf h₁ s₀ s₁ hr1 ⟨c₀, recs₀, h0, hd0, hl0.2 recs₀ hd0⟩ h1
      -- the record and its field exist (that is what `hfield` says)
      simp only [savedRec, savedRecs, hc, hd, Option.bind_some] at hfield
      cases hri : recs[i]? with
      | none => rw [hri] at hfield; cases hfield
      | some r =>
        rw [hri] at hfield
        simp only [Option.bind_some] at hfield
        cases hx : r f with
        | none => rw [hx] at hfield; cases hfield
        | some x =>
          have hrl : RecLoaded r := hall r (List.mem_of_getElem? hri)
          exact user_rec_value_saved_from cfg ha s₁ s h₂ l i f v c recs r x hc hd hri hx (hrl f x hx).ok hm hno hobjs hrun

/-- **record fields the user did not touch follow the manager's objects**: after any history without a direct edit
of list `l`, a save writes, for every object the manager holds, the object's value into its record (the last link of
the object for `f` decides). Both settings, both variants. -/
theorem untouched_rec_follows_manager (cfg : Cfg) (hdf : DfltLoaded cfg) (s₀ s s' : Scn) (h : List Op)
    (pre post : List Push) (l : Field) (refresh : List (Field × Deriv)) (i : Nat) (o opre opost : MObj) (f : Field)
    (v : Val) (hl : Loaded s₀) (hex : (s₀.lists l).isSome = true) (hn : ∀ op ∈ h, ¬ op.touchesList l)
    (hr : run cfg s₀ h = .ok s) (hp : cfg.prog = pre ++ Push.objs l refresh :: post)
    (hpost : ∀ p ∈ post, ¬ p.isObjs l) (ho : (s.mobjs l)[i]? = some o) (hsplit : o = opre ++ (f, v) :: opost)
    (hlast : ∀ x ∈ opost, x.1 ≠ f) (hs : save cfg s = .ok s') : savedRec s' l i f = some v := by
  unfold save at hs
  rw [hp] at hs
  cases h0 : s₀.lists l with
  | none => rw [h0] at hex; cases hex
  | some c₀ =>
    have hl0 := hl.lists l c₀ h0
    cases hd0 : c₀.data with
    | none => have := hl0.1.1; rw [hd0] at this; cases this
    | some recs₀ =>
      have hi := run_recsLoaded hdf h s₀ s hr ⟨c₀, recs₀, h0, hd0, hl0.2 recs₀ hd0⟩ hn
      exact commit_rec_lands hdf hs hpost hi ho hsplit hlast

/-! ## the pinned library violates the bookkeeping clause (defect F2) -/

open Aoe.Dirty.Example in
/-- **counter-witness on the pinned `update_retriever_length`** (setting off): add three triggers, save, remove two,
save – no direct section edit anywhere – and `trigger_data` is marked user-edited, the shrink is dropped, the file
holds 3 records for 1 trigger (and `number_of_triggers` = 3). -/
theorem lib_growth_not_dirty_counter :
    listDirty (run (cfg false false) scn growShrink) 10 = some true ∧
    listLen (run (cfg false false) scn growShrink) 10 = some 3 ∧
    mgrLen (run (cfg false false) scn growShrink) 10 = some 1 ∧
    plainVal (run (cfg false false) scn growShrink) 1 = some (some (.int 3)) ∧
    (∀ l recs, Op.userList l recs ∉ growShrink) := by
  refine ⟨by decide, by decide, by decide, by decide, ?_⟩
  intro l recs h
  simp [growShrink] at h

open Aoe.Dirty.Example in
/-- hence the bookkeeping clause, stated for the pinned variant, is false -/
theorem lib_growth_not_dirty_pinned_false :
    ¬ (∀ (cfg : Cfg) (s₀ s : Scn) (h : List Op) (l : Field) (c : Cell (List Rec)), cfg.fixed = false → Loaded s₀ →
        run cfg s₀ h = .ok s → s.lists l = some c → (c.dirty = true ↔ ∃ recs, Op.userList l recs ∈ h)) := by
  intro H
  have hd := lib_growth_not_dirty_counter.1
  match hr : run (cfg false false) scn growShrink with
  | .error e => rw [hr] at hd; simp [listDirty] at hd
  | .ok s =>
    rw [hr] at hd
    simp only [listDirty, Option.map_eq_some_iff] at hd
    obtain ⟨c, hc, hdc⟩ := hd
    obtain ⟨recs, hm⟩ := (H (cfg false false) scn s growShrink 10 c rfl scn_loaded hr hc).mp hdc
    exact lib_growth_not_dirty_counter.2.2.2.2 10 recs hm

/-! ## non-vacuity -/
section examples
open Aoe.Dirty.Example

-- the hypotheses `Loaded`, `DfltLoaded` are met by a concrete scenario; the histories below run without error
example : Loaded scn := scn_loaded
example : DfltLoaded (cfg false true) := cfg_dflt _ _
example : isOk (run (cfg false false) scn userVsManager) = true := by decide
example : isOk (run (cfg false true) scn growShrink) = true := by decide
-- the commit-program hypotheses of the theorems are met by the example program
example : (cfg false true).prog = [Push.objs 10 [(1, .len)]] ++ Push.plain 0 0 :: [] := rfl
example : (cfg false true).prog = [] ++ Push.objs 10 ([] ++ (1, Deriv.len) :: []) :: [Push.plain 0 0] := rfl
example : ∀ p ∈ [Push.plain 0 0], ¬ p.isObjs 10 := by intro p hp; simp at hp; subst hp; exact id
example : ∀ p ∈ [Push.plain 0 0], ¬ p.writes 1 := by intro p hp; simp at hp; subst hp; simp [Push.writes]
-- user value wins (setting off): "user" is saved twice although the manager holds "manager", then "manager2"
example : plainVal (run (cfg false false) scn userVsManager) 0 = some (some (.tok "user")) := by decide
example : plainDirty (run (cfg false false) scn userVsManager) 0 = some true := by decide
-- setting on: the manager's last value is saved, the field still counts as user-edited
example : plainVal (run (cfg true false) scn userVsManager) 0 = some (some (.tok "manager2")) := by decide
example : plainDirty (run (cfg true false) scn userVsManager) 0 = some true := by decide
-- untouched fields follow the manager: count field and record fields after growth
example : plainVal (run (cfg false false) scn [.mgrObjs 10 [trig "a", trig "b"], .save]) 1 = some (some (.int 2)) := by decide
example : recVal (run (cfg false false) scn [.mgrObjs 10 [trig "a", trig "b"], .save]) 10 1 20 = some (some (.tok "b")) := by decide
example : plainDirty (run (cfg false false) scn growShrink) 1 = some false := by decide
-- the repaired library on the counter-history: list unmarked, one record, count 1
example : listDirty (run (cfg false true) scn growShrink) 10 = some false := by decide
example : listLen (run (cfg false true) scn growShrink) 10 = some 1 := by decide
example : plainVal (run (cfg false true) scn growShrink) 1 = some (some (.int 1)) := by decide
-- pinned library with the setting ON: the shrink lands although the list is marked
example : listLen (run (cfg true false) scn growShrink) 10 = some 1 := by decide
example : listDirty (run (cfg true false) scn growShrink) 10 = some true := by decide
-- a direct edit inside a record survives commits (setting off) and is overwritten with the setting on
example : recVal (run (cfg false false) scn [.mgrObjs 10 [trig "a"], .save, .userRec 10 0 20 (some (.tok "mine")), .save]) 10 0 20
    = some (some (.tok "mine")) := by decide
example : recVal (run (cfg true false) scn [.mgrObjs 10 [trig "a"], .save, .userRec 10 0 20 (some (.tok "mine")), .save]) 10 0 20
    = some (some (.tok "a")) := by decide
-- hypotheses of the record-field theorems: a history that does not touch the list directly, an object with a last link
example : ∀ op ∈ [Op.mgrObjs 10 [trig "a"], Op.save, Op.userSet 0 none], ¬ op.touchesList 10 := by
  intro op h; simp at h; rcases h with rfl | rfl | rfl <;> exact id
example : ∀ op ∈ [Op.save, Op.userRec 10 1 20 none, Op.mgrObjs 10 [trig "a", trig "b"]], ¬ op.reassigns 10 0 20 := by
  intro op h; simp at h; rcases h with rfl | rfl | rfl <;> simp [Op.reassigns]
example : trig "a" = [] ++ (20, Val.tok "a") :: [] := rfl
example : (scn.lists 10).isSome = true := by decide
-- the repaired library refuses to grow a list the user assigned (the objects have no record: IndexError)
example : isOk (run (cfg false true) scn [.userList 10 (some []), .mgrObjs 10 [trig "a"], .save]) = false := by decide
-- … while the pinned library extends the user's list in place (the user's value does not win there)
example : listLen (run (cfg false false) scn [.userList 10 (some []), .mgrObjs 10 [trig "a"], .save]) 10 = some 1 := by decide

end examples

end Aoe.Props.C18
