import Aoe.Lemmas.Units
/-!
# C10 – unit bookkeeping is consistent

Model: `Aoe/Model/Units.lean` (a heap of `Unit` objects, nine owner lists of references, the id generator);
helper lemmas: `Aoe/Lemmas/Units.lean`.  Every theorem is about arbitrary states / arbitrary operation lists
(`Op` = add, clone, remove by id / by object, `unit.player = p`, `change_ownership([..], p)`,
`get_new_reference_id`, save), no bound anywhere.

`cfg : Cfg` selects the semantics of `clone_unit`: `Cfg.asIs` is the pinned code (`arg or unit.attr`,
`caption_string_id` not forwarded), `Cfg.fixed` the repaired one.  The invariant, removal and counter theorems
hold for every `cfg`; the clone clauses hold for `Cfg.fixed` and are refuted for `Cfg.asIs` on concrete
witnesses (`…_counter`, defects F7 and F7b).
-/
namespace Aoe.Props.C10
open Aoe.Units

/-! ## the invariant -/

/-- `UInv`, spelled out (the structure lives in `Aoe/Lemmas/Units.lean`) -/
theorem uinv_spelled_out (s : State) :
    UInv s ↔
      ((∀ p i, i ∈ s.lists p → ∃ u, s.heap[i]? = some u ∧ u.player = p) ∧   -- stored where it reports
       (∀ p, (s.lists p).Nodup) ∧                                            -- never twice
       (∀ a ∈ s.handed, a < s.nextId) ∧ s.handed.Pairwise (· < ·) ∧          -- auto ids increasing, below counter
       (∀ f ∈ s.fileIds, f < s.nextId) ∧ (∀ f ∈ s.fileIds, ∀ a ∈ s.handed, f < a)) :=  -- file ids below
  ⟨fun h => ⟨h.owner, h.nodup, h.handedLt, h.handedInc, h.fileLtNext, h.fileLt⟩,
   fun h => ⟨h.1, h.2.1, h.2.2.1, h.2.2.2.1, h.2.2.2.2.1, h.2.2.2.2.2⟩⟩

/-- the state built from a loaded file satisfies the invariant as soon as the file's counter exceeds the ids
in the file (`counter₀ > max fileIds`) -/
theorem uinv_load (counter : Int) (file : List Units.Unit) (hc : ∀ u ∈ file, u.refId < counter) :
    UInv (load counter file) := Aoe.Units.uinv_load counter file hc

/-- **every operation preserves the invariant** (operations that raise included) -/
theorem uinv_step (cfg : Cfg) (s : State) (h : UInv s) (op : Op) : UInv (step cfg s op) :=
  Aoe.Units.uinv_step cfg h op

/-- **hence every operation sequence does** (induction over the list of operations) -/
theorem uinv_history (cfg : Cfg) (counter : Int) (file : List Units.Unit) (hc : ∀ u ∈ file, u.refId < counter)
    (ops : List Op) : UInv (run cfg (load counter file) ops) :=
  Aoe.Units.uinv_run cfg ops (Aoe.Units.uinv_load counter file hc)

/-- what the invariant says about one stored reference: exactly once in its list, in no other list, and the
object reports that owner -/
theorem stored_exactly_once (s : State) (h : UInv s) (p : Player) (i : Nat) (hi : i ∈ s.lists p) :
    (s.lists p).count i = 1 ∧ (∀ q, i ∈ s.lists q → q = p) ∧
    ∃ u, s.heap[i]? = some u ∧ u.player = p := by
  refine ⟨?_, fun q hq => h.list_unique hq hi, h.owner p i hi⟩
  rw [(h.nodup p).count]
  simp [hi]

/-- after any history: every unit in owner `p`'s list is there once, nowhere else, and reports `p` -/
theorem history_stored_once (cfg : Cfg) (counter : Int) (file : List Units.Unit)
    (hc : ∀ u ∈ file, u.refId < counter) (ops : List Op) (p : Player) (i : Nat)
    (hi : i ∈ (run cfg (load counter file) ops).lists p) :
    ((run cfg (load counter file) ops).lists p).count i = 1 ∧
    (∀ q, i ∈ (run cfg (load counter file) ops).lists q → q = p) ∧
    ∃ u, (run cfg (load counter file) ops).heap[i]? = some u ∧ u.player = p :=
  stored_exactly_once _ (uinv_history cfg counter file hc ops) p i hi

/-! ## automatically assigned ids -/

/-- automatic ids are pairwise different and none of them is an id of the loaded file -/
theorem auto_ids_unique_and_fresh (s : State) (h : UInv s) :
    s.handed.Nodup ∧ ∀ a ∈ s.handed, a ∉ s.fileIds := by
  constructor
  · exact h.handedInc.imp (fun hab => Int.ne_of_lt hab)
  · intro a ha hf
    exact Int.lt_irrefl a (h.fileLt a hf a ha)

/-- `add_unit` without `reference_id`: the new unit gets the generator's next value, which was never handed out
before and is no file id; the unit is appended to the list of the owner it was created for, every other list is
untouched, every older object is unchanged -/
theorem add_auto (s : State) (h : UInv s) (a : AddArgs) (ha : a.refId = none) :
    ∃ u, (addUnit s a).1.heap[(addUnit s a).2]? = some u ∧ u = mkUnit a s.nextId ∧
      u.refId = s.nextId ∧ s.nextId ∉ s.handed ∧ s.nextId ∉ s.fileIds ∧
      (addUnit s a).1.handed = s.handed ++ [s.nextId] ∧
      (addUnit s a).1.lists u.player = s.lists u.player ++ [(addUnit s a).2] ∧
      (∀ q, q ≠ u.player → (addUnit s a).1.lists q = s.lists q) ∧
      (∀ (j : Nat) (v : Units.Unit), s.heap[j]? = some v → (addUnit s a).1.heap[j]? = some v) := by
  obtain ⟨h1, _, h3, _, h5, _⟩ := addUnit_spec s a
  have hg := addUnit_get s a
  rw [ha] at hg h5
  refine ⟨mkUnit a s.nextId, hg, rfl, rfl, ?_, ?_, h5, ?_, ?_, fun j v hv => addUnit_old s a hv⟩
  · intro hm; exact Int.lt_irrefl _ (h.handedLt _ hm)
  · intro hm; exact Int.lt_irrefl _ (h.fileLtNext _ hm)
  · rw [h3, h1]; simp [mkUnit]
  · intro q hq
    rw [h3]
    exact upd_other _ _ _ _ hq

/-- `add_unit(reference_id = r)`: the explicit id is used as given, the generator is not touched -/
theorem add_explicit (s : State) (a : AddArgs) (r : Int) (ha : a.refId = some r) :
    (addUnit s a).1.heap[(addUnit s a).2]? = some (mkUnit a r) ∧
    (addUnit s a).1.handed = s.handed ∧ (addUnit s a).1.nextId = s.nextId := by
  obtain ⟨_, _, _, _, h5, h6⟩ := addUnit_spec s a
  have hg := addUnit_get s a
  rw [ha] at hg h5 h6
  exact ⟨hg, h5, h6⟩

/-- as long as no explicit `reference_id` is supplied, *all* reference ids (file and automatic, of stored and of
removed units) stay pairwise different over every history -/
theorem all_ids_unique (cfg : Cfg) (counter : Int) (file : List Units.Unit) (hn : (file.map (·.refId)).Nodup)
    (hc : ∀ u ∈ file, u.refId < counter) (ops : List Op) (ha : ∀ op ∈ ops, op.auto = true) :
    ((run cfg (load counter file) ops).heap.map (·.refId)).Nodup :=
  (idinv_run cfg ops (idinv_load counter file hn hc) ha).nodup

/-! ## the saved counter -/

/-- the value written to `DataHeader.next_unit_id_to_place` is larger than every automatic id and every file id -/
theorem saved_counter_gt_auto (s : State) (h : UInv s) :
    (∀ a ∈ s.handed, a < (saveCounter s).1) ∧ (∀ f ∈ s.fileIds, f < (saveCounter s).1) ∧
    UInv (saveCounter s).2 :=
  ⟨h.handedLt, h.fileLtNext, uinv_saveCounter h⟩

/-- … and it stays apart from whatever is assigned after the save: over every later history every automatic id
is either an old one (smaller) or larger than the saved counter, never equal to it -/
theorem saved_counter_never_assigned (cfg : Cfg) (s : State) (h : UInv s) (ops : List Op) :
    ∀ a ∈ (run cfg (saveCounter s).2 ops).handed, a ≠ (saveCounter s).1 := by
  intro a ha
  obtain ⟨_, _, hg⟩ := grows_run cfg ops (saveCounter s).2
  rcases hg a ha with hold | hnew
  · exact Int.ne_of_lt (h.handedLt a hold)
  · simp only [saveCounter] at hnew ⊢
    omega

/-- over any history, at every save: counter written > all ids handed out so far -/
theorem history_saved_counter (cfg : Cfg) (counter : Int) (file : List Units.Unit)
    (hc : ∀ u ∈ file, u.refId < counter) (ops : List Op) :
    ∀ a ∈ (run cfg (load counter file) ops).handed, a < (saveCounter (run cfg (load counter file) ops)).1 :=
  (saved_counter_gt_auto _ (uinv_history cfg counter file hc ops)).1

/-! ## removal deletes exactly the designated unit -/

/-- `remove_unit(unit = obj i)`: succeeds iff the object is stored (in the list of the owner it reports – by the
invariant the only place it can be); then that one reference disappears, every list is the old list without `i`
in the old order, exactly one list gets shorter, by one; objects and generator are untouched -/
theorem remove_exact (s s' : State) (i : Nat) (h : UInv s) (hr : removeObj s i = .ok s') :
    ∃ u, s.heap[i]? = some u ∧ i ∈ s.lists u.player ∧
      s'.heap = s.heap ∧ s'.nextId = s.nextId ∧ s'.handed = s.handed ∧
      (∀ q, s'.lists q = (s.lists q).filter (· != i)) ∧
      (∀ q, i ∉ s'.lists q) ∧
      (s.lists u.player).length = (s'.lists u.player).length + 1 ∧
      (∀ q, q ≠ u.player → s'.lists q = s.lists q) := by
  obtain ⟨u, hu, hm, hh, hn, hha, _, _, hlen, hoth, hfil⟩ := removeObj_spec h hr
  refine ⟨u, hu, hm, hh, hn, hha, hfil, ?_, hlen, hoth⟩
  intro q hq
  rw [hfil q] at hq
  simp at hq

/-- removing an object that is not stored raises and changes nothing (`step` keeps the state) -/
theorem remove_stale_rejected (s : State) (i : Nat) (u : Units.Unit) (hu : s.heap[i]? = some u)
    (hn : i ∉ s.lists u.player) : removeObj s i = .error .notInList := by
  simp [removeObj, hu, hn]

/-- `remove_unit(reference_id = r)`, the general statement (duplicated ids allowed): if no stored unit carries
`r` nothing changes; otherwise the first carrier in owner order / list order is removed and nothing else moves -/
theorem remove_by_id_exact (s : State) (r : Int) :
    ((∀ p, ∀ j ∈ s.lists p, hasRef s r j = false) → removeById s r = s) ∧
    (∀ p₀ j₀, j₀ ∈ s.lists p₀ → hasRef s r j₀ = true →
      ∃ (p : Player) (l₁ : List Nat) (i : Nat) (l₂ : List Nat),
        s.lists p = l₁ ++ i :: l₂ ∧ hasRef s r i = true ∧ (∀ j ∈ l₁, hasRef s r j = false) ∧
        (∀ q, q < p → ∀ j ∈ s.lists q, hasRef s r j = false) ∧
        (removeById s r).lists = upd s.lists p (l₁ ++ l₂) ∧
        (removeById s r).heap = s.heap ∧ (removeById s r).nextId = s.nextId ∧
        (removeById s r).handed = s.handed ∧ (removeById s r).fileIds = s.fileIds) :=
  ⟨removeById_absent, fun _ _ hj hr => removeById_present hj hr⟩

/-- with unique ids (`all_ids_unique`) removal by the id of a stored unit removes exactly that unit -/
theorem remove_by_id_designated (s : State) (h : UInv s) (hid : IdInv s) (p : Player) (i : Nat) (u : Units.Unit)
    (hi : i ∈ s.lists p) (hu : s.heap[i]? = some u) :
    ∀ q, (removeById s u.refId).lists q = (s.lists q).filter (· != i) :=
  removeById_designated h hid hi hu

/-! ## ownership change -/

/-- `unit.player = p` on a stored unit: it leaves its old list, is appended to `p`'s list, reports `p`; no other
reference moves, no other object changes -/
theorem set_player_moves (s s' : State) (i : Nat) (p : Player) (h : UInv s) (hs : setPlayer s i p = .ok s') :
    ∃ u, s.heap[i]? = some u ∧ i ∈ s.lists u.player ∧
      s'.heap[i]? = some { u with player := p } ∧
      (∀ j, j ≠ i → s'.heap[j]? = s.heap[j]?) ∧
      s'.lists p = (s.lists p).filter (· != i) ++ [i] ∧
      (∀ q, q ≠ p → s'.lists q = (s.lists q).filter (· != i)) := by
  unfold setPlayer at hs
  split at hs
  · cases hs
  · rename_i u hu
    split at hs
    · rename_i hmem
      injection hs with hs
      subst hs
      have hfil : ∀ q, upd s.lists u.player ((s.lists u.player).erase i) q = (s.lists q).filter (· != i) := by
        intro q
        have hro : removeObj s i = .ok { s with lists := upd s.lists u.player ((s.lists u.player).erase i) } := by
          simp [removeObj, hu, hmem]
        obtain ⟨_, _, _, _, _, _, _, _, _, _, hf⟩ := removeObj_spec h hro
        exact hf q
      refine ⟨u, hu, hmem, List.getElem?_set_self (lt_of_get hu), ?_, ?_, ?_⟩
      · intro j hj
        exact List.getElem?_set_ne (Ne.symm hj)
      · simp only [upd_same]
        rw [hfil]
      · intro q hq
        simp only [upd_other _ _ _ _ hq]
        exact hfil q
    · cases hs

/-! ## clone -/

/-- "the clone carries every explicitly supplied attribute" -/
structure Carries (c : CloneArgs) (u' : Units.Unit) : Prop where
  player : ∀ v, c.player = some v → u'.player = v
  const : ∀ v, c.const = some v → u'.const = v
  x : ∀ v, c.x = some v → u'.x = v
  y : ∀ v, c.y = some v → u'.y = v
  z : ∀ v, c.z = some v → u'.z = v
  rotation : ∀ v, c.rotation = some v → u'.rotation = v
  garrison : ∀ v, c.garrison = some v → u'.garrison = v
  frame : ∀ v, c.frame = some v → u'.frame = v
  status : ∀ v, c.status = some v → u'.status = v
  refId : ∀ v, c.refId = some v → u'.refId = v
  tile : ∀ t, c.tile = some t → u'.x = tileMid t.1 ∧ u'.y = tileMid t.2

/-- the same restricted to supplied values that Python counts as true (what the pinned code guarantees) -/
structure CarriesTruthy (c : CloneArgs) (u' : Units.Unit) : Prop where
  player : ∀ v, c.player = some v → playerTruthy v = true → u'.player = v
  const : ∀ v, c.const = some v → intTruthy v = true → u'.const = v
  x : ∀ v, c.x = some v → v.truthy = true → u'.x = v
  y : ∀ v, c.y = some v → v.truthy = true → u'.y = v
  z : ∀ v, c.z = some v → v.truthy = true → u'.z = v
  rotation : ∀ v, c.rotation = some v → v.truthy = true → u'.rotation = v
  garrison : ∀ v, c.garrison = some v → intTruthy v = true → u'.garrison = v
  frame : ∀ v, c.frame = some v → intTruthy v = true → u'.frame = v
  status : ∀ v, c.status = some v → intTruthy v = true → u'.status = v
  refId : ∀ v, c.refId = some v → u'.refId = v
  tile : ∀ t, c.tile = some t → u'.x = tileMid t.1 ∧ u'.y = tileMid t.2

/-- "… and inherits the rest from the original" (everything that was not supplied; the reference id is never
inherited: it is the supplied or a fresh automatic one) -/
structure InheritsRest (c : CloneArgs) (u u' : Units.Unit) : Prop where
  player : c.player = none → u'.player = u.player
  const : c.const = none → u'.const = u.const
  x : c.x = none → c.tile = none → u'.x = u.x
  y : c.y = none → c.tile = none → u'.y = u.y
  z : c.z = none → u'.z = u.z
  rotation : c.rotation = none → u'.rotation = u.rotation
  garrison : c.garrison = none → u'.garrison = u.garrison
  frame : c.frame = none → u'.frame = u.frame
  status : c.status = none → u'.status = u.status

/-- what a successful `clone_unit` returns: the source object exists, x/y and tile were not mixed, and the
returned object is the one `add_unit` builds from the forwarded arguments -/
theorem clone_result (cfg : Cfg) (s s' : State) (src i : Nat) (c : CloneArgs)
    (hc : cloneUnit cfg s src c = .ok (s', i)) :
    ∃ u, s.heap[src]? = some u ∧ ((c.x.isSome || c.y.isSome) && c.tile.isSome) = false ∧
      s' = (addUnit s (cloneAddArgs cfg u c)).1 ∧ i = (addUnit s (cloneAddArgs cfg u c)).2 ∧
      s'.heap[i]? = some (mkUnit (cloneAddArgs cfg u c) (ridOf s c.refId)) ∧
      s'.heap[src]? = some u := by
  unfold cloneUnit at hc
  split at hc
  · cases hc
  · rename_i u hu
    split at hc
    · cases hc
    · rename_i hg
      injection hc with hc
      have h1 : s' = (addUnit s (cloneAddArgs cfg u c)).1 := (congrArg Prod.fst hc).symm
      have h2 : i = (addUnit s (cloneAddArgs cfg u c)).2 := (congrArg Prod.snd hc).symm
      refine ⟨u, hu, by simpa using hg, h1, h2, ?_, ?_⟩
      · rw [h1, h2]; exact addUnit_get s _
      · rw [h1]; exact addUnit_old s _ hu

private theorem pick_notNone {α : Type} (cfg : Cfg) (h : cfg.notNone = true) (t : α → Bool) (v d : α) :
    pick cfg t (some v) d = v := by simp [pick, h]

private theorem pick_truthy {α : Type} (cfg : Cfg) (t : α → Bool) (v d : α) (h : t v = true) :
    pick cfg t (some v) d = v := by simp [pick, h]

private theorem pick_none {α : Type} (cfg : Cfg) (t : α → Bool) (d : α) : pick cfg t none d = d := rfl

private theorem guard_x {c : CloneArgs} (hg : ((c.x.isSome || c.y.isSome) && c.tile.isSome) = false) {v : Num}
    (hx : c.x = some v) : c.tile = none := by
  cases ht : c.tile with
  | none => rfl
  | some t => simp [hx, ht] at hg

private theorem guard_y {c : CloneArgs} (hg : ((c.x.isSome || c.y.isSome) && c.tile.isSome) = false) {v : Num}
    (hy : c.y = some v) : c.tile = none := by
  cases ht : c.tile with
  | none => rfl
  | some t => simp [hy, ht] at hg

/-- **clone carries every supplied attribute** – for the repaired semantics (`is not None`), every value
including `0`, `0.0`, `-0.0` and GAIA -/
theorem clone_carries_supplied (cfg : Cfg) (hfix : cfg.notNone = true) (s s' : State) (src i : Nat)
    (c : CloneArgs) (hc : cloneUnit cfg s src c = .ok (s', i)) :
    ∃ u', s'.heap[i]? = some u' ∧ Carries c u' := by
  obtain ⟨u, _, hg, _, _, hget, _⟩ := clone_result cfg s s' src i c hc
  refine ⟨_, hget, ?_⟩
  constructor
  · intro v hv; simp [mkUnit, cloneAddArgs, hv, pick_notNone cfg hfix]
  · intro v hv; simp [mkUnit, cloneAddArgs, hv, pick_notNone cfg hfix]
  · intro v hv; simp [mkUnit, cloneAddArgs, hv, guard_x hg hv, pick_notNone cfg hfix]
  · intro v hv; simp [mkUnit, cloneAddArgs, hv, guard_y hg hv, pick_notNone cfg hfix]
  · intro v hv; simp [mkUnit, cloneAddArgs, hv, pick_notNone cfg hfix]
  · intro v hv; simp [mkUnit, cloneAddArgs, hv, pick_notNone cfg hfix]
  · intro v hv; simp [mkUnit, cloneAddArgs, hv, pick_notNone cfg hfix]
  · intro v hv; simp [mkUnit, cloneAddArgs, hv, pick_notNone cfg hfix]
  · intro v hv; simp [mkUnit, cloneAddArgs, hv, pick_notNone cfg hfix]
  · intro v hv; simp [mkUnit, cloneAddArgs, hv, ridOf]
  · intro t ht; simp [mkUnit, cloneAddArgs, ht]

/-- what holds for **every** semantics, the pinned one included: supplied values that are *truthy* are carried
(the reference id and the tile always are) -/
theorem clone_carries_truthy (cfg : Cfg) (s s' : State) (src i : Nat) (c : CloneArgs)
    (hc : cloneUnit cfg s src c = .ok (s', i)) :
    ∃ u', s'.heap[i]? = some u' ∧ CarriesTruthy c u' := by
  obtain ⟨u, _, hg, _, _, hget, _⟩ := clone_result cfg s s' src i c hc
  refine ⟨_, hget, ?_⟩
  constructor
  · intro v hv ht; simp [mkUnit, cloneAddArgs, hv, pick_truthy cfg _ _ _ ht]
  · intro v hv ht; simp [mkUnit, cloneAddArgs, hv, pick_truthy cfg _ _ _ ht]
  · intro v hv ht; simp [mkUnit, cloneAddArgs, hv, guard_x hg hv, pick_truthy cfg _ _ _ ht]
  · intro v hv ht; simp [mkUnit, cloneAddArgs, hv, guard_y hg hv, pick_truthy cfg _ _ _ ht]
  · intro v hv ht; simp [mkUnit, cloneAddArgs, hv, pick_truthy cfg _ _ _ ht]
  · intro v hv ht; simp [mkUnit, cloneAddArgs, hv, pick_truthy cfg _ _ _ ht]
  · intro v hv ht; simp [mkUnit, cloneAddArgs, hv, pick_truthy cfg _ _ _ ht]
  · intro v hv ht; simp [mkUnit, cloneAddArgs, hv, pick_truthy cfg _ _ _ ht]
  · intro v hv ht; simp [mkUnit, cloneAddArgs, hv, pick_truthy cfg _ _ _ ht]
  · intro v hv; simp [mkUnit, cloneAddArgs, hv, ridOf]
  · intro t ht; simp [mkUnit, cloneAddArgs, ht]

/-- **clone inherits everything that was not supplied** (any semantics) … -/
theorem clone_inherits_rest (cfg : Cfg) (s s' : State) (src i : Nat) (c : CloneArgs)
    (hc : cloneUnit cfg s src c = .ok (s', i)) :
    ∃ u u', s.heap[src]? = some u ∧ s'.heap[i]? = some u' ∧ InheritsRest c u u' ∧
      s'.heap[src]? = some u := by
  obtain ⟨u, hu, _, _, _, hget, hsrc⟩ := clone_result cfg s s' src i c hc
  refine ⟨u, _, hu, hget, ?_, hsrc⟩
  constructor
  · intro hn; simp [mkUnit, cloneAddArgs, hn, pick_none]
  · intro hn; simp [mkUnit, cloneAddArgs, hn, pick_none]
  · intro hn ht; simp [mkUnit, cloneAddArgs, hn, ht, pick_none]
  · intro hn ht; simp [mkUnit, cloneAddArgs, hn, ht, pick_none]
  · intro hn; simp [mkUnit, cloneAddArgs, hn, pick_none]
  · intro hn; simp [mkUnit, cloneAddArgs, hn, pick_none]
  · intro hn; simp [mkUnit, cloneAddArgs, hn, pick_none]
  · intro hn; simp [mkUnit, cloneAddArgs, hn, pick_none]
  · intro hn; simp [mkUnit, cloneAddArgs, hn, pick_none]

/-- … and, in the repaired semantics, the caption string id (which cannot be supplied to `clone_unit`) -/
theorem clone_inherits_caption (cfg : Cfg) (hfix : cfg.caption = true) (s s' : State) (src i : Nat)
    (c : CloneArgs) (hc : cloneUnit cfg s src c = .ok (s', i)) :
    ∃ u u', s.heap[src]? = some u ∧ s'.heap[i]? = some u' ∧ u'.caption = u.caption := by
  obtain ⟨u, hu, _, _, _, hget, _⟩ := clone_result cfg s s' src i c hc
  exact ⟨u, _, hu, hget, by simp [mkUnit, cloneAddArgs, hfix]⟩

/-- the clone without `reference_id` gets a fresh automatic id; it is stored (once, by `uinv_step`) at the end of
the list of the owner it reports; the invariant is preserved -/
theorem clone_stored (cfg : Cfg) (s s' : State) (src i : Nat) (c : CloneArgs) (h : UInv s)
    (hc : cloneUnit cfg s src c = .ok (s', i)) :
    UInv s' ∧ ∃ u', s'.heap[i]? = some u' ∧ s'.lists u'.player = s.lists u'.player ++ [i] ∧
      (∀ q, q ≠ u'.player → s'.lists q = s.lists q) ∧
      (c.refId = none → u'.refId = s.nextId ∧ s.nextId ∉ s.handed ∧ s.nextId ∉ s.fileIds) := by
  refine ⟨uinv_cloneUnit h hc, ?_⟩
  obtain ⟨u, _, _, h1, h2, hget, _⟩ := clone_result cfg s s' src i c hc
  obtain ⟨e1, _, e3, _⟩ := addUnit_spec s (cloneAddArgs cfg u c)
  refine ⟨_, hget, ?_, ?_, ?_⟩
  · rw [h1, h2, e3, e1]; simp [mkUnit]
  · intro q hq
    rw [h1, e3]
    exact upd_other _ _ _ _ hq
  · intro hn
    refine ⟨by simp [mkUnit, ridOf, hn], ?_, ?_⟩
    · intro hm; exact Int.lt_irrefl _ (h.handedLt _ hm)
    · intro hm; exact Int.lt_irrefl _ (h.fileLtNext _ hm)

/-! ### the pinned semantics violates the clone clauses: concrete witnesses (defects F7, F7b) -/

/-- one unit of player 1 at (5, 4.5), z = 1, rotation 1.5, status 2, caption string id 77 -/
def wUnitArgs : AddArgs :=
  { player := 1, const := 4, x := .int 5, y := .half 9, z := .int 1, rotation := .half 3, garrison := -1,
    frame := 3, status := 2, refId := none, caption := 77, tile := none }

def wState : State := (addUnit (load 0 []) wUnitArgs).1

/-- clone it with explicit `x = 0`, `rotation = 0.0`, `player = GAIA`, `status = 0` -/
def wClone : CloneArgs :=
  { CloneArgs.none with x := some (.int 0), rotation := some (.half 0), player := some 0, status := some 0 }

/-- the clone as the given semantics builds it -/
def wResult (cfg : Cfg) : Option Units.Unit :=
  match cloneUnit cfg wState 0 wClone with
  | .ok r => r.1.heap[r.2]?
  | .error _ => none

/-- **F7**: under the pinned `or` semantics the explicit zero values and GAIA are ignored – the clone keeps
x = 5, rotation 1.5, player 1, status 2 -/
theorem clone_carries_supplied_counter :
    (wResult Cfg.asIs).map (fun u => (u.x, u.rotation, u.player, u.status)) =
      some (.int 5, .half 3, 1, 2) ∧
    ¬ ∃ s' i u', cloneUnit Cfg.asIs wState 0 wClone = .ok (s', i) ∧ s'.heap[i]? = some u' ∧ Carries wClone u' := by
  constructor
  · decide
  · rintro ⟨s', i, u', hc, hu', hC⟩
    have hx := hC.x (.int 0) rfl
    obtain ⟨u, hu, _, _, _, hget, _⟩ := clone_result _ _ _ _ _ _ hc
    have hu0 : u = mkUnit wUnitArgs 0 := by
      have : wState.heap[0]? = some (mkUnit wUnitArgs 0) := by decide
      rw [this] at hu
      exact (Option.some.inj hu).symm
    rw [hget] at hu'
    have := Option.some.inj hu'
    rw [← this, hu0] at hx
    revert hx
    decide

/-- with the repaired semantics the same call yields x = 0, rotation 0.0, player GAIA, status 0 -/
theorem clone_fixed_on_witness :
    (wResult Cfg.fixed).map (fun u => (u.x, u.rotation, u.player, u.status, u.y, u.caption)) =
      some (.int 0, .half 0, 0, 0, .half 9, 77) := by decide

/-- **F7b**: under the pinned code the clone does not inherit `caption_string_id` (77 becomes -1) -/
theorem clone_inherits_caption_counter :
    (wResult Cfg.asIs).map (·.caption) = some (-1) ∧
    (match cloneUnit Cfg.asIs wState 0 CloneArgs.none with
     | .ok r => (r.1.heap[r.2]?).map (·.caption)
     | .error _ => none) = some (-1) := by decide

/-! ## non-vacuity: the hypotheses are met by concrete non-trivial states -/

/-- the exception an operation raised, if any -/
def errOf {α : Type} : Except Err α → Option Err
  | .ok _ => none
  | .error e => some e

/-- a file with two units (ids 3 and 7, owners 2 and 0) and counter 8 -/
def exFile : List Units.Unit :=
  [ { refId := 3, player := 2, x := .int 1, y := .int 1, z := .int 0, rotation := .int 0, const := 4, status := 2,
      frame := 0, garrison := -1, caption := -1 },
    { refId := 7, player := 0, x := .half 3, y := .int 1, z := .int 0, rotation := .int 0, const := 59, status := 2,
      frame := 0, garrison := -1, caption := -1 } ]

def exOps : List Op :=
  [ .add wUnitArgs, .clone 2 wClone, .setPlayer 0 5, .save, .remove (some 7) none, .add { wUnitArgs with player := 8 },
    .remove none (some 2), .remove none (some 2), .chown [3, 4] 0, .newId, .clone 0 { CloneArgs.none with tile := some (2, 3) } ]

example : ∀ u ∈ exFile, u.refId < 8 := by decide
example : UInv (run Cfg.asIs (load 8 exFile) exOps) := uinv_history _ 8 exFile (by decide) exOps
-- the history really does something: lists, ids, counter after it
example : (List.finRange 9).map (run Cfg.asIs (load 8 exFile) exOps).lists = [[3, 4], [], [], [], [], [0, 5], [], [], []] := by
  decide
example : (run Cfg.asIs (load 8 exFile) exOps).handed = [8, 9, 11, 12, 13] ∧
    (run Cfg.asIs (load 8 exFile) exOps).nextId = 14 ∧ (run Cfg.asIs (load 8 exFile) exOps).fileIds = [3, 7] := by decide
-- the tile clone sits on the tile centre (2.5, 3.5) and inherits z, owner 5 of the moved original
example : ((run Cfg.asIs (load 8 exFile) exOps).heap[5]?).map (fun u => (u.x, u.y, u.player, u.refId)) =
    some (.half 5, .half 7, 5, 13) := by decide
-- removal by object: succeeds once, is rejected the second time
example : errOf (removeObj wState 0) = none ∧
    errOf (match removeObj wState 0 with | .ok s' => removeObj s' 0 | .error e => .error e) = some .notInList := by
  decide
-- remove by id with a present id / an absent id
example : hasRef (load 8 exFile) 7 1 = true ∧ (removeById (load 8 exFile) 7).lists 0 = [] ∧
    (removeById (load 8 exFile) 99).lists 0 = [1] := by decide
-- the clone hypotheses are satisfiable in both semantics; x/y together with a tile is rejected
example : errOf (cloneUnit Cfg.fixed wState 0 wClone) = none ∧ errOf (cloneUnit Cfg.asIs wState 0 wClone) = none ∧
    errOf (cloneUnit Cfg.asIs wState 0 { wClone with tile := some (1, 1) }) = some .xyAndTile := by decide
example : IdInv (load 8 exFile) := idinv_load 8 exFile (by decide) (by decide)
example : ∀ op ∈ exOps, op.auto = true := by decide
-- saved counter on the example: 10 > 8, 9
example : (saveCounter (run Cfg.asIs (load 8 exFile) (exOps.take 3))).1 = 10 ∧
    (run Cfg.asIs (load 8 exFile) (exOps.take 3)).handed = [8, 9] := by decide

end Aoe.Props.C10
