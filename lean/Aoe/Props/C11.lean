import Aoe.Lemmas.MapElev
/-!
# C11 – map geometry stays consistent

Property theorems about the map model `Aoe.Model.Map` (M8); helper lemmas are in `Aoe/Lemmas/Map.lean` and
`Aoe/Lemmas/MapElev.lean`.  `WF m` is the geometric invariant "`size²` tiles, tile `k` stamped with index `k`".

`getTile fixIdx` has the index guard as a parameter: `false` is the pinned code (`0 <= i < map_size`, defect F8),
`true` the proposed repair (`0 <= i < map_size ** 2`).  `get_agree` needs the repair; for the pinned code
`get_agree_partial` (indices of the first row), the universal `get_asis_rejects` and the concrete
`get_agree_counter` are proved.
-/
namespace Aoe.Props.C11
open Aoe.Map

/-! ### the terrain list always holds size × size tiles, each stamped with its position -/

/-- the manager as constructed from a file (`self.terrain = terrain` in `__init__`) or after any assignment of
`terrain` is well-formed -/
theorem terrain_setter_wf (m0 m : Map) (ts : List Tile) (h : setTerrain m0 ts = .ok m) :
    WF m ∧ m.size * m.size = ts.length ∧ m.tiles = resetIndices ts :=
  let ⟨a, b, c⟩ := setTerrain_ok m0 m ts h; ⟨a, c, b⟩

/-- the `terrain` setter accepts exactly the perfect squares -/
theorem terrain_setter_square (m0 : Map) (ts : List Tile) :
    (∃ m, setTerrain m0 ts = .ok m) ↔ ∃ n, ts.length = n * n := by
  constructor
  · rintro ⟨m, h⟩
    exact ⟨m.size, (setTerrain_ok m0 m ts h).2.2.symm⟩
  · rintro ⟨n, h⟩
    exact ⟨_, setTerrain_sq m0 ts n h⟩

/-- one operation keeps the invariant -/
theorem applyOp_wf (fs : Bool) (m : Map) (hwf : WF m) (op : Op) : WF (applyOp fs m op) := by
  cases op with
  | setSize n =>
    obtain ⟨m', h, _, hwf', _⟩ := setSize_spec m n hwf
    simp only [applyOp, h]; exact hwf'
  | setTerrain ts =>
    simp only [applyOp]
    cases h : setTerrain m ts with
    | ok m' => exact (setTerrain_ok m m' ts h).1
    | error e => exact hwf
  | setElevation e x1 y1 x2 y2 =>
    simp only [applyOp]
    cases h : setElevation fs (elevFuel m) m e x1 y1 x2 y2 with
    | ok m' => exact (setElevation_frame_any fs _ m m' e x1 y1 x2 y2 hwf h).wf hwf
    | error e => exact hwf

/-- **len_sq**: after every history of resizes (grow, shrink, repeat), terrain assignments and elevation edits
the terrain list holds `size × size` tiles and tile `k` carries index `k` -/
theorem len_sq (fs : Bool) (ops : List Op) : ∀ (m : Map), WF m → WF (run fs m ops) := by
  induction ops with
  | nil => intro m h; exact h
  | cons op ops ih => intro m h; exact ih _ (applyOp_wf fs m h op)

theorem len_sq_length (fs : Bool) (ops : List Op) (m : Map) (h : WF m) :
    (run fs m ops).tiles.length = (run fs m ops).size * (run fs m ops).size := (len_sq fs ops m h).1

/-! ### each tile's index and coordinates agree with its position -/

/-- **tile_index**: the tile at position `i` has `tile.i = i`, `tile.xy = (i % size, i / size)`, and
`i = y * size + x` -/
theorem tile_index (m : Map) (hwf : WF m) (i : Nat) (hi : i < m.size * m.size) :
    ∃ t, m.tiles[i]? = some t ∧ t.index = (i : Int) ∧
      tileXY m t = .ok (((i % m.size : Nat) : Int), ((i / m.size : Nat) : Int)) ∧
      i = (i / m.size) * m.size + i % m.size ∧ i % m.size < m.size ∧ i / m.size < m.size := by
  have hlt : i < m.tiles.length := by rw [hwf.1]; exact hi
  have hg := List.getElem?_eq_getElem hlt
  refine ⟨m.tiles[i], hg, hwf.2 i _ hg, tileXY_wf m hwf i _ hg, ?_, (xy_lt_of_lt_sq i m.size hi).1,
    (xy_lt_of_lt_sq i m.size hi).2⟩
  have := Nat.mod_add_div' i m.size
  omega

/-- `xy_to_i` and `i_to_xy` are mutually inverse on the map -/
theorem xy_i_roundtrip (s x y : Nat) (hx : x < s) (hy : y < s) :
    xyToI (x : Int) (y : Int) s = .ok (x + y * s) ∧ iToXY ((x + y * s : Nat) : Int) s = .ok ((x : Int), (y : Int)) := by
  refine ⟨xyToI_nat x y s hx hy, ?_⟩
  rw [iToXY_nat _ s (pos_lt_sq x y s hx hy)]
  have h := xy_of_xyToI (x : Int) (y : Int) s (x + y * s) (xyToI_nat x y s hx hy)
  exact congrArg Except.ok h

/-! ### `get_tile` by coordinates and by index -/

/-- `get_tile(x, y)` returns the tile at position `x + y * size` (whatever the index guard) -/
theorem get_xy (f : Bool) (m : Map) (hwf : WF m) (x y : Nat) (hx : x < m.size) (hy : y < m.size) :
    ∃ t, m.tiles[x + y * m.size]? = some t ∧ getTile f m (some (x : Int)) (some (y : Int)) none = .ok t := by
  have hlt : x + y * m.size < m.tiles.length := by rw [hwf.1]; exact pos_lt_sq x y m.size hx hy
  exact ⟨_, List.getElem?_eq_getElem hlt, getTile_of_pos f m _ _ _ _ _ (getPos_xy f m hwf x y hx hy)
    (List.getElem?_eq_getElem hlt)⟩

/-- **get_agree** (repaired guard): for every valid index `i < size²`, `get_tile(i=i)` and
`get_tile(i % size, i / size)` return the same tile, namely the one at position `i` -/
theorem get_agree (m : Map) (hwf : WF m) (i : Nat) (hi : i < m.size * m.size) :
    ∃ t, m.tiles[i]? = some t ∧ getTile true m none none (some (i : Int)) = .ok t ∧
      getTile true m (some ((i % m.size : Nat) : Int)) (some ((i / m.size : Nat) : Int)) none = .ok t := by
  obtain ⟨t, ht, _, _, hdecomp, hx, hy⟩ := tile_index m hwf i hi
  refine ⟨t, ht, getTile_of_pos true m _ _ _ i t (getPos_i true m hwf i (by simpa using hi) hi) ht, ?_⟩
  have hp := getPos_xy true m hwf (i % m.size) (i / m.size) hx hy
  have e : i % m.size + i / m.size * m.size = i := by omega
  rw [e] at hp
  exact getTile_of_pos true m _ _ _ i t hp ht

/-- **get_agree_partial** (pinned guard): the two lookups agree for the indices the guard lets through, `i < size` -/
theorem get_agree_partial (m : Map) (hwf : WF m) (i : Nat) (hi : i < m.size) :
    ∃ t, m.tiles[i]? = some t ∧ getTile false m none none (some (i : Int)) = .ok t ∧
      getTile false m (some ((i % m.size : Nat) : Int)) (some ((i / m.size : Nat) : Int)) none = .ok t := by
  have hi2 : i < m.size * m.size := by
    have : 1 * m.size ≤ m.size * m.size := Nat.mul_le_mul_right _ (by omega)
    omega
  obtain ⟨t, ht, _, _, hdecomp, hx, hy⟩ := tile_index m hwf i hi2
  refine ⟨t, ht, getTile_of_pos false m _ _ _ i t (getPos_i false m hwf i (by simpa using hi) hi2) ht, ?_⟩
  have hp := getPos_xy false m hwf (i % m.size) (i / m.size) hx hy
  have e : i % m.size + i / m.size * m.size = i := by omega
  rw [e] at hp
  exact getTile_of_pos false m _ _ _ i t hp ht

/-- the pinned guard (F8): every valid index beyond the first row is rejected by `get_tile(i=…)` although
`get_tile(x, y)` finds the tile – on every map -/
theorem get_asis_rejects (m : Map) (hwf : WF m) (i : Nat) (h1 : m.size ≤ i) (hi : i < m.size * m.size) :
    getTile false m none none (some (i : Int)) = .error .value ∧
      ∃ t, m.tiles[i]? = some t ∧
        getTile false m (some ((i % m.size : Nat) : Int)) (some ((i / m.size : Nat) : Int)) none = .ok t := by
  constructor
  · have := getPos_i_reject false m (i : Int) (by simp; omega)
    simp [getTile, this, bind, Except.bind]
  · obtain ⟨t, ht, _, _, hdecomp, hx, hy⟩ := tile_index m hwf i hi
    have hp := getPos_xy false m hwf (i % m.size) (i / m.size) hx hy
    have e : i % m.size + i / m.size * m.size = i := by omega
    rw [e] at hp
    exact ⟨t, ht, getTile_of_pos false m _ _ _ i t hp ht⟩

/-- a 2×2 map: the witness of F8 -/
def m2 : Map := { size := 2, tiles := resetIndices (List.replicate 4 Tile.fresh) }

/-- **get_agree_counter**: on a 2×2 map index 2 is valid (`2 < 4`), `get_tile(0, 1)` returns the tile, the pinned
`get_tile(i=2)` raises; the repaired guard returns the same tile -/
theorem get_agree_counter :
    getTile false m2 none none (some 2) = .error .value ∧
    getTile false m2 (some 0) (some 1) none = .ok { Tile.fresh with index := 2 } ∧
    getTile true m2 none none (some 2) = .ok { Tile.fresh with index := 2 } := by decide

/-- indices outside `0 ≤ i < size²` are rejected (repaired guard), and so are coordinates outside the map -/
theorem get_rejects_outside (m : Map) (i : Int) (h : i < 0 ∨ i ≥ (m.size : Int) * (m.size : Int)) :
    getTile true m none none (some i) = .error .value := by
  have := getPos_i_reject true m i (by simpa using h)
  simp [getTile, this, bind, Except.bind]

theorem get_xy_rejects_outside (f : Bool) (m : Map) (x y : Int) (h : x < 0 ∨ y < 0 ∨ x ≥ m.size ∨ y ≥ m.size) :
    getTile f m (some x) (some y) none = .error .value := by
  simp [getTile, getPos_xy_oob f m x y h, bind, Except.bind]

/-! ### changing the map size -/

/-- on a consistent map the `map_size` setter never raises and yields the requested size -/
theorem resize_succeeds (m : Map) (hwf : WF m) (b : Nat) : ∃ m', setSize m b = .ok m' ∧ m'.size = b ∧ WF m' :=
  let ⟨m', h, hs, hw, _⟩ := setSize_spec m b hwf; ⟨m', h, hs, hw⟩

/-- **resize_preserves**: a tile whose `(x, y)` exists in both sizes keeps its content at the same `(x, y)` (and is
re-stamped with its new index `x + y * b`) -/
theorem resize_preserves (m m' : Map) (hwf : WF m) (b : Nat) (h : setSize m b = .ok m') (x y : Nat)
    (hx : x < min m.size b) (hy : y < min m.size b) :
    ∃ t t', m.tiles[x + y * m.size]? = some t ∧ m'.tiles[x + y * b]? = some t' ∧
      t'.content = t.content ∧ t'.index = ((x + y * b : Nat) : Int) := by
  obtain ⟨m'', h', _, _, hspec⟩ := setSize_spec m b hwf
  rw [h] at h'; injection h' with h'; subst h'
  have hxa : x < m.size := by omega
  have hya : y < m.size := by omega
  have hlt : x + y * m.size < m.tiles.length := by rw [hwf.1]; exact pos_lt_sq x y m.size hxa hya
  have := hspec x y (by omega) (by omega)
  simp only [hxa, hya, and_self, if_true, List.getElem?_eq_getElem hlt, Option.map_some] at this
  exact ⟨_, _, List.getElem?_eq_getElem hlt, this, rfl, rfl⟩

/-- **resize_default**: a tile of the new map whose `(x, y)` did not exist before is a default tile
(`GRASS_1`, elevation 0, layer -1) stamped with its index -/
theorem resize_default (m m' : Map) (hwf : WF m) (b : Nat) (h : setSize m b = .ok m') (x y : Nat)
    (hx : x < b) (hy : y < b) (hnew : ¬ (x < m.size ∧ y < m.size)) :
    m'.tiles[x + y * b]? = some { Tile.fresh with index := ((x + y * b : Nat) : Int) } := by
  obtain ⟨m'', h', _, _, hspec⟩ := setSize_spec m b hwf
  rw [h] at h'; injection h' with h'; subst h'
  have := hspec x y hx hy
  rw [if_neg hnew] at this
  exact this

/-- setting the size the map already has changes nothing (the "repeat" of a resize sequence) -/
theorem resize_same (m : Map) : setSize m m.size = .ok m := by simp [setSize]

/-! ### square selections -/

/-- **square_rowmajor**: `get_square_2d` returns one row per `y` in `y1..y2` (in that order), row `y` holding exactly
the tiles at `(x1, y) … (x2, y)` in that order; `get_square_1d` is their concatenation, i.e. the tiles of the
rectangle in row-major order -/
theorem square_rowmajor (m : Map) (hwf : WF m) (x1 y1 x2 y2 : Nat)
    (hx : x1 ≤ x2) (hx2 : x2 < m.size) (hy : y1 ≤ y2) (hy2 : y2 < m.size) :
    ∃ rows, square2d m x1 y1 x2 y2 = .ok rows ∧ square1d m x1 y1 x2 y2 = .ok rows.flatten ∧
      rows.length = y2 + 1 - y1 ∧ rows.flatten.length = (y2 + 1 - y1) * (x2 + 1 - x1) ∧
      ∀ dx dy, dx ≤ x2 - x1 → dy ≤ y2 - y1 →
        (∃ r, rows[dy]? = some r ∧ r.length = x2 + 1 - x1 ∧ r[dx]? = m.tiles[(x1 + dx) + (y1 + dy) * m.size]?) ∧
        rows.flatten[dx + dy * (x2 + 1 - x1)]? = m.tiles[(x1 + dx) + (y1 + dy) * m.size]? ∧
        (m.tiles[(x1 + dx) + (y1 + dy) * m.size]?).isSome := by
  have hspec := squareRows_spec m x1 y1 x2 y2 hx hx2 hy hy2
  refine ⟨_, hspec, by simp [square1d, hspec, Except.map], by simp, ?_, ?_⟩
  · have hu : ∀ r ∈ (List.range (y2 + 1 - y1)).map (fun dy =>
        (m.tiles.take (x2 + (y1 + dy) * m.size + 1)).drop (x1 + (y1 + dy) * m.size)), r.length = x2 + 1 - x1 := by
      intro r hr
      simp only [List.mem_map, List.mem_range] at hr
      obtain ⟨dy, hdy, rfl⟩ := hr
      exact squareRow_length m hwf x1 x2 (y1 + dy) hx hx2 (by omega)
    rw [length_flatten_uniform _ _ hu]; simp
  · intro dx dy hdx hdy
    have hu : ∀ r ∈ (List.range (y2 + 1 - y1)).map (fun dy =>
        (m.tiles.take (x2 + (y1 + dy) * m.size + 1)).drop (x1 + (y1 + dy) * m.size)), r.length = x2 + 1 - x1 := by
      intro r hr
      simp only [List.mem_map, List.mem_range] at hr
      obtain ⟨dy, hdy, rfl⟩ := hr
      exact squareRow_length m hwf x1 x2 (y1 + dy) hx hx2 (by omega)
    have hrow : ((List.range (y2 + 1 - y1)).map (fun dy =>
        (m.tiles.take (x2 + (y1 + dy) * m.size + 1)).drop (x1 + (y1 + dy) * m.size)))[dy]? =
        some ((m.tiles.take (x2 + (y1 + dy) * m.size + 1)).drop (x1 + (y1 + dy) * m.size)) := by
      simp [List.getElem?_range (show dy < y2 + 1 - y1 by omega)]
    refine ⟨⟨_, hrow, squareRow_length m hwf x1 x2 (y1 + dy) hx hx2 (by omega),
      squareRow_get m x1 x2 (y1 + dy) dx hdx hx⟩, ?_, ?_⟩
    · rw [getElem?_flatten_uniform _ _ hu dx dy (by omega), hrow]
      exact squareRow_get m x1 x2 (y1 + dy) dx hdx hx
    · have hlt : (x1 + dx) + (y1 + dy) * m.size < m.tiles.length := by
        rw [hwf.1]; exact pos_lt_sq _ _ m.size (by omega) (by omega)
      simp [List.getElem?_eq_getElem hlt]

/-- a rectangle that leaves the map is rejected -/
theorem square_rejects_outside (m : Map) (x1 y1 x2 y2 : Int) (hy : y1 ≤ y2)
    (h : x1 < 0 ∨ x1 ≥ m.size ∨ y1 < 0 ∨ y1 ≥ m.size) : ∃ e, squareRows m x1 y1 x2 y2 = .error e := by
  have hn : (y2 + 1 - y1).toNat = (y2 - y1).toNat + 1 := by omega
  have e : xyToI x1 y1 m.size = .error .value := xyToI_oob _ _ _ (by omega)
  refine ⟨.value, ?_⟩
  simp [squareRows, intRange, hn, List.range_succ_eq_map, List.mapM_cons, e, bind, Except.bind]

/-! ### non-vacuity: the hypotheses are met by ordinary maps, and the numbers are the expected ones -/

/-- a 3×3 map with distinguishable tiles -/
def m3 : Map := { size := 3, tiles := resetIndices ((List.range 9).map (fun (c : Nat) =>
  { terrainId := (c : Int), elevation := (c : Int) % 5, layer := 100 + (c : Int), index := -1 })) }

example : WF m3 := wf_resetIndices 3 _ (by simp)
example : WF m2 := wf_resetIndices 2 _ (by simp)
example : (run false m3 [.setSize 2, .setSize 4, .setSize 4, .setElevation 3 0 0 (some 1) (some 1)]).tiles.length = 16 := by
  decide +kernel
example : (setSize m3 2).map (fun m => m.tiles.map (·.layer)) = .ok [100, 101, 103, 104] := by decide +kernel
example : (setSize m3 4).map (fun m => m.tiles.map (·.layer)) =
    .ok [100, 101, 102, -1, 103, 104, 105, -1, 106, 107, 108, -1, -1, -1, -1, -1] := by decide +kernel
example : (square1d m3 1 0 2 1).map (fun l => l.map (·.index)) = .ok [1, 2, 4, 5] := by decide +kernel
example : (getTile true m3 none none (some 7)).map (·.layer) = .ok 107 ∧
    (getTile true m3 (some 1) (some 2) none).map (·.layer) = .ok 107 := by decide +kernel

end Aoe.Props.C11
