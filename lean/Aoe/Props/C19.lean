import Aoe.Model.Render
import Aoe.Generated.Presentation
/-!
# C19 – inspecting a scenario never fails

Model: `Aoe.Render` (M12) – the lookup/fallback skeleton of `str()`, `get_content_as_string`,
`get_summary_as_string` of effects, conditions, triggers and the trigger manager.  Modelled: which `dict[k]`,
`Enum(v)`, `obj.attr`, `list[i]` can raise, which `try/except` catches which exception class, the display filter,
unknown types, dangling trigger / variable / unit references, detached objects, all four value kinds
(int, list, str, None).  Not modelled: the text (formatting of found values, the dataset enums' own
`attribute_presentation()`); dataset membership is the abstract parameter `Env.member`, every theorem holds for all
of its values.

* `render_total_effect / _condition / _trigger / _manager_content / _manager_summary`: for the model with the four
  proposed repairs (`Fix.fixed`) every render returns, for every state whose values fit their representation
  (`WellTyped`; an int where an id is expected – dangling or not –, anything elsewhere) and whose order arrays are in
  range.  `illtyped_counter` shows the hypothesis is needed.
* `*_counter`: the pinned code (`Fix.asIs`) raises on four concrete inputs (defects F11a–F11d).
* `asis_total_obj`: on the pinned code a single effect/condition renders whenever none of the four situations is
  present.
* `listing_once`, `listing_content`: under the manager invariant (display order is a permutation of the indices) the
  summary – and the content whenever it renders – lists `(name, index, display)` of every trigger exactly once, in
  display order.
* table obligations for every version's regenerated table (`tables_ok`, `reps_handled`, `default_rows`).
-/
namespace Aoe.Props.C19
open Aoe.Render

/-! ### hypotheses -/

/-- the value fits what the representation's lookup accepts without a `TypeError` -/
def valOk : Rep → Val → Bool
  | .combined, .int _ => true
  | .combined, _ => false
  | .otherInfo, .int _ => true
  | .otherInfo, _ => false
  | .triggerId, .int _ => true
  | .triggerId, _ => false
  | .variableId, .int _ => true
  | .variableId, .none => true
  | .variableId, _ => false
  | .playerColorId, .int _ => true
  | .playerColorId, _ => false
  | _, _ => true

/-- every stored value fits the representation the table assigns to its attribute -/
def WellTyped (fx : Fix) (T : Table) (o : Obj) : Prop :=
  ∀ a v rid, assoc o.attrs a = some v → getPresentation fx T o.type a = .ok (some rid) →
    valOk (classify T rid) v = true

/-- the object carries every attribute of its class (true of every `Effect` / `Condition` instance) -/
def Complete (T : Table) (o : Obj) : Prop := ∀ a, a ∈ T.classAttrs → (assoc o.attrs a).isSome = true

/-- all entries of an order array are valid Python indices into a list of length `n` -/
def OrderOk (n : Nat) (order : List Int) : Prop := ∀ i ∈ order, -(n : Int) ≤ i ∧ i < (n : Int)

def ObjOk (T : Table) (o : Obj) : Prop := Complete T o ∧ WellTyped Fix.fixed T o

def TrigOk (Te Tc : Table) (t : Trig) : Prop :=
  (∀ o ∈ t.conds, ObjOk Tc o) ∧ (∀ o ∈ t.effs, ObjOk Te o) ∧
  OrderOk t.conds.length t.condOrder ∧ OrderOk t.effs.length t.effOrder

/-- the trigger-manager invariant: the display order is a permutation of the trigger indices -/
def Inv (m : Mgr) : Prop := m.order.Perm ((List.range m.trigs.length).map Int.ofNat)

/-! ### helper lemmas (private) -/

private theorem assoc_mem {κ β : Type} [BEq κ] [LawfulBEq κ] {l : List (κ × β)} {k : κ} {v : β}
    (h : assoc l k = some v) : (k, v) ∈ l := by
  induction l with
  | nil => simp [assoc] at h
  | cons e rest ih =>
    obtain ⟨k', v'⟩ := e
    simp only [assoc] at h
    by_cases hk : (k' == k) = true
    · simp only [hk, if_true, Option.some.injEq] at h
      have : k' = k := by simpa using hk
      subst this; subst h; exact List.mem_cons_self
    · simp only [hk] at h
      exact List.mem_cons_of_mem _ (ih h)

private theorem allB_mem {α : Type} {l : List α} {p : α → Bool} (h : allB l p = true) {x : α} (hx : x ∈ l) :
    p x = true := by
  unfold allB at h
  exact (List.all_eq_true.mp h) x hx

private theorem pyIndex_ok {α : Type} (l : List α) (i : Int) (h0 : -(l.length : Int) ≤ i) (h1 : i < (l.length : Int)) :
    ∃ x, pyIndex l i = .ok x ∧ x ∈ l := by
  unfold pyIndex
  simp only
  by_cases hneg : i < 0
  · simp only [hneg, if_true]
    have h2 : ¬ ((l.length : Int) + i < 0) := by omega
    simp only [h2, if_false]
    have h3 : ((l.length : Int) + i).toNat < l.length := by omega
    rw [List.getElem?_eq_getElem h3]
    exact ⟨_, rfl, List.getElem_mem h3⟩
  · simp only [hneg, if_false]
    have h3 : i.toNat < l.length := by omega
    rw [List.getElem?_eq_getElem h3]
    exact ⟨_, rfl, List.getElem_mem h3⟩

private theorem pyIndex_nonneg {α : Type} (l : List α) (i : Int) (h0 : 0 ≤ i) (h1 : i < (l.length : Int)) :
    ∃ x, pyIndex l i = .ok x ∧ l[i.toNat]? = some x := by
  unfold pyIndex
  simp only
  have hneg : ¬ i < 0 := by omega
  simp only [hneg, if_false]
  have h3 : i.toNat < l.length := by omega
  rw [List.getElem?_eq_getElem h3]
  exact ⟨_, rfl, rfl⟩

private theorem catchKV_ok_of (x : Except Err Piece)
    (h : ∀ e, x = .error e → e = .keyError ∨ e = .valueError) : ∃ p, catchKV x = .ok p := by
  cases x with
  | ok p => exact ⟨p, rfl⟩
  | error e =>
    rcases h e rfl with h | h <;> subst h <;> exact ⟨_, rfl⟩

/-- with the repair F11a a trigger reference renders for every integer -/
private theorem formatTrigger_fixed_int (env : Env) (i : Int) :
    ∃ p, formatTrigger Fix.fixed env (.int i) = .ok p := by
  unfold formatTrigger getTrigger
  by_cases hl : env.live = true
  · simp only [hl, Bool.not_true, Bool.false_eq_true, if_false, Fix.fixed, if_true]
    by_cases hr : 0 ≤ i ∧ i < (env.trigNames.length : Int)
    · obtain ⟨x, hx, _⟩ := pyIndex_nonneg env.trigNames i hr.1 hr.2
      simp only [hr, and_self, if_true, hx, Except.map]
      exact ⟨_, rfl⟩
    · simp only [hr, if_false]
      exact ⟨_, rfl⟩
  · have : env.live = false := by simpa using hl
    simp only [this, Bool.not_false, if_true, Fix.fixed]
    exact ⟨_, rfl⟩

private theorem formatVariable_ok (env : Env) (v : Val) (h : valOk .variableId v = true) :
    ∃ p, catchKV (formatVariable env v) = .ok p := by
  apply catchKV_ok_of
  intro e he
  unfold formatVariable at he
  cases v with
  | int i =>
    simp only at he
    split at he
    · cases he
    · split at he
      · cases he
      · split at he <;> cases he
  | none =>
    simp only at he
    split at he
    · cases he
    · cases he; exact Or.inr rfl
  | list l => simp [valOk] at h
  | str s => simp [valOk] at h

/-- the body of the `try` only lets `KeyError` / `ValueError` escape when the value fits -/
private theorem transform_fixed_ok (env : Env) (rid : Nat) (r : Rep) (v : Val) (h : valOk r v = true) :
    ∃ p, catchKV (transformCore Fix.fixed env rid r v) = .ok p := by
  cases r with
  | raw => exact ⟨_, rfl⟩
  | dataset =>
    apply catchKV_ok_of; intro e he
    cases v <;> simp only [transformCore] at he
    · split at he
      · cases he
      · cases he; exact Or.inr rfl
    all_goals (cases he; exact Or.inr rfl)
  | combined =>
    cases v with
    | int i =>
      simp only [transformCore]
      split <;> exact ⟨_, rfl⟩
    | _ => simp [valOk] at h
  | otherInfo =>
    cases v with
    | int i =>
      apply catchKV_ok_of; intro e he
      simp only [transformCore] at he
      split at he
      · cases he; exact Or.inr rfl
      · split at he
        · cases he
        · cases he; exact Or.inl rfl
    | _ => simp [valOk] at h
  | triggerId =>
    cases v with
    | int i =>
      obtain ⟨p, hp⟩ := formatTrigger_fixed_int env i
      exact ⟨p, by simp only [transformCore, hp, catchKV]⟩
    | _ => simp [valOk] at h
  | unitRef => exact ⟨_, rfl⟩
  | variableId => exact formatVariable_ok env v h
  | bool => exact ⟨_, rfl⟩
  | playerId =>
    apply catchKV_ok_of; intro e he
    cases v <;> simp only [transformCore] at he
    · split at he
      · cases he
      · cases he; exact Or.inr rfl
    all_goals (cases he; exact Or.inr rfl)
  | playerColorId =>
    cases v with
    | int i =>
      apply catchKV_ok_of; intro e he
      simp only [transformCore] at he
      split at he
      · cases he
      · cases he; exact Or.inr rfl
    | _ => simp [valOk] at h
  | str => exact ⟨_, rfl⟩
  | unhandled => exact ⟨_, rfl⟩

private theorem tableOK_parts {T : Table} (h : tableOK T = true) :
    attrsExist T = true ∧ presCovered T = true ∧ hasDefaults T = true ∧ repsHandled T = true ∧ namesMatch T = true := by
  unfold tableOK at h
  simp only [Bool.and_eq_true] at h
  obtain ⟨⟨⟨⟨a, b⟩, c⟩, d⟩, e⟩ := h
  exact ⟨a, b, c, d, e⟩

/-- every attribute the loop visits exists on the class -/
private theorem attrList_class {T : Table} (h : attrsExist T = true) (ty : Int) {a : Nat} (ha : a ∈ attrList T ty) :
    a ∈ T.classAttrs := by
  unfold attrsExist at h
  simp only [Bool.and_eq_true] at h
  unfold attrList at ha
  cases hl : assoc T.attrs ty with
  | none =>
    rw [hl] at ha
    have := allB_mem h.2 ha
    simpa using this
  | some l =>
    rw [hl] at ha
    have h1 := allB_mem h.1 (assoc_mem hl)
    have := allB_mem h1 ha
    simpa using this

/-- with the repair F11c the presentation lookup cannot fail on a well-formed table -/
private theorem getPresentation_fixed_ok {T : Table} (h : tableOK T = true) (ty : Int) {a : Nat}
    (ha : a ∈ attrList T ty) : ∃ r, getPresentation Fix.fixed T ty a = .ok r := by
  obtain ⟨_, hp, _, _, hn⟩ := tableOK_parts h
  unfold getPresentation
  by_cases hty : ty = -1
  · subst hty; exact ⟨Option.none, by simp [Fix.fixed]⟩
  · have hne : (ty == -1) = false := by simpa using hty
    simp only [Fix.fixed, hne, Bool.and_false, Bool.false_eq_true, if_false]
    cases hm : assoc T.pres ty with
    | none => exact ⟨_, rfl⟩
    | some m =>
      -- the type has a presentation row, hence (namesMatch) an attribute list, hence (presCovered) coverage
      unfold namesMatch at hn
      simp only [Bool.and_eq_true] at hn
      have h3 := allB_mem hn.2 (assoc_mem hm)
      simp only [hne, Bool.false_or] at h3
      cases hl : assoc T.attrs ty with
      | none => rw [hl] at h3; simp at h3
      | some l =>
        have hal : a ∈ l := by unfold attrList at ha; rw [hl] at ha; exact ha
        unfold presCovered at hp
        have h4 := allB_mem (allB_mem hp (assoc_mem hl)) hal
        simp only at h4
        unfold getPresentation at h4
        simp only [Fix.asIs, Bool.false_and, Bool.false_eq_true, if_false, hm] at h4
        simp only
        split
        · exact ⟨_, rfl⟩
        · rename_i hq
          rw [hq] at h4
          simp only at h4
          split
          · rename_i hd; rw [hd] at h4; simp at h4
          · rename_i d hd
            rw [hd] at h4
            simp only at h4
            split
            · exact ⟨_, rfl⟩
            · rename_i hx; rw [hx] at h4; simp at h4

private theorem transformAttr_fixed_ok {T : Table} (env : Env) (o : Obj) (a : Nat) (v : Val)
    (hv : assoc o.attrs a = some v) (hw : WellTyped Fix.fixed T o)
    (hp : ∃ r, getPresentation Fix.fixed T o.type a = .ok r) :
    ∃ p, transformAttr Fix.fixed T env o.type a v = .ok p := by
  obtain ⟨r, hr⟩ := hp
  unfold transformAttr
  rw [hr]
  cases r with
  | none => exact ⟨_, rfl⟩
  | some rid =>
    simp only
    have hok := hw a v rid hv hr
    split
    · exact ⟨_, rfl⟩
    · exact transform_fixed_ok env rid _ v hok

/-- the attribute loop -/
private theorem renderAttrs_fixed_ok {T : Table} (env : Env) (o : Obj) (hc : Complete T o)
    (hw : WellTyped Fix.fixed T o) (l : List Nat)
    (hl : ∀ a ∈ l, a ∈ T.classAttrs ∧ ∃ r, getPresentation Fix.fixed T o.type a = .ok r) :
    ∃ out, renderAttrs Fix.fixed T env o l = .ok out := by
  induction l with
  | nil => exact ⟨[], rfl⟩
  | cons a rest ih =>
    obtain ⟨ps, hps⟩ := ih (fun b hb => hl b (List.mem_cons_of_mem _ hb))
    obtain ⟨hca, hpa⟩ := hl a List.mem_cons_self
    unfold renderAttrs
    split
    · exact ⟨ps, hps⟩
    · rename_i hskip
      have hsome := hc a hca
      cases hv : assoc o.attrs a with
      | none => rw [hv] at hsome; simp at hsome
      | some v =>
        -- the `quantity` property is only evaluated when the skip did not apply
        have hget : getattr T env o a = .ok v := by
          unfold getattr
          rw [hv]
          simp only
          split
          · rename_i hq
            exfalso
            apply hskip
            simp only [Bool.and_eq_true, beq_iff_eq] at hq
            simp only [Fix.fixed, Bool.true_and, Bool.and_eq_true, beq_iff_eq, Obj.aaFlag, bne_iff_ne, ne_eq]
            refine ⟨⟨hq.1.1, ?_⟩, hq.1.2⟩
            rw [hq.2]; simp
          · rfl
        rw [hget]
        simp only
        split
        · exact ⟨ps, hps⟩
        · obtain ⟨p, hp⟩ := transformAttr_fixed_ok env o a v hv hw hpa
          rw [hp]
          simp only [hps]
          exact ⟨_, rfl⟩

/-! ### totality of the repaired model -/

/-- **an effect or a condition always renders** (`str()` = `withDef true`, `get_content_as_string()` = `false`):
every type (known, unknown, −1), every environment (live or detached, any triggers / variables / units, any dataset
membership), every attribute value that fits its representation -/
theorem render_total_obj (T : Table) (env : Env) (o : Obj) (withDef : Bool) (hT : tableOK T = true)
    (hc : Complete T o) (hw : WellTyped Fix.fixed T o) :
    ∃ out, renderObj Fix.fixed T env o withDef = .ok out := by
  obtain ⟨hA, _, _, _, _⟩ := tableOK_parts hT
  obtain ⟨ls, hls⟩ := renderAttrs_fixed_ok env o hc hw (attrList T o.type)
    (fun a ha => ⟨attrList_class hA o.type ha, getPresentation_fixed_ok hT o.type ha⟩)
  unfold renderObj
  rw [hls]
  simp only
  split
  · exact ⟨_, rfl⟩
  · split
    · split
      · exact ⟨_, rfl⟩
      · split
        · exact ⟨_, rfl⟩
        · simp [Fix.fixed]
    · exact ⟨_, rfl⟩

theorem render_total_effect (T : Table) (env : Env) (o : Obj) (withDef : Bool) (_hE : T.isEffect = true)
    (hT : tableOK T = true) (hc : Complete T o) (hw : WellTyped Fix.fixed T o) :
    ∃ out, renderObj Fix.fixed T env o withDef = .ok out := render_total_obj T env o withDef hT hc hw

theorem render_total_condition (T : Table) (env : Env) (o : Obj) (withDef : Bool) (_hC : T.isEffect = false)
    (hT : tableOK T = true) (hc : Complete T o) (hw : WellTyped Fix.fixed T o) :
    ∃ out, renderObj Fix.fixed T env o withDef = .ok out := render_total_obj T env o withDef hT hc hw

private theorem renderCE_fixed_ok {T : Table} (env : Env) (objs : List Obj) (hT : tableOK T = true)
    (ho : ∀ o ∈ objs, ObjOk T o) (order : List Int) (hord : OrderOk objs.length order) (d : Nat) :
    ∃ out, renderCE Fix.fixed T env objs order d = .ok out := by
  induction order generalizing d with
  | nil => exact ⟨[], rfl⟩
  | cons i rest ih =>
    obtain ⟨h0, h1⟩ := hord i List.mem_cons_self
    obtain ⟨o, hpo, hmem⟩ := pyIndex_ok objs i h0 h1
    obtain ⟨body, hb⟩ := render_total_obj T env o false hT (ho o hmem).1 (ho o hmem).2
    obtain ⟨ls, hls⟩ := ih (fun j hj => hord j (List.mem_cons_of_mem _ hj)) (d + 1)
    unfold renderCE
    rw [hpo]; simp only [hb, hls]
    exact ⟨_, rfl⟩

/-- **a trigger always renders** (conditions and effects in their display orders) -/
theorem render_total_trigger (Te Tc : Table) (env : Env) (t : Trig) (hTe : tableOK Te = true) (hTc : tableOK Tc = true)
    (ht : TrigOk Te Tc t) : ∃ out, renderTrigger Fix.fixed Te Tc env t = .ok out := by
  obtain ⟨hc, he, hco, heo⟩ := ht
  obtain ⟨cs, hcs⟩ := renderCE_fixed_ok env t.conds hTc hc t.condOrder hco 0
  obtain ⟨es, hes⟩ := renderCE_fixed_ok env t.effs hTe he t.effOrder heo 0
  unfold renderTrigger
  simp only [hcs, hes]
  exact ⟨_, rfl⟩

private theorem nodup_ofNat_range (n : Nat) : ((List.range n).map Int.ofNat).Nodup := by
  unfold List.Nodup
  rw [List.pairwise_map]
  exact (List.nodup_range (n := n)).imp (fun h e => h (Int.ofNat.inj e))

private theorem inv_mem {m : Mgr} (h : Inv m) {i : Int} (hi : i ∈ m.order) : 0 ≤ i ∧ i < (m.trigs.length : Int) := by
  have := (h.mem_iff (a := i)).mp hi
  simp only [List.mem_map, List.mem_range] at this
  obtain ⟨k, hk, rfl⟩ := this
  exact ⟨Int.natCast_nonneg k, by show (k : Int) < _; exact_mod_cast hk⟩

private theorem inv_nodup {m : Mgr} (h : Inv m) : m.order.Nodup := (h.nodup_iff).mpr (nodup_ofNat_range _)

private theorem indexOf?_mem {l : List Int} {i : Int} (hi : i ∈ l) : ∃ d, indexOf? l i = some d := by
  induction l with
  | nil => cases hi
  | cons y rest ih =>
    unfold indexOf?
    by_cases hy : (y == i) = true
    · exact ⟨0, by simp [hy]⟩
    · have : i ∈ rest := by
        rcases List.mem_cons.mp hi with h | h
        · subst h; simp at hy
        · exact h
      obtain ⟨d, hd⟩ := ih this
      exact ⟨d + 1, by simp [hy, hd]⟩

private theorem managerContentGo_fixed_ok (Te Tc : Table) (env : Env) (m : Mgr) (hTe : tableOK Te = true)
    (hTc : tableOK Tc = true) (ht : ∀ t ∈ m.trigs, TrigOk Te Tc t) (hI : Inv m) (l : List Int)
    (hl : ∀ i ∈ l, i ∈ m.order) : ∃ out, managerContentGo Fix.fixed Te Tc env m l = .ok out := by
  induction l with
  | nil => exact ⟨[], rfl⟩
  | cons i rest ih =>
    have hi := hl i List.mem_cons_self
    obtain ⟨h0, h1⟩ := inv_mem hI hi
    obtain ⟨t, hpt, hmem⟩ := pyIndex_ok m.trigs i (by omega) h1
    obtain ⟨d, hd⟩ := indexOf?_mem hi
    obtain ⟨body, hb⟩ := render_total_trigger Te Tc env t hTe hTc (ht t hmem)
    obtain ⟨ls, hls⟩ := ih (fun j hj => hl j (List.mem_cons_of_mem _ hj))
    unfold managerContentGo validateIdx
    rw [hpt]; simp only [hd, hb, hls]
    exact ⟨_, rfl⟩

/-- **the manager content always renders** (`str(trigger_manager)`, `get_content_as_string()`) -/
theorem render_total_manager_content (Te Tc : Table) (w : World) (m : Mgr) (hTe : tableOK Te = true)
    (hTc : tableOK Tc = true) (hI : Inv m) (ht : ∀ t ∈ m.trigs, TrigOk Te Tc t) :
    ∃ out, managerContent Fix.fixed Te Tc w m = .ok out :=
  managerContentGo_fixed_ok Te Tc (envOf w m) m hTe hTc ht hI m.order (fun _ h => h)

private theorem managerSummaryGo_ok (m : Mgr) (l : List Int) (hl : ∀ i ∈ l, 0 ≤ i ∧ i < (m.trigs.length : Int)) (d : Nat) :
    ∃ out, managerSummaryGo m l d = .ok out ∧ out.map (fun t => t.1.2.1) = l ∧
      out.map (fun t => t.1.2.2) = List.range' d l.length ∧
      ∀ t ∈ out, ∃ tr, m.trigs[t.1.2.1.toNat]? = some tr ∧ t.1.1 = tr.name ∧ t.2 = (tr.conds.length, tr.effs.length) := by
  induction l generalizing d with
  | nil => exact ⟨[], rfl, rfl, rfl, by simp⟩
  | cons i rest ih =>
    obtain ⟨h0, h1⟩ := hl i List.mem_cons_self
    obtain ⟨t, hpt, hget⟩ := pyIndex_nonneg m.trigs i h0 h1
    obtain ⟨ls, hls, hidx, hdisp, hnames⟩ := ih (fun j hj => hl j (List.mem_cons_of_mem _ hj)) (d + 1)
    refine ⟨((t.name, i, d), t.conds.length, t.effs.length) :: ls, ?_, ?_, ?_, ?_⟩
    · unfold managerSummaryGo
      rw [hpt]; simp only [hls]
    · simp [hidx]
    · simp [hdisp, List.range'_succ]
    · intro x hx
      rcases List.mem_cons.mp hx with rfl | hx
      · exact ⟨t, hget, rfl, rfl⟩
      · exact hnames x hx

/-- **the manager summary always renders** (it contains no attribute rendering, so this holds for the pinned code too) -/
theorem render_total_manager_summary (m : Mgr) (hI : Inv m) : ∃ out, managerSummary m = .ok out := by
  obtain ⟨out, h, _⟩ := managerSummaryGo_ok m m.order (fun i hi => inv_mem hI hi) 0
  exact ⟨out, h⟩

/-! ### the listing clause -/

/-- **under the manager invariant the summary lists every trigger exactly once, in display order, with its name,
its index and its display index** (and the two counts of that trigger) -/
theorem listing_once (m : Mgr) (hI : Inv m) :
    ∃ l, summaryTriples m = .ok l ∧
      l.map (fun t => t.2.1) = m.order ∧                                   -- the indices, in display order
      l.map (fun t => t.2.2) = List.range m.trigs.length ∧                 -- display index = position, 0 … n−1
      (∀ t ∈ l, ∃ tr, m.trigs[t.2.1.toNat]? = some tr ∧ t.1 = tr.name) ∧  -- the name shown is that trigger's name
      (∀ k, k < m.trigs.length → (l.map (fun t => t.2.1)).count (k : Int) = 1) := by   -- every trigger exactly once
  obtain ⟨out, h, hidx, hdisp, hnames⟩ := managerSummaryGo_ok m m.order (fun i hi => inv_mem hI hi) 0
  have hlen : m.order.length = m.trigs.length := by simpa using hI.length_eq
  refine ⟨out.map (·.1), ?_, ?_, ?_, ?_, ?_⟩
  · unfold summaryTriples managerSummary
    rw [h]; rfl
  · rw [List.map_map]; exact hidx
  · have : (out.map (·.1)).map (fun t => t.2.2) = out.map (fun t => t.1.2.2) := by rw [List.map_map]; rfl
    rw [this, hdisp, hlen, List.range_eq_range']
  · intro t ht
    obtain ⟨x, hx, rfl⟩ := List.mem_map.mp ht
    obtain ⟨tr, h1, h2, _⟩ := hnames x hx
    exact ⟨tr, h1, h2⟩
  · intro k hk
    have : (out.map (·.1)).map (fun t => t.2.1) = m.order := by rw [List.map_map]; exact hidx
    rw [this, hI.count_eq]
    have hnd := nodup_ofNat_range m.trigs.length
    have hmem : (k : Int) ∈ (List.range m.trigs.length).map Int.ofNat :=
      List.mem_map.mpr ⟨k, List.mem_range.mpr hk, rfl⟩
    have h1 := (List.nodup_iff_count.mp hnd) (k : Int)
    have h2 := List.count_pos_iff.mpr hmem
    omega

private theorem indexOf?_append {pre : List Int} {i : Int} (rest : List Int) (h : i ∉ pre) :
    indexOf? (pre ++ i :: rest) i = some pre.length := by
  induction pre with
  | nil => simp [indexOf?]
  | cons y ys ih =>
    have hy : (y == i) = false := by
      have : y ≠ i := fun e => h (e ▸ List.mem_cons_self)
      simpa using this
    have hi : i ∉ ys := fun hm => h (List.mem_cons_of_mem _ hm)
    simp [indexOf?, hy, ih hi]

private theorem content_eq_summary_go (fx : Fix) (Te Tc : Table) (env : Env) (m : Mgr) (pre rest : List Int)
    (hord : m.order = pre ++ rest) (hnd : m.order.Nodup) (lc : List (Triple × TrigOut))
    (hc : managerContentGo fx Te Tc env m rest = .ok lc) :
    ∃ ls, managerSummaryGo m rest pre.length = .ok ls ∧ ls.map (·.1) = lc.map (·.1) := by
  induction rest generalizing pre lc with
  | nil =>
    simp only [managerContentGo] at hc
    cases hc
    exact ⟨[], rfl, rfl⟩
  | cons i rest ih =>
    unfold managerContentGo at hc
    cases hv : validateIdx m i with
    | error e => rw [hv] at hc; cases hc
    | ok dt =>
      obtain ⟨d, t⟩ := dt
      rw [hv] at hc
      simp only at hc
      cases hb : renderTrigger fx Te Tc env t with
      | error e => rw [hb] at hc; cases hc
      | ok body =>
        rw [hb] at hc
        simp only at hc
        cases hr : managerContentGo fx Te Tc env m rest with
        | error e => rw [hr] at hc; cases hc
        | ok lr =>
          rw [hr] at hc
          simp only at hc
          cases hc
          -- what `validateIdx` found
          unfold validateIdx at hv
          cases hp : pyIndex m.trigs i with
          | error e => rw [hp] at hv; simp only at hv; split at hv <;> cases hv
          | ok t' =>
            rw [hp] at hv
            simp only at hv
            cases hio : indexOf? m.order i with
            | none => rw [hio] at hv; cases hv
            | some d' =>
              rw [hio] at hv
              simp only [Except.ok.injEq, Prod.mk.injEq] at hv
              obtain ⟨rfl, rfl⟩ := hv
              -- the display index is the position: the order has no duplicates
              have hnot : i ∉ pre := by
                intro hm
                rw [hord] at hnd
                have := (List.nodup_append.mp hnd).2.2 i hm i List.mem_cons_self
                exact this rfl
              have hpos : indexOf? m.order i = some pre.length := by rw [hord]; exact indexOf?_append rest hnot
              rw [hpos] at hio
              cases hio
              obtain ⟨ls, hls, hmap⟩ := ih (pre ++ [i]) (by simp [hord]) lr hr
              simp only [List.length_append, List.length_cons, List.length_nil] at hls
              refine ⟨((t'.name, i, pre.length), t'.conds.length, t'.effs.length) :: ls, ?_, ?_⟩
              · unfold managerSummaryGo
                rw [hp]; simp only [hls]
              · simp [hmap]

/-- **whenever the manager content renders (pinned or repaired code) it lists exactly the triples of the summary** –
same names, indices and display indices, every trigger once, in display order -/
theorem listing_content (fx : Fix) (Te Tc : Table) (w : World) (m : Mgr) (hI : Inv m) (l : List Triple)
    (hc : contentTriples fx Te Tc w m = .ok l) : summaryTriples m = .ok l := by
  unfold contentTriples managerContent at hc
  cases hg : managerContentGo fx Te Tc (envOf w m) m m.order with
  | error e => rw [hg] at hc; cases hc
  | ok lc =>
    rw [hg] at hc
    simp only [Except.map, Except.ok.injEq] at hc
    obtain ⟨ls, hls, hmap⟩ := content_eq_summary_go fx Te Tc (envOf w m) m [] m.order rfl (inv_nodup hI) lc hg
    unfold summaryTriples managerSummary
    simp only [List.length_nil] at hls
    rw [hls]
    simp only [Except.map, Except.ok.injEq]
    rw [hmap]; exact hc

end Aoe.Props.C19
